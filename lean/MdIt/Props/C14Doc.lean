/-
  C14 at whole-document level, completed — the two clauses `Props/Pipeline.doc_tree_wf` left OPEN —
  and C11 at document level.  Everything is about the composed model `MdIt.Pipeline` (`parseDoc`,
  `renderDoc`), for ALL sources, any `max_nesting`, with and without `sourcepos`.

  1 `doc_inline_leaves`     at every node of every parsed tree: `Text`, `TextSpecial`, `Softbreak`,
                            `Hardbreak` are childless; `CodeInline` / `Autolink` have exactly one child, a
                            childless NON-EMPTY `Text` (`ShapeD`).  Every configuration.
                            Route: node-SHAPE induction through the inline tokenizer
                            (`Lemmas/C14DocShape.lean`: `Inline.shape_induction`, `parseInline_shapes` —
                            every pushed node has its shape, `trailing_text_push / pop` and the delimiter
                            matching — `replaceAt`, wrapping the tail into `Em` / `Strong` — preserve
                            shapes), then the splice walk (`spliceNode_shape`), `FragmentsJoin`
                            (`joinNode_shape_aux`: a kept child keeps its children and its kind, or is a leaf
                            `Text` made of a leaf `Text` / `EmphMarker`: `Releaf`; the single non-empty text of
                            a code span survives the `retain`), `SyntaxPosRule` (`sourceposNode_shape`).
  2 `doc_text_nf_nojoin`    the text normal form (no empty `Text`, no two adjacent `Text`s, every sibling
                            list) when NO emphasis-like rule is configured (no join pass), provided the
                            paragraph rule is the LAST block rule (`Block.ParaLast`; every configuration
                            built from the shipped plugins: `paragraph::add` says `after_all()`).
                            Inline side: `Inline.text_induction` (`C14.push_no_adjacent`,
                            `pop_no_adjacent`) on the document's node type (`ofInline_nfat`).  Block side
                            (`Lemmas/C14DocBlock.lean`): no two `InlineRoot` placeholders are adjacent
                            siblings (`Block.parseBlocks_noAdjInl`) — they could only meet under an item of
                            a tight list, and `state.tight` at the end of an item excludes two adjacent
                            paragraphs (`Block.tokenize_tight`).
    `not_wf_without_paraLast`  the hypothesis cannot be dropped: chain `[list, paragraph, hr]`, source
                            `"- a\n  ***"` ↦ a tight item with the adjacent texts `a`, `***` (model by
                            `decide +kernel`; the real crate agrees: `md.block.add_rule::<ListScanner>()`,
                            `::<ParagraphScanner>()`, `::<HrScanner>()` in this order, no emphasis ↦
                            `ListItem[Text "a", Text "***"]`; with the emphasis plugin ↦ `Text "a***"`; with
                            `paragraph::add` in ANY position the rule stays last and the item is
                            `[Text "a", ThematicBreak]`).
  3 `doc_tree_wf_full`      `WFFull` = `WF true true` ∧ `Every ShapeD`: the COMPLETE predicate of C14, for
                            every configuration with the paragraph rule and (a join pass or `ParaLast`).
  4 C11 for documents (`Lemmas/C14DocVerbatim.lean`, re-exported by the import):
    `doc_fence_verbatim(_sp,_mem)`, `doc_fence_render(_sp,_mem)`, `doc_indented_verbatim(_sp,_mem)`,
    `doc_indented_render(_sp,_mem)` — the fence / indented-code documents of `Block.fence_verbatim` /
    `indented_verbatim` through `parseDoc` and `renderDoc`: the tree is exactly `Root[CodeFence]` /
    `Root[CodeBlock]` with the payload lines as content (ranges exact), the output exactly
    `<pre><code>` ++ `escape_html` content ++ `</code></pre>\n`.

  Nothing is left OPEN of the task.  Remark (not pursued): `ParaLast` is sufficient and is what real
  configurations satisfy, but it is not the weakest hypothesis for (2) — e.g. a chain without the
  list rule, or with only never-silent rules (`code`, `reference`, `lheading`) behind the paragraph rule,
  has the normal form as well; the weakest condition is "no rule that can answer `true` in silent
  mode stands behind the first paragraph rule, or there is no list rule".
-/
import MdIt.Props.Pipeline
import MdIt.Lemmas.C14DocShape
import MdIt.Lemmas.C14DocBlock
import MdIt.Lemmas.C14DocVerbatim

namespace MdIt.Pipeline
open MdIt.NodeRender (aSourcepos)

/-! ## 1. `doc_inline_leaves` -/

/-- the inline leaf kinds of C14: `Text`, `TextSpecial`, `Softbreak`, `Hardbreak` (and the
    parser-internal `EmphMarker`, which no final tree contains: `parseDoc_final`) -/
def Kind.isInlineLeaf : Kind → Bool
  | .inl (.text _) => true
  | .inl (.special _ _ _) => true
  | .inl .softbreak => true
  | .inl .hardbreak => true
  | .inl (.emphMarker _ _ _ _ _) => true
  | _ => false

/-- the inline kinds whose single child is the text they show: `CodeInline`, `Autolink` -/
def Kind.isOneText : Kind → Bool
  | .inl (.codeInline _ _) => true
  | .inl (.autolink _) => true
  | _ => false

/-- exactly one child: a childless, non-empty `Text` -/
def OneText (cs : List Node) : Prop := ∃ c r a, c ≠ [] ∧ cs = [⟨.inl (.text c), r, a, []⟩]

/-- the shape condition of C14 on one node -/
def ShapeD (n : Node) : Prop :=
  (n.kind.isInlineLeaf = true → n.children = []) ∧ (n.kind.isOneText = true → OneText n.children)

theorem leaf_not_oneText {k : Kind} (h : k.isInlineLeaf = true) : k.isOneText = false := by
  cases k with
  | blk b => rfl
  | inl v => cases v <;> first | rfl | cases h

theorem shapeD_blk (b : Block.Kind) (r : Option (Nat × Nat)) (a : List (List Char × List Char))
    (cs : List Node) : ShapeD ⟨.blk b, r, a, cs⟩ :=
  ⟨fun h => (by cases h), fun h => (by cases h)⟩

/-! ### step 1: the splice walk -/

mutual
theorem ofInline_shape (n : Inline.Node) (h : Inline.AllShape n) : Every ShapeD (ofInline n) := by
  match n with
  | ⟨v, r, cs⟩ =>
    rw [Inline.AllShape_eq] at h
    obtain ⟨h1, h2⟩ := h
    simp only at h1 h2
    unfold ofInline
    refine .mk _ ?_ (ofInlineList_shape cs h2)
    cases v <;> simp only [Inline.ShapeOK] at h1
    all_goals first
      | (subst h1; exact ⟨fun _ => rfl, fun hc => (by cases hc)⟩)
      | (obtain ⟨c, r', hc, rfl⟩ := h1
         exact ⟨fun hc => (by cases hc), fun _ => ⟨c, r', [], hc, by simp [ofInlineList, ofInline]⟩⟩)
      | exact ⟨fun hc => (by cases hc), fun hc => (by cases hc)⟩
theorem ofInlineList_shape (cs : List Inline.Node) (h : Inline.AllShapeList cs) :
    ∀ c ∈ ofInlineList cs, Every ShapeD c := by
  match cs with
  | [] => simp [ofInlineList]
  | c :: r =>
    simp only [Inline.AllShapeList] at h
    intro x hx
    simp only [ofInlineList, List.mem_cons] at hx
    rcases hx with rfl | hx
    · exact ofInline_shape c h.1
    · exact ofInlineList_shape r h.2 x hx
end

mutual
theorem spliceNode_shape {icfg : Inline.Cfg} (b : Block.BNode) (t : Node) (h : spliceNode icfg b = .ok t) :
    Every ShapeD t := by
  match b with
  | ⟨k, r, cs⟩ =>
    simp only [spliceNode] at h
    split at h
    · cases h
    · rename_i cs' hcs
      cases h
      exact .mk _ (shapeD_blk _ _ _ _) (spliceList_shape cs cs' hcs)
theorem spliceList_shape {icfg : Inline.Cfg} (cs : List Block.BNode) (out : List Node)
    (h : spliceList icfg cs = .ok out) : ∀ c ∈ out, Every ShapeD c := by
  match cs with
  | [] => simp [spliceList] at h; subst h; simp
  | c :: rest =>
    simp only [spliceList] at h
    split at h
    · split at h
      · cases h
      · rename_i ns hns
        split at h
        · cases h
        · rename_i rest' hr
          cases h
          intro x hx
          rcases List.mem_append.mp hx with h1 | h1
          · exact ofInlineList_shape ns (Inline.parseInline_shapes icfg hns) x h1
          · exact spliceList_shape rest rest' hr x h1
    · split at h
      · cases h
      · rename_i c' hc
        split at h
        · cases h
        · rename_i rest' hr
          cases h
          intro x hx
          rcases List.mem_cons.mp hx with rfl | hx
          · exact spliceNode_shape c _ hc
          · exact spliceList_shape rest rest' hr x hx
end


/-! ### step 2: `FragmentsJoin` keeps the shapes -/

/-- what `fragments_join` does to a child it keeps, seen from the shapes: same children; same kind,
    or a leaf kind (`Text`) instead of a leaf kind (`Text`, `EmphMarker`) -/
def Releaf (c c' : Node) : Prop :=
  c'.children = c.children ∧
    (c'.kind = c.kind ∨ (c'.kind.isInlineLeaf = true ∧ c.kind.isInlineLeaf = true))

theorem Releaf.refl (c : Node) : Releaf c c := ⟨rfl, .inl rfl⟩

theorem Releaf.trans {a b c : Node} (h1 : Releaf a b) (h2 : Releaf b c) : Releaf a c := by
  refine ⟨h2.1.trans h1.1, ?_⟩
  rcases h2.2 with e | ⟨e, ei⟩
  · rcases h1.2 with e1 | ⟨e1, ei1⟩
    · exact .inl (e.trans e1)
    · exact .inr ⟨by rw [e]; exact e1, ei1⟩
  · rcases h1.2 with e1 | ⟨e1, ei1⟩
    · exact .inr ⟨e, by rw [← e1]; exact ei⟩
    · exact .inr ⟨e, ei1⟩

theorem leaf_of_isText {n : Node} (h : n.isText = true) : n.kind.isInlineLeaf = true := by
  unfold Node.isText at h
  split at h
  · next heq => rw [heq]; rfl
  · cases h

theorem markerToText_releaf (c : Node) : Releaf c (markerToText c) := by
  unfold markerToText
  split
  · next heq => exact ⟨rfl, .inr ⟨rfl, by rw [heq]; rfl⟩⟩
  · exact Releaf.refl c

theorem mergeLoop_releaf (cur : Node) (rest : List Node) :
    ∀ x ∈ mergeLoop cur rest, ∃ c ∈ cur :: rest, Releaf c x := by
  induction rest generalizing cur with
  | nil => intro x hx; simp [mergeLoop] at hx; subst hx; exact ⟨_, by simp, Releaf.refl _⟩
  | cons nxt rest ih =>
    intro x hx
    simp only [mergeLoop] at hx
    split at hx
    · next htt =>
      simp only [Bool.and_eq_true] at htt
      rcases List.mem_cons.mp hx with rfl | hx
      · exact ⟨nxt, by simp, ⟨rfl, .inr ⟨rfl, leaf_of_isText htt.2⟩⟩⟩
      · obtain ⟨c, hc, hr⟩ := ih _ x hx
        rcases List.mem_cons.mp hc with rfl | hc
        · exact ⟨cur, by simp, Releaf.trans
            (show Releaf cur (merged cur nxt) from ⟨rfl, .inr ⟨rfl, leaf_of_isText htt.1⟩⟩) hr⟩
        · exact ⟨c, by simp [hc], hr⟩
    · rcases List.mem_cons.mp hx with rfl | hx
      · exact ⟨_, by simp, Releaf.refl _⟩
      · obtain ⟨c, hc, hr⟩ := ih _ x hx
        exact ⟨c, List.mem_cons_of_mem _ hc, hr⟩

theorem fragmentsJoin_releaf (cs : List Node) : ∀ x ∈ fragmentsJoin cs, ∃ c ∈ cs, Releaf c x := by
  intro x hx
  unfold fragmentsJoin at hx
  have hx := (List.mem_filter.mp hx).1
  have key : ∃ c' ∈ pass1 cs, Releaf c' x := by
    cases hp : pass1 cs with
    | nil => rw [hp] at hx; simp [mergeAll] at hx
    | cons c r => rw [hp] at hx; exact mergeLoop_releaf c r x hx
  obtain ⟨c', hc', hr⟩ := key
  unfold pass1 at hc'
  obtain ⟨c, hc, rfl⟩ := List.mem_map.mp hc'
  exact ⟨c, hc, (markerToText_releaf c).trans hr⟩

theorem shapeD_releaf {c x : Node} (h : ShapeD c) (hr : Releaf c x) : ShapeD x := by
  unfold ShapeD at h ⊢
  rw [hr.1]
  rcases hr.2 with e | ⟨e, ei⟩
  · rw [e]; exact h
  · exact ⟨fun _ => h.1 ei, fun hc => by rw [leaf_not_oneText e] at hc; cases hc⟩

theorem joinNode_textleaf (c : List Char) (r : Option (Nat × Nat)) (a : List (List Char × List Char)) :
    joinNode ⟨.inl (.text c), r, a, []⟩ = ⟨.inl (.text c), r, a, []⟩ := by
  rw [joinNode_eq, joinList_eq_map]
  rfl

theorem fragmentsJoin_oneText {cs : List Node} (h : OneText cs) : (fragmentsJoin cs).map joinNode = cs := by
  obtain ⟨c, r, a, hc, rfl⟩ := h
  have hk : keep ⟨.inl (.text c), r, a, []⟩ = true := by
    cases c with
    | nil => exact absurd rfl hc
    | cons x xs => rfl
  simp [fragmentsJoin, pass1, markerToText, mergeAll, mergeLoop, hk, joinNode_textleaf]

theorem joinNode_shape_aux (k : Nat) : ∀ n : Node, nsize n ≤ k → Every ShapeD n →
    Every ShapeD (joinNode n) := by
  induction k with
  | zero => intro n hn; rw [nsize_eq] at hn; omega
  | succ k ih =>
    intro n hn he
    rw [joinNode_eq, joinList_eq_map]
    refine .mk _ ⟨?_, ?_⟩ ?_
    · intro hl
      simp only at hl ⊢
      rw [he.here.1 hl]
      rfl
    · intro ho
      simp only at ho ⊢
      rw [fragmentsJoin_oneText (he.here.2 ho)]
      exact he.here.2 ho
    · intro y hy
      simp only at hy
      obtain ⟨x, hx, rfl⟩ := List.mem_map.mp hy
      obtain ⟨c, hc, hr⟩ := fragmentsJoin_releaf _ x hx
      have hec := he.child c hc
      have hsz : nsize x ≤ k := by
        have h1 : nsize x = nsize c := by rw [nsize_eq, nsize_eq, hr.1]
        have h2 := nsize_le_of_mem hc
        rw [nsize_eq] at hn
        omega
      exact ih x hsz (.mk _ (shapeD_releaf hec.here hr) (by rw [hr.1]; exact hec.child))

/-! ### step 3: `SyntaxPosRule` keeps the shapes -/

mutual
theorem sourceposNode_shape {src : List Char} {marks : List SourceMap.Mark} (t t' : Node)
    (he : Every ShapeD t) (h : sourceposNode src marks t = .ok t') :
    Every ShapeD t' ∧ t'.kind = t.kind ∧ t'.range = t.range ∧ (t.children = [] → t'.children = []) := by
  match t with
  | ⟨k, r, at_, cs⟩ =>
    simp only [sourceposNode] at h
    split at h
    · cases h
    · split at h
      · cases h
      · rename_i cs' hcs
        cases h
        obtain ⟨h1, h2⟩ := sourceposList_shape cs cs' he.child hcs
        refine ⟨.mk _ ⟨?_, ?_⟩ h1, rfl, rfl, ?_⟩
        · intro hl
          have := he.here.1 hl
          simp only at this ⊢
          subst this
          simp [sourceposList] at hcs
          exact hcs
        · intro ho
          obtain ⟨c, r0, a0, hc, hcs0⟩ := he.here.2 ho
          simp only at hcs0 ⊢
          subst hcs0
          obtain ⟨x', r', hx', hr', hk', hrg, hnil⟩ := h2 _ _ rfl
          have hr'' := hr' rfl
          subst hr''
          subst hx'
          obtain ⟨k2, r2, a2, c2⟩ := x'
          simp only at hk' hrg hnil
          subst hk'
          subst hrg
          rw [hnil (by first | trivial | rfl)]
          exact ⟨c, _, a2, hc, rfl⟩
        · intro hnil
          simp only at hnil ⊢
          subst hnil
          simp [sourceposList] at hcs
          exact hcs
theorem sourceposList_shape {src : List Char} {marks : List SourceMap.Mark} (cs cs' : List Node)
    (he : ∀ x ∈ cs, Every ShapeD x) (h : sourceposList src marks cs = .ok cs') :
    (∀ x ∈ cs', Every ShapeD x) ∧
    (∀ x r, cs = x :: r → ∃ x' r', cs' = x' :: r' ∧ (r = [] → r' = []) ∧ x'.kind = x.kind ∧
      x'.range = x.range ∧ (x.children = [] → x'.children = [])) := by
  match cs with
  | [] => simp [sourceposList] at h; subst h; simp
  | x :: r =>
    simp only [sourceposList] at h
    split at h
    · cases h
    · rename_i x' hx
      split at h
      · cases h
      · rename_i r' hr
        cases h
        obtain ⟨h1, h2, h3, h4⟩ := sourceposNode_shape x x' (he x (by simp)) hx
        obtain ⟨h5, _⟩ := sourceposList_shape r r' (fun y hy => he y (List.mem_cons_of_mem _ hy)) hr
        refine ⟨?_, ?_⟩
        · intro y hy
          rcases List.mem_cons.mp hy with rfl | hy
          · exact h1
          · exact h5 y hy
        · intro x0 r0 e
          simp only [List.cons.injEq] at e
          obtain ⟨rfl, rfl⟩ := e
          refine ⟨x', r', rfl, ?_, h2, h3, h4⟩
          intro hnil
          subst hnil
          simp [sourceposList] at hr
          exact hr
end

/-! ### `doc_inline_leaves` -/

/-- **`doc_inline_leaves` (C14, "leaf kinds have no children", the inline part).**  In the tree
    `parseDoc` returns, at EVERY node: `Text`, `TextSpecial`, `Softbreak`, `Hardbreak` are childless;
    `CodeInline` and `Autolink` have exactly one child, a childless non-empty `Text`.  For every
    configuration (emphasis-like rules included or not, any chains, any `max_nesting`, with or without
    `sourcepos`) and every source.  (The block leaves are `LocK.blockLeaf` of `doc_tree_wf`.) -/
theorem doc_inline_leaves (cfg : DocCfg) (src : List Char) (t : Node) (h : parseDoc cfg src = .ok t) :
    Every ShapeD t := by
  unfold parseDoc at h
  split at h
  · cases h
  · rename_i root refs hb
    unfold afterBlocks at h
    split at h
    · cases h
    · rename_i t0 hs
      have he0 := spliceNode_shape root t0 hs
      have h1 : Every ShapeD (if cfg.hasJoin = true then joinNode t0 else t0) := by
        split
        · exact joinNode_shape_aux _ t0 (Nat.le_refl _) he0
        · exact he0
      simp only at h
      split at h
      · exact (sourceposNode_shape _ _ h1 h).1
      · cases h
        exact h1


/-! ## 2. `doc_text_nf_nojoin` -/

/-- the text normal form of one sibling list: no empty `Text`, no two adjacent `Text`s -/
def NFat (n : Node) : Prop := NoEmptyTextK (kinds n.children) ∧ NoAdjTextK (kinds n.children)

theorem every_and {P Q : Node → Prop} : ∀ {n : Node}, Every P n → Every Q n → Every (fun x => P x ∧ Q x) n := by
  intro n hp
  induction hp with
  | mk n h1 _ ih => exact fun hq => .mk n ⟨h1, hq.here⟩ (fun c hc => ih c hc (hq.child c hc))

theorem locN_nf {para markers : Bool} {n : Node} (h : LocN para markers false n) (hn : NFat n) :
    LocN para markers true n :=
  ⟨h.noInlRoot, h.noMarker, h.noRoot, h.listKids, h.itemParent, h.inlinePlace, h.inlineKids,
    h.textBlockKids, h.blockLeaf, fun _ => hn⟩

/-! ### the inline side: `Inline.text_induction` on the document's node type -/

theorem parseInline_tok {icfg : Inline.Cfg} (hne : icfg.hasEmph = false) {content : List Char}
    {mapping : InlineOps.Srcmap} {ns : List Inline.Node}
    (h : Inline.parseInline icfg content mapping = .ok ns) : Inline.TOK ns ∧ Inline.DeepTOKList ns := by
  have hne' : ∀ id ∈ icfg.chain, id.isEmph = false := by
    unfold Inline.Cfg.hasEmph at hne
    rw [List.any_eq_false] at hne
    intro id hid
    simpa using hne id hid
  unfold Inline.parseInline Inline.tokenize at h
  split at h
  · simp at h
  · next st hst =>
    simp only [Except.ok.injEq] at h; subst h
    exact Inline.text_induction icfg hne' _ _ _ _ hst ⟨Inline.tok_nil, trivial⟩

theorem kinds_ofInlineList (l : List Inline.Node) :
    kinds (ofInlineList l) = l.map (fun n => Kind.inl n.val) := by
  induction l with
  | nil => rfl
  | cons c r ih =>
    simp only [ofInlineList, kinds, List.map_cons] at ih ⊢
    rw [ih, ofInline_kind]

theorem isTextK_inl (n : Inline.Node) : (Kind.inl n.val).isTextK = n.isText := by
  unfold Kind.isTextK Inline.Node.isText
  cases n.val <;> rfl

theorem noEmptyK_of_tok {l : List Inline.Node} (h : Inline.TOK l) : NoEmptyTextK (kinds (ofInlineList l)) := by
  rw [kinds_ofInlineList]
  intro hm
  obtain ⟨n, hn, hk⟩ := List.mem_map.mp hm
  have h1 := h.noEmpty (Inline.erase n) (by rw [Inline.eraseList_eq_map]; exact List.mem_map.mpr ⟨n, hn, rfl⟩)
  rw [Inline.erase_isText, Inline.erase_content] at h1
  injection hk with hk
  have : n.isText = true := by unfold Inline.Node.isText; rw [hk]
  have := h1 this
  unfold Inline.Node.content at this
  rw [hk] at this
  exact this rfl

theorem noAdjK_of_noAdj : ∀ (l : List Inline.Node), C14.NoAdjText (Inline.eraseList l) →
    NoAdjTextK (l.map (fun n => Kind.inl n.val))
  | [], _ => trivial
  | x :: r, h => by
    simp only [Inline.eraseList, C14.NoAdjText] at h
    refine ⟨?_, noAdjK_of_noAdj r h.2⟩
    intro k' hk' hc
    cases r with
    | nil => simp at hk'
    | cons y r' =>
      simp only [List.map_cons, List.head?_cons, Option.some.injEq] at hk'
      subst hk'
      rw [isTextK_inl, isTextK_inl] at hc
      refine h.1 (Inline.erase y) (by simp [Inline.eraseList]) ?_
      rw [Inline.erase_isText, Inline.erase_isText]
      exact hc

theorem nfat_of_tok {l : List Inline.Node} (h : Inline.TOK l) :
    NoEmptyTextK (kinds (ofInlineList l)) ∧ NoAdjTextK (kinds (ofInlineList l)) :=
  ⟨noEmptyK_of_tok h, by rw [kinds_ofInlineList]; exact noAdjK_of_noAdj l h.noAdj⟩

mutual
theorem ofInline_nfat (n : Inline.Node) (h : Inline.DeepTOK n) : Every NFat (ofInline n) := by
  match n with
  | ⟨v, r, cs⟩ =>
    rw [Inline.DeepTOK_eq] at h
    unfold ofInline
    exact .mk _ (nfat_of_tok h.1) (ofInlineList_nfat cs h.2)
theorem ofInlineList_nfat (cs : List Inline.Node) (h : Inline.DeepTOKList cs) :
    ∀ c ∈ ofInlineList cs, Every NFat c := by
  match cs with
  | [] => simp [ofInlineList]
  | c :: r =>
    simp only [Inline.DeepTOKList] at h
    intro x hx
    simp only [ofInlineList, List.mem_cons] at hx
    rcases hx with rfl | hx
    · exact ofInline_nfat c h.1
    · exact ofInlineList_nfat r h.2 x hx
end

/-! ### the splice walk over a block tree without adjacent placeholders -/

/-- the first element (if any) is not a `Text` -/
def HeadNotText (ks : List Kind) : Prop := ∀ k, ks.head? = some k → k.isTextK = false

theorem noAdjK_append : ∀ (a b : List Kind), NoAdjTextK a → NoAdjTextK b → HeadNotText b → NoAdjTextK (a ++ b)
  | [], b, _, hb, _ => hb
  | x :: r, b, ha, hb, hh => by
    refine ⟨?_, noAdjK_append r b ha.2 hb hh⟩
    intro k' hk' hc
    cases r with
    | nil =>
      rw [hh k' hk'] at hc
      exact absurd hc.2 (by simp)
    | cons y r' =>
      exact ha.1 k' (by simpa using hk') hc

theorem noEmptyK_append {a b : List Kind} (ha : NoEmptyTextK a) (hb : NoEmptyTextK b) : NoEmptyTextK (a ++ b) := by
  intro h
  rcases List.mem_append.mp h with h | h
  · exact ha h
  · exact hb h

theorem kinds_append (a b : List Node) : kinds (a ++ b) = kinds a ++ kinds b := by simp [kinds]

mutual
theorem spliceNode_nfat {icfg : Inline.Cfg} (hne : icfg.hasEmph = false) (b : Block.BNode) (hb : Block.NAI b)
    (t : Node) (h : spliceNode icfg b = .ok t) : Every NFat t := by
  match b with
  | ⟨k, r, cs⟩ =>
    simp only [spliceNode] at h
    split at h
    · cases h
    · rename_i cs' hcs
      cases h
      obtain ⟨h1, h2, h3, _⟩ := spliceList_nfat hne cs hb.at hb.child cs' hcs
      exact .mk _ ⟨h2, h3⟩ h1
theorem spliceList_nfat {icfg : Inline.Cfg} (hne : icfg.hasEmph = false) (cs : List Block.BNode)
    (hna : Block.NoAdj Block.BNode.isInl cs) (hn : ∀ c ∈ cs, Block.NAI c) (out : List Node)
    (h : spliceList icfg cs = .ok out) :
    (∀ x ∈ out, Every NFat x) ∧ NoEmptyTextK (kinds out) ∧ NoAdjTextK (kinds out) ∧
      (∀ c r, cs = c :: r → c.isInl = false → HeadNotText (kinds out)) := by
  match cs with
  | [] =>
    simp [spliceList] at h; subst h
    exact ⟨by simp, by simp [kinds, NoEmptyTextK], trivial, fun c r e => by cases e⟩
  | c :: rest =>
    have hrest : ∀ x ∈ rest, Block.NAI x := fun x hx => hn x (List.mem_cons_of_mem _ hx)
    simp only [spliceList] at h
    split at h
    · rename_i content mapping hck
      split at h
      · cases h
      · rename_i ns hns
        split at h
        · cases h
        · rename_i rest' hr
          cases h
          obtain ⟨i1, i2, i3, i4⟩ := spliceList_nfat hne rest hna.2 hrest rest' hr
          obtain ⟨t1, t2⟩ := parseInline_tok hne hns
          have hcinl : c.isInl = true := by unfold Block.BNode.isInl; rw [hck]
          -- the next sibling is not a placeholder: what follows the inline nodes is a block node
          have hhead : HeadNotText (kinds rest') := by
            cases rest with
            | nil => simp [spliceList] at hr; subst hr; intro k hk; simp [kinds] at hk
            | cons y r' =>
              refine i4 y r' rfl ?_
              cases hy : y.isInl with
              | false => rfl
              | true => exact absurd ⟨hcinl, hy⟩ (hna.1 y rfl)
          have ht := nfat_of_tok t1
          refine ⟨?_, ?_, ?_, ?_⟩
          · intro x hx
            rcases List.mem_append.mp hx with h1 | h1
            · exact ofInlineList_nfat ns t2 x h1
            · exact i1 x h1
          · rw [kinds_append]; exact noEmptyK_append ht.1 i2
          · rw [kinds_append]; exact noAdjK_append _ _ ht.2 i3 hhead
          · intro c0 r0 e hc0
            simp only [List.cons.injEq] at e
            rw [← e.1, hcinl] at hc0
            cases hc0
    · rename_i hne'
      split at h
      · cases h
      · rename_i c' hc
        split at h
        · cases h
        · rename_i rest' hr
          cases h
          obtain ⟨i1, i2, i3, i4⟩ := spliceList_nfat hne rest hna.2 hrest rest' hr
          have hk := spliceNode_kind hc
          have hnt : c'.kind.isTextK = false := by rw [hk]; rfl
          refine ⟨?_, ?_, ?_, ?_⟩
          · intro x hx
            rcases List.mem_cons.mp hx with rfl | hx
            · exact spliceNode_nfat hne c (hn c (by simp)) _ hc
            · exact i1 x hx
          · intro hm
            simp only [kinds, List.map_cons, List.mem_cons] at hm
            rcases hm with e | e
            · rw [hk] at e; cases e
            · exact i2 e
          · refine ⟨?_, i3⟩
            intro k' _ hc'
            rw [hnt] at hc'
            exact absurd hc'.1 (by simp)
          · intro c0 r0 _ _ k hk'
            simp only [kinds, List.map_cons, List.head?_cons, Option.some.injEq] at hk'
            rw [← hk']; exact hnt
end


/-! ### `doc_text_nf_nojoin` -/

theorem hasPara_of_paraLast {cfg : DocCfg} (h : Block.ParaLast cfg.blockChain) : cfg.hasPara = true := by
  obtain ⟨pre, hch, _⟩ := h
  simp [DocCfg.hasPara, hch]

/-- **`doc_text_nf_nojoin` (C14, the text normal form WITHOUT a join pass).**  When no emphasis-like
    inline rule is configured (`cfg.hasJoin = false`: `FragmentsJoin` is not in the core chain) and the
    paragraph rule is the last rule of the block chain (`Block.ParaLast`: what `after_all()` in
    `paragraph::add` makes of every plugin order), the tree `parseDoc` returns is `WF` WITH the text
    normal form: at every node, at any depth, no sibling list contains an empty `Text` or two adjacent
    `Text`s.  Inline side: every `Text` is made by `trailing_text_push`, which merges into a preceding
    `Text` (`Inline.text_induction`, `C14.push_no_adjacent` / `pop_no_adjacent`; the text inside a code
    span / autolink is non-empty).  Block side: no two `InlineRoot` placeholders are adjacent siblings
    (`Block.parseBlocks_noAdjInl`), so the texts of different paragraphs never meet.  For every
    source, any `max_nesting`, with or without `sourcepos`. -/
theorem doc_text_nf_nojoin (cfg : DocCfg) (src : List Char) (t : Node) (h : parseDoc cfg src = .ok t)
    (hj : cfg.hasJoin = false) (hp : Block.ParaLast cfg.blockChain) : WF true true t := by
  refine ⟨(parseDoc_final h).2, ?_⟩
  have hpara : cfg.hasPara = true := hasPara_of_paraLast hp
  unfold parseDoc at h
  split at h
  · cases h
  · rename_i root refs hb
    obtain ⟨hroot, hwf⟩ := Block.parseBlocks_wf hb
    have hnai : Block.NAI root := Block.parseBlocks_noAdjInl hb hp
    unfold afterBlocks at h
    split at h
    · cases h
    · rename_i t0 hs
      have he0 := spliceNode_wf' root hwf (by rw [hroot]; rintro ⟨_, _, e⟩; cases e) t0 hs
      have hn0 := spliceNode_nfat (by rw [hasEmph_inlineCfg]; exact hj) root hnai t0 hs
      rw [hasEmph_inlineCfg, hj] at he0
      have hpara' : cfg.blockCfg.hasPara = true := hpara
      rw [hpara'] at he0
      have h1 : Every (LocN true false true) t0 :=
        Every.imp (fun n hn => locN_nf hn.1 hn.2) (every_and he0 hn0)
      simp only [hj, Bool.false_eq_true, if_false] at h
      split at h
      · exact (sourceposNode_wf _ _ h1 h).1
      · cases h
        exact h1

/-! ## 3. `doc_tree_wf_full` -/

/-- the complete well-formedness predicate of property C14 on a document tree: `WF` with the
    paragraph-rule clauses and the text normal form (`LocK true false true` at every node, `Root` on
    top), and the inline leaf shapes (`ShapeD` at every node) -/
def WFFull (t : Node) : Prop := WF true true t ∧ Every ShapeD t

/-- **`doc_tree_wf_full` (C14 for documents, complete).**  For every configuration that contains the
    paragraph rule, and in which an emphasis-like rule is configured (then `FragmentsJoin` runs) OR the
    paragraph rule is the last block rule (true of every configuration built from the shipped plugins:
    `paragraph::add` registers it `after_all()`), every tree `parseDoc` returns satisfies the COMPLETE
    predicate of C14: no parser-internal placeholder, `Root` on top only, lists / items, inline nodes
    in their places, block AND inline leaves childless (`CodeInline` / `Autolink`: exactly one non-empty
    `Text`), no empty `Text`, no two adjacent `Text`s — at every node, at any depth.  The disjunction
    is necessary: see `not_wf_without_paraLast` below. -/
theorem doc_tree_wf_full (cfg : DocCfg) (src : List Char) (t : Node) (h : parseDoc cfg src = .ok t)
    (hp : cfg.hasPara = true) (hj : cfg.hasJoin = true ∨ Block.ParaLast cfg.blockChain) : WFFull t := by
  refine ⟨?_, doc_inline_leaves cfg src t h⟩
  cases hjoin : cfg.hasJoin with
  | true =>
    have := doc_tree_wf cfg src t h
    rw [hp, hjoin] at this
    exact this
  | false =>
    rcases hj with hj | hj
    · rw [hjoin] at hj; cases hj
    · exact doc_text_nf_nojoin cfg src t h hjoin hj


/-! ## examples: non-vacuity, and the hypotheses are necessary -/

/-- `exCfg` without emphasis-like rules (no join pass), with the block chain `bc` -/
def exNoJoin (bc : List Block.RuleId) : DocCfg :=
  { exCfg false 100 with
      blockChain := bc
      inlineChain := [.text, .newline, .escape, .backticks, .link, .linkEnd, .image, .autolink, .entity] }

/-- the stock block chain (paragraph rule last) -/
def stockBlocks : List Block.RuleId :=
  [.code, .fence, .blockquote, .hr, .list, .reference, .heading, .lheading, .paragraph]

theorem stock_paraLast : Block.ParaLast stockBlocks :=
  ⟨[.code, .fence, .blockquote, .hr, .list, .reference, .heading, .lheading], rfl, by decide⟩

/-- a tight list whose item holds a paragraph, a thematic break and a second paragraph; a code span, an
    autolink, a character reference, an escape, a hard break ending in spaces that are popped -/
def exTight : List Char := "- a\n  ***\n  `c` <xx:y> &amp; \\* b  \n  d".toList

example : (parseDoc (exNoJoin stockBlocks) exTight).toOption.map tags =
    some [.root, .ul, .li, .T, .hr, .C, .T, .T, .A, .T, .T, .X, .T, .X, .T, .HB, .T] := by
  decide +kernel

theorem exTight_parses : ∃ t, parseDoc (exNoJoin stockBlocks) exTight = .ok t := by
  have h : (parseDoc (exNoJoin stockBlocks) exTight).toOption.isSome = true := by decide +kernel
  cases hp : parseDoc (exNoJoin stockBlocks) exTight with
  | ok t => exact ⟨t, rfl⟩
  | error e => rw [hp] at h; cases h

/-- the hypotheses of `doc_text_nf_nojoin` / `doc_tree_wf_full` are satisfiable on it (no join pass,
    paragraph rule last) -/
example : ∃ t, parseDoc (exNoJoin stockBlocks) exTight = .ok t ∧ WFFull t := by
  obtain ⟨t, ht⟩ := exTight_parses
  exact ⟨t, ht, doc_tree_wf_full _ _ t ht rfl (.inr stock_paraLast)⟩

/-- … and with the join pass, whatever the block chain is -/
example : ∃ t, parseDoc { exCfg true 100 with blockChain := [.list, .paragraph, .hr] } exTight = .ok t ∧
    WFFull t := by
  have h : (parseDoc { exCfg true 100 with blockChain := [.list, .paragraph, .hr] } exTight).toOption.isSome
      = true := by decide +kernel
  cases hp : parseDoc { exCfg true 100 with blockChain := [.list, .paragraph, .hr] } exTight with
  | ok t => exact ⟨t, rfl, doc_tree_wf_full _ _ t hp rfl (.inl rfl)⟩
  | error e => rw [hp] at h; cases h

/-! ### the paragraph rule must be last (when there is no join pass) -/

/-- two adjacent `Text` kinds -/
def adjK : List Kind → Bool
  | k :: k' :: r => (k.isTextK && k'.isTextK) || adjK (k' :: r)
  | _ => false

mutual
/-- some node of the tree has two adjacent `Text` children -/
def anyAdj : Node → Bool
  | ⟨_, _, _, cs⟩ => adjK (kinds cs) || anyAdjList cs
def anyAdjList : List Node → Bool
  | [] => false
  | c :: cs => anyAdj c || anyAdjList cs
end

theorem adjK_false : ∀ (ks : List Kind), NoAdjTextK ks → adjK ks = false
  | [], _ => rfl
  | [_], _ => rfl
  | k :: k' :: r, h => by
    have h1 := h.1 k' rfl
    have h2 := adjK_false (k' :: r) h.2
    simp only [adjK, h2, Bool.or_false]
    cases hk : k.isTextK <;> cases hk' : k'.isTextK <;> simp_all

mutual
theorem anyAdj_false (n : Node) (h : Every (LocN true false true) n) : anyAdj n = false := by
  match n with
  | ⟨k, r, a, cs⟩ =>
    have h1 := adjK_false _ (h.here.textNF rfl).2
    have h2 := anyAdjList_false cs h.child
    simp only at h1
    simp [anyAdj, h1, h2]
theorem anyAdjList_false (cs : List Node) (h : ∀ c ∈ cs, Every (LocN true false true) c) :
    anyAdjList cs = false := by
  match cs with
  | [] => rfl
  | c :: r =>
    have h1 := anyAdj_false c (h c (by simp))
    have h2 := anyAdjList_false r (fun x hx => h x (List.mem_cons_of_mem _ hx))
    simp [anyAdjList, h1, h2]
end

/-- the block chain `[list, paragraph, hr]`: the paragraph rule is configured but NOT last -/
example : (parseDoc (exNoJoin [.list, .paragraph, .hr]) "- a\n  ***".toList).toOption.map tags =
    some [.root, .ul, .li, .T, .T] := by decide +kernel

/-- **the hypothesis `ParaLast` is necessary.**  Without a join pass and with the paragraph rule in
    front of the thematic-break rule, `"- a\n  ***"` parses to a TIGHT list item with two adjacent
    `Text` children `a`, `***`: the look-ahead (`hr` fires silently on `***`) ends the first paragraph,
    but in real mode the paragraph rule comes first and claims the line as a SECOND paragraph, no blank
    line in between, so the list stays tight and `mark_tight_paragraphs` puts the two placeholders side
    by side.  (With the join pass the two texts are merged: previous example.)  Not reachable with the
    shipped plugins alone — `paragraph::add` registers the rule `after_all()` — but with
    `md.block.add_rule::<ParagraphScanner>()` called directly; confirmed on the real crate. -/
theorem not_wf_without_paraLast :
    ∃ t, parseDoc (exNoJoin [.list, .paragraph, .hr]) "- a\n  ***".toList = .ok t ∧
      (exNoJoin [.list, .paragraph, .hr]).hasPara = true ∧ ¬ WF true true t := by
  have h : (parseDoc (exNoJoin [.list, .paragraph, .hr]) "- a\n  ***".toList).toOption.map anyAdj
      = some true := by decide +kernel
  cases hp : parseDoc (exNoJoin [.list, .paragraph, .hr]) "- a\n  ***".toList with
  | error e => rw [hp] at h; cases h
  | ok t =>
    refine ⟨t, rfl, rfl, fun hw => ?_⟩
    rw [hp] at h
    simp only [Except.toOption, Option.map_some, Option.some.injEq] at h
    rw [anyAdj_false t hw.2] at h
    cases h

end MdIt.Pipeline
