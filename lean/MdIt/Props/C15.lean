/-
  C15 — Byte offsets convert to exact line:column positions.

  Code model and specification: `MdIt/Model/SourceMap.lean` (the specification section there does not
  mention the code).  Helper development: `MdIt/Lemmas/SourceMap.lean`.
  Every theorem quantifies over every text `src : List Char` and every byte offset `o : Nat`
  (character starts, bytes strictly inside a multi-byte character, offsets past the end).
-/
import MdIt.Lemmas.SourceMap

namespace MdIt.SourceMap

/-- The mark vector starts with `(0, 1, 0)` and its offsets are strictly increasing
    (so the binary search is well defined and every conforming `binary_search_by` agrees on it,
    see `bsearch_unique`). -/
theorem marks_sorted (src : List Char) :
    (mkMarks src).head? = some ⟨0, 1, 0⟩ ∧
    (mkMarks src).Pairwise (fun m m' => m.offset < m'.offset) :=
  ⟨by rw [mkMarks_eq]; rfl, mkMarks_pairwise src⟩

/-- Every mark sits on a character boundary of the text (`src[mark.offset..]` cannot panic). -/
theorem marks_on_boundary (src : List Char) (m : Mark) (hm : m ∈ mkMarks src) :
    ∃ tail, sliceFrom src m.offset = some tail := by
  obtain ⟨a, b, hab, ho, _⟩ := mkMarks_sound src m hm
  exact ⟨b, by rw [hab, ho]; exact sliceFrom_append a b⟩

/-- Every mark records the specification's own counts at its offset `p`:
    line = 1 + #{ j < p | line ending at j }, column = #{ characters starting at k < p after the last
    line ending below p }. -/
theorem marks_sound (src : List Char) (m : Mark) (hm : m ∈ mkMarks src) :
    m.line = 1 + (List.range m.offset).countP (lineEnd src) ∧
    m.column = (List.range m.offset).countP
      (fun k => startsAt src k && (List.range m.offset).all fun j => j < k || !lineEnd src j) := by
  obtain ⟨a, b, _, ho, hst⟩ := mkMarks_sound src m hm
  rw [← ho, runSt_eq_counts] at hst
  have h1 := congrArg Prod.fst hst
  have h2 := congrArg Prod.snd hst
  simp only [ite_self, Nat.zero_add] at h1 h2
  exact ⟨h1, h2⟩

/-- a line ending at byte `j`, exhibited as a split of the text -/
theorem lineEnd_split (src : List Char) (j : Nat) (h : lineEnd src j = true) :
    ∃ a ch b, src = a ++ ch :: b ∧ byteLen a = j ∧ isEnd ch b.head? := by
  induction src generalizing j with
  | nil => simp [lineEnd_nil] at h
  | cons ch r ih =>
    by_cases h0 : j = 0
    · subst h0
      rw [lineEnd_cons_zero] at h
      exact ⟨[], ch, r, rfl, rfl, by simpa using h⟩
    · by_cases h1 : j < ch.utf8Size
      · rw [lineEnd_cons_mid ch r j (by omega) h1] at h; exact absurd h (by simp)
      · obtain ⟨k, rfl⟩ : ∃ k, j = ch.utf8Size + k := ⟨j - ch.utf8Size, by omega⟩
        rw [lineEnd_cons_add] at h
        obtain ⟨a, c, b, hab, hl, he⟩ := ih k h
        exact ⟨ch :: a, c, b, by simp [hab], by simp [byteLen, hl], he⟩

/-- The byte after every line ending carries a mark (every line start is a mark), so the mark
    found for `o + 1` is never separated from `o` by a line ending. -/
theorem marks_cover (src : List Char) (j : Nat) (h : lineEnd src j = true) :
    ∃ m ∈ mkMarks src, m.offset = j + 1 := by
  obtain ⟨a, ch, b, hab, hl, he⟩ := lineEnd_split src j h
  obtain ⟨m, hm, ho⟩ := mkMarks_cover a ch b he
  exact ⟨m, by rw [hab]; exact hm, by omega⟩

/-- THE property: for every text and every byte offset, `get_position` does not panic and returns
    exactly the line and the column of the direct (counting) definition. -/
theorem getPosition_spec (src : List Char) (o : Nat) :
    getPosition src (mkMarks src) o = .ok (specLine src o, specCol src o) := by
  have hs := mkMarks_pairwise src
  have hkeys : ((mkMarks src).map (·.offset)).Pairwise (· < ·) := List.pairwise_map.mpr hs
  have h0 : ∃ h : 0 < ((mkMarks src).map (·.offset)).length,
      ((mkMarks src).map (·.offset))[0] = 0 := by
    rw [mkMarks_eq]; exact ⟨by simp, by simp⟩
  obtain ⟨f, hf, hlt, hle, hmax⟩ :=
    foundOf_bsearch ((mkMarks src).map (·.offset)) (o + 1) hkeys h0 (by omega)
  have hfl : f < (mkMarks src).length := by simpa using hlt
  have hmo : ((mkMarks src).map (·.offset))[f] = ((mkMarks src)[f]).offset := by simp
  rw [hmo] at hle
  obtain ⟨a, b, hab, hoff, hst⟩ := mkMarks_sound src ((mkMarks src)[f]) (List.getElem_mem _)
  -- between the mark found and the offset there is no line ending
  have hno : noEnd b (o + 1 - ((mkMarks src)[f]).offset) := by
    refine Classical.byContradiction fun hc => ?_
    obtain ⟨x, ch, y, hxy, hx, hend⟩ := exists_end_of_not_noEnd _ _ hc
    have hsrc : src = (a ++ x) ++ ch :: y := by simp [hab, hxy]
    obtain ⟨m', hm', ho'⟩ := mkMarks_cover (a ++ x) ch y hend
    rw [← hsrc] at hm'
    obtain ⟨j, hj, hjm⟩ := List.mem_iff_getElem.mp hm'
    rw [byteLen_append] at ho'
    have hkj : ((mkMarks src).map (·.offset))[j]'(by simpa using hj) = m'.offset := by
      simp [hjm]
    by_cases hjf : f < j
    · have := hmax j (by simpa using hj) hjf
      omega
    · have := sorted_mono hkeys (by simpa using hj) hlt (by omega : j ≤ f)
      omega
  -- run the code
  unfold getPosition
  simp only [hf, List.getElem?_eq_getElem hfl]
  have hsl : sliceFrom src ((mkMarks src)[f]).offset = some b := by
    rw [hoff]; conv => lhs; rw [hab]
    exact sliceFrom_append a b
  simp only [hsl]
  rw [spec_is_fold, colLoop_eq]
  -- the fold from the mark to the offset only counts characters
  have hrun := runSt_append 1 0 a b (o + 1) (by omega)
  rw [← hab] at hrun
  rw [← hoff] at hst hrun
  rw [← hst] at hrun
  rw [hrun, runSt_noEnd _ _ _ _ hno]
  simp

/-- `get_position` never panics: no `usize` underflow in `x - 1`, `marks[found]` in range,
    `src[mark.offset..]` on a character boundary. -/
theorem getPosition_total (src : List Char) (o : Nat) :
    ∃ p, getPosition src (mkMarks src) o = .ok p :=
  ⟨_, getPosition_spec src o⟩

/-- Ranges (`SourcePos::get_positions`): start position of byte `start`, end position of byte
    `end − 1` (of byte 0 when `end = 0`). -/
theorem getPositions_spec (src : List Char) (s e : Nat) :
    getPositions src (mkMarks src) (s, e) = .ok (specRange src (s, e)) := by
  unfold getPositions specRange
  simp only [getPosition_spec]
  congr 3 <;> split <;> first | rfl | (congr 1; omega)

/-! ## Reading aids for the specification -/

/-- position of the last line ending strictly below `n` (the `last(o')` of the informal statement,
    with `n = o' + 1`) -/
def lastEndBelow (src : List Char) : Nat → Option Nat
  | 0 => none
  | n + 1 => if lineEnd src n then some n else lastEndBelow src n

/-- `afterLastEnd src o k` says exactly: `k` is greater than the position of the last line ending
    `≤ o` (or there is none). -/
theorem afterLastEnd_iff_lastEnd (src : List Char) (o k : Nat) :
    afterLastEnd src o k = true ↔
      match lastEndBelow src (o + 1) with
      | none => True
      | some j => j < k := by
  rw [afterLastEnd_eq, noEndFrom_iff]
  generalize o + 1 = n
  induction n with
  | zero => simp [lastEndBelow]
  | succ n ih =>
    unfold lastEndBelow
    by_cases h : lineEnd src n = true
    · simp only [h, if_true]
      constructor
      · intro hh
        refine Classical.byContradiction fun hc => ?_
        have := hh n (by omega) (by omega)
        simp [h] at this
      · intro hh j hj hk
        omega
    · rw [if_neg h, ← ih]
      constructor
      · intro hh j hj hk; exact hh j (by omega) hk
      · intro hh j hj hk
        by_cases hjn : j = n
        · subst hjn; simpa using h
        · exact hh j (by omega) hk

/-- the clamp only matters for the cost of the count: past the end nothing starts and nothing ends,
    so every offset `≥ |src| − 1` has the position of the last byte -/
theorem spec_past_end (src : List Char) (o : Nat) (h : byteLen src - 1 ≤ o) :
    (specLine src o, specCol src o) = (specLine src (byteLen src - 1), specCol src (byteLen src - 1)) := by
  have e : clamp src o = clamp src (byteLen src - 1) := by unfold clamp; omega
  simp only [specLine, specCol, e]

/-- the empty text: every offset is reported as `(1, 0)` -/
theorem spec_empty (o : Nat) : (specLine [] o, specCol [] o) = (1, 0) := by
  rw [spec_is_fold]; rfl

/-! ## Non-vacuity: the specification on hand-checked texts, and the four unit tests of
    `sourcemap.rs` run on the code model (evaluated by the kernel: `decide +kernel`). -/

/-- evaluation helper: the code returned exactly `p` (a panic is `false`) -/
def posIs (r : Except Panic (Nat × Nat)) (p : Nat × Nat) : Bool :=
  match r with
  | .ok q => q == p
  | .error _ => false

/-- evaluation helper: `get_positions(..).0 == p` -/
def startIs (r : Except Panic ((Nat × Nat) × (Nat × Nat))) (p : Nat × Nat) : Bool :=
  match r with
  | .ok q => q.1 == p
  | .error _ => false

/-- the specification itself on `"a\r\nb"`: the CR of a CRLF is an ordinary character of line 1
    (column 2), the LF ends the line (reported as line 2, column 0), past the end is clamped -/
example : (List.range 6).map (fun o => (specLine ['a', '\r', '\n', 'b'] o, specCol ['a', '\r', '\n', 'b'] o))
    = [(1, 1), (1, 2), (2, 0), (2, 1), (2, 1), (2, 1)] := by decide +kernel

/-- `"\r\r\n\n"`: lone CR, CRLF (counted once, at its LF), LF -/
example : (List.range 4).map (fun o => (specLine ['\r', '\r', '\n', '\n'] o, specCol ['\r', '\r', '\n', '\n'] o))
    = [(2, 0), (2, 1), (3, 0), (4, 0)] := by decide +kernel

/-- `"aé€\nß"` (1+2+3+1+2 bytes): an offset strictly inside a multi-byte character is reported as
    that character -/
example : (List.range 9).map (fun o => (specLine ['a', 'é', '€', '\n', 'ß'] o, specCol ['a', 'é', '€', '\n', 'ß'] o))
    = [(1, 1), (1, 2), (1, 2), (1, 3), (1, 3), (1, 3), (2, 0), (2, 1), (2, 1)] := by decide +kernel

/-- `getPosition_spec` instantiated on a 40-character line (two checkpoints are crossed) -/
example : getPosition (List.replicate 40 'x') (mkMarks (List.replicate 40 'x')) 37 = .ok (1, 38) := by
  rw [getPosition_spec]; exact congrArg _ (by decide +kernel)

/-- checkpoints are really there: a 40-character line has marks at columns 0, 16, 32 -/
example : mkMarks (List.replicate 40 'x') = [⟨0, 1, 0⟩, ⟨16, 1, 16⟩, ⟨32, 1, 32⟩] := by
  decide +kernel

def testNoLinebreaks : List Char := "qwertyuiopasdfghjklzxcvbnmQWERTYUIOPASDFGHJKLZXCVBNM".toList
def testUnicode : List Char := "!ΑαΒβΓγΔδΕεΖζΗηΘθΙιΚκΛλΜμΝνΞξΟοΠπΡρΣσςΤτΥυΦφΧχΨψΩω".toList
def testManyLinebreaks : List Char := "\n\n\n\n\n\n123".toList

/-- unit test `no_linebreaks` -/
example : ∀ i, i < 20 →
    startIs (getPositions testNoLinebreaks (mkMarks testNoLinebreaks) (i, 0)) (1, i + 1) = true := by
  decide +kernel

/-- unit test `unicode` -/
example : startIs (getPositions testUnicode (mkMarks testUnicode) (0, 0)) (1, 1) = true ∧
    ∀ i, i < 20 → 1 ≤ i →
      startIs (getPositions testUnicode (mkMarks testUnicode) (i, 0)) (1, (i - 1) / 2 + 2) = true := by
  decide +kernel

/-- unit test `many_linebreaks` -/
example : (∀ i, i < 6 →
      startIs (getPositions testManyLinebreaks (mkMarks testManyLinebreaks) (i, 0)) (i + 2, 0) = true) ∧
    startIs (getPositions testManyLinebreaks (mkMarks testManyLinebreaks) (7, 0)) (7, 2) = true ∧
    startIs (getPositions testManyLinebreaks (mkMarks testManyLinebreaks) (8, 0)) (7, 3) = true := by
  decide +kernel

/-- unit test `after_end` -/
example :
    startIs (getPositions "123".toList (mkMarks "123".toList) (100, 0)) (1, 3) = true ∧
    startIs (getPositions "123\n".toList (mkMarks "123\n".toList) (100, 0)) (2, 0) = true ∧
    startIs (getPositions "123\n456".toList (mkMarks "123\n456".toList) (100, 0)) (2, 3) = true := by
  decide +kernel

/-- `getPositions_spec` on the crate's doc example `"# hello"`, node `[0, 7)`: `1:1-1:7` -/
example : getPositions "# hello".toList (mkMarks "# hello".toList) (0, 7) = .ok ((1, 1), (1, 7)) := by
  rw [getPositions_spec]; exact congrArg _ (by decide +kernel)

end MdIt.SourceMap
