/-
  C06, LIST half, whole document — the blank-first-line case, and the exact first-line condition.

  `Props/C06List.lean` proves `item_commutes_gen` for documents whose first line is not blank (`FirstOk`)
  under `0 < max_nesting`.  Here:

    `item_commutes_gen2`   the same conclusion under `FirstOk2` — the first line of `D` is non-blank at
                           indent 0 or ≥ 4, OR it is blank (only spaces) and the second line is non-blank or
                           absent — and with no condition on `max_nesting`
    `item_commutes_blank`  the blank case on its own: `linesT D = (l0, t0) :: (l1, t1) :: rest`, `l0` blank,
                           `l1` non-blank (`"\na"` ↦ `"- \n  a"`); bullet / ordered instances
    `item_commutes_empty`  `D` a single blank line (`""` ↦ `"- "`: an empty item)

  Why it holds: behind the marker the item's first line is blank (`reached_end_of_line`), the content indent
  is `|mk| + 1` whatever the number of blanks, the rewritten entry of line 0 is the shifted entry of `D`'s
  line 0 (both empty), the empty-item workaround (`reached_end && is_empty(next_line + 1)`) does not fire,
  and the nested tokenizer skips line 0 on both sides.  The `tight` flags of the two runs differ at the start
  (`true` in the item, `false` at the top of `D`); `tokenize_sim_any` (`Lemmas/C06ListBlank.lean`): at the end
  either they agree or no block was parsed, and then the item is empty on both sides.
  Needed (witness below): two blank lines at the start make the item EMPTY (`"\n\na"` ↦ `"- \n  \n  a"` is an
  empty item followed by a paragraph).
-/
import MdIt.Lemmas.C06ListBlank
set_option linter.unusedSimpArgs false
set_option linter.unusedVariables false

namespace MdIt.Block.Li
open MdIt.Lines (LineOffset NoTerm AllBlank lead mkOff IsTerminator)

/-! ### the first line -/

section first
variable {mk : List Char} {L : DLines}

/-- the exact condition on the start of `D`: a non-blank first line at indent 0 or ≥ 4, or a blank first line
    followed by a non-blank line or by nothing -/
def FirstOk2 (L : DLines) : Prop :=
  ∃ l0 t0 rest, L = (l0, t0) :: rest ∧
    ((l0.dropWhile Lines.isBlank ≠ [] ∧ ((lead l0).length = 0 ∨ 4 ≤ (lead l0).length)) ∨
     (l0.dropWhile Lines.isBlank = [] ∧
       (rest = [] ∨ ∃ l1 t1 rest', rest = (l1, t1) :: rest' ∧ l1.dropWhile Lines.isBlank ≠ [])))

theorem FirstOk.to2 (h : FirstOk L) : FirstOk2 L := by
  obtain ⟨l0, t0, rest, h1, h2, h3⟩ := h
  exact ⟨l0, t0, rest, h1, .inl ⟨h2, h3⟩⟩

/-- a blank first line: behind the marker the line ends (`reached_end_of_line`), the content indent is
    `|mk| + 1` whatever the number of blanks -/
theorem itemRewrite_first_blank (hmk : MkOk mk) (hL : LinesOk L) {l0 t0 : List Char} {rest : DLines}
    (hL0 : L = (l0, t0) :: rest) (hb : l0.dropWhile Lines.isBlank = []) :
    itemRewrite (Lines.flat (indentLines (preAt mk) L))
        ⟨0, mk.length + 1 + Lines.byteLen l0, 0, 0⟩ mk.length
      = .ok (shiftE (mk.length + 1) ((mk.length + 1 : Nat) : Int) 0 (freshEntry L 0), mk.length + 1, true) := by
  have h0 : 0 < L.length := by rw [hL0]; simp
  have hg0 : L[0] = (l0, t0) := by simp [hL0]
  have htab : '\t' ∉ l0 := by
    have := hL.tabfree L[0] (List.getElem_mem h0)
    rw [hg0] at this; exact this
  have hfresh0 : freshEntry L 0 = mkOff 0 (l0, t0) := by
    simp [freshEntry, List.getElem?_eq_getElem h0, startOf_zero, hg0]
  have hsl := slice_first_line hmk hL0
  have hsplit : mk ++ ' ' :: l0 = mk ++ (' ' :: lead l0) ++ l0.dropWhile Lines.isBlank := by
    conv => lhs; rw [← Lines.lead_append_rest l0]
    simp
  have hsp : Spaces (' ' :: lead l0) := by
    intro c hc
    rcases List.mem_cons.mp hc with rfl | hc
    · rfl
    · exact lead_spaces htab c hc
  have hfi := findIndent_tabfree mk (' ' :: lead l0) (l0.dropWhile Lines.isBlank) (fun hc => (hmk.plain _ hc).2.1 rfl) hsp
    (head_dropWhile_blank l0)
  rw [← hsplit, hmk.bytes] at hfi
  have hbl : Lines.byteLen l0 = (lead l0).length := by
    have := congrArg Lines.byteLen (Lines.lead_append_rest l0)
    simp only [Lines.byteLen_append, Lines.byteLen_lead, hb, Lines.byteLen_nil] at this
    omega
  have heq : (mk.length + (' ' :: lead l0).length == mk.length + 1 + Lines.byteLen l0) = true := by
    simp only [beq_iff_eq, List.length_cons]
    omega
  have hfresh : freshEntry L 0 = ⟨0, Lines.byteLen l0, (lead l0).length, ((lead l0).length : Int)⟩ := by
    have htl : '\t' ∉ lead l0 := fun hc => htab ((List.takeWhile_sublist _).subset hc)
    rw [hfresh0]
    simp [mkOff, indentWidth_tabfree _ htl]
  unfold itemRewrite
  simp only [show ¬ ((0 : Int) < 0) by omega, if_false, hsl, liftL_ok', ok_bind, psub_eq (Nat.zero_le _), Nat.add_zero,
    Nat.sub_zero, hfi, heq, if_true, pure, Except.pure, hfresh, shiftE, Except.ok.injEq, Prod.mk.injEq, and_true]
  simp only [List.length_cons, Int.toNat_zero]
  refine ⟨?_, by omega⟩
  congr 1 <;> (try push_cast) <;> omega

/-- line 1 of the prefixed document is not empty when line 1 of `D` is absent or not blank -/
theorem second_not_empty (hmk : MkOk mk) (hL : LinesOk L) {l0 t0 : List Char} {rest : DLines}
    (hL0 : L = (l0, t0) :: rest)
    (h : rest = [] ∨ ∃ l1 t1 rest', rest = (l1, t1) :: rest' ∧ l1.dropWhile Lines.isBlank ≠ []) :
    Lines.isEmpty (Lines.offsetsOf 0 (indentLines (preAt mk) L)) 1 = false := by
  rcases h with rfl | ⟨l1, t1, rest', rfl, hnb⟩
  · have : (Lines.offsetsOf 0 (indentLines (preAt mk) L))[1]? = none := by
      apply List.getElem?_eq_none; rw [hL0]; simp
    simp [Lines.isEmpty, this]
  · have h1 : 1 < L.length := by rw [hL0]; simp
    have hg1 : L[1] = (l1, t1) := by simp [hL0]
    have he := offsetsOf_entry (indentLines (preAt mk) L) 1 (by rw [indentLines_length]; exact h1)
    rw [fresh_shift hmk hL 1 (by omega) h1] at he
    have hbl : Lines.byteLen l1 = (lead l1).length + Lines.byteLen (l1.dropWhile Lines.isBlank) := by
      have := congrArg Lines.byteLen (Lines.lead_append_rest l1)
      simp only [Lines.byteLen_append, Lines.byteLen_lead] at this
      omega
    have hrest : 1 ≤ Lines.byteLen (l1.dropWhile Lines.isBlank) := by
      cases hd : l1.dropWhile Lines.isBlank with
      | nil => exact absurd hd hnb
      | cons c r => have := Lines.utf8Size_pos' c; simp; omega
    simp only [Lines.isEmpty, he, shiftE, freshEntry, List.getElem?_eq_getElem h1, hg1, mkOff,
      decide_eq_false_iff_not, ge_iff_le, Nat.not_le]
    omega

/-- what the list rule computes on the marker line, under `FirstOk2` -/
theorem first_rewrite (hmk : MkOk mk) (hL : LinesOk L) (hf : FirstOk2 L) :
    ∃ l0 t0 rest, L = (l0, t0) :: rest ∧ ∃ re : Bool,
      itemRewrite (Lines.flat (indentLines (preAt mk) L)) ⟨0, mk.length + 1 + Lines.byteLen l0, 0, 0⟩ mk.length
        = .ok (shiftE (mk.length + 1) ((mk.length + 1 : Nat) : Int) 0 (freshEntry L 0), mk.length + 1, re) ∧
      (re = true → Lines.isEmpty (Lines.offsetsOf 0 (indentLines (preAt mk) L)) 1 = false) := by
  obtain ⟨l0, t0, rest, hL0, h⟩ := hf
  refine ⟨l0, t0, rest, hL0, ?_⟩
  rcases h with ⟨hnb, hind⟩ | ⟨hb, hsec⟩
  · exact ⟨false, itemRewrite_first hmk hL hL0 hnb hind, fun h => by cases h⟩
  · exact ⟨true, itemRewrite_first_blank hmk hL hL0 hb, fun _ => second_not_empty hmk hL hL0 hsec⟩

end first

/-! ### symbolic execution -/

section exec2

/-- one list item whose body is handed to the nested tokenizer (`reached_end_of_line` allowed, provided
    the empty-item workaround does not fire) -/
theorem listItem_exec2 {tok : Tok} {A : BState} {m pos : Nat} {pee tight re : Bool} {o o₂ : LineOffset} {indent : Nat}
    (ho : A.off m = .ok o) (hrw : itemRewrite A.src o pos = .ok (o₂, indent, re))
    (hre : re = true → Lines.isEmpty (A.offs.set m o₂) (m + 1) = false) {t' : BState}
    (htok : tok { src := A.src, offs := A.offs.set m o₂, blkIndent := indent, line := m, lineMax := A.lineMax,
                  tight := true, listIndent := some A.blkIndent, level := A.level + 1, nodeKind := .listItem,
                  children := [], refs := A.refs } = .ok t')
    (hlv : t'.level = A.level + 1) (hli : t'.listIndent = some A.blkIndent) (hoffs : t'.offs = A.offs.set m o₂)
    (hln : m + 1 ≤ t'.line) {r : Nat × Nat} (hr : Lines.getMap A.offs m (t'.line - 1) = .ok r) :
    ∃ pee', listItem tok A m pos pee tight =
      .ok ({ t' with level := A.level, blkIndent := A.blkIndent, listIndent := A.listIndent, offs := A.offs,
                     tight := A.tight, nodeKind := A.nodeKind,
                     children := A.children ++ [⟨t'.nodeKind, some r, t'.children⟩] },
           (if ¬ t'.tight ∨ pee then false else tight), pee') := by
  have hm : m < A.offs.length := off_lt ho
  have hself : (A.offs.set m o₂).set m o = A.offs := by
    rw [List.set_set]
    have := (List.getElem?_eq_some_iff.mp (off_ok ho)).2
    rw [← this]; exact List.set_getElem_self _
  have hcond : ¬ (re = true ∧ Lines.isEmpty (A.offs.set m o₂) (m + 1) = true) := by
    rintro ⟨h1, h2⟩
    rw [hre h1] at h2; cases h2
  unfold listItem listItemBody prevEmptyEndOf
  simp only [ho, hrw, ok_bind, BState.setOff, hm, if_true, BState.isEmpty, hcond, if_false, htok, hlv,
    psub_eq (Nat.le_add_left 1 A.level), Nat.add_sub_cancel, hli, hoffs, List.length_set, hself,
    psub_eq (show m ≤ t'.line by omega), psub_eq (show 1 ≤ t'.line by omega), pure, Except.pure]
  split
  · simp only [ok_bind, BState.getMap, hr, liftL_ok']
    exact ⟨_, rfl⟩
  · simp only [ok_bind, BState.getMap, hr, liftL_ok']
    exact ⟨_, rfl⟩

end exec2

/-! ### the outer run -/

section outer2
variable {mk : List Char}

/-- the list rule on the prefixed document, given the run on `D` and what the rule computes on the marker line -/
theorem list_on_prefixed2 {cfg cfg' : Cfg} (R : CfgRel cfg cfg') (hmk : MkOk mk) (D : List Char)
    (htab : '\t' ∉ D) (hsize : Lines.byteLen D + mk.length + 9 < 2147483648)
    {l0 t0 : List Char} {rest : DLines} (hL0' : Lines.linesT D = (l0, t0) :: rest) {re : Bool}
    (hrw' : itemRewrite (Lines.flat (indentLines (preAt mk) (Lines.linesT D)))
        ⟨0, mk.length + 1 + Lines.byteLen l0, 0, 0⟩ mk.length
      = .ok (shiftE (mk.length + 1) ((mk.length + 1 : Nat) : Int) 0 (freshEntry (Lines.linesT D) 0), mk.length + 1, re))
    (hre' : re = true → Lines.isEmpty (Lines.offsetsOf 0 (indentLines (preAt mk) (Lines.linesT D))) 1 = false)
    {mv : Option Nat} {mc : Char}
    (hdet : ∀ rest, detectMarker (mk ++ ' ' :: rest) = .ok (some (mk.length, mv)))
    (hmc : ∀ rest, markerCharOf (mk ++ ' ' :: rest) mk.length = .ok mc)
    {G : Nat} {t : BState} (ht : tokenize cfg G (BState.fresh D .root []) = .ok t) :
    ∃ (t1 : BState) (r : Nat × Nat),
      listRule (tokenize cfg' G) (testRules cfg' G) (G + 1) (BState.fresh (itemDoc mk D) .root []) false
        = .ok (true, t1) ∧
      t1.line = (Lines.linesT D).length ∧ t1.lineMax = (Lines.linesT D).length ∧ t1.nodeKind = .root ∧
      t1.refs = t.refs ∧
      t1.children = [⟨kindOf mv mc, some r, [⟨.listItem, some r,
          if t.tight then markTight (relocNodes (tau (mk.length + 1) (Lines.linesT D)) t.children)
          else relocNodes (tau (mk.length + 1) (Lines.linesT D)) t.children⟩]⟩] ∧
      Lines.getMap (Lines.splitLines (itemDoc mk D)) 0 ((Lines.linesT D).length - 1) = .ok r := by
  obtain ⟨L, hLdef⟩ : ∃ L, L = Lines.linesT D := ⟨_, rfl⟩
  rw [← hLdef] at hL0' hrw' hre' ⊢
  have hL : LinesOk L := by rw [hLdef]; exact linesOk_linesT D htab (by omega)
  have hflat : Lines.flat L = D := by rw [hLdef]; exact Lines.linesT_flat D
  have hL0 := hL0'
  have hn1 : 1 ≤ L.length := by rw [hL0]; simp
  have hg0 : L[0] = (l0, t0) := by simp [hL0]
  obtain ⟨C, hC⟩ : ∃ C : Ctx, C = ⟨mk.length + 1, preAt mk, L⟩ := ⟨_, rfl⟩
  obtain ⟨s0, hs0⟩ : ∃ s0, s0 = BState.fresh D .root [] := ⟨_, rfl⟩
  obtain ⟨A0, hA0⟩ : ∃ A0, A0 = BState.fresh (itemDoc mk D) .root [] := ⟨_, rfl⟩
  rw [← hs0] at ht
  rw [← hA0]
  -- the two fresh tables
  have hoffs0 : s0.offs = Lines.offsetsOf 0 L := by rw [hs0, hLdef]; exact Lines.splitLines_eq D
  have hoffsA : A0.offs = Lines.offsetsOf 0 (indentLines (preAt mk) L) := by
    rw [hA0, hLdef]; exact splitLines_itemDoc hmk D
  have hlen0 : s0.offs.length = L.length := by rw [hoffs0]; simp
  have hlenA : A0.offs.length = L.length := by rw [hoffsA]; simp
  have hlm0 : s0.lineMax = L.length := by rw [← hlen0, hs0]; rfl
  have hlmA : A0.lineMax = L.length := by rw [← hlenA, hA0]; rfl
  have hsrcA : A0.src = Lines.flat (indentLines (preAt mk) L) := by rw [hA0, hLdef]; rfl
  have hA0line : A0.line = 0 := by rw [hA0]; rfl
  have hA0blk : A0.blkIndent = 0 := by rw [hA0]; rfl
  have hA0lvl : A0.level = 0 := by rw [hA0]; rfl
  have hA0li : A0.listIndent = none := by rw [hA0]; rfl
  have hA0k : A0.nodeKind = .root := by rw [hA0]; rfl
  have hA0c : A0.children = [] := by rw [hA0]; rfl
  have hA0r : A0.refs = [] := by rw [hA0]; rfl
  have hA0t : A0.tight = false := by rw [hA0]; rfl
  have hentA : ∀ i, i < L.length → A0.offs[i]? = some (freshEntry (indentLines (preAt mk) L) i) := fun i hi => by
    rw [hoffsA]; exact offsetsOf_entry _ i (by rw [indentLines_length]; exact hi)
  have hent0 : ∀ i, i < L.length → s0.offs[i]? = some (freshEntry L i) := fun i hi => by
    rw [hoffs0]; exact offsetsOf_entry _ i hi
  have hfirstE : freshEntry (indentLines (preAt mk) L) 0 = ⟨0, mk.length + 1 + Lines.byteLen l0, 0, 0⟩ := by
    have := fresh_first (L := L) hmk (by omega)
    rw [hg0] at this; exact this
  -- reading line 0
  have hoffA0 : A0.off 0 = .ok ⟨0, mk.length + 1 + Lines.byteLen l0, 0, 0⟩ := by
    simp [BState.off, hentA 0 (by omega), hfirstE]
  have hindA : A0.lineIndent A0.line = .ok 0 := by
    simp [BState.lineIndent, Lines.lineIndent, hA0line, hentA 0 (by omega), hfirstE, hA0blk, liftL]
  have hcurA : A0.getLine A0.line = .ok (mk ++ ' ' :: l0) := by
    simp only [BState.getLine, Lines.getLine, hA0line, hentA 0 (by omega), hfirstE, hsrcA, slice_first_line hmk hL0,
      liftL_ok']
  have hspA : listSpecial A0 = .ok false := by simp [listSpecial, hA0li, pure, Except.pure]
  -- the item's first line
  have hrw := hrw'
  rw [← hsrcA] at hrw
  obtain ⟨E0, hE0⟩ : ∃ E0, E0 = shiftE (mk.length + 1) ((mk.length + 1 : Nat) : Int) 0 (freshEntry L 0) := ⟨_, rfl⟩
  rw [← hE0] at hrw
  -- the state handed to the nested tokenizer
  obtain ⟨B, hB⟩ : ∃ B : BState, B = (⟨A0.src, A0.offs.set 0 E0, mk.length + 1, 0, A0.lineMax, true, some A0.blkIndent,
      A0.level + 1 + 1, .listItem, [], A0.refs⟩ : BState) := ⟨_, rfl⟩
  have hwin : Win (mk.length + 1) (mk.length + 1) 0 L.length s0.offs B.offs := by
    intro i _ hi
    refine ⟨?_, fun _ o ho => ?_⟩
    · rw [hent0 i hi, hB]
      simp only [Option.map_some]
      by_cases hi0 : i = 0
      · subst hi0
        simp only [List.getElem?_set, if_true, hlenA, hE0]
        rw [if_pos (by omega)]
      · simp only [List.getElem?_set, if_neg (Ne.symm hi0)]
        rw [hentA i hi, fresh_shift hmk hL i (by omega) hi]
    · rw [hent0 i hi] at ho
      cases ho
      simp [freshEntry, List.getElem?_eq_getElem hi, mkOff]
  have hq_ok : ∀ (i : Nat) (o : LineOffset), s0.offs[i]? = some o → EntryOk L i o := by
    intro i o ho
    have hi : i < L.length := by
      have := (List.getElem?_eq_some_iff.mp ho).1; omega
    rw [hent0 i hi] at ho
    cases ho
    exact entryOk_fresh hL i hi
  have hq_geo : ∀ i : Nat, ∃ di : Int, B.offs[i]? = (s0.offs[i]?).map (shiftE (mk.length + 1) di i) := by
    intro i
    by_cases hi : i < L.length
    · exact ⟨((mk.length + 1 : Nat) : Int), (hwin i (Nat.zero_le _) hi).1⟩
    · refine ⟨0, ?_⟩
      have h1 : B.offs[i]? = none := by
        apply List.getElem?_eq_none; rw [hB]; simp only [List.length_set]; omega
      have h2 : s0.offs[i]? = none := by
        apply List.getElem?_eq_none; omega
      rw [h1, h2]; rfl
  have T0 : Tbl C 0 (mk.length + 1) s0 B := by
    subst hC
    exact { pre := preOk_preAt hmk, lines := hL, src := by rw [hs0, hflat]; rfl, src' := by rw [hB]; exact hsrcA,
            q := ⟨hlen0, hq_ok, hq_geo⟩, win := by rw [hlm0]; exact hwin,
            blk := by rw [hB, hs0]; simp [BState.fresh],
            small := by rw [hs0]; exact Nat.zero_le _, dsmall := Nat.le_refl _,
            wsize := by simp only; rw [hflat]; omega }
  have hs0li : s0.listIndent = none := by rw [hs0]; rfl
  have hs0blk : s0.blkIndent = 0 := by rw [hs0]; rfl
  have hs0line : s0.line = 0 := by rw [hs0]; rfl
  have S0 : Sim C 0 (mk.length + 1) false s0 B :=
    { tbl := T0, line := by rw [hB, hs0line], lineMax := by rw [hB]; simp only; rw [hlmA, hlm0],
      tight := (fun h => by cases h),
      listIndent := .inr (.inr ⟨hs0blk, hs0li, by rw [hB]; simp only; rw [hA0blk]⟩),
      level := by rw [hB]; simp only; rw [hA0lvl, hs0]; rfl,
      nodeKind := .inr ⟨by rw [hs0]; rfl, by rw [hB]⟩,
      children := by rw [hB, hs0]; rfl, refs := by rw [hB]; simp only; rw [hA0r, hs0]; rfl }
  -- the nested run
  obtain ⟨t', htok', St, hor⟩ := tokenize_sim_any (C := C) R S0 (Nat.zero_le _) ht
  have hfr' := (tokenize_tokSpec cfg' G).frame _ _ htok'
  -- the lines consumed
  have htl : t.line = L.length := by
    have h1 := tokenize_fresh_end (cfg := cfg) (F := G) (D := D) (k := .root) (refs := []) (t := t) (by rw [← hs0]; exact ht)
    rw [h1, ← hlen0, hs0]; rfl
  have ht'l : t'.line = L.length := by rw [St.line, htl]
  -- the range
  obtain ⟨r, hr0⟩ : ∃ r, Lines.getMap A0.offs 0 (L.length - 1) = .ok r := by
    have h0 : 0 < A0.offs.length := by omega
    have h1 : L.length - 1 < A0.offs.length := by omega
    refine ⟨(A0.offs[0].firstNonspace, A0.offs[L.length - 1].lineEnd), ?_⟩
    simp [Lines.getMap, List.getElem?_eq_getElem h0, List.getElem?_eq_getElem h1]
  -- the item
  obtain ⟨A1, hA1⟩ : ∃ A1 : BState, A1 = { A0 with nodeKind := kindOf mv mc, children := [], level := A0.level + 1 } := ⟨_, rfl⟩
  have htokB : tokenize cfg' G (⟨A1.src, A1.offs.set 0 E0, mk.length + 1, 0, A1.lineMax, true, some A1.blkIndent,
      A1.level + 1, .listItem, [], A1.refs⟩ : BState) = .ok t' := by
    rw [hA1]; rw [hB] at htok'; exact htok'
  obtain ⟨pee', hitem⟩ := listItem_exec2 (re := re) (tok := tokenize cfg' G) (A := A1) (m := 0) (pos := mk.length) (pee := false)
    (tight := true) (o₂ := E0) (indent := mk.length + 1) (t' := t') (r := r)
    (by rw [hA1]; exact hoffA0) (by rw [hA1]; exact hrw)
    (fun h => by
      rw [hA1]; simp only
      have := hre' h
      rw [← hoffsA] at this
      simp only [Lines.isEmpty, List.getElem?_set, show ¬ (0 = 0 + 1) by omega, if_false] at this ⊢
      exact this) htokB
    (by rw [hfr'.level, hB, hA1]) (by rw [hfr'.listIndent, hB, hA1]) (by rw [hfr'.offs, hB, hA1])
    (by omega) (by rw [ht'l, hA1]; exact hr0)
  -- the loop
  have hloop := listLoop_exec (test := testRules cfg' G) (ordered := mv.isSome) (mc := mc) (fuel := G)
    (show 0 < A1.lineMax by rw [hA1]; simp only; omega) hitem
    (by simp only [ge_iff_le]; rw [hfr'.lineMax, ht'l, hB]; simp only; omega)
  simp only at hloop
  rw [ht'l] at hloop
  -- the rule
  have hrule := listRule_exec (tok := tokenize cfg' G) (test := testRules cfg' G) (fuel := G + 1) (A0 := A0)
    (pos := mk.length) (mv := mv) (mc := mc) (n := L.length) (r := r)
    (item := ⟨t'.nodeKind, some r, t'.children⟩) hindA hspA hcurA (hdet l0) (hmc l0)
    (by rw [hA1] at hloop; simp only [hA0line] at hloop ⊢; exact hloop)
    rfl (by simp only; rw [hfr'.nodeKind, hB]) rfl hn1
    (by simp only [BState.getMap, hA0line, hr0, liftL_ok'])
  refine ⟨_, r, hrule, ?_, ?_, ?_, ?_, ?_, ?_⟩
  · simp only [ht'l]
  · simp only; rw [hfr'.lineMax, hB]; exact hlmA
  · simp only [hA0k]
  · simp only [St.refs]
  · have hs0c : s0.children = [] := by rw [hs0]; rfl
    rcases hor with htt | hcc
    · simp only [hA0c, List.nil_append, hA1, St.children, hfr'.nodeKind, hB, htt]
      subst hC
      cases t.tight <;> simp
    · rw [hs0c] at hcc
      simp only [hA0c, List.nil_append, hA1, St.children, hfr'.nodeKind, hB, hcc]
      cases t'.tight <;> cases t.tight <;> simp [relocNodes, markTight]
  · rw [← hr0, hA0]; rfl

/-- **C06, list half, whole document, exact first-line condition.**  As `item_commutes_gen`, with `FirstOk2`
    (the first line of `D` is non-blank at indent 0 or ≥ 4 — or blank, and then followed by a non-blank line
    or by nothing) in place of `FirstOk`, and WITHOUT the hypothesis `0 < max_nesting`. -/
theorem item_commutes_gen2 (cfg : Cfg) (hmk : MkOk mk) {mv : Option Nat} {mc : Char}
    (hdet : ∀ rest, detectMarker (mk ++ ' ' :: rest) = .ok (some (mk.length, mv)))
    (hmc : ∀ rest, markerCharOf (mk ++ ' ' :: rest) mk.length = .ok mc)
    (hc0 : ∀ c r, mk = c :: r → c ≠ '~' ∧ c ≠ '`' ∧ c ≠ '>' ∧ c ≠ '#' ∧ c ≠ '[')
    (D : List Char) (htab : '\t' ∉ D) (hsize : Lines.byteLen D + mk.length + 9 < 2147483648)
    (hfirst : FirstOk2 (Lines.linesT D))
    (pre post : List RuleId) (hchain : cfg.chain = pre ++ .list :: post)
    (hpre : ∀ r ∈ pre, frontOkL r = true)
    (hhr : .hr ∈ pre → ∀ l0 t0 rest, Lines.linesT D = (l0, t0) :: rest → hrLook 0 (mk ++ ' ' :: l0) = false)
    {t : BState} (h : tokenize cfg (fuelFor cfg D) (BState.fresh D .root []) = .ok t) :
    ∃ r, Lines.getMap (Lines.splitLines (itemDoc mk D)) 0 ((Lines.linesT D).length - 1) = .ok r ∧
      parseBlocks { cfg with maxNesting := cfg.maxNesting + 2 } (itemDoc mk D) =
      .ok (⟨.root, some (0, Lines.byteLen (itemDoc mk D)),
            [⟨kindOf mv mc, some r, [⟨.listItem, some r,
              if t.tight then markTight (relocNodes (tau (mk.length + 1) (Lines.linesT D)) t.children)
              else relocNodes (tau (mk.length + 1) (Lines.linesT D)) t.children⟩]⟩]⟩, t.refs) := by
  obtain ⟨cfg', hcfg'⟩ : ∃ c, c = { cfg with maxNesting := cfg.maxNesting + 2 } := ⟨_, rfl⟩
  have R : CfgRel cfg cfg' := by subst hcfg'; exact ⟨rfl, rfl, rfl, rfl, rfl⟩
  rw [← hcfg']
  have hn : (Lines.splitLines D).length = (Lines.linesT D).length := by rw [Lines.splitLines_eq]; simp
  have hn' : (Lines.splitLines (itemDoc mk D)).length = (Lines.linesT D).length := by
    rw [splitLines_itemDoc hmk]; simp
  have hLok := linesOk_linesT D htab (by omega)
  obtain ⟨l0, t0, rest, hL0, re, hrwF, hreF⟩ := first_rewrite hmk hLok hfirst
  have hn1 : 1 ≤ (Lines.linesT D).length := by rw [hL0]; simp
  have hmk1 : 1 ≤ mk.length := by
    cases hm : mk with
    | nil => exact absurd hm hmk.ne
    | cons c r => simp
  obtain ⟨G, hG, hle, hGn⟩ : ∃ G, fuelFor cfg' (itemDoc mk D) = G + 2 ∧ fuelFor cfg D ≤ G + 1 ∧
      (Lines.linesT D).length < G + 2 := by
    refine ⟨fuelFor cfg' (itemDoc mk D) - 2, ?_, ?_, ?_⟩
    · unfold fuelFor; omega
    · unfold fuelFor
      rw [hn, hn', byteLen_itemDoc hmk, R.nesting]
      have : 2 ≤ (mk.length + 1) * (Lines.linesT D).length := by
        calc 2 = 2 * 1 := rfl
          _ ≤ (mk.length + 1) * (Lines.linesT D).length := Nat.mul_le_mul (by omega) hn1
      omega
    · unfold fuelFor
      rw [hn']
      omega
  have ht := tokenize_mono hle h
  obtain ⟨t1, r, hrule, h1, h2, h3, h4, h5, h6⟩ := list_on_prefixed2 R hmk D htab hsize hL0 hrwF hreF hdet hmc (G := G + 1) ht
  refine ⟨r, h6, ?_⟩
  obtain ⟨hind0, hline0, hne0⟩ := fresh_item_reads hmk D hL0
  obtain ⟨c0, r0, hc0r⟩ : ∃ c r, mk = c :: r := by
    cases hm : mk with
    | nil => exact absurd hm hmk.ne
    | cons c r => exact ⟨c, r, rfl⟩
  have hline0' : (BState.fresh (itemDoc mk D) .root []).getLine 0 = .ok (c0 :: (r0 ++ ' ' :: l0)) := by
    rw [hline0, hc0r]; rfl
  have hrej : ∀ r ∈ pre, runRule cfg' (tokenize cfg' (G + 1)) (testRules cfg' (G + 1)) (G + 2) r
      (BState.fresh (itemDoc mk D) .root []) false = .ok (false, BState.fresh (itemDoc mk D) .root []) :=
    fun r hr => front_rejects_L (hpre r hr) hind0 hline0' (hc0 c0 r0 hc0r) (fun hrr => by
      subst hrr
      have := hhr hr l0 t0 rest hL0
      rw [hc0r] at this; exact this)
  have hrun : runChain (runRule cfg' (tokenize cfg' (G + 1)) (testRules cfg' (G + 1)) (G + 2)) cfg'.chain
      (BState.fresh (itemDoc mk D) .root []) false = .ok (true, t1) := by
    rw [R.chain, hchain, runChain_front_L pre _ hrej]
    simp only [runChain, runRule, hrule]
  have htok : tokenize cfg' (G + 2) (BState.fresh (itemDoc mk D) .root []) = .ok { t1 with tight := !false } := by
    simp only [tokenize, engine]
    exact tokLoop_one (by show 0 < (Lines.splitLines (itemDoc mk D)).length; rw [hn']; omega) hne0 hind0
      (by rw [R.nesting]; exact Nat.succ_pos _) hrun (by rw [h1]; exact hn1) (by rw [h1, h2]; exact Nat.le_refl _)
  unfold parseBlocks
  rw [hG, htok]
  simp [h3, h4, h5]

/-- `item_commutes_gen2` in terms of `parseBlocks` alone: `tg` is the `tight` flag the run on `D` ends with -/
theorem item_commutes_gen2_parse (cfg : Cfg) (hmk : MkOk mk) {mv : Option Nat} {mc : Char}
    (hdet : ∀ rest, detectMarker (mk ++ ' ' :: rest) = .ok (some (mk.length, mv)))
    (hmc : ∀ rest, markerCharOf (mk ++ ' ' :: rest) mk.length = .ok mc)
    (hc0 : ∀ c r, mk = c :: r → c ≠ '~' ∧ c ≠ '`' ∧ c ≠ '>' ∧ c ≠ '#' ∧ c ≠ '[')
    (D : List Char) (htab : '\t' ∉ D) (hsize : Lines.byteLen D + mk.length + 9 < 2147483648)
    (hfirst : FirstOk2 (Lines.linesT D))
    (pre post : List RuleId) (hchain : cfg.chain = pre ++ .list :: post)
    (hpre : ∀ r ∈ pre, frontOkL r = true)
    (hhr : .hr ∈ pre → ∀ l0 t0 rest, Lines.linesT D = (l0, t0) :: rest → hrLook 0 (mk ++ ' ' :: l0) = false)
    {root : BNode} {refs : Refs.RefMap} (h : parseBlocks cfg D = .ok (root, refs)) :
    ∃ (tg : Bool) (r : Nat × Nat),
      Lines.getMap (Lines.splitLines (itemDoc mk D)) 0 ((Lines.linesT D).length - 1) = .ok r ∧
      parseBlocks { cfg with maxNesting := cfg.maxNesting + 2 } (itemDoc mk D) =
      .ok (⟨.root, some (0, Lines.byteLen (itemDoc mk D)),
            [⟨kindOf mv mc, some r, [⟨.listItem, some r,
              if tg then markTight (relocNodes (tau (mk.length + 1) (Lines.linesT D)) root.children)
              else relocNodes (tau (mk.length + 1) (Lines.linesT D)) root.children⟩]⟩]⟩, refs) := by
  unfold parseBlocks at h
  cases htk : tokenize cfg (fuelFor cfg D) (BState.fresh D .root []) with
  | error e => rw [htk] at h; cases h
  | ok t =>
    rw [htk] at h
    simp only [Except.ok.injEq, Prod.mk.injEq] at h
    obtain ⟨rfl, rfl⟩ := h
    obtain ⟨r, h1, h2⟩ := item_commutes_gen2 cfg hmk hdet hmc hc0 D htab hsize hfirst pre post hchain hpre hhr htk
    exact ⟨t.tight, r, h1, h2⟩

/-! ### the blank first line on its own -/

theorem all_of_dropWhile_nil (p : Char → Bool) : ∀ (l : List Char), l.dropWhile p = [] → ∀ x ∈ l, p x = true
  | [], _, x, hx => by simp at hx
  | c :: r, h, x, hx => by
    simp only [List.dropWhile_cons] at h
    split at h
    · rename_i hc
      rcases List.mem_cons.mp hx with rfl | hx
      · exact hc
      · exact all_of_dropWhile_nil p r h x hx
    · cases h

theorem hrCount_blank {marker : Char} (hm : marker ≠ ' ' ∧ marker ≠ '\t') :
    ∀ (l : List Char) (cnt : Nat), (∀ x ∈ l, Lines.isBlank x = true) → hrCount marker l cnt = some cnt
  | [], _, _ => rfl
  | c :: r, cnt, h => by
    have hc := h c (by simp)
    simp only [Lines.isBlank, Bool.or_eq_true, decide_eq_true_eq] at hc
    have h1 : ¬ c = marker := by rintro rfl; rcases hc with rfl | rfl; exact hm.1 rfl; exact hm.2 rfl
    have h2 : ¬ (c ≠ ' ' ∧ c ≠ '\t') := by rintro ⟨a, b⟩; rcases hc with rfl | rfl; exact a rfl; exact b rfl
    simp only [hrCount, h1, h2, if_false]
    exact hrCount_blank hm r cnt (fun x hx => h x (List.mem_cons_of_mem _ hx))

/-- a marker character and blanks only: not a thematic break -/
theorem hrLook_blank {mk : List Char} (hmk : MkOk mk) {l0 : List Char} (hb : l0.dropWhile Lines.isBlank = [])
    (hone : ∀ c r, mk = c :: r → ∀ x ∈ r, x ≠ c) :
    hrLook 0 (mk ++ ' ' :: l0) = false := by
  cases hm : mk with
  | nil => exact absurd hm hmk.ne
  | cons c r =>
    have hall : ∀ x ∈ l0, Lines.isBlank x = true := all_of_dropWhile_nil _ l0 hb
    have hcp := hmk.plain c (by rw [hm]; simp)
    simp only [List.cons_append, hrLook, show ¬ ((0 : Int) ≥ 4) by omega, if_false]
    split
    · rfl
    · -- `c` is one of `*`, `-`, `_`: the rest of the marker (if any) stops the count or does not contain `c`
      cases r with
      | nil =>
        have : hrCount c ([] ++ ' ' :: l0) 1 = some 1 :=
          hrCount_blank ⟨hcp.1, hcp.2.1⟩ (' ' :: l0) 1 (fun x hx => by
            rcases List.mem_cons.mp hx with rfl | hx
            · decide
            · exact hall x hx)
        rw [this]; rfl
      | cons d r' =>
        -- a second marker character that is neither `c` nor blank: the count fails
        have hd := hmk.plain d (by rw [hm]; simp)
        have hdc : d ≠ c := hone c (d :: r') hm d (by simp)
        simp only [List.cons_append, hrCount, hdc, if_false, ne_eq, hd.1, hd.2.1, not_false_eq_true, and_self, if_true]

/-- **C06, list half, blank first line.**  The first line of `D` is blank (blanks only — spaces, `D` being
    tab-free), the second line exists and is not blank; otherwise as `item_commutes_gen2`: any marker the
    list rule recognises, no condition on `max_nesting`, and no thematic-break condition when the marker is a
    single character or has a second character different from the first (the marker line is the marker and
    blanks).  `"\na"` ↦ `"- \n  a"`. -/
theorem item_commutes_blank (cfg : Cfg) (hmk : MkOk mk) {mv : Option Nat} {mc : Char}
    (hdet : ∀ rest, detectMarker (mk ++ ' ' :: rest) = .ok (some (mk.length, mv)))
    (hmc : ∀ rest, markerCharOf (mk ++ ' ' :: rest) mk.length = .ok mc)
    (hc0 : ∀ c r, mk = c :: r → c ≠ '~' ∧ c ≠ '`' ∧ c ≠ '>' ∧ c ≠ '#' ∧ c ≠ '[')
    (hone : ∀ c r, mk = c :: r → ∀ x ∈ r, x ≠ c)
    (D : List Char) (htab : '\t' ∉ D) (hsize : Lines.byteLen D + mk.length + 9 < 2147483648)
    {l0 t0 l1 t1 : List Char} {rest : DLines} (hL : Lines.linesT D = (l0, t0) :: (l1, t1) :: rest)
    (hb0 : l0.dropWhile Lines.isBlank = []) (hnb1 : l1.dropWhile Lines.isBlank ≠ [])
    (pre post : List RuleId) (hchain : cfg.chain = pre ++ .list :: post)
    (hpre : ∀ r ∈ pre, frontOkL r = true)
    {t : BState} (h : tokenize cfg (fuelFor cfg D) (BState.fresh D .root []) = .ok t) :
    ∃ r, Lines.getMap (Lines.splitLines (itemDoc mk D)) 0 ((Lines.linesT D).length - 1) = .ok r ∧
      parseBlocks { cfg with maxNesting := cfg.maxNesting + 2 } (itemDoc mk D) =
      .ok (⟨.root, some (0, Lines.byteLen (itemDoc mk D)),
            [⟨kindOf mv mc, some r, [⟨.listItem, some r,
              if t.tight then markTight (relocNodes (tau (mk.length + 1) (Lines.linesT D)) t.children)
              else relocNodes (tau (mk.length + 1) (Lines.linesT D)) t.children⟩]⟩]⟩, t.refs) :=
  item_commutes_gen2 cfg hmk hdet hmc hc0 D htab hsize
    ⟨l0, t0, _, hL, .inr ⟨hb0, .inr ⟨l1, t1, rest, rfl, hnb1⟩⟩⟩ pre post hchain hpre
    (fun _ l0' t0' rest' hl => by
      rw [hL] at hl
      simp only [List.cons.injEq, Prod.mk.injEq] at hl
      rw [← hl.1.1]
      exact hrLook_blank hmk hb0 hone) h

/-- bullet markers -/
theorem item_commutes_blank_bullet (cfg : Cfg) {c : Char} (hc : c = '-' ∨ c = '*' ∨ c = '+')
    (D : List Char) (htab : '\t' ∉ D) (hsize : Lines.byteLen D + 10 < 2147483648)
    {l0 t0 l1 t1 : List Char} {rest : DLines} (hL : Lines.linesT D = (l0, t0) :: (l1, t1) :: rest)
    (hb0 : l0.dropWhile Lines.isBlank = []) (hnb1 : l1.dropWhile Lines.isBlank ≠ [])
    (pre post : List RuleId) (hchain : cfg.chain = pre ++ .list :: post)
    (hpre : ∀ r ∈ pre, frontOkL r = true)
    {t : BState} (h : tokenize cfg (fuelFor cfg D) (BState.fresh D .root []) = .ok t) :
    ∃ r, Lines.getMap (Lines.splitLines (itemDoc [c] D)) 0 ((Lines.linesT D).length - 1) = .ok r ∧
      parseBlocks { cfg with maxNesting := cfg.maxNesting + 2 } (itemDoc [c] D) =
      .ok (⟨.root, some (0, Lines.byteLen (itemDoc [c] D)),
            [⟨.bulletList c, some r, [⟨.listItem, some r,
              if t.tight then markTight (relocNodes (tau 2 (Lines.linesT D)) t.children)
              else relocNodes (tau 2 (Lines.linesT D)) t.children⟩]⟩]⟩, t.refs) :=
  item_commutes_blank cfg (mkOk_bullet hc) (detect_bullet hc) (markerChar_bullet hc)
    (fun x r hx => by
      simp at hx
      obtain ⟨rfl, _⟩ := hx
      rcases hc with rfl | rfl | rfl <;> decide)
    (fun x r hx y hy => by
      simp at hx
      rw [hx.2] at hy; simp at hy)
    D htab (by simpa using hsize) hL hb0 hnb1 pre post hchain hpre h

/-- ordered markers -/
theorem item_commutes_blank_ordered (cfg : Cfg) {ds : List Char} {dl : Char} (hm : OrdMk ds dl)
    (D : List Char) (htab : '\t' ∉ D) (hsize : Lines.byteLen D + 20 < 2147483648)
    {l0 t0 l1 t1 : List Char} {rest : DLines} (hL : Lines.linesT D = (l0, t0) :: (l1, t1) :: rest)
    (hb0 : l0.dropWhile Lines.isBlank = []) (hnb1 : l1.dropWhile Lines.isBlank ≠ [])
    (pre post : List RuleId) (hchain : cfg.chain = pre ++ .list :: post)
    (hpre : ∀ r ∈ pre, frontOkL r = true)
    {t : BState} (h : tokenize cfg (fuelFor cfg D) (BState.fresh D .root []) = .ok t) :
    ∃ r, Lines.getMap (Lines.splitLines (itemDoc (ds ++ [dl]) D)) 0 ((Lines.linesT D).length - 1) = .ok r ∧
      parseBlocks { cfg with maxNesting := cfg.maxNesting + 2 } (itemDoc (ds ++ [dl]) D) =
      .ok (⟨.root, some (0, Lines.byteLen (itemDoc (ds ++ [dl]) D)),
            [⟨.orderedList (ordValue ds) dl, some r, [⟨.listItem, some r,
              if t.tight then markTight (relocNodes (tau ((ds ++ [dl]).length + 1) (Lines.linesT D)) t.children)
              else relocNodes (tau ((ds ++ [dl]).length + 1) (Lines.linesT D)) t.children⟩]⟩]⟩, t.refs) := by
  have hlen := hm.len
  obtain ⟨c0, r0, hc0r⟩ : ∃ c r, ds = c :: r := by
    cases hds : ds with
    | nil => exact absurd hds hm.ne
    | cons c r => exact ⟨c, r, rfl⟩
  have hd0 : isDigit c0 = true := hm.digits c0 (by rw [hc0r]; simp)
  have hfirst : FirstOk2 (Lines.linesT D) := ⟨l0, t0, _, hL, .inr ⟨hb0, .inr ⟨l1, t1, rest, rfl, hnb1⟩⟩⟩
  exact item_commutes_gen2 cfg (mkOk_ordered hm) (detect_ordered hm) (markerChar_ordered hm)
    (fun x r hx => by
      rw [hc0r] at hx
      simp only [List.cons_append, List.cons.injEq] at hx
      rw [← hx.1]
      have := digit_plain hd0
      exact ⟨this.2.2.2.2.1, this.2.2.2.2.2.1, this.2.2.2.2.2.2.1, this.2.2.2.2.2.2.2.1, this.2.2.2.2.2.2.2.2.1⟩)
    D htab (by simp only [List.length_append, List.length_singleton]; omega) hfirst pre post hchain hpre
    (fun _ l0 t0 rest _ => by
      rw [hc0r]
      simp only [List.cons_append, hrLook, show ¬ ((0 : Int) ≥ 4) by omega, if_false]
      simp only [isDigit, Bool.and_eq_true, decide_eq_true_eq] at hd0
      rw [if_pos]
      rintro (rfl | rfl | rfl) <;> revert hd0 <;> decide) h

end outer2

/-! ### examples: the hypotheses are satisfiable, and the exclusion of two blank lines is needed -/

section examples2

/-- `"\na\n\nb"`: a blank line, a paragraph, a blank line, a paragraph -/
def blDoc : List Char := ['\n', 'a', '\n', '\n', 'b']

/-- the hypotheses of `item_commutes_blank_bullet` hold for the stock chain and `blDoc` (the run ends loose),
    so does its conclusion -/
example : ∃ t r, tokenize exCfg (fuelFor exCfg blDoc) (BState.fresh blDoc .root []) = .ok t ∧ t.tight = false ∧
    parseBlocks { exCfg with maxNesting := 102 } (itemDoc ['-'] blDoc) =
      .ok (⟨.root, some (0, Lines.byteLen (itemDoc ['-'] blDoc)),
            [⟨.bulletList '-', some r, [⟨.listItem, some r,
                relocNodes (tau 2 (Lines.linesT blDoc)) t.children⟩]⟩]⟩, t.refs) := by
  have hok : (match tokenize exCfg (fuelFor exCfg blDoc) (BState.fresh blDoc .root []) with
      | .ok t => !t.tight | .error _ => false) = true := by decide +kernel
  cases h : tokenize exCfg (fuelFor exCfg blDoc) (BState.fresh blDoc .root []) with
  | error e => rw [h] at hok; cases hok
  | ok t =>
    rw [h] at hok
    have htg : t.tight = false := by simpa using hok
    obtain ⟨r, _, hq⟩ := item_commutes_blank_bullet exCfg (c := '-') (.inl rfl) blDoc (by decide) (by decide +kernel)
      (l0 := []) (t0 := ['\n']) (l1 := ['a']) (t1 := ['\n']) (rest := [([], ['\n']), (['b'], [])])
      (by decide +kernel) (by decide) (by decide)
      [.code, .fence, .blockquote, .hr] _ rfl (by decide) h
    rw [htg] at hq
    exact ⟨t, r, rfl, htg, hq⟩

/-- `"\na\n\nb"` against `"- \n  a\n  \n  b"`: paragraphs `1..2` ↦ `5..6`, `4..5` ↦ `12..13`
    (2, 4, 6, 8 bytes inserted in front of lines 0, 1, 2, 3) -/
example : itemDoc ['-'] blDoc = ['-', ' ', '\n', ' ', ' ', 'a', '\n', ' ', ' ', '\n', ' ', ' ', 'b'] ∧
    topView (parseBlocks exCfg blDoc) = some [(true, some (1, 2)), (true, some (4, 5))] ∧
    itemView (parseBlocks { exCfg with maxNesting := 102 } (itemDoc ['-'] blDoc))
      = some [(false, some (0, 13)), (false, some (0, 13)), (true, some (5, 6)), (true, some (12, 13))] ∧
    tau 2 (Lines.linesT blDoc) 1 = 5 ∧ tau 2 (Lines.linesT blDoc) 2 = 6 ∧
    tau 2 (Lines.linesT blDoc) 4 = 12 ∧ tau 2 (Lines.linesT blDoc) 5 = 13 := by decide +kernel

/-- a first line of blanks, a second line at indent 1 (`"  \n a"` ↦ `"-   \n   a"`): `FirstOk2` holds, the
    content indent of the item is 2 whatever the blanks behind the marker (tight: the paragraph is unwrapped) -/
example : FirstOk2 (Lines.linesT [' ', ' ', '\n', ' ', 'a']) ∧
    topView (parseBlocks exCfg [' ', ' ', '\n', ' ', 'a']) = some [(true, some (4, 5))] ∧
    itemView (parseBlocks { exCfg with maxNesting := 102 } (itemDoc ['-'] [' ', ' ', '\n', ' ', 'a']))
      = some [(false, some (0, 9)), (false, some (0, 9)), (false, none)] := by
  refine ⟨⟨[' ', ' '], ['\n'], [([' ', 'a'], [])], by decide +kernel, .inr ⟨by decide, .inr ⟨_, _, _, rfl, by decide⟩⟩⟩,
    by decide +kernel, by decide +kernel⟩

/-- the empty document (`""` ↦ `"- "`): `FirstOk2` holds (a blank line followed by nothing), both sides are
    empty — the `tight` flags of the two runs differ (`false` / `true`) and it does not matter -/
example : FirstOk2 (Lines.linesT []) ∧ topView (parseBlocks exCfg []) = some [] ∧
    itemView (parseBlocks { exCfg with maxNesting := 102 } (itemDoc ['-'] []))
      = some [(false, some (0, 2)), (false, some (0, 2))] := by
  refine ⟨⟨[], [], [], by decide +kernel, .inr ⟨by decide, .inl rfl⟩⟩, by decide +kernel, by decide +kernel⟩

/-- no condition on `max_nesting`: at `max_nesting = 0` the run on `"a"` parses no block, and at
    `max_nesting = 2` the item of `"- a"` is empty -/
example : topView (parseBlocks { exCfg with maxNesting := 0 } ['a']) = some [] ∧
    itemView (parseBlocks { exCfg with maxNesting := 2 } (itemDoc ['-'] ['a']))
      = some [(false, some (0, 3)), (false, some (0, 3))] := by decide +kernel

/-- two blank lines at the start must stay excluded: `"\n\na"` violates `FirstOk2`, and `"- \n  \n  a"` is
    an EMPTY item followed by a paragraph (the empty-item workaround: `reached_end && is_empty(line + 1)`) -/
example : ¬ FirstOk2 (Lines.linesT ['\n', '\n', 'a']) ∧
    topCount (parseBlocks exCfg ['\n', '\n', 'a']) = some 1 ∧
    topCount (parseBlocks { exCfg with maxNesting := 102 } (itemDoc ['-'] ['\n', '\n', 'a'])) = some 2 := by
  refine ⟨?_, by decide +kernel, by decide +kernel⟩
  rintro ⟨l0, t0, rest, hl, h⟩
  have h1 : Lines.linesT ['\n', '\n', 'a'] = [([], ['\n']), ([], ['\n']), (['a'], [])] := by decide +kernel
  rw [h1] at hl
  simp only [List.cons.injEq, Prod.mk.injEq] at hl
  obtain ⟨⟨rfl, rfl⟩, rfl⟩ := hl
  rcases h with ⟨hnb, _⟩ | ⟨_, hr | ⟨l1, t1, rest', hr, hnb⟩⟩
  · exact hnb rfl
  · cases hr
  · simp only [List.cons.injEq, Prod.mk.injEq] at hr
    obtain ⟨⟨rfl, rfl⟩, rfl⟩ := hr
    exact hnb rfl

end examples2

end MdIt.Block.Li
