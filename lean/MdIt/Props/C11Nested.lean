/-
  C11 at DOCUMENT level INSIDE CONTAINERS: fenced and indented code nested in block quotes and list items
  is reproduced verbatim by the whole pipeline.

  Property C11: "Any text placed inside a fenced block whose fence is longer than every fence run in the
  text, or indented by four spaces (with non-blank first and last line), or enclosed in a backtick span
  longer than every backtick run in it, reappears in the output character for character …  Quantifier:
  all texts T × the three code contexts × NESTING INSIDE BLOCK QUOTES AND LIST ITEMS."

  Rule level: `Block.fence_verbatim`, `Block.indented_verbatim`, `CodePair.span_verbatim(_ctx)`.
  Top-level documents: `MdIt/Lemmas/C14DocVerbatim.lean` (`doc_fence_verbatim`, `doc_indented_verbatim`, …).
  HERE: the same documents wrapped in any list `w : List Wrapper` of containers (`Wrapper.quote`,
  `.bullet c`, `.ordered ds dl`; `wrapAll w D` applies them from the inside out with `Block.prefixQuote` /
  `Li.itemDoc`), by induction on `w` over C06's `quote_commutes` / `item_commutes_gen_parse`
  (`MdIt/Lemmas/C11Nested.lean`: `parseBlocks_nested`), then through the core chain (`afterBlocks_wrapTree`)
  and the renderer (`render_wrapNode`, `blocky_wrapEvents`).

  PROPERTY theorems (any `DocCfg` that satisfies the top-level hypotheses for the payload and C06's chain
  condition for the wrappers used — `ChainFor` —, `depthCost w < max_nesting` with cost 1 per quote and 2
  per list, the wrapped source below 2 GiB):
    `doc_fence_verbatim_nested_sp`, `doc_fence_verbatim_nested`        the tree, exactly (kinds, payload, ranges,
                                                                    attributes): wrappers around ONE `CodeFence`
    `doc_fence_render_nested_sp`, `doc_fence_render_nested`            `render` / `xrender`, exactly
    `doc_indented_verbatim_nested_sp`, `doc_indented_verbatim_nested`  … around ONE `CodeBlock`
    `doc_indented_render_nested_sp`, `doc_indented_render_nested`      `render` / `xrender`, exactly
  Restrictions beyond the top-level theorems, each with a witness in section 7:
    * the payload is TAB-FREE (C06's hypothesis: a tab's width depends on the column the prefix moves it
      to); payload tabs are covered at top level only;
    * indented code in a bullet item: the marker line must not be a thematic break (`HrFree`;
      `-     ---` is `<hr>`), needed only if the `hr` rule stands in front of the list rule (it does in the
      stock chain); no such condition for fences (a fence line holds a backtick or tilde);
    * `depthCost w < max_nesting`.
  Code SPANS (section 8): the block half — `doc_para_blocks_nested`: a one-line paragraph inside `w` keeps its
  inline text (the placeholder `InlineRoot` holds the same `c`, table moved by the prefixes); the inline half and
  the document theorems (`doc_span_verbatim_nested`, `doc_span_render_nested`) are in `MdIt/Props/C11Span.lean`.
-/
import MdIt.Lemmas.C11Nested
import MdIt.Lemmas.C11NestedPara
set_option linter.unusedSimpArgs false
set_option linter.unusedVariables false

namespace MdIt.C11N
open MdIt.Block MdIt.Block.Li MdIt.Pipeline
open MdIt.Lines (NoTerm lead)
open MdIt.Render (Event piece piecesFrom flatten solAfter attrsStr escapeHtml)
open MdIt.NodeRender (aSourcepos tPre tCode tBlockquote tUl tOl tLi olAttrs)

/-! ## 1. the core chain behind the block pass, on the wrapper tree -/

/-- the wrapper's nodes in the document tree, all with attributes `a` -/
def Wrapper.dnode (x : Wrapper) (a : List (List Char × List Char)) (r : Nat × Nat) (child : Node) : Node :=
  if x.isQuote then ⟨.blk x.kind, some r, a, [child]⟩
  else ⟨.blk x.kind, some r, a, [⟨.blk .listItem, some r, a, [child]⟩]⟩

/-- the document tree of the wrapped document (below the root): `wrapTree` with the attributes
    `att range` on every node -/
def wrapNode (att : Nat × Nat → List (List Char × List Char)) (k : Block.Kind) (s0 E : Nat) :
    List Wrapper → Nat → Node
  | [], off => ⟨.blk k, some (off + s0, E), att (off + s0, E), []⟩
  | x :: ws, off => x.dnode (att (off, E)) (off, E) (wrapNode att k s0 E ws (off + x.width))

theorem wrapTree_kind (k : Block.Kind) (s0 E : Nat) (ws : List Wrapper) (off : Nat) :
    (wrapTree k s0 E ws off).kind = k ∨ ∃ x : Wrapper, (wrapTree k s0 E ws off).kind = x.kind := by
  cases ws with
  | nil => exact .inl rfl
  | cons x ws =>
    right
    refine ⟨x, ?_⟩
    simp only [wrapTree, Wrapper.node]
    split <;> rfl

theorem wrapTree_not_inlineRoot (k : Block.Kind) (hk : ∀ c m, k ≠ .inlineRoot c m) (s0 E : Nat) (ws : List Wrapper)
    (off : Nat) : ∀ c m, (wrapTree k s0 E ws off).kind ≠ .inlineRoot c m := by
  intro c m
  rcases wrapTree_kind k s0 E ws off with h | ⟨x, h⟩
  · rw [h]; exact hk c m
  · rw [h]; cases x <;> simp [Wrapper.kind]

theorem spliceList_single (icfg : Inline.Cfg) (c : BNode) (c' : Node) (hc : ∀ a b, c.kind ≠ .inlineRoot a b)
    (h : spliceNode icfg c = .ok c') : spliceList icfg [c] = .ok [c'] := by
  rw [spliceList]
  split
  · rename_i a b hk
    exact absurd hk (hc a b)
  · simp [h, spliceList]

theorem splice_wrapTree (icfg : Inline.Cfg) (k : Block.Kind) (hk : ∀ c m, k ≠ .inlineRoot c m) (s0 E : Nat) :
    ∀ (ws : List Wrapper) (off : Nat),
      spliceNode icfg (wrapTree k s0 E ws off) = .ok (wrapNode (fun _ => []) k s0 E ws off)
  | [], off => by simp [wrapTree, wrapNode, spliceNode, spliceList]
  | x :: ws, off => by
    have ih := splice_wrapTree icfg k hk s0 E ws (off + x.width)
    have hkind := wrapTree_not_inlineRoot k hk s0 E ws (off + x.width)
    have h1 := spliceList_single icfg _ _ hkind ih
    simp only [wrapTree, Wrapper.node, wrapNode, Wrapper.dnode]
    split
    · rw [spliceNode, h1]
    · have h2 : spliceNode icfg ⟨.listItem, some (off, E), [wrapTree k s0 E ws (off + x.width)]⟩ =
          .ok ⟨.blk .listItem, some (off, E), [], [wrapNode (fun _ => []) k s0 E ws (off + x.width)]⟩ := by
        rw [spliceNode, h1]
      rw [spliceNode, spliceList_single icfg _ _ (by intro a b h; cases h) h2]

theorem wrapNode_kind (att : Nat × Nat → List (List Char × List Char)) (k : Block.Kind) (s0 E : Nat)
    (ws : List Wrapper) (off : Nat) : ∃ bk, (wrapNode att k s0 E ws off).kind = .blk bk := by
  cases ws with
  | nil => exact ⟨k, rfl⟩
  | cons x ws =>
    refine ⟨x.kind, ?_⟩
    simp only [wrapNode, Wrapper.dnode]
    split <;> rfl

theorem joinNode_single (kd : Pipeline.Kind) (r : Option (Nat × Nat)) (a : List (List Char × List Char)) (c : Node)
    (hc : joinNode c = c) (hck : ∃ bk, c.kind = .blk bk) : joinNode ⟨kd, r, a, [c]⟩ = ⟨kd, r, a, [c]⟩ := by
  obtain ⟨bk, hbk⟩ := hck
  rw [joinNode_eq]
  simp [fragmentsJoin, pass1, mergeAll, mergeLoop, markerToText, keep, Node.isText, joinList_eq_map, hc, hbk]

theorem join_wrapNode (att : Nat × Nat → List (List Char × List Char)) (k : Block.Kind) (s0 E : Nat) :
    ∀ (ws : List Wrapper) (off : Nat), joinNode (wrapNode att k s0 E ws off) = wrapNode att k s0 E ws off
  | [], off => by
    rw [joinNode_eq]
    simp [wrapNode, fragmentsJoin, pass1, mergeAll, joinList_eq_map]
  | x :: ws, off => by
    have ih := join_wrapNode att k s0 E ws (off + x.width)
    have hk := wrapNode_kind att k s0 E ws (off + x.width)
    simp only [wrapNode, Wrapper.dnode]
    split
    · exact joinNode_single _ _ _ _ ih hk
    · exact joinNode_single _ _ _ _ (joinNode_single _ _ _ _ ih hk) ⟨_, rfl⟩

/-- the attributes `SyntaxPosRule` leaves (as `Pipeline.spAttrs` with the plugin on) -/
def spOn (src : List Char) (r : Nat × Nat) : List (List Char × List Char) :=
  [(aSourcepos, sourceposValue (SourceMap.specRange src r))]

theorem sourcepos_wrapNode (src : List Char) (k : Block.Kind) (s0 E : Nat) :
    ∀ (ws : List Wrapper) (off : Nat),
      sourceposNode src (SourceMap.mkMarks src) (wrapNode (fun _ => []) k s0 E ws off) =
        .ok (wrapNode (spOn src) k s0 E ws off)
  | [], off => by simp [wrapNode, sourceposNode, sourceposList, sourceposAttrs_eq, spOn]
  | x :: ws, off => by
    have ih := sourcepos_wrapNode src k s0 E ws (off + x.width)
    simp only [wrapNode, Wrapper.dnode]
    split <;> simp [sourceposNode, sourceposList, sourceposAttrs_eq, spOn, ih]

theorem spAttrs_off {cfg : DocCfg} (h : cfg.sourcepos = false) (src : List Char) : spAttrs cfg src = fun _ => [] := by
  funext r; simp [spAttrs, h]

theorem spAttrs_on {cfg : DocCfg} (h : cfg.sourcepos = true) (src : List Char) : spAttrs cfg src = spOn src := by
  funext r; simp [spAttrs, h, spOn]

/-- the core chain behind the block pass on `Root[wrapTree]` -/
theorem afterBlocks_wrapTree (cfg : DocCfg) (src : List Char) (k : Block.Kind) (hk : ∀ c m, k ≠ .inlineRoot c m)
    (s0 E : Nat) (w : List Wrapper) (rg : Nat × Nat) (refs : Refs.RefMap) :
    afterBlocks cfg src ⟨.root, some rg, [wrapTree k s0 E w 0]⟩ refs =
      .ok ⟨.blk .root, some rg, spAttrs cfg src rg, [wrapNode (spAttrs cfg src) k s0 E w 0]⟩ := by
  have h1 := spliceList_single (cfg.inlineCfg refs) _ _ (wrapTree_not_inlineRoot k hk s0 E w 0)
    (splice_wrapTree (cfg.inlineCfg refs) k hk s0 E w 0)
  have hj := joinNode_single (.blk .root) (some rg) [] _ (join_wrapNode (fun _ => []) k s0 E w 0)
    (wrapNode_kind _ k s0 E w 0)
  unfold afterBlocks
  rw [spliceNode, h1]
  simp only [hj, ite_self]
  cases hsp : cfg.sourcepos with
  | false => simp [spAttrs_off hsp, spAttrs, hsp]
  | true =>
    rw [spAttrs_on hsp]
    simp [sourceposNode, sourceposList, sourceposAttrs_eq, sourcepos_wrapNode, spOn]


/-! ## 2. the renderer on the wrapper tree -/

/-- the trait calls of the wrapper's nodes around the calls `inner` of the child -/
def Wrapper.events (x : Wrapper) (a : List (List Char × List Char)) (inner : List Event) : List Event :=
  match x with
  | .quote => [.cr, .open tBlockquote a, .cr] ++ inner ++ [.cr, .close tBlockquote, .cr]
  | .bullet _ => [.cr, .open tUl a, .cr] ++ ([.open tLi a] ++ inner ++ [.close tLi, .cr]) ++ [.cr, .close tUl, .cr]
  | .ordered ds _ =>
    [.cr, .open tOl (olAttrs a (ordValue ds)), .cr] ++ ([.open tLi a] ++ inner ++ [.close tLi, .cr]) ++
      [.cr, .close tOl, .cr]

def wrapEvents (att : Nat × Nat → List (List Char × List Char)) (E : Nat) (leaf : Nat → List Event) :
    List Wrapper → Nat → List Event
  | [], off => leaf off
  | x :: ws, off => x.events (att (off, E)) (wrapEvents att E leaf ws (off + x.width))

theorem render_wrapNode (lookup : List Char → Option (List Char)) (lp : List Char)
    (att : Nat × Nat → List (List Char × List Char)) (k : Block.Kind) (s0 E : Nat) (leaf : Nat → List Event)
    (hleaf : ∀ off, NodeRender.render lookup (toRender lp ⟨.blk k, some (off + s0, E), att (off + s0, E), []⟩) =
      .ok (leaf off)) :
    ∀ (ws : List Wrapper) (off : Nat),
      NodeRender.render lookup (toRender lp (wrapNode att k s0 E ws off)) = .ok (wrapEvents att E leaf ws off)
  | [], off => hleaf off
  | x :: ws, off => by
    have ih := render_wrapNode lookup lp att k s0 E leaf hleaf ws (off + x.width)
    cases x <;>
      simp [wrapNode, Wrapper.dnode, Wrapper.isQuote, Wrapper.kind, toRender, toRenderList, Kind.toRender,
        NodeRender.render, NodeRender.renderList, NodeRender.wrap, ih, wrapEvents, Wrapper.events]

theorem renderEvents_root (cfg : DocCfg) (rg : Option (Nat × Nat)) (a0 : List (List Char × List Char)) (c : Node)
    (evs : List Event) (h : NodeRender.render cfg.entity (toRender cfg.langPrefix c) = .ok evs) :
    renderEvents cfg ⟨.blk .root, rg, a0, [c]⟩ = .ok evs := by
  simp [renderEvents, toRender, toRenderList, Kind.toRender, NodeRender.render, NodeRender.renderList, h]

/-! ### the serializer on these calls -/

/-- what the serializer appends for `evs` when the buffer summary is `sol` -/
def out (x sol : Bool) (evs : List Event) : List Char := flatten (piecesFrom x sol evs)

theorem out_nil (x sol : Bool) : out x sol [] = [] := rfl

theorem out_cons (x sol : Bool) (e : Event) (r : List Event) :
    out x sol (e :: r) = piece x sol e ++ out x (solAfter sol (piece x sol e)) r := rfl

theorem out_append (x sol : Bool) (a b : List Event) :
    out x sol (a ++ b) = out x sol a ++ out x (solAfter sol (out x sol a)) b := by
  simp only [out, Render.piecesFrom_append, Render.flatten_append]

theorem solAfter_snoc (s : Bool) (p : List Char) (c : Char) : solAfter s (p ++ [c]) = decide (c = '\n') := by
  simp [solAfter]

theorem solAfter_nil (s : Bool) : solAfter s [] = s := rfl

/-- a block of calls: whatever the buffer, it starts on a fresh line (`cr` first), appends `H`, and `H`
    ends with a line feed -/
structure Blocky (x : Bool) (evs : List Event) (H : List Char) : Prop where
  last : H.getLast? = some '\n'
  out : ∀ sol, out x sol evs = (if sol then [] else ['\n']) ++ H

theorem solAfter_of_last {s : Bool} {H : List Char} (h : H.getLast? = some '\n') : solAfter s H = true := by
  simp [solAfter, h]

theorem last_append {p q : List Char} {c : Char} (h : q.getLast? = some c) : (p ++ q).getLast? = some c := by
  simp [List.getLast?_append, h]

theorem sol_open (x s s' : Bool) (t : List Char) (a : List (List Char × List Char)) :
    solAfter s (piece x s' (.open t a)) = false := by
  simp only [piece]
  rw [show '<' :: (t ++ (attrsStr a ++ ['>'])) = ('<' :: (t ++ attrsStr a)) ++ ['>'] by simp, solAfter_snoc]
  decide

theorem sol_close (x s s' : Bool) (t : List Char) : solAfter s (piece x s' (.close t)) = false := by
  simp only [piece]
  rw [show '<' :: '/' :: (t ++ ['>']) = ('<' :: '/' :: t) ++ ['>'] by simp, solAfter_snoc]
  decide

theorem piece_cr (x sol : Bool) : piece x sol .cr = if sol then [] else ['\n'] := rfl

/-- `<pre><code ATTRS>`, the escaped content, `</code></pre>`, LF -/
def preCode (a : List (List Char × List Char)) (c : List Char) : List Char :=
  "<pre><code".toList ++ attrsStr a ++ ['>'] ++ escapeHtml c ++ "</code></pre>\n".toList

theorem blocky_leaf (x : Bool) (a : List (List Char × List Char)) (c : List Char) :
    Blocky x [.cr, .open tPre [], .open tCode a, .text c, .close tCode, .close tPre, .cr] (preCode a c) := by
  refine ⟨last_append (by simp), ?_⟩
  intro sol
  simp only [out_cons, out_nil, sol_open, sol_close]
  have e1 : ∀ s, piece x s (Event.open tPre []) = "<pre>".toList := by intro s; simp [piece, tPre, attrsStr]
  have e2 : ∀ s, piece x s (Event.open tCode a) = "<code".toList ++ attrsStr a ++ ['>'] := by intro s; simp [piece, tCode]
  have e3 : ∀ s, piece x s (Event.close tCode) = "</code>".toList := by intro s; simp [piece, tCode]
  have e4 : ∀ s, piece x s (Event.close tPre) = "</pre>".toList := by intro s; simp [piece, tPre]
  have e5 : ∀ s, piece x s (Event.text c) = escapeHtml c := fun _ => rfl
  rw [e1, e2, e3, e4, e5]
  unfold preCode
  cases sol
  · simp [piece]
  · simp [piece]

/-- the opening tag with its attributes -/
def openTag (t : List Char) (a : List (List Char × List Char)) : List Char := '<' :: (t ++ (attrsStr a ++ ['>']))
/-- the closing tag -/
def closeTag (t : List Char) : List Char := '<' :: '/' :: (t ++ ['>'])

/-- `cr; open t a; cr; evs; cr; close t; cr` around calls that, at the start of a line, append `H` (ending
    with a line feed) -/
theorem blocky_frame (x : Bool) (t : List Char) (a : List (List Char × List Char)) (evs : List Event) (H : List Char)
    (hl : H.getLast? = some '\n') (ho : out x true evs = H) :
    Blocky x ([.cr, .open t a, .cr] ++ evs ++ [.cr, .close t, .cr])
      (openTag t a ++ ['\n'] ++ H ++ closeTag t ++ ['\n']) := by
  refine ⟨Block.getLast?_snoc _ _, ?_⟩
  intro sol
  have hpre : out x sol [.cr, .open t a, .cr] = ((if sol then [] else ['\n']) ++ openTag t a) ++ ['\n'] := by
    simp only [out_cons, out_nil, sol_open, piece_cr, List.append_nil]
    simp [piece, openTag]
  have hpost : out x true [.cr, .close t, .cr] = closeTag t ++ ['\n'] := by
    simp only [out_cons, out_nil, sol_close, piece_cr, List.append_nil]
    simp [piece, closeTag, solAfter]
  rw [out_append, out_append, hpre, solAfter_snoc, show decide ('\n' = '\n') = true from rfl, ho,
    Render.solAfter_append, solAfter_of_last hl, hpost]
  simp [List.append_assoc]

/-- `open li a; evs; close li; cr` around a block of calls: at the start of a line it appends `<li a>`, a
    line feed (the child's `cr`), the child's output, `</li>`, a line feed -/
theorem out_item (x : Bool) (a : List (List Char × List Char)) (evs : List Event) (H : List Char)
    (hb : Blocky x evs H) :
    out x true ([.open tLi a] ++ evs ++ [.close tLi, .cr]) =
      openTag tLi a ++ ['\n'] ++ H ++ closeTag tLi ++ ['\n'] := by
  have e1 : out x true [.open tLi a] = openTag tLi a := by simp [out_cons, out_nil, piece, openTag]
  have h1 : solAfter true (openTag tLi a) = false := sol_open x true true tLi a
  have hpost : ∀ s, out x s [.close tLi, .cr] = closeTag tLi ++ ['\n'] := by
    intro s
    simp only [out_cons, out_nil, sol_close, piece_cr, List.append_nil]
    simp [piece, closeTag]
  rw [out_append, out_append, e1, h1, hb.out false, hpost]
  simp [List.append_assoc]

/-- the HTML of one wrapper (attributes `a` on its nodes) around `inner` -/
def Wrapper.html (x : Wrapper) (a : List (List Char × List Char)) (inner : List Char) : List Char :=
  match x with
  | .quote => openTag tBlockquote a ++ ['\n'] ++ inner ++ closeTag tBlockquote ++ ['\n']
  | .bullet _ =>
    openTag tUl a ++ ['\n'] ++ (openTag tLi a ++ ['\n'] ++ inner ++ closeTag tLi ++ ['\n']) ++ closeTag tUl ++ ['\n']
  | .ordered ds _ =>
    openTag tOl (olAttrs a (ordValue ds)) ++ ['\n'] ++ (openTag tLi a ++ ['\n'] ++ inner ++ closeTag tLi ++ ['\n']) ++
      closeTag tOl ++ ['\n']

theorem blocky_wrapper (xh : Bool) (x : Wrapper) (a : List (List Char × List Char)) (evs : List Event) (H : List Char)
    (hb : Blocky xh evs H) : Blocky xh (x.events a evs) (x.html a H) := by
  cases x with
  | quote => exact blocky_frame xh tBlockquote a evs H hb.last (by rw [hb.out true]; rfl)
  | bullet c => exact blocky_frame xh tUl a _ _ (Block.getLast?_snoc _ _) (out_item xh a evs H hb)
  | ordered ds dl =>
    exact blocky_frame xh tOl (olAttrs a (ordValue ds)) _ _ (Block.getLast?_snoc _ _) (out_item xh a evs H hb)

/-- the HTML of the wrapped document: the wrappers' tags (attributes `att range`) around the leaf's -/
def wrapHtmlA (att : Nat × Nat → List (List Char × List Char)) (E : Nat) (leaf : Nat → List Char) :
    List Wrapper → Nat → List Char
  | [], off => leaf off
  | x :: ws, off => x.html (att (off, E)) (wrapHtmlA att E leaf ws (off + x.width))

theorem blocky_wrapEvents (xh : Bool) (att : Nat × Nat → List (List Char × List Char)) (E : Nat)
    (leafE : Nat → List Event) (leafH : Nat → List Char) (hleaf : ∀ off, Blocky xh (leafE off) (leafH off)) :
    ∀ (ws : List Wrapper) (off : Nat), Blocky xh (wrapEvents att E leafE ws off) (wrapHtmlA att E leafH ws off)
  | [], off => hleaf off
  | x :: ws, off => blocky_wrapper xh x _ _ _ (blocky_wrapEvents xh att E leafE leafH hleaf ws (off + x.width))

theorem serialize_blocky {x : Bool} {evs : List Event} {H : List Char} (h : Blocky x evs H) :
    Render.serialize x evs = Render.replaceNul H := by
  rw [Render.serialize_events]
  have := h.out true
  simp only [out, if_true, List.nil_append] at this
  rw [Render.pieces, this]


/-! ### the plain HTML (no `sourcepos` plugin) -/

/-- the wrappers' HTML around `inner`, outermost first, no node attributes: `x.html []` is
    `<blockquote>` LF `inner` `</blockquote>` LF for a quote, `<ul>` LF `<li>` LF `inner` `</li>` LF `</ul>` LF for
    a bullet item, the same with `<ol>` — `<ol start="N">` when the number is not 1 — for an ordered one
    (examples below) -/
def wrapHtml : List Wrapper → List Char → List Char
  | [], inner => inner
  | x :: ws, inner => x.html [] (wrapHtml ws inner)

theorem wrapHtmlA_nil (E : Nat) (leaf : List Char) : ∀ (ws : List Wrapper) (off : Nat),
    wrapHtmlA (fun _ => []) E (fun _ => leaf) ws off = wrapHtml ws leaf
  | [], _ => rfl
  | x :: ws, off => by simp only [wrapHtmlA, wrapHtml, wrapHtmlA_nil E leaf ws]

def NoNul (s : List Char) : Prop := ∀ c ∈ s, c ≠ '\x00'

theorem NoNul.append {a b : List Char} (ha : NoNul a) (hb : NoNul b) : NoNul (a ++ b) := by
  intro c hc
  rcases List.mem_append.mp hc with h | h
  · exact ha c h
  · exact hb c h

theorem NoNul.cons {c : Char} {s : List Char} (hc : c ≠ '\x00') (hs : NoNul s) : NoNul (c :: s) := by
  intro d hd
  rcases List.mem_cons.mp hd with h | h
  · rw [h]; exact hc
  · exact hs d h

theorem noNul_nil : NoNul [] := fun _ h => by simp at h

theorem nulStr_noNul {s : List Char} (h : NoNul s) : Render.nulStr s = s := by
  unfold Render.nulStr
  conv => rhs; rw [← List.map_id s]
  exact List.map_congr_left (fun c hc => by simp [Render.nulChar, h c hc])

theorem nulStr_append (a b : List Char) : Render.nulStr (a ++ b) = Render.nulStr a ++ Render.nulStr b := by
  simp [Render.nulStr]

theorem digit_facts {c : Char} (h : c.isDigit = true) : Render.escapeChar c = [c] ∧ c ≠ '\x00' := by
  have h1 : c ≠ '&' := by rintro rfl; revert h; decide
  have h2 : c ≠ '<' := by rintro rfl; revert h; decide
  have h3 : c ≠ '>' := by rintro rfl; revert h; decide
  have h4 : c ≠ '"' := by rintro rfl; revert h; decide
  have h5 : c ≠ '\x00' := by rintro rfl; revert h; decide
  exact ⟨by simp [Render.escapeChar, h1, h2, h3, h4], h5⟩

theorem escapeHtml_digits : ∀ (s : List Char), (∀ c ∈ s, c.isDigit = true) → escapeHtml s = s
  | [], _ => rfl
  | c :: r, h => by
    rw [Render.escapeHtml, (digit_facts (h c (by simp))).1, escapeHtml_digits r (fun x hx => h x (List.mem_cons_of_mem _ hx))]
    rfl

theorem toDigits_isDigit (v : Nat) : ∀ c ∈ Nat.toDigits 10 v, c.isDigit = true :=
  fun c hc => Nat.isDigit_of_mem_toDigits (by decide) (by decide) hc

/-- the attribute string of `<ol>`: nothing for a list that starts at 1, else ` start="N"` -/
theorem attrsStr_olAttrs (v : Nat) :
    attrsStr (olAttrs [] v) = if v = 1 then [] else ' ' :: (NodeRender.aStart ++ ('=' :: '"' :: (Nat.toDigits 10 v ++ ['"']))) := by
  by_cases h : v = 1
  · simp [olAttrs, h, attrsStr]
  · have e : escapeHtml NodeRender.aStart = NodeRender.aStart := by
      simp [NodeRender.aStart, Render.escapeHtml, Render.escapeChar]
    simp [olAttrs, h, attrsStr, Render.attrStr, NodeRender.natToString, escapeHtml_digits _ (toDigits_isDigit _), e]

theorem noNul_olAttrs (v : Nat) : NoNul (attrsStr (olAttrs [] v)) := by
  rw [attrsStr_olAttrs]
  split
  · exact noNul_nil
  · refine NoNul.cons (by decide) (NoNul.append (by unfold NodeRender.aStart NoNul; decide) (NoNul.cons (by decide)
      (NoNul.cons (by decide) (NoNul.append (fun c hc => (digit_facts (toDigits_isDigit v c hc)).2)
        (NoNul.cons (by decide) noNul_nil)))))

theorem noNul_openTag {t : List Char} {a : List (List Char × List Char)} (ht : NoNul t) (ha : NoNul (attrsStr a)) :
    NoNul (openTag t a) :=
  NoNul.cons (by decide) (ht.append (ha.append (NoNul.cons (by decide) noNul_nil)))

theorem noNul_closeTag {t : List Char} (ht : NoNul t) : NoNul (closeTag t) :=
  NoNul.cons (by decide) (NoNul.cons (by decide) (ht.append (NoNul.cons (by decide) noNul_nil)))

theorem noNul_tags : NoNul tBlockquote ∧ NoNul tUl ∧ NoNul tOl ∧ NoNul tLi := by
  unfold NoNul tBlockquote tUl tOl tLi
  decide

theorem nulStr_html (x : Wrapper) (inner : List Char) :
    Render.nulStr (x.html [] inner) = x.html [] (Render.nulStr inner) := by
  obtain ⟨hq, hu, ho, hl⟩ := noNul_tags
  have hn : NoNul (attrsStr []) := noNul_nil
  have hnl : Render.nulStr ['\n'] = ['\n'] := nulStr_noNul (NoNul.cons (by decide) noNul_nil)
  cases x with
  | quote =>
    simp only [Wrapper.html, nulStr_append, nulStr_noNul (noNul_openTag hq hn), nulStr_noNul (noNul_closeTag hq), hnl]
  | bullet c =>
    simp only [Wrapper.html, nulStr_append, nulStr_noNul (noNul_openTag hu hn), nulStr_noNul (noNul_closeTag hu),
      nulStr_noNul (noNul_openTag hl hn), nulStr_noNul (noNul_closeTag hl), hnl]
  | ordered ds dl =>
    simp only [Wrapper.html, nulStr_append, nulStr_noNul (noNul_openTag ho (noNul_olAttrs _)),
      nulStr_noNul (noNul_closeTag ho), nulStr_noNul (noNul_openTag hl hn), nulStr_noNul (noNul_closeTag hl), hnl]

theorem nulStr_wrapHtml : ∀ (ws : List Wrapper) (inner : List Char),
    Render.nulStr (wrapHtml ws inner) = wrapHtml ws (Render.nulStr inner)
  | [], _ => rfl
  | x :: ws, inner => by simp only [wrapHtml, nulStr_html, nulStr_wrapHtml ws]

theorem nulStr_preCode_nil (c : List Char) :
    Render.nulStr (preCode [] c) = "<pre><code>".toList ++ escapeHtml (Render.nulStr c) ++ "</code></pre>\n".toList := by
  rw [← Render.replaceNul_eq_nulStr, ← serialize_blocky (blocky_leaf false [] c), serialize_pre_code_nil]

/-! ## 3. a document `Root[wrapTree]`, rendered -/

/-- the rendering of a document whose tree is the root over `wrapNode` around a code leaf -/
theorem render_of_tree (x : Bool) (cfg : DocCfg) (src : List Char) (rg : Option (Nat × Nat))
    (a0 : List (List Char × List Char)) (att : Nat × Nat → List (List Char × List Char)) (k : Block.Kind)
    (s0 E : Nat) (w : List Wrapper) (content : List Char)
    (hleaf : ∀ r a, NodeRender.render cfg.entity (toRender cfg.langPrefix ⟨.blk k, r, a, []⟩) =
      .ok [.cr, .open tPre [], .open tCode a, .text content, .close tCode, .close tPre, .cr])
    (hp : parseDoc cfg src = .ok ⟨.blk .root, rg, a0, [wrapNode att k s0 E w 0]⟩) :
    renderDoc x cfg src =
      .ok (Render.replaceNul (wrapHtmlA att E (fun off => preCode (att (off + s0, E)) content) w 0)) := by
  have hev := render_wrapNode cfg.entity cfg.langPrefix att k s0 E
    (fun off => [.cr, .open tPre [], .open tCode (att (off + s0, E)), .text content, .close tCode, .close tPre, .cr])
    (fun off => hleaf _ _) w 0
  have hb := blocky_wrapEvents x att E _ _ (fun off => blocky_leaf x (att (off + s0, E)) content) w 0
  unfold renderDoc
  rw [hp]
  simp only [renderEvents_root cfg rg a0 _ _ hev, serialize_blocky hb]

theorem leaf_fence (cfg : DocCfg) (m : Char) (n : Nat) (content : List Char) (r : Option (Nat × Nat))
    (a : List (List Char × List Char)) :
    NodeRender.render cfg.entity (toRender cfg.langPrefix ⟨.blk (.codeFence [] m n content), r, a, []⟩) =
      .ok [.cr, .open tPre [], .open tCode a, .text content, .close tCode, .close tPre, .cr] := by
  simp [toRender, toRenderList, Kind.toRender, NodeRender.render, NodeRender.fenceAttrs, Entity.unescapeAllE,
    NodeRender.firstWord]

theorem leaf_code (cfg : DocCfg) (content : List Char) (r : Option (Nat × Nat)) (a : List (List Char × List Char)) :
    NodeRender.render cfg.entity (toRender cfg.langPrefix ⟨.blk (.codeBlock content), r, a, []⟩) =
      .ok [.cr, .open tPre [], .open tCode a, .text content, .close tCode, .close tPre, .cr] := by
  simp [toRender, toRenderList, Kind.toRender, NodeRender.render]

/-- the block configuration with `depthCost w` levels fewer -/
theorem blockCfg_nest (cfg : DocCfg) (c : Nat) (h : c < cfg.maxNesting) :
    ({ ({ cfg.blockCfg with maxNesting := cfg.maxNesting - c } : Block.Cfg) with
        maxNesting := ({ cfg.blockCfg with maxNesting := cfg.maxNesting - c } : Block.Cfg).maxNesting + c } : Block.Cfg)
      = cfg.blockCfg := by
  simp only [DocCfg.blockCfg]
  congr 1
  omega


/-! ## 4. fenced code inside containers -/

theorem good_fence {m : Char} (hm : m = '`' ∨ m = '~') {n : Nat} (hn : 3 ≤ n) {T : List (List Char)}
    (hT : ∀ l ∈ T, NoTerm l) (htab : ∀ l ∈ T, '\t' ∉ l) : Good (fenceLine m n :: T ++ [fenceLine m n]) := by
  have hon := onDoc_fence hm hn hT .root []
  refine ⟨hon.ne, hon.noTerm, hon.last, ?_⟩
  have hf : '\t' ∉ fenceLine m n := by
    intro hc
    have := (List.mem_replicate.mp hc).2
    rcases hm with rfl | rfl <;> cases this
  intro l hl
  simp only [List.cons_append, List.mem_cons, List.mem_append, List.mem_nil_iff, or_false] at hl
  rcases hl with rfl | hl | rfl
  · exact hf
  · exact htab l hl
  · exact hf

theorem firstLineOk_fence {m : Char} (hm : m = '`' ∨ m = '~') {n : Nat} (hn : 3 ≤ n) : FirstLineOk (fenceLine m n) := by
  have hmb : Lines.isBlank m = false := by rcases hm with rfl | rfl <;> decide
  obtain ⟨j, rfl⟩ : ∃ j, n = j + 1 := ⟨n - 1, by omega⟩
  simp only [fenceLine, List.replicate_succ, FirstLineOk]
  have := lead_nonblank_cons (List.replicate j m) hmb
  exact ⟨by rw [this.2]; simp, .inl (by rw [this.1]; rfl)⟩

theorem hrFree_fence {m : Char} (hm : m = '`' ∨ m = '~') {n : Nat} (hn : 3 ≤ n) (w : List Wrapper) :
    HrFree w (fenceLine m n) :=
  hrFree_of_mem (x := m) (List.mem_replicate.mpr ⟨by omega, rfl⟩) (by rcases hm with rfl | rfl <;> decide) w

section fence
variable (m : Char) (hm : m = '`' ∨ m = '~') (n : Nat) (hn : 3 ≤ n) (T : List (List Char))
  (hT : ∀ l ∈ T, NoTerm l) (htab : ∀ l ∈ T, '\t' ∉ l) (hclose : ∀ l ∈ T, closes m n l = false)
  (cfg : DocCfg) (hmem : .fence ∈ cfg.blockChain)
  (hpre : ∀ r ∈ cfg.blockChain.takeWhile (· ≠ .fence), QuietOnFence r)
  (w : List Wrapper) (hw : ∀ x ∈ w, x.Ok) (hch : ChainFor cfg.blockChain w)
  (hmn : depthCost w < cfg.maxNesting)
  (hsize : Lines.byteLen (wrapAll w (fenceDoc m n T)) + 20 < 2147483648)
include hm hn hT htab hclose hmem hpre hw hch hmn hsize

/-- the block pass on a fenced document inside the wrappers `w` -/
theorem parseBlocks_fence_nested :
    parseBlocks cfg.blockCfg (wrapAll w (fenceDoc m n T)) =
      .ok (⟨.root, some (0, Lines.byteLen (wrapAll w (fenceDoc m n T))),
            [wrapTree (.codeFence [] m n (T.flatMap (· ++ ['\n']))) 0 (Lines.byteLen (wrapAll w (fenceDoc m n T))) w 0]⟩,
           []) := by
  have g := good_fence hm hn hT htab
  have hdoc : wrapAll w (fenceDoc m n T) = docOf (wrapAllLines w (fenceLine m n :: T ++ [fenceLine m n])) :=
    wrapAll_docOf hw g
  rw [hdoc] at hsize ⊢
  have hbase := Block.parseBlocks_fence m hm n hn T hT hclose
    (cfg := { cfg.blockCfg with maxNesting := cfg.maxNesting - depthCost w })
    (MdIt.Pipeline.split_at_first .fence _ hmem) hpre (by show 0 < cfg.maxNesting - depthCost w; omega)
  have := parseBlocks_nested { cfg.blockCfg with maxNesting := cfg.maxNesting - depthCost w }
    (by show 0 < cfg.maxNesting - depthCost w; omega) (.codeFence [] m n (T.flatMap (· ++ ['\n'])))
    (by intro h; cases h) (fun _ => rfl) 0 (fenceLine m n) (T ++ [fenceLine m n]) g (firstLineOk_fence hm hn)
    (Nat.zero_le _) hbase w hw hch (fun _ => hrFree_fence hm hn w) hsize
  rw [blockCfg_nest cfg _ hmn] at this
  exact this

/-- **`doc_fence_verbatim_nested`, any `sourcepos`.**  `T` as in `doc_fence_verbatim` and TAB-FREE, `w` any
    list of wrappers (block quotes, bullet items `-` `*` `+`, ordered items of 1–9 digits with `.` / `)`),
    the chain conditions of C06 for the wrappers used (`ChainFor`), `depthCost w < max_nesting` (1 per
    quote, 2 per list), below 2 GiB: the fenced document wrapped in `w` (`wrapAll`: `"> "` in front of every
    line per quote; marker + space in front of the first line and as many spaces in front of the others per
    item) parses to the root over the chain of wrapper nodes (`wrapNode`: one `Blockquote` per quote, a list
    with ONE `ListItem` per list wrapper, every node with exactly one child and spanning from its marker's
    column on line 0 to the end of the source) around exactly ONE `CodeFence`: empty info string, the
    content is `T` — every line whole, each followed by one LF —, no children, from behind the prefixes of
    line 0 to the end of the source.  Attributes: those of `SyntaxPosRule` (`spAttrs`). -/
theorem doc_fence_verbatim_nested_sp :
    parseDoc cfg (wrapAll w (fenceDoc m n T)) =
      .ok ⟨.blk .root, some (0, Lines.byteLen (wrapAll w (fenceDoc m n T))),
           spAttrs cfg (wrapAll w (fenceDoc m n T)) (0, Lines.byteLen (wrapAll w (fenceDoc m n T))),
           [wrapNode (spAttrs cfg (wrapAll w (fenceDoc m n T))) (.codeFence [] m n (T.flatMap (· ++ ['\n']))) 0
              (Lines.byteLen (wrapAll w (fenceDoc m n T))) w 0]⟩ := by
  have hb := parseBlocks_fence_nested m hm n hn T hT htab hclose cfg hmem hpre w hw hch hmn hsize
  unfold parseDoc
  rw [hb]
  exact afterBlocks_wrapTree cfg _ _ (by intro c mp h; cases h) _ _ _ _ _

/-- **`doc_fence_verbatim_nested`** (no `sourcepos` plugin): the tree, exactly, no attributes anywhere -/
theorem doc_fence_verbatim_nested (hsp : cfg.sourcepos = false) :
    parseDoc cfg (wrapAll w (fenceDoc m n T)) =
      .ok ⟨.blk .root, some (0, Lines.byteLen (wrapAll w (fenceDoc m n T))), [],
           [wrapNode (fun _ => []) (.codeFence [] m n (T.flatMap (· ++ ['\n']))) 0
              (Lines.byteLen (wrapAll w (fenceDoc m n T))) w 0]⟩ := by
  have h := doc_fence_verbatim_nested_sp m hm n hn T hT htab hclose cfg hmem hpre w hw hch hmn hsize
  rw [spAttrs_off hsp] at h
  exact h

/-- **`doc_fence_render_nested`, any `sourcepos`**: `render` / `xrender` give the wrappers' tags
    (`wrapHtmlA`: per quote `<blockquote ATTRS>` LF … `</blockquote>` LF, per item `<ul ATTRS>` LF `<li ATTRS>` LF …
    `</li>` LF `</ul>` LF, `<ol …>` likewise) around `<pre><code ATTRS>`, the escaped content, `</code></pre>`, LF;
    then the serializer's NUL replacement.  Nothing of `T` appears anywhere else. -/
theorem doc_fence_render_nested_sp (x : Bool) :
    renderDoc x cfg (wrapAll w (fenceDoc m n T)) =
      .ok (Render.replaceNul (wrapHtmlA (spAttrs cfg (wrapAll w (fenceDoc m n T)))
        (Lines.byteLen (wrapAll w (fenceDoc m n T)))
        (fun off => preCode (spAttrs cfg (wrapAll w (fenceDoc m n T))
          (off + 0, Lines.byteLen (wrapAll w (fenceDoc m n T)))) (T.flatMap (· ++ ['\n']))) w 0)) :=
  render_of_tree x cfg _ _ _ _ _ 0 _ w _ (fun r a => leaf_fence cfg m n _ r a)
    (doc_fence_verbatim_nested_sp m hm n hn T hT htab hclose cfg hmem hpre w hw hch hmn hsize)

/-- **`doc_fence_render_nested`** (no `sourcepos` plugin): the output is the wrappers' HTML (`wrapHtml`)
    around `<pre><code>`, the content of the fence — `T`, every line followed by one LF — with exactly
    `& < > "` escaped and NUL replaced by U+FFFD, `</code></pre>` and one LF. -/
theorem doc_fence_render_nested (hsp : cfg.sourcepos = false) (x : Bool) :
    renderDoc x cfg (wrapAll w (fenceDoc m n T)) =
      .ok (wrapHtml w ("<pre><code>".toList ++ escapeHtml (Render.nulStr (T.flatMap (· ++ ['\n']))) ++
        "</code></pre>\n".toList)) := by
  have h := doc_fence_render_nested_sp m hm n hn T hT htab hclose cfg hmem hpre w hw hch hmn hsize x
  rw [spAttrs_off hsp, wrapHtmlA_nil, Render.replaceNul_eq_nulStr, nulStr_wrapHtml, nulStr_preCode_nil] at h
  exact h

end fence

/-! ## 5. indented code inside containers -/

theorem good_code {T : List (List Char)} (hne : T ≠ []) (hT : ∀ l ∈ T, NoTerm l) (htab : ∀ l ∈ T, '\t' ∉ l) :
    Good (T.map (four ++ ·)) := by
  have hon := onDoc_code hne hT .root []
  refine ⟨hon.ne, hon.noTerm, hon.last, ?_⟩
  intro l hl
  obtain ⟨t, ht, rfl⟩ := List.mem_map.mp hl
  intro hc
  rcases List.mem_append.mp hc with h | h
  · simp [four] at h
  · exact htab t ht h

section code
variable (T : List (List Char)) (hne : T ≠ []) (hT : ∀ l ∈ T, NoTerm l) (htab : ∀ l ∈ T, '\t' ∉ l)
  (hfirstT : ∀ h : 0 < T.length, T[0].dropWhile Lines.isBlank ≠ [])
  (hlastT : ∀ h : 0 < T.length, (T[T.length - 1]'(by omega)).dropWhile Lines.isBlank ≠ [])
  (cfg : DocCfg) (hmem : .code ∈ cfg.blockChain)
  (hpre : ∀ r ∈ cfg.blockChain.takeWhile (· ≠ .code), QuietOnCode r)
  (w : List Wrapper) (hw : ∀ x ∈ w, x.Ok) (hch : ChainFor cfg.blockChain w)
  (hhr : .hr ∈ cfg.blockChain.takeWhile (· ≠ .list) → ∀ h : 0 < T.length, HrFree w (four ++ T[0]))
  (hmn : depthCost w < cfg.maxNesting)
  (hsize : Lines.byteLen (wrapAll w (indentedDoc T)) + 20 < 2147483648)
include hne hT htab hfirstT hlastT hmem hpre hw hch hhr hmn hsize

/-- the block pass on an indented-code document inside the wrappers `w` -/
theorem parseBlocks_code_nested :
    parseBlocks cfg.blockCfg (wrapAll w (indentedDoc T)) =
      .ok (⟨.root, some (0, Lines.byteLen (wrapAll w (indentedDoc T))),
            [wrapTree (.codeBlock (docOf T ++ ['\n'])) 4 (Lines.byteLen (wrapAll w (indentedDoc T))) w 0]⟩, []) := by
  have g := good_code hne hT htab
  have hdoc : wrapAll w (indentedDoc T) = docOf (wrapAllLines w (T.map (four ++ ·))) := wrapAll_docOf hw g
  rw [hdoc] at hsize ⊢
  have hbase := Block.parseBlocks_code T hne hT hfirstT hlastT
    (cfg := { cfg.blockCfg with maxNesting := cfg.maxNesting - depthCost w })
    (MdIt.Pipeline.split_at_first .code _ hmem) hpre (by show 0 < cfg.maxNesting - depthCost w; omega)
  cases T with
  | nil => exact absurd rfl hne
  | cons t0 tr =>
    have hpos : 0 < (t0 :: tr).length := by simp
    have hf : FirstLineOk (four ++ t0) := by
      refine ⟨by rw [dropWhile_four]; exact hfirstT hpos, .inr ?_⟩
      rw [lead_four]; simp [four]
    simp only [List.map_cons] at g hbase hsize ⊢
    have := parseBlocks_nested { cfg.blockCfg with maxNesting := cfg.maxNesting - depthCost w }
      (by show 0 < cfg.maxNesting - depthCost w; omega) (.codeBlock (docOf (t0 :: tr) ++ ['\n']))
      (by intro h; cases h) (fun _ => rfl) 4 (four ++ t0) (tr.map (four ++ ·)) g hf
      (by simp [four, show ' '.utf8Size = 1 by decide]; omega) hbase w hw hch (fun h => hhr h hpos) hsize
    rw [blockCfg_nest cfg _ hmn] at this
    exact this

/-- **`doc_indented_verbatim_nested`, any `sourcepos`.**  `T` as in `doc_indented_verbatim` (non-empty,
    terminator-free lines, first and last not blank) and TAB-FREE; wrappers, chain, nesting and size as in
    `doc_fence_verbatim_nested_sp`; and, if the thematic-break rule stands in front of the list rule, no
    bullet's marker line is a thematic break (`HrFree`: `-     ---` IS one).  The document made of the lines
    of `T`, each behind four spaces, wrapped in `w`, parses to the root over the chain of wrapper nodes
    around exactly ONE `CodeBlock` whose content is `T` joined by LF plus one final LF, from 4 bytes behind
    the prefixes of line 0 to the end of the source. -/
theorem doc_indented_verbatim_nested_sp :
    parseDoc cfg (wrapAll w (indentedDoc T)) =
      .ok ⟨.blk .root, some (0, Lines.byteLen (wrapAll w (indentedDoc T))),
           spAttrs cfg (wrapAll w (indentedDoc T)) (0, Lines.byteLen (wrapAll w (indentedDoc T))),
           [wrapNode (spAttrs cfg (wrapAll w (indentedDoc T))) (.codeBlock (docOf T ++ ['\n'])) 4
              (Lines.byteLen (wrapAll w (indentedDoc T))) w 0]⟩ := by
  have hb := parseBlocks_code_nested T hne hT htab hfirstT hlastT cfg hmem hpre w hw hch hhr hmn hsize
  unfold parseDoc
  rw [hb]
  exact afterBlocks_wrapTree cfg _ _ (by intro c mp h; cases h) _ _ _ _ _

/-- **`doc_indented_verbatim_nested`** (no `sourcepos` plugin): the tree, exactly -/
theorem doc_indented_verbatim_nested (hsp : cfg.sourcepos = false) :
    parseDoc cfg (wrapAll w (indentedDoc T)) =
      .ok ⟨.blk .root, some (0, Lines.byteLen (wrapAll w (indentedDoc T))), [],
           [wrapNode (fun _ => []) (.codeBlock (docOf T ++ ['\n'])) 4
              (Lines.byteLen (wrapAll w (indentedDoc T))) w 0]⟩ := by
  have h := doc_indented_verbatim_nested_sp T hne hT htab hfirstT hlastT cfg hmem hpre w hw hch hhr hmn hsize
  rw [spAttrs_off hsp] at h
  exact h

/-- **`doc_indented_render_nested`, any `sourcepos`** -/
theorem doc_indented_render_nested_sp (x : Bool) :
    renderDoc x cfg (wrapAll w (indentedDoc T)) =
      .ok (Render.replaceNul (wrapHtmlA (spAttrs cfg (wrapAll w (indentedDoc T)))
        (Lines.byteLen (wrapAll w (indentedDoc T)))
        (fun off => preCode (spAttrs cfg (wrapAll w (indentedDoc T))
          (off + 4, Lines.byteLen (wrapAll w (indentedDoc T)))) (docOf T ++ ['\n'])) w 0)) :=
  render_of_tree x cfg _ _ _ _ _ 4 _ w _ (fun r a => leaf_code cfg _ r a)
    (doc_indented_verbatim_nested_sp T hne hT htab hfirstT hlastT cfg hmem hpre w hw hch hhr hmn hsize)

/-- **`doc_indented_render_nested`** (no `sourcepos` plugin): the wrappers' HTML around `<pre><code>`, the
    lines of `T` joined by LF plus one final LF with exactly `& < > "` escaped and NUL replaced by U+FFFD,
    `</code></pre>`, LF -/
theorem doc_indented_render_nested (hsp : cfg.sourcepos = false) (x : Bool) :
    renderDoc x cfg (wrapAll w (indentedDoc T)) =
      .ok (wrapHtml w ("<pre><code>".toList ++ escapeHtml (Render.nulStr (docOf T ++ ['\n'])) ++
        "</code></pre>\n".toList)) := by
  have h := doc_indented_render_nested_sp T hne hT htab hfirstT hlastT cfg hmem hpre w hw hch hhr hmn hsize x
  rw [spAttrs_off hsp, wrapHtmlA_nil, Render.replaceNul_eq_nulStr, nulStr_wrapHtml, nulStr_preCode_nil] at h
  exact h

end code


/-! ## 6. instances: the stock chain, decidability of the side conditions -/

instance (ds : List Char) (dl : Char) : Decidable (OrdMk ds dl) :=
  decidable_of_iff (ds ≠ [] ∧ ds.length ≤ 9 ∧ (∀ c ∈ ds, isDigit c = true) ∧ (dl = '.' ∨ dl = ')'))
    ⟨fun ⟨a, b, c, d⟩ => ⟨a, b, c, d⟩, fun h => ⟨h.ne, h.len, h.digits, h.delim⟩⟩

instance (x : Wrapper) : Decidable x.Ok := by
  cases x <;> unfold Wrapper.Ok <;> infer_instance

/-- the shipped block chain satisfies the chain condition for every wrapper list -/
theorem chainFor_stock (w : List Wrapper) :
    ChainFor [.code, .fence, .blockquote, .hr, .list, .reference, .heading, .lheading, .paragraph] w :=
  ⟨fun _ => ⟨by decide, by decide⟩, fun _ => ⟨by decide, by decide⟩⟩

/-- a convenient form of the thematic-break condition: the first payload line holds a character that is
    neither blank nor one of `-`, `*`, `_` -/
theorem hrFree_four {t0 : List Char} {c : Char} (hc : c ∈ t0)
    (hx : c ≠ ' ' ∧ c ≠ '\t' ∧ c ≠ '-' ∧ c ≠ '*' ∧ c ≠ '_') (w : List Wrapper) : HrFree w (four ++ t0) :=
  hrFree_of_mem (List.mem_append_right _ hc) hx w

/-! ## 7. examples, and the necessity of the hypotheses -/

section examples

/-- the wrapped document, spelled out: `a<b` fenced, in a bullet item, in a block quote -/
example : wrapAll [.quote, .bullet '-'] (fenceDoc '`' 3 [['a', '<', 'b']]) = "> - ```\n>   a<b\n>   ```".toList := by
  decide +kernel

/-- the HTML of the three kinds of wrapper -/
example : wrapHtml [.quote] ['X', '\n'] = "<blockquote>\nX\n</blockquote>\n".toList ∧
    wrapHtml [.bullet '*'] ['X', '\n'] = "<ul>\n<li>\nX\n</li>\n</ul>\n".toList ∧
    wrapHtml [.ordered ['1'] '.'] ['X', '\n'] = "<ol>\n<li>\nX\n</li>\n</ol>\n".toList ∧
    wrapHtml [.ordered ['1', '2'] ')'] ['X', '\n'] = "<ol start=\"12\">\n<li>\nX\n</li>\n</ol>\n".toList ∧
    wrapHtml [.quote, .bullet '-'] ['X', '\n'] =
      "<blockquote>\n<ul>\n<li>\nX\n</li>\n</ul>\n</blockquote>\n".toList := by
  decide +kernel

/-- `doc_fence_render_nested` applies on the stock chain: two wrapper levels (quote around bullet item),
    payload `a<b`, a line of two backticks, an empty line -/
example (x : Bool) :
    renderDoc x (exCfg false 100) (wrapAll [.quote, .bullet '-'] (fenceDoc '`' 3 [['a', '<', 'b'], ['`', '`'], []])) =
      .ok (wrapHtml [.quote, .bullet '-'] ("<pre><code>".toList ++
        escapeHtml (Render.nulStr "a<b\n``\n\n".toList) ++ "</code></pre>\n".toList)) :=
  doc_fence_render_nested '`' (.inl rfl) 3 (by omega) _ (by decide) (by decide) (by decide) (exCfg false 100)
    (by decide) (by decide) [.quote, .bullet '-'] (by decide) (chainFor_stock _) (by decide) (by decide +kernel) rfl x

/-- the same by evaluation: the exact string -/
example : renderDoc false (exCfg false 100) "> - ```\n>   a<b\n>   ```".toList =
    .ok "<blockquote>\n<ul>\n<li>\n<pre><code>a&lt;b\n</code></pre>\n</li>\n</ul>\n</blockquote>\n".toList := by
  decide +kernel

/-- with the `sourcepos` plugin (`doc_fence_render_nested_sp`): every wrapper node spans from its marker on
    line 1 to the end of the source, the fence starts behind both prefixes -/
example : renderDoc false (exCfg true 100) "> - ```\n>   a<b\n>   ```".toList =
    .ok ("<blockquote data-sourcepos=\"1:1-3:7\">\n<ul data-sourcepos=\"1:3-3:7\">\n<li data-sourcepos=\"1:3-3:7\">\n" ++
      "<pre><code data-sourcepos=\"1:5-3:7\">a&lt;b\n</code></pre>\n</li>\n</ul>\n</blockquote>\n").toList := by
  decide +kernel

/-- the tree of `doc_fence_verbatim_nested`: `Root[Blockquote[BulletList[ListItem[CodeFence]]]]`, the wrapper
    nodes from bytes 0 / 2 / 2, the fence from byte 4, all to byte 23 (the end of the source) -/
example : parseDoc (exCfg false 100) (wrapAll [.quote, .bullet '-'] (fenceDoc '`' 3 [['a', '<', 'b']])) =
    .ok ⟨.blk .root, some (0, 23), [],
      [⟨.blk .blockquote, some (0, 23), [],
        [⟨.blk (.bulletList '-'), some (2, 23), [],
          [⟨.blk .listItem, some (2, 23), [],
            [⟨.blk (.codeFence [] '`' 3 ['a', '<', 'b', '\n']), some (4, 23), [], []⟩]⟩]⟩]⟩]⟩ := by
  have h := doc_fence_verbatim_nested '`' (.inl rfl) 3 (by omega) [['a', '<', 'b']] (by decide) (by decide) (by decide)
    (exCfg false 100) (by decide) (by decide) [.quote, .bullet '-'] (by decide) (chainFor_stock _) (by decide)
    (by decide +kernel) rfl
  have hE : Lines.byteLen (wrapAll [.quote, .bullet '-'] (fenceDoc '`' 3 [['a', '<', 'b']])) = 23 := by decide +kernel
  rw [h, hE]
  rfl

/-- `doc_indented_render_nested` applies: an ordered item (`12)`, `<ol start="12">`) around a block quote,
    payload `a<`, an empty line, `b` -/
example (x : Bool) :
    renderDoc x (exCfg false 100) (wrapAll [.ordered ['1', '2'] ')', .quote] (indentedDoc [['a', '<'], [], ['b']])) =
      .ok (wrapHtml [.ordered ['1', '2'] ')', .quote] ("<pre><code>".toList ++
        escapeHtml (Render.nulStr "a<\n\nb\n".toList) ++ "</code></pre>\n".toList)) :=
  doc_indented_render_nested [['a', '<'], [], ['b']] (by decide) (by decide) (by decide) (by decide) (by decide)
    (exCfg false 100) (by decide) (by decide) [.ordered ['1', '2'] ')', .quote] (by decide) (chainFor_stock _)
    (fun _ _ => hrFree_four (c := 'a') (by simp) (by decide) _) (by decide) (by decide +kernel) rfl x

example : wrapAll [.ordered ['1', '2'] ')', .quote] (indentedDoc [['a', '<'], [], ['b']]) =
    "12) >     a<\n    >     \n    >     b".toList := by decide +kernel

example : renderDoc false (exCfg false 100) "12) >     a<\n    >     \n    >     b".toList =
    .ok "<ol start=\"12\">\n<li>\n<blockquote>\n<pre><code>a&lt;\n\nb\n</code></pre>\n</blockquote>\n</li>\n</ol>\n".toList := by
  decide +kernel

/-- `depthCost w < max_nesting` is needed: quote + item cost 3; at `max_nesting = 3` the item stays empty, at 4
    the code is there -/
example : renderDoc false (exCfg false 3) "> - ```\n>   a<b\n>   ```".toList =
      .ok "<blockquote>\n<ul>\n<li></li>\n</ul>\n</blockquote>\n".toList ∧
    renderDoc false (exCfg false 4) "> - ```\n>   a<b\n>   ```".toList =
      .ok "<blockquote>\n<ul>\n<li>\n<pre><code>a&lt;b\n</code></pre>\n</li>\n</ul>\n</blockquote>\n".toList := by
  decide +kernel

/-- the thematic-break condition is needed for INDENTED code in a bullet item (`hr` stands in front of
    `list` in the stock chain): the payload `---` behind four spaces in a `-` item is a thematic break — so
    is the payload `-` in two nested `-` items —, while in a `*` item it is code -/
example : wrapAll [.bullet '-'] (indentedDoc [['-', '-', '-']]) = "-     ---".toList ∧
    ¬ HrFree [.bullet '-'] (four ++ ['-', '-', '-']) ∧
    renderDoc false (exCfg false 100) "-     ---".toList = .ok "<hr>\n".toList ∧
    wrapAll [.bullet '-', .bullet '-'] (indentedDoc [['-']]) = "- -     -".toList ∧
    renderDoc false (exCfg false 100) "- -     -".toList = .ok "<hr>\n".toList ∧
    renderDoc false (exCfg false 100) "*     ---".toList =
      .ok "<ul>\n<li>\n<pre><code>---\n</code></pre>\n</li>\n</ul>\n".toList := by
  refine ⟨by decide +kernel, ?_, by decide +kernel, by decide +kernel, by decide +kernel, by decide +kernel⟩
  intro h
  have h1 : hrLook 0 ('-' :: ' ' :: (four ++ ['-', '-', '-'])) = false := h.1
  have h2 : hrLook 0 ('-' :: ' ' :: (four ++ ['-', '-', '-'])) = true := by decide +kernel
  rw [h1] at h2
  cases h2

/-- `Wrapper.Ok` is needed: a ten-digit number is not a list marker (the fence becomes a code SPAN in a
    paragraph), nor is `_` a bullet -/
example : ¬ (Wrapper.ordered "1234567890".toList '.').Ok ∧ ¬ (Wrapper.bullet '_').Ok ∧
    renderDoc false (exCfg false 100) (wrapAll [.ordered "1234567890".toList '.'] (fenceDoc '`' 3 [['a']])) =
      .ok "<p>1234567890. <code>            a            </code></p>\n".toList ∧
    renderDoc false (exCfg false 100) (wrapAll [.bullet '_'] (fenceDoc '`' 3 [['a']])) =
      .ok "<p>_ ```\na</p>\n<pre><code></code></pre>\n".toList := by
  decide +kernel

/-- the chain condition is needed: with the paragraph rule in front of the block-quote rule the wrapped
    document is three paragraphs (the quote rule, still in the chain, interrupts each) -/
example : renderDoc false { exCfg false 100 with blockChain := [.fence, .paragraph, .blockquote] } "> ~~~\n> a\n> ~~~".toList =
    .ok "<p>&gt; ~~~</p>\n<p>&gt; a</p>\n<p>&gt; ~~~</p>\n".toList := by decide +kernel

/-- … and the thematic-break condition is needed ONLY when `hr` stands in front of `list`: with `list` first,
    `-     ---` is an item around the code `---` -/
example : renderDoc false { exCfg false 100 with blockChain := [.code, .fence, .list, .hr] } "-     ---".toList =
    .ok "<ul>\n<li>\n<pre><code>---\n</code></pre>\n</li>\n</ul>\n".toList := by decide +kernel

/-- TAB-FREENESS is a restriction of the proof (C06's simulations are stated for tab-free documents), not
    known to be necessary for these documents: a payload tab stands behind the fence's / the code block's
    own indentation, which the wrapper prefixes extend by spaces only, so it is never split.  Instances by
    evaluation (not covered by the theorems above): -/
example : renderDoc false (exCfg false 100) (wrapAll [.quote] (fenceDoc '`' 3 [[' ', '\t', 'a']])) =
      .ok "<blockquote>\n<pre><code> \ta\n</code></pre>\n</blockquote>\n".toList ∧
    renderDoc false (exCfg false 100) (wrapAll [.bullet '-'] (indentedDoc [['a'], ['\t', 'a']])) =
      .ok "<ul>\n<li>\n<pre><code>a\n\ta\n</code></pre>\n</li>\n</ul>\n".toList ∧
    renderDoc false (exCfg false 100) (wrapAll [.ordered ['1'] '.'] (indentedDoc [['\t', 'a']])) =
      .ok "<ol>\n<li>\n<pre><code>\ta\n</code></pre>\n</li>\n</ol>\n".toList := by
  decide +kernel

end examples


/-! ## 8. code SPANS inside containers: what is proved, what is open -/

section span

/-- `parseBlocks_para_nested` in terms of the document configuration: a one-line paragraph document `l` (tab-free,
    no terminator, starting with a non-blank character; block parse `Root[Paragraph[InlineRoot c m]]`, the run ending
    `tight`) wrapped in `w` has the block tree `wrapForest w` around the paragraph — or, exactly when the innermost
    wrapper is a list item (`tightOf w`), around the bare placeholder — whose inline text is the SAME `c`, per-line
    table moved by the prefixes' width. -/
theorem doc_para_blocks_nested (cfg : DocCfg) (c : List Char) (m : List (Nat × Nat)) (a : Nat) (l : List Char)
    (g : Good [l]) (hf : FirstLineOk l) (ha : a ≤ Lines.byteLen l) (hm : ∀ kv ∈ m, kv.2 ≤ Lines.byteLen l)
    (w : List Wrapper) (hw : ∀ x ∈ w, x.Ok) (hch : ChainFor cfg.blockChain w)
    (hhr : .hr ∈ cfg.blockChain.takeWhile (· ≠ .list) → HrFree w l)
    (hmn : depthCost w < cfg.maxNesting)
    (hsize : Lines.byteLen (wrapAll w l) + 20 < 2147483648)
    (hbase : parseBlocks { cfg.blockCfg with maxNesting := cfg.maxNesting - depthCost w } l =
      .ok (⟨.root, some (0, Lines.byteLen l), [⟨.paragraph, some (a, Lines.byteLen l), [⟨.inlineRoot c m, none, []⟩]⟩]⟩, []))
    (htight : ∀ t, tokenize { cfg.blockCfg with maxNesting := cfg.maxNesting - depthCost w }
      (fuelFor { cfg.blockCfg with maxNesting := cfg.maxNesting - depthCost w } l) (BState.fresh l .root []) = .ok t →
        t.tight = true) :
    wrapAll w l = firstLine w l ∧
    parseBlocks cfg.blockCfg (wrapAll w l) =
      .ok (⟨.root, some (0, Lines.byteLen (wrapAll w l)),
            wrapForest (Lines.byteLen (wrapAll w l)) w 0
              (paraLeaf c m a (widthAll w) (Lines.byteLen (wrapAll w l)) (tightOf w))⟩, []) := by
  have hdoc : wrapAll w l = firstLine w l := by
    have := wrapAll_docOf hw g
    rwa [wrapAllLines_single, docOf_single, docOf_single] at this
  refine ⟨hdoc, ?_⟩
  rw [hdoc] at hsize ⊢
  have := parseBlocks_para_nested { cfg.blockCfg with maxNesting := cfg.maxNesting - depthCost w }
    (by show 0 < cfg.maxNesting - depthCost w; omega) c m a l g hf ha hm (by rw [docOf_single]; exact hbase)
    (by rw [docOf_single]; exact htight) w hw hch hhr (by rw [docOf_single]; exact hsize)
  rw [blockCfg_nest cfg _ hmn] at this
  simpa only [docOf_single] using this

mutual
/-- structural equality of block trees, as a Boolean (for the example below: `BNode` has no `DecidableEq`) -/
def beqN : BNode → BNode → Bool
  | ⟨k1, r1, c1⟩, ⟨k2, r2, c2⟩ => decide (k1 = k2) && decide (r1 = r2) && beqL c1 c2
def beqL : List BNode → List BNode → Bool
  | [], [] => true
  | a :: as, b :: bs => beqN a b && beqL as bs
  | _, _ => false
end

mutual
theorem beqN_sound : ∀ (a b : BNode), beqN a b = true → a = b
  | ⟨k1, r1, c1⟩, ⟨k2, r2, c2⟩, h => by
    simp only [beqN, Bool.and_eq_true, decide_eq_true_eq] at h
    obtain ⟨⟨rfl, rfl⟩, h3⟩ := h
    rw [beqL_sound c1 c2 h3]
theorem beqL_sound : ∀ (a b : List BNode), beqL a b = true → a = b
  | [], [], _ => rfl
  | a :: as, b :: bs, h => by
    simp only [beqL, Bool.and_eq_true] at h
    rw [beqN_sound a b h.1, beqL_sound as bs h.2]
  | [], _ :: _, h => by simp [beqL] at h
  | _ :: _, [], h => by simp [beqL] at h
end

/-- the line `` a<`` `*x` ``>b `` — a code span (two backticks, content `` `*x` ``) between other text -/
def spanLine : List Char := "a<`` `*x` ``>b".toList

/-- the hypotheses of `doc_para_blocks_nested` hold for `spanLine` in a quote in a bullet item on the stock chain:
    the placeholder inside the containers holds the whole line as inline text, table `[(0, 4)]`; the innermost
    wrapper is the quote, so the paragraph stays -/
example : parseBlocks (exCfg false 100).blockCfg "- > a<`` `*x` ``>b".toList =
    .ok (⟨.root, some (0, 18),
      [⟨.bulletList '-', some (0, 18), [⟨.listItem, some (0, 18),
        [⟨.blockquote, some (2, 18),
          paraLeaf spanLine [(0, 0)] 0 4 18 false⟩]⟩]⟩]⟩, []) := by
  have hb : (match parseBlocks { (exCfg false 100).blockCfg with maxNesting := 100 - depthCost [.bullet '-', .quote] } spanLine with
      | .ok (n, refs) => beqN n ⟨.root, some (0, Lines.byteLen spanLine),
          [⟨.paragraph, some (0, Lines.byteLen spanLine), [⟨.inlineRoot spanLine [(0, 0)], none, []⟩]⟩]⟩ && refs.isEmpty
      | .error _ => false) = true := by decide +kernel
  have hbase : parseBlocks { (exCfg false 100).blockCfg with maxNesting := 100 - depthCost [.bullet '-', .quote] } spanLine =
      .ok (⟨.root, some (0, Lines.byteLen spanLine),
        [⟨.paragraph, some (0, Lines.byteLen spanLine), [⟨.inlineRoot spanLine [(0, 0)], none, []⟩]⟩]⟩, []) := by
    cases h : parseBlocks { (exCfg false 100).blockCfg with maxNesting := 100 - depthCost [.bullet '-', .quote] } spanLine with
    | error e => rw [h] at hb; cases hb
    | ok p =>
      obtain ⟨n, refs⟩ := p
      rw [h] at hb
      simp only [Bool.and_eq_true, List.isEmpty_iff] at hb
      rw [beqN_sound _ _ hb.1, hb.2]
  have ht : (match tokenize { (exCfg false 100).blockCfg with maxNesting := 100 - depthCost [.bullet '-', .quote] }
      (fuelFor { (exCfg false 100).blockCfg with maxNesting := 100 - depthCost [.bullet '-', .quote] } spanLine)
      (BState.fresh spanLine .root []) with
      | .ok t => t.tight
      | .error _ => true) = true := by decide +kernel
  obtain ⟨hdoc, h⟩ := doc_para_blocks_nested (exCfg false 100) spanLine [(0, 0)] 0 spanLine
    ⟨by decide, by decide +kernel, by decide +kernel, by decide +kernel⟩ ⟨by decide +kernel, .inl (by decide +kernel)⟩
    (Nat.zero_le _) (by decide) [.bullet '-', .quote] (by decide) (chainFor_stock _)
    (fun _ => hrFree_of_mem (x := 'a') (by decide +kernel) (by decide) _) (by decide) (by decide +kernel) hbase
    (fun t htk => by erw [htk] at ht; exact ht)
  have e1 : wrapAll [.bullet '-', .quote] spanLine = "- > a<`` `*x` ``>b".toList := by decide +kernel
  have e2 : Lines.byteLen "- > a<`` `*x` ``>b".toList = 18 := by decide +kernel
  rw [e1, e2] at h
  exact h

/-- what the whole pipeline does with it (by evaluation): the span's content, backtick and star included, verbatim -/
example : renderDoc false (exCfg false 100) "- > a<`` `*x` ``>b".toList =
    .ok "<ul>\n<li>\n<blockquote>\n<p>a&lt;<code>`*x`</code>&gt;b</p>\n</blockquote>\n</li>\n</ul>\n".toList := by
  decide +kernel

end span

/-
PROVED SINCE (was `OPEN:` here): `doc_span_verbatim_nested` — the code-span context of C11 inside containers,
through the INLINE pass — in `MdIt/Props/C11Span.lean` (audit `MdIt/Audit/C11Span.lean`):
  `doc_span_verbatim(_sp)`, `doc_span_render(_sp)` at top level, `doc_span_verbatim_nested(_sp)`,
  `doc_span_render_nested(_sp)` inside any `w : List Wrapper`, for ONE-LINE paragraphs `pre ++ `ᵏ⁺¹ ␠ T ␠ `ᵏ⁺¹ ++ post`
  with plain `pre` / `post` (no character of the text rule's stop set) and ANY `T` without a run of `k + 1` backticks:
  the exact tree and the exact output (`renderDoc x cfg (wrapAll w l) = .ok (spanHtml w (pre <code>T</code> post))`,
  escaped; a list item directly around the paragraph is tight).  The three lemmas that were missing:
    (1) the tokenizer reaches the span with the EMPTY code-span cache: `C11S.parseInline_span`
        (Lemmas/C11SpanInline.lean; plain text in front, so no earlier call of the rule);
    (2) the `CodeInline` node survives the post-passes: `joinFix_spanNodes` (Lemmas/C11SpanDoc.lean);
    (3) table independence: `parseInline_span` holds for ANY one-entry table `[(0, x)]`;
  plus the top-level block half `Block.parseBlocks_line` / `tokenize_line_tight` (Lemmas/C11SpanPara.lean), which
  discharges `hbase` / `htight` of `doc_para_blocks_nested` above for every line whose first character no block
  rule but `paragraph` claims.
OPEN (stated in the header of Props/C11Span.lean): MULTI-LINE spans at document level.  The inline text of a
  multi-line paragraph in a quote / item is the lines with the prefixes stripped (C06 `get_lines_quote` /
  `get_lines_item`: content equal), so the same route works; `parseBlocks_para_nested` is stated for ONE line
  because its relocation lemma uses that every position of the tree lies on line 0, and a line of `T` that starts
  a block interrupts the paragraph, so a per-line hypothesis is needed.  Also open: the UNPADDED form
  `` `ᵏ⁺¹ R `ᵏ⁺¹ `` at document level (rule level: `CodePair.span_opaque`).

RESTRICTION (not a gap of the model): payload TABS.  All theorems of this file assume a tab-free payload,
inherited from C06 (`quote_commutes`, `item_commutes_*` are stated for tab-free documents because a tab's width
depends on the column the prefix moves it to).  For the two code documents the tab never straddles the stripped
columns (it stands behind the fence's / the code block's own indentation), evaluation agrees with the Rust on
tabbed payloads (examples in section 7), but the general statement needs C06's simulations for documents whose
tabs stand behind ≥ (indent) spaces — missing lemma: `Tbl`/`Sim` of Props/C06.lean and Lemmas/C06ListSim.lean with
`'\t' ∉ lead l` in place of `'\t' ∉ l` (the views `quote_view` / `item_view` only expand tabs of the LEADING
blanks).  Payload tabs are covered at top level (`doc_fence_verbatim`, `doc_indented_verbatim`).
-/

end MdIt.C11N
