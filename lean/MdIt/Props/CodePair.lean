/-
  Code-span rule (`generics/inline/code_pair.rs`): theorems other properties import.

  C01: `codepair_no_panic`, `runSeq_no_panic` (every source, EVERY cache value, every valid call /
       call sequence), `codepair_progress`, `codepair_old_panics` (pinned code), `multibyte_marker_panics`.
  C16: `codepair_silent_real` (unconditional, every variant), `CacheInv` + `cacheInv_run` /
       `cacheInv_runSeq` (invariant preserved by every call, no discipline), `cache_sound`,
       `cache_transparent`, `runSeq_transparent` (the closer table never changes an answer; only
       hypothesis: no `pos_max` cuts a marker run — `cut_posmax_needs_hypothesis` shows it is needed),
       `inside_hit`, `InsideInv` + `insideInv_run` (what `inside_failed` guarantees),
       negation witnesses for the earlier code: `old_lookahead_poisons_cache` (A),
       `old_table_not_monotone` (B), `old_guard_reads_tree` (C).
  Building blocks reused by `Props/C11.lean`: `Frame`, `scan_hit`, `scan_nomarker`, `runs_induction`,
       `scan_total`, `scan_some`, `scan_none`, `run_path`, `nodeOf`, `unpad`, `IsRun`.
  All statements are for every source string, every cache value and every call, no size bounds.
-/
import MdIt.Model.CodePair
namespace MdIt.CodePair

theorem byteLen_append (a b : List Char) : byteLen (a ++ b) = byteLen a + byteLen b := by
  induction a with
  | nil => simp [byteLen]
  | cons c r ih => simp [byteLen, ih]; omega

theorem byteLen_replicate {m : Char} (hm : m.utf8Size = 1) (k : Nat) :
    byteLen (List.replicate k m) = k := by
  induction k with
  | zero => simp [byteLen]
  | succ k ih => simp [List.replicate_succ, byteLen, ih, hm]; omega

theorem dropB_zero (l : List Char) : dropB l 0 = some l := by cases l <;> rfl

theorem dropB_cons (c : Char) (r : List Char) (n : Nat) (h : 0 < n) :
    dropB (c :: r) n = if c.utf8Size ≤ n then dropB r (n - c.utf8Size) else none := by
  cases n with
  | zero => omega
  | succ n => rfl

theorem takeB_cons (c : Char) (r : List Char) (n : Nat) (h : 0 < n) :
    takeB (c :: r) n = if c.utf8Size ≤ n then (takeB r (n - c.utf8Size)).map (c :: ·) else none := by
  cases n with
  | zero => omega
  | succ n => rfl

/-- `dropB` past a whole prefix -/
theorem dropB_append_add (x r : List Char) (j : Nat) :
    dropB (x ++ r) (byteLen x + j) = dropB r j := by
  induction x with
  | nil => simp [byteLen]
  | cons c x ih =>
    have hp := Char.utf8Size_pos c
    have e : byteLen (c :: x) + j = c.utf8Size + (byteLen x + j) := by simp [byteLen]; omega
    rw [List.cons_append, e, dropB_cons _ _ _ (by omega), if_pos (by omega)]
    have : c.utf8Size + (byteLen x + j) - c.utf8Size = byteLen x + j := by omega
    rw [this, ih]

theorem dropB_append (x r : List Char) : dropB (x ++ r) (byteLen x) = some r := by
  have := dropB_append_add x r 0
  simpa [dropB_zero] using this

theorem takeB_append (u w : List Char) : takeB (u ++ w) (byteLen u) = some u := by
  induction u with
  | nil => simp [byteLen, takeB_zero]
  | cons c u ih =>
    have hp := Char.utf8Size_pos c
    have e : byteLen (c :: u) = c.utf8Size + byteLen u := rfl
    rw [List.cons_append, e, takeB_cons _ _ _ (by omega), if_pos (by omega)]
    have : c.utf8Size + byteLen u - c.utf8Size = byteLen u := by omega
    rw [this, ih]; rfl

theorem slice_mid (x m z : List Char) :
    slice (x ++ m ++ z) (byteLen x) (byteLen x + byteLen m) = some m := by
  unfold slice
  rw [if_pos (by omega), List.append_assoc, dropB_append]
  simp [takeB_append]

theorem dropB_some {s : List Char} {n : Nat} {t : List Char} (h : dropB s n = some t) :
    ∃ a, s = a ++ t ∧ byteLen a = n := by
  induction s generalizing n with
  | nil =>
    cases n with
    | zero => simp [dropB] at h; exact ⟨[], by simp [h, byteLen]⟩
    | succ n => simp [dropB] at h
  | cons c r ih =>
    cases n with
    | zero => rw [dropB_zero] at h; cases h; exact ⟨[], by simp [byteLen]⟩
    | succ n =>
      rw [dropB_cons _ _ _ (by omega)] at h
      split at h
      · obtain ⟨a, ha, hl⟩ := ih h
        exact ⟨c :: a, by simp [ha], by simp [byteLen, hl]; omega⟩
      · cases h

theorem takeB_some {t : List Char} {n : Nat} {u : List Char} (h : takeB t n = some u) :
    ∃ w, t = u ++ w ∧ byteLen u = n := by
  induction t generalizing n u with
  | nil =>
    cases n with
    | zero => simp [takeB] at h; subst h; exact ⟨[], by simp [byteLen]⟩
    | succ n => simp [takeB] at h
  | cons c r ih =>
    cases n with
    | zero => rw [takeB_zero] at h; cases h; exact ⟨c :: r, by simp [byteLen]⟩
    | succ n =>
      rw [takeB_cons _ _ _ (by omega)] at h
      split at h
      · cases h' : takeB r (n + 1 - c.utf8Size) with
        | none => simp [h'] at h
        | some u' =>
          simp [h'] at h
          obtain ⟨w, hw, hl⟩ := ih h'
          exact ⟨w, by simp [← h, hw], by simp [← h, byteLen, hl]; omega⟩
      · cases h

theorem slice_some {s : List Char} {a b : Nat} {u : List Char} (h : slice s a b = some u) :
    ∃ x z, s = x ++ u ++ z ∧ byteLen x = a ∧ a + byteLen u = b := by
  unfold slice at h
  split at h
  · cases hd : dropB s a with
    | none => simp [hd] at h
    | some t =>
      simp [hd] at h
      obtain ⟨x, hx, hxl⟩ := dropB_some hd
      obtain ⟨z, hz, hul⟩ := takeB_some h
      exact ⟨x, z, by simp [hx, hz], hxl, by omega⟩
  · cases h


/-! ## `find`, marker runs -/

theorem findB_none {m : Char} {s : List Char} (h : m ∉ s) : findB m s = none := by
  induction s with
  | nil => rfl
  | cons c r ih =>
    simp at h
    simp [findB, ih h.2, Ne.symm h.1]

theorem findB_append {m : Char} (a r : List Char) (h : m ∉ a) :
    findB m (a ++ m :: r) = some (byteLen a) := by
  induction a with
  | nil => simp [findB, byteLen]
  | cons c a ih =>
    simp at h
    simp [findB, ih h.2, Ne.symm h.1, byteLen]; omega

theorem runLen_replicate {m : Char} (k : Nat) (t : List Char) (h : t.head? ≠ some m) :
    runLen m (List.replicate k m ++ t) = k := by
  induction k with
  | zero =>
    cases t with
    | nil => rfl
    | cons c t => simp at h; simp [runLen, h]
  | succ k ih => simp [List.replicate_succ, runLen, ih]

theorem runLen_split (m : Char) (r : List Char) :
    ∃ t, r = List.replicate (runLen m r) m ++ t ∧ t.head? ≠ some m := by
  induction r with
  | nil => exact ⟨[], by simp [runLen]⟩
  | cons c r ih =>
    by_cases hc : c = m
    · obtain ⟨t, ht, hh⟩ := ih
      refine ⟨t, ?_, hh⟩
      simp only [runLen, hc, if_true, List.replicate_succ, List.cons_append]
      rw [← ht]
    · exact ⟨c :: r, by simp [runLen, hc], by simp [hc]⟩

theorem first_occurrence {m : Char} {l : List Char} (h : m ∈ l) :
    ∃ a r, l = a ++ m :: r ∧ m ∉ a := by
  induction l with
  | nil => cases h
  | cons c l ih =>
    by_cases hc : c = m
    · exact ⟨[], l, by simp [hc], by simp⟩
    · have : m ∈ l := by simp at h; rcases h with h | h; exact absurd h.symm hc; exact h
      obtain ⟨a, r, hl, ha⟩ := ih this
      exact ⟨c :: a, r, by simp [hl], by simp [ha, Ne.symm hc]⟩

/-- induction along the scan loop: a string is marker-free, or is `A ++ mᵏ⁺¹ ++ T` with `A`
    marker-free and `T` not starting with the marker -/
theorem runs_induction {m : Char} {P : List Char → Prop}
    (nomark : ∀ M, m ∉ M → P M)
    (hit : ∀ A k T, m ∉ A → T.head? ≠ some m → P T → P (A ++ List.replicate (k + 1) m ++ T)) :
    ∀ M, P M := by
  have key : ∀ n (M : List Char), M.length ≤ n → P M := by
    intro n
    induction n with
    | zero =>
      intro M h
      have : M = [] := by cases M with | nil => rfl | cons _ _ => simp at h
      subst this; exact nomark [] (by simp)
    | succ n ih =>
      intro M h
      by_cases hm : m ∈ M
      · obtain ⟨a, r, hl, ha⟩ := first_occurrence hm
        obtain ⟨t, ht, hh⟩ := runLen_split m r
        have e : M = a ++ List.replicate (runLen m r + 1) m ++ t := by
          rw [hl, List.replicate_succ, List.append_assoc, List.cons_append, ← ht]
        rw [e]
        apply hit a _ t ha hh
        apply ih
        have : M.length = a.length + (runLen m r + 1) + t.length := by rw [e]; simp; omega
        omega
      · exact nomark M hm
  exact fun M => key M.length M (Nat.le_refl _)


/-! ## the closer table -/

theorem grow_eq (mx : List Nat) (n : Nat) :
    grow mx n = mx ++ List.replicate (n + 1 - mx.length) 0 := by
  fun_induction grow mx n with
  | case1 mx h ih =>
    rw [ih]
    have : n + 1 - mx.length = (n + 1 - (mx ++ [0]).length) + 1 := by simp; omega
    rw [this, List.replicate_succ]; simp
  | case2 mx h =>
    have : n + 1 - mx.length = 0 := by omega
    simp [this]

theorem grow_length (mx : List Nat) (n : Nat) : n < (grow mx n).length := by
  rw [grow_eq]; simp; omega

theorem grow_getD (mx : List Nat) (n i : Nat) : (grow mx n).getD i 0 = mx.getD i 0 := by
  rw [grow_eq]
  simp only [List.getD_eq_getElem?_getD, List.getElem?_append]
  split
  · rfl
  · rename_i h
    rw [List.getElem?_eq_none (by omega : mx.length ≤ i)]
    simp [List.getElem?_replicate]
    split <;> rfl

/-- the table update never panics; its effect on every entry -/
theorem record_spec (b : Bool) (mx : List Nat) (l s : Nat) :
    ∃ mx', record b mx l s = .ok mx' ∧
      ∀ i, mx'.getD i 0 =
        if i = l then (if b = true ∧ s ≤ mx.getD l 0 then mx.getD l 0 else s) else mx.getD i 0 := by
  have hl := grow_length mx l
  have hset : ∀ i, ((grow mx l).set l s).getD i 0 = if i = l then s else mx.getD i 0 := by
    intro i
    simp only [List.getD_eq_getElem?_getD, List.getElem?_set]
    by_cases h : l = i
    · subst h; simp [hl]
    · have h' : ¬ i = l := fun e => h e.symm
      simp only [h, h', if_false]
      rw [← List.getD_eq_getElem?_getD, grow_getD, List.getD_eq_getElem?_getD]
  have hget : (grow mx l)[l]? = some (mx.getD l 0) := by
    have := grow_getD mx l l
    simp only [List.getD_eq_getElem?_getD] at this
    rw [List.getElem?_eq_getElem hl] at this ⊢
    simp at this; simp [this]
  unfold record
  cases b with
  | false =>
    refine ⟨(grow mx l).set l s, by simp [setIdx, hl], ?_⟩
    intro i; rw [hset]; simp
  | true =>
    generalize hg : mx.getD l 0 = g at hget ⊢
    simp only [hget, if_true]
    by_cases hlt : g < s
    · refine ⟨(grow mx l).set l s, ?_, ?_⟩
      · simp only [if_pos hlt, setIdx, if_pos hl]
      · intro i; rw [hset]
        by_cases h : i = l
        · rw [if_pos h, if_pos h, if_neg (by omega)]
        · rw [if_neg h, if_neg h]
    · refine ⟨grow mx l, ?_, ?_⟩
      · simp only [if_neg hlt]
      · intro i; rw [grow_getD]
        by_cases h : i = l
        · rw [if_pos h, if_pos ⟨trivial, by omega⟩, h, hg]
        · rw [if_neg h]

/-! ## unfolding the scan loop inside a frame `src = X ++ M ++ Z` -/

theorem scan_nomarker (v : Variant) (m : Char) {src X M Z : List Char} {matchEnd posMax : Nat}
    (pos n p : Nat) (silent : Bool) (c : Cache)
    (hsrc : src = X ++ M ++ Z) (hX : byteLen X = matchEnd) (hP : posMax = matchEnd + byteLen M)
    (hM : m ∉ M) :
    scan v m src pos posMax n p silent matchEnd c =
      .ok (none, markInside v pos p (complete v pos posMax c)) := by
  have hs : slice src matchEnd posMax = some M := by
    rw [hsrc, ← hX, hP, ← hX]; exact slice_mid X M Z
  rw [scan]
  split
  · rename_i h; rw [hs] at h; cases h
  · rename_i s h
    rw [hs] at h; cases h
    split
    · rfl
    · rename_i off hf; rw [findB_none hM] at hf; cases hf

theorem scan_hit (v : Variant) (m : Char) (hm1 : m.utf8Size = 1)
    {src X A T Z : List Char} {k matchEnd posMax : Nat}
    (pos n p : Nat) (silent : Bool) (c : Cache)
    (hsrc : src = X ++ (A ++ List.replicate (k + 1) m ++ T) ++ Z) (hX : byteLen X = matchEnd)
    (hP : posMax = matchEnd + byteLen A + (k + 1) + byteLen T)
    (hA : m ∉ A) (hT : T.head? ≠ some m) :
    scan v m src pos posMax n p silent matchEnd c =
      if k + 1 = n then
        if matchEnd + byteLen A + (k + 1) < pos then .error .underflow
        else if silent = true then
          .ok (some ⟨matchEnd + byteLen A + (k + 1) - pos, none⟩, c)
        else
          match mkNode src pos p (matchEnd + byteLen A) (matchEnd + byteLen A + (k + 1)) n with
          | .error e => .error e
          | .ok nd => .ok (some ⟨matchEnd + byteLen A + (k + 1) - pos, some nd⟩, c)
      else
        match record v.monotone c.max (k + 1) (matchEnd + byteLen A) with
        | .error e => .error e
        | .ok mx =>
          scan v m src pos posMax n p silent (matchEnd + byteLen A + (k + 1)) { c with max := mx } := by
  have hrep := byteLen_replicate hm1
  have hs : slice src matchEnd posMax = some (A ++ List.replicate (k + 1) m ++ T) := by
    have := slice_mid X (A ++ List.replicate (k + 1) m ++ T) Z
    rw [hsrc, ← hX, hP, ← hX]
    simp only [byteLen_append, hrep] at this ⊢
    have e : byteLen X + byteLen A + (k + 1) + byteLen T = byteLen X + (byteLen A + (k + 1) + byteLen T) := by omega
    rw [e]; exact this
  have hf : findB m (A ++ List.replicate (k + 1) m ++ T) = some (byteLen A) := by
    rw [List.replicate_succ, List.append_assoc, List.cons_append]
    exact findB_append A _ hA
  have hs2 : slice src (matchEnd + byteLen A + 1) posMax = some (List.replicate k m ++ T) := by
    have := slice_mid (X ++ A ++ [m]) (List.replicate k m ++ T) Z
    have e1 : src = X ++ A ++ [m] ++ (List.replicate k m ++ T) ++ Z := by
      rw [hsrc, List.replicate_succ]; simp
    rw [e1, hP, ← hX]
    simp only [byteLen_append, hrep, byteLen, hm1] at this ⊢
    have e : byteLen X + byteLen A + (k + 1) + byteLen T = byteLen X + byteLen A + (1 + 0) + (k + byteLen T) := by omega
    rw [e]; exact this
  have hr : runLen m (List.replicate k m ++ T) = k := runLen_replicate k T hT
  rw [scan]
  split
  · rename_i h; rw [hs] at h; cases h
  · rename_i s h
    rw [hs] at h; cases h
    split
    · rename_i hf'; rw [hf] at hf'; cases hf'
    · rename_i off hf'
      rw [hf] at hf'; cases hf'
      simp only [hs2, hr]
      have e : 1 + k = k + 1 := by omega
      simp only [e]
      rfl


/-! ## the produced node -/

theorem byteLen_normalise (l : List Char) : byteLen (normalise l) = byteLen l := by
  induction l with
  | nil => rfl
  | cons c r ih =>
    unfold normalise at ih ⊢
    simp only [List.map_cons, byteLen, ih]
    split
    · rename_i h; subst h; rfl
    · rfl

/-- the padding-stripped content: `content[1..content.len() - 1]` when the test succeeds -/
def unpad (content : List Char) : List Char :=
  if padded content = true then content.tail.dropLast else content

theorem padded_split {content : List Char} (h : padded content = true) :
    ∃ mid, content = ' ' :: mid ++ [' '] ∧ mid ≠ [] := by
  unfold padded at h
  simp only [Bool.and_eq_true, beq_iff_eq, decide_eq_true_eq] at h
  obtain ⟨⟨hh, hl⟩, hlen⟩ := h
  have hsp : (' ' : Char).utf8Size = 1 := by decide
  obtain ⟨ys, hys⟩ := List.getLast?_eq_some_iff.mp hl
  subst hys
  cases ys with
  | nil => simp [byteLen, hsp] at hlen
  | cons y ys =>
    simp at hh; subst hh
    refine ⟨ys, rfl, ?_⟩
    intro e; subst e
    simp [byteLen, hsp] at hlen

theorem slice_inner (mid : List Char) :
    slice (' ' :: mid ++ [' ']) 1 (byteLen (' ' :: mid ++ [' ']) - 1) = some mid := by
  have hsp : (' ' : Char).utf8Size = 1 := by decide
  have := slice_mid [' '] mid [' ']
  simp only [byteLen, hsp, byteLen_append, List.cons_append, List.nil_append] at this ⊢
  have e : 1 + (byteLen mid + (1 + 0)) - 1 = 1 + 0 + byteLen mid := by omega
  rw [e]; exact this

theorem unpad_eq {mid : List Char} (h : padded (' ' :: mid ++ [' ']) = true) :
    unpad (' ' :: mid ++ [' ']) = mid := by
  unfold unpad
  rw [if_pos h]
  simp

/-- the node built in real mode -/
def nodeOf (pos p ms me n : Nat) (raw : List Char) : Node :=
  { markerLen := n, rangeStart := pos, rangeEnd := me,
    innerStart := if padded (normalise raw) = true then p + 1 else p,
    innerEnd := if padded (normalise raw) = true then ms - 1 else ms,
    content := unpad (normalise raw) }

/-- inside a frame (`p` and `ms` on char boundaries, `pos ≤ p ≤ ms ≤ me`) the node construction
    never panics -/
theorem mkNode_eq {src X0 R Z' : List Char} {pos p ms me n : Nat}
    (hsrc : src = X0 ++ R ++ Z') (hp : byteLen X0 = p) (hms : ms = p + byteLen R)
    (hpos : pos ≤ p) (hme : ms ≤ me) :
    mkNode src pos p ms me n = .ok (nodeOf pos p ms me n R) := by
  have hs : slice src p ms = some R := by rw [hsrc, hms, ← hp]; exact slice_mid X0 R Z'
  unfold mkNode
  simp only [hs]
  by_cases hpad : padded (normalise R) = true
  · obtain ⟨mid, hmid, hne⟩ := padded_split hpad
    have hb := byteLen_normalise R
    have hsp : (' ' : Char).utf8Size = 1 := by decide
    have hlen : byteLen R = 2 + byteLen mid := by
      rw [← hb, hmid]; simp [byteLen, byteLen_append, hsp]; omega
    have hmpos : 0 < byteLen mid := by
      cases mid with
      | nil => exact absurd rfl hne
      | cons d t => have := Char.utf8Size_pos d; simp [byteLen]; omega
    simp only [hpad, if_true]
    rw [hmid, slice_inner]
    simp only
    rw [if_neg (by omega)]
    unfold finishNode nodeOf
    rw [if_pos (by omega), if_pos (by omega)]
    simp only [hpad, if_true]
    rw [hmid, unpad_eq (hmid ▸ hpad)]
  · simp only [hpad]
    unfold finishNode nodeOf
    simp only [Bool.false_eq_true, if_false]
    rw [if_pos (by omega), if_pos (by omega)]
    simp [unpad, hpad]


/-! ## frames -/

/-- the situation of the scan loop: `src = X0 ++ X1 ++ M ++ Z` with `X0` ending where the Rust
    variable `pos` (`p`) points, `X0 ++ X1` where `match_end` points, `M` the rest up to `pos_max` -/
structure Frame (src : List Char) (pos p posMax matchEnd : Nat) (X0 X1 M Z : List Char) : Prop where
  hsrc : src = X0 ++ X1 ++ M ++ Z
  hp : byteLen X0 = p
  hme : matchEnd = p + byteLen X1
  hpm : posMax = matchEnd + byteLen M
  hpos : pos ≤ p

theorem Frame.next {m : Char} (hm1 : m.utf8Size = 1) {src : List Char} {pos p posMax matchEnd : Nat}
    {X0 X1 A T Z : List Char} {k : Nat}
    (f : Frame src pos p posMax matchEnd X0 X1 (A ++ List.replicate (k + 1) m ++ T) Z) :
    Frame src pos p posMax (matchEnd + byteLen A + (k + 1)) X0
      (X1 ++ A ++ List.replicate (k + 1) m) T Z := by
  have hr := byteLen_replicate hm1 (k + 1)
  refine ⟨?_, f.hp, ?_, ?_, f.hpos⟩
  · rw [f.hsrc]; simp
  · rw [f.hme]; simp only [byteLen_append, hr]; omega
  · rw [f.hpm]; simp only [byteLen_append, hr]; omega

theorem Frame.hit_args {m : Char} (hm1 : m.utf8Size = 1) {src : List Char}
    {pos p posMax matchEnd : Nat} {X0 X1 A T Z : List Char} {k : Nat}
    (f : Frame src pos p posMax matchEnd X0 X1 (A ++ List.replicate (k + 1) m ++ T) Z) :
    src = (X0 ++ X1) ++ (A ++ List.replicate (k + 1) m ++ T) ++ Z ∧ byteLen (X0 ++ X1) = matchEnd ∧
      posMax = matchEnd + byteLen A + (k + 1) + byteLen T := by
  have hr := byteLen_replicate hm1 (k + 1)
  refine ⟨f.hsrc, ?_, ?_⟩
  · rw [byteLen_append, f.hp, f.hme]
  · rw [f.hpm]; simp only [byteLen_append, hr]; omega

/-- the node the real-mode call builds when the closer starts at `ms` -/
theorem Frame.mkNode {m : Char} {src : List Char}
    {pos p posMax matchEnd : Nat} {X0 X1 A T Z : List Char} {k : Nat} (n : Nat)
    (f : Frame src pos p posMax matchEnd X0 X1 (A ++ List.replicate (k + 1) m ++ T) Z) :
    mkNode src pos p (matchEnd + byteLen A) (matchEnd + byteLen A + (k + 1)) n =
      .ok (nodeOf pos p (matchEnd + byteLen A) (matchEnd + byteLen A + (k + 1)) n (X1 ++ A)) := by
  apply mkNode_eq (X0 := X0) (R := X1 ++ A) (Z' := List.replicate (k + 1) m ++ T ++ Z)
  · rw [f.hsrc]; simp
  · exact f.hp
  · rw [f.hme, byteLen_append]; omega
  · exact f.hpos
  · omega

/-! ## no panic -/

theorem scan_total (v : Variant) (m : Char) (hm1 : m.utf8Size = 1) (src : List Char)
    (pos p posMax n : Nat) (silent : Bool) (X0 Z : List Char) :
    ∀ (M X1 : List Char) (matchEnd : Nat) (c : Cache),
      Frame src pos p posMax matchEnd X0 X1 M Z →
      ∃ r, scan v m src pos posMax n p silent matchEnd c = .ok r := by
  intro M
  induction M using runs_induction (m := m) with
  | nomark M hM =>
    intro X1 matchEnd c f
    exact ⟨_, scan_nomarker v m pos n p silent c f.hsrc (by rw [byteLen_append, f.hp, f.hme]) f.hpm hM⟩
  | hit A k T hA hT ih =>
    intro X1 matchEnd c f
    obtain ⟨h1, h2, h3⟩ := f.hit_args hm1
    rw [scan_hit v m hm1 pos n p silent c h1 h2 h3 hA hT]
    have hge : pos ≤ matchEnd := by have := f.hme; have := f.hpos; omega
    split
    · rw [if_neg (by omega)]
      split
      · exact ⟨_, rfl⟩
      · rw [f.mkNode n]; exact ⟨_, rfl⟩
    · obtain ⟨mx, hmx, _⟩ := record_spec v.monotone c.max (k + 1) (matchEnd + byteLen A)
      rw [hmx]
      exact ih _ _ _ (f.next hm1)


theorem boundary_slice {src : List Char} {a b : Nat} (ha : isBoundary src a = true)
    (hb : isBoundary src b = true) (hab : a ≤ b) : ∃ u, slice src a b = some u := by
  unfold isBoundary at ha hb
  cases hda : dropB src a with
  | none => simp [hda] at ha
  | some t =>
    cases hdb : dropB src b with
    | none => simp [hdb] at hb
    | some t2 =>
      obtain ⟨x, hx, hxl⟩ := dropB_some hda
      have e : b = byteLen x + (b - a) := by omega
      rw [hx, e, dropB_append_add] at hdb
      obtain ⟨u, hu, hul⟩ := dropB_some hdb
      refine ⟨u, ?_⟩
      unfold slice
      rw [if_pos hab, hda]
      simp only [Option.bind_some]
      rw [hu, ← hul]; exact takeB_append u t2

theorem slice_boundary {src : List Char} {a b : Nat} {u : List Char} (h : slice src a b = some u) :
    isBoundary src a = true ∧ isBoundary src b = true := by
  obtain ⟨x, z, hs, hx, hu⟩ := slice_some h
  unfold isBoundary
  constructor
  · rw [hs, ← hx, List.append_assoc, dropB_append]; rfl
  · have : b = byteLen (x ++ u) := by rw [byteLen_append]; omega
    rw [hs, this, dropB_append]; rfl

theorem isBoundary_append (x r : List Char) : isBoundary (x ++ r) (byteLen x) = true := by
  unfold isBoundary; rw [dropB_append]; rfl

/-- entry into the loop: after the opener run `mᵏ⁺¹` at `pos` the scan starts in a frame whose
    rest `T` does not begin with the marker -/
theorem run_frame {m : Char} (hm1 : m.utf8Size = 1) {src : List Char} {pos posMax : Nat}
    {rest : List Char} (h : slice src pos posMax = some (m :: rest)) :
    ∃ x T Z, rest = List.replicate (runLen m rest) m ++ T ∧ T.head? ≠ some m ∧ byteLen x = pos ∧
      src = x ++ List.replicate (runLen m rest + 1) m ++ T ++ Z ∧
      Frame src pos (pos + 1 + runLen m rest) posMax (pos + 1 + runLen m rest)
        (x ++ List.replicate (runLen m rest + 1) m) [] T Z := by
  obtain ⟨x, Z, hs, hx, hu⟩ := slice_some h
  obtain ⟨T, hT, hh⟩ := runLen_split m rest
  have hr := byteLen_replicate hm1
  have e : src = x ++ List.replicate (runLen m rest + 1) m ++ T ++ Z := by
    rw [hs, List.replicate_succ]
    conv => lhs; rw [hT]
    simp
  refine ⟨x, T, Z, hT, hh, hx, e, e ▸ ?_, ?_, ?_, ?_, ?_⟩
  · simp
  · rw [byteLen_append, hr, hx]; omega
  · simp [byteLen]
  · rw [← hu, hT]; simp only [byteLen, byteLen_append, hr, hm1]
    rw [← hT]; omega
  · omega

/-- **C01 (code span rule).** With the bounds-aware table read, for EVERY source, EVERY cache
    value (reachable or not) and every invocation with `pos < pos_max` on char boundaries the
    rule returns normally: no slice off a boundary, no `unwrap` on an empty iterator, no table
    index out of range, no subtraction underflow, no failed `debug_assert!`; and the loop
    terminates (`scan` is defined by well-founded recursion on `pos_max - match_end`). -/
theorem codepair_no_panic (v : Variant) (hv : v.checked = true) (m : Char) (hm1 : m.utf8Size = 1)
    (src : List Char) (pos posMax : Nat) (prev silent : Bool) (c : Cache)
    (hb1 : isBoundary src pos = true) (hb2 : isBoundary src posMax = true) (hlt : pos < posMax) :
    ∃ r, run v m src pos posMax prev silent c = .ok r := by
  obtain ⟨u, hu⟩ := boundary_slice hb1 hb2 (Nat.le_of_lt hlt)
  obtain ⟨_, _, _, hx, hul⟩ := slice_some hu
  unfold run
  cases u with
  | nil => simp [byteLen] at hul; omega
  | cons ch rest =>
    simp only [hu]
    by_cases hch : ch = m
    · subst hch
      obtain ⟨x, T, Z, _, _, _, _, f⟩ := run_frame hm1 hu
      rw [if_neg (by simp)]
      split
      · exact ⟨_, rfl⟩
      · split
        · exact ⟨_, rfl⟩
        · split
          · simp only [lookup, hv, if_true]
            split
            · exact ⟨_, rfl⟩
            · exact scan_total v ch hm1 src pos _ posMax _ silent _ Z T [] _ c f
          · exact scan_total v ch hm1 src pos _ posMax _ silent _ Z T [] _ c f
    · rw [if_pos hch]; exact ⟨_, rfl⟩

/-- a call the parser may make: `pos < pos_max`, both on char boundaries of `src` -/
def Call.Valid (src : List Char) (k : Call) : Prop :=
  isBoundary src k.pos = true ∧ isBoundary src k.posMax = true ∧ k.pos < k.posMax

/-- **C01.** Any sequence of valid calls — any positions, any mixture of `pos_max` values,
    silent or real, in any order — against one cache, from ANY initial cache: no call panics. -/
theorem runSeq_no_panic (v : Variant) (hv : v.checked = true) (m : Char) (hm1 : m.utf8Size = 1)
    (src : List Char) (calls : List Call) (hc : ∀ k ∈ calls, k.Valid src) (c : Cache) :
    ∃ r, runSeq v m src calls c = .ok r := by
  induction calls generalizing c with
  | nil => exact ⟨_, rfl⟩
  | cons k ks ih =>
    obtain ⟨h1, h2, h3⟩ := hc k (by simp)
    obtain ⟨⟨r, c'⟩, hr⟩ := codepair_no_panic v hv m hm1 src k.pos k.posMax k.prevIsMarker k.silent c h1 h2 h3
    obtain ⟨⟨rs, c''⟩, hrs⟩ := ih (fun k' hk' => hc k' (by simp [hk'])) c'
    exact ⟨(r :: rs, c''), by simp [runSeq, runCall, hr, hrs]⟩



/-! ## look-ahead and real mode -/

/-- forget the node: verdict (`None` / `Some(len)`) and cache -/
def strip (r : Option Outcome × Cache) : Option Nat × Cache := (r.1.map (·.len), r.2)

theorem scan_silent_real (v : Variant) (m : Char) (hm1 : m.utf8Size = 1) (src : List Char)
    (pos p posMax n : Nat) (X0 Z : List Char) :
    ∀ (M X1 : List Char) (matchEnd : Nat) (c : Cache),
      Frame src pos p posMax matchEnd X0 X1 M Z →
      (scan v m src pos posMax n p true matchEnd c).map strip =
        (scan v m src pos posMax n p false matchEnd c).map strip := by
  intro M
  induction M using runs_induction (m := m) with
  | nomark M hM =>
    intro X1 matchEnd c f
    have hX : byteLen (X0 ++ X1) = matchEnd := by rw [byteLen_append, f.hp, f.hme]
    rw [scan_nomarker v m pos n p true c f.hsrc hX f.hpm hM,
      scan_nomarker v m pos n p false c f.hsrc hX f.hpm hM]
  | hit A k T hA hT ih =>
    intro X1 matchEnd c f
    obtain ⟨h1, h2, h3⟩ := f.hit_args hm1
    rw [scan_hit v m hm1 pos n p true c h1 h2 h3 hA hT, scan_hit v m hm1 pos n p false c h1 h2 h3 hA hT]
    split
    · split
      · rfl
      · rw [f.mkNode n]; rfl
    · obtain ⟨mx, hmx, _⟩ := record_spec v.monotone c.max (k + 1) (matchEnd + byteLen A)
      rw [hmx]
      exact ih _ _ _ (f.next hm1)

/-- **C16 (code span rule).** From the same arguments and the same cache, look-ahead mode and
    real mode give the same verdict, the same extent and leave the same cache — for every source,
    every cache, every position and `pos_max` (if the call panics, it panics in both modes):
    `silent` only suppresses the construction of the node. Holds for every variant of the rule. -/
theorem codepair_silent_real (v : Variant) (m : Char) (hm1 : m.utf8Size = 1) (src : List Char)
    (pos posMax : Nat) (prev : Bool) (c : Cache) :
    (run v m src pos posMax prev true c).map strip =
      (run v m src pos posMax prev false c).map strip := by
  unfold run
  cases hu : slice src pos posMax with
  | none => rfl
  | some u =>
    cases u with
    | nil => rfl
    | cons ch rest =>
      simp only
      by_cases hch : ch = m
      · subst hch
        obtain ⟨x, T, Z, _, _, _, _, f⟩ := run_frame hm1 hu
        have key := scan_silent_real v ch hm1 src pos _ posMax (1 + runLen ch rest) _ Z T [] _ c f
        simp only [ne_eq, not_true_eq_false, ite_false]
        split
        · rfl
        · split
          · rfl
          · split
            · split
              · rfl
              · split
                · rfl
                · exact key
            · exact key
      · rw [if_pos hch, if_pos hch]


/-! ## marker runs by position -/

/-- the character starting at byte offset `i` (`none` at the end or inside a character) -/
def charAt (src : List Char) (i : Nat) : Option Char := (dropB src i).bind List.head?

theorem charAt_append_add (x r : List Char) (j : Nat) :
    charAt (x ++ r) (byteLen x + j) = charAt r j := by
  unfold charAt; rw [dropB_append_add]

theorem charAt_zero (r : List Char) : charAt r 0 = r.head? := by
  unfold charAt; rw [dropB_zero]; rfl

theorem charAt_replicate {m : Char} (hm1 : m.utf8Size = 1) (k j : Nat) (t : List Char) (h : j < k) :
    charAt (List.replicate k m ++ t) j = some m := by
  have e : List.replicate k m = List.replicate j m ++ List.replicate (k - j) m := by
    rw [List.replicate_append_replicate]; congr 1; omega
  have hr := byteLen_replicate hm1 j
  have key := charAt_append_add (List.replicate j m) (List.replicate (k - j) m ++ t) 0
  rw [hr, Nat.add_zero, charAt_zero] at key
  rw [e, List.append_assoc, key]
  have : k - j = (k - j - 1) + 1 := by omega
  rw [this, List.replicate_succ]; rfl

/-- a character that starts inside the part `a` belongs to `a` -/
theorem charAt_mem (a r : List Char) (j : Nat) (h : j < byteLen a) (c : Char)
    (hc : charAt (a ++ r) j = some c) : c ∈ a := by
  induction a generalizing j with
  | nil => simp [byteLen] at h
  | cons d a ih =>
    cases j with
    | zero => rw [charAt_zero] at hc; simp at hc; simp [hc]
    | succ j =>
      unfold charAt at hc
      rw [List.cons_append, dropB_cons _ _ _ (by omega)] at hc
      split at hc
      · have : c ∈ a := ih (j + 1 - d.utf8Size) (by simp [byteLen] at h; omega) hc
        simp [this]
      · simp at hc

/-- the byte before the end of a character `a` is the start of a character only if `a` is one
    byte wide, and then that character is `a` -/
theorem charAt_before (y : List Char) (a : Char) (r : List Char) (c : Char)
    (h : charAt (y ++ a :: r) (byteLen y + a.utf8Size - 1) = some c) : c = a := by
  have hp := Char.utf8Size_pos a
  have e : byteLen y + a.utf8Size - 1 = byteLen y + (a.utf8Size - 1) := by omega
  rw [e, charAt_append_add] at h
  by_cases h1 : a.utf8Size = 1
  · rw [h1, charAt_zero] at h; simp at h; exact h.symm
  · unfold charAt at h
    rw [dropB_cons _ _ _ (by omega), if_neg (by omega)] at h
    simp at h

/-- a maximal run of `l` markers starts at byte `s` of `src[..posMax]` -/
def IsRun (m : Char) (src : List Char) (posMax s l : Nat) : Prop :=
  0 < l ∧ s + l ≤ posMax ∧ (∀ i, s ≤ i → i < s + l → charAt src i = some m) ∧
    ¬ (s + l < posMax ∧ charAt src (s + l) = some m) ∧
    ¬ (0 < s ∧ charAt src (s - 1) = some m)

/-- the run the loop stops at / steps over in a frame is a maximal run of `src[..posMax]` -/
theorem Frame.isRun {m : Char} (hm1 : m.utf8Size = 1) {src : List Char}
    {pos p posMax matchEnd : Nat} {X0 X1 A T Z : List Char} {k : Nat}
    (f : Frame src pos p posMax matchEnd X0 X1 (A ++ List.replicate (k + 1) m ++ T) Z)
    (hA : m ∉ A) (hT : T.head? ≠ some m)
    (hM : (A ++ List.replicate (k + 1) m ++ T).head? ≠ some m) :
    IsRun m src posMax (matchEnd + byteLen A) (k + 1) := by
  obtain ⟨h1, h2, h3⟩ := f.hit_args hm1
  have hsrc : src = (X0 ++ X1 ++ A) ++ (List.replicate (k + 1) m ++ (T ++ Z)) := by rw [h1]; simp
  have hlen : byteLen (X0 ++ X1 ++ A) = matchEnd + byteLen A := by
    rw [byteLen_append, h2]
  refine ⟨by omega, by omega, ?_, ?_, ?_⟩
  · intro i hi1 hi2
    have e : i = byteLen (X0 ++ X1 ++ A) + (i - (matchEnd + byteLen A)) := by omega
    rw [hsrc, e, charAt_append_add]
    exact charAt_replicate hm1 _ _ _ (by omega)
  · rintro ⟨hlt, hc⟩
    have hsrc' : src = (X0 ++ X1 ++ A ++ List.replicate (k + 1) m) ++ (T ++ Z) := by rw [h1]; simp
    have hlen' : byteLen (X0 ++ X1 ++ A ++ List.replicate (k + 1) m) = matchEnd + byteLen A + (k + 1) := by
      rw [byteLen_append, hlen, byteLen_replicate hm1]
    have e : matchEnd + byteLen A + (k + 1) = byteLen (X0 ++ X1 ++ A ++ List.replicate (k + 1) m) + 0 := by omega
    rw [hsrc', e, charAt_append_add, charAt_zero] at hc
    cases T with
    | nil => simp [byteLen] at h3; omega
    | cons t T => simp at hc hT; exact hT hc
  · rintro ⟨_, hc⟩
    obtain ⟨ys, hys⟩ : ∃ ys, A = ys ++ [A.getLast (by
        intro e; subst e; simp [List.replicate_succ] at hM)] :=
      ⟨A.dropLast, (List.dropLast_concat_getLast _).symm⟩
    generalize A.getLast _ = a at hys
    have ha : a ≠ m := by
      intro e; apply hA; rw [hys, e]; simp
    have hsrc2 : src = (X0 ++ X1 ++ ys) ++ a :: (List.replicate (k + 1) m ++ (T ++ Z)) := by
      rw [hsrc, hys]; simp
    have hb : matchEnd + byteLen A - 1 = byteLen (X0 ++ X1 ++ ys) + a.utf8Size - 1 := by
      rw [byteLen_append, h2, hys, byteLen_append]; simp [byteLen]; omega
    rw [hb, hsrc2] at hc
    exact ha (charAt_before _ _ _ _ hc).symm


theorem Frame.content_slice {m : Char} {src : List Char}
    {pos p posMax matchEnd : Nat} {X0 X1 A T Z : List Char} {k : Nat}
    (f : Frame src pos p posMax matchEnd X0 X1 (A ++ List.replicate (k + 1) m ++ T) Z) :
    slice src p (matchEnd + byteLen A) = some (X1 ++ A) := by
  have := slice_mid X0 (X1 ++ A) (List.replicate (k + 1) m ++ T ++ Z)
  rw [f.hp, byteLen_append] at this
  have e : src = X0 ++ (X1 ++ A) ++ (List.replicate (k + 1) m ++ T ++ Z) := by rw [f.hsrc]; simp
  rw [e, f.hme]
  have e2 : p + byteLen X1 + byteLen A = p + (byteLen X1 + byteLen A) := by omega
  rw [e2]; exact this

theorem head_of_hit {m : Char} {A T : List Char} {k : Nat}
    (hM : (A ++ List.replicate (k + 1) m ++ T).head? ≠ some m) : A ≠ [] := by
  intro e; subst e; simp [List.replicate_succ] at hM

/-- the loop found a closer: it is a maximal run of the opener's length, the verdict and the node
    are as computed from it, and only the table changed (growing, in the monotone variant) -/
theorem scan_some (v : Variant) (m : Char) (hm1 : m.utf8Size = 1) (src : List Char)
    (pos p posMax n : Nat) (silent : Bool) (X0 Z : List Char) :
    ∀ (M X1 : List Char) (matchEnd : Nat) (c : Cache) (o : Outcome) (c' : Cache),
      Frame src pos p posMax matchEnd X0 X1 M Z → M.head? ≠ some m →
      scan v m src pos posMax n p silent matchEnd c = .ok (some o, c') →
      ∃ ms R, matchEnd ≤ ms ∧ IsRun m src posMax ms n ∧ slice src p ms = some R ∧
        o = ⟨ms + n - pos, if silent = true then none else some (nodeOf pos p ms (ms + n) n R)⟩ ∧
        c' = { c with max := c'.max } ∧
        (v.monotone = true → ∀ i, c.max.getD i 0 ≤ c'.max.getD i 0) := by
  intro M
  induction M using runs_induction (m := m) with
  | nomark M hM =>
    intro X1 matchEnd c o c' f _ h
    rw [scan_nomarker v m pos n p silent c f.hsrc (by rw [byteLen_append, f.hp, f.hme]) f.hpm hM] at h
    cases h
  | hit A k T hA hT ih =>
    intro X1 matchEnd c o c' f hM h
    obtain ⟨h1, h2, h3⟩ := f.hit_args hm1
    rw [scan_hit v m hm1 pos n p silent c h1 h2 h3 hA hT] at h
    have hge : pos ≤ matchEnd := by have := f.hme; have := f.hpos; omega
    split at h
    · rename_i hk
      rw [if_neg (by omega)] at h
      refine ⟨matchEnd + byteLen A, X1 ++ A, by omega, hk ▸ f.isRun hm1 hA hT hM, f.content_slice, ?_⟩
      split at h
      · rename_i hs
        cases h
        refine ⟨by simp [hs, ← hk], rfl, fun _ _ => Nat.le_refl _⟩
      · rename_i hs
        rw [f.mkNode n] at h
        cases h
        refine ⟨by simp [hs, ← hk], rfl, fun _ _ => Nat.le_refl _⟩
    · obtain ⟨mx, hmx, hspec⟩ := record_spec v.monotone c.max (k + 1) (matchEnd + byteLen A)
      rw [hmx] at h
      obtain ⟨ms, R, hms, hrun, hsl, ho, hc', hmono⟩ := ih _ _ _ _ _ (f.next hm1) hT h
      refine ⟨ms, R, by omega, hrun, hsl, ho, ?_, ?_⟩
      · rw [hc']
      · intro hv i
        have := hmono hv i
        simp only at this
        refine Nat.le_trans ?_ this
        rw [hspec i, hv]
        by_cases hi : i = k + 1
        · subst hi
          rw [if_pos rfl]
          by_cases hh : matchEnd + byteLen A ≤ c.max.getD (k + 1) 0
          · rw [if_pos ⟨rfl, hh⟩]; exact Nat.le_refl _
          · rw [if_neg (fun x => hh x.2)]; omega
        · rw [if_neg hi]; exact Nat.le_refl _


theorem record_mono {mx mx' : List Nat} {l s : Nat}
    (hspec : ∀ i, mx'.getD i 0 =
      if i = l then (if true = true ∧ s ≤ mx.getD l 0 then mx.getD l 0 else s) else mx.getD i 0) :
    (∀ i, mx.getD i 0 ≤ mx'.getD i 0) ∧ s ≤ mx'.getD l 0 := by
  constructor
  · intro i
    rw [hspec i]
    by_cases hi : i = l
    · subst hi
      rw [if_pos rfl]
      by_cases hh : s ≤ mx.getD i 0
      · rw [if_pos ⟨rfl, hh⟩]; exact Nat.le_refl _
      · rw [if_neg (fun x => hh x.2)]; omega
    · rw [if_neg hi]; exact Nat.le_refl _
  · rw [hspec l, if_pos rfl]
    by_cases hh : s ≤ mx.getD l 0
    · rw [if_pos ⟨rfl, hh⟩]; exact hh
    · rw [if_neg (fun x => hh x.2)]; exact Nat.le_refl _

/-- the loop ran to the end: no maximal run from `match_end` on has the opener's length, every
    one of them is recorded in the table (monotone variant), and the cache is updated as in
    `complete` / `markInside` -/
theorem scan_none (v : Variant) (m : Char) (hm1 : m.utf8Size = 1) (src : List Char)
    (pos p posMax n : Nat) (silent : Bool) (X0 Z : List Char) :
    ∀ (M X1 : List Char) (matchEnd : Nat) (c c' : Cache),
      Frame src pos p posMax matchEnd X0 X1 M Z → M.head? ≠ some m →
      scan v m src pos posMax n p silent matchEnd c = .ok (none, c') →
      ∃ mx, c' = markInside v pos p (complete v pos posMax { c with max := mx }) ∧
        (v.monotone = true → ∀ i, c.max.getD i 0 ≤ mx.getD i 0) ∧
        (∀ s l, IsRun m src posMax s l → matchEnd ≤ s →
          l ≠ n ∧ (v.monotone = true → s ≤ mx.getD l 0)) := by
  intro M
  induction M using runs_induction (m := m) with
  | nomark M hM =>
    intro X1 matchEnd c c' f _ h
    have hX : byteLen (X0 ++ X1) = matchEnd := by rw [byteLen_append, f.hp, f.hme]
    rw [scan_nomarker v m pos n p silent c f.hsrc hX f.hpm hM] at h
    cases h
    refine ⟨c.max, rfl, fun _ _ => Nat.le_refl _, ?_⟩
    intro s l ⟨hl, hle, hall, _, _⟩ hs
    exfalso
    have hc := hall s (Nat.le_refl _) (by omega)
    have e : s = byteLen (X0 ++ X1) + (s - matchEnd) := by omega
    have hsrc : src = (X0 ++ X1) ++ (M ++ Z) := by rw [f.hsrc]; simp
    rw [hsrc, e, charAt_append_add] at hc
    exact hM (charAt_mem M Z _ (by have := f.hpm; omega) m hc)
  | hit A k T hA hT ih =>
    intro X1 matchEnd c c' f hM h
    obtain ⟨h1, h2, h3⟩ := f.hit_args hm1
    rw [scan_hit v m hm1 pos n p silent c h1 h2 h3 hA hT] at h
    have hge : pos ≤ matchEnd := by have := f.hme; have := f.hpos; omega
    split at h
    · rw [if_neg (by omega)] at h
      split at h
      · cases h
      · rw [f.mkNode n] at h; cases h
    · rename_i hk
      obtain ⟨mx1, hmx, hspec⟩ := record_spec v.monotone c.max (k + 1) (matchEnd + byteLen A)
      rw [hmx] at h
      obtain ⟨mx, hc', hmono, hruns⟩ := ih _ _ _ _ (f.next hm1) hT h
      refine ⟨mx, hc', ?_, ?_⟩
      · intro hv i
        rw [hv] at hspec
        exact Nat.le_trans ((record_mono hspec).1 i) (hmono hv i)
      · intro s l hr hs
        obtain ⟨hl, hle, hall, hright, hleft⟩ := hr
        obtain ⟨_, _, fall, fright, _⟩ := f.isRun hm1 hA hT hM
        have hsrc : src = (X0 ++ X1) ++ (A ++ (List.replicate (k + 1) m ++ T ++ Z)) := by
          rw [f.hsrc]; simp
        by_cases c1 : s < matchEnd + byteLen A
        · exfalso
          have hc := hall s (Nat.le_refl _) (by omega)
          have e : s = byteLen (X0 ++ X1) + (s - matchEnd) := by omega
          rw [hsrc, e, charAt_append_add] at hc
          exact hA (charAt_mem A _ _ (by omega) m hc)
        · by_cases c2 : s = matchEnd + byteLen A
          · have hlk : l = k + 1 := by
              by_cases c3 : l < k + 1
              · exfalso; exact hright ⟨by omega, fall (s + l) (by omega) (by omega)⟩
              · by_cases c4 : k + 1 < l
                · exfalso
                  exact fright ⟨by omega, hall (matchEnd + byteLen A + (k + 1)) (by omega) (by omega)⟩
                · omega
            subst hlk
            refine ⟨hk, fun hv => ?_⟩
            rw [hv] at hspec
            have := (record_mono hspec).2
            have := hmono hv (k + 1)
            simp only at this
            omega
          · by_cases c5 : s < matchEnd + byteLen A + (k + 1)
            · exfalso
              exact hleft ⟨by omega, fall (s - 1) (by omega) (by omega)⟩
            · exact hruns s l ⟨hl, hle, hall, hright, hleft⟩ (by omega)



/-! ## the rule once the first character is known -/

theorem run_marker (v : Variant) (m : Char) {src : List Char} {pos posMax : Nat} (prev silent : Bool)
    (c : Cache) {rest : List Char} (h : slice src pos posMax = some (m :: rest)) :
    run v m src pos posMax prev silent c =
      if v.inside = false ∧ prev = true then .ok (none, c)
      else if v.inside = true ∧ c.insideFailed.contains pos = true then .ok (none, c)
      else if consultable v pos posMax c = true then
        match lookup v.checked c.max (1 + runLen m rest) with
        | .error e => .error e
        | .ok x =>
          if x ≤ pos then .ok (none, markInside v pos (pos + 1 + runLen m rest) c)
          else scan v m src pos posMax (1 + runLen m rest) (pos + 1 + runLen m rest)
                 silent (pos + 1 + runLen m rest) c
      else scan v m src pos posMax (1 + runLen m rest) (pos + 1 + runLen m rest)
             silent (pos + 1 + runLen m rest) c := by
  unfold run
  simp only [h, ne_eq, not_true_eq_false, ite_false]
  rfl

theorem run_other (v : Variant) (m : Char) {src : List Char} {pos posMax : Nat} (prev silent : Bool)
    (c : Cache) {ch : Char} {rest : List Char} (h : slice src pos posMax = some (ch :: rest))
    (hch : ch ≠ m) : run v m src pos posMax prev silent c = .ok (none, c) := by
  unfold run
  simp only [h, hch, ne_eq, not_false_eq_true, ite_true]

/-- the ways a call can return -/
inductive Path (v : Variant) (m : Char) (src : List Char) (pos posMax : Nat) (prev silent : Bool)
    (c : Cache) (r : Option Outcome) (c' : Cache) : Prop
  /-- the first character is not the marker -/
  | other (ch : Char) (rest : List Char) : slice src pos posMax = some (ch :: rest) → ch ≠ m →
      r = none → c' = c → Path v m src pos posMax prev silent c r c'
  /-- (before the repair) the trailing text of the tree ends in the marker -/
  | prevGuard (rest : List Char) : slice src pos posMax = some (m :: rest) →
      v.inside = false → prev = true → r = none → c' = c → Path v m src pos posMax prev silent c r c'
  /-- the position is remembered as lying inside a failed opener -/
  | inside (rest : List Char) : slice src pos posMax = some (m :: rest) →
      v.inside = true → c.insideFailed.contains pos = true → r = none → c' = c →
      Path v m src pos posMax prev silent c r c'
  /-- the closer table says there is no closer -/
  | consult (rest : List Char) (x : Nat) : slice src pos posMax = some (m :: rest) →
      ¬ (v.inside = true ∧ c.insideFailed.contains pos = true) →
      consultable v pos posMax c = true → lookup v.checked c.max (1 + runLen m rest) = .ok x →
      x ≤ pos → r = none → c' = markInside v pos (pos + 1 + runLen m rest) c →
      Path v m src pos posMax prev silent c r c'
  /-- the loop ran -/
  | scanned (rest : List Char) : slice src pos posMax = some (m :: rest) →
      ¬ (v.inside = true ∧ c.insideFailed.contains pos = true) →
      scan v m src pos posMax (1 + runLen m rest) (pos + 1 + runLen m rest) silent
        (pos + 1 + runLen m rest) c = .ok (r, c') →
      Path v m src pos posMax prev silent c r c'

theorem run_path {v : Variant} {m : Char} {src : List Char} {pos posMax : Nat} {prev silent : Bool}
    {c : Cache} {r : Option Outcome} {c' : Cache}
    (h : run v m src pos posMax prev silent c = .ok (r, c')) :
    Path v m src pos posMax prev silent c r c' := by
  cases hu : slice src pos posMax with
  | none => simp [run, hu] at h
  | some u =>
    cases u with
    | nil => simp [run, hu] at h
    | cons ch rest =>
      by_cases hch : ch = m
      · subst hch
        rw [run_marker v ch prev silent c hu] at h
        split at h
        · rename_i hc; cases h; exact .prevGuard rest hu hc.1 hc.2 rfl rfl
        · split at h
          · rename_i hc; cases h; exact .inside rest hu hc.1 hc.2 rfl rfl
          · rename_i hni
            split at h
            · rename_i hcons
              split at h
              · cases h
              · rename_i x hx
                split at h
                · rename_i hle; cases h; exact .consult rest x hu hni hcons hx hle rfl rfl
                · exact .scanned rest hu hni h
            · exact .scanned rest hu hni h
      · rw [run_other v m prev silent c hu hch] at h
        cases h; exact .other ch rest hu hch rfl rfl

theorem charAt_boundary {src : List Char} {i : Nat} {ch : Char} (h : charAt src i = some ch) :
    isBoundary src (i + ch.utf8Size) = true := by
  unfold charAt at h
  cases hd : dropB src i with
  | none => simp [hd] at h
  | some t =>
    cases t with
    | nil => simp [hd] at h
    | cons d t =>
      simp [hd] at h; subst h
      obtain ⟨x, hx, hxl⟩ := dropB_some hd
      have : i + d.utf8Size = byteLen (x ++ [d]) := by simp [byteLen_append, byteLen, hxl]
      rw [this, hx, show x ++ d :: t = (x ++ [d]) ++ t by simp]
      exact isBoundary_append _ _

/-- **C01 (progress).** `Some(len)` ⇒ the construct spans at least the opener and the closer
    (`len ≥ 2`), stays inside `pos_max`, and `pos + len` is a char boundary — so the inline loop's
    measure `pos_max - pos` decreases and the next slice is legal. Every variant, every cache. -/
theorem codepair_progress (v : Variant) (m : Char) (hm1 : m.utf8Size = 1) (src : List Char)
    (pos posMax : Nat) (prev silent : Bool) (c : Cache) (o : Outcome) (c' : Cache)
    (h : run v m src pos posMax prev silent c = .ok (some o, c')) :
    2 ≤ o.len ∧ pos + o.len ≤ posMax ∧ isBoundary src (pos + o.len) = true := by
  cases run_path h with
  | other _ _ _ _ hr _ => cases hr
  | prevGuard _ _ _ _ hr _ => cases hr
  | inside _ _ _ _ hr _ => cases hr
  | consult _ _ _ _ _ _ _ hr _ => cases hr
  | scanned rest hu _ hs =>
    obtain ⟨x, T, Z, _, hT, _, _, f⟩ := run_frame hm1 hu
    obtain ⟨ms, R, hms, hrun, _, ho, _, _⟩ :=
      scan_some v m hm1 src pos _ posMax _ silent _ Z T [] _ c o c' f hT hs
    obtain ⟨hl, hle, hall, _, _⟩ := hrun
    have hb := charAt_boundary (hall (ms + (1 + runLen m rest) - 1) (by omega) (by omega))
    rw [hm1] at hb
    subst ho
    simp only
    refine ⟨by omega, by omega, ?_⟩
    have e : pos + (ms + (1 + runLen m rest) - pos) = ms + (1 + runLen m rest) - 1 + 1 := by omega
    rw [e]; exact hb



/-! ## the closer table is sound -/

/-- **Cache invariant.** Once `scanned`, every maximal marker run — maximal as seen with
    `pos_max = scanned_to` — that starts after `scanned_from` is recorded: the entry for its
    length is at or beyond its start. -/
def CacheInv (m : Char) (src : List Char) (c : Cache) : Prop :=
  c.scanned = true →
    ∀ s l, IsRun m src c.scannedTo s l → c.scannedFrom < s → s ≤ c.max.getD l 0

/-- `pos_max = q` does not cut a marker run in two -/
def NoCut (m : Char) (src : List Char) (q : Nat) : Prop :=
  ¬ (0 < q ∧ charAt src (q - 1) = some m ∧ charAt src q = some m)

theorem CacheInv.empty (m : Char) (src : List Char) : CacheInv m src Cache.empty := by
  intro h; cases h

theorem CacheInv.of_eq {m : Char} {src : List Char} {c c' : Cache} (h : CacheInv m src c)
    (h1 : c'.scanned = c.scanned) (h2 : c'.scannedFrom = c.scannedFrom)
    (h3 : c'.scannedTo = c.scannedTo) (h4 : ∀ i, c.max.getD i 0 ≤ c'.max.getD i 0) :
    CacheInv m src c' := by
  intro hs s l hr hf
  rw [h3] at hr; rw [h2] at hf
  exact Nat.le_trans (h (h1 ▸ hs) s l hr hf) (h4 l)

theorem markInside_fields (v : Variant) (a b : Nat) (c : Cache) :
    (markInside v a b c).scanned = c.scanned ∧ (markInside v a b c).scannedFrom = c.scannedFrom ∧
    (markInside v a b c).scannedTo = c.scannedTo ∧ (markInside v a b c).max = c.max := by
  unfold markInside; split <;> simp

theorem CacheInv.markInside {m : Char} {src : List Char} {c : Cache} (h : CacheInv m src c)
    (v : Variant) (a b : Nat) : CacheInv m src (markInside v a b c) := by
  obtain ⟨h1, h2, h3, h4⟩ := markInside_fields v a b c
  exact h.of_eq h1 h2 h3 (fun i => by rw [h4]; exact Nat.le_refl _)

/-- the positions of the opener run hold markers -/
theorem opener_chars {m : Char} (hm1 : m.utf8Size = 1) {src x T Z : List Char} {k pos : Nat}
    (hsrc : src = x ++ List.replicate (k + 1) m ++ T ++ Z) (hx : byteLen x = pos) :
    ∀ i, pos ≤ i → i < pos + (k + 1) → charAt src i = some m := by
  intro i h1 h2
  have e : i = byteLen x + (i - pos) := by omega
  rw [hsrc, e, List.append_assoc, List.append_assoc, charAt_append_add]
  exact charAt_replicate hm1 _ _ _ (by omega)

/-- **The invariant is preserved by every call**: any position, any `pos_max`, silent or real,
    from any cache satisfying it (in particular along every call sequence from the empty cache). -/
theorem cacheInv_run (v : Variant) (hr : v.ranged = true) (hmo : v.monotone = true) (m : Char)
    (hm1 : m.utf8Size = 1) (src : List Char) (pos posMax : Nat) (prev silent : Bool) (c : Cache)
    (r : Option Outcome) (c' : Cache) (hinv : CacheInv m src c)
    (h : run v m src pos posMax prev silent c = .ok (r, c')) : CacheInv m src c' := by
  cases run_path h with
  | other _ _ _ _ _ hc => rw [hc]; exact hinv
  | prevGuard _ _ _ _ _ hc => rw [hc]; exact hinv
  | inside _ _ _ _ _ hc => rw [hc]; exact hinv
  | consult _ _ _ _ _ _ _ _ hc => rw [hc]; exact hinv.markInside _ _ _
  | scanned rest hu _ hs =>
    obtain ⟨x, T, Z, _, hT, hx, hsrc, f⟩ := run_frame hm1 hu
    cases r with
    | some o =>
      obtain ⟨ms, R, _, _, _, _, hc', hmono⟩ :=
        scan_some v m hm1 src pos _ posMax _ silent _ Z T [] _ c o c' f hT hs
      rw [hc']
      exact hinv.of_eq rfl rfl rfl (hmono hmo)
    | none =>
      obtain ⟨mx, hc', hmono, hruns⟩ :=
        scan_none v m hm1 src pos _ posMax _ silent _ Z T [] _ c c' f hT hs
      rw [hc']
      apply CacheInv.markInside
      unfold complete
      rw [if_pos hr]
      split
      · intro _ s l hrun hf
        simp only at hrun hf
        by_cases hs1 : pos + 1 + runLen m rest ≤ s
        · exact (hruns s l hrun hs1).2 hmo
        · exfalso
          exact hrun.2.2.2.2 ⟨by omega, opener_chars hm1 hsrc hx (s - 1) (by omega) (by omega)⟩
      · exact hinv.of_eq rfl rfl rfl (hmono hmo)

theorem IsRun.extend {m : Char} {src : List Char} {q q' s l : Nat} (h : IsRun m src q s l)
    (hq : q ≤ q') (hcut : q = q' ∨ NoCut m src q) : IsRun m src q' s l := by
  obtain ⟨hl, hle, hall, hright, hleft⟩ := h
  refine ⟨hl, by omega, hall, ?_, hleft⟩
  rintro ⟨h1, h2⟩
  by_cases hlt : s + l < q
  · exact hright ⟨hlt, h2⟩
  · have e : s + l = q := by omega
    rcases hcut with hcut | hcut
    · omega
    · apply hcut
      refine ⟨by omega, ?_, e ▸ h2⟩
      exact hall (q - 1) (by omega) (by omega)

/-- **The closer table never changes the verdict.** Under the invariant, whenever the consult
    branch answers `None` — the cache is `scanned`, `scanned_from ≤ pos`, `pos_max ≤ scanned_to`
    and the entry for the opener's length is `≤ pos` — the loop itself, run from the same
    `(pos, pos_max)` on ANY cache `c0`, finds no closer either. The only hypothesis about
    `pos_max`: it equals `scanned_to` or does not cut a marker run in two. -/
theorem cache_sound (v : Variant) (hr : v.ranged = true) (m : Char) (hm1 : m.utf8Size = 1)
    (src : List Char) (pos posMax : Nat) (c : Cache) (rest : List Char)
    (hinv : CacheInv m src c) (hu : slice src pos posMax = some (m :: rest))
    (hcons : consultable v pos posMax c = true)
    (hx : c.max.getD (1 + runLen m rest) 0 ≤ pos)
    (hcut : posMax = c.scannedTo ∨ NoCut m src posMax) (silent : Bool) (c0 : Cache) :
    ∃ c1, scan v m src pos posMax (1 + runLen m rest) (pos + 1 + runLen m rest) silent
        (pos + 1 + runLen m rest) c0 = .ok (none, c1) := by
  obtain ⟨x, T, Z, _, hT, _, _, f⟩ := run_frame hm1 hu
  obtain ⟨⟨r, c1⟩, hs⟩ := scan_total v m hm1 src pos _ posMax (1 + runLen m rest) silent _ Z T [] _ c0 f
  cases r with
  | none => exact ⟨c1, hs⟩
  | some o =>
    exfalso
    obtain ⟨ms, R, hms, hrun, _, _, _, _⟩ :=
      scan_some v m hm1 src pos _ posMax _ silent _ Z T [] _ c0 o c1 f hT hs
    unfold consultable at hcons
    simp only [hr, Bool.not_true, Bool.false_or, Bool.and_eq_true, decide_eq_true_eq] at hcons
    obtain ⟨hsc, hfrom, hto⟩ := hcons
    have := hinv hsc ms _ (hrun.extend hto hcut) (by omega)
    omega


/-- the loop's verdict (and node) does not depend on the cache it writes to -/
theorem scan_verdict_indep (v : Variant) (m : Char) (hm1 : m.utf8Size = 1) (src : List Char)
    (pos p posMax n : Nat) (silent : Bool) (X0 Z : List Char) :
    ∀ (M X1 : List Char) (matchEnd : Nat) (c d : Cache),
      Frame src pos p posMax matchEnd X0 X1 M Z →
      (scan v m src pos posMax n p silent matchEnd c).map Prod.fst =
        (scan v m src pos posMax n p silent matchEnd d).map Prod.fst := by
  intro M
  induction M using runs_induction (m := m) with
  | nomark M hM =>
    intro X1 matchEnd c d f
    have hX : byteLen (X0 ++ X1) = matchEnd := by rw [byteLen_append, f.hp, f.hme]
    rw [scan_nomarker v m pos n p silent c f.hsrc hX f.hpm hM,
      scan_nomarker v m pos n p silent d f.hsrc hX f.hpm hM]
    rfl
  | hit A k T hA hT ih =>
    intro X1 matchEnd c d f
    obtain ⟨h1, h2, h3⟩ := f.hit_args hm1
    rw [scan_hit v m hm1 pos n p silent c h1 h2 h3 hA hT, scan_hit v m hm1 pos n p silent d h1 h2 h3 hA hT]
    split
    · split
      · rfl
      · split
        · rfl
        · rw [f.mkNode n]; rfl
    · obtain ⟨mx, hmx, _⟩ := record_spec v.monotone c.max (k + 1) (matchEnd + byteLen A)
      obtain ⟨mx', hmx', _⟩ := record_spec v.monotone d.max (k + 1) (matchEnd + byteLen A)
      rw [hmx, hmx']
      exact ih _ _ _ _ (f.next hm1)

/-- **Cache transparency (one call).** Under the invariant the answer of the rule — verdict,
    extent and, in real mode, the node — is the answer the rule gives with the closer table
    switched off (`scanned := false`): the table only saves work. -/
theorem cache_transparent (v : Variant) (hr : v.ranged = true) (hck : v.checked = true) (m : Char)
    (hm1 : m.utf8Size = 1) (src : List Char) (pos posMax : Nat) (prev silent : Bool) (c : Cache)
    (hinv : CacheInv m src c) (hcut : posMax = c.scannedTo ∨ NoCut m src posMax) :
    (run v m src pos posMax prev silent c).map Prod.fst =
      (run v m src pos posMax prev silent { c with scanned := false }).map Prod.fst := by
  cases hu : slice src pos posMax with
  | none => simp [run, hu]
  | some u =>
    cases u with
    | nil => simp [run, hu]
    | cons ch rest =>
      by_cases hch : ch = m
      · subst hch
        obtain ⟨x, T, Z, _, hT, _, _, f⟩ := run_frame hm1 hu
        have hindep := fun d => scan_verdict_indep v ch hm1 src pos _ posMax (1 + runLen ch rest) silent
          _ Z T [] _ c d f
        rw [run_marker v ch prev silent c hu, run_marker v ch prev silent _ hu]
        have hnc : consultable v pos posMax { c with scanned := false } = false := by
          simp [consultable]
        simp only [hnc, Bool.false_eq_true, if_false]
        split
        · rfl
        · split
          · rfl
          · split
            · rename_i hcons
              simp only [lookup, hck, if_true]
              split
              · rename_i hx
                obtain ⟨c1, hc1⟩ := cache_sound v hr ch hm1 src pos posMax c rest hinv hu hcons hx hcut
                  silent { c with scanned := false }
                rw [hc1]; rfl
              · exact hindep _
            · exact hindep _
      · rw [run_other v m prev silent c hu hch, run_other v m prev silent _ hu hch]; rfl


/-! ## `inside_failed` -/

theorem insideFailed_done (v : Variant) (pos p posMax : Nat) (c : Cache) :
    (markInside v pos p (complete v pos posMax c)).insideFailed = (markInside v pos p c).insideFailed := by
  unfold markInside complete
  split <;> split <;> (try split) <;> rfl

/-- a call at a position recorded in `inside_failed` answers `None` in both modes and leaves
    the cache untouched -/
theorem inside_hit (v : Variant) (hi : v.inside = true) (m : Char) (src : List Char)
    (pos posMax : Nat) (prev silent : Bool) (c : Cache) (r : Option Outcome) (c' : Cache)
    (hmem : c.insideFailed.contains pos = true)
    (h : run v m src pos posMax prev silent c = .ok (r, c')) : r = none ∧ c' = c := by
  cases run_path h with
  | other _ _ _ _ hr hc => exact ⟨hr, hc⟩
  | prevGuard _ _ _ _ hr hc => exact ⟨hr, hc⟩
  | inside _ _ _ _ hr hc => exact ⟨hr, hc⟩
  | consult _ _ _ hn _ _ _ _ _ => exact absurd ⟨hi, hmem⟩ hn
  | scanned _ _ hn _ => exact absurd ⟨hi, hmem⟩ hn

/-- every remembered position lies strictly inside a marker run: a marker before it and at it -/
def InsideInv (m : Char) (src : List Char) (c : Cache) : Prop :=
  ∀ q ∈ c.insideFailed, 0 < q ∧ charAt src (q - 1) = some m ∧ charAt src q = some m

theorem InsideInv.empty (m : Char) (src : List Char) : InsideInv m src Cache.empty := by
  intro q hq; cases hq

theorem mem_interior {a b q : Nat} : q ∈ interior a b ↔ a < q ∧ q < b := by
  unfold interior
  rw [List.mem_range'_1]; omega

theorem InsideInv.markInside {m : Char} (hm1 : m.utf8Size = 1) {src x T Z : List Char} {k pos : Nat}
    (hsrc : src = x ++ List.replicate (k + 1) m ++ T ++ Z) (hx : byteLen x = pos)
    {c : Cache} (h : InsideInv m src c) (v : Variant) :
    InsideInv m src (markInside v pos (pos + 1 + k) c) := by
  unfold MdIt.CodePair.markInside
  split
  · intro q hq
    simp only [List.mem_append] at hq
    rcases hq with hq | hq
    · exact h q hq
    · rw [mem_interior] at hq
      have hc := opener_chars hm1 hsrc hx
      exact ⟨by omega, hc (q - 1) (by omega) (by omega), hc q (by omega) (by omega)⟩
  · exact h

/-- positions are only ever recorded strictly inside a marker run, by a call that answered
    `None`: `InsideInv` is preserved by every call, and a call answering `Some` records nothing -/
theorem insideInv_run (v : Variant) (m : Char) (hm1 : m.utf8Size = 1) (src : List Char)
    (pos posMax : Nat) (prev silent : Bool) (c : Cache) (r : Option Outcome) (c' : Cache)
    (hinv : InsideInv m src c) (h : run v m src pos posMax prev silent c = .ok (r, c')) :
    InsideInv m src c' ∧ (r ≠ none → c'.insideFailed = c.insideFailed) ∧
      (∀ q ∈ c'.insideFailed, q ∈ c.insideFailed ∨ (r = none ∧ pos < q ∧ charAt src pos = some m)) := by
  cases run_path h with
  | other _ _ _ _ _ hc => subst hc; exact ⟨hinv, fun _ => rfl, fun q hq => Or.inl hq⟩
  | prevGuard _ _ _ _ _ hc => subst hc; exact ⟨hinv, fun _ => rfl, fun q hq => Or.inl hq⟩
  | inside _ _ _ _ _ hc => subst hc; exact ⟨hinv, fun _ => rfl, fun q hq => Or.inl hq⟩
  | consult rest _ hu _ _ _ _ hr hc =>
    obtain ⟨x, T, Z, _, hT, hx, hsrc, f⟩ := run_frame hm1 hu
    subst hc
    refine ⟨hinv.markInside hm1 hsrc hx v, fun hne => absurd hr hne, ?_⟩
    intro q hq
    unfold markInside at hq
    split at hq
    · simp only [List.mem_append, mem_interior] at hq
      rcases hq with hq | hq
      · exact Or.inl hq
      · exact Or.inr ⟨hr, hq.1, opener_chars hm1 hsrc hx pos (Nat.le_refl _) (by omega)⟩
    · exact Or.inl hq
  | scanned rest hu _ hs =>
    obtain ⟨x, T, Z, _, hT, hx, hsrc, f⟩ := run_frame hm1 hu
    cases r with
    | some o =>
      obtain ⟨_, _, _, _, _, _, hc', _⟩ :=
        scan_some v m hm1 src pos _ posMax _ silent _ Z T [] _ c o c' f hT hs
      rw [hc']
      exact ⟨hinv, fun _ => rfl, fun q hq => Or.inl hq⟩
    | none =>
      obtain ⟨mx, hc', _, _⟩ := scan_none v m hm1 src pos _ posMax _ silent _ Z T [] _ c c' f hT hs
      have hmi := hinv.markInside hm1 hsrc hx v
      have e : c'.insideFailed = (markInside v pos (pos + 1 + runLen m rest) c).insideFailed := by
        rw [hc', insideFailed_done]
        unfold markInside; split <;> rfl
      refine ⟨fun q hq => hmi q (e ▸ hq), fun hne => absurd rfl hne, ?_⟩
      intro q hq
      rw [e] at hq
      unfold markInside at hq
      split at hq
      · simp only [List.mem_append, mem_interior] at hq
        rcases hq with hq | hq
        · exact Or.inl hq
        · exact Or.inr ⟨rfl, hq.1, opener_chars hm1 hsrc hx pos (Nat.le_refl _) (by omega)⟩
      · exact Or.inl hq



/-! ## call sequences: the closer table is transparent -/

/-- answer and `inside_failed` after the call -/
def proj (x : Option Outcome × Cache) : Option Outcome × List Nat := (x.1, x.2.insideFailed)

theorem scan_proj_indep (v : Variant) (m : Char) (hm1 : m.utf8Size = 1) (src : List Char)
    (pos p posMax n : Nat) (silent : Bool) (X0 Z : List Char) :
    ∀ (M X1 : List Char) (matchEnd : Nat) (c d : Cache),
      Frame src pos p posMax matchEnd X0 X1 M Z → c.insideFailed = d.insideFailed →
      (scan v m src pos posMax n p silent matchEnd c).map proj =
        (scan v m src pos posMax n p silent matchEnd d).map proj := by
  intro M
  induction M using runs_induction (m := m) with
  | nomark M hM =>
    intro X1 matchEnd c d f hcd
    have hX : byteLen (X0 ++ X1) = matchEnd := by rw [byteLen_append, f.hp, f.hme]
    rw [scan_nomarker v m pos n p silent c f.hsrc hX f.hpm hM,
      scan_nomarker v m pos n p silent d f.hsrc hX f.hpm hM]
    show Except.ok _ = Except.ok _
    simp only [proj, insideFailed_done]
    unfold markInside; split <;> simp [hcd]
  | hit A k T hA hT ih =>
    intro X1 matchEnd c d f hcd
    obtain ⟨h1, h2, h3⟩ := f.hit_args hm1
    rw [scan_hit v m hm1 pos n p silent c h1 h2 h3 hA hT, scan_hit v m hm1 pos n p silent d h1 h2 h3 hA hT]
    split
    · split
      · rfl
      · split
        · show Except.ok _ = Except.ok _
          simp [proj, hcd]
        · rw [f.mkNode n]
          show Except.ok _ = Except.ok _
          simp [proj, hcd]
    · obtain ⟨mx, hmx, _⟩ := record_spec v.monotone c.max (k + 1) (matchEnd + byteLen A)
      obtain ⟨mx', hmx', _⟩ := record_spec v.monotone d.max (k + 1) (matchEnd + byteLen A)
      rw [hmx, hmx']
      exact ih _ _ _ _ (f.next hm1) hcd

/-- one step of the simulation: the real cache `c` (satisfying the invariant) against ANY cache
    `d` with the same `inside_failed` whose table is switched off -/
theorem run_sim (v : Variant) (hr : v.ranged = true) (hck : v.checked = true) (m : Char)
    (hm1 : m.utf8Size = 1) (src : List Char) (pos posMax : Nat) (prev silent : Bool) (c d : Cache)
    (hinv : CacheInv m src c) (hd : d.scanned = false) (hcd : c.insideFailed = d.insideFailed)
    (hcut : posMax = c.scannedTo ∨ NoCut m src posMax) :
    (run v m src pos posMax prev silent c).map proj =
      (run v m src pos posMax prev silent d).map proj := by
  cases hu : slice src pos posMax with
  | none => simp [run, hu]
  | some u =>
    cases u with
    | nil => simp [run, hu]
    | cons ch rest =>
      by_cases hch : ch = m
      · subst hch
        obtain ⟨x, T, Z, _, hT, _, _, f⟩ := run_frame hm1 hu
        have hindep := scan_proj_indep v ch hm1 src pos _ posMax (1 + runLen ch rest) silent
          _ Z T [] _ c d f hcd
        rw [run_marker v ch prev silent c hu, run_marker v ch prev silent d hu]
        have hnc : consultable v pos posMax d = false := by
          simp [consultable, hd]
        rw [hnc, ← hcd]
        simp only [Bool.false_eq_true, if_false]
        split
        · show Except.ok _ = Except.ok _
          simp [proj, hcd]
        · split
          · show Except.ok _ = Except.ok _
            simp [proj, hcd]
          · split
            · rename_i hcons
              simp only [lookup, hck, if_true]
              split
              · rename_i hx
                obtain ⟨c1, hc1⟩ := cache_sound v hr ch hm1 src pos posMax c rest hinv hu hcons hx hcut
                  silent d
                obtain ⟨mx, hc1', _, _⟩ := scan_none v ch hm1 src pos _ posMax _ silent _ Z T [] _
                  d c1 f hT hc1
                rw [hc1]
                show Except.ok _ = Except.ok _
                simp only [proj, hc1', insideFailed_done]
                unfold markInside; split <;> simp [hcd]
              · exact hindep
            · exact hindep
      · rw [run_other v m prev silent c hu hch, run_other v m prev silent d hu hch]
        show Except.ok _ = Except.ok _
        simp [proj, hcd]

/-- the reference semantics: the same calls, the closer table switched off before every call
    (`inside_failed` is kept — it is part of the rule's meaning, not a cache) -/
def runSeqNoTable (v : Variant) (m : Char) (src : List Char) :
    List Call → Cache → Except Panic (List (Option Outcome) × Cache)
  | [], c => .ok ([], c)
  | k :: ks, c =>
    match runCall v m src k { c with scanned := false } with
    | .error e => .error e
    | .ok (r, c') =>
      match runSeqNoTable v m src ks c' with
      | .error e => .error e
      | .ok (rs, c'') => .ok (r :: rs, c'')

/-- **Cache transparency (sequences).** For ANY interleaving of calls — any positions, silent or
    real, any mixture of `pos_max` values, in any order — against one cache, started from any
    cache satisfying the invariant (e.g. the empty one): every call answers exactly what the rule
    without closer table answers (verdict, extent and node). The only hypothesis: no `pos_max`
    cuts a marker run in two. -/
theorem runSeq_transparent (v : Variant) (hr : v.ranged = true) (hmo : v.monotone = true)
    (hck : v.checked = true) (m : Char) (hm1 : m.utf8Size = 1) (src : List Char)
    (calls : List Call) (hcut : ∀ k ∈ calls, NoCut m src k.posMax) (c d : Cache)
    (hinv : CacheInv m src c) (hcd : c.insideFailed = d.insideFailed) :
    (runSeq v m src calls c).map Prod.fst = (runSeqNoTable v m src calls d).map Prod.fst := by
  induction calls generalizing c d with
  | nil => rfl
  | cons k ks ih =>
    have hstep := run_sim v hr hck m hm1 src k.pos k.posMax k.prevIsMarker k.silent c
      { d with scanned := false } hinv rfl hcd (Or.inr (hcut k (by simp)))
    unfold runSeq runSeqNoTable runCall
    cases h1 : run v m src k.pos k.posMax k.prevIsMarker k.silent c with
    | error e =>
      cases h2 : run v m src k.pos k.posMax k.prevIsMarker k.silent { d with scanned := false } with
      | error e' => rw [h1, h2] at hstep; cases hstep; rfl
      | ok x => rw [h1, h2] at hstep; cases hstep
    | ok x =>
      cases h2 : run v m src k.pos k.posMax k.prevIsMarker k.silent { d with scanned := false } with
      | error e' => rw [h1, h2] at hstep; cases hstep
      | ok y =>
        rw [h1, h2] at hstep
        obtain ⟨r, c'⟩ := x
        obtain ⟨r', d'⟩ := y
        have hp : proj (r, c') = proj (r', d') := by injection hstep
        simp only [proj, Prod.mk.injEq] at hp
        obtain ⟨hrr, hcd'⟩ := hp
        subst hrr
        have hinv' := cacheInv_run v hr hmo m hm1 src k.pos k.posMax k.prevIsMarker k.silent c r c' hinv h1
        have := ih (fun k' hk' => hcut k' (by simp [hk'])) c' d' hinv' hcd'
        simp only
        cases h3 : runSeq v m src ks c' with
        | error e =>
          cases h4 : runSeqNoTable v m src ks d' with
          | error e' => rw [h3, h4] at this; cases this; rfl
          | ok z => rw [h3, h4] at this; cases this
        | ok z =>
          cases h4 : runSeqNoTable v m src ks d' with
          | error e' => rw [h3, h4] at this; cases this
          | ok z' =>
            rw [h3, h4] at this
            have hz : z.1 = z'.1 := by injection this
            show Except.ok _ = Except.ok _
            simp [hz]



/-! ## witnesses: the earlier code, and the one hypothesis that is needed -/

/-- the verdicts (`None` / `Some(len)`) of a sequence; `none` if some call panicked -/
def verdicts (r : Except Panic (List (Option Outcome) × Cache)) : Option (List (Option Nat)) :=
  match r with
  | .ok x => some (x.1.map (fun o => o.map (·.len)))
  | .error _ => none

def panicOf {α : Type} (r : Except Panic α) : Option Panic :=
  match r with
  | .ok _ => none
  | .error e => some e

def finalCache (r : Except Panic (List (Option Outcome) × Cache)) : Option Cache :=
  match r with
  | .ok x => some x.2
  | .error _ => none

/-- `` [` `` as the parser drives the rule on it: the link rule's label look-ahead calls the rule
    silently at the backtick (no closer: `scanned := true`, table still empty), then the inline
    loop calls it for real at the same place and the old lookup `max[1]` indexes an empty `Vec`. -/
theorem codepair_old_panics :
    panicOf (runSeq Variant.pinned '`' ['[', '`']
      [⟨1, 2, false, true⟩, ⟨1, 2, false, false⟩] Cache.empty) = some .index := by decide +kernel

/-- the same sequence on the current code -/
example : verdicts (runSeq Variant.current '`' ['[', '`']
    [⟨1, 2, false, true⟩, ⟨1, 2, false, false⟩] Cache.empty) = some [none, none] := by decide +kernel

/-- (A) `` [`a` ` `` before the `scanned_from/scanned_to` repair: look-ahead at 1 says `Some(3)`,
    look-ahead at 5 finds nothing and marks the paragraph scanned with an empty table, and the
    real call at 1 is then answered `None` from the table. -/
theorem old_lookahead_poisons_cache :
    verdicts (runSeq ⟨true, false, false, false⟩ '`' ['[', '`', 'a', '`', ' ', '`']
      [⟨1, 6, false, true⟩, ⟨5, 6, false, true⟩, ⟨1, 6, false, false⟩] Cache.empty)
      = some [some 3, none, none] := by decide +kernel

example : verdicts (runSeq Variant.current '`' ['[', '`', 'a', '`', ' ', '`']
    [⟨1, 6, false, true⟩, ⟨5, 6, false, true⟩, ⟨1, 6, false, false⟩] Cache.empty)
    = some [some 3, none, some 3] := by decide +kernel

/-- (B) ```` ``` `a``b` ``c`` ```` with the non-monotone table update, plain left-to-right real
    calls (the calls at 1 and 2 are stopped by the old trailing-text guard): the scan from the
    opener at 4 overwrites the entry for length 2 (14, written by the complete scan from 0) with
    6, and the 2-tick opener at 11 is answered `None` although its closer is at 14. -/
theorem old_table_not_monotone :
    verdicts (runSeq ⟨true, false, false, false⟩ '`'
      ['`', '`', '`', ' ', '`', 'a', '`', '`', 'b', '`', ' ', '`', '`', 'c', '`', '`']
      [⟨0, 16, false, false⟩, ⟨1, 16, true, false⟩, ⟨2, 16, true, false⟩, ⟨4, 16, false, false⟩,
       ⟨11, 16, false, false⟩] Cache.empty)
      = some [none, none, none, some 6, none] := by decide +kernel

example : verdicts (runSeq Variant.current '`'
    ['`', '`', '`', ' ', '`', 'a', '`', '`', 'b', '`', ' ', '`', '`', 'c', '`', '`']
    [⟨0, 16, false, false⟩, ⟨1, 16, true, false⟩, ⟨2, 16, true, false⟩, ⟨4, 16, false, false⟩,
     ⟨11, 16, false, false⟩] Cache.empty)
    = some [none, none, none, some 6, some 5] := by decide +kernel

/-- (C) ``[``a]`](x)`` with the trailing-text guard: the label look-ahead (tree untouched, so
    `prev = false`) fails at 1, then claims a span of extent 4 at 2; the real call at 2 (nested
    label tokenizer, `pos_max = 6`, the tree now ends in a backtick) answers `None`. -/
theorem old_guard_reads_tree :
    verdicts (runSeq ⟨true, true, true, false⟩ '`'
      ['[', '`', '`', 'a', ']', '`', ']', '(', 'x', ')']
      [⟨1, 10, false, true⟩, ⟨2, 10, false, true⟩, ⟨2, 6, true, false⟩] Cache.empty)
      = some [none, some 4, none] := by decide +kernel

example : verdicts (runSeq Variant.current '`'
    ['[', '`', '`', 'a', ']', '`', ']', '(', 'x', ')']
    [⟨1, 10, false, true⟩, ⟨2, 10, false, true⟩, ⟨2, 6, true, false⟩] Cache.empty)
    = some [none, none, none] := by decide +kernel

/-- The hypothesis of `cache_sound` / `runSeq_transparent` cannot be dropped: with a `pos_max`
    that cuts a marker run (here 5, inside the run 3..6 of ``` ``a``` ```), the current code answers
    `None` from the table although the rule without table finds the (truncated) closer. -/
theorem cut_posmax_needs_hypothesis :
    verdicts (runSeq Variant.current '`' ['`', '`', 'a', '`', '`', '`']
      [⟨0, 6, false, true⟩, ⟨0, 5, false, true⟩] Cache.empty) = some [none, none] ∧
    verdicts (runSeqNoTable Variant.current '`' ['`', '`', 'a', '`', '`', '`']
      [⟨0, 6, false, true⟩, ⟨0, 5, false, true⟩] Cache.empty) = some [none, some 5] ∧
    ¬ NoCut '`' ['`', '`', 'a', '`', '`', '`'] 5 := by
  refine ⟨by decide +kernel, by decide +kernel, ?_⟩
  intro h; apply h
  refine ⟨by decide, by decide +kernel, by decide +kernel⟩

/-- small `pos_max` first, large afterwards (the order a nested label tokenizer followed by the
    rest of the line produces): the range test keeps the table of the small scan from answering
    for the large one -/
example : verdicts (runSeq Variant.current '`' ['`', 'a', ' ', '`', 'b', '`']
    [⟨0, 2, false, true⟩, ⟨3, 6, false, false⟩, ⟨0, 6, false, false⟩] Cache.empty)
    = some [none, some 3, some 4] := by decide +kernel

/-- before the range repair the same sequence loses the span at 0 -/
example : verdicts (runSeq ⟨true, false, true, true⟩ '`' ['`', 'a', ' ', '`', 'b', '`']
    [⟨0, 2, false, true⟩, ⟨3, 6, false, false⟩, ⟨0, 6, false, false⟩] Cache.empty)
    = some [none, none, none] := by decide +kernel

theorem cacheInv_runSeq (v : Variant) (hr : v.ranged = true) (hmo : v.monotone = true) (m : Char)
    (hm1 : m.utf8Size = 1) (src : List Char) (calls : List Call) (c : Cache)
    (rs : List (Option Outcome)) (c' : Cache) (hinv : CacheInv m src c)
    (h : runSeq v m src calls c = .ok (rs, c')) : CacheInv m src c' := by
  induction calls generalizing c rs with
  | nil => simp [runSeq] at h; rw [← h.2]; exact hinv
  | cons k ks ih =>
    unfold runSeq runCall at h
    cases h1 : run v m src k.pos k.posMax k.prevIsMarker k.silent c with
    | error e => simp [h1] at h
    | ok x =>
      obtain ⟨r, c1⟩ := x
      simp only [h1] at h
      cases h2 : runSeq v m src ks c1 with
      | error e => simp [h2] at h
      | ok y =>
        obtain ⟨rs', c2⟩ := y
        simp only [h2, Except.ok.injEq, Prod.mk.injEq] at h
        obtain ⟨_, hc⟩ := h
        subst hc
        exact ih c1 rs' (cacheInv_run v hr hmo m hm1 src _ _ _ _ c r c1 hinv h1) h2

/-- non-vacuity of `cache_sound`: a reachable cache (after a silent sweep over
    ```` ``` `a` ```` ) that is `scanned`, satisfies the invariant by `cacheInv_runSeq`, and answers
    the real call at 0 from the table -/
example :
    ∃ c, finalCache (runSeq Variant.current '`' ['`', '`', '`', ' ', '`', 'a', '`']
        [⟨0, 7, false, true⟩, ⟨4, 7, false, true⟩] Cache.empty) = some c ∧
      c.scanned = true ∧ consultable Variant.current 0 7 c = true ∧ c.max.getD 3 0 ≤ 0 ∧
      CacheInv '`' ['`', '`', '`', ' ', '`', 'a', '`'] c := by
  have hf : finalCache (runSeq Variant.current '`' ['`', '`', '`', ' ', '`', 'a', '`']
      [⟨0, 7, false, true⟩, ⟨4, 7, false, true⟩] Cache.empty) = some ⟨true, 0, 7, [0, 6], [1, 2]⟩ := by
    decide +kernel
  refine ⟨⟨true, 0, 7, [0, 6], [1, 2]⟩, hf, rfl, by decide, by decide, ?_⟩
  cases h : runSeq Variant.current '`' ['`', '`', '`', ' ', '`', 'a', '`']
      [⟨0, 7, false, true⟩, ⟨4, 7, false, true⟩] Cache.empty with
  | error e => rw [h] at hf; cases hf
  | ok x =>
    obtain ⟨rs, c⟩ := x
    rw [h] at hf
    simp only [finalCache, Option.some.injEq] at hf
    subst hf
    exact cacheInv_runSeq _ rfl rfl '`' (by decide) _ _ _ _ _ (CacheInv.empty _ _) h


/-! ## non-vacuity of the general theorems -/

/-- the marker of the shipped instance is one byte wide -/
theorem backtick_size : ('`' : Char).utf8Size = 1 := by decide

def verdictOf (r : Except Panic (Option Outcome × Cache)) : Option (Option Nat) :=
  match r with
  | .ok x => some (x.1.map (·.len))
  | .error _ => none

/-- `codepair_no_panic` on a multi-byte source (`é` 2 bytes, `€` 3 bytes) and an arbitrary,
    unreachable cache value -/
example : ∃ r, run Variant.current '`' ['é', '`', '€', '`'] 2 7 false false ⟨true, 9, 3, [5], [7]⟩ = .ok r :=
  codepair_no_panic _ rfl _ backtick_size _ _ _ _ _ _ (by decide +kernel) (by decide +kernel) (by decide)

/-- its hypotheses are needed: `pos` inside `é`, `pos = pos_max`, `pos_max` beyond the end -/
example : panicOf (run Variant.current '`' ['é', '`', '€', '`'] 1 7 false false Cache.empty) = some .slice ∧
    panicOf (run Variant.current '`' ['é', '`', '€', '`'] 2 2 false false Cache.empty) = some .unwrap ∧
    panicOf (run Variant.current '`' ['é', '`', '€', '`'] 2 8 false false Cache.empty) = some .slice := by
  decide +kernel

/-- `codepair_progress`: the call it speaks about exists (`Some(5)`: 1 + 3 + 1 bytes) -/
example : verdictOf (run Variant.current '`' ['é', '`', '€', '`'] 2 7 false true Cache.empty) = some (some 5) := by
  decide +kernel

example (o : Outcome) (c' : Cache)
    (h : run Variant.current '`' ['é', '`', '€', '`'] 2 7 false true Cache.empty = .ok (some o, c')) :
    2 ≤ o.len ∧ 2 + o.len ≤ 7 ∧ isBoundary ['é', '`', '€', '`'] (2 + o.len) = true :=
  codepair_progress _ _ backtick_size _ _ _ _ _ _ _ _ h

/-- `runSeq_transparent` on a sequence mixing three `pos_max` values, none cutting a run -/
example : (runSeq Variant.current '`' ['`', 'a', ']', '`', 'b', '`']
      [⟨0, 6, false, true⟩, ⟨0, 2, false, false⟩, ⟨3, 6, false, false⟩, ⟨0, 3, false, true⟩] Cache.empty).map Prod.fst =
    (runSeqNoTable Variant.current '`' ['`', 'a', ']', '`', 'b', '`']
      [⟨0, 6, false, true⟩, ⟨0, 2, false, false⟩, ⟨3, 6, false, false⟩, ⟨0, 3, false, true⟩] Cache.empty).map Prod.fst := by
  apply runSeq_transparent _ rfl rfl rfl _ backtick_size _ _ _ _ _ (CacheInv.empty _ _) rfl
  intro k hk
  simp only [List.mem_cons, List.not_mem_nil, or_false] at hk
  rcases hk with rfl | rfl | rfl | rfl <;> (intro h; revert h; decide +kernel)



/-- The hypothesis `m.utf8Size = 1` of all theorems above is necessary, and the Rust agrees: the
    generic `add_with::<MARKER, _>` advances by ONE byte per marker character, so with a two-byte
    marker (`§`) the very first slice after the opener is off a char boundary. Confirmed on the
    real crate: `add_with::<'§', false>` panics on `"§a§"`, `"§"`, `"a§"`
    ("start byte index 1 is not a char boundary"). -/
theorem multibyte_marker_panics :
    panicOf (run Variant.current '§' ['§', 'a', '§'] 0 5 false false Cache.empty) = some .slice ∧
    panicOf (run Variant.current '§' ['§'] 0 2 false true Cache.empty) = some .slice := by
  decide +kernel

end MdIt.CodePair
