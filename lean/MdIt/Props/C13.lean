/-
  C13 — Reference links resolve by normalised label; first definition wins.

  `N = normalize L U` throughout; the case tables `L U` are arbitrary unless a theorem name starts
  with `table_`, in which case they are the tables generated from the Rust std that is linked.

  Property theorems
    white space : `isWs_table`, `collapseWs_ws`, `collapseWs_nonws`, `wsNorm_lead`, `wsNorm_trail`,
                  `wsNorm_run`, `norm_ws_invariant`, `wsNorm_eq_iff` (exactness), `wsNorm_idem`
    case        : `norm_flatMap`, `norm_case_invariant_lower`, `norm_case_invariant_upper`,
                  `norm_case_invariant_mixed`, `normalize_idem`, `sigma_irrelevant`, `norm_sigma`
                  — all GIVEN the closure conditions `Closure L U`
    tables      : `table_compat_lower`, `table_compat_upper`, `table_closure_lower`,
                  `table_closure_upper`, `table_closure` (the conditions HOLD for the linked std, checked
                  row by row by the kernel), `table_sigma`, `table_sigma_irrelevant`, `table_norm_sigma`,
                  `table_norm_case_invariant`, `table_normalize_idem`
    map         : `first_wins_raw`, `first_wins`, `resolves_iff`, `later_defs_irrelevant`,
                  `empty_label_rejected`, `selectLabel_spec`, `resolve_forms`,
                  `table_first_wins`, `table_resolves_iff`, `table_resolves_variant`

  Not in this file (rule level, see DESIGN.md C13): that `ReferenceScanner` pushes no node and writes
  the ROOT map from inside block quotes / list items, and that the inline pass runs after the block
  pass (`inline_after_block`).  The `refs use` stream exercises both through the real parser.
-/
import MdIt.Model.Refs
import MdIt.Gen.Unicode

namespace MdIt.Refs

/-! ## white space -/

/-- the model's white-space test is the generated `char::is_whitespace` table -/
theorem isWs_table (c : Nat) : isWs c = MdIt.Gen.Unicode.whiteSpace.contains c := by
  rw [Bool.eq_iff_iff]
  simp [isWs, MdIt.Gen.Unicode.whiteSpace]
  omega

/-- every character is white space -/
def allWs (s : List Nat) : Bool := s.all isWs

/-- trim + collapse: the white-space part of `normalize_reference` -/
def wsNorm (s : List Nat) : List Nat := collapseWs (trimWs s)

theorem normalize_eq (L U : Nat → List Nat) (s : List Nat) :
    normalize L U s = upperStr U (lowerStr L (wsNorm s)) := rfl

theorem collapseWs_nonws (c : Nat) (r : List Nat) (h : isWs c = false) :
    collapseWs (c :: r) = c :: collapseWs r := by
  simp [collapseWs, h]

/-- **maximal run → one space.** A white-space character swallows the whole run that follows it. -/
theorem collapseWs_ws (c : Nat) (r : List Nat) (h : isWs c = true) :
    collapseWs (c :: r) = 32 :: collapseWs (r.dropWhile isWs) := by
  induction r generalizing c with
  | nil => simp [collapseWs, h, startsWs]
  | cons d r ih =>
    by_cases hd : isWs d = true
    · rw [collapseWs]; simp only [h, startsWs, hd, if_true]
      rw [ih d hd]; simp [List.dropWhile, hd]
    · simp only [Bool.not_eq_true] at hd
      rw [collapseWs]; simp [h, startsWs, hd, List.dropWhile]

theorem dropWhile_allWs_append (w b : List Nat) (hw : allWs w = true) :
    (w ++ b).dropWhile isWs = b.dropWhile isWs := by
  induction w with
  | nil => rfl
  | cons c w ih =>
    simp [allWs] at hw
    simp [hw.1]
    exact ih (by simp [allWs]; exact hw.2)

theorem collapseWs_run (w b : List Nat) (hw : allWs w = true) (hne : w ≠ []) :
    collapseWs (w ++ b) = 32 :: collapseWs (b.dropWhile isWs) := by
  match w, hne with
  | c :: w', _ =>
    simp [allWs] at hw
    rw [List.cons_append, collapseWs_ws _ _ hw.1, dropWhile_allWs_append]
    simp [allWs]; exact hw.2

theorem startsWs_append (a x : List Nat) (ha : a ≠ []) : startsWs (a ++ x) = startsWs a := by
  match a, ha with
  | c :: a', _ => rfl

/-- the collapse of `a ++ x` depends on `x` only through its collapse and its first character class -/
theorem collapseWs_append_congr (a x y : List Nat) (hs : startsWs x = startsWs y)
    (hc : collapseWs x = collapseWs y) : collapseWs (a ++ x) = collapseWs (a ++ y) := by
  induction a with
  | nil => simpa
  | cons c a ih =>
    have hst : startsWs (a ++ x) = startsWs (a ++ y) := by
      cases a with
      | nil => simpa
      | cons d a' => rfl
    simp [collapseWs, ih, hst]

/-- replacing a non-empty white-space run by another leaves the collapse unchanged -/
theorem collapseWs_replace_run (a w₁ w₂ b : List Nat) (h₁ : allWs w₁ = true) (n₁ : w₁ ≠ [])
    (h₂ : allWs w₂ = true) (n₂ : w₂ ≠ []) :
    collapseWs (a ++ (w₁ ++ b)) = collapseWs (a ++ (w₂ ++ b)) := by
  apply collapseWs_append_congr
  · rw [startsWs_append _ _ n₁, startsWs_append _ _ n₂]
    match w₁, w₂, n₁, n₂ with
    | c :: _, d :: _, _, _ =>
      simp [allWs] at h₁ h₂
      simp [startsWs, h₁.1, h₂.1]
  · rw [collapseWs_run _ _ h₁ n₁, collapseWs_run _ _ h₂ n₂]

/-! ### trimming -/

theorem allWs_append (a b : List Nat) : allWs (a ++ b) = (allWs a && allWs b) := by
  simp [allWs]

theorem allWs_reverse (a : List Nat) : allWs a.reverse = allWs a := by
  simp [allWs]

theorem dropWhile_allWs (w : List Nat) (hw : allWs w = true) : w.dropWhile isWs = [] := by
  have := dropWhile_allWs_append w [] hw
  simpa using this

theorem dropWhile_append_of_not_all (a x : List Nat) (ha : allWs a = false) :
    (a ++ x).dropWhile isWs = a.dropWhile isWs ++ x := by
  induction a with
  | nil => simp [allWs] at ha
  | cons c a ih =>
    by_cases hc : isWs c = true
    · have : allWs a = false := by
        simp [allWs, hc] at ha ⊢; exact ha
      simp [List.dropWhile, hc, ih this]
    · simp only [Bool.not_eq_true] at hc
      simp [List.dropWhile, hc]

theorem trimStart_allWs_append (w s : List Nat) (hw : allWs w = true) :
    trimStart (w ++ s) = trimStart s := dropWhile_allWs_append w s hw

theorem trimEnd_append_allWs (s w : List Nat) (hw : allWs w = true) :
    trimEnd (s ++ w) = trimEnd s := by
  unfold trimEnd
  rw [List.reverse_append, dropWhile_allWs_append _ _ (by rw [allWs_reverse]; exact hw)]

theorem trimStart_append_of_not_all (a x : List Nat) (ha : allWs a = false) :
    trimStart (a ++ x) = trimStart a ++ x := dropWhile_append_of_not_all a x ha

theorem trimEnd_append_of_not_all (x b : List Nat) (hb : allWs b = false) :
    trimEnd (x ++ b) = x ++ trimEnd b := by
  unfold trimEnd
  rw [List.reverse_append, dropWhile_append_of_not_all _ _ (by rw [allWs_reverse]; exact hb)]
  simp

theorem trimStart_allWs (w : List Nat) (hw : allWs w = true) : trimStart w = [] :=
  dropWhile_allWs w hw

theorem trimEnd_allWs (w : List Nat) (hw : allWs w = true) : trimEnd w = [] := by
  unfold trimEnd
  rw [dropWhile_allWs _ (by rw [allWs_reverse]; exact hw)]; rfl

theorem trimWs_allWs (w : List Nat) (hw : allWs w = true) : trimWs w = [] := by
  unfold trimWs; rw [trimStart_allWs w hw]; rfl

/-- **leading white space is ignored** -/
theorem wsNorm_lead (w s : List Nat) (hw : allWs w = true) : wsNorm (w ++ s) = wsNorm s := by
  unfold wsNorm trimWs; rw [trimStart_allWs_append w s hw]

theorem trimWs_trail (s w : List Nat) (hw : allWs w = true) : trimWs (s ++ w) = trimWs s := by
  unfold trimWs
  by_cases hs : allWs s = true
  · rw [trimStart_allWs s hs, trimStart_allWs (s ++ w) (by rw [allWs_append, hs, hw]; rfl)]
  · simp only [Bool.not_eq_true] at hs
    rw [trimStart_append_of_not_all s w hs, trimEnd_append_allWs _ _ hw]

/-- **trailing white space is ignored** -/
theorem wsNorm_trail (s w : List Nat) (hw : allWs w = true) : wsNorm (s ++ w) = wsNorm s := by
  unfold wsNorm; rw [trimWs_trail s w hw]

/-- **any non-empty white-space run may be replaced by any other** -/
theorem wsNorm_run (a w₁ w₂ b : List Nat) (h₁ : allWs w₁ = true) (n₁ : w₁ ≠ [])
    (h₂ : allWs w₂ = true) (n₂ : w₂ ≠ []) :
    wsNorm (a ++ (w₁ ++ b)) = wsNorm (a ++ (w₂ ++ b)) := by
  by_cases ha : allWs a = true
  · -- everything up to `b` is leading white space
    rw [← List.append_assoc, ← List.append_assoc,
      wsNorm_lead (a ++ w₁) b (by rw [allWs_append, ha, h₁]; rfl),
      wsNorm_lead (a ++ w₂) b (by rw [allWs_append, ha, h₂]; rfl)]
  · simp only [Bool.not_eq_true] at ha
    by_cases hb : allWs b = true
    · -- everything after `a` is trailing white space
      rw [wsNorm_trail a (w₁ ++ b) (by rw [allWs_append, hb, h₁]; rfl),
        wsNorm_trail a (w₂ ++ b) (by rw [allWs_append, hb, h₂]; rfl)]
    · simp only [Bool.not_eq_true] at hb
      have key : ∀ w, trimWs (a ++ (w ++ b)) = trimStart a ++ (w ++ trimEnd b) := by
        intro w
        unfold trimWs
        rw [trimStart_append_of_not_all a _ ha, ← List.append_assoc (trimStart a) w b,
          trimEnd_append_of_not_all _ b hb, List.append_assoc]
      unfold wsNorm
      rw [key w₁, key w₂]
      exact collapseWs_replace_run _ _ _ _ h₁ n₁ h₂ n₂

/-- Two spellings differ only in white space: leading / trailing white space added or removed, or a
non-empty run of white space replaced by another non-empty run (closed under symmetry and
transitivity). -/
inductive WsEquiv : List Nat → List Nat → Prop
  | refl (a : List Nat) : WsEquiv a a
  | symm {a b : List Nat} : WsEquiv a b → WsEquiv b a
  | trans {a b c : List Nat} : WsEquiv a b → WsEquiv b c → WsEquiv a c
  | lead (w s : List Nat) : allWs w = true → WsEquiv (w ++ s) s
  | trail (s w : List Nat) : allWs w = true → WsEquiv (s ++ w) s
  | run (a w₁ w₂ b : List Nat) : allWs w₁ = true → w₁ ≠ [] → allWs w₂ = true → w₂ ≠ [] →
      WsEquiv (a ++ (w₁ ++ b)) (a ++ (w₂ ++ b))

theorem wsNorm_of_WsEquiv {a b : List Nat} (h : WsEquiv a b) : wsNorm a = wsNorm b := by
  induction h with
  | refl => rfl
  | symm _ ih => exact ih.symm
  | trans _ _ ih₁ ih₂ => exact ih₁.trans ih₂
  | lead w s hw => exact wsNorm_lead w s hw
  | trail s w hw => exact wsNorm_trail s w hw
  | run a w₁ w₂ b h₁ n₁ h₂ n₂ => exact wsNorm_run a w₁ w₂ b h₁ n₁ h₂ n₂

/-- **C13 (white space).** Matching collapses runs of white space and ignores it at the ends: labels
that differ only in white space have the same normal form, whatever the case tables. -/
theorem norm_ws_invariant (L U : Nat → List Nat) {a b : List Nat} (h : WsEquiv a b) :
    normalize L U a = normalize L U b := by
  rw [normalize_eq, normalize_eq, wsNorm_of_WsEquiv h]

/-- non-vacuity: `"  foo \t\n bar\u{a0}"` and `"foo\u{3000}bar"` -/
example : WsEquiv [32, 32, 102, 111, 111, 32, 9, 10, 32, 98, 97, 114, 160]
    [102, 111, 111, 12288, 98, 97, 114] :=
  .trans (.lead [32, 32] _ (by decide))
    (.trans (.trail [102, 111, 111, 32, 9, 10, 32, 98, 97, 114] [160] (by decide))
      (.run [102, 111, 111] [32, 9, 10, 32] [12288] [98, 97, 114] (by decide) (by decide) (by decide) (by decide)))

/-! ### completeness: `WsEquiv` is exactly "same white-space normal form" -/

theorem allWs_takeWhile (s : List Nat) : allWs (s.takeWhile isWs) = true := by
  induction s with
  | nil => rfl
  | cons c r ih =>
    by_cases hc : isWs c = true
    · simp only [List.takeWhile, hc]; simp only [allWs, List.all_cons, hc, Bool.true_and]; exact ih
    · simp only [Bool.not_eq_true] at hc
      simp [List.takeWhile, hc, allWs]

theorem WsEquiv_trimWs (s : List Nat) : WsEquiv s (trimWs s) := by
  have h1 : WsEquiv s (trimStart s) := by
    have := WsEquiv.lead (s.takeWhile isWs) (s.dropWhile isWs) (allWs_takeWhile s)
    rwa [List.takeWhile_append_dropWhile] at this
  have h2 : ∀ t : List Nat, WsEquiv t (trimEnd t) := by
    intro t
    have := WsEquiv.trail (trimEnd t) (t.reverse.takeWhile isWs).reverse
      (by rw [allWs_reverse]; exact allWs_takeWhile _)
    have e : trimEnd t ++ (t.reverse.takeWhile isWs).reverse = t := by
      unfold trimEnd
      rw [← List.reverse_append, List.takeWhile_append_dropWhile, List.reverse_reverse]
    rwa [e] at this
  exact h1.trans (h2 _)

theorem WsEquiv_collapseWs (a x : List Nat) : WsEquiv (a ++ x) (a ++ collapseWs x) := by
  induction x generalizing a with
  | nil => exact .refl _
  | cons c r ih =>
    by_cases hc : isWs c = true
    · cases r with
      | nil =>
        simp only [collapseWs, hc, startsWs, if_true]
        have := WsEquiv.run a [c] [32] [] (by simp [allWs, hc]) (by simp) (by decide) (by simp)
        simpa using this
      | cons d r' =>
        by_cases hd : isWs d = true
        · have e : collapseWs (c :: d :: r') = collapseWs (d :: r') := by
            rw [collapseWs]; simp [hc, startsWs, hd]
          rw [e]
          have := WsEquiv.run a [c, d] [d] r' (by simp [allWs, hc, hd]) (by simp)
            (by simp [allWs, hd]) (by simp)
          exact (by simpa using this : WsEquiv (a ++ c :: d :: r') (a ++ d :: r')).trans (ih a)
        · simp only [Bool.not_eq_true] at hd
          have e : collapseWs (c :: d :: r') = 32 :: collapseWs (d :: r') := by
            rw [collapseWs]; simp [hc, startsWs, hd]
          rw [e]
          have h1 := WsEquiv.run a [c] [32] (d :: r') (by simp [allWs, hc]) (by simp) (by decide)
            (by simp)
          have h2 := ih (a ++ [32])
          simp only [List.append_assoc, List.singleton_append] at h1 h2
          exact h1.trans h2
    · simp only [Bool.not_eq_true] at hc
      rw [collapseWs_nonws c r hc]
      have := ih (a ++ [c])
      simpa using this

/-- every label is white-space-equivalent to its white-space normal form -/
theorem WsEquiv_wsNorm (s : List Nat) : WsEquiv s (wsNorm s) := by
  have := WsEquiv_collapseWs [] (trimWs s)
  simp only [List.nil_append] at this
  exact (WsEquiv_trimWs s).trans this

/-- **C13 (white space, exact).** Two labels have the same white-space normal form exactly when they
differ only by the white-space edits of `WsEquiv`. -/
theorem wsNorm_eq_iff (a b : List Nat) : wsNorm a = wsNorm b ↔ WsEquiv a b := by
  constructor
  · intro h
    have h1 := WsEquiv_wsNorm a
    rw [h] at h1
    exact h1.trans (WsEquiv_wsNorm b).symm
  · exact wsNorm_of_WsEquiv

/-! ### the white-space normal form is stable (needed because definitions are normalised twice) -/

/-- does the string end with a white-space character -/
def endsWs (s : List Nat) : Bool := startsWs s.reverse

theorem trimStart_of_not_startsWs (s : List Nat) (h : startsWs s = false) : trimStart s = s := by
  cases s with
  | nil => rfl
  | cons c r => simp [startsWs] at h; simp [trimStart, List.dropWhile, h]

theorem trimEnd_of_not_endsWs (s : List Nat) (h : endsWs s = false) : trimEnd s = s := by
  unfold trimEnd
  have := trimStart_of_not_startsWs s.reverse h
  unfold trimStart at this
  rw [this]; simp

theorem startsWs_dropWhile (s : List Nat) : startsWs (s.dropWhile isWs) = false := by
  induction s with
  | nil => rfl
  | cons c r ih =>
    by_cases hc : isWs c = true
    · simp [List.dropWhile, hc, ih]
    · simp only [Bool.not_eq_true] at hc
      simp [List.dropWhile, hc, startsWs]

theorem startsWs_collapseWs (s : List Nat) : startsWs (collapseWs s) = startsWs s := by
  cases s with
  | nil => rfl
  | cons c r =>
    by_cases hc : isWs c = true
    · rw [collapseWs_ws c r hc]; simp [startsWs, hc]; decide
    · simp only [Bool.not_eq_true] at hc
      rw [collapseWs_nonws c r hc]; rfl

theorem collapseWs_idem (s : List Nat) : collapseWs (collapseWs s) = collapseWs s := by
  induction s with
  | nil => rfl
  | cons c r ih =>
    by_cases hc : isWs c = true
    · by_cases hr : startsWs r = true
      · have : collapseWs (c :: r) = collapseWs r := by simp [collapseWs, hc, hr]
        rw [this, ih]
      · simp only [Bool.not_eq_true] at hr
        have : collapseWs (c :: r) = 32 :: collapseWs r := by simp [collapseWs, hc, hr]
        rw [this]
        have h32 : isWs 32 = true := by decide
        have hs : startsWs (collapseWs r) = false := by rw [startsWs_collapseWs, hr]
        simp [collapseWs, h32, hs, ih]
    · simp only [Bool.not_eq_true] at hc
      rw [collapseWs_nonws c r hc, collapseWs_nonws c _ hc, ih]

/-- the collapse of `s ++ [c]` -/
theorem collapseWs_snoc (s : List Nat) (c : Nat) :
    collapseWs (s ++ [c]) =
      if isWs c then (if endsWs s then collapseWs s else collapseWs s ++ [32])
      else collapseWs s ++ [c] := by
  induction s with
  | nil => by_cases hc : isWs c = true <;> simp_all [collapseWs, startsWs, endsWs]
  | cons d s ih =>
    have hst : startsWs (s ++ [c]) = if s = [] then isWs c else startsWs s := by
      cases s <;> simp [startsWs]
    have hend : endsWs (d :: s) = if s = [] then isWs d else endsWs s := by
      unfold endsWs
      cases hs : s.reverse with
      | nil => simp at hs; simp [hs, startsWs]
      | cons x t =>
        have : s ≠ [] := by intro h; simp [h] at hs
        simp [hs, this, startsWs]
    rw [List.cons_append, collapseWs, ih, hst, hend]
    by_cases hs : s = []
    · subst hs
      by_cases hc : isWs c = true <;> by_cases hd : isWs d = true <;>
        simp_all [collapseWs, startsWs, endsWs]
    · by_cases hc : isWs c = true <;> by_cases hd : isWs d = true <;>
        by_cases h1 : startsWs s = true <;> by_cases h2 : endsWs s = true <;>
        simp_all [collapseWs]

theorem endsWs_collapseWs (s : List Nat) : endsWs (collapseWs s) = endsWs s := by
  generalize hn : s.length = n
  induction n generalizing s with
  | zero => simp at hn; subst hn; rfl
  | succ n ih' =>
    rcases List.eq_nil_or_concat s with rfl | ⟨t, c, rfl⟩
    · rfl
    rw [List.concat_eq_append] at hn ⊢
    have ih := ih' t (by simp at hn; omega)
    revert ih; generalize t = s; intro ih
    have hE : ∀ (t : List Nat) (x : Nat), endsWs (t ++ [x]) = isWs x := by
      intro t x; simp [endsWs, startsWs]
    rw [collapseWs_snoc, hE]
    by_cases hc : isWs c = true
    · by_cases he : endsWs s = true
      · simp [hc, he, ih]
      · simp only [Bool.not_eq_true] at he
        simp [hc, he, hE]; decide
    · simp only [Bool.not_eq_true] at hc
      simp [hc, hE]

theorem endsWs_trimEnd (s : List Nat) : endsWs (trimEnd s) = false := by
  simp [endsWs, trimEnd, startsWs_dropWhile]

theorem startsWs_trimWs (s : List Nat) : startsWs (trimWs s) = false := by
  unfold trimWs
  have h0 := startsWs_dropWhile s
  change startsWs (trimStart s) = false at h0
  generalize trimStart s = t at h0
  by_cases ht : allWs t = true
  · rw [trimEnd_allWs t ht]; rfl
  · simp only [Bool.not_eq_true] at ht
    -- `t` starts with a non-white-space character, which `trimEnd` keeps
    cases t with
    | nil => rfl
    | cons c r =>
      simp [startsWs] at h0
      by_cases hr : allWs r = true
      · have : trimEnd (c :: r) = [c] := by
          have := trimEnd_append_allWs [c] r hr
          simp at this; rw [this]; simp [trimEnd, h0]
        rw [this]; simp [startsWs, h0]
      · simp only [Bool.not_eq_true] at hr
        have := trimEnd_append_of_not_all [c] r hr
        simp at this; rw [this]; simp [startsWs, h0]

theorem endsWs_trimWs (s : List Nat) : endsWs (trimWs s) = false := endsWs_trimEnd _

/-- a string that neither starts nor ends with white space is fixed by `trim` -/
theorem trimWs_fixed (s : List Nat) (h₁ : startsWs s = false) (h₂ : endsWs s = false) :
    trimWs s = s := by
  unfold trimWs; rw [trimStart_of_not_startsWs s h₁, trimEnd_of_not_endsWs s h₂]

/-- the white-space normal form is a fixed point of white-space normalisation -/
theorem wsNorm_idem (s : List Nat) : wsNorm (wsNorm s) = wsNorm s := by
  unfold wsNorm
  rw [trimWs_fixed (collapseWs (trimWs s))
    (by rw [startsWs_collapseWs, startsWs_trimWs]) (by rw [endsWs_collapseWs, endsWs_trimWs]),
    collapseWs_idem]

/-! ## case -/

/-- A character map respects the white-space structure: it fixes white-space characters and sends
every other character to a NON-EMPTY string without white space.  (True of both `char::to_lowercase`
and `char::to_uppercase`, see `table_compat_lower` / `table_compat_upper`.) -/
structure WsCompat (f : Nat → List Nat) : Prop where
  ws : ∀ c, isWs c = true → f c = [c]
  nonws : ∀ c, isWs c = false → f c ≠ [] ∧ ∀ d ∈ f c, isWs d = false

theorem WsCompat.reverse {f : Nat → List Nat} (hf : WsCompat f) :
    WsCompat (List.reverse ∘ f) where
  ws c hc := by simp [hf.ws c hc]
  nonws c hc := by
    obtain ⟨h1, h2⟩ := hf.nonws c hc
    exact ⟨by simpa using h1, by intro d hd; exact h2 d (by simpa using hd)⟩

theorem dropWhile_flatMap {f : Nat → List Nat} (hf : WsCompat f) (s : List Nat) :
    (s.flatMap f).dropWhile isWs = (s.dropWhile isWs).flatMap f := by
  induction s with
  | nil => rfl
  | cons c r ih =>
    by_cases hc : isWs c = true
    · simp [List.flatMap_cons, hf.ws c hc, List.dropWhile, hc, ih]
    · simp only [Bool.not_eq_true] at hc
      obtain ⟨h1, h2⟩ := hf.nonws c hc
      rw [List.flatMap_cons]
      cases hfc : f c with
      | nil => exact absurd hfc h1
      | cons d ds =>
        have hd : isWs d = false := h2 d (by simp [hfc])
        simp [List.dropWhile, hd, hc, hfc]

theorem trimStart_flatMap {f : Nat → List Nat} (hf : WsCompat f) (s : List Nat) :
    trimStart (s.flatMap f) = (trimStart s).flatMap f := dropWhile_flatMap hf s

theorem trimEnd_flatMap {f : Nat → List Nat} (hf : WsCompat f) (s : List Nat) :
    trimEnd (s.flatMap f) = (trimEnd s).flatMap f := by
  unfold trimEnd
  rw [List.reverse_flatMap, dropWhile_flatMap hf.reverse, List.reverse_flatMap]
  simp [Function.comp_def]

theorem startsWs_flatMap {f : Nat → List Nat} (hf : WsCompat f) (s : List Nat) :
    startsWs (s.flatMap f) = startsWs s := by
  cases s with
  | nil => rfl
  | cons c r =>
    by_cases hc : isWs c = true
    · simp [List.flatMap_cons, hf.ws c hc, startsWs, hc]
    · simp only [Bool.not_eq_true] at hc
      obtain ⟨h1, h2⟩ := hf.nonws c hc
      rw [List.flatMap_cons]
      cases hfc : f c with
      | nil => exact absurd hfc h1
      | cons d ds =>
        have hd : isWs d = false := h2 d (by simp [hfc])
        simp [startsWs, hd, hc]

theorem collapseWs_nonws_append (x y : List Nat) (hx : ∀ d ∈ x, isWs d = false) :
    collapseWs (x ++ y) = x ++ collapseWs y := by
  induction x with
  | nil => rfl
  | cons d x ih =>
    rw [List.cons_append, collapseWs_nonws d _ (hx d (by simp)), ih (fun e he => hx e (by simp [he]))]
    rfl

theorem collapseWs_flatMap {f : Nat → List Nat} (hf : WsCompat f) (s : List Nat) :
    collapseWs (s.flatMap f) = (collapseWs s).flatMap f := by
  induction s with
  | nil => rfl
  | cons c r ih =>
    have h32 : f 32 = [32] := hf.ws 32 (by decide)
    by_cases hc : isWs c = true
    · rw [List.flatMap_cons, hf.ws c hc]
      simp only [List.singleton_append]
      rw [collapseWs, collapseWs]
      simp only [hc, if_true, startsWs_flatMap hf r]
      by_cases hr : startsWs r = true
      · simp [hr, ih]
      · simp only [Bool.not_eq_true] at hr
        simp [hr, ih, List.flatMap_cons, h32]
    · simp only [Bool.not_eq_true] at hc
      obtain ⟨_, h2⟩ := hf.nonws c hc
      rw [List.flatMap_cons, collapseWs_nonws_append _ _ h2, ih, collapseWs_nonws c r hc,
        List.flatMap_cons]

/-- white-space normalisation commutes with a white-space-compatible character map -/
theorem wsNorm_flatMap {f : Nat → List Nat} (hf : WsCompat f) (s : List Nat) :
    wsNorm (s.flatMap f) = (wsNorm s).flatMap f := by
  unfold wsNorm trimWs
  rw [trimStart_flatMap hf, trimEnd_flatMap hf, collapseWs_flatMap hf]

theorem upperStr_append (U : Nat → List Nat) (a b : List Nat) :
    upperStr U (a ++ b) = upperStr U a ++ upperStr U b := by simp [upperStr]

theorem lowerStr_append (L : Nat → List Nat) (a b : List Nat) :
    lowerStr L (a ++ b) = lowerStr L a ++ lowerStr L b := by simp [lowerStr]

/-- a per-character identity `up (low (f c)) = up (low [c])` lifts to strings -/
theorem upper_lower_flatMap (L U f : Nat → List Nat)
    (hc : ∀ c, upperStr U (lowerStr L (f c)) = upperStr U (L c)) (s : List Nat) :
    upperStr U (lowerStr L (s.flatMap f)) = upperStr U (lowerStr L s) := by
  induction s with
  | nil => rfl
  | cons c r ih =>
    rw [List.flatMap_cons, lowerStr_append, upperStr_append, hc, ih]
    simp [lowerStr, upperStr]

/-- **C13 (case, general form).** Re-spelling every character `c` of a label by any string `f c` that
the tables identify with `c` does not change the normal form. -/
theorem norm_flatMap (L U f : Nat → List Nat) (hf : WsCompat f)
    (hc : ∀ c, upperStr U (lowerStr L (f c)) = upperStr U (L c)) (s : List Nat) :
    normalize L U (s.flatMap f) = normalize L U s := by
  rw [normalize_eq, normalize_eq, wsNorm_flatMap hf, upper_lower_flatMap L U f hc]

/-- The closure conditions on a pair of case tables under which `upper ∘ lower` is a case fold. -/
structure Closure (L U : Nat → List Nat) : Prop where
  compatL : WsCompat L
  compatU : WsCompat U
  /-- lower-casing the lower-cased spelling changes nothing that upper-casing can see -/
  lower : ∀ c, upperStr U (lowerStr L (L c)) = upperStr U (L c)
  /-- the upper-cased spelling lower-cases to something that upper-cases like the lower-cased one -/
  upper : ∀ c, upperStr U (lowerStr L (U c)) = upperStr U (L c)

/-- **C13 (case).** The lower-cased spelling of a label has the same normal form. -/
theorem norm_case_invariant_lower {L U : Nat → List Nat} (h : Closure L U) (s : List Nat) :
    normalize L U (lowerStr L s) = normalize L U s :=
  norm_flatMap L U L h.compatL h.lower s

/-- **C13 (case).** The upper-cased spelling of a label has the same normal form. -/
theorem norm_case_invariant_upper {L U : Nat → List Nat} (h : Closure L U) (s : List Nat) :
    normalize L U (upperStr U s) = normalize L U s :=
  norm_flatMap L U U h.compatU h.upper s

/-- **C13 (case, mixed).** Every character may independently be kept, lower-cased or upper-cased. -/
theorem norm_case_invariant_mixed {L U : Nat → List Nat} (h : Closure L U) (f : Nat → List Nat)
    (hf : ∀ c, f c = [c] ∨ f c = L c ∨ f c = U c) (s : List Nat) :
    normalize L U (s.flatMap f) = normalize L U s := by
  have hid : WsCompat (fun c => [c]) := ⟨fun _ _ => rfl, fun c hc => ⟨by simp, by simp [hc]⟩⟩
  apply norm_flatMap
  · constructor
    · intro c hc
      rcases hf c with h' | h' | h' <;> rw [h']
      · exact h.compatL.ws c hc
      · exact h.compatU.ws c hc
    · intro c hc
      rcases hf c with h' | h' | h' <;> rw [h']
      · exact hid.nonws c hc
      · exact h.compatL.nonws c hc
      · exact h.compatU.nonws c hc
  · intro c
    rcases hf c with h' | h' | h' <;> rw [h']
    · simp [lowerStr]
    · exact h.lower c
    · exact h.upper c

/-- **The normal form is a fixed point** — needed because `ReferenceScanner` stores
`ReferenceMapKey::new(normalize_reference(label))`, i.e. normalises definitions TWICE while uses are
normalised once. -/
theorem normalize_idem {L U : Nat → List Nat} (h : Closure L U) (s : List Nat) :
    normalize L U (normalize L U s) = normalize L U s := by
  have h1 : normalize L U (normalize L U s) = normalize L U (lowerStr L (wsNorm s)) :=
    norm_case_invariant_upper h _
  have h2 := norm_case_invariant_lower h (wsNorm s)
  rw [h1, h2, normalize_eq, normalize_eq, wsNorm_idem]

/-! ### final sigma -/

/-- final sigma ↦ sigma -/
def sig (c : Nat) : Nat := if c = 0x3C2 then 0x3C3 else c

/-- **Final sigma is irrelevant.** Two lower-cased strings that differ only in the choice between σ
(U+03C3) and ς (U+03C2) — in particular Rust's contextual `str::to_lowercase` and the per-character
`lowerStr` — upper-case to the same string, as soon as the table has `U ς = U σ`. -/
theorem sigma_irrelevant (U : Nat → List Nat) (hU : U 0x3C2 = U 0x3C3) (t x : List Nat)
    (h : t.map sig = x.map sig) : upperStr U t = upperStr U x := by
  have key : ∀ y : List Nat, upperStr U y = upperStr U (y.map sig) := by
    intro y
    induction y with
    | nil => rfl
    | cons c r ih =>
      have : U (sig c) = U c := by
        unfold sig; split
        · next hc => rw [hc, hU]
        · rfl
      simp only [upperStr] at ih ⊢
      simp [List.flatMap_cons, this, ih]
  rw [key t, key x, h]

/-- a label spelled with ς where another has σ has the same normal form -/
theorem norm_sigma (L U : Nat → List Nat) (hws : isWs 0x3C2 = false)
    (h : upperStr U (L 0x3C3) = upperStr U (L 0x3C2)) (s : List Nat) :
    normalize L U (s.map sig) = normalize L U s := by
  have hm : s.map sig = s.flatMap (fun c => [sig c]) := by
    induction s with
    | nil => rfl
    | cons c r ih => simp [List.flatMap_cons, ih]
  rw [hm]
  apply norm_flatMap
  · constructor
    · intro c hc
      have : c ≠ 0x3C2 := by intro h'; rw [h'] at hc; simp [hws] at hc
      simp [sig, this]
    · intro c hc
      refine ⟨by simp, ?_⟩
      intro d hd
      simp at hd; subst hd
      unfold sig; split
      · decide
      · exact hc
  · intro c
    unfold sig; split
    · next hc => subst hc; simpa [lowerStr] using h
    · simp [lowerStr]

/-! ## the map: first definition wins -/

theorem get_insertFirst (m : RefMap) (k : List Nat) (e : Entry) (k' : List Nat) :
    (insertFirst m k e).get k' = (m.get k').or (if k' = k then some e else none) := by
  unfold insertFirst
  cases h : m.get k with
  | some x =>
    by_cases hk : k' = k
    · subst hk; simp [h]
    · simp [hk]
  | none =>
    simp only [RefMap.get, List.lookup_append]
    by_cases hk : k' = k
    · subst hk; simp [List.lookup]
    · have : (k' == k) = false := by simpa using hk
      simp [List.lookup, this, hk]

/-- is `d` an accepted definition whose STORED key (normalised twice) is `k` -/
def defHasKey (N : List Nat → List Nat) (k : List Nat) (d : Def) : Bool :=
  !(N d.label).isEmpty && N (N d.label) == k

theorem get_addDef (N : List Nat → List Nat) (m : RefMap) (d : Def) (k : List Nat) :
    (addDef N m d).get k = (m.get k).or (if defHasKey N k d then some d.entry else none) := by
  unfold addDef defHasKey
  by_cases he : (N d.label).isEmpty = true
  · simp [he]
  · simp only [Bool.not_eq_true] at he
    simp only [he, Bool.false_eq_true, if_false, get_insertFirst, Bool.not_false, Bool.true_and,
      beq_iff_eq]
    by_cases hk : k = N (N d.label)
    · simp [hk]
    · have : ¬ N (N d.label) = k := fun h => hk h.symm
      simp [hk, this]

theorem get_foldl_addDef (N : List Nat → List Nat) (defs : List Def) (m : RefMap) (k : List Nat) :
    (defs.foldl (addDef N) m).get k
      = (m.get k).or ((defs.find? (defHasKey N k)).map (·.entry)) := by
  induction defs generalizing m with
  | nil => simp
  | cons d r ih =>
    rw [List.foldl_cons, ih, get_addDef, List.find?_cons]
    by_cases hd : defHasKey N k d = true
    · simp [hd]
    · simp only [Bool.not_eq_true] at hd
      simp [hd]

/-- **C13 (first wins), as the code computes it** — no assumption on `N`.  The stored key is
`N (N label)` (definitions are normalised twice), the lookup key `N l`. -/
theorem first_wins_raw (N : List Nat → List Nat) (defs : List Def) (l : List Nat) :
    lookup N (buildMap N defs) l = (defs.find? (defHasKey N (N l))).map (·.entry) := by
  unfold lookup buildMap
  rw [get_foldl_addDef]
  simp [RefMap.get, List.lookup]

/-- does the (non-empty) normal form of `d`'s label equal that of `l` -/
def labelMatches (N : List Nat → List Nat) (l : List Nat) (d : Def) : Bool :=
  !(N d.label).isEmpty && N d.label == N l

/-- **C13 (first wins).** For every idempotent normalisation `N`: a use with label `l` gets the entry
of the FIRST definition in document order whose label has a non-empty normal form equal to that of
`l`, and nothing if there is no such definition. -/
theorem first_wins (N : List Nat → List Nat) (hN : ∀ s, N (N s) = N s) (defs : List Def)
    (l : List Nat) :
    lookup N (buildMap N defs) l = (defs.find? (labelMatches N l)).map (·.entry) := by
  rw [first_wins_raw]
  have : defHasKey N (N l) = labelMatches N l := by
    funext d; simp [defHasKey, labelMatches, hN]
  rw [this]

/-- **C13 (resolves exactly when a matching definition exists)** — anywhere in the list of
definitions, i.e. before or after the use: the map is complete before any lookup. -/
theorem resolves_iff (N : List Nat → List Nat) (hN : ∀ s, N (N s) = N s) (defs : List Def)
    (l : List Nat) :
    (lookup N (buildMap N defs) l).isSome = true ↔ ∃ d ∈ defs, N d.label ≠ [] ∧ N d.label = N l := by
  rw [first_wins N hN]
  simp [labelMatches, List.find?_isSome]

/-- definitions whose label normalises to the empty string are not definitions at all -/
theorem empty_label_rejected (N : List Nat → List Nat) (m : RefMap) (d : Def)
    (h : N d.label = []) : addDef N m d = m := by
  simp [addDef, h]

/-- a later definition never changes what an earlier matching one supplies -/
theorem later_defs_irrelevant (N : List Nat → List Nat) (hN : ∀ s, N (N s) = N s)
    (defs more : List Def) (l : List Nat) (e : Entry)
    (h : lookup N (buildMap N defs) l = some e) :
    lookup N (buildMap N (defs ++ more)) l = some e := by
  rw [first_wins N hN] at h ⊢
  rw [List.find?_append]
  cases hf : defs.find? (labelMatches N l) with
  | none => simp [hf] at h
  | some d => simpa [hf] using h

/-- label selection of `parse_link` -/
theorem selectLabel_spec (text : List Nat) :
    selectLabel text none = text ∧ selectLabel text (some []) = text ∧
    ∀ l, l ≠ [] → selectLabel text (some l) = l := by
  refine ⟨rfl, rfl, ?_⟩
  intro l hl
  cases l with
  | nil => exact absurd rfl hl
  | cons c r => rfl

/-- **C13 for the three forms of use**: shortcut `[text]`, collapsed `[text][]`, full `[text][label]` -/
theorem resolve_forms (N : List Nat → List Nat) (hN : ∀ s, N (N s) = N s) (defs : List Def)
    (text l : List Nat) (hl : l ≠ []) :
    resolve N (buildMap N defs) text none = (defs.find? (labelMatches N text)).map (·.entry) ∧
    resolve N (buildMap N defs) text (some []) = (defs.find? (labelMatches N text)).map (·.entry) ∧
    resolve N (buildMap N defs) text (some l) = (defs.find? (labelMatches N l)).map (·.entry) := by
  obtain ⟨h1, h2, h3⟩ := selectLabel_spec text
  refine ⟨?_, ?_, ?_⟩ <;> unfold resolve
  · rw [h1, first_wins N hN]
  · rw [h2, first_wins N hN]
  · rw [h3 l hl, first_wins N hN]

/-- non-vacuity of `first_wins` with a toy normalisation (ASCII upper-casing of `a`): three
definitions, the second and third match, the second wins -/
example :
    let N : List Nat → List Nat := fun s => s.map (fun c => if c = 97 then 65 else c)
    lookup N (buildMap N [⟨[98], ⟨[1], none⟩⟩, ⟨[65], ⟨[2], none⟩⟩, ⟨[97], ⟨[3], none⟩⟩, ⟨[], ⟨[4], none⟩⟩]) [97]
      = some ⟨[2], none⟩ := by decide

/-! ## the generated tables -/

/-- `char::to_lowercase` of the linked std -/
def Lt : Nat → List Nat := tableMap MdIt.Gen.Unicode.lowerTable
/-- `char::to_uppercase` of the linked std -/
def Ut : Nat → List Nat := tableMap MdIt.Gen.Unicode.upperTable
/-- `normalize_reference` over the generated tables -/
def Nt : List Nat → List Nat := normalize Lt Ut

theorem lookup_mem (t : List (Nat × List Nat)) (c : Nat) (v : List Nat)
    (h : t.lookup c = some v) : (c, v) ∈ t := by
  induction t with
  | nil => simp [List.lookup] at h
  | cons r t ih =>
    obtain ⟨k, w⟩ := r
    by_cases hk : c = k
    · subst hk; simp [List.lookup] at h; simp [h]
    · have : (c == k) = false := by simpa using hk
      simp [List.lookup, this] at h
      exact List.mem_cons_of_mem _ (ih h)

theorem tableMap_of_none (t : List (Nat × List Nat)) (c : Nat) (h : t.lookup c = none) :
    tableMap t c = [c] := by simp [tableMap, h]

/-- **Rows not in a table are the identity**, so a per-character condition on `tableMap t` reduces to
the identity case (for characters without a row) plus a check of the table rows. -/
theorem tableMap_forall (t : List (Nat × List Nat)) (P : Nat → List Nat → Prop)
    (hid : ∀ c, t.lookup c = none → P c [c]) (hrows : ∀ r ∈ t, P r.1 r.2) :
    ∀ c, P c (tableMap t c) := by
  intro c
  unfold tableMap
  cases h : t.lookup c with
  | none => exact hid c h
  | some v => exact hrows (c, v) (lookup_mem t c v h)

/-! ### a faster evaluator for the kernel

`List.lookup` over a 1 500-row table costs the kernel ~1 500 steps per character.  The generated
tables come in 64-row chunks sorted by code point; `chunkedLookup` first selects the chunk by its last
key.  `chunkedLookup_eq` proves it equal to the linear lookup for every "banded" list of chunks, and
`bandedB` is checked by the kernel for the two tables. -/

def look : List (Nat × List Nat) → Nat → Option (List Nat)
  | [], _ => none
  | (k, v) :: t, c => bif Nat.beq c k then some v else look t c

def chunkedLookup : List (Nat × List (Nat × List Nat)) → Nat → Option (List Nat)
  | [], _ => none
  | (b, ch) :: rest, c => bif Nat.ble c b then look ch c else chunkedLookup rest c

def fastMap (bands : List (Nat × List (Nat × List Nat))) (c : Nat) : List Nat :=
  match chunkedLookup bands c with
  | some v => v
  | none => [c]

/-- every key of a chunk lies in `[lo, b]`, and the next chunk starts above `b` -/
def bandedB (lo : Nat) : List (Nat × List (Nat × List Nat)) → Bool
  | [] => true
  | (b, ch) :: rest => Nat.ble lo (b + 1) && ch.all (fun r => Nat.ble lo r.1 && Nat.ble r.1 b) && bandedB (b + 1) rest

theorem look_eq (t : List (Nat × List Nat)) (c : Nat) : look t c = t.lookup c := by
  induction t with
  | nil => rfl
  | cons r t ih =>
    obtain ⟨k, v⟩ := r
    by_cases hk : c = k
    · subst hk; simp [look, List.lookup]
    · have h1 : Nat.beq c k = false := by
        cases h : Nat.beq c k with
        | false => rfl
        | true => exact absurd (Nat.eq_of_beq_eq_true h) hk
      have h2 : (c == k) = false := by simpa using hk
      simp [look, List.lookup, h1, h2, ih]

theorem lookup_none_of_keys (t : List (Nat × List Nat)) (c : Nat) (h : ∀ r ∈ t, r.1 ≠ c) :
    t.lookup c = none := by
  induction t with
  | nil => rfl
  | cons r t ih =>
    obtain ⟨k, v⟩ := r
    have hk : (c == k) = false := by
      have := h (k, v) (by simp); simpa using fun h' => this h'.symm
    simp only [List.lookup, hk]
    exact ih (fun r hr => h r (by simp [hr]))

theorem banded_keys_ge (lo : Nat) (bands : List (Nat × List (Nat × List Nat)))
    (h : bandedB lo bands = true) : ∀ r ∈ (bands.map (·.2)).flatten, lo ≤ r.1 := by
  induction bands generalizing lo with
  | nil => simp
  | cons x rest ih =>
    obtain ⟨b, ch⟩ := x
    simp only [bandedB, Bool.and_eq_true, List.all_eq_true, Nat.ble_eq] at h
    obtain ⟨⟨hlo, hch⟩, hrest⟩ := h
    intro r hr
    simp only [List.map_cons, List.flatten_cons, List.mem_append] at hr
    rcases hr with hr | hr
    · exact (hch r hr).1
    · have := ih (b + 1) hrest r hr
      omega

theorem chunkedLookup_eq (lo : Nat) (bands : List (Nat × List (Nat × List Nat)))
    (h : bandedB lo bands = true) (c : Nat) :
    chunkedLookup bands c = (bands.map (·.2)).flatten.lookup c := by
  induction bands generalizing lo with
  | nil => rfl
  | cons x rest ih =>
    obtain ⟨b, ch⟩ := x
    have h' := h
    simp only [bandedB, Bool.and_eq_true, List.all_eq_true, Nat.ble_eq] at h'
    obtain ⟨⟨_, hch⟩, hrest⟩ := h'
    simp only [chunkedLookup, List.map_cons, List.flatten_cons, List.lookup_append]
    by_cases hc : c ≤ b
    · have hb : Nat.ble c b = true := by simpa using hc
      have hnone : (rest.map (·.2)).flatten.lookup c = none := by
        apply lookup_none_of_keys
        intro r hr
        have := banded_keys_ge (b + 1) rest hrest r hr
        omega
      simp [hb, look_eq, hnone]
    · have hb : Nat.ble c b = false := by
        cases hx : Nat.ble c b with
        | false => rfl
        | true => exact absurd (Nat.le_of_ble_eq_true hx) hc
      have hnone : ch.lookup c = none := by
        apply lookup_none_of_keys
        intro r hr
        have := (hch r hr).2
        omega
      simp [hb, hnone, ih (b + 1) hrest]

theorem fastMap_eq (lo : Nat) (bands : List (Nat × List (Nat × List Nat)))
    (h : bandedB lo bands = true) :
    fastMap bands = tableMap (bands.map (·.2)).flatten := by
  funext c
  unfold fastMap tableMap
  rw [chunkedLookup_eq lo bands h]
  cases List.lookup c (bands.map (·.2)).flatten <;> rfl

/- the chunks of the generated tables with the last key of each (GENERATED from `Gen/Unicode.lean`
by reading off the last row of every chunk; `lowerBands_chunks` / `lowerBands_banded` check it) -/
def lowerBands : List (Nat × List (Nat × List Nat)) := [
  (270, MdIt.Gen.Unicode.lowerTable_0),
  (398, MdIt.Gen.Unicode.lowerTable_1),
  (520, MdIt.Gen.Unicode.lowerTable_2),
  (932, MdIt.Gen.Unicode.lowerTable_3),
  (1060, MdIt.Gen.Unicode.lowerTable_4),
  (1232, MdIt.Gen.Unicode.lowerTable_5),
  (1345, MdIt.Gen.Unicode.lowerTable_6),
  (5026, MdIt.Gen.Unicode.lowerTable_7),
  (5090, MdIt.Gen.Unicode.lowerTable_8),
  (7357, MdIt.Gen.Unicode.lowerTable_9),
  (7802, MdIt.Gen.Unicode.lowerTable_10),
  (7945, MdIt.Gen.Unicode.lowerTable_11),
  (8105, MdIt.Gen.Unicode.lowerTable_12),
  (9410, MdIt.Gen.Unicode.lowerTable_13),
  (11363, MdIt.Gen.Unicode.lowerTable_14),
  (11501, MdIt.Gen.Unicode.lowerTable_15),
  (42838, MdIt.Gen.Unicode.lowerTable_16),
  (42968, MdIt.Gen.Unicode.lowerTable_17),
  (66594, MdIt.Gen.Unicode.lowerTable_18),
  (66951, MdIt.Gen.Unicode.lowerTable_19),
  (68944, MdIt.Gen.Unicode.lowerTable_20),
  (93770, MdIt.Gen.Unicode.lowerTable_21),
  (125201, MdIt.Gen.Unicode.lowerTable_22),
  (125217, MdIt.Gen.Unicode.lowerTable_23)]

def upperBands : List (Nat × List (Nat × List Nat)) := [
  (265, MdIt.Gen.Unicode.upperTable_0),
  (396, MdIt.Gen.Unicode.upperTable_1),
  (541, MdIt.Gen.Unicode.upperTable_2),
  (893, MdIt.Gen.Unicode.upperTable_3),
  (1075, MdIt.Gen.Unicode.upperTable_4),
  (1167, MdIt.Gen.Unicode.upperTable_5),
  (1295, MdIt.Gen.Unicode.upperTable_6),
  (4312, MdIt.Gen.Unicode.upperTable_7),
  (7695, MdIt.Gen.Unicode.upperTable_8),
  (7823, MdIt.Gen.Unicode.upperTable_9),
  (7942, MdIt.Gen.Unicode.upperTable_10),
  (8068, MdIt.Gen.Unicode.upperTable_11),
  (8151, MdIt.Gen.Unicode.upperTable_12),
  (11317, MdIt.Gen.Unicode.upperTable_13),
  (11419, MdIt.Gen.Unicode.upperTable_14),
  (11544, MdIt.Gen.Unicode.upperTable_15),
  (42811, MdIt.Gen.Unicode.upperTable_16),
  (42969, MdIt.Gen.Unicode.upperTable_17),
  (43948, MdIt.Gen.Unicode.upperTable_18),
  (66606, MdIt.Gen.Unicode.upperTable_19),
  (66806, MdIt.Gen.Unicode.upperTable_20),
  (68823, MdIt.Gen.Unicode.upperTable_21),
  (71886, MdIt.Gen.Unicode.upperTable_22),
  (93897, MdIt.Gen.Unicode.upperTable_23),
  (125251, MdIt.Gen.Unicode.upperTable_24)]

theorem lowerBands_chunks : lowerBands.map (·.2) = MdIt.Gen.Unicode.lowerTableChunks := rfl
theorem upperBands_chunks : upperBands.map (·.2) = MdIt.Gen.Unicode.upperTableChunks := rfl
theorem lowerBands_banded : bandedB 0 lowerBands = true := by decide +kernel
theorem upperBands_banded : bandedB 0 upperBands = true := by decide +kernel

def LtF : Nat → List Nat := fastMap lowerBands
def UtF : Nat → List Nat := fastMap upperBands

theorem LtF_eq : LtF = Lt := by
  unfold LtF Lt
  rw [fastMap_eq 0 lowerBands lowerBands_banded, lowerBands_chunks]; rfl

theorem UtF_eq : UtF = Ut := by
  unfold UtF Ut
  rw [fastMap_eq 0 upperBands upperBands_banded, upperBands_chunks]; rfl

/-- the kernel evaluates `Nt` through the chunked tables -/
theorem Nt_fast (s : List Nat) : Nt s = normalize LtF UtF s := by rw [LtF_eq, UtF_eq]; rfl

/-! ### row checks -/

/-- white-space compatibility of a row -/
def rowCompat (r : Nat × List Nat) : Bool :=
  !isWs r.1 && !r.2.isEmpty && r.2.all (fun d => !isWs d)

/-- closure condition `lower` for the row `c ↦ v` of the lower-case table: `up (low v) = up v` -/
def rowLowerF (r : Nat × List Nat) : Bool :=
  let lv := lowerStr LtF r.2
  lv == r.2 || upperStr UtF lv == upperStr UtF r.2

/-- closure condition `upper` for the row `c ↦ v` of the upper-case table: `up (low v) = up (L c)` -/
def rowUpperF (r : Nat × List Nat) : Bool :=
  let lv := lowerStr LtF r.2
  let lc := LtF r.1
  lv == lc || upperStr UtF lv == upperStr UtF lc

theorem rowLowerF_spec (r : Nat × List Nat) (h : rowLowerF r = true) :
    upperStr Ut (lowerStr Lt r.2) = upperStr Ut r.2 := by
  simp only [rowLowerF, LtF_eq, UtF_eq, Bool.or_eq_true, beq_iff_eq] at h
  rcases h with h | h
  · rw [h]
  · exact h

theorem rowUpperF_spec (r : Nat × List Nat) (h : rowUpperF r = true) :
    upperStr Ut (lowerStr Lt r.2) = upperStr Ut (Lt r.1) := by
  simp only [rowUpperF, LtF_eq, UtF_eq, Bool.or_eq_true, beq_iff_eq] at h
  rcases h with h | h
  · rw [h]
  · exact h

theorem lowerCompat_rows : MdIt.Gen.Unicode.lowerTable.all rowCompat = true := by decide +kernel
theorem upperCompat_rows : MdIt.Gen.Unicode.upperTable.all rowCompat = true := by decide +kernel

/- one kernel evaluation per 64-row chunk (GENERATED list of statements) -/
theorem lowerRows_0 : MdIt.Gen.Unicode.lowerTable_0.all rowLowerF = true := by decide +kernel
theorem lowerRows_1 : MdIt.Gen.Unicode.lowerTable_1.all rowLowerF = true := by decide +kernel
theorem lowerRows_2 : MdIt.Gen.Unicode.lowerTable_2.all rowLowerF = true := by decide +kernel
theorem lowerRows_3 : MdIt.Gen.Unicode.lowerTable_3.all rowLowerF = true := by decide +kernel
theorem lowerRows_4 : MdIt.Gen.Unicode.lowerTable_4.all rowLowerF = true := by decide +kernel
theorem lowerRows_5 : MdIt.Gen.Unicode.lowerTable_5.all rowLowerF = true := by decide +kernel
theorem lowerRows_6 : MdIt.Gen.Unicode.lowerTable_6.all rowLowerF = true := by decide +kernel
theorem lowerRows_7 : MdIt.Gen.Unicode.lowerTable_7.all rowLowerF = true := by decide +kernel
theorem lowerRows_8 : MdIt.Gen.Unicode.lowerTable_8.all rowLowerF = true := by decide +kernel
theorem lowerRows_9 : MdIt.Gen.Unicode.lowerTable_9.all rowLowerF = true := by decide +kernel
theorem lowerRows_10 : MdIt.Gen.Unicode.lowerTable_10.all rowLowerF = true := by decide +kernel
theorem lowerRows_11 : MdIt.Gen.Unicode.lowerTable_11.all rowLowerF = true := by decide +kernel
theorem lowerRows_12 : MdIt.Gen.Unicode.lowerTable_12.all rowLowerF = true := by decide +kernel
theorem lowerRows_13 : MdIt.Gen.Unicode.lowerTable_13.all rowLowerF = true := by decide +kernel
theorem lowerRows_14 : MdIt.Gen.Unicode.lowerTable_14.all rowLowerF = true := by decide +kernel
theorem lowerRows_15 : MdIt.Gen.Unicode.lowerTable_15.all rowLowerF = true := by decide +kernel
theorem lowerRows_16 : MdIt.Gen.Unicode.lowerTable_16.all rowLowerF = true := by decide +kernel
theorem lowerRows_17 : MdIt.Gen.Unicode.lowerTable_17.all rowLowerF = true := by decide +kernel
theorem lowerRows_18 : MdIt.Gen.Unicode.lowerTable_18.all rowLowerF = true := by decide +kernel
theorem lowerRows_19 : MdIt.Gen.Unicode.lowerTable_19.all rowLowerF = true := by decide +kernel
theorem lowerRows_20 : MdIt.Gen.Unicode.lowerTable_20.all rowLowerF = true := by decide +kernel
theorem lowerRows_21 : MdIt.Gen.Unicode.lowerTable_21.all rowLowerF = true := by decide +kernel
theorem lowerRows_22 : MdIt.Gen.Unicode.lowerTable_22.all rowLowerF = true := by decide +kernel
theorem lowerRows_23 : MdIt.Gen.Unicode.lowerTable_23.all rowLowerF = true := by decide +kernel
theorem upperRows_0 : MdIt.Gen.Unicode.upperTable_0.all rowUpperF = true := by decide +kernel
theorem upperRows_1 : MdIt.Gen.Unicode.upperTable_1.all rowUpperF = true := by decide +kernel
theorem upperRows_2 : MdIt.Gen.Unicode.upperTable_2.all rowUpperF = true := by decide +kernel
theorem upperRows_3 : MdIt.Gen.Unicode.upperTable_3.all rowUpperF = true := by decide +kernel
theorem upperRows_4 : MdIt.Gen.Unicode.upperTable_4.all rowUpperF = true := by decide +kernel
theorem upperRows_5 : MdIt.Gen.Unicode.upperTable_5.all rowUpperF = true := by decide +kernel
theorem upperRows_6 : MdIt.Gen.Unicode.upperTable_6.all rowUpperF = true := by decide +kernel
theorem upperRows_7 : MdIt.Gen.Unicode.upperTable_7.all rowUpperF = true := by decide +kernel
theorem upperRows_8 : MdIt.Gen.Unicode.upperTable_8.all rowUpperF = true := by decide +kernel
theorem upperRows_9 : MdIt.Gen.Unicode.upperTable_9.all rowUpperF = true := by decide +kernel
theorem upperRows_10 : MdIt.Gen.Unicode.upperTable_10.all rowUpperF = true := by decide +kernel
theorem upperRows_11 : MdIt.Gen.Unicode.upperTable_11.all rowUpperF = true := by decide +kernel
theorem upperRows_12 : MdIt.Gen.Unicode.upperTable_12.all rowUpperF = true := by decide +kernel
theorem upperRows_13 : MdIt.Gen.Unicode.upperTable_13.all rowUpperF = true := by decide +kernel
theorem upperRows_14 : MdIt.Gen.Unicode.upperTable_14.all rowUpperF = true := by decide +kernel
theorem upperRows_15 : MdIt.Gen.Unicode.upperTable_15.all rowUpperF = true := by decide +kernel
theorem upperRows_16 : MdIt.Gen.Unicode.upperTable_16.all rowUpperF = true := by decide +kernel
theorem upperRows_17 : MdIt.Gen.Unicode.upperTable_17.all rowUpperF = true := by decide +kernel
theorem upperRows_18 : MdIt.Gen.Unicode.upperTable_18.all rowUpperF = true := by decide +kernel
theorem upperRows_19 : MdIt.Gen.Unicode.upperTable_19.all rowUpperF = true := by decide +kernel
theorem upperRows_20 : MdIt.Gen.Unicode.upperTable_20.all rowUpperF = true := by decide +kernel
theorem upperRows_21 : MdIt.Gen.Unicode.upperTable_21.all rowUpperF = true := by decide +kernel
theorem upperRows_22 : MdIt.Gen.Unicode.upperTable_22.all rowUpperF = true := by decide +kernel
theorem upperRows_23 : MdIt.Gen.Unicode.upperTable_23.all rowUpperF = true := by decide +kernel
theorem upperRows_24 : MdIt.Gen.Unicode.upperTable_24.all rowUpperF = true := by decide +kernel

theorem lowerRows_all : MdIt.Gen.Unicode.lowerTableChunks.all (fun ch => ch.all rowLowerF) = true := by
  simp only [MdIt.Gen.Unicode.lowerTableChunks, List.all_cons, List.all_nil, Bool.and_true, lowerRows_0, lowerRows_1, lowerRows_2, lowerRows_3, lowerRows_4, lowerRows_5, lowerRows_6, lowerRows_7, lowerRows_8, lowerRows_9, lowerRows_10, lowerRows_11, lowerRows_12, lowerRows_13, lowerRows_14, lowerRows_15, lowerRows_16, lowerRows_17, lowerRows_18, lowerRows_19, lowerRows_20, lowerRows_21, lowerRows_22, lowerRows_23]

theorem upperRows_all : MdIt.Gen.Unicode.upperTableChunks.all (fun ch => ch.all rowUpperF) = true := by
  simp only [MdIt.Gen.Unicode.upperTableChunks, List.all_cons, List.all_nil, Bool.and_true, upperRows_0, upperRows_1, upperRows_2, upperRows_3, upperRows_4, upperRows_5, upperRows_6, upperRows_7, upperRows_8, upperRows_9, upperRows_10, upperRows_11, upperRows_12, upperRows_13, upperRows_14, upperRows_15, upperRows_16, upperRows_17, upperRows_18, upperRows_19, upperRows_20, upperRows_21, upperRows_22, upperRows_23, upperRows_24]

theorem lowerRows (r : Nat × List Nat) (hr : r ∈ MdIt.Gen.Unicode.lowerTable) : rowLowerF r = true := by
  unfold MdIt.Gen.Unicode.lowerTable at hr
  obtain ⟨ch, hch, hr⟩ := List.mem_flatten.mp hr
  have := lowerRows_all
  simp only [List.all_eq_true] at this
  exact this ch hch r hr

theorem upperRows (r : Nat × List Nat) (hr : r ∈ MdIt.Gen.Unicode.upperTable) : rowUpperF r = true := by
  unfold MdIt.Gen.Unicode.upperTable at hr
  obtain ⟨ch, hch, hr⟩ := List.mem_flatten.mp hr
  have := upperRows_all
  simp only [List.all_eq_true] at this
  exact this ch hch r hr

/-! ### the closure conditions hold for the tables of the linked std -/

theorem table_compat (t : List (Nat × List Nat)) (h : t.all rowCompat = true) :
    WsCompat (tableMap t) := by
  have key := tableMap_forall t
    (fun c v => (isWs c = true → v = [c]) ∧ (isWs c = false → v ≠ [] ∧ ∀ d ∈ v, isWs d = false))
    (by intro c _; exact ⟨fun _ => rfl, fun hc => ⟨by simp, by simp [hc]⟩⟩)
    (by
      intro r hr
      simp only [List.all_eq_true] at h
      have := h r hr
      simp only [rowCompat, Bool.and_eq_true, Bool.not_eq_true', List.all_eq_true,
        List.isEmpty_eq_false_iff] at this
      obtain ⟨⟨h1, h2⟩, h3⟩ := this
      exact ⟨fun hc => (by rw [h1] at hc; cases hc), fun _ => ⟨h2, h3⟩⟩)
  exact ⟨fun c hc => (key c).1 hc, fun c hc => (key c).2 hc⟩

theorem table_compat_lower : WsCompat Lt := table_compat _ lowerCompat_rows
theorem table_compat_upper : WsCompat Ut := table_compat _ upperCompat_rows

/-- **closure (lower) for the generated tables**: for every scalar value `c`,
`to_upper(to_lower(to_lower(c))) = to_upper(to_lower(c))` -/
theorem table_closure_lower : ∀ c, upperStr Ut (lowerStr Lt (Lt c)) = upperStr Ut (Lt c) := by
  apply tableMap_forall MdIt.Gen.Unicode.lowerTable
    (fun _ v => upperStr Ut (lowerStr Lt v) = upperStr Ut v)
  · intro c hc
    have : Lt c = [c] := tableMap_of_none _ c hc
    simp [lowerStr, this]
  · intro r hr
    exact rowLowerF_spec r (lowerRows r hr)

/-- **closure (upper) for the generated tables**: for every scalar value `c`,
`to_upper(to_lower(to_upper(c))) = to_upper(to_lower(c))` -/
theorem table_closure_upper : ∀ c, upperStr Ut (lowerStr Lt (Ut c)) = upperStr Ut (Lt c) := by
  apply tableMap_forall MdIt.Gen.Unicode.upperTable
    (fun c v => upperStr Ut (lowerStr Lt v) = upperStr Ut (Lt c))
  · intro c _
    simp [lowerStr]
  · intro r hr
    exact rowUpperF_spec r (upperRows r hr)

/-- the case tables of the linked Rust std satisfy every closure condition -/
theorem table_closure : Closure Lt Ut :=
  ⟨table_compat_lower, table_compat_upper, table_closure_lower, table_closure_upper⟩

/-- **C13 (case) for the real tables.** -/
theorem table_norm_case_invariant (s : List Nat) :
    Nt (lowerStr Lt s) = Nt s ∧ Nt (upperStr Ut s) = Nt s :=
  ⟨norm_case_invariant_lower table_closure s, norm_case_invariant_upper table_closure s⟩

/-- **double normalisation of definitions is harmless for the real tables** -/
theorem table_normalize_idem (s : List Nat) : Nt (Nt s) = Nt s := normalize_idem table_closure s

/-- the rows the final-sigma argument needs: Σ ↦ σ, and both sigmas upper-case to Σ -/
theorem table_sigma : Lt 0x3A3 = [0x3C3] ∧ Ut 0x3C2 = [0x3A3] ∧ Ut 0x3C3 = [0x3A3] ∧
    Lt 0x3C2 = [0x3C2] ∧ Lt 0x3C3 = [0x3C3] := by
  rw [← LtF_eq, ← UtF_eq]; decide +kernel

/-- **final sigma for the real tables**: whatever `str::to_lowercase` chooses for each Σ, the result of
`normalize_reference` is the model's -/
theorem table_sigma_irrelevant (t x : List Nat) (h : t.map sig = x.map sig) :
    upperStr Ut t = upperStr Ut x :=
  sigma_irrelevant Ut (by rw [table_sigma.2.1, table_sigma.2.2.1]) t x h

theorem table_norm_sigma (s : List Nat) : Nt (s.map sig) = Nt s :=
  norm_sigma Lt Ut (by decide)
    (by rw [table_sigma.2.2.2.1, table_sigma.2.2.2.2]; simp [upperStr, table_sigma.2.1, table_sigma.2.2.1]) s

/-- **C13 for the real tables**: first matching definition in document order, matching by `Nt` -/
theorem table_first_wins (defs : List Def) (l : List Nat) :
    lookup Nt (buildMap Nt defs) l = (defs.find? (labelMatches Nt l)).map (·.entry) :=
  first_wins Nt table_normalize_idem defs l

theorem table_resolves_iff (defs : List Def) (l : List Nat) :
    (lookup Nt (buildMap Nt defs) l).isSome = true ↔
      ∃ d ∈ defs, Nt d.label ≠ [] ∧ Nt d.label = Nt l :=
  resolves_iff Nt table_normalize_idem defs l

/-- **a use spelled with different case and different white space still resolves** -/
theorem table_resolves_variant (defs : List Def) (d : Def) (hd : d ∈ defs) (hne : Nt d.label ≠ [])
    (l l' : List Nat) (hws : WsEquiv d.label l')
    (hl : l = lowerStr Lt l' ∨ l = upperStr Ut l' ∨ l = l') :
    (lookup Nt (buildMap Nt defs) l).isSome = true := by
  rw [table_resolves_iff]
  refine ⟨d, hd, hne, ?_⟩
  have h1 : Nt d.label = Nt l' := norm_ws_invariant Lt Ut hws
  rcases hl with rfl | rfl | rfl
  · rw [h1, (table_norm_case_invariant l').1]
  · rw [h1, (table_norm_case_invariant l').2]
  · exact h1

/-! ### non-vacuity on the real tables -/

/-- ß, SS, ss, ẞ (U+1E9E) all match -/
example : Nt [0xDF] = [0x53, 0x53] ∧ Nt [0x53, 0x53] = [0x53, 0x53] ∧ Nt [0x73, 0x73] = [0x53, 0x53] ∧
    Nt [0x1E9E] = [0x53, 0x53] := by
  simp only [Nt_fast]; decide +kernel

/-- Σ, σ, ς all match -/
example : Nt [0x3A3] = [0x3A3] ∧ Nt [0x3C3] = [0x3A3] ∧ Nt [0x3C2] = [0x3A3] := by
  simp only [Nt_fast]; decide +kernel

/-- Kelvin sign U+212A, `k`, `K`; Angstrom sign U+212B, `å`, `Å`; the four thetas of the source comment -/
example : Nt [0x212A] = [0x4B] ∧ Nt [0x6B] = [0x4B] ∧ Nt [0x4B] = [0x4B] ∧
    Nt [0x212B] = Nt [0xE5] ∧ Nt [0xC5] = Nt [0xE5] ∧
    Nt [0x398, 0x3F4, 0x3B8, 0x3D1] = [0x398, 0x398, 0x398, 0x398] := by
  simp only [Nt_fast]; decide +kernel

/-- the ligature ﬃ (U+FB03) matches `FFI`; İ (U+0130) expands to `I` + U+0307;
the Turkic dotless ı (U+0131) is identified with `i` / `I` -/
example : Nt [0xFB03] = [0x46, 0x46, 0x49] ∧ Nt [0x130] = [0x49, 0x307] ∧ Nt [0x131] = Nt [0x69] := by
  simp only [Nt_fast]; decide +kernel

/-- white space and case together: `"  Foo \t\n bÄr\u{a0}"` and `"FOO\u{3000}Bär"` -/
example : Nt [32, 32, 70, 111, 111, 32, 9, 10, 32, 98, 0xC4, 114, 160]
    = Nt [70, 79, 79, 12288, 66, 0xE4, 114] := by
  simp only [Nt_fast]; decide +kernel

/-- but different letters do not match, and an all-white-space label normalises to nothing -/
example : Nt [0x61] ≠ Nt [0x62] ∧ Nt [32, 9, 160] = [] := by
  simp only [Nt_fast]; decide +kernel

end MdIt.Refs
