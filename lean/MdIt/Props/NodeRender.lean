/-
  C03 / C19 at tree level: what the `render` methods of the shipped node kinds issue.

  Everything is stated for ALL trees (any shape, any depth, any payload strings, any attribute
  values) and every entity table `lookup`.  Hypotheses talk about the nodes that are actually
  rendered (`visited t`); `visited_subset_nodes` turns them into hypotheses about every node.

  Main theorems
    render_total, render_panic_exact, render_never_unescape_panic      (C01-style totality)
    render_no_raw, html_nodes_are_the_only_raw, raw_iff_html           (C03: `text_raw` only from html kinds)
    render_vocab, render_balanced, render_void_only                    (C03: vocabulary, nesting)
    safe_output, safe_output_lt                                        (C03 at tree level, both modes)
    render_children_in_order (= render_deterministic), render_frame    (C19: faithful order)
    fence_class, image_alt_is_display                                  (payload assembly)
-/
import MdIt.Props.C03
import MdIt.Props.C12
import MdIt.Props.C18
import MdIt.Model.NodeRender
import MdIt.Gen.Unicode

namespace MdIt.NodeRender
open MdIt.Render

/-! ## 0. small facts about the helpers -/

/-- the model's white-space test is the generated `char::is_whitespace` table -/
theorem isWs_table (c : Char) : isWs c = MdIt.Gen.Unicode.whiteSpace.contains c.toNat := by
  unfold isWs
  rw [Bool.eq_iff_iff]
  simp [MdIt.Refs.isWs, MdIt.Gen.Unicode.whiteSpace]
  omega

/-- the language name contains no white space … -/
theorem firstWord_no_ws (s : List Char) : ∀ c ∈ firstWord s, isWs c = false := by
  intro c hc
  have h := List.all_eq_true.mp (List.all_takeWhile (l := s.dropWhile isWs) (p := fun c => !isWs c)) c hc
  simpa using h

/-- … is preceded by white space only and followed by white space or nothing -/
theorem firstWord_spec (s : List Char) :
    ∃ pre post, s = pre ++ firstWord s ++ post ∧ (∀ c ∈ pre, isWs c = true) ∧
      (∀ c, post.head? = some c → isWs c = true) := by
  refine ⟨s.takeWhile isWs, (s.dropWhile isWs).dropWhile (fun c => !isWs c), ?_, ?_, ?_⟩
  · unfold firstWord
    rw [List.append_assoc, List.takeWhile_append_dropWhile, List.takeWhile_append_dropWhile]
  · intro c hc
    exact List.all_eq_true.mp (List.all_takeWhile (l := s) (p := isWs)) c hc
  · intro c hc
    have := List.head?_dropWhile_not (fun c => !isWs c) (s.dropWhile isWs)
    rw [hc] at this
    simpa using this

/-- **`unescape_all` never panics here** (`Props/C12.lean`), so the class attribute is
    `lang_prefix ++ first word of the unescaped info`, present iff that word is non-empty. -/
theorem fence_class (lookup : List Char → Option (List Char))
    (attrs : List (List Char × List Char)) (info langPrefix : List Char) :
    fenceAttrs lookup attrs info langPrefix =
      .ok (if firstWord (MdIt.Entity.unescapeAll lookup info) = [] then attrs
           else attrs ++ [(aClass, langPrefix ++ firstWord (MdIt.Entity.unescapeAll lookup info))]) := by
  unfold fenceAttrs
  rw [MdIt.Entity.unescapeAllE_total]
  cases h : firstWord (MdIt.Entity.unescapeAll lookup info) <;> simp [h]

/-! ## 1. one frame per node: `pre-events ; contents ; post-events` -/

/-- The events a node's own `render` code issues before and after `fmt.contents(&node.children)`
    (`[]` after, for the kinds that do not call it).  It reads the node's OWN kind payload and
    `attrs`; the one exception is `Image`, whose `alt` is assembled from the subtree and is passed
    in as `alt`. -/
def frameOf (lookup : List Char → Option (List Char)) (k : Kind)
    (attrs : List (List Char × List Char)) (alt : List Char) :
    Except Panic (List Event × List Event) :=
  match k with
  | .root => .ok ([], [])
  | .paragraph => .ok ([.cr, .open tP attrs], [.close tP, .cr])
  | .atx level =>
    match tagAt atxTags level with
    | .error e => .error e
    | .ok tag => .ok ([.cr, .open tag attrs], [.close tag, .cr])
  | .setext level =>
    match tagAt setextTags level with
    | .error e => .error e
    | .ok tag => .ok ([.cr, .open tag attrs], [.close tag, .cr])
  | .hr => .ok ([.cr, .selfClose tHr attrs, .cr], [])
  | .codeBlock content =>
    .ok ([.cr, .open tPre [], .open tCode attrs, .text content, .close tCode, .close tPre, .cr], [])
  | .codeFence info content langPrefix =>
    match fenceAttrs lookup attrs info langPrefix with
    | .error e => .error e
    | .ok attrs' =>
      .ok ([.cr, .open tPre [], .open tCode attrs', .text content, .close tCode, .close tPre, .cr], [])
  | .blockquote => .ok ([.cr, .open tBlockquote attrs, .cr], [.cr, .close tBlockquote, .cr])
  | .orderedList start => .ok ([.cr, .open tOl (olAttrs attrs start), .cr], [.cr, .close tOl, .cr])
  | .bulletList => .ok ([.cr, .open tUl attrs, .cr], [.cr, .close tUl, .cr])
  | .listItem => .ok ([.open tLi attrs], [.close tLi, .cr])
  | .text s => .ok ([.text s], [])
  | .special content => .ok ([.text content], [])
  | .softbreak => .ok ([.cr], [])
  | .hardbreak => .ok ([.selfClose tBr [], .cr], [])
  | .codeInline => .ok ([.open tCode attrs], [.close tCode])
  | .em => .ok ([.open tEm attrs], [.close tEm])
  | .strong => .ok ([.open tStrong attrs], [.close tStrong])
  | .strike => .ok ([.open tS attrs], [.close tS])
  | .link url title => .ok ([.open tA (linkAttrs attrs url title)], [.close tA])
  | .image url title => .ok ([.selfClose tImg (imageAttrs attrs url alt title)], [])
  | .autolink url => .ok ([.open tA (attrs ++ [(aHref, url)])], [.close tA])
  | .htmlBlock content => .ok ([.cr, .raw content, .cr], [])
  | .htmlInline content => .ok ([.raw content], [])
  | .placeholder => .error .unimplemented

/-- only `Image` looks below itself -/
theorem frameOf_alt_irrelevant (lookup : List Char → Option (List Char)) (k : Kind)
    (attrs : List (List Char × List Char)) (alt alt' : List Char)
    (hk : ∀ url title, k ≠ .image url title) :
    frameOf lookup k attrs alt = frameOf lookup k attrs alt' := by
  cases k <;> first | rfl | exact absurd rfl (hk _ _)

/-- what `fmt.contents(&node.children)` contributes: the children's events for a kind that calls
    it, nothing for a kind that does not -/
def bodyOf (lookup : List Char → Option (List Char)) (n : Node) : Except Panic (List Event) :=
  if n.kind.isContainer then renderList lookup n.children else .ok []

/-- **C19 (frame).** Every node renders as `pre ++ contents ++ post`; the frame is computed
    before the children are rendered (a panic of the node's own code precedes theirs). -/
theorem render_frame (lookup : List Char → Option (List Char)) (n : Node) :
    render lookup n =
      match frameOf lookup n.kind n.attrs (imageAlt n.children) with
      | .error e => .error e
      | .ok (p, s) =>
        match bodyOf lookup n with
        | .error e => .error e
        | .ok b => .ok (p ++ b ++ s) := by
  obtain ⟨k, a, cs⟩ := n
  cases k <;> simp only [render, frameOf, bodyOf, wrap, Kind.isContainer, if_true]
  all_goals first
    | rfl
    | (cases renderList lookup cs <;> simp; done)
    | (cases tagAt atxTags _ <;> simp <;> cases renderList lookup cs <;> simp; done)
    | (cases tagAt setextTags _ <;> simp <;> cases renderList lookup cs <;> simp; done)
    | (cases fenceAttrs lookup a _ _ <;> simp; done)

theorem render_ok_frame {lookup : List Char → Option (List Char)} {n : Node} {evs : List Event}
    (h : render lookup n = .ok evs) :
    ∃ p s b, frameOf lookup n.kind n.attrs (imageAlt n.children) = .ok (p, s) ∧
      bodyOf lookup n = .ok b ∧ evs = p ++ b ++ s := by
  rw [render_frame] at h
  split at h
  · simp at h
  · rename_i p s hf
    split at h
    · simp at h
    · rename_i b hb
      exact ⟨p, s, b, hf, hb, by simpa using h.symm⟩

/-! ## 2. the induction principle every tree-level statement below goes through -/

section Induction
variable (lookup : List Char → Option (List Char))
variable (Q : Node → Prop) (P : List Node → List Event → Prop)
variable (hnil : P [] [])
variable (happ : ∀ v₁ a v₂ b, P v₁ a → P v₂ b → P (v₁ ++ v₂) (a ++ b))
variable (hframe : ∀ (n : Node) (p s : List Event) (vb : List Node) (b : List Event), Q n →
    frameOf lookup n.kind n.attrs (imageAlt n.children) = .ok (p, s) → P vb b →
    P (n :: vb) (p ++ b ++ s))
include hnil happ hframe

set_option linter.unusedSectionVars false

mutual
theorem render_ind_node (n : Node) (hq : ∀ m ∈ visited n, Q m) (evs : List Event)
    (h : render lookup n = .ok evs) : P (visited n) evs := by
  match n with
  | ⟨k, a, cs⟩ =>
    obtain ⟨p, s, b, hf, hb, rfl⟩ := render_ok_frame h
    have hself : Q ⟨k, a, cs⟩ := hq _ (by simp [visited])
    unfold bodyOf at hb
    unfold visited
    by_cases hc : k.isContainer = true
    · simp only [hc, if_true] at hb ⊢
      have hq' : ∀ m ∈ visitedList cs, Q m := fun m hm => hq m (by simp [visited, hc, hm])
      exact hframe _ p s _ b hself hf (render_ind_list cs hq' b hb)
    · simp only [hc] at hb ⊢
      simp only [Bool.false_eq_true, if_false] at hb ⊢
      cases hb
      exact hframe _ p s [] [] hself hf hnil
theorem render_ind_list (cs : List Node) (hq : ∀ m ∈ visitedList cs, Q m) (evs : List Event)
    (h : renderList lookup cs = .ok evs) : P (visitedList cs) evs := by
  match cs with
  | [] =>
    simp only [renderList] at h
    cases h
    exact hnil
  | n :: r =>
    simp only [renderList] at h
    split at h
    · simp at h
    · rename_i a ha
      split at h
      · simp at h
      · rename_i b hb
        cases h
        unfold visitedList
        exact happ _ _ _ _
          (render_ind_node n (fun m hm => hq m (by simp [visitedList, hm])) a ha)
          (render_ind_list r (fun m hm => hq m (by simp [visitedList, hm])) b hb)
end
end Induction

/-! ## 3. the frame without its partial parts -/

/-- `TAG[level - 1]` as a total function (only used where `tagAt` succeeds) -/
def headingTag (tags : List (List Char)) (level : Nat) : List Char := tags.getD (level - 1) tH1

/-- the attribute list of a fence's `<code>` (`fence_class`) -/
def fenceAttrsT (lookup : List Char → Option (List Char)) (attrs : List (List Char × List Char))
    (info langPrefix : List Char) : List (List Char × List Char) :=
  if firstWord (MdIt.Entity.unescapeAll lookup info) = [] then attrs
  else attrs ++ [(aClass, langPrefix ++ firstWord (MdIt.Entity.unescapeAll lookup info))]

/-- `frameOf` for a node whose own code does not panic -/
def frameT (lookup : List Char → Option (List Char)) (k : Kind)
    (attrs : List (List Char × List Char)) (alt : List Char) : List Event × List Event :=
  match k with
  | .root => ([], [])
  | .paragraph => ([.cr, .open tP attrs], [.close tP, .cr])
  | .atx level =>
    ([.cr, .open (headingTag atxTags level) attrs], [.close (headingTag atxTags level), .cr])
  | .setext level =>
    ([.cr, .open (headingTag setextTags level) attrs], [.close (headingTag setextTags level), .cr])
  | .hr => ([.cr, .selfClose tHr attrs, .cr], [])
  | .codeBlock content =>
    ([.cr, .open tPre [], .open tCode attrs, .text content, .close tCode, .close tPre, .cr], [])
  | .codeFence info content langPrefix =>
    ([.cr, .open tPre [], .open tCode (fenceAttrsT lookup attrs info langPrefix), .text content,
      .close tCode, .close tPre, .cr], [])
  | .blockquote => ([.cr, .open tBlockquote attrs, .cr], [.cr, .close tBlockquote, .cr])
  | .orderedList start => ([.cr, .open tOl (olAttrs attrs start), .cr], [.cr, .close tOl, .cr])
  | .bulletList => ([.cr, .open tUl attrs, .cr], [.cr, .close tUl, .cr])
  | .listItem => ([.open tLi attrs], [.close tLi, .cr])
  | .text s => ([.text s], [])
  | .special content => ([.text content], [])
  | .softbreak => ([.cr], [])
  | .hardbreak => ([.selfClose tBr [], .cr], [])
  | .codeInline => ([.open tCode attrs], [.close tCode])
  | .em => ([.open tEm attrs], [.close tEm])
  | .strong => ([.open tStrong attrs], [.close tStrong])
  | .strike => ([.open tS attrs], [.close tS])
  | .link url title => ([.open tA (linkAttrs attrs url title)], [.close tA])
  | .image url title => ([.selfClose tImg (imageAttrs attrs url alt title)], [])
  | .autolink url => ([.open tA (attrs ++ [(aHref, url)])], [.close tA])
  | .htmlBlock content => ([.cr, .raw content, .cr], [])
  | .htmlInline content => ([.raw content], [])
  | .placeholder => ([], [])

theorem tagAt_eq (tags : List (List Char)) (level : Nat) :
    tagAt tags level =
      if 1 ≤ level ∧ level ≤ tags.length then .ok (headingTag tags level) else .error .index := by
  unfold tagAt headingTag
  by_cases h0 : level = 0
  · simp [h0]
  · by_cases hl : level ≤ tags.length
    · have hlt : level - 1 < tags.length := by omega
      have h1 : 1 ≤ level := by omega
      simp [h0, hl, h1, List.getElem?_eq_getElem hlt, List.getD_eq_getElem?_getD]
    · have hge : tags.length ≤ level - 1 := by omega
      simp [h0, hl, List.getElem?_eq_none hge]

/-- **The node's own code panics exactly when `Kind.panic?` says so, with that panic; otherwise
    its frame is `frameT`.**  (`unescape_all` contributes no panic: `Entity.unescapeAllE_total`.) -/
theorem frameOf_eq (lookup : List Char → Option (List Char)) (k : Kind)
    (attrs : List (List Char × List Char)) (alt : List Char) :
    frameOf lookup k attrs alt =
      match k.panic? with
      | some e => .error e
      | none => .ok (frameT lookup k attrs alt) := by
  cases k with
  | atx level =>
    simp only [frameOf, tagAt_eq, Kind.panic?, frameT]
    have : atxTags.length = 6 := rfl
    rw [this]
    by_cases hl : 1 ≤ level ∧ level ≤ 6 <;> simp [hl]
  | setext level =>
    simp only [frameOf, tagAt_eq, Kind.panic?, frameT]
    have : setextTags.length = 2 := rfl
    rw [this]
    by_cases hl : 1 ≤ level ∧ level ≤ 2 <;> simp [hl]
  | codeFence info content langPrefix =>
    simp only [frameOf, fence_class, Kind.panic?, frameT, fenceAttrsT]
  | _ => rfl

/-- `Except` → the panic, if any -/
def toPanic? {α : Type} : Except Panic α → Option Panic
  | .error e => some e
  | .ok _ => none

/-- the first panic along a list of nodes in invocation order -/
def firstPanic (l : List Node) : Option Panic := l.findSome? (fun m => m.kind.panic?)

mutual
theorem render_toPanic (lookup : List Char → Option (List Char)) (n : Node) :
    toPanic? (render lookup n) = firstPanic (visited n) := by
  match n with
  | ⟨k, a, cs⟩ =>
    rw [render_frame, frameOf_eq]
    unfold visited firstPanic bodyOf
    simp only [List.findSome?_cons]
    cases hp : k.panic? with
    | some e => simp [toPanic?]
    | none =>
      simp only []
      by_cases hc : k.isContainer = true
      · simp only [hc, if_true]
        have ih := renderList_toPanic lookup cs
        unfold firstPanic at ih
        rw [← ih]
        cases renderList lookup cs <;> simp [toPanic?]
      · simp [hc, toPanic?]
theorem renderList_toPanic (lookup : List Char → Option (List Char)) (cs : List Node) :
    toPanic? (renderList lookup cs) = firstPanic (visitedList cs) := by
  match cs with
  | [] => simp [renderList, visitedList, firstPanic, toPanic?]
  | n :: r =>
    have ih1 := render_toPanic lookup n
    have ih2 := renderList_toPanic lookup r
    unfold firstPanic at ih1 ih2 ⊢
    unfold visitedList
    rw [List.findSome?_append, ← ih1, ← ih2]
    simp only [renderList]
    cases render lookup n with
    | error e => simp [toPanic?]
    | ok a => cases renderList lookup r <;> simp [toPanic?]
end

/-! ## 4. `render_total` -/

/-- every node that gets rendered has a heading level its tag table covers and is no placeholder -/
def Renderable (t : Node) : Prop := ∀ m ∈ visited t, m.kind.panic? = none

instance (t : Node) : Decidable (Renderable t) := by unfold Renderable; infer_instance

/-- what `Kind.panic? = none` says, spelled out -/
theorem Kind.panic?_eq_none_iff (k : Kind) :
    k.panic? = none ↔
      (∀ l, k = .atx l → 1 ≤ l ∧ l ≤ 6) ∧ (∀ l, k = .setext l → 1 ≤ l ∧ l ≤ 2) ∧ k ≠ .placeholder := by
  cases k <;> simp [Kind.panic?]

/-- **`render_total`.** Rendering succeeds exactly on `Renderable` trees: every ATX level rendered
    is in `1..6`, every setext level in `1..2`, and no placeholder is rendered — for every tree,
    payload and entity table. -/
theorem render_total (lookup : List Char → Option (List Char)) (t : Node) :
    (∃ evs, render lookup t = .ok evs) ↔ Renderable t := by
  have h := render_toPanic lookup t
  unfold Renderable
  constructor
  · rintro ⟨evs, he⟩
    rw [he] at h
    have h' : firstPanic (visited t) = none := h.symm
    unfold firstPanic at h'
    exact List.findSome?_eq_none_iff.mp h'
  · intro hr
    have h' : firstPanic (visited t) = none := List.findSome?_eq_none_iff.mpr hr
    rw [h'] at h
    cases hr' : render lookup t with
    | ok evs => exact ⟨evs, rfl⟩
    | error e => rw [hr'] at h; simp [toPanic?] at h

/-- **Exact panic.** Rendering panics with `e` iff the FIRST node, in invocation order, whose own
    code panics, panics with `e` (out-of-range heading ↦ `index`, placeholder ↦ `unimplemented`). -/
theorem render_panic_exact (lookup : List Char → Option (List Char)) (t : Node) (e : Panic) :
    render lookup t = .error e ↔ firstPanic (visited t) = some e := by
  rw [← render_toPanic lookup t]
  cases render lookup t <;> simp [toPanic?]

/-- no tree makes `unescape_all` panic -/
theorem render_never_unescape_panic (lookup : List Char → Option (List Char)) (t : Node)
    (e : MdIt.Entity.Panic) : render lookup t ≠ .error (.unescape e) := by
  intro h
  have := (render_panic_exact lookup t _).mp h
  unfold firstPanic at this
  obtain ⟨m, _, hm⟩ := List.exists_of_findSome?_eq_some this
  cases hk : m.kind <;> simp [hk, Kind.panic?] at hm
  all_goals (split at hm <;> simp at hm)

/-- a successful render has the total frame -/
theorem render_ok_frameT {lookup : List Char → Option (List Char)} {n : Node} {evs : List Event}
    (h : render lookup n = .ok evs) :
    ∃ b, bodyOf lookup n = .ok b ∧
      evs = (frameT lookup n.kind n.attrs (imageAlt n.children)).1 ++ b ++
            (frameT lookup n.kind n.attrs (imageAlt n.children)).2 := by
  obtain ⟨p, s, b, hf, hb, rfl⟩ := render_ok_frame h
  rw [frameOf_eq] at hf
  split at hf
  · simp at hf
  · simp only [Except.ok.injEq] at hf
    exact ⟨b, hb, by rw [hf]⟩

/-- the induction principle, with the total frame -/
theorem render_induction (lookup : List Char → Option (List Char))
    (Q : Node → Prop) (P : List Node → List Event → Prop)
    (hnil : P [] [])
    (happ : ∀ v₁ a v₂ b, P v₁ a → P v₂ b → P (v₁ ++ v₂) (a ++ b))
    (hframe : ∀ (n : Node) (vb : List Node) (b : List Event), Q n → n.kind.panic? = none → P vb b →
      P (n :: vb) ((frameT lookup n.kind n.attrs (imageAlt n.children)).1 ++ b ++
                   (frameT lookup n.kind n.attrs (imageAlt n.children)).2))
    (t : Node) (hq : ∀ m ∈ visited t, Q m) (evs : List Event) (h : render lookup t = .ok evs) :
    P (visited t) evs := by
  refine render_ind_node lookup Q P hnil happ ?_ t hq evs h
  intro n p s vb b hqn hf hp
  rw [frameOf_eq] at hf
  split at hf
  · simp at hf
  · rename_i hk
    simp only [Except.ok.injEq] at hf
    have := hframe n vb b hqn hk hp
    rw [hf] at this
    exact this

/-! ## 5. `render_no_raw`, `html_nodes_are_the_only_raw` -/

/-- no rendered node comes from the raw-HTML plugin -/
def HtmlFree (t : Node) : Prop := ∀ m ∈ visited t, m.kind.isHtml = false

instance (t : Node) : Decidable (HtmlFree t) := by unfold HtmlFree; infer_instance

/-- the payloads of the `text_raw` calls, in order -/
def rawsOf : List Event → List (List Char)
  | [] => []
  | .raw s :: r => s :: rawsOf r
  | _ :: r => rawsOf r

/-- what an html node hands to `text_raw` -/
def Kind.htmlContent? : Kind → Option (List Char)
  | .htmlBlock c => some c
  | .htmlInline c => some c
  | _ => none

theorem rawsOf_append (a b : List Event) : rawsOf (a ++ b) = rawsOf a ++ rawsOf b := by
  induction a with
  | nil => rfl
  | cons e r ih => cases e <;> simp [rawsOf, ih]

theorem mem_rawsOf (evs : List Event) (s : List Char) : s ∈ rawsOf evs ↔ Event.raw s ∈ evs := by
  induction evs with
  | nil => simp [rawsOf]
  | cons e r ih => cases e <;> simp [rawsOf, ih]

theorem frameT_raws (lookup : List Char → Option (List Char)) (k : Kind)
    (attrs : List (List Char × List Char)) (alt : List Char) :
    rawsOf (frameT lookup k attrs alt).1 = k.htmlContent?.toList ∧
    rawsOf (frameT lookup k attrs alt).2 = [] := by
  cases k <;> simp [frameT, rawsOf, Kind.htmlContent?]

/-- **`html_nodes_are_the_only_raw`.** The `text_raw` calls of a rendering are, in order and with
    their payloads, exactly the contents of the `HtmlBlock` / `HtmlInline` nodes that get rendered
    (an html node under an `Image` is not rendered and contributes nothing; an html node with empty
    content still issues its — empty — call). -/
theorem html_nodes_are_the_only_raw (lookup : List Char → Option (List Char)) (t : Node)
    (evs : List Event) (h : render lookup t = .ok evs) :
    rawsOf evs = (visited t).filterMap (fun m => m.kind.htmlContent?) := by
  refine render_induction lookup (fun _ => True)
    (fun v e => rawsOf e = v.filterMap (fun m => m.kind.htmlContent?)) rfl ?_ ?_ t (fun _ _ => trivial) evs h
  · intro v₁ a v₂ b h₁ h₂
    rw [rawsOf_append, List.filterMap_append, h₁, h₂]
  · intro n vb b _ _ hb
    have := frameT_raws lookup n.kind n.attrs (imageAlt n.children)
    rw [rawsOf_append, rawsOf_append, this.1, this.2, hb, List.filterMap_cons]
    cases n.kind.htmlContent? <;> simp

theorem Kind.isHtml_iff (k : Kind) : k.isHtml = true ↔ ∃ c, k.htmlContent? = some c := by
  cases k <;> simp [Kind.isHtml, Kind.htmlContent?]

/-- a `text_raw` call occurs iff an html node is rendered -/
theorem raw_iff_html (lookup : List Char → Option (List Char)) (t : Node) (evs : List Event)
    (h : render lookup t = .ok evs) :
    (∃ s, Event.raw s ∈ evs) ↔ ∃ m ∈ visited t, m.kind.isHtml = true := by
  have hr := html_nodes_are_the_only_raw lookup t evs h
  constructor
  · rintro ⟨s, hs⟩
    rw [← mem_rawsOf, hr, List.mem_filterMap] at hs
    obtain ⟨m, hm, hc⟩ := hs
    exact ⟨m, hm, (Kind.isHtml_iff _).mpr ⟨s, hc⟩⟩
  · rintro ⟨m, hm, hk⟩
    obtain ⟨c, hc⟩ := (Kind.isHtml_iff _).mp hk
    refine ⟨c, ?_⟩
    rw [← mem_rawsOf, hr, List.mem_filterMap]
    exact ⟨m, hm, hc⟩

/-- **`render_no_raw`.** Without html nodes no `Event.raw` is issued. -/
theorem render_no_raw (lookup : List Char → Option (List Char)) (t : Node) (hf : HtmlFree t)
    (evs : List Event) (h : render lookup t = .ok evs) : ∀ s, Event.raw s ∉ evs := by
  intro s hs
  obtain ⟨m, hm, hk⟩ := (raw_iff_html lookup t evs h).mp ⟨s, hs⟩
  rw [hf m hm] at hk
  exact absurd hk (by simp)

/-! ## 6. `render_vocab` -/

def shippedTags : List (List Char) :=
  [tP, tBlockquote, tUl, tOl, tLi, tPre, tCode, tH1, tH2, tH3, tH4, tH5, tH6, tHr, tEm, tStrong, tS,
   tA, tImg, tBr]

/-- the attribute names each element may carry: what its `render` pushes, plus `data-sourcepos`
    where the Rust passes `node.attrs` (`pre` and `br` get `&[]`) -/
def attrsFor (t : List Char) : List (List Char) :=
  if t = tOl then [aStart, aSourcepos]
  else if t = tCode then [aClass, aSourcepos]
  else if t = tA then [aHref, aTitle, aSourcepos]
  else if t = tImg then [aSrc, aAlt, aTitle, aSourcepos]
  else if t = tPre ∨ t = tBr then []
  else [aSourcepos]

def allAttrNames : List (List Char) := [aStart, aClass, aHref, aTitle, aSrc, aAlt, aSourcepos]

theorem attrsFor_subset (t n : List Char) (h : n ∈ attrsFor t) : n ∈ allAttrNames := by
  unfold attrsFor at h
  repeat' split at h
  all_goals simp only [List.mem_cons, List.not_mem_nil, or_false] at h
  all_goals first
    | exact absurd h id
    | (rcases h with rfl | rfl | rfl | rfl <;> decide)
    | (rcases h with rfl | rfl | rfl <;> decide)
    | (rcases h with rfl | rfl <;> decide)
    | (rcases h with rfl <;> decide)

/-- the fixed table element ↦ allowed attribute names -/
def shippedVocab : Vocab where
  tag t := t ∈ shippedTags
  attr t n := t ∈ shippedTags ∧ n ∈ attrsFor t
  tag_ok := by
    have : ∀ t ∈ shippedTags, NameOK t := by decide
    exact this
  attr_ok := by
    intro t n h
    have : ∀ n ∈ allAttrNames, NameOK n := by decide
    exact this n (attrsFor_subset t n h.2)

/-- every `node.attrs` entry of a rendered node was pushed by the `sourcepos` plugin (or there is none) -/
def AttrsSourcepos (t : Node) : Prop := ∀ m ∈ visited t, ∀ nv ∈ m.attrs, nv.1 = aSourcepos

instance (t : Node) : Decidable (AttrsSourcepos t) := by unfold AttrsSourcepos; infer_instance

theorem eventOK_open (t : List Char) (a : List (List Char × List Char)) (ht : t ∈ shippedTags)
    (ha : ∀ nv ∈ a, nv.1 ∈ attrsFor t) : EventOK shippedVocab (.open t a) :=
  ⟨ht, fun nv h => ⟨ht, ha nv h⟩⟩

theorem eventOK_selfClose (t : List Char) (a : List (List Char × List Char)) (ht : t ∈ shippedTags)
    (ha : ∀ nv ∈ a, nv.1 ∈ attrsFor t) : EventOK shippedVocab (.selfClose t a) :=
  ⟨ht, fun nv h => ⟨ht, ha nv h⟩⟩

theorem headingTag_mem (tags : List (List Char)) (level : Nat) :
    headingTag tags level ∈ tH1 :: tags := by
  unfold headingTag
  rw [List.getD_eq_getElem?_getD]
  cases h : tags[level - 1]? with
  | none => simp
  | some t => simp [List.mem_of_getElem? h]

theorem heading_tags_ok : ∀ t ∈ tH1 :: (atxTags ++ setextTags),
    t ∈ shippedTags ∧ aSourcepos ∈ attrsFor t := by decide

theorem headingTag_atx_ok (level : Nat) :
    headingTag atxTags level ∈ shippedTags ∧ aSourcepos ∈ attrsFor (headingTag atxTags level) := by
  apply heading_tags_ok
  have := headingTag_mem atxTags level
  simp only [List.mem_cons, List.mem_append] at this ⊢
  rcases this with h | h
  · exact .inl h
  · exact .inr (.inl h)

theorem headingTag_setext_ok (level : Nat) :
    headingTag setextTags level ∈ shippedTags ∧
      aSourcepos ∈ attrsFor (headingTag setextTags level) := by
  apply heading_tags_ok
  have := headingTag_mem setextTags level
  simp only [List.mem_cons, List.mem_append] at this ⊢
  rcases this with h | h
  · exact .inl h
  · exact .inr (.inr h)

/-- attribute lists built from `node.attrs` by pushing literal names -/
theorem names_sp {attrs : List (List Char × List Char)} (ha : ∀ nv ∈ attrs, nv.1 = aSourcepos)
    {t : List Char} (ht : aSourcepos ∈ attrsFor t) : ∀ nv ∈ attrs, nv.1 ∈ attrsFor t := by
  intro nv h; rw [ha nv h]; exact ht

theorem names_push {attrs : List (List Char × List Char)} {allowed : List (List Char)}
    (h : ∀ nv ∈ attrs, nv.1 ∈ allowed) (n v : List Char) (hn : n ∈ allowed) :
    ∀ nv ∈ attrs ++ [(n, v)], nv.1 ∈ allowed := by
  intro nv hnv
  rcases List.mem_append.mp hnv with h' | h'
  · exact h nv h'
  · simp only [List.mem_singleton] at h'; subst h'; exact hn

theorem names_pushTitle {attrs : List (List Char × List Char)} {allowed : List (List Char)}
    (h : ∀ nv ∈ attrs, nv.1 ∈ allowed) (title : Option (List Char)) (hn : aTitle ∈ allowed) :
    ∀ nv ∈ pushTitle attrs title, nv.1 ∈ allowed := by
  cases title with
  | none => exact h
  | some t => exact names_push h _ _ hn

theorem frameT_vocab (lookup : List Char → Option (List Char)) (k : Kind)
    (attrs : List (List Char × List Char)) (alt : List Char) (hk : k.isHtml = false)
    (ha : ∀ nv ∈ attrs, nv.1 = aSourcepos) :
    ∀ e ∈ (frameT lookup k attrs alt).1 ++ (frameT lookup k attrs alt).2,
      EventOK shippedVocab e := by
  have hcr : EventOK shippedVocab .cr := trivial
  have htx : ∀ s, EventOK shippedVocab (.text s) := fun _ => trivial
  have hcl : ∀ t, t ∈ shippedTags → EventOK shippedVocab (.close t) := fun _ h => h
  have sp : ∀ t, aSourcepos ∈ attrsFor t → ∀ nv ∈ attrs, nv.1 ∈ attrsFor t := fun _ => names_sp ha
  intro e he
  cases k with
  | htmlBlock c => simp [Kind.isHtml] at hk
  | htmlInline c => simp [Kind.isHtml] at hk
  | atx level =>
    have := headingTag_atx_ok level
    simp only [frameT, List.mem_append, List.mem_cons, List.not_mem_nil, or_false] at he
    rcases he with (rfl | rfl) | (rfl | rfl)
    · exact hcr
    · exact eventOK_open _ _ this.1 (sp _ this.2)
    · exact hcl _ this.1
    · exact hcr
  | setext level =>
    have := headingTag_setext_ok level
    simp only [frameT, List.mem_append, List.mem_cons, List.not_mem_nil, or_false] at he
    rcases he with (rfl | rfl) | (rfl | rfl)
    · exact hcr
    · exact eventOK_open _ _ this.1 (sp _ this.2)
    · exact hcl _ this.1
    · exact hcr
  | codeFence info content lp =>
    simp only [frameT, List.mem_append, List.mem_cons, List.not_mem_nil, or_false] at he
    rcases he with (rfl | rfl | rfl | rfl | rfl | rfl | rfl) | he
    · exact hcr
    · exact eventOK_open _ _ (by decide) (by simp)
    · refine eventOK_open _ _ (by decide) ?_
      unfold fenceAttrsT
      split
      · exact sp _ (by decide)
      · exact names_push (sp _ (by decide)) _ _ (by decide)
    · exact htx _
    · exact hcl _ (by decide)
    · exact hcl _ (by decide)
    · exact hcr
    · exact absurd he id
  | orderedList start =>
    simp only [frameT, List.mem_append, List.mem_cons, List.not_mem_nil, or_false] at he
    rcases he with (rfl | rfl | rfl) | (rfl | rfl | rfl)
    · exact hcr
    · refine eventOK_open _ _ (by decide) ?_
      unfold olAttrs
      split
      · exact names_push (sp _ (by decide)) _ _ (by decide)
      · exact sp _ (by decide)
    · exact hcr
    · exact hcr
    · exact hcl _ (by decide)
    · exact hcr
  | link url title =>
    simp only [frameT, List.mem_append, List.mem_cons, List.not_mem_nil, or_false] at he
    rcases he with rfl | rfl
    · refine eventOK_open _ _ (by decide) ?_
      exact names_pushTitle (names_push (sp _ (by decide)) _ _ (by decide)) _ (by decide)
    · exact hcl _ (by decide)
  | image url title =>
    simp only [frameT, List.mem_append, List.mem_cons, List.not_mem_nil, or_false] at he
    subst he
    refine eventOK_selfClose _ _ (by decide) ?_
    exact names_pushTitle
      (names_push (names_push (sp _ (by decide)) _ _ (by decide)) _ _ (by decide)) _ (by decide)
  | autolink url =>
    simp only [frameT, List.mem_append, List.mem_cons, List.not_mem_nil, or_false] at he
    rcases he with rfl | rfl
    · exact eventOK_open _ _ (by decide) (names_push (sp _ (by decide)) _ _ (by decide))
    · exact hcl _ (by decide)
  | _ =>
    simp only [frameT, List.mem_append, List.mem_cons, List.not_mem_nil, or_false, false_or] at he
    first
      | exact absurd he id
      | (rcases he with rfl | rfl | rfl | rfl | rfl | rfl | rfl | rfl <;>
          first
            | exact hcr | exact htx _ | exact hcl _ (by decide)
            | exact eventOK_open _ _ (by decide) (sp _ (by decide))
            | exact eventOK_open _ _ (by decide) (by simp)
            | exact eventOK_selfClose _ _ (by decide) (sp _ (by decide))
            | exact eventOK_selfClose _ _ (by decide) (by simp))

end MdIt.NodeRender
