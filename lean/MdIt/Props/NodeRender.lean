/-
  C03 / C19 at tree level: what the `render` methods of the shipped node kinds issue.

  Everything is stated for ALL trees (any shape, any depth, any payload strings, any attribute
  values) and every entity table `lookup`.  Hypotheses talk about the nodes that are actually
  rendered (`visited t`); `visited_subset_nodes` turns them into hypotheses about every node.

  Main theorems
    render_total, render_panic_exact, render_never_unescape_panic      (C01-style totality)
    render_no_raw, html_nodes_are_the_only_raw, raw_iff_html           (C03: `text_raw` only from html kinds)
    render_vocab, render_balanced, render_void_only                    (C03: vocabulary, nesting)
    safe_output, safe_output_lt                                        (C03 at tree level, both modes)
    render_children_in_order (= render_deterministic), render_frame    (C19: faithful order)
    fence_class, image_alt_is_display                                  (payload assembly)
-/
import MdIt.Props.C03
import MdIt.Props.C12
import MdIt.Props.C18
import MdIt.Model.NodeRender
import MdIt.Gen.Unicode

namespace MdIt.NodeRender
open MdIt.Render

/-! ## 0. small facts about the helpers -/

/-- the model's white-space test is the generated `char::is_whitespace` table -/
theorem isWs_table (c : Char) : isWs c = MdIt.Gen.Unicode.whiteSpace.contains c.toNat := by
  unfold isWs
  rw [Bool.eq_iff_iff]
  simp [MdIt.Refs.isWs, MdIt.Gen.Unicode.whiteSpace]
  omega

/-- the language name contains no white space … -/
theorem firstWord_no_ws (s : List Char) : ∀ c ∈ firstWord s, isWs c = false := by
  intro c hc
  have h := List.all_eq_true.mp (List.all_takeWhile (l := s.dropWhile isWs) (p := fun c => !isWs c)) c hc
  simpa using h

/-- … is preceded by white space only and followed by white space or nothing -/
theorem firstWord_spec (s : List Char) :
    ∃ pre post, s = pre ++ firstWord s ++ post ∧ (∀ c ∈ pre, isWs c = true) ∧
      (∀ c, post.head? = some c → isWs c = true) := by
  refine ⟨s.takeWhile isWs, (s.dropWhile isWs).dropWhile (fun c => !isWs c), ?_, ?_, ?_⟩
  · unfold firstWord
    rw [List.append_assoc, List.takeWhile_append_dropWhile, List.takeWhile_append_dropWhile]
  · intro c hc
    exact List.all_eq_true.mp (List.all_takeWhile (l := s) (p := isWs)) c hc
  · intro c hc
    have := List.head?_dropWhile_not (fun c => !isWs c) (s.dropWhile isWs)
    rw [hc] at this
    simpa using this

/-- **`unescape_all` never panics here** (`Props/C12.lean`), so the class attribute is
    `lang_prefix ++ first word of the unescaped info`, present iff that word is non-empty. -/
theorem fence_class (lookup : List Char → Option (List Char))
    (attrs : List (List Char × List Char)) (info langPrefix : List Char) :
    fenceAttrs lookup attrs info langPrefix =
      .ok (if firstWord (MdIt.Entity.unescapeAll lookup info) = [] then attrs
           else attrs ++ [(aClass, langPrefix ++ firstWord (MdIt.Entity.unescapeAll lookup info))]) := by
  unfold fenceAttrs
  rw [MdIt.Entity.unescapeAllE_total]
  cases h : firstWord (MdIt.Entity.unescapeAll lookup info) <;> simp [h]

/-! ## 1. one frame per node: `pre-events ; contents ; post-events` -/

/-- The events a node's own `render` code issues before and after `fmt.contents(&node.children)`
    (`[]` after, for the kinds that do not call it).  It reads the node's OWN kind payload and
    `attrs`; the one exception is `Image`, whose `alt` is assembled from the subtree and is passed
    in as `alt`. -/
def frameOf (lookup : List Char → Option (List Char)) (k : Kind)
    (attrs : List (List Char × List Char)) (alt : List Char) :
    Except Panic (List Event × List Event) :=
  match k with
  | .root => .ok ([], [])
  | .paragraph => .ok ([.cr, .open tP attrs], [.close tP, .cr])
  | .atx level =>
    match tagAt atxTags level with
    | .error e => .error e
    | .ok tag => .ok ([.cr, .open tag attrs], [.close tag, .cr])
  | .setext level =>
    match tagAt setextTags level with
    | .error e => .error e
    | .ok tag => .ok ([.cr, .open tag attrs], [.close tag, .cr])
  | .hr => .ok ([.cr, .selfClose tHr attrs, .cr], [])
  | .codeBlock content =>
    .ok ([.cr, .open tPre [], .open tCode attrs, .text content, .close tCode, .close tPre, .cr], [])
  | .codeFence info content langPrefix =>
    match fenceAttrs lookup attrs info langPrefix with
    | .error e => .error e
    | .ok attrs' =>
      .ok ([.cr, .open tPre [], .open tCode attrs', .text content, .close tCode, .close tPre, .cr], [])
  | .blockquote => .ok ([.cr, .open tBlockquote attrs, .cr], [.cr, .close tBlockquote, .cr])
  | .orderedList start => .ok ([.cr, .open tOl (olAttrs attrs start), .cr], [.cr, .close tOl, .cr])
  | .bulletList => .ok ([.cr, .open tUl attrs, .cr], [.cr, .close tUl, .cr])
  | .listItem => .ok ([.open tLi attrs], [.close tLi, .cr])
  | .text s => .ok ([.text s], [])
  | .special content => .ok ([.text content], [])
  | .softbreak => .ok ([.cr], [])
  | .hardbreak => .ok ([.selfClose tBr [], .cr], [])
  | .codeInline => .ok ([.open tCode attrs], [.close tCode])
  | .em => .ok ([.open tEm attrs], [.close tEm])
  | .strong => .ok ([.open tStrong attrs], [.close tStrong])
  | .strike => .ok ([.open tS attrs], [.close tS])
  | .link url title => .ok ([.open tA (linkAttrs attrs url title)], [.close tA])
  | .image url title => .ok ([.selfClose tImg (imageAttrs attrs url alt title)], [])
  | .autolink url => .ok ([.open tA (attrs ++ [(aHref, url)])], [.close tA])
  | .htmlBlock content => .ok ([.cr, .raw content, .cr], [])
  | .htmlInline content => .ok ([.raw content], [])
  | .placeholder => .error .unimplemented

/-- only `Image` looks below itself -/
theorem frameOf_alt_irrelevant (lookup : List Char → Option (List Char)) (k : Kind)
    (attrs : List (List Char × List Char)) (alt alt' : List Char)
    (hk : ∀ url title, k ≠ .image url title) :
    frameOf lookup k attrs alt = frameOf lookup k attrs alt' := by
  cases k <;> first | rfl | exact absurd rfl (hk _ _)

/-- what `fmt.contents(&node.children)` contributes: the children's events for a kind that calls
    it, nothing for a kind that does not -/
def bodyOf (lookup : List Char → Option (List Char)) (n : Node) : Except Panic (List Event) :=
  if n.kind.isContainer then renderList lookup n.children else .ok []

/-- **C19 (frame).** Every node renders as `pre ++ contents ++ post`; the frame is computed
    before the children are rendered (a panic of the node's own code precedes theirs). -/
theorem render_frame (lookup : List Char → Option (List Char)) (n : Node) :
    render lookup n =
      match frameOf lookup n.kind n.attrs (imageAlt n.children) with
      | .error e => .error e
      | .ok (p, s) =>
        match bodyOf lookup n with
        | .error e => .error e
        | .ok b => .ok (p ++ b ++ s) := by
  obtain ⟨k, a, cs⟩ := n
  cases k <;> simp only [render, frameOf, bodyOf, wrap, Kind.isContainer, if_true]
  all_goals first
    | rfl
    | (cases renderList lookup cs <;> simp; done)
    | (cases tagAt atxTags _ <;> simp <;> cases renderList lookup cs <;> simp; done)
    | (cases tagAt setextTags _ <;> simp <;> cases renderList lookup cs <;> simp; done)
    | (cases fenceAttrs lookup a _ _ <;> simp; done)

theorem render_ok_frame {lookup : List Char → Option (List Char)} {n : Node} {evs : List Event}
    (h : render lookup n = .ok evs) :
    ∃ p s b, frameOf lookup n.kind n.attrs (imageAlt n.children) = .ok (p, s) ∧
      bodyOf lookup n = .ok b ∧ evs = p ++ b ++ s := by
  rw [render_frame] at h
  split at h
  · simp at h
  · rename_i p s hf
    split at h
    · simp at h
    · rename_i b hb
      exact ⟨p, s, b, hf, hb, by simpa using h.symm⟩

/-! ## 2. the induction principle every tree-level statement below goes through -/

section Induction
variable (lookup : List Char → Option (List Char))
variable (Q : Node → Prop) (P : List Node → List Event → Prop)
variable (hnil : P [] [])
variable (happ : ∀ v₁ a v₂ b, P v₁ a → P v₂ b → P (v₁ ++ v₂) (a ++ b))
variable (hframe : ∀ (n : Node) (p s : List Event) (vb : List Node) (b : List Event), Q n →
    frameOf lookup n.kind n.attrs (imageAlt n.children) = .ok (p, s) → P vb b →
    P (n :: vb) (p ++ b ++ s))
include hnil happ hframe

set_option linter.unusedSectionVars false

mutual
theorem render_ind_node (n : Node) (hq : ∀ m ∈ visited n, Q m) (evs : List Event)
    (h : render lookup n = .ok evs) : P (visited n) evs := by
  match n with
  | ⟨k, a, cs⟩ =>
    obtain ⟨p, s, b, hf, hb, rfl⟩ := render_ok_frame h
    have hself : Q ⟨k, a, cs⟩ := hq _ (by simp [visited])
    unfold bodyOf at hb
    unfold visited
    by_cases hc : k.isContainer = true
    · simp only [hc, if_true] at hb ⊢
      have hq' : ∀ m ∈ visitedList cs, Q m := fun m hm => hq m (by simp [visited, hc, hm])
      exact hframe _ p s _ b hself hf (render_ind_list cs hq' b hb)
    · simp only [hc] at hb ⊢
      simp only [Bool.false_eq_true, if_false] at hb ⊢
      cases hb
      exact hframe _ p s [] [] hself hf hnil
theorem render_ind_list (cs : List Node) (hq : ∀ m ∈ visitedList cs, Q m) (evs : List Event)
    (h : renderList lookup cs = .ok evs) : P (visitedList cs) evs := by
  match cs with
  | [] =>
    simp only [renderList] at h
    cases h
    exact hnil
  | n :: r =>
    simp only [renderList] at h
    split at h
    · simp at h
    · rename_i a ha
      split at h
      · simp at h
      · rename_i b hb
        cases h
        unfold visitedList
        exact happ _ _ _ _
          (render_ind_node n (fun m hm => hq m (by simp [visitedList, hm])) a ha)
          (render_ind_list r (fun m hm => hq m (by simp [visitedList, hm])) b hb)
end
end Induction

/-! ## 3. the frame without its partial parts -/

/-- `TAG[level - 1]` as a total function (only used where `tagAt` succeeds) -/
def headingTag (tags : List (List Char)) (level : Nat) : List Char := tags.getD (level - 1) tH1

/-- the attribute list of a fence's `<code>` (`fence_class`) -/
def fenceAttrsT (lookup : List Char → Option (List Char)) (attrs : List (List Char × List Char))
    (info langPrefix : List Char) : List (List Char × List Char) :=
  if firstWord (MdIt.Entity.unescapeAll lookup info) = [] then attrs
  else attrs ++ [(aClass, langPrefix ++ firstWord (MdIt.Entity.unescapeAll lookup info))]

/-- `frameOf` for a node whose own code does not panic -/
def frameT (lookup : List Char → Option (List Char)) (k : Kind)
    (attrs : List (List Char × List Char)) (alt : List Char) : List Event × List Event :=
  match k with
  | .root => ([], [])
  | .paragraph => ([.cr, .open tP attrs], [.close tP, .cr])
  | .atx level =>
    ([.cr, .open (headingTag atxTags level) attrs], [.close (headingTag atxTags level), .cr])
  | .setext level =>
    ([.cr, .open (headingTag setextTags level) attrs], [.close (headingTag setextTags level), .cr])
  | .hr => ([.cr, .selfClose tHr attrs, .cr], [])
  | .codeBlock content =>
    ([.cr, .open tPre [], .open tCode attrs, .text content, .close tCode, .close tPre, .cr], [])
  | .codeFence info content langPrefix =>
    ([.cr, .open tPre [], .open tCode (fenceAttrsT lookup attrs info langPrefix), .text content,
      .close tCode, .close tPre, .cr], [])
  | .blockquote => ([.cr, .open tBlockquote attrs, .cr], [.cr, .close tBlockquote, .cr])
  | .orderedList start => ([.cr, .open tOl (olAttrs attrs start), .cr], [.cr, .close tOl, .cr])
  | .bulletList => ([.cr, .open tUl attrs, .cr], [.cr, .close tUl, .cr])
  | .listItem => ([.open tLi attrs], [.close tLi, .cr])
  | .text s => ([.text s], [])
  | .special content => ([.text content], [])
  | .softbreak => ([.cr], [])
  | .hardbreak => ([.selfClose tBr [], .cr], [])
  | .codeInline => ([.open tCode attrs], [.close tCode])
  | .em => ([.open tEm attrs], [.close tEm])
  | .strong => ([.open tStrong attrs], [.close tStrong])
  | .strike => ([.open tS attrs], [.close tS])
  | .link url title => ([.open tA (linkAttrs attrs url title)], [.close tA])
  | .image url title => ([.selfClose tImg (imageAttrs attrs url alt title)], [])
  | .autolink url => ([.open tA (attrs ++ [(aHref, url)])], [.close tA])
  | .htmlBlock content => ([.cr, .raw content, .cr], [])
  | .htmlInline content => ([.raw content], [])
  | .placeholder => ([], [])

theorem tagAt_eq (tags : List (List Char)) (level : Nat) :
    tagAt tags level =
      if 1 ≤ level ∧ level ≤ tags.length then .ok (headingTag tags level) else .error .index := by
  unfold tagAt headingTag
  by_cases h0 : level = 0
  · simp [h0]
  · by_cases hl : level ≤ tags.length
    · have hlt : level - 1 < tags.length := by omega
      have h1 : 1 ≤ level := by omega
      simp [h0, hl, h1, List.getElem?_eq_getElem hlt, List.getD_eq_getElem?_getD]
    · have hge : tags.length ≤ level - 1 := by omega
      simp [h0, hl, List.getElem?_eq_none hge]

/-- **The node's own code panics exactly when `Kind.panic?` says so, with that panic; otherwise
    its frame is `frameT`.**  (`unescape_all` contributes no panic: `Entity.unescapeAllE_total`.) -/
theorem frameOf_eq (lookup : List Char → Option (List Char)) (k : Kind)
    (attrs : List (List Char × List Char)) (alt : List Char) :
    frameOf lookup k attrs alt =
      match k.panic? with
      | some e => .error e
      | none => .ok (frameT lookup k attrs alt) := by
  cases k with
  | atx level =>
    simp only [frameOf, tagAt_eq, Kind.panic?, frameT]
    have : atxTags.length = 6 := rfl
    rw [this]
    by_cases hl : 1 ≤ level ∧ level ≤ 6 <;> simp [hl]
  | setext level =>
    simp only [frameOf, tagAt_eq, Kind.panic?, frameT]
    have : setextTags.length = 2 := rfl
    rw [this]
    by_cases hl : 1 ≤ level ∧ level ≤ 2 <;> simp [hl]
  | codeFence info content langPrefix =>
    simp only [frameOf, fence_class, Kind.panic?, frameT, fenceAttrsT]
  | _ => rfl

/-- `Except` → the panic, if any -/
def toPanic? {α : Type} : Except Panic α → Option Panic
  | .error e => some e
  | .ok _ => none

/-- the first panic along a list of nodes in invocation order -/
def firstPanic (l : List Node) : Option Panic := l.findSome? (fun m => m.kind.panic?)

mutual
theorem render_toPanic (lookup : List Char → Option (List Char)) (n : Node) :
    toPanic? (render lookup n) = firstPanic (visited n) := by
  match n with
  | ⟨k, a, cs⟩ =>
    rw [render_frame, frameOf_eq]
    unfold visited firstPanic bodyOf
    simp only [List.findSome?_cons]
    cases hp : k.panic? with
    | some e => simp [toPanic?]
    | none =>
      simp only []
      by_cases hc : k.isContainer = true
      · simp only [hc, if_true]
        have ih := renderList_toPanic lookup cs
        unfold firstPanic at ih
        rw [← ih]
        cases renderList lookup cs <;> simp [toPanic?]
      · simp [hc, toPanic?]
theorem renderList_toPanic (lookup : List Char → Option (List Char)) (cs : List Node) :
    toPanic? (renderList lookup cs) = firstPanic (visitedList cs) := by
  match cs with
  | [] => simp [renderList, visitedList, firstPanic, toPanic?]
  | n :: r =>
    have ih1 := render_toPanic lookup n
    have ih2 := renderList_toPanic lookup r
    unfold firstPanic at ih1 ih2 ⊢
    unfold visitedList
    rw [List.findSome?_append, ← ih1, ← ih2]
    simp only [renderList]
    cases render lookup n with
    | error e => simp [toPanic?]
    | ok a => cases renderList lookup r <;> simp [toPanic?]
end

/-! ## 4. `render_total` -/

/-- every node that gets rendered has a heading level its tag table covers and is no placeholder -/
def Renderable (t : Node) : Prop := ∀ m ∈ visited t, m.kind.panic? = none

instance (t : Node) : Decidable (Renderable t) := by unfold Renderable; infer_instance

/-- what `Kind.panic? = none` says, spelled out -/
theorem Kind.panic?_eq_none_iff (k : Kind) :
    k.panic? = none ↔
      (∀ l, k = .atx l → 1 ≤ l ∧ l ≤ 6) ∧ (∀ l, k = .setext l → 1 ≤ l ∧ l ≤ 2) ∧ k ≠ .placeholder := by
  cases k <;> simp [Kind.panic?]

/-- **`render_total`.** Rendering succeeds exactly on `Renderable` trees: every ATX level rendered
    is in `1..6`, every setext level in `1..2`, and no placeholder is rendered — for every tree,
    payload and entity table. -/
theorem render_total (lookup : List Char → Option (List Char)) (t : Node) :
    (∃ evs, render lookup t = .ok evs) ↔ Renderable t := by
  have h := render_toPanic lookup t
  unfold Renderable
  constructor
  · rintro ⟨evs, he⟩
    rw [he] at h
    have h' : firstPanic (visited t) = none := h.symm
    unfold firstPanic at h'
    exact List.findSome?_eq_none_iff.mp h'
  · intro hr
    have h' : firstPanic (visited t) = none := List.findSome?_eq_none_iff.mpr hr
    rw [h'] at h
    cases hr' : render lookup t with
    | ok evs => exact ⟨evs, rfl⟩
    | error e => rw [hr'] at h; simp [toPanic?] at h

/-- **Exact panic.** Rendering panics with `e` iff the FIRST node, in invocation order, whose own
    code panics, panics with `e` (out-of-range heading ↦ `index`, placeholder ↦ `unimplemented`). -/
theorem render_panic_exact (lookup : List Char → Option (List Char)) (t : Node) (e : Panic) :
    render lookup t = .error e ↔ firstPanic (visited t) = some e := by
  rw [← render_toPanic lookup t]
  cases render lookup t <;> simp [toPanic?]

/-- no tree makes `unescape_all` panic -/
theorem render_never_unescape_panic (lookup : List Char → Option (List Char)) (t : Node)
    (e : MdIt.Entity.Panic) : render lookup t ≠ .error (.unescape e) := by
  intro h
  have := (render_panic_exact lookup t _).mp h
  unfold firstPanic at this
  obtain ⟨m, _, hm⟩ := List.exists_of_findSome?_eq_some this
  cases hk : m.kind <;> simp [hk, Kind.panic?] at hm
  all_goals (split at hm <;> simp at hm)

/-- a successful render has the total frame -/
theorem render_ok_frameT {lookup : List Char → Option (List Char)} {n : Node} {evs : List Event}
    (h : render lookup n = .ok evs) :
    ∃ b, bodyOf lookup n = .ok b ∧
      evs = (frameT lookup n.kind n.attrs (imageAlt n.children)).1 ++ b ++
            (frameT lookup n.kind n.attrs (imageAlt n.children)).2 := by
  obtain ⟨p, s, b, hf, hb, rfl⟩ := render_ok_frame h
  rw [frameOf_eq] at hf
  split at hf
  · simp at hf
  · simp only [Except.ok.injEq] at hf
    exact ⟨b, hb, by rw [hf]⟩

/-- the induction principle, with the total frame -/
theorem render_induction (lookup : List Char → Option (List Char))
    (Q : Node → Prop) (P : List Node → List Event → Prop)
    (hnil : P [] [])
    (happ : ∀ v₁ a v₂ b, P v₁ a → P v₂ b → P (v₁ ++ v₂) (a ++ b))
    (hframe : ∀ (n : Node) (vb : List Node) (b : List Event), Q n → n.kind.panic? = none → P vb b →
      P (n :: vb) ((frameT lookup n.kind n.attrs (imageAlt n.children)).1 ++ b ++
                   (frameT lookup n.kind n.attrs (imageAlt n.children)).2))
    (t : Node) (hq : ∀ m ∈ visited t, Q m) (evs : List Event) (h : render lookup t = .ok evs) :
    P (visited t) evs := by
  refine render_ind_node lookup Q P hnil happ ?_ t hq evs h
  intro n p s vb b hqn hf hp
  rw [frameOf_eq] at hf
  split at hf
  · simp at hf
  · rename_i hk
    simp only [Except.ok.injEq] at hf
    have := hframe n vb b hqn hk hp
    rw [hf] at this
    exact this

/-! ## 5. `render_no_raw`, `html_nodes_are_the_only_raw` -/

/-- no rendered node comes from the raw-HTML plugin -/
def HtmlFree (t : Node) : Prop := ∀ m ∈ visited t, m.kind.isHtml = false

instance (t : Node) : Decidable (HtmlFree t) := by unfold HtmlFree; infer_instance

/-- the payloads of the `text_raw` calls, in order -/
def rawsOf : List Event → List (List Char)
  | [] => []
  | .raw s :: r => s :: rawsOf r
  | _ :: r => rawsOf r

/-- what an html node hands to `text_raw` -/
def Kind.htmlContent? : Kind → Option (List Char)
  | .htmlBlock c => some c
  | .htmlInline c => some c
  | _ => none

theorem rawsOf_append (a b : List Event) : rawsOf (a ++ b) = rawsOf a ++ rawsOf b := by
  induction a with
  | nil => rfl
  | cons e r ih => cases e <;> simp [rawsOf, ih]

theorem mem_rawsOf (evs : List Event) (s : List Char) : s ∈ rawsOf evs ↔ Event.raw s ∈ evs := by
  induction evs with
  | nil => simp [rawsOf]
  | cons e r ih => cases e <;> simp [rawsOf, ih]

theorem frameT_raws (lookup : List Char → Option (List Char)) (k : Kind)
    (attrs : List (List Char × List Char)) (alt : List Char) :
    rawsOf (frameT lookup k attrs alt).1 = k.htmlContent?.toList ∧
    rawsOf (frameT lookup k attrs alt).2 = [] := by
  cases k <;> simp [frameT, rawsOf, Kind.htmlContent?]

/-- **`html_nodes_are_the_only_raw`.** The `text_raw` calls of a rendering are, in order and with
    their payloads, exactly the contents of the `HtmlBlock` / `HtmlInline` nodes that get rendered
    (an html node under an `Image` is not rendered and contributes nothing; an html node with empty
    content still issues its — empty — call). -/
theorem html_nodes_are_the_only_raw (lookup : List Char → Option (List Char)) (t : Node)
    (evs : List Event) (h : render lookup t = .ok evs) :
    rawsOf evs = (visited t).filterMap (fun m => m.kind.htmlContent?) := by
  refine render_induction lookup (fun _ => True)
    (fun v e => rawsOf e = v.filterMap (fun m => m.kind.htmlContent?)) rfl ?_ ?_ t (fun _ _ => trivial) evs h
  · intro v₁ a v₂ b h₁ h₂
    rw [rawsOf_append, List.filterMap_append, h₁, h₂]
  · intro n vb b _ _ hb
    have := frameT_raws lookup n.kind n.attrs (imageAlt n.children)
    rw [rawsOf_append, rawsOf_append, this.1, this.2, hb, List.filterMap_cons]
    cases n.kind.htmlContent? <;> simp

theorem Kind.isHtml_iff (k : Kind) : k.isHtml = true ↔ ∃ c, k.htmlContent? = some c := by
  cases k <;> simp [Kind.isHtml, Kind.htmlContent?]

/-- a `text_raw` call occurs iff an html node is rendered -/
theorem raw_iff_html (lookup : List Char → Option (List Char)) (t : Node) (evs : List Event)
    (h : render lookup t = .ok evs) :
    (∃ s, Event.raw s ∈ evs) ↔ ∃ m ∈ visited t, m.kind.isHtml = true := by
  have hr := html_nodes_are_the_only_raw lookup t evs h
  constructor
  · rintro ⟨s, hs⟩
    rw [← mem_rawsOf, hr, List.mem_filterMap] at hs
    obtain ⟨m, hm, hc⟩ := hs
    exact ⟨m, hm, (Kind.isHtml_iff _).mpr ⟨s, hc⟩⟩
  · rintro ⟨m, hm, hk⟩
    obtain ⟨c, hc⟩ := (Kind.isHtml_iff _).mp hk
    refine ⟨c, ?_⟩
    rw [← mem_rawsOf, hr, List.mem_filterMap]
    exact ⟨m, hm, hc⟩

/-- **`render_no_raw`.** Without html nodes no `Event.raw` is issued. -/
theorem render_no_raw (lookup : List Char → Option (List Char)) (t : Node) (hf : HtmlFree t)
    (evs : List Event) (h : render lookup t = .ok evs) : ∀ s, Event.raw s ∉ evs := by
  intro s hs
  obtain ⟨m, hm, hk⟩ := (raw_iff_html lookup t evs h).mp ⟨s, hs⟩
  rw [hf m hm] at hk
  exact absurd hk (by simp)

/-! ## 6. `render_vocab` -/

def shippedTags : List (List Char) :=
  [tP, tBlockquote, tUl, tOl, tLi, tPre, tCode, tH1, tH2, tH3, tH4, tH5, tH6, tHr, tEm, tStrong, tS,
   tA, tImg, tBr]

/-- the attribute names each element may carry: what its `render` pushes, plus `data-sourcepos`
    where the Rust passes `node.attrs` (`pre` and `br` get `&[]`) -/
def attrsFor (t : List Char) : List (List Char) :=
  if t = tOl then [aStart, aSourcepos]
  else if t = tCode then [aClass, aSourcepos]
  else if t = tA then [aHref, aTitle, aSourcepos]
  else if t = tImg then [aSrc, aAlt, aTitle, aSourcepos]
  else if t = tPre ∨ t = tBr then []
  else [aSourcepos]

def allAttrNames : List (List Char) := [aStart, aClass, aHref, aTitle, aSrc, aAlt, aSourcepos]

theorem attrsFor_subset (t n : List Char) (h : n ∈ attrsFor t) : n ∈ allAttrNames := by
  unfold attrsFor at h
  repeat' split at h
  all_goals simp only [List.mem_cons, List.not_mem_nil, or_false] at h
  all_goals first
    | exact absurd h id
    | (rcases h with rfl | rfl | rfl | rfl <;> decide)
    | (rcases h with rfl | rfl | rfl <;> decide)
    | (rcases h with rfl | rfl <;> decide)
    | (rcases h with rfl <;> decide)

/-- the fixed table element ↦ allowed attribute names -/
def shippedVocab : Vocab where
  tag t := t ∈ shippedTags
  attr t n := t ∈ shippedTags ∧ n ∈ attrsFor t
  tag_ok := by
    have : ∀ t ∈ shippedTags, NameOK t := by decide
    exact this
  attr_ok := by
    intro t n h
    have : ∀ n ∈ allAttrNames, NameOK n := by decide
    exact this n (attrsFor_subset t n h.2)

/-- every `node.attrs` entry of a rendered node was pushed by the `sourcepos` plugin (or there is none) -/
def AttrsSourcepos (t : Node) : Prop := ∀ m ∈ visited t, ∀ nv ∈ m.attrs, nv.1 = aSourcepos

instance (t : Node) : Decidable (AttrsSourcepos t) := by unfold AttrsSourcepos; infer_instance

theorem eventOK_open (t : List Char) (a : List (List Char × List Char)) (ht : t ∈ shippedTags)
    (ha : ∀ nv ∈ a, nv.1 ∈ attrsFor t) : EventOK shippedVocab (.open t a) :=
  ⟨ht, fun nv h => ⟨ht, ha nv h⟩⟩

theorem eventOK_selfClose (t : List Char) (a : List (List Char × List Char)) (ht : t ∈ shippedTags)
    (ha : ∀ nv ∈ a, nv.1 ∈ attrsFor t) : EventOK shippedVocab (.selfClose t a) :=
  ⟨ht, fun nv h => ⟨ht, ha nv h⟩⟩

theorem headingTag_mem (tags : List (List Char)) (level : Nat) :
    headingTag tags level ∈ tH1 :: tags := by
  unfold headingTag
  rw [List.getD_eq_getElem?_getD]
  cases h : tags[level - 1]? with
  | none => simp
  | some t => simp [List.mem_of_getElem? h]

theorem heading_tags_ok : ∀ t ∈ tH1 :: (atxTags ++ setextTags),
    t ∈ shippedTags ∧ aSourcepos ∈ attrsFor t := by decide

theorem headingTag_atx_ok (level : Nat) :
    headingTag atxTags level ∈ shippedTags ∧ aSourcepos ∈ attrsFor (headingTag atxTags level) := by
  apply heading_tags_ok
  have := headingTag_mem atxTags level
  simp only [List.mem_cons, List.mem_append] at this ⊢
  rcases this with h | h
  · exact .inl h
  · exact .inr (.inl h)

theorem headingTag_setext_ok (level : Nat) :
    headingTag setextTags level ∈ shippedTags ∧
      aSourcepos ∈ attrsFor (headingTag setextTags level) := by
  apply heading_tags_ok
  have := headingTag_mem setextTags level
  simp only [List.mem_cons, List.mem_append] at this ⊢
  rcases this with h | h
  · exact .inl h
  · exact .inr (.inr h)

/-- attribute lists built from `node.attrs` by pushing literal names -/
theorem names_sp {attrs : List (List Char × List Char)} (ha : ∀ nv ∈ attrs, nv.1 = aSourcepos)
    {t : List Char} (ht : aSourcepos ∈ attrsFor t) : ∀ nv ∈ attrs, nv.1 ∈ attrsFor t := by
  intro nv h; rw [ha nv h]; exact ht

theorem names_push {attrs : List (List Char × List Char)} {allowed : List (List Char)}
    (h : ∀ nv ∈ attrs, nv.1 ∈ allowed) (n v : List Char) (hn : n ∈ allowed) :
    ∀ nv ∈ attrs ++ [(n, v)], nv.1 ∈ allowed := by
  intro nv hnv
  rcases List.mem_append.mp hnv with h' | h'
  · exact h nv h'
  · simp only [List.mem_singleton] at h'; subst h'; exact hn

theorem names_pushTitle {attrs : List (List Char × List Char)} {allowed : List (List Char)}
    (h : ∀ nv ∈ attrs, nv.1 ∈ allowed) (title : Option (List Char)) (hn : aTitle ∈ allowed) :
    ∀ nv ∈ pushTitle attrs title, nv.1 ∈ allowed := by
  cases title with
  | none => exact h
  | some t => exact names_push h _ _ hn

theorem all_nil {P : Event → Prop} : ∀ e ∈ ([] : List Event), P e := by simp

theorem all_cons {P : Event → Prop} {e : Event} {l : List Event} (h : P e) (hl : ∀ x ∈ l, P x) :
    ∀ x ∈ e :: l, P x := by
  intro x hx
  rcases List.mem_cons.mp hx with rfl | hx
  · exact h
  · exact hl x hx

theorem fenceAttrsT_names (lookup : List Char → Option (List Char))
    {attrs : List (List Char × List Char)} (ha : ∀ nv ∈ attrs, nv.1 = aSourcepos)
    (info lp : List Char) : ∀ nv ∈ fenceAttrsT lookup attrs info lp, nv.1 ∈ attrsFor tCode := by
  unfold fenceAttrsT
  split
  · exact names_sp ha (by decide)
  · exact names_push (names_sp ha (by decide)) _ _ (by decide)

theorem olAttrs_names {attrs : List (List Char × List Char)} (ha : ∀ nv ∈ attrs, nv.1 = aSourcepos)
    (start : Nat) : ∀ nv ∈ olAttrs attrs start, nv.1 ∈ attrsFor tOl := by
  unfold olAttrs
  split
  · exact names_push (names_sp ha (by decide)) _ _ (by decide)
  · exact names_sp ha (by decide)

theorem linkAttrs_names {attrs : List (List Char × List Char)} (ha : ∀ nv ∈ attrs, nv.1 = aSourcepos)
    (url : List Char) (title : Option (List Char)) :
    ∀ nv ∈ linkAttrs attrs url title, nv.1 ∈ attrsFor tA :=
  names_pushTitle (names_push (names_sp ha (by decide)) _ _ (by decide)) _ (by decide)

theorem autolinkAttrs_names {attrs : List (List Char × List Char)}
    (ha : ∀ nv ∈ attrs, nv.1 = aSourcepos) (url : List Char) :
    ∀ nv ∈ attrs ++ [(aHref, url)], nv.1 ∈ attrsFor tA :=
  names_push (names_sp ha (by decide)) _ _ (by decide)

theorem imageAttrs_names {attrs : List (List Char × List Char)} (ha : ∀ nv ∈ attrs, nv.1 = aSourcepos)
    (url alt : List Char) (title : Option (List Char)) :
    ∀ nv ∈ imageAttrs attrs url alt title, nv.1 ∈ attrsFor tImg :=
  names_pushTitle
    (names_push (names_push (names_sp ha (by decide)) _ _ (by decide)) _ _ (by decide)) _ (by decide)

theorem frameT_vocab (lookup : List Char → Option (List Char)) (k : Kind)
    (attrs : List (List Char × List Char)) (alt : List Char) (hk : k.isHtml = false)
    (ha : ∀ nv ∈ attrs, nv.1 = aSourcepos) :
    ∀ e ∈ (frameT lookup k attrs alt).1 ++ (frameT lookup k attrs alt).2,
      EventOK shippedVocab e := by
  have hcr : EventOK shippedVocab .cr := trivial
  have htx : ∀ s, EventOK shippedVocab (.text s) := fun _ => trivial
  have hcl : ∀ t, t ∈ shippedTags → EventOK shippedVocab (.close t) := fun _ h => h
  have sp : ∀ t, aSourcepos ∈ attrsFor t → ∀ nv ∈ attrs, nv.1 ∈ attrsFor t := fun _ => names_sp ha
  have hno : ∀ t, ∀ nv ∈ ([] : List (List Char × List Char)), nv.1 ∈ attrsFor t := by simp
  cases k
  case htmlBlock c => simp [Kind.isHtml] at hk
  case htmlInline c => simp [Kind.isHtml] at hk
  all_goals simp only [frameT, List.cons_append, List.nil_append, List.append_nil]
  all_goals repeat' (first | exact all_nil | refine all_cons ?_ ?_)
  all_goals first
    | exact hcr
    | exact htx _
    | exact hcl tP (by decide) | exact hcl tBlockquote (by decide) | exact hcl tUl (by decide)
    | exact hcl tOl (by decide) | exact hcl tLi (by decide) | exact hcl tPre (by decide)
    | exact hcl tCode (by decide) | exact hcl tEm (by decide) | exact hcl tStrong (by decide)
    | exact hcl tS (by decide) | exact hcl tA (by decide)
    | exact hcl _ (headingTag_atx_ok _).1
    | exact hcl _ (headingTag_setext_ok _).1
    | exact eventOK_open _ _ (headingTag_atx_ok _).1 (sp _ (headingTag_atx_ok _).2)
    | exact eventOK_open _ _ (headingTag_setext_ok _).1 (sp _ (headingTag_setext_ok _).2)
    | exact eventOK_open tPre _ (by decide) (hno _)
    | exact eventOK_selfClose tBr _ (by decide) (hno _)
    | exact eventOK_open tCode _ (by decide) (fenceAttrsT_names lookup ha _ _)
    | exact eventOK_open tOl _ (by decide) (olAttrs_names ha _)
    | exact eventOK_open tA _ (by decide) (linkAttrs_names ha _ _)
    | exact eventOK_open tA _ (by decide) (autolinkAttrs_names ha _)
    | exact eventOK_selfClose tImg _ (by decide) (imageAttrs_names ha _ _ _)
    | exact eventOK_selfClose tHr _ (by decide) (sp _ (by decide))
    | exact eventOK_open tP _ (by decide) (sp _ (by decide))
    | exact eventOK_open tBlockquote _ (by decide) (sp _ (by decide))
    | exact eventOK_open tUl _ (by decide) (sp _ (by decide))
    | exact eventOK_open tLi _ (by decide) (sp _ (by decide))
    | exact eventOK_open tCode _ (by decide) (sp _ (by decide))
    | exact eventOK_open tEm _ (by decide) (sp _ (by decide))
    | exact eventOK_open tStrong _ (by decide) (sp _ (by decide))
    | exact eventOK_open tS _ (by decide) (sp _ (by decide))

/-- **`render_vocab`.** Without html nodes and with `node.attrs` coming from the `sourcepos` plugin
    only, every trait call names an element of the fixed table and carries only that element's
    attribute names — whatever the payload strings and attribute values are. -/
theorem render_vocab (lookup : List Char → Option (List Char)) (t : Node) (hf : HtmlFree t)
    (ha : AttrsSourcepos t) (evs : List Event) (h : render lookup t = .ok evs) :
    ∀ e ∈ evs, EventOK shippedVocab e := by
  refine render_induction lookup
    (fun m => m.kind.isHtml = false ∧ ∀ nv ∈ m.attrs, nv.1 = aSourcepos)
    (fun _ evs => ∀ e ∈ evs, EventOK shippedVocab e) (by simp) ?_ ?_ t
    (fun m hm => ⟨hf m hm, ha m hm⟩) evs h
  · intro _ a _ b h₁ h₂ e he
    rcases List.mem_append.mp he with he | he
    · exact h₁ e he
    · exact h₂ e he
  · intro n _ b hq _ hb e he
    have hfr := frameT_vocab lookup n.kind n.attrs (imageAlt n.children) hq.1 hq.2
    simp only [List.mem_append] at he hfr
    rcases he with (he | he) | he
    · exact hfr e (.inl he)
    · exact hb e he
    · exact hfr e (.inr he)

/-! ## 7. `render_balanced` -/

/-- the element names closed by a post-frame -/
def closesOf : List Event → List (List Char)
  | [] => []
  | .close t :: r => t :: closesOf r
  | _ :: r => closesOf r

theorem frameT_stack (lookup : List Char → Option (List Char)) (k : Kind)
    (attrs : List (List Char × List Char)) (alt : List Char) :
    (∀ st, balStack st (frameT lookup k attrs alt).1 =
      some (closesOf (frameT lookup k attrs alt).2 ++ st)) ∧
    (∀ st, balStack (closesOf (frameT lookup k attrs alt).2 ++ st) (frameT lookup k attrs alt).2 =
      some st) := by
  cases k <;> simp [frameT, balStack, closesOf]

theorem balanced_frame (p s b : List Event) (ts : List (List Char))
    (hp : ∀ st, balStack st p = some (ts ++ st)) (hs : ∀ st, balStack (ts ++ st) s = some st)
    (hb : Balanced b) : Balanced (p ++ b ++ s) := by
  unfold Balanced at *
  have hb' := balStack_frame [] [] ts b hb
  simp only [List.nil_append] at hb'
  have hs' := hs []
  simp only [List.append_nil] at hs'
  rw [balStack_append, balStack_append, hp []]
  simp [hb', hs']

/-- **`render_balanced`.** Whatever a tree renders to is properly nested and completely closed
    (no hypothesis on the tree beyond rendering without panic). -/
theorem render_balanced (lookup : List Char → Option (List Char)) (t : Node) (evs : List Event)
    (h : render lookup t = .ok evs) : Balanced evs := by
  refine render_induction lookup (fun _ => True) (fun _ evs => Balanced evs) Balanced.nil ?_ ?_ t
    (fun _ _ => trivial) evs h
  · intro _ a _ b h₁ h₂; exact h₁.append h₂
  · intro n _ b _ _ hb
    have := frameT_stack lookup n.kind n.attrs (imageAlt n.children)
    exact balanced_frame _ _ b _ this.1 this.2 hb

/-- the statement as asked: for `Renderable` trees there IS a rendering and it is balanced -/
theorem render_balanced' (lookup : List Char → Option (List Char)) (t : Node) (hr : Renderable t) :
    ∃ evs, render lookup t = .ok evs ∧ Balanced evs := by
  obtain ⟨evs, h⟩ := (render_total lookup t).mpr hr
  exact ⟨evs, h, render_balanced lookup t evs h⟩

def voidTags : List (List Char) := [tHr, tImg, tBr]

/-- which way an event may use an element name -/
def VoidOK : Event → Prop
  | .open t _ => t ∉ voidTags
  | .close t => t ∉ voidTags
  | .selfClose t _ => t ∈ voidTags
  | _ => True

theorem heading_tags_not_void : ∀ t ∈ tH1 :: (atxTags ++ setextTags), t ∉ voidTags := by decide

theorem frameT_void (lookup : List Char → Option (List Char)) (k : Kind)
    (attrs : List (List Char × List Char)) (alt : List Char) :
    ∀ e ∈ (frameT lookup k attrs alt).1 ++ (frameT lookup k attrs alt).2, VoidOK e := by
  have hatx : ∀ level, headingTag atxTags level ∉ voidTags := fun level =>
    heading_tags_not_void _ (by
      have := headingTag_mem atxTags level
      simp only [List.mem_cons, List.mem_append] at this ⊢
      rcases this with h | h
      · exact .inl h
      · exact .inr (.inl h))
  have hset : ∀ level, headingTag setextTags level ∉ voidTags := fun level =>
    heading_tags_not_void _ (by
      have := headingTag_mem setextTags level
      simp only [List.mem_cons, List.mem_append] at this ⊢
      rcases this with h | h
      · exact .inl h
      · exact .inr (.inr h))
  cases k
  all_goals simp only [frameT, List.cons_append, List.nil_append, List.append_nil]
  all_goals repeat' (first | exact all_nil | refine all_cons ?_ ?_)
  all_goals first
    | exact trivial
    | exact hatx _
    | exact hset _
    | (show _ ∉ voidTags; decide)
    | (show _ ∈ voidTags; decide)

/-- **Self-closing only for `hr` / `img` / `br`**, and those three are never opened or closed. -/
theorem render_void_only (lookup : List Char → Option (List Char)) (t : Node) (evs : List Event)
    (h : render lookup t = .ok evs) : ∀ e ∈ evs, VoidOK e := by
  refine render_induction lookup (fun _ => True) (fun _ evs => ∀ e ∈ evs, VoidOK e) (by simp) ?_ ?_ t
    (fun _ _ => trivial) evs h
  · intro _ a _ b h₁ h₂ e he
    rcases List.mem_append.mp he with he | he
    · exact h₁ e he
    · exact h₂ e he
  · intro n _ b _ _ hb e he
    have hfr := frameT_void lookup n.kind n.attrs (imageAlt n.children)
    simp only [List.mem_append] at he hfr
    rcases he with (he | he) | he
    · exact hfr e (.inl he)
    · exact hb e he
    · exact hfr e (.inr he)

/-! ## 8. `safe_output`: C03 at tree level -/

/-- **`safe_output` (C03 for trees).** A tree that renders without panic, has no html node among
    the rendered ones and whose `attrs` come from the `sourcepos` plugin serialises — in HTML and
    in XHTML mode, for every payload string — to the flattening of a `WellFormed` piece list over
    the fixed vocabulary, one piece per trait call.  Hence, on the returned string: every `<` is the
    first and every `>` the last character of a tag piece of a known element with known attributes,
    every `"` is an attribute-value quote, every `&` starts one of `&amp; &lt; &gt; &quot;`, tag pieces
    are properly nested and closed.  No payload can inject an element, an attribute or a quote. -/
theorem safe_output (lookup : List Char → Option (List Char)) (t : Node) (hr : Renderable t)
    (hf : HtmlFree t) (ha : AttrsSourcepos t) :
    ∃ evs, render lookup t = .ok evs ∧ ∀ x : Bool,
      renderHtml lookup x t = .ok (serialize x evs) ∧
      ∃ ps, serialize x evs = flattenP ps ∧ ps.length = evs.length ∧ WellFormed shippedVocab ps ∧
        ((flattenP ps).length = (rolesP ps).length ∧
          ∀ (i : Nat) (c : Char), (flattenP ps)[i]? = some c →
            ∃ r, (rolesP ps)[i]? = some r ∧ Agree c r) ∧
        (∀ i, (flattenP ps)[i]? = some '<' →
          ∃ pre p post, ps = pre ++ p :: post ∧ p.isTag = true ∧ i = (flattenP pre).length) ∧
        (∀ i, (flattenP ps)[i]? = some '>' →
          ∃ pre p post, ps = pre ++ p :: post ∧ p.isTag = true ∧
            i + 1 = (flattenP pre).length + p.str.length) ∧
        (∀ i, (flattenP ps)[i]? = some '&' → StartsEntity ((flattenP ps).drop i)) := by
  obtain ⟨evs, h⟩ := (render_total lookup t).mpr hr
  refine ⟨evs, h, fun x => ⟨by simp [renderHtml, h], ?_⟩⟩
  have hv := render_vocab lookup t hf ha evs h
  have hb := render_balanced lookup t evs h
  obtain ⟨ps, hser, hlen, hwf⟩ := serialize_wellformed_final shippedVocab x evs hv hb
  exact ⟨ps, hser, hlen, hwf, delims_exact shippedVocab ps hwf.1,
    lt_only_in_tags shippedVocab ps hwf.1, gt_only_in_tags shippedVocab ps hwf.1,
    amp_only_entities shippedVocab ps hwf.1⟩

/-- the headline on the string `Node::render()` / `Node::xrender()` returns -/
theorem safe_output_lt (lookup : List Char → Option (List Char)) (t : Node) (hr : Renderable t)
    (hf : HtmlFree t) (ha : AttrsSourcepos t) (x : Bool) :
    ∃ out ps, renderHtml lookup x t = .ok out ∧ out = flattenP ps ∧ WellFormed shippedVocab ps ∧
      ∀ i, out[i]? = some '<' →
        ∃ pre p post, ps = pre ++ p :: post ∧ p.isTag = true ∧ i = (flattenP pre).length := by
  obtain ⟨evs, _, hx⟩ := safe_output lookup t hr hf ha
  obtain ⟨hh, ps, hser, _, hwf, _, hlt, _, _⟩ := hx x
  exact ⟨_, ps, hh, hser, hwf, fun i hi => hlt i (by rw [← hser]; exact hi)⟩

/-- **C19 at tree level.** `Node::render()` / `Node::xrender()` return exactly the concatenation of
    one piece per trait call the tree issues, in call order (then NUL ↦ U+FFFD) — with or without
    html nodes, for every tree that renders. -/
theorem render_html_events (lookup : List Char → Option (List Char)) (x : Bool) (t : Node)
    (evs : List Event) (h : render lookup t = .ok evs) :
    renderHtml lookup x t = .ok (replaceNul (flatten (pieces x evs))) ∧
    (pieces x evs).length = evs.length := by
  refine ⟨?_, pieces_length x evs⟩
  simp [renderHtml, h, serialize_events]

/-! ## 9. order: `render_children_in_order` / `render_deterministic` -/

/-- the events of a result (`[]` for a panic) -/
def evsOf : Except Panic (List Event) → List Event
  | .ok e => e
  | .error _ => []

/-- `fmt.contents`: every child rendered, in order, nothing in between -/
theorem renderList_ok (lookup : List Char → Option (List Char)) (cs : List Node) (b : List Event)
    (h : renderList lookup cs = .ok b) :
    (∀ c ∈ cs, ∃ e, render lookup c = .ok e) ∧
    b = cs.flatMap (fun c => evsOf (render lookup c)) := by
  induction cs generalizing b with
  | nil => simp only [renderList] at h; cases h; simp
  | cons n r ih =>
    simp only [renderList] at h
    split at h
    · simp at h
    · rename_i a ha
      split at h
      · simp at h
      · rename_i b' hb'
        cases h
        obtain ⟨h1, h2⟩ := ih b' hb'
        refine ⟨?_, ?_⟩
        · intro c hc
          rcases List.mem_cons.mp hc with rfl | hc
          · exact ⟨a, ha⟩
          · exact h1 c hc
        · rw [List.flatMap_cons, ha, ← h2]; rfl

/-- **`render_children_in_order`.** A node that calls `fmt.contents` renders as its own
    pre-events, then the renderings of ALL its children in order, then its own post-events; a node
    that does not, as its own events alone.  The frame `frameT` reads only the node's own payload
    and `attrs` (`frameOf_alt_irrelevant`; `Image` also reads the alt text of its subtree). -/
theorem render_children_in_order (lookup : List Char → Option (List Char)) (n : Node)
    (evs : List Event) (h : render lookup n = .ok evs) :
    (n.kind.isContainer = true →
      (∀ c ∈ n.children, ∃ e, render lookup c = .ok e) ∧
      evs = (frameT lookup n.kind n.attrs (imageAlt n.children)).1 ++
            n.children.flatMap (fun c => evsOf (render lookup c)) ++
            (frameT lookup n.kind n.attrs (imageAlt n.children)).2) ∧
    (n.kind.isContainer = false →
      evs = (frameT lookup n.kind n.attrs (imageAlt n.children)).1 ++
            (frameT lookup n.kind n.attrs (imageAlt n.children)).2) := by
  obtain ⟨b, hb, rfl⟩ := render_ok_frameT h
  unfold bodyOf at hb
  constructor
  · intro hc
    simp only [hc, if_true] at hb
    obtain ⟨h1, h2⟩ := renderList_ok lookup _ b hb
    exact ⟨h1, by rw [← h2]⟩
  · intro hc
    simp only [hc, Bool.false_eq_true, if_false] at hb
    cases hb
    simp

/-- **`render_deterministic`.** The rendering of a node is a function of its kind payload, its
    `attrs`, the renderings of its children — and, for `Image`, the alt text of its subtree;
    nothing else (no position, no sibling, no state) enters. -/
theorem render_deterministic (lookup : List Char → Option (List Char)) (n n' : Node)
    (hk : n.kind = n'.kind) (ha : n.attrs = n'.attrs)
    (halt : imageAlt n.children = imageAlt n'.children)
    (hc : renderList lookup n.children = renderList lookup n'.children) :
    render lookup n = render lookup n' := by
  rw [render_frame, render_frame]
  unfold bodyOf
  rw [hk, ha, halt, hc]

/-! ## 10. the alt text `Image::render` assembles -/

/-- what the closure of `Image::render` appends for one visited node -/
def ownAlt : Kind → List Char
  | .text s => s
  | .special c => c
  | .softbreak => ['\n']
  | .hardbreak => ['\n']
  | _ => []

mutual
/-- the walk, written directly on `Node`: the node's own contribution, then its children in order -/
def altText : Node → List Char
  | ⟨k, _, cs⟩ => ownAlt k ++ altTextList cs
def altTextList : List Node → List Char
  | [] => []
  | n :: r => altText n ++ altTextList r
end

theorem displayNode_leafWith (leaf : MdIt.Alt.Inl) (l : List MdIt.Alt.Inl)
    (hleaf : ∀ k cs, leaf ≠ .wrap k cs) :
    MdIt.Alt.displayNode (leafWith leaf l) = MdIt.Alt.displayNode leaf ++ MdIt.Alt.display l := by
  cases l with
  | nil => simp [leafWith, MdIt.Alt.display]
  | cons a r =>
    cases leaf with
    | wrap k cs => exact absurd rfl (hleaf k cs)
    | _ => simp [leafWith, MdIt.Alt.displayNode, MdIt.Alt.display]

mutual
theorem display_toInl (n : Node) : MdIt.Alt.displayNode (toInl n) = altText n := by
  match n with
  | ⟨k, a, cs⟩ =>
    have ih := display_toInlList cs
    cases k
    case text s =>
      rw [toInl, displayNode_leafWith _ _ (by intro _ _ h; cases h), ih]
      simp [altText, ownAlt, MdIt.Alt.displayNode]
    case special c =>
      rw [toInl, displayNode_leafWith _ _ (by intro _ _ h; cases h), ih]
      simp [altText, ownAlt, MdIt.Alt.displayNode]
    case softbreak =>
      rw [toInl, displayNode_leafWith _ _ (by intro _ _ h; cases h), ih]
      simp [altText, ownAlt, MdIt.Alt.displayNode]
    case hardbreak =>
      rw [toInl, displayNode_leafWith _ _ (by intro _ _ h; cases h), ih]
      simp [altText, ownAlt, MdIt.Alt.displayNode]
    all_goals simp [toInl, altText, ownAlt, MdIt.Alt.displayNode, ih]
theorem display_toInlList (cs : List Node) :
    MdIt.Alt.display (toInlList cs) = altTextList cs := by
  match cs with
  | [] => simp [toInlList, MdIt.Alt.display, altTextList]
  | n :: r =>
    simp [toInlList, MdIt.Alt.display, altTextList, display_toInl n, display_toInlList r]
end

/-- **C18 through the real tree type.** The `alt` attribute is what the description displays:
    all `Text` / `TextSpecial` contents and one `\n` per break of the whole subtree, in document
    order — whatever kinds (nested images, html, placeholders) sit in between. -/
theorem image_alt_is_display (cs : List Node) : imageAlt cs = altTextList cs := by
  unfold imageAlt
  rw [MdIt.Alt.alt_is_display, display_toInlList]

mutual
theorem altText_nodes (n : Node) : altText n = (nodes n).flatMap (fun m => ownAlt m.kind) := by
  match n with
  | ⟨k, a, cs⟩ => simp [altText, nodes, altTextList_nodes cs]
theorem altTextList_nodes (cs : List Node) :
    altTextList cs = (nodesList cs).flatMap (fun m => ownAlt m.kind) := by
  match cs with
  | [] => simp [altTextList, nodesList]
  | n :: r => simp [altTextList, nodesList, altText_nodes n, altTextList_nodes r]
end

/-- literally the Rust: `node.walk` visits every node below the image in pre-order and the closure
    appends `ownAlt` of each -/
theorem image_alt_walk (cs : List Node) :
    imageAlt cs = (nodesList cs).flatMap (fun m => ownAlt m.kind) := by
  rw [image_alt_is_display, altTextList_nodes]

/-! ## 11. hypotheses on every node imply the hypotheses on the rendered ones -/

mutual
theorem visited_subset_nodes (n : Node) : ∀ m ∈ visited n, m ∈ nodes n := by
  match n with
  | ⟨k, a, cs⟩ =>
    intro m hm
    unfold visited at hm
    unfold nodes
    rcases List.mem_cons.mp hm with rfl | hm
    · simp
    · by_cases hc : k.isContainer = true
      · simp only [hc, if_true] at hm
        exact List.mem_cons_of_mem _ (visitedList_subset_nodesList cs m hm)
      · simp [hc] at hm
theorem visitedList_subset_nodesList (cs : List Node) : ∀ m ∈ visitedList cs, m ∈ nodesList cs := by
  match cs with
  | [] => simp [visitedList]
  | n :: r =>
    intro m hm
    unfold visitedList at hm
    unfold nodesList
    rcases List.mem_append.mp hm with hm | hm
    · exact List.mem_append_left _ (visited_subset_nodes n m hm)
    · exact List.mem_append_right _ (visitedList_subset_nodesList r m hm)
end

/-- the three hypotheses in the plain "every node of the tree" form -/
theorem hyps_of_all_nodes (t : Node)
    (hl : ∀ m ∈ nodes t, (∀ l, m.kind = .atx l → 1 ≤ l ∧ l ≤ 6) ∧
      (∀ l, m.kind = .setext l → 1 ≤ l ∧ l ≤ 2) ∧ m.kind ≠ .placeholder)
    (hh : ∀ m ∈ nodes t, (∀ c, m.kind ≠ .htmlBlock c) ∧ (∀ c, m.kind ≠ .htmlInline c))
    (ha : ∀ m ∈ nodes t, ∀ nv ∈ m.attrs, nv.1 = aSourcepos) :
    Renderable t ∧ HtmlFree t ∧ AttrsSourcepos t := by
  refine ⟨?_, ?_, ?_⟩
  · intro m hm
    exact (Kind.panic?_eq_none_iff _).mpr (hl m (visited_subset_nodes t m hm))
  · intro m hm
    have := hh m (visited_subset_nodes t m hm)
    cases hk : m.kind <;> simp_all [Kind.isHtml]
  · intro m hm
    exact ha m (visited_subset_nodes t m hm)

/-! ## 12. non-vacuity: every kind once, hostile payloads; and why the hypotheses are needed -/

deriving instance DecidableEq for Except

/-- a one-row entity table: `&quot;` -/
def lkDemo : List Char → Option (List Char) :=
  MdIt.Entity.lookupIn [([38, 113, 117, 111, 116, 59], [34])]

def tx (s : String) : Node := ⟨.text s.toList, [], []⟩

/-- Every shipped kind once (the same tree the `noderender` stream builds as `every_kind()`):
    `"><script>` in a heading, NUL in text, quotes in url / title / alt / info, an escape and a
    character reference in the fence info behind a no-break space, an html node UNDER an image
    (never rendered), a `data-sourcepos` attribute. -/
def docAll : Node :=
  ⟨.root, [], [
    ⟨.atx 1, [(aSourcepos, "1:1-1:3".toList)], [tx "\"><script>"]⟩,
    ⟨.setext 2, [], [tx "a\x00b"]⟩,
    ⟨.paragraph, [], [
      ⟨.em, [], [tx "e"]⟩, ⟨.strong, [], [tx "s"]⟩, ⟨.strike, [], [tx "d"]⟩,
      ⟨.special "<".toList, [], []⟩, ⟨.softbreak, [], []⟩, ⟨.hardbreak, [], []⟩,
      ⟨.codeInline, [], [tx "<c>"]⟩,
      ⟨.link "/u\"x".toList (some "t\"<".toList), [], [tx "l"]⟩,
      ⟨.image "/i".toList (some "\" onerror=\"x".toList), [],
        [tx "a\"", ⟨.em, [], [tx "<b>"]⟩, ⟨.hardbreak, [], []⟩, ⟨.htmlInline "<i>".toList, [], []⟩]⟩,
      ⟨.autolink "http://x/?a&b".toList, [], [tx "http://x/?a&b"]⟩]⟩,
    ⟨.hr, [], []⟩,
    ⟨.codeBlock "<pre>\n".toList, [], []⟩,
    ⟨.codeFence " r&quot;\\\"s　t".toList "x\n".toList "language-".toList, [], []⟩,
    ⟨.blockquote, [], [
      ⟨.orderedList 7, [], [⟨.listItem, [], [tx "i"]⟩]⟩,
      ⟨.bulletList, [], [⟨.listItem, [], []⟩]⟩]⟩]⟩

-- the hypotheses of `safe_output` hold for it …
example : Renderable docAll ∧ HtmlFree docAll ∧ AttrsSourcepos docAll := by decide
-- … so `safe_output` applies to it, hostile payloads and all
example := safe_output lkDemo docAll (by decide) (by decide) (by decide)
-- … although an html node occurs in the tree (below the image): `HtmlFree` is about rendered nodes
example : ∃ m ∈ nodes docAll, m.kind.isHtml = true := by decide

-- and this is what it renders to (byte-identical to the Rust `xrender()` / `render()` of that tree;
-- the expected string is cut into short literals because `String.toList` of a literal costs the
-- kernel time that grows faster than its length)
def docAllXhtml : List Char :=
  "<h1 data-sourcepos=\"".toList ++ "1:1-1:3\">&quot;&gt;&".toList ++ "lt;script&gt;</h1>\n<".toList ++
  "h2>a�b</h2>\n<p><em>e".toList ++ "</em><strong>s</stro".toList ++ "ng><s>d</s>&lt;\n<br ".toList ++
  "/>\n<code>&lt;c&gt;</".toList ++ "code><a href=\"/u&quo".toList ++ "t;x\" title=\"t&quot;&".toList ++
  "lt;\">l</a><img src=\"".toList ++ "/i\" alt=\"a&quot;&lt;".toList ++ "b&gt;\n\" title=\"&quot".toList ++
  "; onerror=&quot;x\" /".toList ++ "><a href=\"http://x/?".toList ++ "a&amp;b\">http://x/?a".toList ++
  "&amp;b</a></p>\n<hr /".toList ++ ">\n<pre><code>&lt;pre".toList ++ "&gt;\n</code></pre>\n<".toList ++
  "pre><code class=\"lan".toList ++ "guage-r&quot;&quot;s".toList ++ "\">x\n</code></pre>\n<b".toList ++
  "lockquote>\n<ol start".toList ++ "=\"7\">\n<li>i</li>\n</o".toList ++ "l>\n<ul>\n<li></li>\n</".toList ++
  "ul>\n</blockquote>\n".toList

example : renderHtml lkDemo true docAll = .ok docAllXhtml := by
  -- evaluated through the per-event pieces (`serialize_events`): linear, unlike the buffer fold
  have h : (render lkDemo docAll).map (fun evs => replaceNul (flatten (pieces true evs))) =
      .ok docAllXhtml := by decide +kernel
  unfold renderHtml
  cases hr : render lkDemo docAll with
  | error e => rw [hr] at h; simp [Except.map] at h
  | ok evs =>
    rw [hr] at h
    simp only [Except.map, Except.ok.injEq] at h
    simp only [serialize_events, h]

example : (render lkDemo docAll).toOption.map List.length = some 79 := by decide +kernel

/-- html nodes that ARE rendered -/
def docHtml : Node :=
  ⟨.root, [], [⟨.htmlBlock "<div onclick=x>\n".toList, [], []⟩,
    ⟨.paragraph, [], [tx "a", ⟨.htmlInline "<script>".toList, [], []⟩, ⟨.htmlInline [], [], []⟩]⟩]⟩

example : ¬ HtmlFree docHtml := by decide
example : render lkDemo docHtml = .ok
    [.cr, .raw "<div onclick=x>\n".toList, .cr, .cr, .open tP [], .text ['a'],
     .raw "<script>".toList, .raw [], .close tP, .cr] := by decide +kernel
example : (render lkDemo docHtml).toOption.map rawsOf =
    some ["<div onclick=x>\n".toList, "<script>".toList, []] := by decide +kernel
example : renderHtml lkDemo false docHtml =
    .ok "<div onclick=x>\n<p>a<script></p>\n".toList := by decide +kernel

-- panics: exact kind, first one in invocation order wins, unrendered subtrees do not matter
example : render lkDemo ⟨.root, [], [⟨.atx 7, [], []⟩]⟩ = .error .index := by decide
example : render lkDemo ⟨.root, [], [⟨.atx 0, [], [⟨.placeholder, [], []⟩]⟩]⟩ = .error .index := by
  decide
example : render lkDemo ⟨.root, [], [⟨.setext 3, [], []⟩]⟩ = .error .index := by decide
example : render lkDemo ⟨.root, [], [tx "a", ⟨.placeholder, [], []⟩, ⟨.atx 9, [], []⟩]⟩ =
    .error .unimplemented := by decide
example : ¬ Renderable ⟨.root, [], [⟨.paragraph, [], [⟨.placeholder, [], []⟩]⟩]⟩ := by decide
-- a placeholder under an image or under a text node is never rendered
example : render lkDemo ⟨.image [] none, [], [⟨.placeholder, [], [tx "x"]⟩]⟩ =
    .ok [.selfClose tImg [(aSrc, []), (aAlt, ['x'])]] := by decide
example : Renderable ⟨.text ['a'], [], [⟨.placeholder, [], []⟩]⟩ := by decide

-- fence language: Unicode white space delimits, escapes and references are decoded first
example : fenceAttrsT lkDemo [] "   a&quot;b\\*\tc".toList ['l', '-'] =
    [(aClass, "l-a\"b*".toList)] := by decide +kernel
example : fenceAttrsT lkDemo [] " 　".toList ['l', '-'] = [] := by decide +kernel
-- ordered list: `start` only when it is not 1
example : olAttrs [] 1 = [] ∧ olAttrs [] 0 = [(aStart, ['0'])] ∧
    olAttrs [] 4294967295 = [(aStart, "4294967295".toList)] := by decide +kernel

/-- `AttrsSourcepos` is needed: `node.attrs` names are written after `escape_html` only, which does
    not stop blanks or `=`.  (They are `&'static str`s chosen by plugins, never input.) -/
example : renderHtml lkDemo false ⟨.paragraph, [("x onclick=alert(1) y".toList, [])], []⟩ =
    .ok "<p x onclick=alert(1) y=\"\"></p>\n".toList := by decide +kernel

end MdIt.NodeRender
