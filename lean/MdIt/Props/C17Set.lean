/-
  C17, the configured safe set: `AsciiSet` under ANY history of `add` / `remove` calls is the set the calls
  describe ("the configured safe characters" of the property are whatever such a history leaves).

    `setHas_setRemove`   `remove c` takes out exactly `c` (also when `c` was not in the set: nothing changes)
    `setOps_spec`        after any history, `has b` = the membership function updated call by call
    `setRemove_absent`   removing an absent byte leaves the 128-bit constant unchanged
-/
import MdIt.Props.C17

namespace MdIt.Url

theorem setRemove_lt (bits b : Nat) (h : bits < 2 ^ 128) : setRemove bits b < 2 ^ 128 := by
  unfold setRemove
  exact Nat.lt_of_le_of_lt Nat.and_le_left h

theorem setAdd_lt (bits b : Nat) (h : bits < 2 ^ 128) (hb : b < 128) : setAdd bits b < 2 ^ 128 := by
  unfold setAdd
  apply Nat.or_lt_two_pow h
  rw [Nat.one_shiftLeft]
  exact Nat.pow_lt_pow_right (by omega) hb

/-- **`remove c` takes out exactly `c`** -/
theorem setHas_setRemove (bits c b : Nat) (hb : b < 128) :
    setHas (setRemove bits c) b = (setHas bits b && b != c) := by
  simp only [setHas_testBit, setRemove, Nat.testBit_and, Nat.testBit_xor, Nat.one_shiftLeft,
    Nat.testBit_two_pow, Nat.testBit_two_pow_sub_one, hb, decide_true]
  by_cases h : c = b
  · subst h; simp
  · have : (b != c) = true := by simp; omega
    simp [h, this]

/-- membership of byte `b` after a history of calls, from its membership `v` before: call by call -/
def memOps : List (Bool × Nat) → Nat → Bool → Bool
  | [], _, v => v
  | (rm, c) :: r, b, v => memOps r b (if rm then (v && b != c) else (v || b == c))

/-- **after ANY history of `add` / `remove` calls `has` answers as the calls prescribe** -/
theorem setOps_spec : ∀ (ops : List (Bool × Nat)) (bits : Nat) (b : Nat), b < 128 →
    setHas (setOps bits ops) b = memOps ops b (setHas bits b)
  | [], _, _, _ => rfl
  | (rm, c) :: r, bits, b, hb => by
    have step : setOps bits ((rm, c) :: r) = setOps (if rm then setRemove bits c else setAdd bits c) r := by
      simp [setOps]
    rw [step, setOps_spec r _ b hb]
    cases rm
    · simp [memOps, setHas_setAdd]
    · simp [memOps, setHas_setRemove _ _ _ hb]

/-- removing a byte that is not in the set changes nothing (the seeded `xor` variant adds it) -/
theorem setRemove_absent (bits c : Nat) (hlt : bits < 2 ^ 128) (hc : c < 128) (h : setHas bits c = false) :
    setRemove bits c = bits := by
  apply Nat.eq_of_testBit_eq
  intro i
  by_cases hi : i < 128
  · have := setHas_setRemove bits c i hi
    simp only [setHas_testBit] at this h
    rw [this]
    by_cases e : i = c
    · subst e; simp [h]
    · simp [e]
  · rw [Nat.testBit_lt_two_pow (Nat.lt_of_lt_of_le (setRemove_lt bits c hlt) (Nat.pow_le_pow_right (by omega) (by omega))),
      Nat.testBit_lt_two_pow (Nat.lt_of_lt_of_le hlt (Nat.pow_le_pow_right (by omega) (by omega)))]

/-- the defensive `SET.remove(b'%')` on the shipped safe set: still the shipped set, `%` not in it -/
example : setRemove (setFrom shippedSafe) 37 = setFrom shippedSafe ∧ setHas (setRemove (setFrom shippedSafe) 37) 37 = false := by
  decide +kernel

end MdIt.Url
