/-
  Theorems about the block-parser model `MdIt.Model.Block` that other property files cite
  (C01 progress / termination, C16 look-ahead, C05 ranges, C11 code content, C14 list shape, C06).

  Conventions.  The rules that call back into the parser are parameterised by the nested tokenizer
  `tok` and the look-ahead `test` (see the model); the theorems about them assume

      TestPure test   the look-ahead returns the state it was given          (`testRules_pure`)
      TokSpec tok     what `tokenize_spec` proves of the tokenizer itself

  and `engine_spec` closes the loop by induction on the fuel, so that the `tokenize_*`,
  `testRules_*` and `ruleAt_*` theorems are unconditional.  Every statement is conditional on the
  model returning `.ok …` (absence of panics is C01's composition), for ALL sources, configurations,
  chains and fuels.

  Section index:
    1  tactics / monad lemmas
    2  `silent_pure_<rule>`, `testRules_pure`
    3  `silent_implies_real_<rule>`
    4  `real_false_same_<rule>`        (a rule that answers `false` leaves the state alone)
    5  `Frame`, `TokSpec`, the scans
    6  `block_rule_progress_<rule>`, `block_rule_frame_<rule>`
    7  `tokenize_progress` (`tokLoop_spec`, `engine_spec`)
-/
import MdIt.Model.Block
import MdIt.Props.C10

namespace MdIt.Block
open MdIt.Lines (LineOffset)

/-! ## 1. tactics -/

theorem bind_ok {α β : Type} {x : Except Panic α} {f : α → Except Panic β} {b : β} :
    (x >>= f) = .ok b ↔ ∃ a, x = .ok a ∧ f a = .ok b := by
  cases x with
  | error e => simp [bind, Except.bind]
  | ok a => simp [bind, Except.bind]

theorem pure_ok {α : Type} {a b : α} : (pure a : Except Panic α) = .ok b ↔ a = b := by
  simp [pure, Except.pure]

theorem map_ok {α β : Type} {x : Except Panic α} {f : α → β} {b : β} :
    (f <$> x) = .ok b ↔ ∃ a, x = .ok a ∧ f a = b := by
  cases x with
  | error e => simp [Functor.map, Except.map]
  | ok a => simp [Functor.map, Except.map]

@[simp] theorem ok_bind {α β : Type} (a : α) (f : α → Except Panic β) : (Except.ok a >>= f) = f a := rfl

/-- take a hypothesis `h : <do-block> = .ok r` apart: one goal per successful path, with one
    hypothesis per `←`, per branch condition and per `match` -/
syntax "crack " ident : tactic
macro_rules
| `(tactic| crack $h:ident) => `(tactic|
  repeat' (first
    | contradiction
    | (simp only [bind_ok, map_ok, pure_ok, reduceCtorEq, Prod.mk.injEq, Bool.false_eq_true, Bool.true_eq_false,
        false_and, and_false, true_and, and_true, if_false, if_true, Except.ok.injEq] at $h:ident)
    | (rcases $h:ident with ⟨_, _, $h:ident⟩)
    | split at $h:ident))

theorem psub_ok {a b c : Nat} (h : psub a b = .ok c) : b ≤ a ∧ c = a - b := by
  unfold psub at h
  split at h
  · simp at h; exact ⟨by assumption, h.symm⟩
  · cases h

theorem set_line_back (s : BState) (n : Nat) : { { s with line := n } with line := s.line } = s := by
  cases s; rfl

/-! ## 2. silent mode is pure -/

theorem silent_pure_hr {s s' : BState} {b : Bool} (h : hrRule s true = .ok (b, s')) : s' = s := by
  unfold hrRule at h
  crack h
  all_goals simp_all

theorem silent_pure_heading {s s' : BState} {b : Bool} (h : headingRule s true = .ok (b, s')) :
    s' = s := by
  unfold headingRule at h
  crack h
  all_goals simp_all

theorem silent_pure_code {s s' : BState} {b : Bool} (h : codeRule s true = .ok (b, s')) : s' = s := by
  unfold codeRule at h
  crack h
  all_goals simp_all

theorem silent_pure_fence {s s' : BState} {b : Bool} (h : fenceRule s true = .ok (b, s')) : s' = s := by
  unfold fenceRule at h
  crack h
  all_goals simp_all

theorem silent_pure_paragraph {test : Test} {fuel : Nat} {s s' : BState} {b : Bool}
    (h : paragraphRule test fuel s true = .ok (b, s')) : s' = s := by
  unfold paragraphRule at h
  crack h
  all_goals simp_all

theorem silent_pure_lheading {test : Test} {fuel : Nat} {s s' : BState} {b : Bool}
    (h : lheadingRule test fuel s true = .ok (b, s')) : s' = s := by
  unfold lheadingRule at h
  crack h
  all_goals simp_all

theorem silent_pure_reference {cfg : Cfg} {test : Test} {fuel : Nat} {s s' : BState} {b : Bool}
    (h : referenceRule cfg test fuel s true = .ok (b, s')) : s' = s := by
  unfold referenceRule at h
  crack h
  all_goals simp_all

theorem silent_pure_blockquote {tok : Tok} {test : Test} {fuel : Nat} {s s' : BState} {b : Bool}
    (h : blockquoteRule tok test fuel s true = .ok (b, s')) : s' = s := by
  unfold blockquoteRule at h
  crack h
  all_goals simp_all

theorem silent_pure_list {tok : Tok} {test : Test} {fuel : Nat} {s s' : BState} {b : Bool}
    (h : listRule tok test fuel s true = .ok (b, s')) : s' = s := by
  unfold listRule at h
  crack h
  all_goals simp_all

/-- the four rules that never fire in silent mode -/
theorem silent_false_code {s : BState} : codeRule s true = .ok (false, s) := rfl
theorem silent_false_paragraph {test : Test} {fuel : Nat} {s : BState} :
    paragraphRule test fuel s true = .ok (false, s) := rfl
theorem silent_false_lheading {test : Test} {fuel : Nat} {s : BState} :
    lheadingRule test fuel s true = .ok (false, s) := rfl
theorem silent_false_reference {cfg : Cfg} {test : Test} {fuel : Nat} {s : BState} :
    referenceRule cfg test fuel s true = .ok (false, s) := rfl

/-- every rule of the chain, whatever the call-backs are -/
theorem silent_pure_rule {cfg : Cfg} {tok : Tok} {test : Test} {fuel : Nat} {r : RuleId}
    {s s' : BState} {b : Bool} (h : runRule cfg tok test fuel r s true = .ok (b, s')) : s' = s := by
  cases r <;> simp only [runRule] at h
  · exact silent_pure_code h
  · exact silent_pure_fence h
  · exact silent_pure_blockquote h
  · exact silent_pure_hr h
  · exact silent_pure_list h
  · exact silent_pure_reference h
  · exact silent_pure_heading h
  · exact silent_pure_lheading h
  · exact silent_pure_paragraph h

/-- the look-ahead returns the state it was given -/
def TestPure (test : Test) : Prop := ∀ s r, test s = .ok r → r.2 = s

theorem runChain_silent_pure {run : RuleId → BState → Bool → Res}
    (hrun : ∀ r s b s', run r s true = .ok (b, s') → s' = s) :
    ∀ (chain : List RuleId) (s : BState) (b : Bool) (s' : BState),
      runChain run chain s true = .ok (b, s') → s' = s := by
  intro chain
  induction chain with
  | nil => intro s b s' h; simp [runChain] at h; exact h.2.symm
  | cons r rs ih =>
    intro s b s' h
    simp only [runChain] at h
    split at h
    · cases h
    · rename_i s1 h1
      cases h
      exact hrun _ _ _ _ h1
    · rename_i s1 h1
      have := hrun _ _ _ _ h1
      subst this
      exact ih _ _ _ h

/-- `test_rules_at_line` of the shipped rules changes nothing (not even `state.line`) -/
theorem testRules_pure (cfg : Cfg) (fuel : Nat) : TestPure (testRules cfg fuel) := by
  intro s ⟨b, s'⟩ h
  cases fuel with
  | zero => simp [testRules, engine] at h
  | succ f =>
    simp only [testRules, engine] at h
    exact runChain_silent_pure (fun r s b s' h => silent_pure_rule h) _ _ _ _ h

/-! ## 3. silent `true` ⇒ real mode does not answer `false`

  (`code`, `paragraph`, `lheading`, `reference` never answer `true` in silent mode: `silent_false_*`.)
  The real-mode run starts with the same checks on the same state; the list rule has two more checks
  in silent mode (a list interrupting a paragraph must start with 1 and must not be empty), none
  less. -/

set_option linter.unusedSimpArgs false

/-- rewrite the real-mode run `hr` with everything the silent run established -/
syntax "replay " ident : tactic
macro_rules
| `(tactic| replay $hr:ident) => `(tactic|
    simp only [*, ok_bind, ↓reduceIte, not_true_eq_false, not_false_eq_true, Bool.false_eq_true,
      decide_false, decide_true, false_and, and_false] at $hr:ident)

theorem silent_implies_real_hr {s s1 s2 : BState} {b : Bool}
    (hs : hrRule s true = .ok (true, s1)) (hr : hrRule s false = .ok (b, s2)) : b = true := by
  unfold hrRule at hs hr
  crack hs
  replay hr
  crack hr
  all_goals simp_all

theorem silent_implies_real_heading {s s1 s2 : BState} {b : Bool}
    (hs : headingRule s true = .ok (true, s1)) (hr : headingRule s false = .ok (b, s2)) : b = true := by
  unfold headingRule at hs hr
  crack hs
  replay hr
  crack hr
  all_goals simp_all

theorem silent_implies_real_fence {s s1 s2 : BState} {b : Bool}
    (hs : fenceRule s true = .ok (true, s1)) (hr : fenceRule s false = .ok (b, s2)) : b = true := by
  unfold fenceRule at hs hr
  crack hs
  replay hr
  crack hr
  all_goals simp_all

theorem silent_implies_real_blockquote {tok : Tok} {test : Test} {fuel : Nat} {s s1 s2 : BState}
    {b : Bool} (hs : blockquoteRule tok test fuel s true = .ok (true, s1))
    (hr : blockquoteRule tok test fuel s false = .ok (b, s2)) : b = true := by
  unfold blockquoteRule at hs hr
  crack hs
  replay hr
  crack hr
  all_goals simp_all

theorem silent_implies_real_list {tok : Tok} {test : Test} {fuel : Nat} {s s1 s2 : BState} {b : Bool}
    (hs : listRule tok test fuel s true = .ok (true, s1))
    (hr : listRule tok test fuel s false = .ok (b, s2)) : b = true := by
  unfold listRule at hs hr
  crack hs
  all_goals (replay hr)
  all_goals (crack hr)
  all_goals (try simp only [emptyItemCheck, Bool.false_eq_true, ↓reduceIte, pure_ok, Except.ok.injEq] at *)
  all_goals (subst_vars; first | rfl | contradiction)

/-- the same for a rule as the chain runs it -/
theorem silent_implies_real_rule {cfg : Cfg} {tok : Tok} {test : Test} {fuel : Nat} {r : RuleId}
    {s s1 s2 : BState} {b : Bool} (hs : runRule cfg tok test fuel r s true = .ok (true, s1))
    (hr : runRule cfg tok test fuel r s false = .ok (b, s2)) : b = true := by
  cases r <;> simp only [runRule] at hs hr
  · simp [silent_false_code] at hs
  · exact silent_implies_real_fence hs hr
  · exact silent_implies_real_blockquote hs hr
  · exact silent_implies_real_hr hs hr
  · exact silent_implies_real_list hs hr
  · simp [silent_false_reference] at hs
  · exact silent_implies_real_heading hs hr
  · simp [silent_false_lheading] at hs
  · simp [silent_false_paragraph] at hs

/-! ## 4. a rule that answers `false` in real mode leaves the state alone -/

theorem lazyScan_spec {test : Test} (ht : TestPure test) (setext : Bool) :
    ∀ (fuel : Nat) (s : BState) (n : Nat) (r : Nat × Nat × BState),
      lazyScan test setext fuel s n = .ok r →
      r.2.2 = s ∧ n < r.1 ∧ (n < s.lineMax → r.1 ≤ s.lineMax) ∧ (r.2.1 ≠ 0 → r.1 < s.lineMax) := by
  intro fuel
  induction fuel with
  | zero => intro s n r h; simp [lazyScan] at h
  | succ f ih =>
    intro s n r h
    simp only [lazyScan] at h
    crack h
    · simp; omega
    · have hc : ¬(_ ∨ _) := ‹_›
      obtain ⟨h1, h2, h3, h4⟩ := ih _ _ _ h
      simp only [not_or] at hc
      exact ⟨h1, by omega, fun _ => h3 (by omega), h4⟩
    · have hc : ¬(_ ∨ _) := ‹_›
      simp only [not_or] at hc
      simp; omega
    · have hc : ¬(_ ∨ _) := ‹_›
      obtain ⟨h1, h2, h3, h4⟩ := ih _ _ _ h
      simp only [not_or] at hc
      exact ⟨h1, by omega, fun _ => h3 (by omega), h4⟩
    · have e := ht _ _ ‹test _ = _›
      simp [e]; omega
    · have hc : ¬(_ ∨ _) := ‹_›
      have e := ht _ _ ‹test _ = _›
      simp only [e] at h
      obtain ⟨h1, h2, h3, h4⟩ := ih _ _ _ h
      simp only [not_or] at hc
      exact ⟨h1, by omega, fun _ => h3 (by simp; omega), h4⟩

theorem real_false_same_hr {s s' : BState} (h : hrRule s false = .ok (false, s')) : s' = s := by
  unfold hrRule at h
  crack h
  all_goals simp_all

theorem real_false_same_heading {s s' : BState} (h : headingRule s false = .ok (false, s')) : s' = s := by
  unfold headingRule at h
  crack h
  all_goals simp_all

theorem real_false_same_code {s s' : BState} (h : codeRule s false = .ok (false, s')) : s' = s := by
  unfold codeRule at h
  crack h
  all_goals simp_all

theorem real_false_same_fence {s s' : BState} (h : fenceRule s false = .ok (false, s')) : s' = s := by
  unfold fenceRule at h
  crack h
  all_goals simp_all

theorem real_false_same_blockquote {tok : Tok} {test : Test} {fuel : Nat} {s s' : BState}
    (h : blockquoteRule tok test fuel s false = .ok (false, s')) : s' = s := by
  unfold blockquoteRule at h
  crack h
  all_goals simp_all

theorem real_false_same_list {tok : Tok} {test : Test} {fuel : Nat} {s s' : BState}
    (h : listRule tok test fuel s false = .ok (false, s')) : s' = s := by
  unfold listRule at h
  crack h
  all_goals (subst_vars; first | rfl | contradiction)

/-- the paragraph rule never answers `false` in real mode -/
theorem real_true_paragraph {test : Test} {fuel : Nat} {s s' : BState} {b : Bool}
    (h : paragraphRule test fuel s false = .ok (b, s')) : b = true := by
  unfold paragraphRule at h
  crack h
  exact Eq.symm ‹true = b›

theorem real_false_same_lheading {test : Test} (ht : TestPure test) {fuel : Nat} {s s' : BState}
    (h : lheadingRule test fuel s false = .ok (false, s')) : s' = s := by
  unfold lheadingRule at h
  crack h
  · simp_all
  · have := (lazyScan_spec ht true _ _ _ _ ‹lazyScan _ _ _ _ _ = _›).1
    simp_all

theorem real_false_same_reference {cfg : Cfg} {test : Test} (ht : TestPure test) {fuel : Nat}
    {s s' : BState} (h : referenceRule cfg test fuel s false = .ok (false, s')) : s' = s := by
  unfold referenceRule at h
  crack h
  all_goals (try (have := (lazyScan_spec ht false _ _ _ _ ‹lazyScan _ _ _ _ _ = _›).1))
  all_goals simp_all

/-! ## 5. what no rule changes; what the nested tokenizer must satisfy -/

/-- the part of the state that every rule and every tokenizer call hands back as it found it
    (containers rewrite `offs`, `blkIndent`, `lineMax`, `listIndent`, `level`, `node` — and restore) -/
structure Frame (s s' : BState) : Prop where
  src : s'.src = s.src
  offs : s'.offs = s.offs
  lineMax : s'.lineMax = s.lineMax
  blkIndent : s'.blkIndent = s.blkIndent
  listIndent : s'.listIndent = s.listIndent
  level : s'.level = s.level
  nodeKind : s'.nodeKind = s.nodeKind

theorem Frame.refl (s : BState) : Frame s s := ⟨rfl, rfl, rfl, rfl, rfl, rfl, rfl⟩

theorem Frame.trans {a b c : BState} (h1 : Frame a b) (h2 : Frame b c) : Frame a c :=
  ⟨h2.src.trans h1.src, h2.offs.trans h1.offs, h2.lineMax.trans h1.lineMax,
   h2.blkIndent.trans h1.blkIndent, h2.listIndent.trans h1.listIndent, h2.level.trans h1.level,
   h2.nodeKind.trans h1.nodeKind⟩

theorem setOff_ok {s s' : BState} {i : Nat} {o : LineOffset} (h : s.setOff i o = .ok s') :
    i < s.offs.length ∧ s' = { s with offs := s.offs.set i o } := by
  unfold BState.setOff at h
  split at h
  · simp at h; exact ⟨by assumption, h.symm⟩
  · cases h

theorem off_ok {s : BState} {i : Nat} {o : LineOffset} (h : s.off i = .ok o) :
    s.offs[i]? = some o := by
  unfold BState.off at h
  split at h
  · simp at h; simp_all
  · cases h

/-! ### the table invariant -/

/-- an entry of the line table cuts a line-feed-free line `a ++ b` out of the source, with
    `first_nonspace` at the boundary between `a` and `b` -/
def LineOk (src : List Char) (o : LineOffset) : Prop :=
  ∃ p a b q, src = p ++ a ++ b ++ q ∧ Lines.byteLen p = o.lineStart ∧
    o.firstNonspace = o.lineStart + Lines.byteLen a ∧
    o.lineEnd = o.lineStart + Lines.byteLen a + Lines.byteLen b ∧ '\n' ∉ a ∧ '\n' ∉ b

/-- every entry of the table is `LineOk` (containers move `first_nonspace` only along the line) -/
def TableOk (s : BState) : Prop := ∀ (k : Nat) (o : LineOffset), s.offs[k]? = some o → LineOk s.src o

theorem TableOk.of_frame {s s' : BState} (h : TableOk s) (hf : Frame s s') : TableOk s' := by
  intro k o ho
  rw [hf.offs] at ho
  rw [hf.src]
  exact h k o ho

/-- the rewriting both containers perform: `first_nonspace := line_start + fn` with `fn` returned by
    `find_indent_of(&src[line_start..line_end], rel)`; `indent_nonspace` is arbitrary -/
theorem lineOk_rewrite {src : List Char} {o : LineOffset} (h : LineOk src o) {ltxt : List Char}
    (hl : liftL (Lines.slice src o.lineStart o.lineEnd) = .ok ltxt) {rel ind fn : Nat}
    (hf : liftL (Lines.findIndentOf ltxt rel) = .ok (ind, fn)) (x : Int) :
    LineOk src { o with firstNonspace := fn + o.lineStart, indentNonspace := x } := by
  obtain ⟨p, a, b, q, hsrc, hp, hfn, hle, ha, hb⟩ := h
  have hl' : Lines.slice src o.lineStart o.lineEnd = .ok ltxt := by
    cases hs : Lines.slice src o.lineStart o.lineEnd with
    | error e => rw [hs] at hl; cases e <;> simp [liftL] at hl
    | ok v => rw [hs] at hl; simp [liftL] at hl; rw [hl]
  have hf' : Lines.findIndentOf ltxt rel = .ok (ind, fn) := by
    cases hs : Lines.findIndentOf ltxt rel with
    | error e => rw [hs] at hf; cases e <;> simp [liftL] at hf
    | ok v => rw [hs] at hf; simp [liftL] at hf; rw [hf]
  -- `ltxt = a ++ b`
  have hab : Lines.slice src o.lineStart o.lineEnd = .ok (a ++ b) := by
    refine Lines.slice_eq_ok_iff.mpr ⟨p, q, by rw [hsrc]; simp, hp, ?_⟩
    simp; omega
  rw [hab] at hl'
  cases hl'
  obtain ⟨_, _, hbd, _, _⟩ := Lines.find_indent_bounds _ _ _ _ hf'
  obtain ⟨a', b', hab', hfa⟩ := Lines.onBoundary_iff.mp hbd
  have hmem : ∀ c, c ∈ a' ∨ c ∈ b' → c ∈ a ∨ c ∈ b := by
    intro c hc
    have : c ∈ a ++ b := by rw [hab']; simpa using hc
    simpa using this
  refine ⟨p, a', b', q, ?_, hp, ?_, ?_, ?_, ?_⟩
  · rw [hsrc]; simp only [List.append_assoc]; rw [← List.append_assoc a b, hab']; simp
  · simp; omega
  · have := congrArg Lines.byteLen hab'
    simp at this ⊢; omega
  · intro hc; rcases hmem _ (.inl hc) with h | h; exact ha h; exact hb h
  · intro hc; rcases hmem _ (.inr hc) with h | h; exact ha h; exact hb h

theorem TableOk.setOff {s s' : BState} {m : Nat} {x : LineOffset} (h : TableOk s)
    (hs : s.setOff m x = .ok s') (hx : LineOk s.src x) : TableOk s' := by
  obtain ⟨hm, rfl⟩ := setOff_ok hs
  intro k o ho
  simp only [List.getElem?_set] at ho
  split at ho
  · simp [hm] at ho; subst ho; exact hx
  · exact h k o ho

/-- changing `indent_nonspace` only -/
theorem LineOk.indent {src : List Char} {o : LineOffset} (h : LineOk src o) (x : Int) :
    LineOk src { o with indentNonspace := x } := h

/-- the table of a fresh state -/
theorem tableOk_fresh (src : List Char) (k : Kind) (refs : Refs.RefMap) :
    TableOk (BState.fresh src k refs) := by
  intro i o ho
  simp only [BState.fresh] at ho ⊢
  obtain ⟨A, lt, B, _, _, rfl, hsrc, hnt, _⟩ := Lines.split_entry ho
  have hl := Lines.lead_append_rest lt.1
  refine ⟨Lines.flat A, Lines.lead lt.1, lt.1.dropWhile Lines.isBlank, lt.2 ++ Lines.flat B, ?_, ?_, ?_, ?_, ?_, ?_⟩
  · conv => lhs; rw [hsrc, ← hl]
    simp [List.append_assoc]
  · simp [Lines.mkOff]
  · simp [Lines.mkOff, Lines.byteLen_lead]
  · have := congrArg Lines.byteLen hl
    simp [Lines.byteLen_lead] at this
    simp [Lines.mkOff, Lines.byteLen_lead]; omega
  · intro hc
    exact (hnt _ ((List.takeWhile_sublist _).subset hc)).1 rfl
  · intro hc
    exact (hnt _ ((List.dropWhile_sublist _).subset hc)).1 rfl

/-- `0 ≤ line_indent(line)`, the condition under which the tokenizer runs the chain -/
def IndentOk (s : BState) : Prop := ∃ i, s.lineIndent s.line = .ok i ∧ 0 ≤ i

/-- what the theorems about the container rules need of the nested tokenizer -/
structure TokSpec (tok : Tok) : Prop where
  frame : ∀ s s', tok s = .ok s' → Frame s s'
  mono : ∀ s s', tok s = .ok s' → s.line ≤ s'.line
  upper : ∀ s s', tok s = .ok s' → TableOk s → s.line ≤ s.lineMax → s'.line ≤ s.lineMax
  strict : ∀ s s', tok s = .ok s' → s.line < s.lineMax →
    (s.isEmpty s.line = true ∨ IndentOk s) → s.line < s'.line

/-- a rule answered `true` in real mode: the frame is intact, `line` moved forward and (on a table
    that satisfies the invariant) not beyond `line_max` -/
structure Advanced (s s' : BState) : Prop where
  frame : Frame s s'
  lt : s.line < s'.line
  le : TableOk s → s'.line ≤ s.lineMax

/-! ## 6. progress of the nine rules -/

theorem hr_advanced {s s' : BState} (h : hrRule s false = .ok (true, s')) (hl : s.line < s.lineMax) :
    Advanced s s' := by
  unfold hrRule at h
  crack h
  refine ⟨⟨rfl, rfl, rfl, rfl, rfl, rfl, rfl⟩, ?_, fun _ => ?_⟩ <;> simp [BState.push] <;> omega

theorem heading_advanced {s s' : BState} (h : headingRule s false = .ok (true, s'))
    (hl : s.line < s.lineMax) : Advanced s s' := by
  unfold headingRule at h
  crack h
  refine ⟨⟨rfl, rfl, rfl, rfl, rfl, rfl, rfl⟩, ?_, fun _ => ?_⟩ <;> simp [BState.push] <;> omega

theorem codeScan_spec (s : BState) (n last r : Nat) (h : codeScan s n last = .ok r) (hn : last ≤ n) :
    last ≤ r ∧ (last ≤ s.lineMax → r ≤ s.lineMax) := by
  fun_induction codeScan s n last <;> simp_all <;> omega

theorem code_advanced {s s' : BState} (h : codeRule s false = .ok (true, s')) (hl : s.line < s.lineMax) :
    Advanced s s' := by
  unfold codeRule at h
  crack h
  have := codeScan_spec _ _ _ _ ‹codeScan _ _ _ = _› (Nat.le_refl _)
  refine ⟨⟨rfl, rfl, rfl, rfl, rfl, rfl, rfl⟩, ?_, fun _ => ?_⟩ <;> simp [BState.push] <;> omega

theorem fenceScan_spec (s : BState) (marker : Char) (len n : Nat) (a : Nat) (b : Bool)
    (h : fenceScan s marker len n = .ok (a, b)) (hn : n < s.lineMax) :
    n < a ∧ a ≤ s.lineMax ∧ (b = true → a < s.lineMax) := by
  fun_induction fenceScan s marker len n <;> simp_all <;> omega

theorem fence_advanced {s s' : BState} (h : fenceRule s false = .ok (true, s')) (hl : s.line < s.lineMax) :
    Advanced s s' := by
  unfold fenceRule at h
  crack h
  have := fenceScan_spec _ _ _ _ _ _ ‹fenceScan _ _ _ _ = _› hl
  refine ⟨⟨rfl, rfl, rfl, rfl, rfl, rfl, rfl⟩, ?_, fun _ => ?_⟩ <;> simp [BState.push] <;> split <;> simp_all <;> omega

theorem paragraph_advanced {test : Test} (ht : TestPure test) {fuel : Nat} {s s' : BState}
    (h : paragraphRule test fuel s false = .ok (true, s')) (hl : s.line < s.lineMax) :
    Advanced s s' := by
  unfold paragraphRule at h
  crack h
  obtain ⟨h1, h2, h3, _⟩ := lazyScan_spec ht false _ _ _ _ ‹lazyScan _ _ _ _ _ = _›
  refine ⟨⟨?_, ?_, ?_, ?_, ?_, ?_, ?_⟩, ?_, fun _ => ?_⟩ <;> simp [BState.push, h1] <;> omega

theorem lheading_advanced {test : Test} (ht : TestPure test) {fuel : Nat} {s s' : BState}
    (h : lheadingRule test fuel s false = .ok (true, s')) (hl : s.line < s.lineMax) :
    Advanced s s' := by
  unfold lheadingRule at h
  crack h
  obtain ⟨h1, h2, h3, h4⟩ := lazyScan_spec ht true _ _ _ _ ‹lazyScan _ _ _ _ _ = _›
  have := h4 ‹_›
  refine ⟨⟨?_, ?_, ?_, ?_, ?_, ?_, ?_⟩, ?_, fun _ => ?_⟩ <;> simp [BState.push, h1] <;> omega

/-- the reference rule: frame and strict progress (the upper bound needs the table invariant:
    `reference_advanced`) -/
theorem reference_frame_lt {cfg : Cfg} {test : Test} (ht : TestPure test) {fuel : Nat} {s s' : BState}
    (h : referenceRule cfg test fuel s false = .ok (true, s')) :
    Frame s s' ∧ s.line < s'.line := by
  unfold referenceRule at h
  crack h
  obtain ⟨h1, h2, h3, _⟩ := lazyScan_spec ht false _ _ _ _ ‹lazyScan _ _ _ _ _ = _›
  refine ⟨⟨?_, ?_, ?_, ?_, ?_, ?_, ?_⟩, ?_⟩ <;> simp [h1] <;> omega
/-! ### block quote -/

theorem restoreOffs_set_comm (j : Nat) (x : LineOffset) :
    ∀ (add l : List LineOffset) (i : Nat) (r : List LineOffset), j < i →
      restoreOffs l i add = .ok r → restoreOffs (l.set j x) i add = .ok (r.set j x) := by
  intro add
  induction add with
  | nil => intro l i r _ h; simp [restoreOffs] at h ⊢; rw [h]
  | cons o add ih =>
    intro l i r hj h
    simp only [restoreOffs, List.length_set] at h ⊢
    split at h
    · rename_i hi
      rw [if_pos hi, List.set_comm _ _ (by omega)]
      exact ih _ _ _ (by omega) h
    · cases h

/-- everything but `offs` and `line` is the same -/
structure SameBut (s s' : BState) : Prop where
  src : s'.src = s.src
  blkIndent : s'.blkIndent = s.blkIndent
  lineMax : s'.lineMax = s.lineMax
  tight : s'.tight = s.tight
  listIndent : s'.listIndent = s.listIndent
  level : s'.level = s.level
  nodeKind : s'.nodeKind = s.nodeKind
  children : s'.children = s.children
  refs : s'.refs = s.refs
  len : s'.offs.length = s.offs.length

theorem SameBut.refl (s : BState) : SameBut s s := ⟨rfl, rfl, rfl, rfl, rfl, rfl, rfl, rfl, rfl, rfl⟩
theorem SameBut.trans {a b c : BState} (h1 : SameBut a b) (h2 : SameBut b c) : SameBut a c :=
  ⟨h2.src.trans h1.src, h2.blkIndent.trans h1.blkIndent, h2.lineMax.trans h1.lineMax,
   h2.tight.trans h1.tight, h2.listIndent.trans h1.listIndent, h2.level.trans h1.level,
   h2.nodeKind.trans h1.nodeKind, h2.children.trans h1.children, h2.refs.trans h1.refs,
   h2.len.trans h1.len⟩

theorem sameBut_setOff {s s' : BState} {i : Nat} {o : LineOffset} (h : s.setOff i o = .ok s') :
    SameBut s s' := by
  obtain ⟨_, rfl⟩ := setOff_ok h
  exact ⟨rfl, rfl, rfl, rfl, rfl, rfl, rfl, rfl, rfl, by simp⟩

theorem sameBut_line (s : BState) (n : Nat) : SameBut s { s with line := n } :=
  ⟨rfl, rfl, rfl, rfl, rfl, rfl, rfl, rfl, rfl, rfl⟩

/-- one entry saved, one entry rewritten, the rest of the scan restorable ⇒ the whole restorable -/
theorem restore_step {offs offs' : List LineOffset} {m : Nat} {o x : LineOffset} {add : List LineOffset}
    (ho : offs[m]? = some o) (hlen : offs'.length = offs.length)
    (h : restoreOffs offs' (m + 1) add = .ok (offs.set m x)) :
    restoreOffs offs' m (o :: add) = .ok offs := by
  have hm : m < offs.length := (List.getElem?_eq_some_iff.mp ho).1
  simp only [restoreOffs]
  rw [if_pos (by omega)]
  have := restoreOffs_set_comm m o add offs' (m + 1) _ (by omega) h
  rw [this, List.set_set]
  congr 1
  have := (List.getElem?_eq_some_iff.mp ho).2
  rw [← this]
  exact List.set_getElem_self _

/-- the conclusion of `bqScan_spec` -/
def BqPost (S : BState) (m : Nat) (old : List LineOffset) (n : Nat) (old' : List LineOffset)
    (S' : BState) : Prop :=
  SameBut S S' ∧ m ≤ n ∧ (m ≤ S.lineMax → n ≤ S.lineMax) ∧
    (∀ i, i < m → S'.offs[i]? = S.offs[i]?) ∧ (TableOk S → TableOk S') ∧
    ∃ add, old' = old ++ add ∧ restoreOffs S'.offs m add = .ok S.offs

theorem bq_stop (S : BState) (m : Nat) (old : List LineOffset) : BqPost S m old m old S :=
  ⟨SameBut.refl _, Nat.le_refl _, fun h => h, fun _ _ => rfl, fun h => h, [], by simp, rfl⟩

/-- line `m` is saved and rewritten, the scan goes on behind it -/
theorem bq_step {S S1 S' : BState} {m n : Nat} {o x : LineOffset} {old old' : List LineOffset}
    (hset : S.setOff m x = .ok S1) (ho : S.off m = .ok o) (hlt : m < S.lineMax)
    (hx : TableOk S → LineOk S.src x)
    (ih : BqPost S1 (m + 1) (old ++ [o]) n old' S') : BqPost S m old n old' S' := by
  obtain ⟨h1, h2, h3, h4, h7, add, h5, h6⟩ := ih
  have h7' : TableOk S → TableOk S' := fun h => h7 (h.setOff hset (hx h))
  have hsb := sameBut_setOff hset
  obtain ⟨hm, rfl⟩ := setOff_ok hset
  have ho := off_ok ho
  refine ⟨hsb.trans h1, by omega, fun _ => h3 (by simp; omega), ?_, h7', o :: add, by simp [h5], ?_⟩
  · intro i hi
    rw [h4 i (by omega)]
    simp [List.getElem?_set]; omega
  · exact restore_step ho (by simpa using h1.len) h6

/-- the scan stops at line `m`, which is saved and rewritten (a terminating rule under a non-zero
    block indent) -/
theorem bq_last {S S1 : BState} {m : Nat} {o x : LineOffset} {old : List LineOffset}
    (hset : S.setOff m x = .ok S1) (ho : S.off m = .ok o) (hx : TableOk S → LineOk S.src x) :
    BqPost S m old m (old ++ [o]) S1 := by
  have hsb := sameBut_setOff hset
  have h7 : TableOk S → TableOk S1 := fun h => h.setOff hset (hx h)
  obtain ⟨hm, rfl⟩ := setOff_ok hset
  have ho := off_ok ho
  refine ⟨hsb, Nat.le_refl _, fun h => h, ?_, h7, [o], rfl, ?_⟩
  · intro i hi
    simp [List.getElem?_set]; omega
  · exact restore_step (x := x) ho (by simp) (by simp [restoreOffs])

theorem BqPost.of_line {S : BState} {k m n : Nat} {old old' : List LineOffset} {S' : BState}
    (h : BqPost { S with line := k } m old n old' S') : BqPost S m old n old' S' := by
  obtain ⟨h1, h2, h3, h4, h5⟩ := h
  exact ⟨(sameBut_line S k).trans h1, h2, h3, h4, h5⟩

theorem bqScan_spec {test : Test} (ht : TestPure test) :
    ∀ (fuel : Nat) (S : BState) (m : Nat) (old : List LineOffset) (le : Bool)
      (n : Nat) (old' : List LineOffset) (S' : BState),
      bqScan test fuel S m old le = .ok (n, old', S') → BqPost S m old n old' S' := by
  intro fuel
  induction fuel with
  | zero => intro S m old le n old' S' h; simp [bqScan] at h
  | succ f ih =>
    intro S m old le n old' S' h
    simp only [bqScan] at h
    crack h
    all_goals (try subst_vars)
    · exact bq_stop _ _ _
    · exact bq_stop _ _ _
    · refine bq_step ‹BState.setOff _ _ _ = _› ‹BState.off _ _ = _› (by omega) ?_ (ih _ _ _ _ _ _ _ h)
      intro hT
      exact lineOk_rewrite (hT _ _ (off_ok ‹BState.off _ _ = _›)) ‹liftL (Lines.slice _ _ _) = _›
        (fn := _) (ind := _) ‹liftL (Lines.findIndentOf _ _) = _› _
    · exact bq_stop _ _ _
    · -- a terminating rule, `blk_indent ≠ 0`
      have e := ht _ _ ‹test _ = _›
      simp only [e] at *
      exact BqPost.of_line (bq_last ‹BState.setOff _ _ _ = _› ‹BState.off _ _ = _›
        (fun hT => (hT _ _ (off_ok ‹BState.off _ _ = _›)).indent _))
    · have e := ht _ _ ‹test _ = _›
      rw [e]
      exact BqPost.of_line (bq_stop _ _ _)
    · have e := ht _ _ ‹test _ = _›
      simp only [e] at *
      exact BqPost.of_line
        (bq_step ‹BState.setOff _ _ _ = _› ‹BState.off _ _ = _› (by simp; omega)
          (fun hT => (hT _ _ (off_ok ‹BState.off _ _ = _›)).indent _) (ih _ _ _ _ _ _ _ h))

/-- the first line of a quote (`>` at a non-negative indent) is inside it: the scan gets past it
    and leaves a non-negative `indent_nonspace` there -/
theorem bqScan_first {test : Test} (ht : TestPure test) {fuel : Nat} {S : BState} {m : Nat}
    {old : List LineOffset} {le : Bool} {n : Nat} {old' : List LineOffset} {S' : BState}
    (h : bqScan test fuel S m old le = .ok (n, old', S')) (hlt : m < S.lineMax)
    {i : Int} (hi : S.lineIndent m = .ok i) (hi0 : 0 ≤ i) {line : List Char}
    (hline : S.getLine m = .ok line) (hhead : line.head? = some '>') :
    m < n ∧ ∃ o, S'.offs[m]? = some o ∧ 0 ≤ o.indentNonspace := by
  cases fuel with
  | zero => simp [bqScan] at h
  | succ f =>
    cases line with
    | nil => simp at hhead
    | cons c rest =>
      simp at hhead
      subst hhead
      have hno : ¬ (i < 0) := by omega
      simp only [bqScan, hi, hline, ok_bind, hlt, not_true_eq_false, ↓reduceIte, hno, decide_false,
        Bool.false_eq_true, not_false_eq_true, and_self] at h
      crack h
      obtain ⟨hm, rfl⟩ := setOff_ok ‹BState.setOff _ _ _ = _›
      obtain ⟨_, h2, _, h4, _, _⟩ := bqScan_spec ht _ _ _ _ _ _ _ _ h
      refine ⟨by omega, ?_⟩
      rw [h4 m (by omega)]
      simp [List.getElem?_set, hm]

theorem lineIndent_of_off {s : BState} {m : Nat} {o : LineOffset} (h : s.offs[m]? = some o) :
    s.lineIndent m = .ok (o.indentNonspace - (s.blkIndent : Int)) := by
  simp [BState.lineIndent, Lines.lineIndent, h, liftL]

theorem blockquote_advanced {tok : Tok} {test : Test} (hk : TokSpec tok) (ht : TestPure test)
    {fuel : Nat} {s s' : BState} (h : blockquoteRule tok test fuel s false = .ok (true, s'))
    (hl : s.line < s.lineMax) (hi : IndentOk s) : Advanced s s' := by
  obtain ⟨i, hi, hi0⟩ := hi
  unfold blockquoteRule at h
  crack h
  rename_i ind hind _ line hline hhead scan hscan s2 htok lvl hlvl offs hoffs e he r hr
  have hhead : line.head? = some '>' := by simpa using hhead
  obtain ⟨n, old', S'⟩ := scan
  obtain ⟨hsb, hmn, hup, _, hT, add, hadd, hrest⟩ := bqScan_spec ht _ _ _ _ _ _ _ _ hscan
  obtain ⟨hlt, o, ho, ho0⟩ := bqScan_first ht hscan hl hi hi0 hline hhead
  simp only at htok hlvl hoffs he hr ⊢
  have hfr := hk.frame _ _ htok
  have hstrict := hk.strict _ _ htok (by simpa using hlt)
    (Or.inr ⟨_, lineIndent_of_off ho, by simpa using ho0⟩)
  have hupper := fun h => hk.upper _ _ htok h (by simpa using hmn)
  simp only at hstrict hupper
  obtain ⟨_, rfl⟩ := psub_ok hlvl
  simp only [List.nil_append] at hadd
  subst hadd
  rw [hfr.offs] at hoffs
  simp only at hoffs
  rw [hrest] at hoffs
  cases hoffs
  refine ⟨⟨?_, ?_, ?_, ?_, ?_, ?_, ?_⟩, ?_, ?_⟩
  · simp [hfr.src, hsb.src]
  · rfl
  · simp [hsb.lineMax]
  · simp [hsb.blkIndent]
  · simp [hfr.listIndent, hsb.listIndent]
  · simp [hfr.level, hsb.level]
  · simp [hsb.nodeKind]
  · simpa using hstrict
  · intro hTs
    have := hup (by omega)
    have := hupper (fun k o ho => hT hTs k o ho)
    simp at this ⊢
    omega
/-! ### list -/

theorem listItemBody_spec {tok : Tok} (hk : TokSpec tok) {S2 S3 : BState} {m : Nat} {reachedEnd : Bool}
    (h : listItemBody tok S2 m reachedEnd = .ok S3) (hline : S2.line = m) (hlt : m < S2.lineMax)
    (hcond : S2.isEmpty m = true ∨ IndentOk { S2 with line := m }) :
    Frame S2 S3 ∧ m < S3.line ∧ (TableOk S2 → S3.line ≤ S2.lineMax) := by
  unfold listItemBody at h
  crack h
  · refine ⟨⟨rfl, rfl, rfl, rfl, rfl, rfl, rfl⟩, ?_, fun _ => ?_⟩ <;> simp <;> split <;> omega
  · rename_i s2 htok lvl hlvl
    have hfr := hk.frame _ _ htok
    have hst := hk.strict _ _ htok (by simpa using hlt) (by
      rcases hcond with h | h
      · left; exact h
      · right
        obtain ⟨i, h1, h2⟩ := h
        exact ⟨i, h1, h2⟩)
    have hup := fun h => hk.upper _ _ htok h (by simp; omega)
    obtain ⟨_, rfl⟩ := psub_ok hlvl
    refine ⟨⟨?_, ?_, ?_, ?_, ?_, ?_, ?_⟩, ?_, ?_⟩
    · simp [hfr.src]
    · simp [hfr.offs]
    · simp [hfr.lineMax]
    · simp [hfr.blkIndent]
    · simp [hfr.listIndent]
    · simp [hfr.level]
    · simp [hfr.nodeKind]
    · simpa using hst
    · intro hT
      simpa using hup (fun k o ho => hT k o ho)


theorem isEmpty_of_off {s : BState} {m : Nat} {o : LineOffset} (h : s.offs[m]? = some o)
    (he : o.firstNonspace ≥ o.lineEnd) : s.isEmpty m = true := by
  simp [BState.isEmpty, Lines.isEmpty, h, he]

theorem item_cond {S2 : BState} {m : Nat} {x : LineOffset} (hx : S2.offs[m]? = some x)
    (h : x.firstNonspace ≥ x.lineEnd ∨ (S2.blkIndent : Int) ≤ x.indentNonspace) :
    S2.isEmpty m = true ∨ IndentOk { S2 with line := m } := by
  rcases h with h | h
  · left; exact isEmpty_of_off hx h
  · right
    exact ⟨_, lineIndent_of_off (s := { S2 with line := m }) hx, by simp; omega⟩

theorem listItem_spec {tok : Tok} (hk : TokSpec tok) {S S' : BState} {m pos : Nat} {pee tight pee' tight' : Bool}
    (h : listItem tok S m pos pee tight = .ok (S', tight', pee')) (hline : S.line = m)
    (hlt : m < S.lineMax) :
    Frame S S' ∧ m < S'.line ∧ (TableOk S → S'.line ≤ S.lineMax) := by
  unfold listItem at h
  crack h
  rename_i o ho hneg ltxt hltxt rel _ fi hfi lineLen hlen S2 hS2 S3 hbody _ li hli S5 hS5 e _ r _ hS' _ _
  subst hS'
  obtain ⟨hm, hS2eq⟩ := setOff_ok hS2
  obtain ⟨hm5, rfl⟩ := setOff_ok hS5
  have ho' := off_ok ho
  obtain ⟨hle, rfl⟩ := psub_ok hlen
  -- the item's first line in the nested state: empty, or at a non-negative indent
  have hcond : S2.isEmpty m = true ∨ IndentOk { S2 with line := m } := by
    refine item_cond (x := _) (by rw [hS2eq]; simp [hm]; rfl) ?_
    rw [hS2eq]
    by_cases hre : (fi.2 == o.lineEnd - o.lineStart) = true
    · left
      simp at hre
      simp [hre]; omega
    · right
      have h4 : (if fi.1 > 4 then 1 else fi.1) ≤ fi.1 := by split <;> omega
      simp only [hre, if_false, Bool.false_eq_true]
      generalize (if fi.1 > 4 then 1 else fi.1) = k at h4
      omega
  obtain ⟨hfr, hlt', hle'⟩ := listItemBody_spec hk hbody (by rw [hS2eq]; exact hline)
    (by rw [hS2eq]; exact hlt) hcond
  have hli' : some li = some S.blkIndent := by rw [← hli, hfr.listIndent, hS2eq]
  simp only [Option.some.injEq] at hli'
  refine ⟨⟨?_, ?_, ?_, ?_, ?_, ?_, ?_⟩, ?_, ?_⟩
  · simp [hfr.src, hS2eq]
  · simp [hfr.offs, hS2eq]
    rw [← (List.getElem?_eq_some_iff.mp ho').2]
    exact List.set_getElem_self _
  · simp [hfr.lineMax, hS2eq]
  · simp [hli']
  · simp
  · simp [hfr.level, hS2eq]
  · simp
  · simpa using hlt'
  · intro hT
    have hT2 : TableOk S2 := by
      refine TableOk.setOff (s := { S with nodeKind := .listItem, children := [], listIndent := some S.blkIndent, blkIndent := _, tight := true }) (fun k o ho => hT k o ho) hS2 ?_
      exact lineOk_rewrite (hT _ _ ho') hltxt (ind := fi.1) (fn := fi.2) hfi _
    simpa [hS2eq] using hle' hT2

theorem listContinue_spec {test : Test} (ht : TestPure test) {ordered : Bool} {mc : Char}
    {S S' : BState} {n : Nat} {c : Option Nat} (h : listContinue test ordered mc S n = .ok (c, S')) :
    S' = S ∧ (c ≠ none → n < S.lineMax) := by
  unfold listContinue at h
  crack h
  all_goals (try subst_vars)
  all_goals (try (have e := ht _ _ ‹test _ = _›))
  all_goals (try simp only [e, set_line_back] at *)
  all_goals simp_all
  all_goals omega

theorem listLoop_spec {tok : Tok} {test : Test} (hk : TokSpec tok) (ht : TestPure test)
    {ordered : Bool} {mc : Char} :
    ∀ (fuel : Nat) (S : BState) (m pos : Nat) (pee tight : Bool) (n : Nat) (tight' : Bool) (S' : BState),
      listLoop tok test ordered mc fuel S m pos pee tight = .ok (n, tight', S') →
      S.line = m → m < S.lineMax →
      Frame S S' ∧ S'.line = n ∧ m < n ∧ (TableOk S → n ≤ S.lineMax) := by
  intro fuel
  induction fuel with
  | zero => intro S m pos pee tight n tight' S' h; simp [listLoop] at h
  | succ f ih =>
    intro S m pos pee tight n tight' S' h hline hlt
    simp only [listLoop] at h
    crack h
    all_goals (try subst_vars)
    · rename_i wi wc hc _ hnone _ hitem
      obtain ⟨S1, t1, p1⟩ := wi
      obtain ⟨c, S2⟩ := wc
      obtain ⟨hfr, h1, h2⟩ := listItem_spec hk hitem rfl hlt
      obtain ⟨rfl, _⟩ := listContinue_spec ht hc
      exact ⟨hfr, rfl, h1, h2⟩
    · rename_i wi wc hc _ p hsome _ hitem
      obtain ⟨S1, t1, p1⟩ := wi
      obtain ⟨c, S2⟩ := wc
      obtain ⟨hfr, h1, h2⟩ := listItem_spec hk hitem rfl hlt
      obtain ⟨rfl, hc2⟩ := listContinue_spec ht hc
      simp only at hsome h hc2
      have hlt2 := hc2 (by rw [hsome]; simp)
      obtain ⟨hfr2, h3, h4, h5⟩ := ih _ _ _ _ _ _ _ _ h rfl hlt2
      exact ⟨hfr.trans hfr2, h3, by omega, fun hT => by have := h5 (hT.of_frame hfr); rw [hfr.lineMax] at this; exact this⟩

theorem list_advanced {tok : Tok} {test : Test} (hk : TokSpec tok) (ht : TestPure test)
    {fuel : Nat} {s s' : BState} (h : listRule tok test fuel s false = .ok (true, s'))
    (hl : s.line < s.lineMax) : Advanced s s' := by
  unfold listRule at h
  crack h
  all_goals (
    rename_i wl hloop _ _ _ _ _ _ _ _
    obtain ⟨n, t, S'⟩ := wl
    obtain ⟨hfr, h1, h2, h3⟩ := listLoop_spec hk ht _ _ _ _ _ _ _ _ _ hloop rfl hl
    obtain ⟨_, rfl⟩ := psub_ok ‹psub S'.level 1 = _›
    refine ⟨⟨?_, ?_, ?_, ?_, ?_, ?_, ?_⟩, ?_, ?_⟩
    · simp [hfr.src]
    · simp [hfr.offs]
    · simp [hfr.lineMax]
    · simp [hfr.blkIndent]
    · simp [hfr.listIndent]
    · simp [hfr.level]
    · simp
    · simp [h1]; exact h2
    · intro hT
      simp [h1]
      exact h3 (fun k o ho => hT k o ho))

end MdIt.Block
