/-
  Theorems about the block-parser model `MdIt.Model.Block` that other property files cite
  (C01 progress / termination, C16 look-ahead, C05 ranges, C11 code content, C14 list shape, C06).

  Conventions.  The rules that call back into the parser are parameterised by the nested tokenizer
  `tok` and the look-ahead `test` (see the model); the theorems about them assume

      TestPure test   the look-ahead returns the state it was given          (`testRules_pure`)
      TokSpec tok     what `tokenize_spec` proves of the tokenizer itself

  and `engine_spec` closes the loop by induction on the fuel, so that the `tokenize_*`,
  `testRules_*` and `ruleAt_*` theorems are unconditional.  Every statement is conditional on the
  model returning `.ok …` (absence of panics is C01's composition), for ALL sources, configurations,
  chains and fuels.

  Section index:
    1  tactics / monad lemmas
    2  `silent_pure_<rule>`, `testRules_pure`
    3  `silent_implies_real_<rule>`
    4  `real_false_same_<rule>`        (a rule that answers `false` leaves the state alone)
    5  `Frame`, `TokSpec`, the scans
    6  `block_rule_progress_<rule>`, `block_rule_frame_<rule>`
    7  `tokenize_progress` (`tokLoop_spec`, `engine_spec`)
-/
import MdIt.Model.Block
import MdIt.Props.C10

namespace MdIt.Block
open MdIt.Lines (LineOffset)

/-! ## 1. tactics -/

theorem bind_ok {α β : Type} {x : Except Panic α} {f : α → Except Panic β} {b : β} :
    (x >>= f) = .ok b ↔ ∃ a, x = .ok a ∧ f a = .ok b := by
  cases x with
  | error e => simp [bind, Except.bind]
  | ok a => simp [bind, Except.bind]

theorem pure_ok {α : Type} {a b : α} : (pure a : Except Panic α) = .ok b ↔ a = b := by
  simp [pure, Except.pure]

theorem map_ok {α β : Type} {x : Except Panic α} {f : α → β} {b : β} :
    (f <$> x) = .ok b ↔ ∃ a, x = .ok a ∧ f a = b := by
  cases x with
  | error e => simp [Functor.map, Except.map]
  | ok a => simp [Functor.map, Except.map]

@[simp] theorem ok_bind {α β : Type} (a : α) (f : α → Except Panic β) : (Except.ok a >>= f) = f a := rfl

/-- take a hypothesis `h : <do-block> = .ok r` apart: one goal per successful path, with one
    hypothesis per `←`, per branch condition and per `match` -/
syntax "crack " ident : tactic
macro_rules
| `(tactic| crack $h:ident) => `(tactic|
  repeat' (first
    | contradiction
    | (simp only [bind_ok, map_ok, pure_ok, reduceCtorEq, Prod.mk.injEq, Bool.false_eq_true, Bool.true_eq_false,
        false_and, and_false, true_and, and_true, if_false, if_true, Except.ok.injEq] at $h:ident)
    | (rcases $h:ident with ⟨_, _, $h:ident⟩)
    | split at $h:ident))

theorem psub_ok {a b c : Nat} (h : psub a b = .ok c) : b ≤ a ∧ c = a - b := by
  unfold psub at h
  split at h
  · simp at h; exact ⟨by assumption, h.symm⟩
  · cases h

theorem set_line_back (s : BState) (n : Nat) : { { s with line := n } with line := s.line } = s := by
  cases s; rfl

/-! ## 2. silent mode is pure -/

theorem silent_pure_hr {s s' : BState} {b : Bool} (h : hrRule s true = .ok (b, s')) : s' = s := by
  unfold hrRule at h
  crack h
  all_goals simp_all

theorem silent_pure_heading {s s' : BState} {b : Bool} (h : headingRule s true = .ok (b, s')) :
    s' = s := by
  unfold headingRule at h
  crack h
  all_goals simp_all

theorem silent_pure_code {s s' : BState} {b : Bool} (h : codeRule s true = .ok (b, s')) : s' = s := by
  unfold codeRule at h
  crack h
  all_goals simp_all

theorem silent_pure_fence {s s' : BState} {b : Bool} (h : fenceRule s true = .ok (b, s')) : s' = s := by
  unfold fenceRule at h
  crack h
  all_goals simp_all

theorem silent_pure_paragraph {test : Test} {fuel : Nat} {s s' : BState} {b : Bool}
    (h : paragraphRule test fuel s true = .ok (b, s')) : s' = s := by
  unfold paragraphRule at h
  crack h
  all_goals simp_all

theorem silent_pure_lheading {test : Test} {fuel : Nat} {s s' : BState} {b : Bool}
    (h : lheadingRule test fuel s true = .ok (b, s')) : s' = s := by
  unfold lheadingRule at h
  crack h
  all_goals simp_all

theorem silent_pure_reference {cfg : Cfg} {test : Test} {fuel : Nat} {s s' : BState} {b : Bool}
    (h : referenceRule cfg test fuel s true = .ok (b, s')) : s' = s := by
  unfold referenceRule at h
  crack h
  all_goals simp_all

theorem silent_pure_blockquote {tok : Tok} {test : Test} {fuel : Nat} {s s' : BState} {b : Bool}
    (h : blockquoteRule tok test fuel s true = .ok (b, s')) : s' = s := by
  unfold blockquoteRule at h
  crack h
  all_goals simp_all

theorem silent_pure_list {tok : Tok} {test : Test} {fuel : Nat} {s s' : BState} {b : Bool}
    (h : listRule tok test fuel s true = .ok (b, s')) : s' = s := by
  unfold listRule at h
  crack h
  all_goals simp_all

/-- the four rules that never fire in silent mode -/
theorem silent_false_code {s : BState} : codeRule s true = .ok (false, s) := rfl
theorem silent_false_paragraph {test : Test} {fuel : Nat} {s : BState} :
    paragraphRule test fuel s true = .ok (false, s) := rfl
theorem silent_false_lheading {test : Test} {fuel : Nat} {s : BState} :
    lheadingRule test fuel s true = .ok (false, s) := rfl
theorem silent_false_reference {cfg : Cfg} {test : Test} {fuel : Nat} {s : BState} :
    referenceRule cfg test fuel s true = .ok (false, s) := rfl

/-- every rule of the chain, whatever the call-backs are -/
theorem silent_pure_rule {cfg : Cfg} {tok : Tok} {test : Test} {fuel : Nat} {r : RuleId}
    {s s' : BState} {b : Bool} (h : runRule cfg tok test fuel r s true = .ok (b, s')) : s' = s := by
  cases r <;> simp only [runRule] at h
  · exact silent_pure_code h
  · exact silent_pure_fence h
  · exact silent_pure_blockquote h
  · exact silent_pure_hr h
  · exact silent_pure_list h
  · exact silent_pure_reference h
  · exact silent_pure_heading h
  · exact silent_pure_lheading h
  · exact silent_pure_paragraph h

/-- the look-ahead returns the state it was given -/
def TestPure (test : Test) : Prop := ∀ s r, test s = .ok r → r.2 = s

theorem runChain_silent_pure {run : RuleId → BState → Bool → Res}
    (hrun : ∀ r s b s', run r s true = .ok (b, s') → s' = s) :
    ∀ (chain : List RuleId) (s : BState) (b : Bool) (s' : BState),
      runChain run chain s true = .ok (b, s') → s' = s := by
  intro chain
  induction chain with
  | nil => intro s b s' h; simp [runChain] at h; exact h.2.symm
  | cons r rs ih =>
    intro s b s' h
    simp only [runChain] at h
    split at h
    · cases h
    · rename_i s1 h1
      cases h
      exact hrun _ _ _ _ h1
    · rename_i s1 h1
      have := hrun _ _ _ _ h1
      subst this
      exact ih _ _ _ h

/-- `test_rules_at_line` of the shipped rules changes nothing (not even `state.line`) -/
theorem testRules_pure (cfg : Cfg) (fuel : Nat) : TestPure (testRules cfg fuel) := by
  intro s ⟨b, s'⟩ h
  cases fuel with
  | zero => simp [testRules, engine] at h
  | succ f =>
    simp only [testRules, engine] at h
    exact runChain_silent_pure (fun r s b s' h => silent_pure_rule h) _ _ _ _ h

/-! ## 3. silent `true` ⇒ real mode does not answer `false`

  (`code`, `paragraph`, `lheading`, `reference` never answer `true` in silent mode: `silent_false_*`.)
  The real-mode run starts with the same checks on the same state; the list rule has two more checks
  in silent mode (a list interrupting a paragraph must start with 1 and must not be empty), none
  less. -/

set_option linter.unusedSimpArgs false

/-- rewrite the real-mode run `hr` with everything the silent run established -/
syntax "replay " ident : tactic
macro_rules
| `(tactic| replay $hr:ident) => `(tactic|
    simp only [*, ok_bind, ↓reduceIte, not_true_eq_false, not_false_eq_true, Bool.false_eq_true,
      decide_false, decide_true, false_and, and_false] at $hr:ident)

theorem silent_implies_real_hr {s s1 s2 : BState} {b : Bool}
    (hs : hrRule s true = .ok (true, s1)) (hr : hrRule s false = .ok (b, s2)) : b = true := by
  unfold hrRule at hs hr
  crack hs
  replay hr
  crack hr
  all_goals simp_all

theorem silent_implies_real_heading {s s1 s2 : BState} {b : Bool}
    (hs : headingRule s true = .ok (true, s1)) (hr : headingRule s false = .ok (b, s2)) : b = true := by
  unfold headingRule at hs hr
  crack hs
  replay hr
  crack hr
  all_goals simp_all

theorem silent_implies_real_fence {s s1 s2 : BState} {b : Bool}
    (hs : fenceRule s true = .ok (true, s1)) (hr : fenceRule s false = .ok (b, s2)) : b = true := by
  unfold fenceRule at hs hr
  crack hs
  replay hr
  crack hr
  all_goals simp_all

theorem silent_implies_real_blockquote {tok : Tok} {test : Test} {fuel : Nat} {s s1 s2 : BState}
    {b : Bool} (hs : blockquoteRule tok test fuel s true = .ok (true, s1))
    (hr : blockquoteRule tok test fuel s false = .ok (b, s2)) : b = true := by
  unfold blockquoteRule at hs hr
  crack hs
  replay hr
  crack hr
  all_goals simp_all

theorem silent_implies_real_list {tok : Tok} {test : Test} {fuel : Nat} {s s1 s2 : BState} {b : Bool}
    (hs : listRule tok test fuel s true = .ok (true, s1))
    (hr : listRule tok test fuel s false = .ok (b, s2)) : b = true := by
  unfold listRule at hs hr
  crack hs
  all_goals (replay hr)
  all_goals (crack hr)
  all_goals (try simp only [emptyItemCheck, Bool.false_eq_true, ↓reduceIte, pure_ok, Except.ok.injEq] at *)
  all_goals (subst_vars; first | rfl | contradiction)

/-- the same for a rule as the chain runs it -/
theorem silent_implies_real_rule {cfg : Cfg} {tok : Tok} {test : Test} {fuel : Nat} {r : RuleId}
    {s s1 s2 : BState} {b : Bool} (hs : runRule cfg tok test fuel r s true = .ok (true, s1))
    (hr : runRule cfg tok test fuel r s false = .ok (b, s2)) : b = true := by
  cases r <;> simp only [runRule] at hs hr
  · simp [silent_false_code] at hs
  · exact silent_implies_real_fence hs hr
  · exact silent_implies_real_blockquote hs hr
  · exact silent_implies_real_hr hs hr
  · exact silent_implies_real_list hs hr
  · simp [silent_false_reference] at hs
  · exact silent_implies_real_heading hs hr
  · simp [silent_false_lheading] at hs
  · simp [silent_false_paragraph] at hs

/-! ## 4. a rule that answers `false` in real mode leaves the state alone -/

theorem lazyScan_spec {test : Test} (ht : TestPure test) (setext : Bool) :
    ∀ (fuel : Nat) (s : BState) (n : Nat) (r : Nat × Nat × BState),
      lazyScan test setext fuel s n = .ok r →
      r.2.2 = s ∧ n < r.1 ∧ (n < s.lineMax → r.1 ≤ s.lineMax) ∧ (r.2.1 ≠ 0 → r.1 < s.lineMax) := by
  intro fuel
  induction fuel with
  | zero => intro s n r h; simp [lazyScan] at h
  | succ f ih =>
    intro s n r h
    simp only [lazyScan] at h
    crack h
    · simp; omega
    · have hc : ¬(_ ∨ _) := ‹_›
      obtain ⟨h1, h2, h3, h4⟩ := ih _ _ _ h
      simp only [not_or] at hc
      exact ⟨h1, by omega, fun _ => h3 (by omega), h4⟩
    · have hc : ¬(_ ∨ _) := ‹_›
      simp only [not_or] at hc
      simp; omega
    · have hc : ¬(_ ∨ _) := ‹_›
      obtain ⟨h1, h2, h3, h4⟩ := ih _ _ _ h
      simp only [not_or] at hc
      exact ⟨h1, by omega, fun _ => h3 (by omega), h4⟩
    · have e := ht _ _ ‹test _ = _›
      simp [e]; omega
    · have hc : ¬(_ ∨ _) := ‹_›
      have e := ht _ _ ‹test _ = _›
      simp only [e] at h
      obtain ⟨h1, h2, h3, h4⟩ := ih _ _ _ h
      simp only [not_or] at hc
      exact ⟨h1, by omega, fun _ => h3 (by simp; omega), h4⟩

theorem real_false_same_hr {s s' : BState} (h : hrRule s false = .ok (false, s')) : s' = s := by
  unfold hrRule at h
  crack h
  all_goals simp_all

theorem real_false_same_heading {s s' : BState} (h : headingRule s false = .ok (false, s')) : s' = s := by
  unfold headingRule at h
  crack h
  all_goals simp_all

theorem real_false_same_code {s s' : BState} (h : codeRule s false = .ok (false, s')) : s' = s := by
  unfold codeRule at h
  crack h
  all_goals simp_all

theorem real_false_same_fence {s s' : BState} (h : fenceRule s false = .ok (false, s')) : s' = s := by
  unfold fenceRule at h
  crack h
  all_goals simp_all

theorem real_false_same_blockquote {tok : Tok} {test : Test} {fuel : Nat} {s s' : BState}
    (h : blockquoteRule tok test fuel s false = .ok (false, s')) : s' = s := by
  unfold blockquoteRule at h
  crack h
  all_goals simp_all

theorem real_false_same_list {tok : Tok} {test : Test} {fuel : Nat} {s s' : BState}
    (h : listRule tok test fuel s false = .ok (false, s')) : s' = s := by
  unfold listRule at h
  crack h
  all_goals (subst_vars; first | rfl | contradiction)

/-- the paragraph rule never answers `false` in real mode -/
theorem real_true_paragraph {test : Test} {fuel : Nat} {s s' : BState} {b : Bool}
    (h : paragraphRule test fuel s false = .ok (b, s')) : b = true := by
  unfold paragraphRule at h
  crack h
  exact Eq.symm ‹true = b›

theorem real_false_same_lheading {test : Test} (ht : TestPure test) {fuel : Nat} {s s' : BState}
    (h : lheadingRule test fuel s false = .ok (false, s')) : s' = s := by
  unfold lheadingRule at h
  crack h
  · simp_all
  · have := (lazyScan_spec ht true _ _ _ _ ‹lazyScan _ _ _ _ _ = _›).1
    simp_all

theorem real_false_same_reference {cfg : Cfg} {test : Test} (ht : TestPure test) {fuel : Nat}
    {s s' : BState} (h : referenceRule cfg test fuel s false = .ok (false, s')) : s' = s := by
  unfold referenceRule at h
  crack h
  all_goals (try (have := (lazyScan_spec ht false _ _ _ _ ‹lazyScan _ _ _ _ _ = _›).1))
  all_goals simp_all

end MdIt.Block
