/-
  Theorems about the block-parser model `MdIt.Model.Block` that other property files cite
  (C01 progress / termination, C16 look-ahead, C05 ranges, C11 code content, C14 list shape, C06).

  Conventions.  The rules that call back into the parser are parameterised by the nested tokenizer
  `tok` and the look-ahead `test` (see the model); the theorems about them assume

      TestPure test   the look-ahead returns the state it was given          (`testRules_pure`)
      TokSpec tok     what `tokenize_spec` proves of the tokenizer itself

  and `engine_spec` closes the loop by induction on the fuel, so that the `tokenize_*`,
  `testRules_*` and `ruleAt_*` theorems are unconditional.  Every statement is conditional on the
  model returning `.ok …` (absence of panics is C01's composition), for ALL sources, configurations,
  chains and fuels.

  Section index:
    1  tactics / monad lemmas
    2  `silent_pure_<rule>`, `testRules_pure`
    3  `silent_implies_real_<rule>`
    4  `real_false_same_<rule>`        (a rule that answers `false` leaves the state alone)
    5  `Frame`, `TokSpec`, the scans
    6  `block_rule_progress_<rule>`, `block_rule_frame_<rule>`
    7  `tokenize_progress` (`tokLoop_spec`, `tokenize_spec`)
    8  non-vacuity examples
    9  C11: `fence_verbatim`, `indented_verbatim`
   10  C14: `list_shape`
   11  fuel monotonicity (`tokenize_mono`)
   12  `tokenize_exit`
-/
import MdIt.Model.Block
import MdIt.Props.C10
import MdIt.Props.C04

namespace MdIt.Block
open MdIt.Lines (LineOffset)

/-! ## 1. tactics -/

theorem bind_ok {α β : Type} {x : Except Panic α} {f : α → Except Panic β} {b : β} :
    (x >>= f) = .ok b ↔ ∃ a, x = .ok a ∧ f a = .ok b := by
  cases x with
  | error e => simp [bind, Except.bind]
  | ok a => simp [bind, Except.bind]

theorem pure_ok {α : Type} {a b : α} : (pure a : Except Panic α) = .ok b ↔ a = b := by
  simp [pure, Except.pure]

theorem map_ok {α β : Type} {x : Except Panic α} {f : α → β} {b : β} :
    (f <$> x) = .ok b ↔ ∃ a, x = .ok a ∧ f a = b := by
  cases x with
  | error e => simp [Functor.map, Except.map]
  | ok a => simp [Functor.map, Except.map]

@[simp] theorem ok_bind {α β : Type} (a : α) (f : α → Except Panic β) : (Except.ok a >>= f) = f a := rfl

/-- take a hypothesis `h : <do-block> = .ok r` apart: one goal per successful path, with one
    hypothesis per `←`, per branch condition and per `match` -/
syntax "crack " ident : tactic
macro_rules
| `(tactic| crack $h:ident) => `(tactic|
  repeat' (first
    | contradiction
    | (simp only [bind_ok, map_ok, pure_ok, reduceCtorEq, Prod.mk.injEq, Bool.false_eq_true, Bool.true_eq_false,
        false_and, and_false, true_and, and_true, if_false, if_true, Except.ok.injEq] at $h:ident)
    | (rcases $h:ident with ⟨_, _, $h:ident⟩)
    | split at $h:ident))

theorem psub_ok {a b c : Nat} (h : psub a b = .ok c) : b ≤ a ∧ c = a - b := by
  unfold psub at h
  split at h
  · simp at h; exact ⟨by assumption, h.symm⟩
  · cases h

theorem set_line_back (s : BState) (n : Nat) : { { s with line := n } with line := s.line } = s := by
  cases s; rfl

/-! ## 2. silent mode is pure -/

theorem silent_pure_hr {s s' : BState} {b : Bool} (h : hrRule s true = .ok (b, s')) : s' = s := by
  unfold hrRule at h
  crack h
  all_goals simp_all

theorem silent_pure_heading {s s' : BState} {b : Bool} (h : headingRule s true = .ok (b, s')) :
    s' = s := by
  unfold headingRule at h
  crack h
  all_goals simp_all

theorem silent_pure_code {s s' : BState} {b : Bool} (h : codeRule s true = .ok (b, s')) : s' = s := by
  unfold codeRule at h
  crack h
  all_goals simp_all

theorem silent_pure_fence {s s' : BState} {b : Bool} (h : fenceRule s true = .ok (b, s')) : s' = s := by
  unfold fenceRule at h
  crack h
  all_goals simp_all

theorem silent_pure_paragraph {test : Test} {fuel : Nat} {s s' : BState} {b : Bool}
    (h : paragraphRule test fuel s true = .ok (b, s')) : s' = s := by
  unfold paragraphRule at h
  crack h
  all_goals simp_all

theorem silent_pure_lheading {test : Test} {fuel : Nat} {s s' : BState} {b : Bool}
    (h : lheadingRule test fuel s true = .ok (b, s')) : s' = s := by
  unfold lheadingRule at h
  crack h
  all_goals simp_all

theorem silent_pure_reference {cfg : Cfg} {test : Test} {fuel : Nat} {s s' : BState} {b : Bool}
    (h : referenceRule cfg test fuel s true = .ok (b, s')) : s' = s := by
  unfold referenceRule at h
  crack h
  all_goals simp_all

theorem silent_pure_blockquote {tok : Tok} {test : Test} {fuel : Nat} {s s' : BState} {b : Bool}
    (h : blockquoteRule tok test fuel s true = .ok (b, s')) : s' = s := by
  unfold blockquoteRule at h
  crack h
  all_goals simp_all

theorem silent_pure_list {tok : Tok} {test : Test} {fuel : Nat} {s s' : BState} {b : Bool}
    (h : listRule tok test fuel s true = .ok (b, s')) : s' = s := by
  unfold listRule at h
  crack h
  all_goals simp_all

/-- the four rules that never fire in silent mode -/
theorem silent_false_code {s : BState} : codeRule s true = .ok (false, s) := rfl
theorem silent_false_paragraph {test : Test} {fuel : Nat} {s : BState} :
    paragraphRule test fuel s true = .ok (false, s) := rfl
theorem silent_false_lheading {test : Test} {fuel : Nat} {s : BState} :
    lheadingRule test fuel s true = .ok (false, s) := rfl
theorem silent_false_reference {cfg : Cfg} {test : Test} {fuel : Nat} {s : BState} :
    referenceRule cfg test fuel s true = .ok (false, s) := rfl

/-- every rule of the chain, whatever the call-backs are -/
theorem silent_pure_rule {cfg : Cfg} {tok : Tok} {test : Test} {fuel : Nat} {r : RuleId}
    {s s' : BState} {b : Bool} (h : runRule cfg tok test fuel r s true = .ok (b, s')) : s' = s := by
  cases r <;> simp only [runRule] at h
  · exact silent_pure_code h
  · exact silent_pure_fence h
  · exact silent_pure_blockquote h
  · exact silent_pure_hr h
  · exact silent_pure_list h
  · exact silent_pure_reference h
  · exact silent_pure_heading h
  · exact silent_pure_lheading h
  · exact silent_pure_paragraph h

/-- the look-ahead returns the state it was given -/
def TestPure (test : Test) : Prop := ∀ s r, test s = .ok r → r.2 = s

theorem runChain_silent_pure {run : RuleId → BState → Bool → Res}
    (hrun : ∀ r s b s', run r s true = .ok (b, s') → s' = s) :
    ∀ (chain : List RuleId) (s : BState) (b : Bool) (s' : BState),
      runChain run chain s true = .ok (b, s') → s' = s := by
  intro chain
  induction chain with
  | nil => intro s b s' h; simp [runChain] at h; exact h.2.symm
  | cons r rs ih =>
    intro s b s' h
    simp only [runChain] at h
    split at h
    · cases h
    · rename_i s1 h1
      cases h
      exact hrun _ _ _ _ h1
    · rename_i s1 h1
      have := hrun _ _ _ _ h1
      subst this
      exact ih _ _ _ h

/-- `test_rules_at_line` of the shipped rules changes nothing (not even `state.line`) -/
theorem testRules_pure (cfg : Cfg) (fuel : Nat) : TestPure (testRules cfg fuel) := by
  intro s ⟨b, s'⟩ h
  cases fuel with
  | zero => simp [testRules, engine] at h
  | succ f =>
    simp only [testRules, engine] at h
    exact runChain_silent_pure (fun r s b s' h => silent_pure_rule h) _ _ _ _ h

/-! ## 3. silent `true` ⇒ real mode does not answer `false`

  (`code`, `paragraph`, `lheading`, `reference` never answer `true` in silent mode: `silent_false_*`.)
  The real-mode run starts with the same checks on the same state; the list rule has two more checks
  in silent mode (a list interrupting a paragraph must start with 1 and must not be empty), none
  less. -/

set_option linter.unusedSimpArgs false

/-- rewrite the real-mode run `hr` with everything the silent run established -/
syntax "replay " ident : tactic
macro_rules
| `(tactic| replay $hr:ident) => `(tactic|
    simp only [*, ok_bind, ↓reduceIte, not_true_eq_false, not_false_eq_true, Bool.false_eq_true,
      decide_false, decide_true, false_and, and_false] at $hr:ident)

theorem silent_implies_real_hr {s s1 s2 : BState} {b : Bool}
    (hs : hrRule s true = .ok (true, s1)) (hr : hrRule s false = .ok (b, s2)) : b = true := by
  unfold hrRule at hs hr
  crack hs
  replay hr
  crack hr
  all_goals simp_all

theorem silent_implies_real_heading {s s1 s2 : BState} {b : Bool}
    (hs : headingRule s true = .ok (true, s1)) (hr : headingRule s false = .ok (b, s2)) : b = true := by
  unfold headingRule at hs hr
  crack hs
  replay hr
  crack hr
  all_goals simp_all

theorem silent_implies_real_fence {s s1 s2 : BState} {b : Bool}
    (hs : fenceRule s true = .ok (true, s1)) (hr : fenceRule s false = .ok (b, s2)) : b = true := by
  unfold fenceRule at hs hr
  crack hs
  replay hr
  crack hr
  all_goals simp_all

theorem silent_implies_real_blockquote {tok : Tok} {test : Test} {fuel : Nat} {s s1 s2 : BState}
    {b : Bool} (hs : blockquoteRule tok test fuel s true = .ok (true, s1))
    (hr : blockquoteRule tok test fuel s false = .ok (b, s2)) : b = true := by
  unfold blockquoteRule at hs hr
  crack hs
  replay hr
  crack hr
  all_goals simp_all

theorem silent_implies_real_list {tok : Tok} {test : Test} {fuel : Nat} {s s1 s2 : BState} {b : Bool}
    (hs : listRule tok test fuel s true = .ok (true, s1))
    (hr : listRule tok test fuel s false = .ok (b, s2)) : b = true := by
  unfold listRule at hs hr
  crack hs
  all_goals (replay hr)
  all_goals (crack hr)
  all_goals (try simp only [emptyItemCheck, Bool.false_eq_true, ↓reduceIte, pure_ok, Except.ok.injEq] at *)
  all_goals (subst_vars; first | rfl | contradiction)

/-- the same for a rule as the chain runs it -/
theorem silent_implies_real_rule {cfg : Cfg} {tok : Tok} {test : Test} {fuel : Nat} {r : RuleId}
    {s s1 s2 : BState} {b : Bool} (hs : runRule cfg tok test fuel r s true = .ok (true, s1))
    (hr : runRule cfg tok test fuel r s false = .ok (b, s2)) : b = true := by
  cases r <;> simp only [runRule] at hs hr
  · simp [silent_false_code] at hs
  · exact silent_implies_real_fence hs hr
  · exact silent_implies_real_blockquote hs hr
  · exact silent_implies_real_hr hs hr
  · exact silent_implies_real_list hs hr
  · simp [silent_false_reference] at hs
  · exact silent_implies_real_heading hs hr
  · simp [silent_false_lheading] at hs
  · simp [silent_false_paragraph] at hs

/-! ## 4. a rule that answers `false` in real mode leaves the state alone -/

theorem lazyScan_spec {test : Test} (ht : TestPure test) (setext : Bool) :
    ∀ (fuel : Nat) (s : BState) (n : Nat) (r : Nat × Nat × BState),
      lazyScan test setext fuel s n = .ok r →
      r.2.2 = s ∧ n < r.1 ∧ (n < s.lineMax → r.1 ≤ s.lineMax) ∧ (r.2.1 ≠ 0 → r.1 < s.lineMax) := by
  intro fuel
  induction fuel with
  | zero => intro s n r h; simp [lazyScan] at h
  | succ f ih =>
    intro s n r h
    simp only [lazyScan] at h
    crack h
    · simp; omega
    · have hc : ¬(_ ∨ _) := ‹_›
      obtain ⟨h1, h2, h3, h4⟩ := ih _ _ _ h
      simp only [not_or] at hc
      exact ⟨h1, by omega, fun _ => h3 (by omega), h4⟩
    · have hc : ¬(_ ∨ _) := ‹_›
      simp only [not_or] at hc
      simp; omega
    · have hc : ¬(_ ∨ _) := ‹_›
      obtain ⟨h1, h2, h3, h4⟩ := ih _ _ _ h
      simp only [not_or] at hc
      exact ⟨h1, by omega, fun _ => h3 (by omega), h4⟩
    · have e := ht _ _ ‹test _ = _›
      simp [e]; omega
    · have hc : ¬(_ ∨ _) := ‹_›
      have e := ht _ _ ‹test _ = _›
      simp only [e] at h
      obtain ⟨h1, h2, h3, h4⟩ := ih _ _ _ h
      simp only [not_or] at hc
      exact ⟨h1, by omega, fun _ => h3 (by simp; omega), h4⟩

theorem real_false_same_hr {s s' : BState} (h : hrRule s false = .ok (false, s')) : s' = s := by
  unfold hrRule at h
  crack h
  all_goals simp_all

theorem real_false_same_heading {s s' : BState} (h : headingRule s false = .ok (false, s')) : s' = s := by
  unfold headingRule at h
  crack h
  all_goals simp_all

theorem real_false_same_code {s s' : BState} (h : codeRule s false = .ok (false, s')) : s' = s := by
  unfold codeRule at h
  crack h
  all_goals simp_all

theorem real_false_same_fence {s s' : BState} (h : fenceRule s false = .ok (false, s')) : s' = s := by
  unfold fenceRule at h
  crack h
  all_goals simp_all

theorem real_false_same_blockquote {tok : Tok} {test : Test} {fuel : Nat} {s s' : BState}
    (h : blockquoteRule tok test fuel s false = .ok (false, s')) : s' = s := by
  unfold blockquoteRule at h
  crack h
  all_goals simp_all

theorem real_false_same_list {tok : Tok} {test : Test} {fuel : Nat} {s s' : BState}
    (h : listRule tok test fuel s false = .ok (false, s')) : s' = s := by
  unfold listRule at h
  crack h
  all_goals (subst_vars; first | rfl | contradiction)

/-- the paragraph rule never answers `false` in real mode -/
theorem real_true_paragraph {test : Test} {fuel : Nat} {s s' : BState} {b : Bool}
    (h : paragraphRule test fuel s false = .ok (b, s')) : b = true := by
  unfold paragraphRule at h
  crack h
  exact Eq.symm ‹true = b›

theorem real_false_same_lheading {test : Test} (ht : TestPure test) {fuel : Nat} {s s' : BState}
    (h : lheadingRule test fuel s false = .ok (false, s')) : s' = s := by
  unfold lheadingRule at h
  crack h
  · simp_all
  · have := (lazyScan_spec ht true _ _ _ _ ‹lazyScan _ _ _ _ _ = _›).1
    simp_all

theorem real_false_same_reference {cfg : Cfg} {test : Test} (ht : TestPure test) {fuel : Nat}
    {s s' : BState} (h : referenceRule cfg test fuel s false = .ok (false, s')) : s' = s := by
  unfold referenceRule at h
  crack h
  all_goals (try (have := (lazyScan_spec ht false _ _ _ _ ‹lazyScan _ _ _ _ _ = _›).1))
  all_goals simp_all

/-! ## 5. what no rule changes; what the nested tokenizer must satisfy -/

/-- the part of the state that every rule and every tokenizer call hands back as it found it
    (containers rewrite `offs`, `blkIndent`, `lineMax`, `listIndent`, `level`, `node` — and restore) -/
structure Frame (s s' : BState) : Prop where
  src : s'.src = s.src
  offs : s'.offs = s.offs
  lineMax : s'.lineMax = s.lineMax
  blkIndent : s'.blkIndent = s.blkIndent
  listIndent : s'.listIndent = s.listIndent
  level : s'.level = s.level
  nodeKind : s'.nodeKind = s.nodeKind

theorem Frame.refl (s : BState) : Frame s s := ⟨rfl, rfl, rfl, rfl, rfl, rfl, rfl⟩

theorem Frame.trans {a b c : BState} (h1 : Frame a b) (h2 : Frame b c) : Frame a c :=
  ⟨h2.src.trans h1.src, h2.offs.trans h1.offs, h2.lineMax.trans h1.lineMax,
   h2.blkIndent.trans h1.blkIndent, h2.listIndent.trans h1.listIndent, h2.level.trans h1.level,
   h2.nodeKind.trans h1.nodeKind⟩

theorem setOff_ok {s s' : BState} {i : Nat} {o : LineOffset} (h : s.setOff i o = .ok s') :
    i < s.offs.length ∧ s' = { s with offs := s.offs.set i o } := by
  unfold BState.setOff at h
  split at h
  · simp at h; exact ⟨by assumption, h.symm⟩
  · cases h

theorem off_ok {s : BState} {i : Nat} {o : LineOffset} (h : s.off i = .ok o) :
    s.offs[i]? = some o := by
  unfold BState.off at h
  split at h
  · simp at h; simp_all
  · cases h

/-! ### the table invariant -/

/-- an entry of the line table cuts a line-feed-free line `a ++ b` out of the source, with
    `first_nonspace` at the boundary between `a` and `b` -/
def LineOk (src : List Char) (o : LineOffset) : Prop :=
  ∃ p a b q, src = p ++ a ++ b ++ q ∧ Lines.byteLen p = o.lineStart ∧
    o.firstNonspace = o.lineStart + Lines.byteLen a ∧
    o.lineEnd = o.lineStart + Lines.byteLen a + Lines.byteLen b ∧ '\n' ∉ a ∧ '\n' ∉ b

/-- every entry of the table is `LineOk` (containers move `first_nonspace` only along the line) -/
def TableOk (s : BState) : Prop := ∀ (k : Nat) (o : LineOffset), s.offs[k]? = some o → LineOk s.src o

theorem TableOk.of_frame {s s' : BState} (h : TableOk s) (hf : Frame s s') : TableOk s' := by
  intro k o ho
  rw [hf.offs] at ho
  rw [hf.src]
  exact h k o ho

/-- the rewriting both containers perform: `first_nonspace := line_start + fn` with `fn` returned by
    `find_indent_of(&src[line_start..line_end], rel)`; `indent_nonspace` is arbitrary -/
theorem lineOk_rewrite {src : List Char} {o : LineOffset} (h : LineOk src o) {ltxt : List Char}
    (hl : liftL (Lines.slice src o.lineStart o.lineEnd) = .ok ltxt) {rel ind fn : Nat}
    (hf : liftL (Lines.findIndentOf ltxt rel) = .ok (ind, fn)) (x : Int) :
    LineOk src { o with firstNonspace := fn + o.lineStart, indentNonspace := x } := by
  obtain ⟨p, a, b, q, hsrc, hp, hfn, hle, ha, hb⟩ := h
  have hl' : Lines.slice src o.lineStart o.lineEnd = .ok ltxt := by
    cases hs : Lines.slice src o.lineStart o.lineEnd with
    | error e => rw [hs] at hl; cases e <;> simp [liftL] at hl
    | ok v => rw [hs] at hl; simp [liftL] at hl; rw [hl]
  have hf' : Lines.findIndentOf ltxt rel = .ok (ind, fn) := by
    cases hs : Lines.findIndentOf ltxt rel with
    | error e => rw [hs] at hf; cases e <;> simp [liftL] at hf
    | ok v => rw [hs] at hf; simp [liftL] at hf; rw [hf]
  -- `ltxt = a ++ b`
  have hab : Lines.slice src o.lineStart o.lineEnd = .ok (a ++ b) := by
    refine Lines.slice_eq_ok_iff.mpr ⟨p, q, by rw [hsrc]; simp, hp, ?_⟩
    simp; omega
  rw [hab] at hl'
  cases hl'
  obtain ⟨_, _, hbd, _, _⟩ := Lines.find_indent_bounds _ _ _ _ hf'
  obtain ⟨a', b', hab', hfa⟩ := Lines.onBoundary_iff.mp hbd
  have hmem : ∀ c, c ∈ a' ∨ c ∈ b' → c ∈ a ∨ c ∈ b := by
    intro c hc
    have : c ∈ a ++ b := by rw [hab']; simpa using hc
    simpa using this
  refine ⟨p, a', b', q, ?_, hp, ?_, ?_, ?_, ?_⟩
  · rw [hsrc]; simp only [List.append_assoc]; rw [← List.append_assoc a b, hab']; simp
  · simp; omega
  · have := congrArg Lines.byteLen hab'
    simp at this ⊢; omega
  · intro hc; rcases hmem _ (.inl hc) with h | h; exact ha h; exact hb h
  · intro hc; rcases hmem _ (.inr hc) with h | h; exact ha h; exact hb h

theorem TableOk.setOff {s s' : BState} {m : Nat} {x : LineOffset} (h : TableOk s)
    (hs : s.setOff m x = .ok s') (hx : LineOk s.src x) : TableOk s' := by
  obtain ⟨hm, rfl⟩ := setOff_ok hs
  intro k o ho
  simp only [List.getElem?_set] at ho
  split at ho
  · simp [hm] at ho; subst ho; exact hx
  · exact h k o ho

/-- changing `indent_nonspace` only -/
theorem LineOk.indent {src : List Char} {o : LineOffset} (h : LineOk src o) (x : Int) :
    LineOk src { o with indentNonspace := x } := h

/-- the table of a fresh state -/
theorem tableOk_fresh (src : List Char) (k : Kind) (refs : Refs.RefMap) :
    TableOk (BState.fresh src k refs) := by
  intro i o ho
  simp only [BState.fresh] at ho ⊢
  obtain ⟨A, lt, B, _, _, rfl, hsrc, hnt, _⟩ := Lines.split_entry ho
  have hl := Lines.lead_append_rest lt.1
  refine ⟨Lines.flat A, Lines.lead lt.1, lt.1.dropWhile Lines.isBlank, lt.2 ++ Lines.flat B, ?_, ?_, ?_, ?_, ?_, ?_⟩
  · conv => lhs; rw [hsrc, ← hl]
    simp [List.append_assoc]
  · simp [Lines.mkOff]
  · simp [Lines.mkOff, Lines.byteLen_lead]
  · have := congrArg Lines.byteLen hl
    simp [Lines.byteLen_lead] at this
    simp [Lines.mkOff, Lines.byteLen_lead]; omega
  · intro hc
    exact (hnt _ ((List.takeWhile_sublist _).subset hc)).1 rfl
  · intro hc
    exact (hnt _ ((List.dropWhile_sublist _).subset hc)).1 rfl

/-- the block-quote rewriting of an entry keeps it `LineOk` and leaves a non-negative indent -/
theorem bqRewrite_spec {src : List Char} {o o' : LineOffset} {rest : List Char} {le : Bool}
    (h : bqRewrite src o rest = .ok (o', le)) :
    (LineOk src o → LineOk src o') ∧ 0 ≤ o'.indentNonspace := by
  unfold bqRewrite at h
  crack h
  subst_vars
  refine ⟨fun hl => ?_, by simp⟩
  exact lineOk_rewrite hl ‹liftL (Lines.slice _ _ _) = _› (fn := _) (ind := _)
    ‹liftL (Lines.findIndentOf _ _) = _› _

/-- the list-item rewriting of an entry keeps it `LineOk`; the item's first line is then blank or at
    a non-negative indent relative to the item's content indent -/
theorem itemRewrite_spec {src : List Char} {o o' : LineOffset} {pos indent : Nat} {re : Bool}
    (h : itemRewrite src o pos = .ok (o', indent, re)) :
    (LineOk src o → LineOk src o') ∧
    (o'.firstNonspace ≥ o'.lineEnd ∨ (indent : Int) ≤ o'.indentNonspace) := by
  unfold itemRewrite at h
  crack h
  rename_i hneg ltxt hltxt rel hrel fi hfi lineLen hlen ho' hind
  subst ho' hind
  obtain ⟨hle, rfl⟩ := psub_ok hlen
  refine ⟨fun hl => lineOk_rewrite hl hltxt (fn := fi.2) (ind := fi.1) hfi _, ?_⟩
  by_cases hre : (fi.2 == o.lineEnd - o.lineStart) = true
  · left
    simp at hre
    simp [hre]; omega
  · right
    have h4 : (if fi.1 > 4 then 1 else fi.1) ≤ fi.1 := by split <;> omega
    simp only [hre, if_false, Bool.false_eq_true]
    generalize (if fi.1 > 4 then 1 else fi.1) = k at h4
    omega

/-- `0 ≤ line_indent(line)`, the condition under which the tokenizer runs the chain -/
def IndentOk (s : BState) : Prop := ∃ i, s.lineIndent s.line = .ok i ∧ 0 ≤ i

/-- what the theorems about the container rules need of the nested tokenizer -/
structure TokSpec (tok : Tok) : Prop where
  frame : ∀ s s', tok s = .ok s' → Frame s s'
  mono : ∀ s s', tok s = .ok s' → s.line ≤ s'.line
  upper : ∀ s s', tok s = .ok s' → TableOk s → s.line ≤ s.lineMax → s'.line ≤ s.lineMax
  strict : ∀ s s', tok s = .ok s' → s.line < s.lineMax →
    (s.isEmpty s.line = true ∨ IndentOk s) → s.line < s'.line

/-- a rule answered `true` in real mode: the frame is intact, `line` moved forward and (on a table
    that satisfies the invariant) not beyond `line_max` -/
structure Advanced (s s' : BState) : Prop where
  frame : Frame s s'
  lt : s.line < s'.line
  le : TableOk s → s'.line ≤ s.lineMax

/-- the same with an unconditional upper bound (the six rules that neither nest nor count lines) -/
structure Advanced' (s s' : BState) : Prop where
  frame : Frame s s'
  lt : s.line < s'.line
  le : s'.line ≤ s.lineMax

theorem Advanced'.weaken {s s' : BState} (h : Advanced' s s') : Advanced s s' :=
  ⟨h.frame, h.lt, fun _ => h.le⟩

/-! ## 6. progress of the nine rules -/

theorem hr_advanced {s s' : BState} (h : hrRule s false = .ok (true, s')) (hl : s.line < s.lineMax) :
    Advanced' s s' := by
  unfold hrRule at h
  crack h
  refine ⟨⟨rfl, rfl, rfl, rfl, rfl, rfl, rfl⟩, ?_, ?_⟩ <;> simp [BState.push] <;> omega

theorem heading_advanced {s s' : BState} (h : headingRule s false = .ok (true, s'))
    (hl : s.line < s.lineMax) : Advanced' s s' := by
  unfold headingRule at h
  crack h
  refine ⟨⟨rfl, rfl, rfl, rfl, rfl, rfl, rfl⟩, ?_, ?_⟩ <;> simp [BState.push] <;> omega

theorem codeScan_spec (s : BState) (n last r : Nat) (h : codeScan s n last = .ok r) (hn : last ≤ n) :
    last ≤ r ∧ (last ≤ s.lineMax → r ≤ s.lineMax) := by
  fun_induction codeScan s n last <;> simp_all <;> omega

theorem code_advanced {s s' : BState} (h : codeRule s false = .ok (true, s')) (hl : s.line < s.lineMax) :
    Advanced' s s' := by
  unfold codeRule at h
  crack h
  have := codeScan_spec _ _ _ _ ‹codeScan _ _ _ = _› (Nat.le_refl _)
  refine ⟨⟨rfl, rfl, rfl, rfl, rfl, rfl, rfl⟩, ?_, ?_⟩ <;> simp [BState.push] <;> omega

theorem fenceScan_spec (s : BState) (marker : Char) (len n : Nat) (a : Nat) (b : Bool)
    (h : fenceScan s marker len n = .ok (a, b)) (hn : n < s.lineMax) :
    n < a ∧ a ≤ s.lineMax ∧ (b = true → a < s.lineMax) := by
  fun_induction fenceScan s marker len n <;> simp_all <;> omega

theorem fence_advanced {s s' : BState} (h : fenceRule s false = .ok (true, s')) (hl : s.line < s.lineMax) :
    Advanced' s s' := by
  unfold fenceRule at h
  crack h
  have := fenceScan_spec _ _ _ _ _ _ ‹fenceScan _ _ _ _ = _› hl
  refine ⟨⟨rfl, rfl, rfl, rfl, rfl, rfl, rfl⟩, ?_, ?_⟩ <;> simp [BState.push] <;> split <;> simp_all <;> omega

theorem paragraph_advanced {test : Test} (ht : TestPure test) {fuel : Nat} {s s' : BState}
    (h : paragraphRule test fuel s false = .ok (true, s')) (hl : s.line < s.lineMax) :
    Advanced' s s' := by
  unfold paragraphRule at h
  crack h
  obtain ⟨h1, h2, h3, _⟩ := lazyScan_spec ht false _ _ _ _ ‹lazyScan _ _ _ _ _ = _›
  refine ⟨⟨?_, ?_, ?_, ?_, ?_, ?_, ?_⟩, ?_, ?_⟩ <;> simp [BState.push, h1] <;> omega

theorem lheading_advanced {test : Test} (ht : TestPure test) {fuel : Nat} {s s' : BState}
    (h : lheadingRule test fuel s false = .ok (true, s')) (_hl : s.line < s.lineMax) :
    Advanced' s s' := by
  unfold lheadingRule at h
  crack h
  obtain ⟨h1, h2, h3, h4⟩ := lazyScan_spec ht true _ _ _ _ ‹lazyScan _ _ _ _ _ = _›
  have := h4 ‹_›
  refine ⟨⟨?_, ?_, ?_, ?_, ?_, ?_, ?_⟩, ?_, ?_⟩ <;> simp [BState.push, h1] <;> omega

/-- the reference rule: frame and strict progress (the upper bound needs the table invariant:
    `reference_advanced`) -/
theorem reference_frame_lt {cfg : Cfg} {test : Test} (ht : TestPure test) {fuel : Nat} {s s' : BState}
    (h : referenceRule cfg test fuel s false = .ok (true, s')) :
    Frame s s' ∧ s.line < s'.line := by
  unfold referenceRule at h
  crack h
  obtain ⟨h1, h2, h3, _⟩ := lazyScan_spec ht false _ _ _ _ ‹lazyScan _ _ _ _ _ = _›
  refine ⟨⟨?_, ?_, ?_, ?_, ?_, ?_, ?_⟩, ?_⟩ <;> simp [h1] <;> omega
/-! ### block quote -/

theorem restoreOffs_set_comm (j : Nat) (x : LineOffset) :
    ∀ (add l : List LineOffset) (i : Nat) (r : List LineOffset), j < i →
      restoreOffs l i add = .ok r → restoreOffs (l.set j x) i add = .ok (r.set j x) := by
  intro add
  induction add with
  | nil => intro l i r _ h; simp [restoreOffs] at h ⊢; rw [h]
  | cons o add ih =>
    intro l i r hj h
    simp only [restoreOffs, List.length_set] at h ⊢
    split at h
    · rename_i hi
      rw [if_pos hi, List.set_comm _ _ (by omega)]
      exact ih _ _ _ (by omega) h
    · cases h

/-- everything but `offs` and `line` is the same -/
structure SameBut (s s' : BState) : Prop where
  src : s'.src = s.src
  blkIndent : s'.blkIndent = s.blkIndent
  lineMax : s'.lineMax = s.lineMax
  tight : s'.tight = s.tight
  listIndent : s'.listIndent = s.listIndent
  level : s'.level = s.level
  nodeKind : s'.nodeKind = s.nodeKind
  children : s'.children = s.children
  refs : s'.refs = s.refs
  len : s'.offs.length = s.offs.length

theorem SameBut.refl (s : BState) : SameBut s s := ⟨rfl, rfl, rfl, rfl, rfl, rfl, rfl, rfl, rfl, rfl⟩
theorem SameBut.trans {a b c : BState} (h1 : SameBut a b) (h2 : SameBut b c) : SameBut a c :=
  ⟨h2.src.trans h1.src, h2.blkIndent.trans h1.blkIndent, h2.lineMax.trans h1.lineMax,
   h2.tight.trans h1.tight, h2.listIndent.trans h1.listIndent, h2.level.trans h1.level,
   h2.nodeKind.trans h1.nodeKind, h2.children.trans h1.children, h2.refs.trans h1.refs,
   h2.len.trans h1.len⟩

theorem sameBut_setOff {s s' : BState} {i : Nat} {o : LineOffset} (h : s.setOff i o = .ok s') :
    SameBut s s' := by
  obtain ⟨_, rfl⟩ := setOff_ok h
  exact ⟨rfl, rfl, rfl, rfl, rfl, rfl, rfl, rfl, rfl, by simp⟩

theorem sameBut_line (s : BState) (n : Nat) : SameBut s { s with line := n } :=
  ⟨rfl, rfl, rfl, rfl, rfl, rfl, rfl, rfl, rfl, rfl⟩

/-- one entry saved, one entry rewritten, the rest of the scan restorable ⇒ the whole restorable -/
theorem restore_step {offs offs' : List LineOffset} {m : Nat} {o x : LineOffset} {add : List LineOffset}
    (ho : offs[m]? = some o) (hlen : offs'.length = offs.length)
    (h : restoreOffs offs' (m + 1) add = .ok (offs.set m x)) :
    restoreOffs offs' m (o :: add) = .ok offs := by
  have hm : m < offs.length := (List.getElem?_eq_some_iff.mp ho).1
  simp only [restoreOffs]
  rw [if_pos (by omega)]
  have := restoreOffs_set_comm m o add offs' (m + 1) _ (by omega) h
  rw [this, List.set_set]
  congr 1
  have := (List.getElem?_eq_some_iff.mp ho).2
  rw [← this]
  exact List.set_getElem_self _

/-- the conclusion of `bqScan_spec` -/
def BqPost (S : BState) (m : Nat) (old : List LineOffset) (n : Nat) (old' : List LineOffset)
    (S' : BState) : Prop :=
  SameBut S S' ∧ m ≤ n ∧ (m ≤ S.lineMax → n ≤ S.lineMax) ∧
    (∀ i, i < m → S'.offs[i]? = S.offs[i]?) ∧ (TableOk S → TableOk S') ∧
    ∃ add, old' = old ++ add ∧ restoreOffs S'.offs m add = .ok S.offs

theorem bq_stop (S : BState) (m : Nat) (old : List LineOffset) : BqPost S m old m old S :=
  ⟨SameBut.refl _, Nat.le_refl _, fun h => h, fun _ _ => rfl, fun h => h, [], by simp, rfl⟩

/-- line `m` is saved and rewritten, the scan goes on behind it -/
theorem bq_step {S S1 S' : BState} {m n : Nat} {o x : LineOffset} {old old' : List LineOffset}
    (hset : S.setOff m x = .ok S1) (ho : S.off m = .ok o) (hlt : m < S.lineMax)
    (hx : TableOk S → LineOk S.src x)
    (ih : BqPost S1 (m + 1) (old ++ [o]) n old' S') : BqPost S m old n old' S' := by
  obtain ⟨h1, h2, h3, h4, h7, add, h5, h6⟩ := ih
  have h7' : TableOk S → TableOk S' := fun h => h7 (h.setOff hset (hx h))
  have hsb := sameBut_setOff hset
  obtain ⟨hm, rfl⟩ := setOff_ok hset
  have ho := off_ok ho
  refine ⟨hsb.trans h1, by omega, fun _ => h3 (by simp; omega), ?_, h7', o :: add, by simp [h5], ?_⟩
  · intro i hi
    rw [h4 i (by omega)]
    simp [List.getElem?_set]; omega
  · exact restore_step ho (by simpa using h1.len) h6

/-- the scan stops at line `m`, which is saved and rewritten (a terminating rule under a non-zero
    block indent) -/
theorem bq_last {S S1 : BState} {m : Nat} {o x : LineOffset} {old : List LineOffset}
    (hset : S.setOff m x = .ok S1) (ho : S.off m = .ok o) (hx : TableOk S → LineOk S.src x) :
    BqPost S m old m (old ++ [o]) S1 := by
  have hsb := sameBut_setOff hset
  have h7 : TableOk S → TableOk S1 := fun h => h.setOff hset (hx h)
  obtain ⟨hm, rfl⟩ := setOff_ok hset
  have ho := off_ok ho
  refine ⟨hsb, Nat.le_refl _, fun h => h, ?_, h7, [o], rfl, ?_⟩
  · intro i hi
    simp [List.getElem?_set]; omega
  · exact restore_step (x := x) ho (by simp) (by simp [restoreOffs])

theorem BqPost.of_line {S : BState} {k m n : Nat} {old old' : List LineOffset} {S' : BState}
    (h : BqPost { S with line := k } m old n old' S') : BqPost S m old n old' S' := by
  obtain ⟨h1, h2, h3, h4, h5⟩ := h
  exact ⟨(sameBut_line S k).trans h1, h2, h3, h4, h5⟩

theorem bqScan_spec {test : Test} (ht : TestPure test) :
    ∀ (fuel : Nat) (S : BState) (m : Nat) (old : List LineOffset) (le : Bool)
      (n : Nat) (old' : List LineOffset) (S' : BState),
      bqScan test fuel S m old le = .ok (n, old', S') → BqPost S m old n old' S' := by
  intro fuel
  induction fuel with
  | zero => intro S m old le n old' S' h; simp [bqScan] at h
  | succ f ih =>
    intro S m old le n old' S' h
    simp only [bqScan] at h
    crack h
    all_goals (try subst_vars)
    · exact bq_stop _ _ _
    · exact bq_stop _ _ _
    · refine bq_step ‹BState.setOff _ _ _ = _› ‹BState.off _ _ = _› (by omega) ?_ (ih _ _ _ _ _ _ _ h)
      intro hT
      exact (bqRewrite_spec ‹bqRewrite _ _ _ = _›).1 (hT _ _ (off_ok ‹BState.off _ _ = _›))
    · exact bq_stop _ _ _
    · -- a terminating rule, `blk_indent ≠ 0`
      have e := ht _ _ ‹test _ = _›
      simp only [e] at *
      exact BqPost.of_line (bq_last ‹BState.setOff _ _ _ = _› ‹BState.off _ _ = _›
        (fun hT => (hT _ _ (off_ok ‹BState.off _ _ = _›)).indent _))
    · have e := ht _ _ ‹test _ = _›
      rw [e]
      exact BqPost.of_line (bq_stop _ _ _)
    · have e := ht _ _ ‹test _ = _›
      simp only [e] at *
      exact BqPost.of_line
        (bq_step ‹BState.setOff _ _ _ = _› ‹BState.off _ _ = _› (by simp; omega)
          (fun hT => (hT _ _ (off_ok ‹BState.off _ _ = _›)).indent _) (ih _ _ _ _ _ _ _ h))

/-- the first line of a quote (`>` at a non-negative indent) is inside it: the scan gets past it
    and leaves a non-negative `indent_nonspace` there -/
theorem bqScan_first {test : Test} (ht : TestPure test) {fuel : Nat} {S : BState} {m : Nat}
    {old : List LineOffset} {le : Bool} {n : Nat} {old' : List LineOffset} {S' : BState}
    (h : bqScan test fuel S m old le = .ok (n, old', S')) (hlt : m < S.lineMax)
    {i : Int} (hi : S.lineIndent m = .ok i) (hi0 : 0 ≤ i) {line : List Char}
    (hline : S.getLine m = .ok line) (hhead : line.head? = some '>') :
    m < n ∧ ∃ o, S'.offs[m]? = some o ∧ 0 ≤ o.indentNonspace := by
  cases fuel with
  | zero => simp [bqScan] at h
  | succ f =>
    cases line with
    | nil => simp at hhead
    | cons c rest =>
      simp at hhead
      subst hhead
      have hno : ¬ (i < 0) := by omega
      simp only [bqScan, hi, hline, ok_bind, hlt, not_true_eq_false, ↓reduceIte, hno, decide_false,
        Bool.false_eq_true, not_false_eq_true, and_self] at h
      crack h
      obtain ⟨hm, rfl⟩ := setOff_ok ‹BState.setOff _ _ _ = _›
      have hnn := (bqRewrite_spec ‹bqRewrite _ _ _ = _›).2
      obtain ⟨_, h2, _, h4, _, _⟩ := bqScan_spec ht _ _ _ _ _ _ _ _ h
      refine ⟨by omega, ?_⟩
      rw [h4 m (by omega)]
      simp [List.getElem?_set, hm]
      exact hnn

theorem lineIndent_of_off {s : BState} {m : Nat} {o : LineOffset} (h : s.offs[m]? = some o) :
    s.lineIndent m = .ok (o.indentNonspace - (s.blkIndent : Int)) := by
  simp [BState.lineIndent, Lines.lineIndent, h, liftL]

theorem blockquote_advanced {tok : Tok} {test : Test} (hk : TokSpec tok) (ht : TestPure test)
    {fuel : Nat} {s s' : BState} (h : blockquoteRule tok test fuel s false = .ok (true, s'))
    (hl : s.line < s.lineMax) (hi : IndentOk s) : Advanced s s' := by
  obtain ⟨i, hi, hi0⟩ := hi
  unfold blockquoteRule at h
  crack h
  rename_i ind hind _ line hline hhead scan hscan s2 htok lvl hlvl offs hoffs e he r hr
  have hhead : line.head? = some '>' := by simpa using hhead
  obtain ⟨n, old', S'⟩ := scan
  obtain ⟨hsb, hmn, hup, _, hT, add, hadd, hrest⟩ := bqScan_spec ht _ _ _ _ _ _ _ _ hscan
  obtain ⟨hlt, o, ho, ho0⟩ := bqScan_first ht hscan hl hi hi0 hline hhead
  simp only at htok hlvl hoffs he hr ⊢
  have hfr := hk.frame _ _ htok
  have hstrict := hk.strict _ _ htok (by simpa using hlt)
    (Or.inr ⟨_, lineIndent_of_off ho, by simpa using ho0⟩)
  have hupper := fun h => hk.upper _ _ htok h (by simpa using hmn)
  simp only at hstrict hupper
  obtain ⟨_, rfl⟩ := psub_ok hlvl
  simp only [List.nil_append] at hadd
  subst hadd
  rw [hfr.offs] at hoffs
  simp only at hoffs
  rw [hrest] at hoffs
  cases hoffs
  refine ⟨⟨?_, ?_, ?_, ?_, ?_, ?_, ?_⟩, ?_, ?_⟩
  · simp [hfr.src, hsb.src]
  · rfl
  · simp [hsb.lineMax]
  · simp [hsb.blkIndent]
  · simp [hfr.listIndent, hsb.listIndent]
  · simp [hfr.level, hsb.level]
  · simp [hsb.nodeKind]
  · simpa using hstrict
  · intro hTs
    have := hup (by omega)
    have := hupper (fun k o ho => hT hTs k o ho)
    simp at this ⊢
    omega
/-! ### list -/

theorem listItemBody_spec {tok : Tok} (hk : TokSpec tok) {S2 S3 : BState} {m : Nat} {reachedEnd : Bool}
    (h : listItemBody tok S2 m reachedEnd = .ok S3) (hline : S2.line = m) (hlt : m < S2.lineMax)
    (hcond : S2.isEmpty m = true ∨ IndentOk { S2 with line := m }) :
    Frame S2 S3 ∧ m < S3.line ∧ (TableOk S2 → S3.line ≤ S2.lineMax) := by
  unfold listItemBody at h
  crack h
  · refine ⟨⟨rfl, rfl, rfl, rfl, rfl, rfl, rfl⟩, ?_, fun _ => ?_⟩ <;> simp <;> split <;> omega
  · rename_i s2 htok lvl hlvl
    have hfr := hk.frame _ _ htok
    have hst := hk.strict _ _ htok (by simpa using hlt) (by
      rcases hcond with h | h
      · left; exact h
      · right
        obtain ⟨i, h1, h2⟩ := h
        exact ⟨i, h1, h2⟩)
    have hup := fun h => hk.upper _ _ htok h (by simp; omega)
    obtain ⟨_, rfl⟩ := psub_ok hlvl
    refine ⟨⟨?_, ?_, ?_, ?_, ?_, ?_, ?_⟩, ?_, ?_⟩
    · simp [hfr.src]
    · simp [hfr.offs]
    · simp [hfr.lineMax]
    · simp [hfr.blkIndent]
    · simp [hfr.listIndent]
    · simp [hfr.level]
    · simp [hfr.nodeKind]
    · simpa using hst
    · intro hT
      simpa using hup (fun k o ho => hT k o ho)


theorem isEmpty_of_off {s : BState} {m : Nat} {o : LineOffset} (h : s.offs[m]? = some o)
    (he : o.firstNonspace ≥ o.lineEnd) : s.isEmpty m = true := by
  simp [BState.isEmpty, Lines.isEmpty, h, he]

theorem item_cond {S2 : BState} {m : Nat} {x : LineOffset} (hx : S2.offs[m]? = some x)
    (h : x.firstNonspace ≥ x.lineEnd ∨ (S2.blkIndent : Int) ≤ x.indentNonspace) :
    S2.isEmpty m = true ∨ IndentOk { S2 with line := m } := by
  rcases h with h | h
  · left; exact isEmpty_of_off hx h
  · right
    exact ⟨_, lineIndent_of_off (s := { S2 with line := m }) hx, by simp; omega⟩

theorem listItem_spec {tok : Tok} (hk : TokSpec tok) {S S' : BState} {m pos : Nat} {pee tight pee' tight' : Bool}
    (h : listItem tok S m pos pee tight = .ok (S', tight', pee')) (hline : S.line = m)
    (hlt : m < S.lineMax) :
    Frame S S' ∧ m < S'.line ∧ (TableOk S → S'.line ≤ S.lineMax) := by
  unfold listItem at h
  crack h
  rename_i o ho rw hrw S2 hS2 S3 hbody _ li hli S5 hS5 e _ r _ hS' _ _
  obtain ⟨o', indent, re⟩ := rw
  subst hS'
  obtain ⟨hm, hS2eq⟩ := setOff_ok hS2
  obtain ⟨hm5, rfl⟩ := setOff_ok hS5
  have ho' := off_ok ho
  obtain ⟨hok, hc⟩ := itemRewrite_spec hrw
  simp only at hS2 hS2eq hbody
  -- the item's first line in the nested state: empty, or at a non-negative indent
  have hcond : S2.isEmpty m = true ∨ IndentOk { S2 with line := m } := by
    refine item_cond (x := o') (by rw [hS2eq]; simp [hm]) ?_
    rw [hS2eq]
    exact hc
  obtain ⟨hfr, hlt', hle'⟩ := listItemBody_spec hk hbody (by rw [hS2eq]; exact hline)
    (by rw [hS2eq]; exact hlt) hcond
  have hli' : some li = some S.blkIndent := by rw [← hli, hfr.listIndent, hS2eq]
  simp only [Option.some.injEq] at hli'
  refine ⟨⟨?_, ?_, ?_, ?_, ?_, ?_, ?_⟩, ?_, ?_⟩
  · simp [hfr.src, hS2eq]
  · simp [hfr.offs, hS2eq]
    rw [← (List.getElem?_eq_some_iff.mp ho').2]
    exact List.set_getElem_self _
  · simp [hfr.lineMax, hS2eq]
  · simp [hli']
  · simp
  · simp [hfr.level, hS2eq]
  · simp
  · simpa using hlt'
  · intro hT
    have hT2 : TableOk S2 := by
      refine TableOk.setOff (s := { S with nodeKind := .listItem, children := [], listIndent := some S.blkIndent, blkIndent := indent, tight := true }) (fun k o ho => hT k o ho) hS2 ?_
      exact hok (hT _ _ ho')
    simpa [hS2eq] using hle' hT2

theorem listContinue_spec {test : Test} (ht : TestPure test) {ordered : Bool} {mc : Char}
    {S S' : BState} {n : Nat} {c : Option Nat} (h : listContinue test ordered mc S n = .ok (c, S')) :
    S' = S ∧ (c ≠ none → n < S.lineMax) := by
  unfold listContinue at h
  crack h
  all_goals (try subst_vars)
  all_goals (try (have e := ht _ _ ‹test _ = _›))
  all_goals (try simp only [e, set_line_back] at *)
  all_goals simp_all
  all_goals omega

theorem listLoop_spec {tok : Tok} {test : Test} (hk : TokSpec tok) (ht : TestPure test)
    {ordered : Bool} {mc : Char} :
    ∀ (fuel : Nat) (S : BState) (m pos : Nat) (pee tight : Bool) (n : Nat) (tight' : Bool) (S' : BState),
      listLoop tok test ordered mc fuel S m pos pee tight = .ok (n, tight', S') →
      S.line = m → m < S.lineMax →
      Frame S S' ∧ S'.line = n ∧ m < n ∧ (TableOk S → n ≤ S.lineMax) := by
  intro fuel
  induction fuel with
  | zero => intro S m pos pee tight n tight' S' h; simp [listLoop] at h
  | succ f ih =>
    intro S m pos pee tight n tight' S' h hline hlt
    simp only [listLoop] at h
    crack h
    all_goals (try subst_vars)
    · rename_i wi wc hc _ hnone _ hitem
      obtain ⟨S1, t1, p1⟩ := wi
      obtain ⟨c, S2⟩ := wc
      obtain ⟨hfr, h1, h2⟩ := listItem_spec hk hitem rfl hlt
      obtain ⟨rfl, _⟩ := listContinue_spec ht hc
      exact ⟨hfr, rfl, h1, h2⟩
    · rename_i wi wc hc _ p hsome _ hitem
      obtain ⟨S1, t1, p1⟩ := wi
      obtain ⟨c, S2⟩ := wc
      obtain ⟨hfr, h1, h2⟩ := listItem_spec hk hitem rfl hlt
      obtain ⟨rfl, hc2⟩ := listContinue_spec ht hc
      simp only at hsome h hc2
      have hlt2 := hc2 (by rw [hsome]; simp)
      obtain ⟨hfr2, h3, h4, h5⟩ := ih _ _ _ _ _ _ _ _ h rfl hlt2
      exact ⟨hfr.trans hfr2, h3, by omega, fun hT => by have := h5 (hT.of_frame hfr); rw [hfr.lineMax] at this; exact this⟩

theorem list_advanced {tok : Tok} {test : Test} (hk : TokSpec tok) (ht : TestPure test)
    {fuel : Nat} {s s' : BState} (h : listRule tok test fuel s false = .ok (true, s'))
    (hl : s.line < s.lineMax) : Advanced s s' := by
  unfold listRule at h
  crack h
  all_goals (
    rename_i wl hloop _ _ _ _ _ _ _ _
    obtain ⟨n, t, S'⟩ := wl
    obtain ⟨hfr, h1, h2, h3⟩ := listLoop_spec hk ht _ _ _ _ _ _ _ _ _ hloop rfl hl
    obtain ⟨_, rfl⟩ := psub_ok ‹psub S'.level 1 = _›
    refine ⟨⟨?_, ?_, ?_, ?_, ?_, ?_, ?_⟩, ?_, ?_⟩
    · simp [hfr.src]
    · simp [hfr.offs]
    · simp [hfr.lineMax]
    · simp [hfr.blkIndent]
    · simp [hfr.listIndent]
    · simp [hfr.level]
    · simp
    · simp [h1]; exact h2
    · intro hT
      simp [h1]
      exact h3 (fun k o ho => hT k o ho))

/-! ### reference: `state.line = start_line + lines + 1` stays within the lines read -/

/-- number of line feeds -/
def nl (l : List Char) : Nat := l.count '\n'

@[simp] theorem nl_nil : nl [] = 0 := rfl
@[simp] theorem nl_append (a b : List Char) : nl (a ++ b) = nl a + nl b := by simp [nl]
theorem nl_cons (c : Char) (r : List Char) : nl (c :: r) = (if c = '\n' then 1 else 0) + nl r := by
  simp only [nl, List.count_cons]
  by_cases h : c = '\n' <;> simp [h] <;> omega

/-- of two prefixes of a text the one that is shorter in bytes is a prefix of the other -/
theorem prefix_of_le : ∀ (p p' q q' : List Char), p ++ q = p' ++ q' →
    Link.byteLen p ≤ Link.byteLen p' → ∃ u, p' = p ++ u := by
  intro p
  induction p with
  | nil => intro p' _ _ _ _; exact ⟨p', rfl⟩
  | cons c t ih =>
    intro p' q q' h hl
    cases p' with
    | nil => have := Link.clen_pos c; simp [Link.byteLen] at hl; omega
    | cons c' t' =>
      simp only [List.cons_append, List.cons.injEq] at h
      obtain ⟨rfl, h⟩ := h
      obtain ⟨u, hu⟩ := ih t' q q' h (by simp [Link.byteLen] at hl; omega)
      exact ⟨u, by simp [hu]⟩

/-- "`l` line feeds have been counted, all of them before byte `p` of `str`" -/
def Pref (str : List Char) (p l : Nat) : Prop :=
  ∃ pre suf, str = pre ++ suf ∧ Link.byteLen pre = p ∧ l ≤ nl pre

theorem Pref.le_total {str : List Char} {p l : Nat} (h : Pref str p l) : l ≤ nl str := by
  obtain ⟨pre, suf, rfl, _, hl⟩ := h
  simp; omega

/-- moving the position forward to another boundary keeps the count valid -/
theorem Pref.forward {str : List Char} {p l p' : Nat} (h : Pref str p l) (hp : p ≤ p')
    (hb : Link.Boundary str p') : Pref str p' l := by
  obtain ⟨pre, suf, rfl, hpl, hl⟩ := h
  obtain ⟨pre', post', hs, hpl'⟩ := hb
  obtain ⟨u, rfl⟩ := prefix_of_le pre pre' suf post' hs (by omega)
  exact ⟨pre ++ u, post', hs, hpl', by simp; omega⟩

/-- counting the line feeds of a slice that starts at the position -/
theorem Pref.slice {str : List Char} {p l p' : Nat} {mid : List Char} (h : Pref str p l)
    (hs : Link.slice str p p' = .ok mid) : Pref str p' (l + nl mid) := by
  obtain ⟨pre, suf, hstr, hpl, hl⟩ := h
  obtain ⟨pre', post, hstr', ha, hb⟩ := (Link.slice_ok_iff _ _ _ _).1 hs
  have h1 : pre ++ suf = pre' ++ (mid ++ post) := by rw [← hstr, hstr']; simp
  obtain ⟨u, hu⟩ := prefix_of_le pre pre' suf (mid ++ post) h1 (by omega)
  have hu0 : u = [] := by
    have := congrArg Link.byteLen hu
    simp [Link.byteLen_append] at this
    cases u with
    | nil => rfl
    | cons c r => have := Link.clen_pos c; simp [Link.byteLen] at *; omega
  subst hu0
  simp at hu
  subst hu
  exact ⟨pre' ++ mid, post, by rw [hstr'], by simp [Link.byteLen_append]; omega, by simp; omega⟩

theorem clen_nl' : Link.clen '\n' = 1 := by decide
theorem clen_sp : Link.clen ' ' = 1 := by decide
theorem clen_tab : Link.clen '\t' = 1 := by decide
theorem clen_bs' : Link.clen '\\' = 1 := by decide
theorem clen_rb : Link.clen ']' = 1 := by decide
theorem clen_colon : Link.clen ':' = 1 := by decide

theorem labelScan_pref (str : List Char) :
    ∀ (rest : List Char) (esc : Bool) (pos lines le l' : Nat) (rest' : List Char),
      labelScan esc rest pos lines = some (le, l', rest') →
      ∀ pre, str = pre ++ rest → Link.byteLen pre = pos → lines ≤ nl pre →
        ∃ pre', str = pre' ++ ']' :: rest' ∧ Link.byteLen pre' = le ∧ l' ≤ nl pre' := by
  intro rest
  induction rest with
  | nil => intro esc pos lines le l' rest' h; simp [labelScan] at h
  | cons c r ih =>
    intro esc pos lines le l' rest' h pre hstr hp hl
    have step : ∀ esc' lines', lines' ≤ lines + (if c = '\n' then 1 else 0) →
        labelScan esc' r (pos + Link.clen c) lines' = some (le, l', rest') →
        ∃ pre', str = pre' ++ ']' :: rest' ∧ Link.byteLen pre' = le ∧ l' ≤ nl pre' := by
      intro esc' lines' hle h'
      exact ih _ _ _ _ _ _ h' (pre ++ [c]) (by simp [hstr])
        (by simp [Link.byteLen_append, Link.byteLen]; omega) (by simp [nl_cons]; omega)
    simp only [labelScan] at h
    split at h
    · exact step _ _ (by split <;> omega) h
    · split at h
      · cases h
      · split at h
        · rename_i hc
          simp at h
          obtain ⟨rfl, rfl, rfl⟩ := h
          subst hc
          exact ⟨pre, hstr, hp, hl⟩
        · split at h
          · rename_i hc
            subst hc
            exact step false (lines + 1) (by simp) (by simpa [clen_nl'] using h)
          · split at h
            · rename_i hc
              subst hc
              exact step true lines (by omega) (by simpa [clen_bs'] using h)
            · exact step false lines (by omega) h

theorem wsScan_pref (str : List Char) :
    ∀ (rest : List Char) (pos lines pos' l' : Nat), wsScan rest pos lines = (pos', l') →
      ∀ pre post, str = pre ++ rest ++ post → Link.byteLen pre = pos → lines ≤ nl pre →
        pos ≤ pos' ∧ Pref str pos' l' := by
  intro rest
  induction rest with
  | nil =>
    intro pos lines pos' l' h pre post hstr hp hl
    simp [wsScan] at h
    obtain ⟨rfl, rfl⟩ := h
    exact ⟨Nat.le_refl _, pre, post, by simpa using hstr, hp, hl⟩
  | cons c r ih =>
    intro pos lines pos' l' h pre post hstr hp hl
    simp only [wsScan] at h
    split at h
    · rename_i hc
      have hcl : Link.clen c = 1 := by rcases hc with rfl | rfl <;> decide
      have hnl : c ≠ '\n' := by rcases hc with rfl | rfl <;> decide
      obtain ⟨h1, h2⟩ := ih _ _ _ _ h (pre ++ [c]) post (by simp [hstr])
        (by simp [Link.byteLen_append, Link.byteLen, hcl]; omega) (by simp [nl_cons, hnl]; omega)
      exact ⟨by omega, h2⟩
    · split at h
      · rename_i hc
        subst hc
        obtain ⟨h1, h2⟩ := ih _ _ _ _ h (pre ++ ['\n']) post (by simp [hstr])
          (by simp [Link.byteLen_append, Link.byteLen, clen_nl']; omega) (by simp [nl_cons]; omega)
        exact ⟨by omega, h2⟩
      · simp at h
        obtain ⟨rfl, rfl⟩ := h
        exact ⟨Nat.le_refl _, pre, c :: r ++ post, by simpa using hstr, hp, hl⟩

theorem liftK_ok {α : Type} {x : Except Link.Panic α} {a : α} (h : liftK x = .ok a) : x = .ok a := by
  cases x with
  | error e => cases e; simp [liftK] at h
  | ok v => simp [liftK] at h; rw [h]

theorem Pref.weaken {str : List Char} {p l l' : Nat} (h : Pref str p l) (hl : l' ≤ l) : Pref str p l' := by
  obtain ⟨pre, suf, h1, h2, h3⟩ := h
  exact ⟨pre, suf, h1, h2, by omega⟩

/-- the count is below the line feeds of THE prefix that ends at the position -/
theorem Pref.at {str : List Char} {p l : Nat} (h : Pref str p l) {pre suf : List Char}
    (hs : str = pre ++ suf) (hp : Link.byteLen pre = p) : l ≤ nl pre := by
  obtain ⟨pre', suf', hs', hp', hl⟩ := h
  obtain ⟨u, hu⟩ := prefix_of_le pre' pre suf' suf (by rw [← hs', hs]) (by omega)
  subst hu
  simp; omega

theorem refTitle_pref {cfg : Cfg} {str : List Char} {start pos lines dp dl : Nat}
    {r : Option (List Char) × Nat × Nat}
    (h : refTitle cfg str (Link.byteLen str) start pos lines dp dl = .ok r)
    (h1 : Pref str pos lines) (h2 : Pref str dp dl) : Pref str r.2.1 r.2.2 := by
  unfold refTitle at h
  crack h
  · rename_i res ht
    obtain ⟨o, m, suf, _, _, _, htoks, hsl, _, _⟩ := Link.title_delims _ _ _ _ (liftK_ok ht)
    have := h1.slice hsl
    refine this.weaken ?_
    rw [htoks.lines_eq]
    simp [nl, List.count_cons, List.count_append]
    omega
  · exact h2
  · exact h1

theorem refTrail_lines {str : List Char} {len : Nat} {title t' : Option (List Char)} {pos lines dp dl l' : Nat}
    (h : refTrail str len title pos lines dp dl = .ok (some (t', l'))) : l' = lines ∨ l' = dl := by
  unfold refTrail at h
  crack h
  all_goals simp_all

theorem refParse_lines {cfg : Cfg} {str : List Char} {raw href : List Nat} {title : Option (List Nat)}
    {lines : Nat} (h : refParse cfg str = .ok (some (raw, href, title, lines))) : lines ≤ nl str := by
  unfold refParse at h
  crack h
  rename_i le l1 _ tail hlabel _ res hdest _ _ w2 hsl2 rt htitle _ _ _ _ htrail
  cases str with
  | nil => simp [labelScan] at hlabel
  | cons c0 t =>
    simp only [List.tail_cons] at hlabel
    obtain ⟨pre1, hstr1, hp1, hl1⟩ := labelScan_pref (c0 :: t) _ _ _ _ _ _ _ hlabel [c0] rfl
      (by simp [Link.byteLen]) (by omega)
    generalize hws1 : wsScan tail (le + 2) l1 = r1 at *
    obtain ⟨p2, l2⟩ := r1
    obtain ⟨hp2, hpref2⟩ := wsScan_pref (c0 :: t) _ _ _ _ _ hws1 (pre1 ++ [']', ':']) []
      (by simp [hstr1]) (by simp [Link.byteLen_append, Link.byteLen, clen_rb, clen_colon]; omega)
      (by simp; omega)
    simp only at hdest hsl2 htitle htrail
    have hdest := liftK_ok hdest
    obtain ⟨hge, _, hbd⟩ := Link.dest_pos_bounds _ _ _ _ hdest
    have hl0 := (Link.dest_spec _ _ _ _ hdest).1
    have hprefD : Pref (c0 :: t) res.pos (l2 + res.lines) := by
      rw [hl0]; exact hpref2.forward hge hbd
    obtain ⟨preD, postD, hstrD, hpD, hlenD⟩ := (Link.slice_ok_iff _ _ _ _).1 (liftK_ok hsl2)
    generalize hws2 : wsScan w2 res.pos (l2 + res.lines) = r2 at *
    obtain ⟨p3, l3⟩ := r2
    obtain ⟨_, hpref3⟩ := wsScan_pref (c0 :: t) _ _ _ _ _ hws2 preD postD hstrD hpD
      (hprefD.at (suf := w2 ++ postD) (by rw [hstrD]; simp) hpD)
    have hpref4 := refTitle_pref htitle hpref3 hprefD
    rcases refTrail_lines htrail with h | h
    · rw [h]; exact hpref4.le_total
    · rw [h]; exact hprefD.le_total

theorem nl_eq_zero {l : List Char} (h : '\n' ∉ l) : nl l = 0 := by
  simp [nl, List.count_eq_zero, h]

theorem nl_trimStr (x : List Char) : nl (trimStr x) ≤ nl x := by
  unfold trimStr nl
  rw [List.count_reverse]
  refine Nat.le_trans ((List.dropWhile_sublist _).count_le _) ?_
  rw [List.count_reverse]
  exact (List.dropWhile_sublist _).count_le _

theorem nl_joinLines_false : ∀ (ps : List (List Char)), (∀ p ∈ ps, '\n' ∉ p) →
    nl (Lines.joinLines false ps) = ps.length - 1
  | [], _ => by simp [Lines.joinLines]
  | [x], h => by simp [Lines.joinLines, nl_eq_zero (h x (by simp))]
  | x :: y :: r, h => by
    have ih := nl_joinLines_false (y :: r) (fun p hp => h p (List.mem_cons_of_mem _ hp))
    simp only [Lines.joinLines, nl_append, nl_cons, if_true, ih, nl_eq_zero (h x (by simp))]
    simp
    omega

theorem shows_of_lineOk {src : List Char} {o : LineOffset} (h : LineOk src o) :
    ∃ v : List Char × List Char × Int, Lines.Shows src o v ∧ '\n' ∉ v.1 ∧ '\n' ∉ v.2.1 := by
  obtain ⟨p, a, b, q, hsrc, hp, hfn, hle, ha, hb⟩ := h
  refine ⟨(a, b, o.indentNonspace), ⟨?_, ?_, rfl⟩, ha, hb⟩
  · exact Lines.slice_eq_ok_iff.mpr ⟨p, b ++ q, by rw [hsrc]; simp, hp, by simp only; omega⟩
  · exact Lines.slice_eq_ok_iff.mpr ⟨p ++ a, q, by rw [hsrc], by simp; omega, by simp only; omega⟩

theorem views_of_tableOk {src : List Char} {offs : List LineOffset}
    (hT : ∀ (k : Nat) (o : LineOffset), offs[k]? = some o → LineOk src o) :
    ∀ (n b : Nat), b + n ≤ offs.length →
      ∃ vs : List (List Char × List Char × Int), vs.length = n ∧
        (∀ j (h : j < vs.length), ∃ o, offs[b + j]? = some o ∧ Lines.Shows src o vs[j]) ∧
        ∀ v ∈ vs, '\n' ∉ v.1 ∧ '\n' ∉ v.2.1 := by
  intro n
  induction n with
  | zero => intro b _; exact ⟨[], rfl, fun j h => by simp at h, by simp⟩
  | succ n ih =>
    intro b hb
    have hk : b < offs.length := by omega
    obtain ⟨v, hv, hv1, hv2⟩ := shows_of_lineOk (hT b offs[b] (List.getElem?_eq_getElem hk))
    obtain ⟨vs, hvl, hvs, hnl⟩ := ih (b + 1) (by omega)
    refine ⟨v :: vs, by simp [hvl], ?_, ?_⟩
    · intro j hj
      cases j with
      | zero => exact ⟨offs[b], by simp, hv⟩
      | succ j =>
        obtain ⟨o, ho, hs⟩ := hvs j (by simp at hj; omega)
        exact ⟨o, by rw [← ho]; congr 1; omega, by simpa using hs⟩
    · intro w hw
      simp at hw
      rcases hw with rfl | hw
      · exact ⟨hv1, hv2⟩
      · exact hnl w hw

/-- on a table that satisfies the invariant, `get_lines(begin, end, _, false)` contains exactly
    `end - begin - 1` line feeds (the joining ones) -/
theorem getLines_nl {s : BState} (hT : TableOk s) {b e indent : Nat} {c : List Char} {m : List (Nat × Nat)}
    (h : s.getLines b e indent false = .ok (c, m)) : nl c = e - b - 1 := by
  have h' : Lines.getLines s.src s.offs b e indent false = .ok (c, m) := by
    unfold BState.getLines at h
    cases hx : Lines.getLines s.src s.offs b e indent false with
    | error er => rw [hx] at h; cases er <;> simp [liftL] at h
    | ok v => rw [hx] at h; simp [liftL] at h; rw [h]
  have hbe : b ≤ e := by
    unfold Lines.getLines at h'
    split at h'
    · cases h'
    · omega
  by_cases hlt : b < e
  · have hlen : e ≤ s.offs.length := by
      unfold Lines.getLines at h'
      rw [if_neg (by omega)] at h'
      exact Lines.getLinesGo_ok_len h' hlt
    obtain ⟨vs, hvl, hvs, hnl⟩ := views_of_tableOk hT (e - b) b (by omega)
    obtain ⟨m', hm'⟩ := Lines.get_lines_lf s.src s.offs b indent false vs hvs
    rw [hvl, show b + (e - b) = e by omega, h'] at hm'
    simp only [Except.ok.injEq, Prod.mk.injEq] at hm'
    rw [hm'.1, nl_joinLines_false]
    · simp [hvl]
    · intro p hp
      obtain ⟨v, hv, rfl⟩ := List.mem_map.mp hp
      intro hc
      rcases Lines.mem_viewPiece hc with h | h | h
      · cases h
      · exact (hnl v hv).1 h
      · exact (hnl v hv).2 h
  · have : b = e := by omega
    subst this
    unfold Lines.getLines at h'
    rw [if_neg (by omega), Lines.getLinesGo, if_neg (by omega)] at h'
    cases h'
    simp

theorem reference_advanced {cfg : Cfg} {test : Test} (ht : TestPure test) {fuel : Nat} {s s' : BState}
    (h : referenceRule cfg test fuel s false = .ok (true, s')) (hl : s.line < s.lineMax) :
    Advanced s s' := by
  obtain ⟨hfr, hlt⟩ := reference_frame_lt ht h
  refine ⟨hfr, hlt, fun hT => ?_⟩
  unfold referenceRule at h
  crack h
  have hscan := ‹lazyScan _ _ _ _ _ = _›
  have hgl := ‹BState.getLines _ _ _ _ _ = _›
  have hparse := ‹refParse _ _ = _›
  obtain ⟨h1, h2, h3, _⟩ := lazyScan_spec ht false _ _ _ _ hscan
  rw [h1] at hgl
  have hn := getLines_nl hT hgl
  have := refParse_lines hparse
  have := nl_trimStr ‹List Char × List (Nat × Nat)›.1
  have := h3 hl
  simp
  omega
/-! ## 7. the tokenizer -/

theorem skipEmpty_spec (offs : List LineOffset) (lineMax line : Nat) :
    line ≤ Lines.skipEmptyLines offs lineMax line ∧
    (line ≤ lineMax → Lines.skipEmptyLines offs lineMax line ≤ lineMax) ∧
    (Lines.isEmpty offs line = false → Lines.skipEmptyLines offs lineMax line = line) ∧
    (Lines.isEmpty offs line = true → line ≠ lineMax → line < Lines.skipEmptyLines offs lineMax line) := by
  fun_induction Lines.skipEmptyLines offs lineMax line with
  | case1 line h ih =>
    refine ⟨by omega, fun _ => ih.2.1 (by omega), fun hf => by simp [h.2] at hf, fun _ _ => by omega⟩
  | case2 line h =>
    refine ⟨Nat.le_refl _, fun h => h, fun _ => rfl, fun he hne => absurd ⟨hne, he⟩ h⟩

/-- what the tokenizer needs of the chain it runs -/
structure RunSpec (run : RuleId → BState → Bool → Res) : Prop where
  false_same : ∀ r s s', run r s false = .ok (false, s') → s' = s
  advanced : ∀ r s s', run r s false = .ok (true, s') → s.line < s.lineMax → IndentOk s → Advanced s s'

theorem runChain_real {run : RuleId → BState → Bool → Res} (hr : RunSpec run) :
    ∀ (chain : List RuleId) (s : BState) (b : Bool) (s' : BState),
      runChain run chain s false = .ok (b, s') →
      (b = false → s' = s) ∧ (b = true → s.line < s.lineMax → IndentOk s → Advanced s s') := by
  intro chain
  induction chain with
  | nil => intro s b s' h; simp [runChain] at h; simp [h.1, h.2]
  | cons r rs ih =>
    intro s b s' h
    simp only [runChain] at h
    split at h
    · cases h
    · rename_i s1 h1
      cases h
      exact ⟨by simp, fun _ => hr.advanced _ _ _ h1⟩
    · rename_i s1 h1
      have := hr.false_same _ _ _ h1
      subst this
      exact ih _ _ _ h

theorem afterChain_spec {ok : Bool} {s s' : BState} {prev : Nat} (h : afterChain ok s prev = .ok s') :
    Frame s s' ∧ (ok = true → s' = s ∧ prev < s.line) ∧ (ok = false → s'.line = s.line + 1) := by
  unfold afterChain at h
  crack h
  · exact ⟨Frame.refl _, fun _ => ⟨rfl, by assumption⟩, by simp_all⟩
  · exact ⟨⟨rfl, rfl, rfl, rfl, rfl, rfl, rfl⟩, by simp_all, fun _ => by simp [BState.push]⟩

/-- the conclusion of `tokLoop_spec` / `tokenize_progress` -/
structure TokPost (s s' : BState) : Prop where
  frame : Frame s s'
  mono : s.line ≤ s'.line
  upper : TableOk s → s.line ≤ s.lineMax → s'.line ≤ s.lineMax
  strict : s.line < s.lineMax → (s.isEmpty s.line = true ∨ IndentOk s) → s.line < s'.line

/-- one iteration of the tokenizer loop in which the chain runs -/
theorem tok_iter {run : RuleId → BState → Bool → Res} (hr : RunSpec run) {chain : List RuleId}
    {s1 : BState} {w : Bool × BState} {s3 : BState} {prev : Nat} (hp : prev = s1.line)
    (hlt : s1.line < s1.lineMax) (hi : IndentOk s1)
    (hc : runChain run chain s1 false = .ok w) (ha : afterChain w.1 w.2 prev = .ok s3) :
    Frame s1 s3 ∧ s1.line < s3.line ∧ (TableOk s1 → s3.line ≤ s1.lineMax) := by
  subst hp
  obtain ⟨b, s2⟩ := w
  obtain ⟨h1, h2⟩ := runChain_real hr _ _ _ _ hc
  obtain ⟨hf, h3, h4⟩ := afterChain_spec ha
  cases b with
  | true =>
    obtain ⟨rfl, _⟩ := h3 rfl
    have := h2 rfl hlt hi
    exact ⟨this.frame, this.lt, this.le⟩
  | false =>
    have := h1 rfl
    subst this
    have := h4 rfl
    exact ⟨hf, by simp at this; omega, fun _ => by simp at this; omega⟩

theorem frame_line_tight (s : BState) (l : Nat) (t : Bool) : Frame s { s with line := l, tight := t } :=
  ⟨rfl, rfl, rfl, rfl, rfl, rfl, rfl⟩

/-- gluing: skip blank lines, one iteration, the optional blank line behind it, the rest of the loop -/
theorem TokPost.glue {s s1 s3 s4 s' : BState} (h01 : Frame s s1) (hl1 : s.line ≤ s1.line)
    (h13 : Frame s1 s3) (hlt : s1.line < s3.line) (hle : TableOk s1 → s3.line ≤ s1.lineMax)
    (h34 : Frame s3 s4) (hl4 : s3.line ≤ s4.line) (hl4' : s3.line ≤ s3.lineMax → s4.line ≤ s3.lineMax)
    (ih : TokPost s4 s') : TokPost s s' := by
  have hf := (h01.trans h13).trans h34
  refine ⟨hf.trans ih.frame, ?_, ?_, ?_⟩
  · have := ih.mono; omega
  · intro hT _
    have h1 := hle (hT.of_frame h01)
    have h2 := hl4' (by rw [h13.lineMax]; exact h1)
    have := ih.upper (hT.of_frame hf) (by rw [h34.lineMax]; exact h2)
    rw [hf.lineMax] at this
    exact this
  · intro _ _
    have := ih.mono; omega

theorem tokLoop_spec {cfg : Cfg} {run : RuleId → BState → Bool → Res} (hr : RunSpec run) :
    ∀ (fuel : Nat) (he : Bool) (s s' : BState), tokLoop cfg run fuel he s = .ok s' → TokPost s s' := by
  intro fuel
  induction fuel with
  | zero => intro he s s' h; simp [tokLoop] at h
  | succ f ih =>
    intro he s s' h
    simp only [tokLoop] at h
    obtain ⟨hs1, hs2, hs3, hs4⟩ := skipEmpty_spec s.offs s.lineMax s.line
    generalize Lines.skipEmptyLines s.offs s.lineMax s.line = l' at h hs1 hs2 hs3 hs4
    have hempty : ∀ hlt : s.line < s.lineMax, (s.isEmpty s.line = true ∨ IndentOk s) →
        s.line < l' ∨ (l' = s.line ∧ IndentOk s) := by
      intro hlt hc
      by_cases he : Lines.isEmpty s.offs s.line = true
      · exact .inl (hs4 he (by omega))
      · simp only [Bool.not_eq_true] at he
        rcases hc with hc | hc
        · simp [BState.isEmpty, he] at hc
        · exact .inr ⟨hs3 he, hc⟩
    crack h
    · subst_vars
      exact ⟨Frame.refl _, Nat.le_refl _, fun _ h => h, fun h => absurd h ‹_›⟩
    · subst_vars
      exact ⟨frame_line_tight s l' s.tight, hs1, fun _ h => hs2 h, fun _ _ => by simp; omega⟩
    · subst_vars
      refine ⟨frame_line_tight s l' s.tight, hs1, fun _ h => hs2 h, fun hlt hc => ?_⟩
      rcases hempty hlt hc with h | ⟨h, i, hi, hi0⟩
      · exact h
      · subst h
        have e : BState.lineIndent { s with line := s.line } s.line = .ok i := hi
        rw [e] at *
        simp_all
        omega
    · subst_vars
      exact ⟨frame_line_tight s s.lineMax s.tight, by simp; omega, fun _ _ => by simp,
        fun _ _ => by simp; omega⟩
    · have hchain := ‹runChain _ _ _ _ = _›
      have hafter := ‹afterChain _ _ _ = _›
      have hind := ‹BState.lineIndent _ _ = _›
      have hcond : _ ∧ _ := ‹_›
      obtain ⟨h13, hlt3, hle3⟩ := tok_iter hr (s1 := { s with line := l' }) rfl (by simp; omega)
        ⟨_, hind, by omega⟩ hchain hafter
      exact TokPost.glue (frame_line_tight s l' s.tight) hs1 h13 hlt3 hle3
        (frame_line_tight _ _ (!he)) (by simp) (fun _ => by simp; omega) (ih _ _ _ h)
    · have hchain := ‹runChain _ _ _ _ = _›
      have hafter := ‹afterChain _ _ _ = _›
      have hind := ‹BState.lineIndent _ _ = _›
      obtain ⟨h13, hlt3, hle3⟩ := tok_iter hr (s1 := { s with line := l' }) rfl (by simp; omega)
        ⟨_, hind, by omega⟩ hchain hafter
      exact TokPost.glue (frame_line_tight s l' s.tight) hs1 h13 hlt3 hle3
        (frame_line_tight _ _ (!he)) (by simp) (fun h => by simpa using h) (ih _ _ _ h)

theorem runRule_spec {cfg : Cfg} {tok : Tok} {test : Test} (hk : TokSpec tok) (ht : TestPure test)
    (fuel : Nat) : RunSpec (runRule cfg tok test fuel) := by
  constructor
  · intro r s s' h
    cases r <;> simp only [runRule] at h
    · exact real_false_same_code h
    · exact real_false_same_fence h
    · exact real_false_same_blockquote h
    · exact real_false_same_hr h
    · exact real_false_same_list h
    · exact real_false_same_reference ht h
    · exact real_false_same_heading h
    · exact real_false_same_lheading ht h
    · exact absurd (real_true_paragraph h) (by simp)
  · intro r s s' h hl hi
    cases r <;> simp only [runRule] at h
    · exact (code_advanced h hl).weaken
    · exact (fence_advanced h hl).weaken
    · exact blockquote_advanced hk ht h hl hi
    · exact (hr_advanced h hl).weaken
    · exact list_advanced hk ht h hl
    · exact reference_advanced ht h hl
    · exact (heading_advanced h hl).weaken
    · exact (lheading_advanced ht h hl).weaken
    · exact (paragraph_advanced ht h hl).weaken

theorem TokSpec.of_post {tok : Tok} (h : ∀ s s', tok s = .ok s' → TokPost s s') : TokSpec tok :=
  ⟨fun s s' e => (h s s' e).frame, fun s s' e => (h s s' e).mono, fun s s' e => (h s s' e).upper,
   fun s s' e => (h s s' e).strict⟩

/-- **the tokenizer, for every fuel** -/
theorem tokenize_spec (cfg : Cfg) :
    ∀ (fuel : Nat) (s s' : BState), tokenize cfg fuel s = .ok s' → TokPost s s' := by
  intro fuel
  induction fuel with
  | zero => intro s s' h; simp [tokenize, engine] at h
  | succ f ih =>
    intro s s' h
    simp only [tokenize, engine] at h
    exact tokLoop_spec (runRule_spec (TokSpec.of_post ih) (testRules_pure cfg f) _) _ _ _ _ h

theorem tokenize_tokSpec (cfg : Cfg) (fuel : Nat) : TokSpec (tokenize cfg fuel) :=
  TokSpec.of_post (tokenize_spec cfg fuel)

/-- `tokenize_progress`: the tokenizer never moves `line` backwards, moves it strictly forward when it
    starts on a blank line or on a line at a non-negative indent, ends with `line ≤ line_max` (on a
    table that satisfies the invariant), and hands back the frame (`src`, the offset table, `line_max`,
    `blk_indent`, `list_indent`, `level`, the kind of the current node) as it found it. -/
theorem tokenize_progress {cfg : Cfg} {fuel : Nat} {s s' : BState} (h : tokenize cfg fuel s = .ok s') :
    s.line ≤ s'.line ∧ (TableOk s → s.line ≤ s.lineMax → s'.line ≤ s.lineMax) ∧
    (s.line < s.lineMax → (s.isEmpty s.line = true ∨ IndentOk s) → s.line < s'.line) ∧ Frame s s' :=
  have := tokenize_spec cfg fuel s s' h
  ⟨this.mono, this.upper, this.strict, this.frame⟩

/-- a rule exactly as the tokenizer at budget `fuel + 1` runs it (`ruleAt`): whenever it answers
    `true` at a line the tokenizer would try it on, `line` has moved strictly forward — the
    `assert!(state.line > prev_line)` of `BlockParser::tokenize` cannot fire — and not beyond
    `line_max`; when it answers `false` the state is untouched. -/
theorem ruleAt_progress {cfg : Cfg} {fuel : Nat} {r : RuleId} {s s' : BState}
    (h : ruleAt cfg fuel r s false = .ok (true, s')) (hl : s.line < s.lineMax) (hi : IndentOk s) :
    s.line < s'.line ∧ (TableOk s → s'.line ≤ s.lineMax) ∧ Frame s s' :=
  have := (runRule_spec (tokenize_tokSpec cfg fuel) (testRules_pure cfg fuel) (fuel + 1)).advanced r s s' h hl hi
  ⟨this.lt, this.le, this.frame⟩

theorem ruleAt_false_same {cfg : Cfg} {fuel : Nat} {r : RuleId} {s s' : BState}
    (h : ruleAt cfg fuel r s false = .ok (false, s')) : s' = s :=
  (runRule_spec (tokenize_tokSpec cfg fuel) (testRules_pure cfg fuel) (fuel + 1)).false_same r s s' h

/-! ### the nine `block_rule_progress_<rule>`

  `.ok (true, s')` in real mode at a line below `line_max` ⇒ `s.line < s'.line ∧ s'.line ≤ s.lineMax`.
  The container rules and the three paragraph-like rules are parameterised by the call-backs; their
  hypotheses are discharged by `tokenize_tokSpec` / `testRules_pure` (see `ruleAt_progress`).  The
  block-quote rule needs the indent of its first line to be non-negative (the tokenizer breaks
  before running any rule otherwise); the upper bound of the container rules and of the reference
  rule needs the table invariant `TableOk` (true of `BlockState::new`: `tableOk_fresh`, and kept by the
  containers' rewriting). -/

theorem block_rule_progress_hr {s s' : BState} (h : hrRule s false = .ok (true, s'))
    (hl : s.line < s.lineMax) : s.line < s'.line ∧ s'.line ≤ s.lineMax :=
  ⟨(hr_advanced h hl).lt, (hr_advanced h hl).le⟩

theorem block_rule_progress_heading {s s' : BState} (h : headingRule s false = .ok (true, s'))
    (hl : s.line < s.lineMax) : s.line < s'.line ∧ s'.line ≤ s.lineMax :=
  ⟨(heading_advanced h hl).lt, (heading_advanced h hl).le⟩

theorem block_rule_progress_code {s s' : BState} (h : codeRule s false = .ok (true, s'))
    (hl : s.line < s.lineMax) : s.line < s'.line ∧ s'.line ≤ s.lineMax :=
  ⟨(code_advanced h hl).lt, (code_advanced h hl).le⟩

theorem block_rule_progress_fence {s s' : BState} (h : fenceRule s false = .ok (true, s'))
    (hl : s.line < s.lineMax) : s.line < s'.line ∧ s'.line ≤ s.lineMax :=
  ⟨(fence_advanced h hl).lt, (fence_advanced h hl).le⟩

theorem block_rule_progress_paragraph {test : Test} (ht : TestPure test) {fuel : Nat} {s s' : BState}
    (h : paragraphRule test fuel s false = .ok (true, s')) (hl : s.line < s.lineMax) :
    s.line < s'.line ∧ s'.line ≤ s.lineMax :=
  ⟨(paragraph_advanced ht h hl).lt, (paragraph_advanced ht h hl).le⟩

theorem block_rule_progress_lheading {test : Test} (ht : TestPure test) {fuel : Nat} {s s' : BState}
    (h : lheadingRule test fuel s false = .ok (true, s')) (hl : s.line < s.lineMax) :
    s.line < s'.line ∧ s'.line ≤ s.lineMax :=
  ⟨(lheading_advanced ht h hl).lt, (lheading_advanced ht h hl).le⟩

theorem block_rule_progress_reference {cfg : Cfg} {test : Test} (ht : TestPure test) {fuel : Nat}
    {s s' : BState} (h : referenceRule cfg test fuel s false = .ok (true, s'))
    (hl : s.line < s.lineMax) (hT : TableOk s) : s.line < s'.line ∧ s'.line ≤ s.lineMax :=
  ⟨(reference_advanced ht h hl).lt, (reference_advanced ht h hl).le hT⟩

theorem block_rule_progress_blockquote {tok : Tok} {test : Test} (hk : TokSpec tok) (ht : TestPure test)
    {fuel : Nat} {s s' : BState} (h : blockquoteRule tok test fuel s false = .ok (true, s'))
    (hl : s.line < s.lineMax) (hi : IndentOk s) (hT : TableOk s) :
    s.line < s'.line ∧ s'.line ≤ s.lineMax :=
  ⟨(blockquote_advanced hk ht h hl hi).lt, (blockquote_advanced hk ht h hl hi).le hT⟩

theorem block_rule_progress_list {tok : Tok} {test : Test} (hk : TokSpec tok) (ht : TestPure test)
    {fuel : Nat} {s s' : BState} (h : listRule tok test fuel s false = .ok (true, s'))
    (hl : s.line < s.lineMax) (hT : TableOk s) : s.line < s'.line ∧ s'.line ≤ s.lineMax :=
  ⟨(list_advanced hk ht h hl).lt, (list_advanced hk ht h hl).le hT⟩


/-! ## 8. non-vacuity: the hypotheses of the theorems above hold on concrete runs -/

/-- a configuration for examples: the nine rules in stock order, no entities, identity case tables -/
def exCfg : Cfg :=
  { maxNesting := 100,
    chain := [.code, .fence, .blockquote, .hr, .list, .reference, .heading, .lheading, .paragraph],
    lookup := fun _ => none, L := fun c => [c], U := fun c => [c] }

/-- verdict and `line` of a result -/
def verdictLine : Res → Option (Bool × Nat)
  | .ok (b, s) => some (b, s.line)
  | .error _ => none

def lineOf : Except Panic BState → Option Nat
  | .ok s => some s.line
  | .error _ => none

section examples
/-- `"a\n***\n# h\n    c\n```\nf\n```\n> q\nlazy\n- i\n- j\n\n[r]: /u\nt\n===\np"` -/
def exDoc : List Char :=
  ['a', '\n', '*', '*', '*', '\n', '#', ' ', 'h', '\n', ' ', ' ', ' ', ' ', 'c', '\n',
   '`', '`', '`', '\n', 'f', '\n', '`', '`', '`', '\n', '>', ' ', 'q', '\n', 'l', 'a', 'z', 'y', '\n',
   '-', ' ', 'i', '\n', '-', ' ', 'j', '\n', '\n', '[', 'r', ']', ':', ' ', '/', 'u', '\n',
   't', '\n', '=', '=', '=', '\n', 'p']

def exAt (line : Nat) : BState := { BState.fresh exDoc .root [] with line := line }

-- each of the nine rules answers `true` in real mode somewhere in `exDoc` and moves `line` forward
-- (hypotheses of `block_rule_progress_*` / `ruleAt_progress`), …
example : verdictLine (ruleAt exCfg 20 .paragraph (exAt 0) false) = some (true, 1) := by decide +kernel
example : verdictLine (ruleAt exCfg 20 .hr (exAt 1) false) = some (true, 2) := by decide +kernel
example : verdictLine (ruleAt exCfg 20 .heading (exAt 2) false) = some (true, 3) := by decide +kernel
example : verdictLine (ruleAt exCfg 20 .code (exAt 3) false) = some (true, 4) := by decide +kernel
example : verdictLine (ruleAt exCfg 20 .fence (exAt 4) false) = some (true, 7) := by decide +kernel
example : verdictLine (ruleAt exCfg 20 .blockquote (exAt 7) false) = some (true, 9) := by decide +kernel
example : verdictLine (ruleAt exCfg 20 .list (exAt 9) false) = some (true, 12) := by decide +kernel
example : verdictLine (ruleAt exCfg 20 .reference (exAt 12) false) = some (true, 13) := by decide +kernel
example : verdictLine (ruleAt exCfg 20 .lheading (exAt 13) false) = some (true, 15) := by decide +kernel
-- … the five that have a silent mode answer `true` there too, without moving (`silent_pure_*`,
-- `silent_implies_real_*`), …
example : verdictLine (ruleAt exCfg 20 .hr (exAt 1) true) = some (true, 1) := by decide +kernel
example : verdictLine (ruleAt exCfg 20 .heading (exAt 2) true) = some (true, 2) := by decide +kernel
example : verdictLine (ruleAt exCfg 20 .fence (exAt 4) true) = some (true, 4) := by decide +kernel
example : verdictLine (ruleAt exCfg 20 .blockquote (exAt 7) true) = some (true, 7) := by decide +kernel
example : verdictLine (ruleAt exCfg 20 .list (exAt 9) true) = some (true, 9) := by decide +kernel
-- … a rule that answers `false` (`real_false_same_*`), the list rule's extra silent-mode condition
-- (`"2. x"` cannot interrupt a paragraph, but is a list in real mode), …
example : verdictLine (ruleAt exCfg 20 .hr (exAt 0) false) = some (false, 0) := by decide +kernel
example : verdictLine (listRule (tokenize exCfg 8) (testRules exCfg 8) 9
    (BState.fresh ['2', '.', ' ', 'x'] .root []) true) = some (false, 0) := by decide +kernel
example : verdictLine (listRule (tokenize exCfg 8) (testRules exCfg 8) 9
    (BState.fresh ['2', '.', ' ', 'x'] .root []) false) = some (true, 1) := by decide +kernel
-- … and the tokenizer runs to `line_max` (`tokenize_progress`, `tableOk_fresh`).
example : lineOf (tokenize exCfg 30 (BState.fresh exDoc .root [])) = some 16 := by decide +kernel
example : (BState.fresh exDoc .root []).lineMax = 16 := by decide +kernel
end examples

/-! ## 9. C11: fenced and indented code is copied verbatim -/

open MdIt.Lines (NoTerm lead)

/-- a document given by its lines: joined by LF, no final terminator -/
abbrev docOf (Ls : List (List Char)) : List Char := Lines.joinLines false Ls

theorem pieces_docOf : ∀ (Ls : List (List Char)), Ls ≠ [] → (∀ l ∈ Ls, NoTerm l) →
    Lines.pieces (docOf Ls) = Ls
  | [], h, _ => absurd rfl h
  | [x], _, hn => by
    have := Lines.pieces_noTerm_append x (hn x (by simp)) []
    simp only [List.append_nil] at this
    simp [docOf, Lines.joinLines, this, Lines.pieces_nil, Lines.consHead_foldr]
  | x :: y :: r, _, hn => by
    have ih := pieces_docOf (y :: r) (by simp) (fun l hl => hn l (List.mem_cons_of_mem _ hl))
    have := Lines.pieces_noTerm_append x (hn x (by simp)) ('\n' :: docOf (y :: r))
    simp only [docOf, Lines.joinLines] at this ih ⊢
    rw [this, Lines.pieces_lf, ih, Lines.consHead_foldr]
    simp

theorem dropFinalEmpty_of_last : ∀ (Ls : List (List Char)), Ls.getLast? ≠ some [] →
    Lines.dropFinalEmpty Ls = Ls
  | [], _ => rfl
  | [p], _ => rfl
  | p :: q :: r, h => by
    have ih := dropFinalEmpty_of_last (q :: r) (by simpa [List.getLast?_cons_cons] using h)
    simp only [Lines.dropFinalEmpty]
    split
    · rename_i hc
      obtain ⟨rfl, rfl⟩ := hc
      simp [List.getLast?_cons_cons] at h
    · rw [ih]

/-- the line table of a document whose last line is not empty: one entry per line, showing
    (leading blanks, rest, tab-expanded width of the blanks) -/
theorem docOf_shows (Ls : List (List Char)) (hne : Ls ≠ []) (hn : ∀ l ∈ Ls, NoTerm l)
    (hlast : Ls.getLast? ≠ some []) :
    (Lines.splitLines (docOf Ls)).length = Ls.length ∧
    ∀ j (h : j < Ls.length), ∃ o, (Lines.splitLines (docOf Ls))[j]? = some o ∧
      Lines.Shows (docOf Ls) o (lead Ls[j], Ls[j].dropWhile Lines.isBlank,
        (Lines.indentWidth (lead Ls[j]) : Int)) := by
  have hspec : Lines.specLines (docOf Ls) = Ls.map Lines.decompose := by
    unfold Lines.specLines
    rw [pieces_docOf Ls hne hn, dropFinalEmpty_of_last Ls hlast]
  have hvs : Lines.vsOf (docOf Ls) = Ls.map fun l => (lead l, l.dropWhile Lines.isBlank,
      (Lines.indentWidth (lead l) : Int)) := by
    unfold Lines.vsOf
    rw [hspec, List.map_map]
    rfl
  have hlen := Lines.vsOf_length (docOf Ls)
  rw [hvs] at hlen
  refine ⟨by simpa using hlen.symm, ?_⟩
  intro j hj
  obtain ⟨o, ho, hs⟩ := Lines.split_shows (docOf Ls) j (by rw [hvs]; simpa using hj)
  refine ⟨o, ho, ?_⟩
  simp only [hvs, List.getElem_map] at hs
  exact hs

/-- a state over the document `docOf Ls` with the table of `BlockState::new` and `blk_indent = 0` -/
structure OnDoc (Ls : List (List Char)) (s : BState) : Prop where
  src : s.src = docOf Ls
  offs : s.offs = Lines.splitLines (docOf Ls)
  blk : s.blkIndent = 0
  ne : Ls ≠ []
  noTerm : ∀ l ∈ Ls, NoTerm l
  last : Ls.getLast? ≠ some []

theorem OnDoc.fresh {Ls : List (List Char)} (hne : Ls ≠ []) (hn : ∀ l ∈ Ls, NoTerm l)
    (hlast : Ls.getLast? ≠ some []) (k : Kind) (refs : Refs.RefMap) :
    OnDoc Ls (BState.fresh (docOf Ls) k refs) := ⟨rfl, rfl, rfl, hne, hn, hlast⟩

theorem OnDoc.entry {Ls : List (List Char)} {s : BState} (h : OnDoc Ls s) {j : Nat} (hj : j < Ls.length) :
    ∃ o, s.offs[j]? = some o ∧ Lines.Shows s.src o (lead Ls[j], Ls[j].dropWhile Lines.isBlank,
      (Lines.indentWidth (lead Ls[j]) : Int)) := by
  rw [h.src, h.offs]
  exact (docOf_shows Ls h.ne h.noTerm h.last).2 j hj

theorem OnDoc.lineIndent {Ls : List (List Char)} {s : BState} (h : OnDoc Ls s) {j : Nat} (hj : j < Ls.length) :
    s.lineIndent j = .ok (Lines.indentWidth (lead Ls[j]) : Int) := by
  obtain ⟨o, ho, _, _, hi⟩ := h.entry hj
  simp [BState.lineIndent, Lines.lineIndent, ho, liftL, h.blk, hi]

theorem OnDoc.getLine {Ls : List (List Char)} {s : BState} (h : OnDoc Ls s) {j : Nat} (hj : j < Ls.length) :
    s.getLine j = .ok (Ls[j].dropWhile Lines.isBlank) := by
  obtain ⟨o, ho, _, ht, _⟩ := h.entry hj
  unfold Lines.lineText at ht
  simp [BState.getLine, Lines.getLine, ho, liftL, ht]

theorem OnDoc.isEmpty {Ls : List (List Char)} {s : BState} (h : OnDoc Ls s) {j : Nat} (hj : j < Ls.length) :
    s.isEmpty j = decide (Ls[j].dropWhile Lines.isBlank = []) := by
  obtain ⟨o, ho, _, ht, _⟩ := h.entry hj
  have := Lines.is_empty_of_view ht
  simp only [BState.isEmpty, Lines.isEmpty, ho]
  by_cases he : Ls[j].dropWhile Lines.isBlank = []
  · simp [he, this.mpr he]
  · simp only [he, decide_false, decide_eq_false_iff_not]
    exact fun hc => he (this.mp hc)

theorem OnDoc.length {Ls : List (List Char)} {s : BState} (h : OnDoc Ls s) : s.offs.length = Ls.length := by
  rw [h.offs]; exact (docOf_shows Ls h.ne h.noTerm h.last).1

/-- `get_lines` on such a state: per line the piece computed from its view, joined by LF -/
theorem OnDoc.getLines {Ls : List (List Char)} {s : BState} (h : OnDoc Ls s) (b e indent : Nat) (keep : Bool)
    (hbe : b ≤ e) (he : e ≤ Ls.length) :
    ∃ m, s.getLines b e indent keep = .ok (Lines.joinLines keep
      (((Ls.drop b).take (e - b)).map fun l => Lines.viewPiece indent
        (lead l, l.dropWhile Lines.isBlank, (Lines.indentWidth (lead l) : Int))), m) := by
  let vs := ((Ls.drop b).take (e - b)).map fun l =>
    ((lead l, l.dropWhile Lines.isBlank, (Lines.indentWidth (lead l) : Int)) : List Char × List Char × Int)
  have hvl : vs.length = e - b := by simp [vs]; omega
  obtain ⟨m, hm⟩ := Lines.get_lines_lf s.src s.offs b indent keep vs (by
    intro j hj
    rw [hvl] at hj
    obtain ⟨o, ho, hs⟩ := h.entry (j := b + j) (by omega)
    refine ⟨o, ho, ?_⟩
    simpa [vs, List.getElem_take, List.getElem_drop] using hs)
  rw [hvl, show b + (e - b) = e by omega] at hm
  refine ⟨m, ?_⟩
  simp only [BState.getLines, hm, liftL, vs, List.map_map]
  rfl

/-- asking for no de-indentation (`indent = 0`) copies a line whole: blanks (tabs included) and text -/
theorem viewPiece_zero (l : List Char) :
    Lines.viewPiece 0 (lead l, l.dropWhile Lines.isBlank, (Lines.indentWidth (lead l) : Int)) = l := by
  have h := Lines.cut_full_indent (lead l)
  have e : Lines.usizeAsI32 0 = 0 := by decide
  simp only [Lines.viewPiece, e, Int.sub_zero, h, List.replicate_zero, List.nil_append]
  simp [Lines.dropB_of_dropBytes (Lines.dropBytes_zero _), Lines.lead_append_rest]

/-- the fence line `mⁿ` -/
abbrev fenceLine (m : Char) (n : Nat) : List Char := List.replicate n m

/-- `l` would close a fence opened by `mⁿ`: after at most three columns of blanks, at least `n`
    markers, then blanks only -/
def closes (m : Char) (n : Nat) (l : List Char) : Bool :=
  match l.dropWhile Lines.isBlank with
  | [] => false
  | c :: rest =>
    decide (c = m) && decide (Lines.indentWidth (lead l) < 4) && decide (n ≤ 1 + countRun m rest) &&
      (rest.drop (countRun m rest)).all isBlank

theorem countRun_replicate (m : Char) (k : Nat) : countRun m (List.replicate k m) = k := by
  induction k with
  | zero => rfl
  | succ k ih => simp [List.replicate_succ, countRun, ih]; omega

theorem joinLines_true (ps : List (List Char)) :
    Lines.joinLines true ps = ps.flatMap (· ++ ['\n']) := by
  induction ps with
  | nil => rfl
  | cons x r ih =>
    cases r with
    | nil => simp [Lines.joinLines]
    | cons y r' => simp only [Lines.joinLines, List.flatMap_cons] at ih ⊢; rw [ih]; simp

theorem slice_end (l : List Char) : Lines.slice l (Lines.byteLen l) (Lines.byteLen l) = .ok [] :=
  Lines.slice_eq_ok_iff.mpr ⟨l, [], by simp, rfl, by simp⟩

theorem lead_nonblank_cons {c : Char} (l : List Char) (hc : Lines.isBlank c = false) :
    lead (c :: l) = [] ∧ (c :: l).dropWhile Lines.isBlank = c :: l := by
  simp [lead, List.takeWhile, List.dropWhile, hc]

section fence
variable {m : Char} {n : Nat} {T : List (List Char)} {s : BState}

theorem fenceScan_verbatim (hm : m = '`' ∨ m = '~') (hn : 3 ≤ n)
    (hs : OnDoc (fenceLine m n :: T ++ [fenceLine m n]) s) (hmax : s.lineMax = T.length + 2)
    (hclose : ∀ l ∈ T, closes m n l = false) :
    ∀ (d j : Nat), j + d = T.length → fenceScan s m n j = .ok (T.length + 1, true) := by
  have hmb : Lines.isBlank m = false := by rcases hm with rfl | rfl <;> decide
  intro d
  induction d with
  | zero =>
    intro j hj
    have hj' : j + 1 < (fenceLine m n :: T ++ [fenceLine m n]).length := by simp; omega
    have hL : (fenceLine m n :: T ++ [fenceLine m n])[j + 1] = fenceLine m n := by
      simp [show j = T.length by omega]
    obtain ⟨k, rfl⟩ : ∃ k, n = k + 1 := ⟨n - 1, by omega⟩
    have h1 := hs.getLine hj'
    have h2 := hs.lineIndent hj'
    rw [hL] at h1 h2
    simp only [fenceLine, List.replicate_succ] at h1 h2
    rw [(lead_nonblank_cons _ hmb).2] at h1
    rw [(lead_nonblank_cons _ hmb).1] at h2
    rw [fenceScan]
    simp only [hmax, h1, h2]
    rw [if_neg (by omega)]
    simp [countRun_replicate, Lines.indentWidth, Lines.widthFrom]
    rw [if_neg (by omega)]
    simp; omega
  | succ d ih =>
    intro j hj
    have hj' : j + 1 < (fenceLine m n :: T ++ [fenceLine m n]).length := by simp; omega
    have hjT : j < T.length := by omega
    have hL : (fenceLine m n :: T ++ [fenceLine m n])[j + 1] = T[j] := by
      simp [List.getElem_append_left hjT]
    have h1 := hs.getLine hj'
    have h2 := hs.lineIndent hj'
    rw [hL] at h1 h2
    have hc := hclose T[j] (List.getElem_mem hjT)
    rw [fenceScan]
    simp only [hmax, h1, h2]
    rw [if_neg (by omega)]
    have hrec := ih (j + 1) (by omega)
    unfold closes at hc
    cases hd : T[j].dropWhile Lines.isBlank with
    | nil => simp [hrec]
    | cons c rest =>
      rw [hd] at hc
      simp only [Bool.and_eq_false_iff, decide_eq_false_iff_not] at hc
      have hnn : ¬ ((Lines.indentWidth (lead T[j]) : Int) < 0) := by omega
      simp only [hnn, and_false, if_false, hrec]
      by_cases hcm : c = m
      · subst hcm
        simp only [ne_eq, not_true_eq_false, if_false]
        split
        · rfl
        · split
          · rfl
          · rename_i h4 hlen
            rcases hc with ((hc | hc) | hc) | hc
            · exact absurd rfl hc
            · exact absurd (by omega) hc
            · exact absurd (by omega) hc
            · simp [hc]
      · simp [hcm]
end fence

theorem getLast?_snoc {α : Type} (l : List α) (a : α) : (l ++ [a]).getLast? = some a := by
  induction l with
  | nil => rfl
  | cons x r ih =>
    cases r with
    | nil => rfl
    | cons y r' => simp only [List.cons_append, List.getLast?_cons_cons] at ih ⊢; exact ih

theorem noTerm_fenceLine {m : Char} (hm : m = '`' ∨ m = '~') (n : Nat) : NoTerm (fenceLine m n) := by
  intro c hc
  have := (List.mem_replicate.mp hc).2
  subst this
  rcases hm with rfl | rfl <;> decide

theorem byteLen_fenceLine {m : Char} (hm : m = '`' ∨ m = '~') (n : Nat) : Lines.byteLen (fenceLine m n) = n := by
  have h1 : m.utf8Size = 1 := by rcases hm with rfl | rfl <;> decide
  induction n with
  | zero => rfl
  | succ k ih => simp only [fenceLine, List.replicate_succ, Lines.byteLen_cons, h1] at ih ⊢; omega

/-- **`fence_verbatim`.**  `T` is any list of terminator-free lines none of which would close the
    fence (`closes m n l = false`: no line of `T` consists of at most three columns of blanks, `n` or
    more markers and then blanks only).  On the document `mⁿ`, `T`, `mⁿ` (one per line) the fence
    rule answers `true`, consumes every line, and the content of the node is `T` — every line whole,
    leading blanks and tabs included, each followed by one LF (`""` for empty `T`); the info string
    is empty. -/
theorem fence_verbatim (m : Char) (hm : m = '`' ∨ m = '~') (n : Nat) (hn : 3 ≤ n) (T : List (List Char))
    (hT : ∀ l ∈ T, NoTerm l) (hclose : ∀ l ∈ T, closes m n l = false) (k : Kind) (refs : Refs.RefMap) :
    ∃ s' r, fenceRule (BState.fresh (docOf (fenceLine m n :: T ++ [fenceLine m n])) k refs) false
        = .ok (true, s') ∧ s'.line = T.length + 2 ∧ s'.line = s'.lineMax ∧
      s'.children = [⟨.codeFence [] m n (T.flatMap (· ++ ['\n'])), some r, []⟩] := by
  have hmb : Lines.isBlank m = false := by rcases hm with rfl | rfl <;> decide
  obtain ⟨Ls, hLs⟩ : ∃ Ls, Ls = fenceLine m n :: T ++ [fenceLine m n] := ⟨_, rfl⟩
  rw [← hLs]
  have hne : Ls ≠ [] := by simp [hLs]
  have hnt : ∀ l ∈ Ls, NoTerm l := by
    intro l hl
    simp only [hLs, List.cons_append, List.mem_cons, List.mem_append, List.mem_nil_iff, or_false] at hl
    rcases hl with rfl | hl | rfl
    · exact noTerm_fenceLine hm n
    · exact hT l hl
    · exact noTerm_fenceLine hm n
  have hlast : Ls.getLast? ≠ some [] := by
    have : Ls.getLast? = some (fenceLine m n) := by
      rw [hLs, show fenceLine m n :: T ++ [fenceLine m n] = (fenceLine m n :: T) ++ [fenceLine m n] by simp]
      exact getLast?_snoc _ _
    rw [this]
    intro hc
    have := congrArg List.length (Option.some.inj hc)
    simp at this; omega
  obtain ⟨s, hs⟩ : ∃ s, s = BState.fresh (docOf Ls) k refs := ⟨_, rfl⟩
  rw [← hs]
  have hon : OnDoc Ls s := by rw [hs]; exact OnDoc.fresh hne hnt hlast k refs
  have hlen : Ls.length = T.length + 2 := by simp [hLs]
  have hmax : s.lineMax = T.length + 2 := by
    have := hon.length
    simp only [hs, BState.fresh] at this ⊢
    omega
  have h0 : 0 < Ls.length := by omega
  have hL0 : Ls[0] = fenceLine m n := by simp [hLs]
  obtain ⟨j, rfl⟩ : ∃ j, n = j + 1 := ⟨n - 1, by omega⟩
  have hgl := hon.getLine h0
  have hli := hon.lineIndent h0
  rw [hL0] at hgl hli
  simp only [fenceLine, List.replicate_succ] at hgl hli
  rw [(lead_nonblank_cons _ hmb).2] at hgl
  rw [(lead_nonblank_cons _ hmb).1] at hli
  have hscan := fenceScan_verbatim hm hn (hLs ▸ hon) hmax hclose T.length 0 (by omega)
  obtain ⟨o0, ho0, _, _, hi0⟩ := hon.entry h0
  rw [hL0] at hi0
  simp only [fenceLine, List.replicate_succ, (lead_nonblank_cons _ hmb).1] at hi0
  have hoff : s.off 0 = .ok o0 := by simp [BState.off, ho0]
  obtain ⟨mp, hget⟩ := hon.getLines 1 (T.length + 1) 0 true (by omega) (by omega)
  have hpieces : ((Ls.drop 1).take (T.length + 1 - 1)) = T := by simp [hLs]
  rw [hpieces] at hget
  simp only [viewPiece_zero, List.map_id', joinLines_true] at hget
  have hlast' : T.length + 1 < Ls.length := by omega
  obtain ⟨oe, hoe, _⟩ := hon.entry hlast'
  have hmap : s.getMap 0 (T.length + 1) = .ok (o0.firstNonspace, oe.lineEnd) := by
    simp [BState.getMap, Lines.getMap, ho0, hoe, liftL]
  have hbl : Lines.byteLen (m :: List.replicate j m) = j + 1 := by
    have := byteLen_fenceLine hm (j + 1)
    simpa [fenceLine, List.replicate_succ] using this
  have hsl : liftL (Lines.slice (m :: List.replicate j m) (1 + countRun m (List.replicate j m))
      (Lines.byteLen (m :: List.replicate j m))) = .ok [] := by
    rw [countRun_replicate, hbl, show 1 + j = j + 1 by omega]
    have := slice_end (m :: List.replicate j m)
    rw [hbl] at this
    simp [this, liftL]
  have hs0 : s.line = 0 := by rw [hs]; rfl
  have hrule : fenceRule s false = .ok (true,
      { s.push ⟨.codeFence [] m (j + 1) (T.flatMap (· ++ ['\n'])), some (o0.firstNonspace, oe.lineEnd), []⟩
        with line := T.length + 1 + 1 }) := by
    unfold fenceRule
    simp only [hs0, hli, hgl, ok_bind]
    rw [if_neg (by simp [Lines.indentWidth, Lines.widthFrom])]
    have hcr : 1 + countRun m (List.replicate j m) = j + 1 := by rw [countRun_replicate]; omega
    rw [hcr] at hsl ⊢
    rw [if_neg (by rcases hm with rfl | rfl <;> simp)]
    rw [if_neg (by omega)]
    simp only [hsl, ok_bind]
    rw [if_neg (by simp)]
    simp only [Bool.false_eq_true, if_false, hscan, ok_bind, hoff, hi0, i32AsUsize, Lines.indentWidth,
      Lines.widthFrom, List.foldl_nil, show ((0 : Nat) : Int) ≥ 0 by omega, if_true, Int.toNat_natCast,
      hget, psub, Nat.zero_le, Nat.sub_zero, hmap]
    rfl
  refine ⟨_, (o0.firstNonspace, oe.lineEnd), hrule, rfl, ?_, ?_⟩
  · simp [BState.push, hmax]
  · simp [BState.push, hs, BState.fresh]


/-! ### indented code -/

/-- four spaces -/
abbrev four : List Char := [' ', ' ', ' ', ' ']

theorem lead_four (l : List Char) : lead (four ++ l) = four ++ lead l := by
  simp [lead, four, List.takeWhile, show Lines.isBlank ' ' = true by decide]

theorem dropWhile_four (l : List Char) : (four ++ l).dropWhile Lines.isBlank = l.dropWhile Lines.isBlank := by
  simp [four, List.dropWhile, show Lines.isBlank ' ' = true by decide]

/-- asking to strip four columns from a line that starts with four spaces returns the rest of the
    line whole (tabs in it are on tab stops: none is split) -/
theorem viewPiece_four (l : List Char) :
    Lines.viewPiece 4 (lead (four ++ l), (four ++ l).dropWhile Lines.isBlank,
      (Lines.indentWidth (lead (four ++ l)) : Int)) = l := by
  rw [lead_four, dropWhile_four]
  have h := Lines.cut_four (lead l)
  have e : Lines.usizeAsI32 4 = 4 := by decide
  simp only [Lines.viewPiece, e]
  rw [show four ++ lead l = [' ', ' ', ' ', ' '] ++ lead l from rfl, h]
  have hd : Lines.dropBytes ([' ', ' ', ' ', ' '] ++ lead l) 4 = some (lead l) := by
    have := Lines.dropBytes_append [' ', ' ', ' ', ' '] (lead l)
    rwa [show Lines.byteLen [' ', ' ', ' ', ' '] = 4 by decide] at this
  have hd' := Lines.dropB_of_dropBytes hd
  simp only [List.cons_append, List.nil_append] at hd' ⊢
  simp [hd', Lines.lead_append_rest]

section code
variable {T : List (List Char)} {s : BState}

theorem codeScan_verbatim (hs : OnDoc (T.map (four ++ ·)) s) (hmax : s.lineMax = T.length)
    (hlastT : ∀ h : 0 < T.length, (T[T.length - 1]'(by omega)).dropWhile Lines.isBlank ≠ []) :
    ∀ (d j last : Nat), j + d = T.length → (d = 0 → last = T.length) →
      codeScan s j last = .ok T.length := by
  intro d
  induction d with
  | zero =>
    intro j last hj hl
    rw [codeScan, if_neg (by omega), hl rfl]
  | succ d ih =>
    intro j last hj hl
    have hjT : j < T.length := by omega
    have hj' : j < (T.map (four ++ ·)).length := by simpa using hjT
    have hL : (T.map (four ++ ·))[j] = four ++ T[j] := by simp
    have he := hs.isEmpty hj'
    have hi := hs.lineIndent hj'
    rw [hL, dropWhile_four] at he
    rw [hL, lead_four] at hi
    rw [codeScan, if_pos (by omega)]
    by_cases hb : T[j].dropWhile Lines.isBlank = []
    · rw [he]
      simp only [hb, decide_true, if_true]
      refine ih (j + 1) last (by omega) ?_
      intro hd
      exfalso
      have : j = T.length - 1 := by omega
      subst this
      exact hlastT (by omega) hb
    · rw [he]
      simp only [hb, decide_false, Bool.false_eq_true, if_false, hi]
      have hge : 4 ≤ Lines.indentWidth (four ++ lead T[j]) := by
        rw [Lines.indentWidth_append]
        exact Lines.widthFrom_ge _ _
      rw [if_pos (by omega)]
      exact ih (j + 1) (j + 1) (by omega) (fun _ => by omega)
end code

/-- **`indented_verbatim`.**  `T` is a non-empty list of terminator-free lines whose last line is
    not blank (nor is the first, when the tokenizer runs the rule: it skips blank lines first; the rule
    itself does not need that).  On the document made of the lines of `T`, each behind four spaces, the
    indented-code rule (at the start of the document) answers `true`, consumes every line, and the
    content of the node is `T` joined by LF plus one final LF — interior blank lines, tabs and further
    indentation included. -/
theorem indented_verbatim (T : List (List Char)) (hne : T ≠ []) (hT : ∀ l ∈ T, NoTerm l)
    (hlastT : ∀ h : 0 < T.length, (T[T.length - 1]'(by omega)).dropWhile Lines.isBlank ≠ [])
    (k : Kind) (refs : Refs.RefMap) :
    ∃ s' r, codeRule (BState.fresh (docOf (T.map (four ++ ·))) k refs) false = .ok (true, s') ∧
      s'.line = T.length ∧ s'.line = s'.lineMax ∧
      s'.children = [⟨.codeBlock (docOf T ++ ['\n']), some r, []⟩] := by
  have hpos : 0 < T.length := List.length_pos_iff.mpr hne
  obtain ⟨Ls, hLs⟩ : ∃ Ls, Ls = T.map (four ++ ·) := ⟨_, rfl⟩
  rw [← hLs]
  have hLne : Ls ≠ [] := by simp [hLs, hne]
  have hnt : ∀ l ∈ Ls, NoTerm l := by
    intro l hl
    rw [hLs] at hl
    obtain ⟨t, ht, rfl⟩ := List.mem_map.mp hl
    intro c hc
    rcases List.mem_append.mp hc with h | h
    · simp [four] at h; subst h; decide
    · exact hT t ht c h
  have hlast : Ls.getLast? ≠ some [] := by
    intro hc
    have hm := List.mem_of_getLast? hc
    rw [hLs] at hm
    obtain ⟨t, _, ht⟩ := List.mem_map.mp hm
    simp [four] at ht
  obtain ⟨s, hs⟩ : ∃ s, s = BState.fresh (docOf Ls) k refs := ⟨_, rfl⟩
  rw [← hs]
  have hon : OnDoc Ls s := by rw [hs]; exact OnDoc.fresh hLne hnt hlast k refs
  have hlen : Ls.length = T.length := by simp [hLs]
  have holen := hon.length
  have hmax : s.lineMax = T.length := by
    simp only [hs, BState.fresh] at holen ⊢
    omega
  have h0 : 0 < Ls.length := by omega
  have hL0 : Ls[0] = four ++ T[0] := by simp [hLs]
  have hli := hon.lineIndent h0
  rw [hL0, lead_four] at hli
  have hge : 4 ≤ Lines.indentWidth (four ++ lead T[0]) := by
    rw [Lines.indentWidth_append]; exact Lines.widthFrom_ge _ _
  have hscan := codeScan_verbatim (hLs ▸ hon) hmax hlastT (T.length - 1) 1 1 (by omega) (by omega)
  -- the lines read, with their entries
  obtain ⟨ovs, hovs⟩ : ∃ ovs, ovs = s.offs.zip (Ls.map fun l =>
    ((lead l, l.dropWhile Lines.isBlank, (Lines.indentWidth (lead l) : Int)) : List Char × List Char × Int)) := ⟨_, rfl⟩
  have hol : ovs.length = T.length := by simp [hovs, holen, hlen]
  have hov : ∀ j (h : j < ovs.length), s.offs[0 + j]? = some ovs[j].1 ∧ Lines.Shows s.src ovs[j].1 ovs[j].2 := by
    intro j hj
    have hjL : j < Ls.length := by omega
    obtain ⟨o, ho, hsh⟩ := hon.entry hjL
    have hjo : j < s.offs.length := by omega
    have e1 : ovs[j] = (s.offs[j], (lead Ls[j], Ls[j].dropWhile Lines.isBlank,
        (Lines.indentWidth (lead Ls[j]) : Int))) := by
      simp [hovs, List.getElem_zip]
    have e2 : s.offs[j] = o := by
      have := List.getElem?_eq_getElem hjo
      rw [ho] at this
      exact (Option.some.inj this).symm
    rw [e1, e2]
    exact ⟨by simpa using ho, hsh⟩
  obtain ⟨content, hgl, hcontent, _⟩ := Lines.get_lines_faithful s.src s.offs 0 4 false ovs hov
  rw [Nat.zero_add, hol] at hgl
  -- content
  have hc : content = docOf T := by
    rw [hcontent]
    have : (ovs.map fun ov => Lines.viewPiece 4 ov.2) = T := by
      apply List.ext_getElem (by simp [hol])
      intro j h1 h2
      have hjL : j < Ls.length := by omega
      have hjo : j < s.offs.length := by omega
      simp only [List.getElem_map, hovs, List.getElem_zip]
      rw [show Ls[j] = four ++ T[j] by simp [hLs]]
      exact viewPiece_four T[j]
    rw [this]
  -- the first mapping entry, the last line
  obtain ⟨ov0, ovr, hcons⟩ : ∃ a r, ovs = a :: r := by
    cases ovs with
    | nil => simp at hol; omega
    | cons a r => exact ⟨a, r, rfl⟩
  have hov0 := hov 0 (by omega)
  simp only [hcons, List.getElem_cons_zero, Nat.add_zero] at hov0
  have hv0 : ov0.2 = (four ++ lead T[0], T[0].dropWhile Lines.isBlank,
      (Lines.indentWidth (four ++ lead T[0]) : Int)) := by
    have : ovs[0]'(by omega) = ov0 := by simp [hcons]
    rw [← this]
    have hjo : 0 < s.offs.length := by omega
    simp only [hovs, List.getElem_zip, List.getElem_map]
    rw [hL0, lead_four, dropWhile_four]
  have hvalid := Lines.split_offsets_valid (docOf Ls)
  have hst0 : ov0.1.lineStart = 0 := by
    apply hvalid.first
    have := hov0.1
    rw [hon.offs] at this
    exact this
  have hlastj : T.length - 1 < Ls.length := by omega
  obtain ⟨oe, hoe, hwe, _, _⟩ := hon.entry hlastj
  have hoeoff : s.off (T.length - 1) = .ok oe := by simp [BState.off, hoe]
  have hoe4 : 4 ≤ oe.lineEnd := by
    have hord := hvalid.ordered oe (by rw [← hon.offs]; exact List.mem_of_getElem? hoe)
    obtain ⟨p, q, _, hp, hq⟩ := Lines.slice_eq_ok_iff.mp (by unfold Lines.lineWs at hwe; exact hwe)
    rw [show Ls[T.length - 1] = four ++ T[T.length - 1] by simp [hLs], lead_four] at hq
    simp [four, show ' '.utf8Size = 1 by decide] at hq
    omega
  have hmap0 : Lines.mapOf 4 0 ovs = (0, 4) :: (Lines.mapOf 4 0 ovs).tail := by
    rw [hcons]
    simp only [Lines.mapOf, hv0]
    have hcf := Lines.cut_four (lead T[0])
    have e : Lines.usizeAsI32 4 = 4 := by decide
    rw [show four ++ lead T[0] = [' ', ' ', ' ', ' '] ++ lead T[0] from rfl, e, hcf, hst0]
    simp
  have hrule : codeRule s false = .ok (true,
      ({ s with line := T.length }).push ⟨.codeBlock (docOf T ++ ['\n']), some (4, oe.lineEnd), []⟩) := by
    unfold codeRule
    have hs0 : s.line = 0 := by rw [hs]; rfl
    have hblk : s.blkIndent = 0 := hon.blk
    simp only [Bool.false_eq_true, if_false, hs0, hli, ok_bind]
    rw [if_neg (by omega)]
    simp only [Nat.zero_add, hscan, ok_bind, show 4 + s.blkIndent = 4 by omega]
    have hgl' : BState.getLines { s with line := T.length } 0 T.length 4 false
        = .ok (content, Lines.mapOf 4 0 ovs) := by
      simp [BState.getLines, hgl, liftL]
    rw [hgl']
    simp only [ok_bind]
    rw [hmap0]
    simp only [psub, show 1 ≤ T.length by omega, if_true, ok_bind]
    have hoff' : BState.off { s with line := T.length } (T.length - 1) = .ok oe := hoeoff
    rw [hoff']
    simp only [ok_bind]
    rw [if_neg (by omega), hc]
    rfl
  refine ⟨_, (4, oe.lineEnd), hrule, rfl, ?_, ?_⟩
  · simp [BState.push, hmax]
  · simp [BState.push, hs, BState.fresh]

instance (l : List Char) : Decidable (NoTerm l) := by unfold NoTerm; infer_instance

/-- three backticks; two spaces + `a`, two backticks (too short to close), tab + `b`; three backticks -/
example : ∃ s' r, fenceRule (BState.fresh (docOf (fenceLine '`' 3 ::
      [[' ', ' ', 'a'], ['`', '`'], ['\t', 'b']] ++ [fenceLine '`' 3])) .root []) false = .ok (true, s') ∧
    s'.line = 5 ∧ s'.line = s'.lineMax ∧
    s'.children = [⟨.codeFence [] '`' 3 [' ', ' ', 'a', '\n', '`', '`', '\n', '\t', 'b', '\n'], some r, []⟩] :=
  fence_verbatim '`' (.inl rfl) 3 (by omega) _ (by decide) (by decide) .root []
/-- the precondition is needed: a line of three markers closes the fence -/
example : closes '`' 3 [' ', '`', '`', '`', ' '] = true := by decide
/-- `a`, an empty line, tab + `b`, each behind four spaces -/
example : ∃ s' r, codeRule (BState.fresh (docOf ([['a'], [], ['\t', 'b']].map (four ++ ·))) .root []) false
      = .ok (true, s') ∧ s'.line = 3 ∧ s'.line = s'.lineMax ∧
    s'.children = [⟨.codeBlock (['a', '\n', '\n', '\t', 'b'] ++ ['\n']), some r, []⟩] :=
  indented_verbatim [['a'], [], ['\t', 'b']] (by decide) (by decide) (by decide) .root []

/-! ## 10. `list_shape`: list items are exactly the children of lists -/

/-- the local condition on a node of kind `k` with children `cs`: a list has only list items as
    children, and a list item has a list as parent -/
def ShapeAt (k : Kind) (cs : List BNode) : Prop :=
  (isListKind k = true → ∀ c ∈ cs, c.kind = .listItem) ∧
  (∀ c ∈ cs, c.kind = .listItem → isListKind k = true)

/-- the condition holds at every node of the tree -/
inductive Shaped : BNode → Prop
  | mk (n : BNode) : ShapeAt n.kind n.children → (∀ c ∈ n.children, Shaped c) → Shaped n

theorem Shaped.at {n : BNode} (h : Shaped n) : ShapeAt n.kind n.children := by cases h; assumption
theorem Shaped.child {n : BNode} (h : Shaped n) : ∀ c ∈ n.children, Shaped c := by cases h; assumption

/-- a node that may be pushed into a non-list node: well shaped and not a list item -/
def Good (c : BNode) : Prop := c.kind ≠ .listItem ∧ Shaped c

def AllGood (cs : List BNode) : Prop := ∀ c ∈ cs, Good c

theorem AllGood.nil : AllGood [] := fun _ h => by simp at h

theorem AllGood.push {cs : List BNode} {n : BNode} (h : AllGood cs) (hn : Good n) : AllGood (cs ++ [n]) := by
  intro c hc
  rcases List.mem_append.mp hc with h1 | h1
  · exact h c h1
  · simp at h1; subst h1; exact hn

/-- a node whose kind is not a list kind, over good children, is well shaped -/
theorem shaped_of_allGood {k : Kind} {r : Option (Nat × Nat)} {cs : List BNode} (hk : isListKind k = false)
    (h : AllGood cs) : Shaped ⟨k, r, cs⟩ :=
  .mk _ ⟨fun hc => by simp [hk] at hc, fun c hc hci => absurd hci (h c hc).1⟩ (fun c hc => (h c hc).2)

theorem good_leaf (k : Kind) (r : Option (Nat × Nat)) (hk : isListKind k = false) (hi : k ≠ .listItem) :
    Good ⟨k, r, []⟩ := ⟨hi, shaped_of_allGood hk AllGood.nil⟩

theorem good_inline (c : List Char) (m : List (Nat × Nat)) : Good ⟨.inlineRoot c m, none, []⟩ :=
  good_leaf _ _ rfl (by simp)

/-- a block with one inline root -/
theorem good_block (k : Kind) (r : Option (Nat × Nat)) (hk : isListKind k = false) (hi : k ≠ .listItem)
    (c : List Char) (m : List (Nat × Nat)) : Good ⟨k, r, [⟨.inlineRoot c m, none, []⟩]⟩ :=
  ⟨hi, shaped_of_allGood hk (fun x hx => by simp at hx; subst hx; exact good_inline c m)⟩

/-- what a rule / the tokenizer does to the children of the current node -/
def KeepsGood (s s' : BState) : Prop := AllGood s.children → AllGood s'.children

theorem hr_shape {s s' : BState} {b : Bool} (h : hrRule s false = .ok (b, s')) : KeepsGood s s' := by
  unfold hrRule at h
  crack h
  all_goals (try subst_vars)
  all_goals (intro hg)
  all_goals (first | exact hg | exact hg.push (good_leaf _ _ rfl (by simp)))

theorem heading_shape {s s' : BState} {b : Bool} (h : headingRule s false = .ok (b, s')) : KeepsGood s s' := by
  unfold headingRule at h
  crack h
  all_goals (try subst_vars)
  all_goals (intro hg)
  all_goals (first | exact hg | exact hg.push (good_block _ _ rfl (by simp) _ _))

theorem code_shape {s s' : BState} {b : Bool} (h : codeRule s false = .ok (b, s')) : KeepsGood s s' := by
  unfold codeRule at h
  crack h
  all_goals (try subst_vars)
  all_goals (intro hg)
  all_goals (first | exact hg | exact hg.push (good_leaf _ _ rfl (by simp)))

theorem fence_shape {s s' : BState} {b : Bool} (h : fenceRule s false = .ok (b, s')) : KeepsGood s s' := by
  unfold fenceRule at h
  crack h
  all_goals (try subst_vars)
  all_goals (intro hg)
  all_goals (first | exact hg | exact hg.push (good_leaf _ _ rfl (by simp)))

theorem paragraph_shape {test : Test} (ht : TestPure test) {fuel : Nat} {s s' : BState} {b : Bool}
    (h : paragraphRule test fuel s false = .ok (b, s')) : KeepsGood s s' := by
  unfold paragraphRule at h
  crack h
  have h1 := (lazyScan_spec ht false _ _ _ _ ‹lazyScan _ _ _ _ _ = _›).1
  intro hg
  simp only [BState.push, h1]
  exact hg.push (good_block _ _ rfl (by simp) _ _)

theorem lheading_shape {test : Test} (ht : TestPure test) {fuel : Nat} {s s' : BState} {b : Bool}
    (h : lheadingRule test fuel s false = .ok (b, s')) : KeepsGood s s' := by
  unfold lheadingRule at h
  crack h
  all_goals (try (have h1 := (lazyScan_spec ht true _ _ _ _ ‹lazyScan _ _ _ _ _ = _›).1))
  all_goals (try subst_vars)
  all_goals (intro hg)
  all_goals (first | exact hg | exact hg.push (good_block _ _ rfl (by simp) _ _))

theorem reference_shape {cfg : Cfg} {test : Test} (ht : TestPure test) {fuel : Nat} {s s' : BState} {b : Bool}
    (h : referenceRule cfg test fuel s false = .ok (b, s')) : KeepsGood s s' := by
  unfold referenceRule at h
  crack h
  all_goals (try (have h1 := (lazyScan_spec ht false _ _ _ _ ‹lazyScan _ _ _ _ _ = _›).1))
  all_goals (try subst_vars)
  all_goals (intro hg)
  all_goals (first | exact hg | (rw [h1]; exact hg) | (simp only [h1]; exact hg))

/-- the nested tokenizer keeps the children of its current node good -/
def TokShape (tok : Tok) : Prop := ∀ s s', tok s = .ok s' → KeepsGood s s'

theorem bqScan_children {test : Test} (ht : TestPure test) {fuel : Nat} {S : BState} {m : Nat}
    {old : List LineOffset} {le : Bool} {n : Nat} {old' : List LineOffset} {S' : BState}
    (h : bqScan test fuel S m old le = .ok (n, old', S')) : S'.children = S.children ∧ S'.nodeKind = S.nodeKind :=
  have := (bqScan_spec ht _ _ _ _ _ _ _ _ h).1
  ⟨this.children, this.nodeKind⟩

theorem blockquote_shape {tok : Tok} {test : Test} (hk : TokSpec tok) (hsh : TokShape tok)
    (ht : TestPure test) {fuel : Nat} {s s' : BState} {b : Bool}
    (h : blockquoteRule tok test fuel s false = .ok (b, s')) : KeepsGood s s' := by
  unfold blockquoteRule at h
  crack h
  all_goals (try subst_vars)
  · exact fun hg => hg
  · exact fun hg => hg
  · have hscan := ‹bqScan _ _ _ _ _ _ = _›
    have htok := ‹tok _ = _›
    rename_i scan _ s2 _ _ _ _ _ _ _ _ _
    obtain ⟨n, old', S'⟩ := scan
    obtain ⟨hch, _⟩ := bqScan_children ht hscan
    have hfr := hk.frame _ _ htok
    have hg2 := hsh _ _ htok AllGood.nil
    intro hg
    simp only at hch hfr hg2 ⊢
    rw [hch]
    refine hg.push ⟨by rw [hfr.nodeKind]; simp, ?_⟩
    rw [hfr.nodeKind]
    exact shaped_of_allGood rfl hg2

/-- `mark_tight_paragraphs` keeps good children good: the children of a well-shaped paragraph are -/
theorem markTight_good : ∀ (cs : List BNode), AllGood cs → AllGood (markTight cs)
  | [], _ => AllGood.nil
  | n :: r, h => by
    have hr := markTight_good r (fun c hc => h c (List.mem_cons_of_mem _ hc))
    have hn := h n (by simp)
    simp only [markTight]
    split
    · rename_i hp
      intro c hc
      rcases List.mem_append.mp hc with h1 | h1
      · refine ⟨fun hci => ?_, hn.2.child c h1⟩
        have := hn.2.at.2 c h1 hci
        rw [hp] at this
        simp [isListKind] at this
      · exact hr c h1
    · intro c hc
      simp at hc
      rcases hc with rfl | h1
      · exact hn
      · exact hr c h1

/-- the children of a list under construction: list items, each well shaped -/
def AllItems (cs : List BNode) : Prop := ∀ c ∈ cs, c.kind = .listItem ∧ Shaped c

theorem tightenItems_items : ∀ (cs cs' : List BNode), tightenItems cs = .ok cs' → AllItems cs → AllItems cs'
  | [], cs', h, _ => by simp [tightenItems] at h; subst h; exact fun _ hc => by simp at hc
  | c :: r, cs', h, hi => by
    simp only [tightenItems] at h
    split at h
    · cases h
    · split at h
      · cases h
      · rename_i hk r' hr
        cases h
        have ih := tightenItems_items r r' hr (fun x hx => hi x (List.mem_cons_of_mem _ hx))
        obtain ⟨hck, hcs⟩ := hi c (by simp)
        intro x hx
        simp at hx
        rcases hx with rfl | hx
        · refine ⟨hck, ?_⟩
          have hgood : AllGood c.children := fun y hy =>
            ⟨fun hyi => by have := hcs.at.2 y hy hyi; rw [hck] at this; simp [isListKind] at this,
             hcs.child y hy⟩
          rw [hck]
          exact shaped_of_allGood rfl (markTight_good _ hgood)
        · exact ih x hx

theorem listItemBody_shape {tok : Tok} (hsh : TokShape tok) {S2 S3 : BState} {m : Nat} {re : Bool}
    (h : listItemBody tok S2 m re = .ok S3) : KeepsGood S2 S3 := by
  unfold listItemBody at h
  crack h
  · exact fun hg => hg
  · have htok := ‹tok _ = _›
    subst_vars
    have key := hsh _ _ htok
    intro hg
    exact key hg

theorem listItem_shape {tok : Tok} (hk : TokSpec tok) (hsh : TokShape tok) {S S' : BState} {m pos : Nat}
    {pee tight pee' tight' : Bool} (h : listItem tok S m pos pee tight = .ok (S', tight', pee'))
    (hline : S.line = m) (hlt : m < S.lineMax) :
    AllItems S.children → AllItems S'.children := by
  have hspec := listItem_spec hk h hline hlt
  unfold listItem at h
  crack h
  rename_i o ho rw hrw S2 hS2 S3 hbody _ li hli S5 hS5 e _ r _ hS' _ _
  subst hS'
  obtain ⟨hm, hS2eq⟩ := setOff_ok hS2
  obtain ⟨hm5, rfl⟩ := setOff_ok hS5
  have hg3 := listItemBody_shape hsh hbody (by rw [hS2eq]; exact AllGood.nil)
  -- the kind of the node under construction is still `listItem`
  have hkind : S3.nodeKind = .listItem := by
    unfold listItemBody at hbody
    crack hbody
    · rw [hS2eq]
    · have := (hk.frame _ _ ‹tok _ = _›).nodeKind
      simp only at this ⊢
      rw [this, hS2eq]
  intro hi c hc
  simp only at hc
  rcases List.mem_append.mp hc with h1 | h1
  · exact hi c h1
  · simp at h1
    subst h1
    simp only
    rw [hkind]
    exact ⟨rfl, shaped_of_allGood rfl hg3⟩

theorem listLoop_shape {tok : Tok} {test : Test} (hk : TokSpec tok) (hsh : TokShape tok) (ht : TestPure test)
    {ordered : Bool} {mc : Char} :
    ∀ (fuel : Nat) (S : BState) (m pos : Nat) (pee tight : Bool) (n : Nat) (tight' : Bool) (S' : BState),
      listLoop tok test ordered mc fuel S m pos pee tight = .ok (n, tight', S') →
      S.line = m → m < S.lineMax → AllItems S.children → AllItems S'.children := by
  intro fuel
  induction fuel with
  | zero => intro S m pos pee tight n tight' S' h; simp [listLoop] at h
  | succ f ih =>
    intro S m pos pee tight n tight' S' h hline hlt hi
    simp only [listLoop] at h
    crack h
    all_goals (try subst_vars)
    · rename_i wi wc hc _ hnone _ hitem
      obtain ⟨S1, t1, p1⟩ := wi
      obtain ⟨c, S2⟩ := wc
      obtain ⟨rfl, _⟩ := listContinue_spec ht hc
      exact listItem_shape hk hsh hitem rfl hlt hi
    · rename_i wi wc hc _ p hsome _ hitem
      obtain ⟨S1, t1, p1⟩ := wi
      obtain ⟨c, S2⟩ := wc
      obtain ⟨hfr, h1, h2⟩ := listItem_spec hk hitem rfl hlt
      obtain ⟨rfl, hc2⟩ := listContinue_spec ht hc
      simp only at hsome h hc2
      have hlt2 := hc2 (by rw [hsome]; simp)
      exact ih _ _ _ _ _ _ _ _ h rfl hlt2 (listItem_shape hk hsh hitem rfl hlt hi)

theorem list_rule_shape {tok : Tok} {test : Test} (hk : TokSpec tok) (hsh : TokShape tok) (ht : TestPure test)
    {fuel : Nat} {s s' : BState} {b : Bool} (h : listRule tok test fuel s false = .ok (b, s'))
    (hl : s.line < s.lineMax) : KeepsGood s s' := by
  unfold listRule at h
  crack h
  all_goals (try subst_vars)
  all_goals (try (exact fun hg => hg))
  all_goals (
    have hloop := ‹listLoop _ _ _ _ _ _ _ _ _ _ = _›
    have htight := ‹(if _ then tightenItems _ else _) = Except.ok _›
    rename_i wl _ cs _ _ _ _ _ _ _
    obtain ⟨n, t, S'⟩ := wl
    have hitems := listLoop_shape hk hsh ht _ _ _ _ _ _ _ _ _ hloop rfl hl (fun _ hc => by simp at hc)
    obtain ⟨hfr, _⟩ := listLoop_spec hk ht _ _ _ _ _ _ _ _ _ hloop rfl hl
    have hcs : AllItems cs := by
      simp only at htight
      split at htight
      · exact tightenItems_items _ _ htight hitems
      · simp [pure, Except.pure] at htight; subst htight; exact hitems
    intro hg
    simp only
    refine hg.push ⟨?_, .mk _ ⟨fun _ c hc => (hcs c hc).1, fun c hc _ => ?_⟩ (fun c hc => (hcs c hc).2)⟩
    · rw [hfr.nodeKind]; simp
    · simp only; rw [hfr.nodeKind]; rfl)

theorem runRule_shape {cfg : Cfg} {tok : Tok} {test : Test} (hk : TokSpec tok) (hsh : TokShape tok)
    (ht : TestPure test) (fuel : Nat) (r : RuleId) {s s' : BState} {b : Bool}
    (h : runRule cfg tok test fuel r s false = .ok (b, s')) (hl : s.line < s.lineMax) : KeepsGood s s' := by
  cases r <;> simp only [runRule] at h
  · exact code_shape h
  · exact fence_shape h
  · exact blockquote_shape hk hsh ht h
  · exact hr_shape h
  · exact list_rule_shape hk hsh ht h hl
  · exact reference_shape ht h
  · exact heading_shape h
  · exact lheading_shape ht h
  · exact paragraph_shape ht h

theorem runChain_shape {run : RuleId → BState → Bool → Res} (hr : RunSpec run)
    (hsh : ∀ r s b s', run r s false = .ok (b, s') → s.line < s.lineMax → KeepsGood s s') :
    ∀ (chain : List RuleId) (s : BState) (b : Bool) (s' : BState),
      runChain run chain s false = .ok (b, s') → s.line < s.lineMax → KeepsGood s s' := by
  intro chain
  induction chain with
  | nil => intro s b s' h _; simp [runChain] at h; rw [← h.2]; exact fun hg => hg
  | cons r rs ih =>
    intro s b s' h hl
    simp only [runChain] at h
    split at h
    · cases h
    · rename_i s1 h1
      cases h
      exact hsh _ _ _ _ h1 hl
    · rename_i s1 h1
      have := hr.false_same _ _ _ h1
      subst this
      exact ih _ _ _ h hl

theorem afterChain_shape {ok : Bool} {s s' : BState} {prev : Nat} (h : afterChain ok s prev = .ok s') :
    KeepsGood s s' := by
  unfold afterChain at h
  crack h
  · exact fun hg => hg
  · intro hg
    simp only [BState.push]
    exact hg.push (good_inline _ _)

theorem tokLoop_shape {cfg : Cfg} {run : RuleId → BState → Bool → Res} (hr : RunSpec run)
    (hsh : ∀ r s b s', run r s false = .ok (b, s') → s.line < s.lineMax → KeepsGood s s') :
    ∀ (fuel : Nat) (he : Bool) (s s' : BState), tokLoop cfg run fuel he s = .ok s' → KeepsGood s s' := by
  intro fuel
  induction fuel with
  | zero => intro he s s' h; simp [tokLoop] at h
  | succ f ih =>
    intro he s s' h
    simp only [tokLoop] at h
    crack h
    all_goals (try subst_vars)
    all_goals (try (exact fun hg => hg))
    all_goals (
      have hchain := ‹runChain _ _ _ _ = _›
      have hafter := ‹afterChain _ _ _ = _›
      have h1 := runChain_shape hr hsh _ _ _ _ hchain (by simp; omega)
      have h2 := afterChain_shape hafter
      have h3 := ih _ _ _ h
      exact fun hg => h3 (h2 (h1 hg)))

/-- the tokenizer pushes only well-shaped nodes that are not list items -/
theorem tokenize_shape (cfg : Cfg) : ∀ fuel : Nat, TokShape (tokenize cfg fuel) := by
  intro fuel
  induction fuel with
  | zero => intro s s' h; simp [tokenize, engine] at h
  | succ f ih =>
    intro s s' h
    simp only [tokenize, engine] at h
    have hk := tokenize_tokSpec cfg f
    have ht := testRules_pure cfg f
    exact tokLoop_shape (runRule_spec hk ht _)
      (fun r s b s' h hl => runRule_shape hk ih ht _ r h hl) _ _ _ _ h

/-- **`list_shape`.**  In every tree the block parser returns, a list node (`BulletList` /
    `OrderedList`) has only `ListItem` children, and a `ListItem` occurs only as a child of a list node
    (`Shaped`: `ShapeAt` holds at every node).  In particular the `debug_assert!(child.is::<ListItem>())`
    of the list rule cannot fire, and `mark_tight_paragraphs` never moves a list item out of its list. -/
theorem list_shape {cfg : Cfg} {src : List Char} {root : BNode} {refs : Refs.RefMap}
    (h : parseBlocks cfg src = .ok (root, refs)) : Shaped root := by
  unfold parseBlocks at h
  split at h
  · cases h
  · rename_i s hs
    simp only [Except.ok.injEq, Prod.mk.injEq] at h
    obtain ⟨rfl, _⟩ := h
    have hfr := (tokenize_spec cfg _ _ _ hs).frame
    have hg := tokenize_shape cfg _ _ _ hs AllGood.nil
    have hk : s.nodeKind = .root := hfr.nodeKind
    rw [hk]
    exact shaped_of_allGood rfl hg

/-- the two halves of `ShapeAt`, for any node `n` of a parsed tree reached through `Shaped.child` -/
theorem Shaped.list_children {n : BNode} (h : Shaped n) (hk : isListKind n.kind = true) :
    ∀ c ∈ n.children, c.kind = .listItem := h.at.1 hk

theorem Shaped.item_parent {n : BNode} (h : Shaped n) {c : BNode} (hc : c ∈ n.children)
    (hi : c.kind = .listItem) : isListKind n.kind = true := h.at.2 c hc hi

/-- `"- a\n- b\n\n1. c"`: two lists, three items, nothing else is an item -/
example : (parseBlocks exCfg ['-', ' ', 'a', '\n', '-', ' ', 'b', '\n', '\n', '1', '.', ' ', 'c']).toOption.map
      (fun p => p.1.children.map fun n => (n.kind, n.children.map (·.kind)))
    = some [(.bulletList '-', [.listItem, .listItem]), (.orderedList 1 '.', [.listItem])] := by
  decide +kernel

/-! ## 11. more fuel never changes a result -/

/-- `f'` answers whatever `f` answers -/
def Ext {α β : Type} (f f' : α → Except Panic β) : Prop := ∀ a b, f a = .ok b → f' a = .ok b

syntax "replay_mono" : tactic
macro_rules
| `(tactic| replay_mono) => `(tactic|
    simp only [*, ok_bind, ↓reduceIte, ne_eq, not_true_eq_false, not_false_eq_true,
      Bool.false_eq_true, pure, Except.pure, decide_true, decide_false, false_and, and_false, and_true,
      true_and, Classical.not_not])

theorem lazyScan_mono {test test' : Test} (ht : Ext test test') (setext : Bool) :
    ∀ (fuel fuel' : Nat) (s : BState) (n : Nat) (r : Nat × Nat × BState), fuel ≤ fuel' →
      lazyScan test setext fuel s n = .ok r → lazyScan test' setext fuel' s n = .ok r := by
  intro fuel
  induction fuel with
  | zero => intro fuel' s n r _ h; simp [lazyScan] at h
  | succ f ih =>
    intro fuel' s n r hf h
    obtain ⟨f', rfl⟩ : ∃ f', fuel' = f' + 1 := ⟨fuel' - 1, by omega⟩
    simp only [lazyScan] at h ⊢
    crack h
    all_goals (try (have ht' := ht _ _ ‹test _ = _›))
    all_goals (try (have hrec := ih f' _ _ _ (by omega) h))
    all_goals (try subst_vars)
    all_goals replay_mono

theorem bqScan_mono {test test' : Test} (ht : Ext test test') :
    ∀ (fuel fuel' : Nat) (s : BState) (m : Nat) (old : List LineOffset) (le : Bool)
      (r : Nat × List LineOffset × BState), fuel ≤ fuel' →
      bqScan test fuel s m old le = .ok r → bqScan test' fuel' s m old le = .ok r := by
  intro fuel
  induction fuel with
  | zero => intro fuel' s m old le r _ h; simp [bqScan] at h
  | succ f ih =>
    intro fuel' s m old le r hf h
    obtain ⟨f', rfl⟩ : ∃ f', fuel' = f' + 1 := ⟨fuel' - 1, by omega⟩
    simp only [bqScan] at h ⊢
    crack h
    all_goals (try (have hle : le = false := by simpa using ‹¬le = true›))
    all_goals (try subst hle)
    all_goals (try (have ht' := ht _ _ ‹test _ = _›))
    all_goals (try (have hrec := ih f' _ _ _ _ _ (by omega) h))
    all_goals (try subst_vars)
    all_goals replay_mono

theorem paragraph_mono {test test' : Test} (ht : Ext test test') {fuel fuel' : Nat} (hf : fuel ≤ fuel')
    {s : BState} {b : Bool} {r : Bool × BState} (h : paragraphRule test fuel s b = .ok r) :
    paragraphRule test' fuel' s b = .ok r := by
  unfold paragraphRule at h ⊢
  crack h
  all_goals (try (have hscan := lazyScan_mono ht false _ _ _ _ _ hf ‹lazyScan _ _ _ _ _ = _›))
  all_goals (try subst_vars)
  all_goals replay_mono

theorem lheading_mono {test test' : Test} (ht : Ext test test') {fuel fuel' : Nat} (hf : fuel ≤ fuel')
    {s : BState} {b : Bool} {r : Bool × BState} (h : lheadingRule test fuel s b = .ok r) :
    lheadingRule test' fuel' s b = .ok r := by
  unfold lheadingRule at h ⊢
  crack h
  all_goals (try (have hscan := lazyScan_mono ht true _ _ _ _ _ hf ‹lazyScan _ _ _ _ _ = _›))
  all_goals (try subst_vars)
  all_goals replay_mono

theorem reference_mono {cfg : Cfg} {test test' : Test} (ht : Ext test test') {fuel fuel' : Nat}
    (hf : fuel ≤ fuel') {s : BState} {b : Bool} {r : Bool × BState}
    (h : referenceRule cfg test fuel s b = .ok r) : referenceRule cfg test' fuel' s b = .ok r := by
  unfold referenceRule at h ⊢
  crack h
  all_goals (try (have hscan := lazyScan_mono ht false _ _ _ _ _ hf ‹lazyScan _ _ _ _ _ = _›))
  all_goals (try subst_vars)
  all_goals replay_mono

theorem blockquote_mono {tok tok' : Tok} {test test' : Test} (hk : Ext tok tok') (ht : Ext test test')
    {fuel fuel' : Nat} (hf : fuel ≤ fuel') {s : BState} {b : Bool} {r : Bool × BState}
    (h : blockquoteRule tok test fuel s b = .ok r) : blockquoteRule tok' test' fuel' s b = .ok r := by
  unfold blockquoteRule at h ⊢
  crack h
  all_goals (try (have hscan := bqScan_mono ht _ _ _ _ _ _ _ hf ‹bqScan _ _ _ _ _ _ = _›))
  all_goals (try (have htok := hk _ _ ‹tok _ = _›))
  all_goals (try subst_vars)
  all_goals replay_mono

theorem listItemBody_mono {tok tok' : Tok} (hk : Ext tok tok') {s t : BState} {m : Nat} {re : Bool}
    (h : listItemBody tok s m re = .ok t) : listItemBody tok' s m re = .ok t := by
  unfold listItemBody at h ⊢
  crack h
  all_goals (try (have htok := hk _ _ ‹tok _ = _›))
  all_goals (try subst_vars)
  all_goals replay_mono

theorem listItem_mono {tok tok' : Tok} (hk : Ext tok tok') {s : BState} {m pos : Nat} {pee tight : Bool}
    {r : BState × Bool × Bool} (h : listItem tok s m pos pee tight = .ok r) :
    listItem tok' s m pos pee tight = .ok r := by
  unfold listItem at h ⊢
  crack h
  have hbody := listItemBody_mono hk ‹listItemBody _ _ _ _ = _›
  subst_vars
  replay_mono

theorem listContinue_mono {test test' : Test} (ht : Ext test test') {ordered : Bool} {mc : Char} {s : BState}
    {n : Nat} {r : Option Nat × BState} (h : listContinue test ordered mc s n = .ok r) :
    listContinue test' ordered mc s n = .ok r := by
  unfold listContinue at h ⊢
  crack h
  all_goals (try (have ht' := ht _ _ ‹test _ = _›))
  all_goals (try subst_vars)
  all_goals replay_mono

theorem listLoop_mono {tok tok' : Tok} {test test' : Test} (hk : Ext tok tok') (ht : Ext test test')
    {ordered : Bool} {mc : Char} :
    ∀ (fuel fuel' : Nat) (s : BState) (m pos : Nat) (pee tight : Bool) (r : Nat × Bool × BState), fuel ≤ fuel' →
      listLoop tok test ordered mc fuel s m pos pee tight = .ok r →
      listLoop tok' test' ordered mc fuel' s m pos pee tight = .ok r := by
  intro fuel
  induction fuel with
  | zero => intro fuel' s m pos pee tight r _ h; simp [listLoop] at h
  | succ f ih =>
    intro fuel' s m pos pee tight r hf h
    obtain ⟨f', rfl⟩ : ∃ f', fuel' = f' + 1 := ⟨fuel' - 1, by omega⟩
    simp only [listLoop] at h ⊢
    crack h
    all_goals (try (have hitem := listItem_mono hk ‹listItem _ _ _ _ _ _ = _›))
    all_goals (try (have hcont := listContinue_mono ht ‹listContinue _ _ _ _ _ = _›))
    all_goals (try (have hrec := ih f' _ _ _ _ _ _ (by omega) h))
    all_goals (try subst_vars)
    all_goals replay_mono

theorem list_mono {tok tok' : Tok} {test test' : Test} (hk : Ext tok tok') (ht : Ext test test')
    {fuel fuel' : Nat} (hf : fuel ≤ fuel') {s : BState} {b : Bool} {r : Bool × BState}
    (h : listRule tok test fuel s b = .ok r) : listRule tok' test' fuel' s b = .ok r := by
  unfold listRule at h ⊢
  cases b <;> crack h
  all_goals (try (have hloop := listLoop_mono hk ht _ _ _ _ _ _ _ _ hf ‹listLoop _ _ _ _ _ _ _ _ _ _ = _›))
  all_goals (try subst_vars)
  all_goals (try simp only [eq_self, true_and, Bool.false_eq_true, false_and, decide_false, pure, Except.pure] at *)
  all_goals replay_mono

theorem runRule_mono {cfg : Cfg} {tok tok' : Tok} {test test' : Test} (hk : Ext tok tok') (ht : Ext test test')
    {fuel fuel' : Nat} (hf : fuel ≤ fuel') (r : RuleId) {s : BState} {b : Bool} {x : Bool × BState}
    (h : runRule cfg tok test fuel r s b = .ok x) : runRule cfg tok' test' fuel' r s b = .ok x := by
  cases r <;> simp only [runRule] at h ⊢
  · exact h
  · exact h
  · exact blockquote_mono hk ht hf h
  · exact h
  · exact list_mono hk ht hf h
  · exact reference_mono ht hf h
  · exact h
  · exact lheading_mono ht hf h
  · exact paragraph_mono ht hf h

theorem runChain_mono {run run' : RuleId → BState → Bool → Res}
    (hr : ∀ r s b x, run r s b = .ok x → run' r s b = .ok x) :
    ∀ (chain : List RuleId) (s : BState) (b : Bool) (x : Bool × BState),
      runChain run chain s b = .ok x → runChain run' chain s b = .ok x := by
  intro chain
  induction chain with
  | nil => intro s b x h; exact h
  | cons r rs ih =>
    intro s b x h
    simp only [runChain] at h ⊢
    split at h
    · cases h
    · rename_i s1 h1
      rw [hr _ _ _ _ h1]; exact h
    · rename_i s1 h1
      rw [hr _ _ _ _ h1]; exact ih _ _ _ h

theorem tokLoop_mono {cfg : Cfg} {run run' : RuleId → BState → Bool → Res}
    (hr : ∀ r s b x, run r s b = .ok x → run' r s b = .ok x) :
    ∀ (fuel fuel' : Nat) (he : Bool) (s t : BState), fuel ≤ fuel' →
      tokLoop cfg run fuel he s = .ok t → tokLoop cfg run' fuel' he s = .ok t := by
  intro fuel
  induction fuel with
  | zero => intro fuel' he s t _ h; simp [tokLoop] at h
  | succ f ih =>
    intro fuel' he s t hf h
    obtain ⟨f', rfl⟩ : ∃ f', fuel' = f' + 1 := ⟨fuel' - 1, by omega⟩
    simp only [tokLoop] at h ⊢
    crack h
    all_goals (try (have hchain := runChain_mono hr _ _ _ _ ‹runChain _ _ _ _ = _›))
    all_goals (try (have hrec := ih f' _ _ _ (by omega) h))
    all_goals (try subst_vars)
    all_goals replay_mono

/-- **fuel monotonicity**: a result obtained with fuel `f` is obtained with every larger fuel -/
theorem engine_mono (cfg : Cfg) : ∀ (f f' : Nat), f ≤ f' →
    Ext (tokenize cfg f) (tokenize cfg f') ∧ Ext (testRules cfg f) (testRules cfg f') := by
  intro f
  induction f with
  | zero =>
    intro f' _
    exact ⟨fun s t h => by simp [tokenize, engine] at h, fun s t h => by simp [testRules, engine] at h⟩
  | succ f ih =>
    intro f' hf
    obtain ⟨g, rfl⟩ : ∃ g, f' = g + 1 := ⟨f' - 1, by omega⟩
    obtain ⟨hk, ht⟩ := ih g (by omega)
    have hrun : ∀ r s b x, runRule cfg (tokenize cfg f) (testRules cfg f) (f + 1) r s b = .ok x →
        runRule cfg (tokenize cfg g) (testRules cfg g) (g + 1) r s b = .ok x :=
      fun r s b x h => runRule_mono hk ht (by omega) r h
    constructor
    · intro s t h
      simp only [tokenize, engine] at h ⊢
      exact tokLoop_mono hrun _ _ _ _ _ (by omega) h
    · intro s x h
      simp only [testRules, engine] at h ⊢
      exact runChain_mono hrun _ _ _ _ h

theorem tokenize_mono {cfg : Cfg} {f f' : Nat} (hf : f ≤ f') {s t : BState} (h : tokenize cfg f s = .ok t) :
    tokenize cfg f' s = .ok t := (engine_mono cfg f f' hf).1 s t h

/-! ## 12. where the tokenizer stops -/

/-- the tokenizer loop ends at `line_max`, or in front of a line with a negative indent (a line that
    belongs to an outer block) -/
theorem tokLoop_exit {cfg : Cfg} {run : RuleId → BState → Bool → Res} :
    ∀ (fuel : Nat) (he : Bool) (s t : BState), tokLoop cfg run fuel he s = .ok t →
      t.lineMax ≤ t.line ∨ ∃ i, t.lineIndent t.line = .ok i ∧ i < 0 := by
  intro fuel
  induction fuel with
  | zero => intro he s t h; simp [tokLoop] at h
  | succ f ih =>
    intro he s t h
    simp only [tokLoop] at h
    crack h
    · subst_vars; left; omega
    · subst_vars; left; simp only; omega
    · subst_vars; right; rename_i ind hind hneg; exact ⟨ind, hind, hneg⟩
    · subst_vars; left; simp
    · exact ih _ _ _ h
    · exact ih _ _ _ h

theorem tokenize_exit {cfg : Cfg} {fuel : Nat} {s t : BState} (h : tokenize cfg fuel s = .ok t) :
    t.lineMax ≤ t.line ∨ ∃ i, t.lineIndent t.line = .ok i ∧ i < 0 := by
  cases fuel with
  | zero => simp [tokenize, engine] at h
  | succ f =>
    simp only [tokenize, engine] at h
    exact tokLoop_exit _ _ _ _ h

end MdIt.Block
