/-
  C06, LIST half, whole document.

  "…placing D as continuation blocks of a list item (each line indented by the marker width) renders
   exactly as the list wrapper around the rendering of D."

  `itemDoc mk D`: the marker `mk` and one space in front of the first line of the tab-free document `D`,
  `|mk| + 1` spaces in front of every other line (blank lines included).  `item_commutes`: the block
  parse of `itemDoc mk D` (two more levels of nesting allowed) is a root with ONE child, a list (bullet or
  ordered, by the marker) over all lines, with ONE item over all lines, whose children are the top-level
  blocks of `D` with every position moved by the bytes inserted in front of it (`tau`; `tau_spec`:
  byte `x` of line `i` ↦ byte `w + x` of line `i`) — with the paragraphs unwrapped (`mark_tight_paragraphs`)
  exactly when the run on `D` ends `tight` (no blank line between its blocks); the reference map is that
  of `D`.  The simulation behind it is `MdIt/Lemmas/C06ListSim.lean`.

  `item_commutes_gen` (any marker the list rule recognises), `item_commutes_bullet` (`-`, `*`, `+`),
  `item_commutes_ordered` (1–9 digits and `.` / `)`), `item_commutes_gen_parse` (in terms of `parseBlocks`).

  Hypotheses, each needed (witnesses at the end of the file) except `0 < max_nesting` (at `max_nesting = 0`
  both items are empty; assumed to keep the `tight` flags aligned): tab-free; the first line of `D` is not blank
  and is indented by 0 or by at least 4 columns (with 1–3 columns the item's content indent grows and the
  following lines fall out of the item; an item that starts with two blank lines is empty); the rules in
  front of the list rule in the chain are among code, fence, blockquote, hr, reference, heading, and the
  marker line is not a thematic break (`- - -`, `* * *`, `- --`); nesting limit + 2; size below 2³¹.
-/
import MdIt.Lemmas.C06ListSim
set_option linter.unusedSimpArgs false
set_option linter.unusedVariables false

namespace MdIt.Block.Li
open MdIt.Lines (LineOffset NoTerm AllBlank lead mkOff IsTerminator)

/-! ### the document -/

/-- what the characters of a list marker satisfy: one byte each, neither blank nor a line terminator -/
structure MkOk (mk : List Char) : Prop where
  ne : mk ≠ []
  ascii : ∀ c ∈ mk, c.utf8Size = 1
  plain : ∀ c ∈ mk, c ≠ ' ' ∧ c ≠ '\t' ∧ c ≠ '\n' ∧ c ≠ '\r'

/-- the prefix of line `i`: the marker and a space on line 0, spaces elsewhere -/
def preAt (mk : List Char) (i : Nat) : List Char :=
  if i = 0 then mk ++ [' '] else List.replicate (mk.length + 1) ' '

/-- `D` as the content of one list item with marker `mk` -/
def itemDoc (mk D : List Char) : List Char := Lines.flat (indentLines (preAt mk) (Lines.linesT D))

theorem byteLen_ascii : ∀ (l : List Char), (∀ c ∈ l, c.utf8Size = 1) → Lines.byteLen l = l.length
  | [], _ => rfl
  | c :: r, h => by
    have := byteLen_ascii r (fun x hx => h x (List.mem_cons_of_mem _ hx))
    simp [this, h c (by simp)]; omega

theorem MkOk.bytes {mk : List Char} (h : MkOk mk) : Lines.byteLen mk = mk.length := byteLen_ascii mk h.ascii

theorem preOk_preAt {mk : List Char} (h : MkOk mk) : PreOk (mk.length + 1) (preAt mk) := by
  refine ⟨?_, ?_, ?_⟩
  · intro i; unfold preAt; split <;> simp
  · intro i; unfold preAt; split
    · simp [h.bytes, show ' '.utf8Size = 1 by decide]
    · exact Lines.byteLen_replicate_space _
  · intro i hc; unfold preAt at hc; split at hc
    · simp at hc
      exact (h.plain _ hc).2.1 rfl
    · have := (List.mem_replicate.mp hc).2; cases this

theorem noTerm_preAt {mk : List Char} (h : MkOk mk) (i : Nat) : NoTerm (preAt mk i) := by
  intro c hc
  unfold preAt at hc
  split at hc
  · simp at hc
    rcases hc with hc | rfl
    · exact ⟨(h.plain _ hc).2.2.1, (h.plain _ hc).2.2.2⟩
    · decide
  · have := (List.mem_replicate.mp hc).2; subst this; decide

theorem lshape_indent {pre : Nat → List Char} (hpre : ∀ i, NoTerm (pre i)) {L : DLines} (h : LShape L) :
    LShape (indentLines pre L) := by
  intro i lt hi
  have hlen : i < L.length := by
    have := (List.getElem?_eq_some_iff.mp hi).1
    simpa using this
  have hget := indentLines_getElem pre L i hlen
  have : lt = (pre i ++ L[i].1, L[i].2) := by
    rw [← hget]; exact ((List.getElem?_eq_some_iff.mp hi).2).symm
  subst this
  obtain ⟨h1, h2⟩ := h i L[i] (List.getElem?_eq_getElem hlen)
  refine ⟨?_, by simpa using h2⟩
  intro c hc
  rcases List.mem_append.mp hc with hc | hc
  · exact hpre i c hc
  · exact h1 c hc

theorem linesT_itemDoc {mk : List Char} (h : MkOk mk) (D : List Char) :
    Lines.linesT (itemDoc mk D) = indentLines (preAt mk) (Lines.linesT D) := by
  unfold itemDoc
  apply linesT_flat_of_shape
  · have := Lines.linesT_ne_nil D
    intro hc
    have hl := congrArg List.length hc
    simp at hl
    exact this hl
  · exact lshape_indent (noTerm_preAt h) (lshape_linesT D)
  · intro lt hlt
    obtain ⟨i, hi⟩ := List.getElem?_of_mem hlt
    have hlen : i < (Lines.linesT D).length := by
      have := (List.getElem?_eq_some_iff.mp hi).1
      simpa using this
    have hget := indentLines_getElem (preAt mk) (Lines.linesT D) i hlen
    have : lt = (preAt mk i ++ (Lines.linesT D)[i].1, (Lines.linesT D)[i].2) := by
      rw [← hget]; exact ((List.getElem?_eq_some_iff.mp hi).2).symm
    subst this
    have hpl := (preOk_preAt h).len i
    intro hc
    have hl := congrArg List.length hc
    simp only [List.length_append, List.length_nil] at hl
    omega

theorem splitLines_itemDoc {mk : List Char} (h : MkOk mk) (D : List Char) :
    Lines.splitLines (itemDoc mk D) = Lines.offsetsOf 0 (indentLines (preAt mk) (Lines.linesT D)) := by
  rw [Lines.splitLines_eq, linesT_itemDoc h]

theorem byteLen_itemDoc {mk : List Char} (h : MkOk mk) (D : List Char) :
    Lines.byteLen (itemDoc mk D) = Lines.byteLen D + (mk.length + 1) * (Lines.linesT D).length := by
  have h := startOf_indent (preOk_preAt h) (Lines.linesT D) (Lines.linesT D).length (Nat.le_refl _)
  unfold startOf at h
  rw [List.take_of_length_le (by rw [indentLines_length]; exact Nat.le_refl _), List.take_of_length_le (Nat.le_refl _),
    Lines.linesT_flat] at h
  exact h

/-! ### the fresh table of the prefixed document -/

section fresh
variable {mk : List Char} {L : DLines}

theorem indent_fresh_entry (hmk : MkOk mk) (i : Nat) (h : i < L.length) :
    freshEntry (indentLines (preAt mk) L) i
      = mkOff (startOf L i + (mk.length + 1) * i) (preAt mk i ++ L[i].1, L[i].2) := by
  have hi' : i < (indentLines (preAt mk) L).length := by rw [indentLines_length]; exact h
  simp only [freshEntry, List.getElem?_eq_getElem hi', indentLines_getElem (preAt mk) L i h,
    startOf_indent (preOk_preAt hmk) L i (Nat.le_of_lt h)]

/-- lines behind the first: the fresh entry of the indented line is the shifted fresh entry of the line -/
theorem fresh_shift (hmk : MkOk mk) (hL : LinesOk L) (i : Nat) (hi0 : 0 < i) (h : i < L.length) :
    freshEntry (indentLines (preAt mk) L) i
      = shiftE (mk.length + 1) ((mk.length + 1 : Nat) : Int) i (freshEntry L i) := by
  have htab : '\t' ∉ lead L[i].1 := fun hc =>
    hL.tabfree L[i] (List.getElem_mem h) ((List.takeWhile_sublist _).subset hc)
  have htab2 : '\t' ∉ List.replicate (mk.length + 1) ' ' ++ lead L[i].1 := by
    intro hc
    rcases List.mem_append.mp hc with hc | hc
    · have := (List.mem_replicate.mp hc).2; cases this
    · exact htab hc
  rw [indent_fresh_entry hmk i h]
  have hp : preAt mk i = List.replicate (mk.length + 1) ' ' := by unfold preAt; rw [if_neg (by omega)]
  simp only [hp, freshEntry, List.getElem?_eq_getElem h, shiftE, mkOff, lead_replicate_append, indentWidth_tabfree _ htab,
    indentWidth_tabfree _ htab2, Lines.byteLen_append, Lines.byteLen_replicate_space, List.length_append,
    List.length_replicate]
  congr 1 <;> (try push_cast) <;> omega

theorem lead_mk_line (hmk : MkOk mk) (l : List Char) : lead (mk ++ ' ' :: l) = [] := by
  cases hm : mk with
  | nil => exact absurd hm hmk.ne
  | cons c r =>
    have hc := hmk.plain c (by rw [hm]; simp)
    apply lead_cons_nonblank
    simp only [Lines.isBlank, Bool.or_eq_false_iff, decide_eq_false_iff_not]
    exact ⟨hc.1, hc.2.1⟩

/-- the first line: indent 0, the text starts at byte 0 -/
theorem fresh_first (hmk : MkOk mk) (h : 0 < L.length) :
    freshEntry (indentLines (preAt mk) L) 0 = ⟨0, mk.length + 1 + Lines.byteLen L[0].1, 0, 0⟩ := by
  rw [indent_fresh_entry hmk 0 h]
  have hp : preAt mk 0 = mk ++ [' '] := by unfold preAt; rw [if_pos rfl]
  simp only [hp, mkOff, startOf_zero, List.append_assoc, List.singleton_append, lead_mk_line hmk, Lines.byteLen_append,
    hmk.bytes, Lines.byteLen_cons, show ' '.utf8Size = 1 by decide]
  simp [Lines.indentWidth, Lines.widthFrom]
  omega

/-- the first line of `D`: not blank, indented by 0 or by at least 4 columns -/
def FirstOk (L : DLines) : Prop :=
  ∃ l0 t0 rest, L = (l0, t0) :: rest ∧ l0.dropWhile Lines.isBlank ≠ [] ∧
    ((lead l0).length = 0 ∨ 4 ≤ (lead l0).length)

theorem head_dropWhile_blank (l : List Char) : ∀ c r, l.dropWhile Lines.isBlank = c :: r → ¬ (c = ' ' ∨ c = '\t') := by
  intro c r h hc
  have := Lines.head_dropWhile h
  rcases hc with rfl | rfl <;> simp [Lines.isBlank] at this

theorem itemRewrite_first (hmk : MkOk mk) (hL : LinesOk L) {l0 t0 : List Char} {rest : DLines}
    (hL0 : L = (l0, t0) :: rest) (hnb : l0.dropWhile Lines.isBlank ≠ [])
    (hind : (lead l0).length = 0 ∨ 4 ≤ (lead l0).length) :
    itemRewrite (Lines.flat (indentLines (preAt mk) L))
        ⟨0, mk.length + 1 + Lines.byteLen l0, 0, 0⟩ mk.length
      = .ok (shiftE (mk.length + 1) ((mk.length + 1 : Nat) : Int) 0 (freshEntry L 0), mk.length + 1, false) := by
  have h0 : 0 < L.length := by rw [hL0]; simp
  have hg0 : L[0] = (l0, t0) := by simp [hL0]
  have htab : '\t' ∉ l0 := by
    have := hL.tabfree L[0] (List.getElem_mem h0)
    rw [hg0] at this; exact this
  have hfresh0 : freshEntry L 0 = mkOff 0 (l0, t0) := by
    simp [freshEntry, List.getElem?_eq_getElem h0, startOf_zero, hg0]
  have hline0 := indentLines_getElem (preAt mk) L 0 h0
  rw [hg0] at hline0
  have hi' : 0 < (indentLines (preAt mk) L).length := by rw [indentLines_length]; exact h0
  have hp : preAt mk 0 = mk ++ [' '] := by unfold preAt; rw [if_pos rfl]
  have hline : ((indentLines (preAt mk) L)[0]'hi').1 = mk ++ ' ' :: l0 := by
    rw [hline0, hp]; simp
  -- the line
  have hsl : Lines.slice (Lines.flat (indentLines (preAt mk) L)) 0 (mk.length + 1 + Lines.byteLen l0)
      = .ok (mk ++ ' ' :: l0) := by
    have := slice_in_line (indentLines (preAt mk) L) 0 hi' [] (mk ++ ' ' :: l0) [] (by rw [hline]; simp)
    simp only [startOf_zero, Lines.byteLen_nil, Nat.add_zero, Nat.zero_add, Lines.byteLen_append, hmk.bytes,
      Lines.byteLen_cons, show ' '.utf8Size = 1 by decide] at this
    rw [← this]; congr 1; omega
  -- the blanks behind the marker
  have hsplit : mk ++ ' ' :: l0 = mk ++ (' ' :: lead l0) ++ l0.dropWhile Lines.isBlank := by
    conv => lhs; rw [← Lines.lead_append_rest l0]
    simp
  have hsp : Spaces (' ' :: lead l0) := by
    intro c hc
    rcases List.mem_cons.mp hc with rfl | hc
    · rfl
    · exact lead_spaces htab c hc
  have hfi := findIndent_tabfree mk (' ' :: lead l0) (l0.dropWhile Lines.isBlank) (fun hc => (hmk.plain _ hc).2.1 rfl) hsp
    (head_dropWhile_blank l0)
  rw [← hsplit, hmk.bytes] at hfi
  -- not the end of the line
  have hbl : Lines.byteLen l0 = (lead l0).length + Lines.byteLen (l0.dropWhile Lines.isBlank) := by
    have := congrArg Lines.byteLen (Lines.lead_append_rest l0)
    simp only [Lines.byteLen_append, Lines.byteLen_lead] at this
    omega
  have hrest : 1 ≤ Lines.byteLen (l0.dropWhile Lines.isBlank) := by
    cases hd : l0.dropWhile Lines.isBlank with
    | nil => exact absurd hd hnb
    | cons c r => have := Lines.utf8Size_pos' c; simp; omega
  have hne : (mk.length + (' ' :: lead l0).length == mk.length + 1 + Lines.byteLen l0) = false := by
    apply Bool.eq_false_iff.mpr
    simp only [ne_eq, beq_iff_eq, List.length_cons]
    omega
  have hfresh : freshEntry L 0 = ⟨0, Lines.byteLen l0, (lead l0).length, ((lead l0).length : Int)⟩ := by
    have htl : '\t' ∉ lead l0 := fun hc => htab ((List.takeWhile_sublist _).subset hc)
    rw [hfresh0]
    simp [mkOff, indentWidth_tabfree _ htl]
  unfold itemRewrite
  simp only [show ¬ ((0 : Int) < 0) by omega, if_false, hsl, liftL_ok', ok_bind, psub_eq (Nat.zero_le _), Nat.add_zero,
    Nat.sub_zero, hfi, hne, Bool.false_eq_true, pure, Except.pure, hfresh, shiftE]
  have hia : (if (' ' :: lead l0).length > 4 then 1 else (' ' :: lead l0).length) = 1 := by
    simp only [List.length_cons]
    rcases hind with h | h
    · rw [if_neg (by omega)]; omega
    · rw [if_pos (by omega)]
  simp only [hne, Bool.false_eq_true, if_false, hia, Except.ok.injEq, Prod.mk.injEq, and_true]
  simp only [List.length_cons, Int.toNat_zero]
  refine ⟨?_, by omega⟩
  congr 1 <;> (try push_cast) <;> omega

end fresh

/-! ### symbolic execution of the list rule on a one-item list -/

section exec

/-- one list item whose body is handed to the nested tokenizer -/
theorem listItem_exec {tok : Tok} {A : BState} {m pos : Nat} {pee tight : Bool} {o o₂ : LineOffset} {indent : Nat}
    (ho : A.off m = .ok o) (hrw : itemRewrite A.src o pos = .ok (o₂, indent, false)) {t' : BState}
    (htok : tok { src := A.src, offs := A.offs.set m o₂, blkIndent := indent, line := m, lineMax := A.lineMax,
                  tight := true, listIndent := some A.blkIndent, level := A.level + 1, nodeKind := .listItem,
                  children := [], refs := A.refs } = .ok t')
    (hlv : t'.level = A.level + 1) (hli : t'.listIndent = some A.blkIndent) (hoffs : t'.offs = A.offs.set m o₂)
    (hln : m + 1 ≤ t'.line) {r : Nat × Nat} (hr : Lines.getMap A.offs m (t'.line - 1) = .ok r) :
    ∃ pee', listItem tok A m pos pee tight =
      .ok ({ t' with level := A.level, blkIndent := A.blkIndent, listIndent := A.listIndent, offs := A.offs,
                     tight := A.tight, nodeKind := A.nodeKind,
                     children := A.children ++ [⟨t'.nodeKind, some r, t'.children⟩] },
           (if ¬ t'.tight ∨ pee then false else tight), pee') := by
  have hm : m < A.offs.length := off_lt ho
  have hself : (A.offs.set m o₂).set m o = A.offs := by
    rw [List.set_set]
    have := (List.getElem?_eq_some_iff.mp (off_ok ho)).2
    rw [← this]; exact List.set_getElem_self _
  unfold listItem listItemBody prevEmptyEndOf
  simp only [ho, hrw, ok_bind, BState.setOff, hm, if_true, Bool.false_eq_true, false_and, if_false, htok, hlv,
    psub_eq (Nat.le_add_left 1 A.level), Nat.add_sub_cancel, hli, hoffs, List.length_set, hself,
    psub_eq (show m ≤ t'.line by omega), psub_eq (show 1 ≤ t'.line by omega), pure, Except.pure]
  split
  · simp only [ok_bind, BState.getMap, hr, liftL_ok']
    exact ⟨_, rfl⟩
  · simp only [ok_bind, BState.getMap, hr, liftL_ok']
    exact ⟨_, rfl⟩

/-- the list loop over a list of one item that ends at `line_max` -/
theorem listLoop_exec {tok : Tok} {test : Test} {ordered : Bool} {mc : Char} {fuel : Nat} {A A8 : BState}
    {m pos : Nat} {pee tight tg pee' : Bool} (hlt : m < A.lineMax)
    (hitem : listItem tok A m pos pee tight = .ok (A8, tg, pee')) (hend : A8.line ≥ A8.lineMax) :
    listLoop tok test ordered mc (fuel + 1) A m pos pee tight = .ok (A8.line, tg, A8) := by
  simp only [listLoop, hlt, not_true_eq_false, if_false, hitem, ok_bind, listContinue, if_pos hend, pure, Except.pure]

/-- the node value of a list, from what `detectMarker` / `markerCharOf` return -/
def kindOf (mv : Option Nat) (mc : Char) : Kind :=
  match mv with
  | some v => .orderedList v mc
  | none => .bulletList mc

/-- the list rule in real mode over a list of one item -/
theorem listRule_exec {tok : Tok} {test : Test} {fuel : Nat} {A0 A8 : BState} {cur : List Char} {pos : Nat}
    {mv : Option Nat} {mc : Char} {n : Nat} {tg : Bool} {item : BNode} {r : Nat × Nat}
    (hind : A0.lineIndent A0.line = .ok 0) (hsp : listSpecial A0 = .ok false)
    (hcur : A0.getLine A0.line = .ok cur) (hdet : detectMarker cur = .ok (some (pos, mv)))
    (hmc : markerCharOf cur pos = .ok mc)
    (hloop : listLoop tok test mv.isSome mc fuel
      { A0 with nodeKind := kindOf mv mc, children := [], level := A0.level + 1 } A0.line pos false true
        = .ok (n, tg, A8))
    (hch : A8.children = [item]) (hik : item.kind = .listItem) (hlv : A8.level = A0.level + 1) (hn : 1 ≤ n)
    (hr : A8.getMap A0.line (n - 1) = .ok r) :
    listRule tok test fuel A0 false =
      .ok (true, { A8 with level := A0.level, nodeKind := A0.nodeKind,
                           children := A0.children ++ [⟨A8.nodeKind, some r,
                             if tg then [{ item with children := markTight item.children }] else [item]⟩] }) := by
  unfold kindOf at hloop
  unfold listRule
  cases mv with
  | none =>
    simp only [Option.isSome_none] at hloop
    simp only [Bool.false_eq_true, false_and, if_false, hind, ok_bind, hsp, hcur, hdet, emptyItemCheck, pure, Except.pure,
      hmc, Bool.false_and, show ¬ ((0 : Int) ≥ 4) by omega, decide_false, Option.isSome_none, hloop, hch, hlv,
      psub_eq (Nat.le_add_left 1 A0.level), Nat.add_sub_cancel, psub_eq hn, hr]
    cases tg with
    | true => simp only [if_true, tightenItems, hik, ne_eq, not_true_eq_false, if_false, ok_bind]
    | false => simp only [Bool.false_eq_true, if_false, ok_bind]
  | some v =>
    simp only [Option.isSome_some] at hloop
    simp only [Bool.false_eq_true, false_and, if_false, hind, ok_bind, hsp, hcur, hdet, emptyItemCheck, pure, Except.pure,
      hmc, Bool.false_and, show ¬ ((0 : Int) ≥ 4) by omega, decide_false, Option.isSome_some, hloop, hch, hlv,
      psub_eq (Nat.le_add_left 1 A0.level), Nat.add_sub_cancel, psub_eq hn, hr]
    cases tg with
    | true => simp only [if_true, tightenItems, hik, ne_eq, not_true_eq_false, if_false, ok_bind]
    | false => simp only [Bool.false_eq_true, if_false, ok_bind]

end exec

/-! ### the outer run on the prefixed document -/

section outer
variable {mk : List Char}

theorem slice_first_line (hmk : MkOk mk) {L : DLines} {l0 t0 : List Char} {rest : DLines} (hL0 : L = (l0, t0) :: rest) :
    Lines.slice (Lines.flat (indentLines (preAt mk) L)) 0 (mk.length + 1 + Lines.byteLen l0)
      = .ok (mk ++ ' ' :: l0) := by
  have h0 : 0 < L.length := by rw [hL0]; simp
  have hg0 : L[0] = (l0, t0) := by simp [hL0]
  have hi' : 0 < (indentLines (preAt mk) L).length := by rw [indentLines_length]; exact h0
  have hp : preAt mk 0 = mk ++ [' '] := by unfold preAt; rw [if_pos rfl]
  have hline0 := indentLines_getElem (preAt mk) L 0 h0
  rw [hg0] at hline0
  have hline : ((indentLines (preAt mk) L)[0]'hi').1 = mk ++ ' ' :: l0 := by
    rw [hline0, hp]; simp
  have := slice_in_line (indentLines (preAt mk) L) 0 hi' [] (mk ++ ' ' :: l0) [] (by rw [hline]; simp)
  simp only [startOf_zero, Lines.byteLen_nil, Nat.add_zero, Nat.zero_add, Lines.byteLen_append, hmk.bytes,
    Lines.byteLen_cons, show ' '.utf8Size = 1 by decide] at this
  rw [← this]; congr 1; omega

/-- the list rule on the prefixed document, given the run on `D` -/
theorem list_on_prefixed {cfg cfg' : Cfg} (R : CfgRel cfg cfg') (hmk : MkOk mk) (D : List Char)
    (htab : '\t' ∉ D) (hsize : Lines.byteLen D + mk.length + 9 < 2147483648)
    (hfirst : FirstOk (Lines.linesT D)) (hnest : 0 < cfg.maxNesting)
    {mv : Option Nat} {mc : Char}
    (hdet : ∀ rest, detectMarker (mk ++ ' ' :: rest) = .ok (some (mk.length, mv)))
    (hmc : ∀ rest, markerCharOf (mk ++ ' ' :: rest) mk.length = .ok mc)
    {G : Nat} {t : BState} (ht : tokenize cfg G (BState.fresh D .root []) = .ok t) :
    ∃ (t1 : BState) (r : Nat × Nat),
      listRule (tokenize cfg' G) (testRules cfg' G) (G + 1) (BState.fresh (itemDoc mk D) .root []) false
        = .ok (true, t1) ∧
      t1.line = (Lines.linesT D).length ∧ t1.lineMax = (Lines.linesT D).length ∧ t1.nodeKind = .root ∧
      t1.refs = t.refs ∧
      t1.children = [⟨kindOf mv mc, some r, [⟨.listItem, some r,
          if t.tight then markTight (relocNodes (tau (mk.length + 1) (Lines.linesT D)) t.children)
          else relocNodes (tau (mk.length + 1) (Lines.linesT D)) t.children⟩]⟩] ∧
      Lines.getMap (Lines.splitLines (itemDoc mk D)) 0 ((Lines.linesT D).length - 1) = .ok r := by
  obtain ⟨L, hLdef⟩ : ∃ L, L = Lines.linesT D := ⟨_, rfl⟩
  rw [← hLdef] at hfirst ⊢
  have hL : LinesOk L := by rw [hLdef]; exact linesOk_linesT D htab (by omega)
  have hflat : Lines.flat L = D := by rw [hLdef]; exact Lines.linesT_flat D
  obtain ⟨l0, t0, rest, hL0, hnb, hind⟩ := hfirst
  have hn1 : 1 ≤ L.length := by rw [hL0]; simp
  have hg0 : L[0] = (l0, t0) := by simp [hL0]
  obtain ⟨C, hC⟩ : ∃ C : Ctx, C = ⟨mk.length + 1, preAt mk, L⟩ := ⟨_, rfl⟩
  obtain ⟨s0, hs0⟩ : ∃ s0, s0 = BState.fresh D .root [] := ⟨_, rfl⟩
  obtain ⟨A0, hA0⟩ : ∃ A0, A0 = BState.fresh (itemDoc mk D) .root [] := ⟨_, rfl⟩
  rw [← hs0] at ht
  rw [← hA0]
  -- the two fresh tables
  have hoffs0 : s0.offs = Lines.offsetsOf 0 L := by rw [hs0, hLdef]; exact Lines.splitLines_eq D
  have hoffsA : A0.offs = Lines.offsetsOf 0 (indentLines (preAt mk) L) := by
    rw [hA0, hLdef]; exact splitLines_itemDoc hmk D
  have hlen0 : s0.offs.length = L.length := by rw [hoffs0]; simp
  have hlenA : A0.offs.length = L.length := by rw [hoffsA]; simp
  have hlm0 : s0.lineMax = L.length := by rw [← hlen0, hs0]; rfl
  have hlmA : A0.lineMax = L.length := by rw [← hlenA, hA0]; rfl
  have hsrcA : A0.src = Lines.flat (indentLines (preAt mk) L) := by rw [hA0, hLdef]; rfl
  have hA0line : A0.line = 0 := by rw [hA0]; rfl
  have hA0blk : A0.blkIndent = 0 := by rw [hA0]; rfl
  have hA0lvl : A0.level = 0 := by rw [hA0]; rfl
  have hA0li : A0.listIndent = none := by rw [hA0]; rfl
  have hA0k : A0.nodeKind = .root := by rw [hA0]; rfl
  have hA0c : A0.children = [] := by rw [hA0]; rfl
  have hA0r : A0.refs = [] := by rw [hA0]; rfl
  have hA0t : A0.tight = false := by rw [hA0]; rfl
  have hentA : ∀ i, i < L.length → A0.offs[i]? = some (freshEntry (indentLines (preAt mk) L) i) := fun i hi => by
    rw [hoffsA]; exact offsetsOf_entry _ i (by rw [indentLines_length]; exact hi)
  have hent0 : ∀ i, i < L.length → s0.offs[i]? = some (freshEntry L i) := fun i hi => by
    rw [hoffs0]; exact offsetsOf_entry _ i hi
  have hfirstE : freshEntry (indentLines (preAt mk) L) 0 = ⟨0, mk.length + 1 + Lines.byteLen l0, 0, 0⟩ := by
    have := fresh_first (L := L) hmk (by omega)
    rw [hg0] at this; exact this
  -- reading line 0
  have hoffA0 : A0.off 0 = .ok ⟨0, mk.length + 1 + Lines.byteLen l0, 0, 0⟩ := by
    simp [BState.off, hentA 0 (by omega), hfirstE]
  have hindA : A0.lineIndent A0.line = .ok 0 := by
    simp [BState.lineIndent, Lines.lineIndent, hA0line, hentA 0 (by omega), hfirstE, hA0blk, liftL]
  have hcurA : A0.getLine A0.line = .ok (mk ++ ' ' :: l0) := by
    simp only [BState.getLine, Lines.getLine, hA0line, hentA 0 (by omega), hfirstE, hsrcA, slice_first_line hmk hL0,
      liftL_ok']
  have hspA : listSpecial A0 = .ok false := by simp [listSpecial, hA0li, pure, Except.pure]
  -- the item's first line
  have hrw := itemRewrite_first hmk hL hL0 hnb hind
  rw [← hsrcA] at hrw
  obtain ⟨E0, hE0⟩ : ∃ E0, E0 = shiftE (mk.length + 1) ((mk.length + 1 : Nat) : Int) 0 (freshEntry L 0) := ⟨_, rfl⟩
  rw [← hE0] at hrw
  -- the state handed to the nested tokenizer
  obtain ⟨B, hB⟩ : ∃ B : BState, B = (⟨A0.src, A0.offs.set 0 E0, mk.length + 1, 0, A0.lineMax, true, some A0.blkIndent,
      A0.level + 1 + 1, .listItem, [], A0.refs⟩ : BState) := ⟨_, rfl⟩
  have hwin : Win (mk.length + 1) (mk.length + 1) 0 L.length s0.offs B.offs := by
    intro i _ hi
    refine ⟨?_, fun _ o ho => ?_⟩
    · rw [hent0 i hi, hB]
      simp only [Option.map_some]
      by_cases hi0 : i = 0
      · subst hi0
        simp only [List.getElem?_set, if_true, hlenA, hE0]
        rw [if_pos (by omega)]
      · simp only [List.getElem?_set, if_neg (Ne.symm hi0)]
        rw [hentA i hi, fresh_shift hmk hL i (by omega) hi]
    · rw [hent0 i hi] at ho
      cases ho
      simp [freshEntry, List.getElem?_eq_getElem hi, mkOff]
  have hq_ok : ∀ (i : Nat) (o : LineOffset), s0.offs[i]? = some o → EntryOk L i o := by
    intro i o ho
    have hi : i < L.length := by
      have := (List.getElem?_eq_some_iff.mp ho).1; omega
    rw [hent0 i hi] at ho
    cases ho
    exact entryOk_fresh hL i hi
  have hq_geo : ∀ i : Nat, ∃ di : Int, B.offs[i]? = (s0.offs[i]?).map (shiftE (mk.length + 1) di i) := by
    intro i
    by_cases hi : i < L.length
    · exact ⟨((mk.length + 1 : Nat) : Int), (hwin i (Nat.zero_le _) hi).1⟩
    · refine ⟨0, ?_⟩
      have h1 : B.offs[i]? = none := by
        apply List.getElem?_eq_none; rw [hB]; simp only [List.length_set]; omega
      have h2 : s0.offs[i]? = none := by
        apply List.getElem?_eq_none; omega
      rw [h1, h2]; rfl
  have T0 : Tbl C 0 (mk.length + 1) s0 B := by
    subst hC
    exact { pre := preOk_preAt hmk, lines := hL, src := by rw [hs0, hflat]; rfl, src' := by rw [hB]; exact hsrcA,
            q := ⟨hlen0, hq_ok, hq_geo⟩, win := by rw [hlm0]; exact hwin,
            blk := by rw [hB, hs0]; simp [BState.fresh],
            small := by rw [hs0]; exact Nat.zero_le _, dsmall := Nat.le_refl _,
            wsize := by simp only; rw [hflat]; omega }
  have hs0li : s0.listIndent = none := by rw [hs0]; rfl
  have hs0blk : s0.blkIndent = 0 := by rw [hs0]; rfl
  have hs0line : s0.line = 0 := by rw [hs0]; rfl
  have S0 : Sim C 0 (mk.length + 1) false s0 B :=
    { tbl := T0, line := by rw [hB, hs0line], lineMax := by rw [hB]; simp only; rw [hlmA, hlm0],
      tight := (fun h => by cases h),
      listIndent := .inr (.inr ⟨hs0blk, hs0li, by rw [hB]; simp only; rw [hA0blk]⟩),
      level := by rw [hB]; simp only; rw [hA0lvl, hs0]; rfl,
      nodeKind := .inr ⟨by rw [hs0]; rfl, by rw [hB]⟩,
      children := by rw [hB, hs0]; rfl, refs := by rw [hB]; simp only; rw [hA0r, hs0]; rfl }
  have hlt0 : s0.line < s0.lineMax := by rw [hlm0, hs0line]; omega
  -- the nested run
  have hne0 : s0.isEmpty s0.line = false := by
    have hl : s0.line = 0 := by rw [hs0]; rfl
    simp only [BState.isEmpty, Lines.isEmpty, hl, hent0 0 (by omega)]
    simp only [freshEntry, List.getElem?_eq_getElem (show 0 < L.length by omega), hg0, mkOff, startOf_zero,
      decide_eq_false_iff_not, Nat.zero_add, ge_iff_le, Nat.not_le]
    have hbl : Lines.byteLen l0 = (lead l0).length + Lines.byteLen (l0.dropWhile Lines.isBlank) := by
      have := congrArg Lines.byteLen (Lines.lead_append_rest l0)
      simp only [Lines.byteLen_append, Lines.byteLen_lead] at this
      omega
    have hrest : 1 ≤ Lines.byteLen (l0.dropWhile Lines.isBlank) := by
      cases hd : l0.dropWhile Lines.isBlank with
      | nil => exact absurd hd hnb
      | cons c r => have := Lines.utf8Size_pos' c; simp; omega
    omega
  have hi0 : IndentOk s0 := by
    have hl : s0.line = 0 := by rw [hs0]; rfl
    have hb : s0.blkIndent = 0 := by rw [hs0]; rfl
    refine ⟨_, lineIndent_of_off (by rw [hl]; exact hent0 0 (by omega)), ?_⟩
    simp [hb, freshEntry, List.getElem?_eq_getElem (show 0 < L.length by omega), mkOff]
  obtain ⟨t', htok', St⟩ := tokenize_sim_first (C := C) R S0 (Nat.zero_le _) hlt0
    hne0 hi0 (by rw [hs0]; exact hnest) ht
  have hfr' := (tokenize_tokSpec cfg' G).frame _ _ htok'
  -- the lines consumed
  have htl : t.line = L.length := by
    have h1 := tokenize_fresh_end (cfg := cfg) (F := G) (D := D) (k := .root) (refs := []) (t := t) (by rw [← hs0]; exact ht)
    rw [h1, ← hlen0, hs0]; rfl
  have ht'l : t'.line = L.length := by rw [St.line, htl]
  -- the range
  obtain ⟨r, hr0⟩ : ∃ r, Lines.getMap A0.offs 0 (L.length - 1) = .ok r := by
    have h0 : 0 < A0.offs.length := by omega
    have h1 : L.length - 1 < A0.offs.length := by omega
    refine ⟨(A0.offs[0].firstNonspace, A0.offs[L.length - 1].lineEnd), ?_⟩
    simp [Lines.getMap, List.getElem?_eq_getElem h0, List.getElem?_eq_getElem h1]
  -- the item
  obtain ⟨A1, hA1⟩ : ∃ A1 : BState, A1 = { A0 with nodeKind := kindOf mv mc, children := [], level := A0.level + 1 } := ⟨_, rfl⟩
  have htokB : tokenize cfg' G (⟨A1.src, A1.offs.set 0 E0, mk.length + 1, 0, A1.lineMax, true, some A1.blkIndent,
      A1.level + 1, .listItem, [], A1.refs⟩ : BState) = .ok t' := by
    rw [hA1]; rw [hB] at htok'; exact htok'
  obtain ⟨pee', hitem⟩ := listItem_exec (tok := tokenize cfg' G) (A := A1) (m := 0) (pos := mk.length) (pee := false)
    (tight := true) (o₂ := E0) (indent := mk.length + 1) (t' := t') (r := r)
    (by rw [hA1]; exact hoffA0) (by rw [hA1]; exact hrw) htokB
    (by rw [hfr'.level, hB, hA1]) (by rw [hfr'.listIndent, hB, hA1]) (by rw [hfr'.offs, hB, hA1])
    (by omega) (by rw [ht'l, hA1]; exact hr0)
  -- the loop
  have hloop := listLoop_exec (test := testRules cfg' G) (ordered := mv.isSome) (mc := mc) (fuel := G)
    (show 0 < A1.lineMax by rw [hA1]; simp only; omega) hitem
    (by simp only [ge_iff_le]; rw [hfr'.lineMax, ht'l, hB]; simp only; omega)
  simp only at hloop
  rw [ht'l] at hloop
  -- the rule
  have hrule := listRule_exec (tok := tokenize cfg' G) (test := testRules cfg' G) (fuel := G + 1) (A0 := A0)
    (pos := mk.length) (mv := mv) (mc := mc) (n := L.length) (r := r)
    (item := ⟨t'.nodeKind, some r, t'.children⟩) hindA hspA hcurA (hdet l0) (hmc l0)
    (by rw [hA1] at hloop; simp only [hA0line] at hloop ⊢; exact hloop)
    rfl (by simp only; rw [hfr'.nodeKind, hB]) rfl hn1
    (by simp only [BState.getMap, hA0line, hr0, liftL_ok'])
  refine ⟨_, r, hrule, ?_, ?_, ?_, ?_, ?_, ?_⟩
  · simp only [ht'l]
  · simp only; rw [hfr'.lineMax, hB]; exact hlmA
  · simp only [hA0k]
  · simp only [St.refs]
  · simp only [hA0c, List.nil_append, hA1, St.children, hfr'.nodeKind, hB, St.tight rfl]
    subst hC
    cases t.tight <;> simp
  · rw [← hr0, hA0]; rfl
/-- reading line 0 of the prefixed document in the fresh state -/
theorem fresh_item_reads (hmk : MkOk mk) (D : List Char) {l0 t0 : List Char} {rest : DLines}
    (hL0 : Lines.linesT D = (l0, t0) :: rest) :
    (BState.fresh (itemDoc mk D) .root []).lineIndent 0 = .ok 0 ∧
    (BState.fresh (itemDoc mk D) .root []).getLine 0 = .ok (mk ++ ' ' :: l0) ∧
    (BState.fresh (itemDoc mk D) .root []).isEmpty 0 = false := by
  obtain ⟨L, hLdef⟩ : ∃ L, L = Lines.linesT D := ⟨_, rfl⟩
  rw [← hLdef] at hL0
  have hn1 : 1 ≤ L.length := by rw [hL0]; simp
  have hg0 : L[0] = (l0, t0) := by simp [hL0]
  obtain ⟨A0, hA0⟩ : ∃ A0, A0 = BState.fresh (itemDoc mk D) .root [] := ⟨_, rfl⟩
  rw [← hA0]
  have hoffsA : A0.offs = Lines.offsetsOf 0 (indentLines (preAt mk) L) := by
    rw [hA0, hLdef]; exact splitLines_itemDoc hmk D
  have hsrcA : A0.src = Lines.flat (indentLines (preAt mk) L) := by rw [hA0, hLdef]; rfl
  have hA0blk : A0.blkIndent = 0 := by rw [hA0]; rfl
  have hentA : A0.offs[0]? = some (freshEntry (indentLines (preAt mk) L) 0) := by
    rw [hoffsA]; exact offsetsOf_entry _ 0 (by rw [indentLines_length]; omega)
  have hfirstE : freshEntry (indentLines (preAt mk) L) 0 = ⟨0, mk.length + 1 + Lines.byteLen l0, 0, 0⟩ := by
    have := fresh_first (L := L) hmk (by omega)
    rw [hg0] at this; exact this
  refine ⟨?_, ?_, ?_⟩
  · simp [BState.lineIndent, Lines.lineIndent, hentA, hfirstE, hA0blk, liftL]
  · simp only [BState.getLine, Lines.getLine, hentA, hfirstE, hsrcA, slice_first_line hmk hL0, liftL_ok']
  · simp [BState.isEmpty, Lines.isEmpty, hentA, hfirstE]

/-- the rules that may stand in front of the list rule in the chain -/
def frontOkL : RuleId → Bool
  | .code | .fence | .blockquote | .hr | .reference | .heading => true
  | _ => false

/-- the thematic-break rule in real mode rejects a line that its look-ahead rejects -/
theorem hr_rejects {s : BState} {line : List Char} (hind : s.lineIndent s.line = .ok 0)
    (hline : s.getLine s.line = .ok line) (h : hrLook 0 line = false) : hrRule s false = .ok (false, s) := by
  unfold hrRule
  simp only [hind, ok_bind, show ¬ ((0 : Int) ≥ 4) by omega, if_false, hline]
  unfold hrLook at h
  simp only [show ¬ ((0 : Int) ≥ 4) by omega, if_false] at h
  cases line with
  | nil => rfl
  | cons m rest =>
    simp only at h ⊢
    split
    · rfl
    · rw [if_neg ‹_›] at h
      split
      · rfl
      · rename_i cnt hc
        rw [hc] at h
        simp only [Bool.not_eq_false', decide_eq_true_eq] at h
        rw [if_pos h]
        rfl

/-- a front rule rejects a line that starts with a list-marker character at indent 0 (and is not a
    thematic break) -/
theorem front_rejects_L {cfg : Cfg} {tok : Tok} {test : Test} {fuel : Nat} {r : RuleId} (hr : frontOkL r = true)
    {s : BState} {c : Char} {rest : List Char} (hind : s.lineIndent s.line = .ok 0)
    (hline : s.getLine s.line = .ok (c :: rest))
    (hc : c ≠ '~' ∧ c ≠ '`' ∧ c ≠ '>' ∧ c ≠ '#' ∧ c ≠ '[') (hhr : r = .hr → hrLook 0 (c :: rest) = false) :
    runRule cfg tok test fuel r s false = .ok (false, s) := by
  cases r <;> simp [frontOkL] at hr
  · simp [runRule, codeRule, hind, pure, Except.pure]
  · simp [runRule, fenceRule, hind, hline, pure, Except.pure, hc.1, hc.2.1]
  · simp [runRule, blockquoteRule, hind, hline, pure, Except.pure, hc.2.2.1]
  · exact hr_rejects hind hline (hhr rfl)
  · simp [runRule, referenceRule, hind, hline, pure, Except.pure, hc.2.2.2.2]
  · simp [runRule, headingRule, hind, hline, pure, Except.pure, hc.2.2.2.1]

theorem runChain_front_L {run : RuleId → BState → Bool → Res} {s : BState} :
    ∀ (pre : List RuleId) (post : List RuleId), (∀ r ∈ pre, run r s false = .ok (false, s)) →
      runChain run (pre ++ post) s false = runChain run post s false := by
  intro pre
  induction pre with
  | nil => intro post _; rfl
  | cons r rs ih =>
    intro post h
    simp only [List.cons_append, runChain, h r (by simp)]
    exact ih post (fun x hx => h x (List.mem_cons_of_mem _ hx))

/-- what `tau` does, in terms of the two documents: byte `x` of line `i` of `D` (the position of the line's
    end included) lands on byte `w + x` of line `i` of the prefixed document -/
theorem tau_spec (hmk : MkOk mk) (D : List Char) (htab : '\t' ∉ D) (hsize : Lines.byteLen D + 8 < 2147483648) {i : Nat}
    (h : i < (Lines.linesT D).length) {x : Nat} (hx : x ≤ Lines.byteLen (Lines.linesT D)[i].1) :
    tau (mk.length + 1) (Lines.linesT D) (startOf (Lines.linesT D) i + x)
      = startOf (indentLines (preAt mk) (Lines.linesT D)) i + (mk.length + 1) + x := by
  rw [tau_in_line _ (linesOk_linesT D htab hsize) h hx, startOf_indent (preOk_preAt hmk) _ _ (Nat.le_of_lt h)]

/-- **C06, list half, whole document** (general marker).  `D` a tab-free document whose first line is not
    blank and is indented by 0 or ≥ 4 columns; `mk` a marker the list rule recognises (`hdet`, `hmc`:
    `detectMarker` / `markerCharOf` on a line `mk ++ " " ++ …`), made of one-byte non-blank characters, not
    starting with a character another front rule reacts to; the chain of `cfg` has the list rule behind
    rules of `frontOkL` only, and if the thematic-break rule is among them the marker line is not a
    thematic break.  If the block tokenizer accepts `D` (final state `t`), then with two more levels of
    nesting allowed `itemDoc mk D` parses to a root with exactly one child, a list of the marker's kind
    with exactly one item, both over all lines, whose children are the blocks of `D` with every position
    moved by `tau` — paragraphs unwrapped exactly when the run on `D` ended `tight` — and the reference
    definitions collected are the same. -/
theorem item_commutes_gen (cfg : Cfg) (hmk : MkOk mk) {mv : Option Nat} {mc : Char}
    (hdet : ∀ rest, detectMarker (mk ++ ' ' :: rest) = .ok (some (mk.length, mv)))
    (hmc : ∀ rest, markerCharOf (mk ++ ' ' :: rest) mk.length = .ok mc)
    (hc0 : ∀ c r, mk = c :: r → c ≠ '~' ∧ c ≠ '`' ∧ c ≠ '>' ∧ c ≠ '#' ∧ c ≠ '[')
    (D : List Char) (htab : '\t' ∉ D) (hsize : Lines.byteLen D + mk.length + 9 < 2147483648)
    (hfirst : FirstOk (Lines.linesT D)) (hnest : 0 < cfg.maxNesting)
    (pre post : List RuleId) (hchain : cfg.chain = pre ++ .list :: post)
    (hpre : ∀ r ∈ pre, frontOkL r = true)
    (hhr : .hr ∈ pre → ∀ l0 t0 rest, Lines.linesT D = (l0, t0) :: rest → hrLook 0 (mk ++ ' ' :: l0) = false)
    {t : BState} (h : tokenize cfg (fuelFor cfg D) (BState.fresh D .root []) = .ok t) :
    ∃ r, Lines.getMap (Lines.splitLines (itemDoc mk D)) 0 ((Lines.linesT D).length - 1) = .ok r ∧
      parseBlocks { cfg with maxNesting := cfg.maxNesting + 2 } (itemDoc mk D) =
      .ok (⟨.root, some (0, Lines.byteLen (itemDoc mk D)),
            [⟨kindOf mv mc, some r, [⟨.listItem, some r,
              if t.tight then markTight (relocNodes (tau (mk.length + 1) (Lines.linesT D)) t.children)
              else relocNodes (tau (mk.length + 1) (Lines.linesT D)) t.children⟩]⟩]⟩, t.refs) := by
  obtain ⟨cfg', hcfg'⟩ : ∃ c, c = { cfg with maxNesting := cfg.maxNesting + 2 } := ⟨_, rfl⟩
  have R : CfgRel cfg cfg' := by subst hcfg'; exact ⟨rfl, rfl, rfl, rfl, rfl⟩
  rw [← hcfg']
  have hn : (Lines.splitLines D).length = (Lines.linesT D).length := by rw [Lines.splitLines_eq]; simp
  have hn' : (Lines.splitLines (itemDoc mk D)).length = (Lines.linesT D).length := by
    rw [splitLines_itemDoc hmk]; simp
  obtain ⟨l0, t0, rest, hL0, hnb, hind⟩ := id hfirst
  have hn1 : 1 ≤ (Lines.linesT D).length := by rw [hL0]; simp
  have hmk1 : 1 ≤ mk.length := by
    cases hm : mk with
    | nil => exact absurd hm hmk.ne
    | cons c r => simp
  obtain ⟨G, hG, hle, hGn⟩ : ∃ G, fuelFor cfg' (itemDoc mk D) = G + 2 ∧ fuelFor cfg D ≤ G + 1 ∧
      (Lines.linesT D).length < G + 2 := by
    refine ⟨fuelFor cfg' (itemDoc mk D) - 2, ?_, ?_, ?_⟩
    · unfold fuelFor; omega
    · unfold fuelFor
      rw [hn, hn', byteLen_itemDoc hmk, R.nesting]
      have : 2 ≤ (mk.length + 1) * (Lines.linesT D).length := by
        calc 2 = 2 * 1 := rfl
          _ ≤ (mk.length + 1) * (Lines.linesT D).length := Nat.mul_le_mul (by omega) hn1
      omega
    · unfold fuelFor
      rw [hn']
      omega
  have ht := tokenize_mono hle h
  obtain ⟨t1, r, hrule, h1, h2, h3, h4, h5, h6⟩ := list_on_prefixed R hmk D htab hsize hfirst hnest hdet hmc (G := G + 1) ht
  refine ⟨r, h6, ?_⟩
  obtain ⟨hind0, hline0, hne0⟩ := fresh_item_reads hmk D hL0
  obtain ⟨c0, r0, hc0r⟩ : ∃ c r, mk = c :: r := by
    cases hm : mk with
    | nil => exact absurd hm hmk.ne
    | cons c r => exact ⟨c, r, rfl⟩
  have hline0' : (BState.fresh (itemDoc mk D) .root []).getLine 0 = .ok (c0 :: (r0 ++ ' ' :: l0)) := by
    rw [hline0, hc0r]; rfl
  have hrej : ∀ r ∈ pre, runRule cfg' (tokenize cfg' (G + 1)) (testRules cfg' (G + 1)) (G + 2) r
      (BState.fresh (itemDoc mk D) .root []) false = .ok (false, BState.fresh (itemDoc mk D) .root []) :=
    fun r hr => front_rejects_L (hpre r hr) hind0 hline0' (hc0 c0 r0 hc0r) (fun hrr => by
      subst hrr
      have := hhr hr l0 t0 rest hL0
      rw [hc0r] at this; exact this)
  have hrun : runChain (runRule cfg' (tokenize cfg' (G + 1)) (testRules cfg' (G + 1)) (G + 2)) cfg'.chain
      (BState.fresh (itemDoc mk D) .root []) false = .ok (true, t1) := by
    rw [R.chain, hchain, runChain_front_L pre _ hrej]
    simp only [runChain, runRule, hrule]
  have htok : tokenize cfg' (G + 2) (BState.fresh (itemDoc mk D) .root []) = .ok { t1 with tight := !false } := by
    simp only [tokenize, engine]
    exact tokLoop_one (by show 0 < (Lines.splitLines (itemDoc mk D)).length; rw [hn']; omega) hne0 hind0
      (by rw [R.nesting]; exact Nat.succ_pos _) hrun (by rw [h1]; exact hn1) (by rw [h1, h2]; exact Nat.le_refl _)
  unfold parseBlocks
  rw [hG, htok]
  simp [h3, h4, h5]
end outer

/-- `item_commutes_gen` in terms of `parseBlocks` alone: `tg` is the `tight` flag the run on `D` ends with -/
theorem item_commutes_gen_parse {mk : List Char} (cfg : Cfg) (hmk : MkOk mk) {mv : Option Nat} {mc : Char}
    (hdet : ∀ rest, detectMarker (mk ++ ' ' :: rest) = .ok (some (mk.length, mv)))
    (hmc : ∀ rest, markerCharOf (mk ++ ' ' :: rest) mk.length = .ok mc)
    (hc0 : ∀ c r, mk = c :: r → c ≠ '~' ∧ c ≠ '`' ∧ c ≠ '>' ∧ c ≠ '#' ∧ c ≠ '[')
    (D : List Char) (htab : '\t' ∉ D) (hsize : Lines.byteLen D + mk.length + 9 < 2147483648)
    (hfirst : FirstOk (Lines.linesT D)) (hnest : 0 < cfg.maxNesting)
    (pre post : List RuleId) (hchain : cfg.chain = pre ++ .list :: post)
    (hpre : ∀ r ∈ pre, frontOkL r = true)
    (hhr : .hr ∈ pre → ∀ l0 t0 rest, Lines.linesT D = (l0, t0) :: rest → hrLook 0 (mk ++ ' ' :: l0) = false)
    {root : BNode} {refs : Refs.RefMap} (h : parseBlocks cfg D = .ok (root, refs)) :
    ∃ (tg : Bool) (r : Nat × Nat),
      Lines.getMap (Lines.splitLines (itemDoc mk D)) 0 ((Lines.linesT D).length - 1) = .ok r ∧
      parseBlocks { cfg with maxNesting := cfg.maxNesting + 2 } (itemDoc mk D) =
      .ok (⟨.root, some (0, Lines.byteLen (itemDoc mk D)),
            [⟨kindOf mv mc, some r, [⟨.listItem, some r,
              if tg then markTight (relocNodes (tau (mk.length + 1) (Lines.linesT D)) root.children)
              else relocNodes (tau (mk.length + 1) (Lines.linesT D)) root.children⟩]⟩]⟩, refs) := by
  unfold parseBlocks at h
  cases htk : tokenize cfg (fuelFor cfg D) (BState.fresh D .root []) with
  | error e => rw [htk] at h; cases h
  | ok t =>
    rw [htk] at h
    simp only [Except.ok.injEq, Prod.mk.injEq] at h
    obtain ⟨rfl, rfl⟩ := h
    obtain ⟨r, h1, h2⟩ := item_commutes_gen cfg hmk hdet hmc hc0 D htab hsize hfirst hnest pre post hchain hpre hhr htk
    exact ⟨t.tight, r, h1, h2⟩

/-! ### bullet markers -/

section bullet

theorem mkOk_bullet {c : Char} (hc : c = '-' ∨ c = '*' ∨ c = '+') : MkOk [c] := by
  refine ⟨by simp, ?_, ?_⟩
  · intro x hx; simp at hx; subst hx; rcases hc with rfl | rfl | rfl <;> decide
  · intro x hx; simp at hx; subst hx; rcases hc with rfl | rfl | rfl <;> decide

theorem detect_bullet {c : Char} (hc : c = '-' ∨ c = '*' ∨ c = '+') (rest : List Char) :
    detectMarker ([c] ++ ' ' :: rest) = .ok (some (([c] : List Char).length, none)) := by
  rcases hc with rfl | rfl | rfl <;>
    simp [detectMarker, skipOrdered, skipBullet, isDigit, isBlank, pure, Except.pure]

theorem markerChar_bullet {c : Char} (hc : c = '-' ∨ c = '*' ∨ c = '+') (rest : List Char) :
    markerCharOf ([c] ++ ' ' :: rest) ([c] : List Char).length = .ok c := by
  have hs : Lines.slice ([c] ++ ' ' :: rest) 0 1 = .ok [c] :=
    Lines.slice_eq_ok_iff.mpr ⟨[], ' ' :: rest, rfl, rfl, by
      rcases hc with rfl | rfl | rfl <;> decide⟩
  unfold markerCharOf
  simp only [List.length_singleton, hs, liftL_ok', ok_bind]
  rfl

/-- **C06, list half, bullet markers.**  `c` one of `-`, `*`, `+`; `D` a tab-free document (below 2 GiB)
    whose first line is not blank and is indented by 0 or ≥ 4 columns; the list rule stands in the chain
    behind rules of `frontOkL` only (code, fence, blockquote, hr, reference, heading: any selection and
    order, in particular the shipped one) and, if the thematic-break rule is among them, `c ++ " " ++`
    (first line of `D`) is not a thematic break; `max_nesting ≥ 1`.  If the block tokenizer accepts `D`
    with final state `t`, then with two more levels of nesting allowed `itemDoc [c] D` parses to
    `Root [ BulletList c [ ListItem (blocks of D, moved by tau) ] ]`, list and item over all lines, the
    paragraphs unwrapped iff `t.tight`; same reference map. -/
theorem item_commutes_bullet (cfg : Cfg) {c : Char} (hc : c = '-' ∨ c = '*' ∨ c = '+')
    (D : List Char) (htab : '\t' ∉ D) (hsize : Lines.byteLen D + 10 < 2147483648)
    (hfirst : FirstOk (Lines.linesT D)) (hnest : 0 < cfg.maxNesting)
    (pre post : List RuleId) (hchain : cfg.chain = pre ++ .list :: post)
    (hpre : ∀ r ∈ pre, frontOkL r = true)
    (hhr : .hr ∈ pre → ∀ l0 t0 rest, Lines.linesT D = (l0, t0) :: rest → hrLook 0 (c :: ' ' :: l0) = false)
    {t : BState} (h : tokenize cfg (fuelFor cfg D) (BState.fresh D .root []) = .ok t) :
    ∃ r, Lines.getMap (Lines.splitLines (itemDoc [c] D)) 0 ((Lines.linesT D).length - 1) = .ok r ∧
      parseBlocks { cfg with maxNesting := cfg.maxNesting + 2 } (itemDoc [c] D) =
      .ok (⟨.root, some (0, Lines.byteLen (itemDoc [c] D)),
            [⟨.bulletList c, some r, [⟨.listItem, some r,
              if t.tight then markTight (relocNodes (tau 2 (Lines.linesT D)) t.children)
              else relocNodes (tau 2 (Lines.linesT D)) t.children⟩]⟩]⟩, t.refs) :=
  item_commutes_gen cfg (mkOk_bullet hc) (detect_bullet hc) (markerChar_bullet hc)
    (fun x r hx => by
      simp at hx
      obtain ⟨rfl, _⟩ := hx
      rcases hc with rfl | rfl | rfl <;> decide)
    D htab (by simpa using hsize) hfirst hnest pre post hchain hpre hhr h

end bullet

/-! ### ordered markers -/

section ordered

/-- an ordered list marker: 1–9 ASCII digits and `.` or `)` -/
structure OrdMk (ds : List Char) (dl : Char) : Prop where
  ne : ds ≠ []
  len : ds.length ≤ 9
  digits : ∀ c ∈ ds, isDigit c = true
  delim : dl = '.' ∨ dl = ')'

/-- the number the digits spell -/
def ordValue (ds : List Char) : Nat := ds.foldl (fun acc c => acc * 10 + (c.toNat - 48)) 0

theorem digit_plain {c : Char} (h : isDigit c = true) :
    c ≠ ' ' ∧ c ≠ '\t' ∧ c ≠ '\n' ∧ c ≠ '\r' ∧ c ≠ '~' ∧ c ≠ '`' ∧ c ≠ '>' ∧ c ≠ '#' ∧ c ≠ '[' ∧ c ≠ ')' ∧ c ≠ '.' := by
  simp only [isDigit, Bool.and_eq_true, decide_eq_true_eq] at h
  refine ⟨?_, ?_, ?_, ?_, ?_, ?_, ?_, ?_, ?_, ?_, ?_⟩ <;> (intro hc; subst hc; revert h; decide)

theorem mkOk_ordered {ds : List Char} {dl : Char} (h : OrdMk ds dl) : MkOk (ds ++ [dl]) := by
  refine ⟨by simp, ?_, ?_⟩
  · intro x hx
    rcases List.mem_append.mp hx with hx | hx
    · exact isDigit_size (h.digits x hx)
    · simp at hx; subst hx; rcases h.delim with rfl | rfl <;> decide
  · intro x hx
    rcases List.mem_append.mp hx with hx | hx
    · have := digit_plain (h.digits x hx); exact ⟨this.1, this.2.1, this.2.2.1, this.2.2.2.1⟩
    · simp at hx; subst hx; rcases h.delim with rfl | rfl <;> decide

theorem ordLoop_digits {dl : Char} (hdl : dl = '.' ∨ dl = ')') (tail : List Char) :
    ∀ (ds : List Char) (pos : Nat), (∀ c ∈ ds, isDigit c = true) → pos + ds.length < 10 →
      ordLoop (ds ++ dl :: tail) pos = some (pos + ds.length + 1, tail)
  | [], pos, _, _ => by
    have hnd : isDigit dl = false := by rcases hdl with rfl | rfl <;> decide
    simp only [List.nil_append, ordLoop, hnd, Bool.false_eq_true, if_false, List.length_nil, Nat.add_zero]
    rw [if_pos (by rcases hdl with rfl | rfl <;> simp)]
  | c :: r, pos, hd, hl => by
    have hc := hd c (by simp)
    simp only [List.cons_append, ordLoop, hc, if_true]
    simp only [List.length_cons] at hl
    rw [if_neg (by omega), ordLoop_digits hdl tail r (pos + 1) (fun x hx => hd x (List.mem_cons_of_mem _ hx)) (by omega)]
    simp only [List.length_cons]
    congr 2
    omega

theorem skipOrdered_marker_line {ds : List Char} {dl : Char} (h : OrdMk ds dl) (rest : List Char) :
    skipOrdered ((ds ++ [dl]) ++ ' ' :: rest) = some (ds ++ [dl]).length := by
  cases hds : ds with
  | nil => exact absurd hds h.ne
  | cons c r =>
    have hd : ∀ x ∈ c :: r, isDigit x = true := by rw [← hds]; exact h.digits
    have hl : (c :: r).length ≤ 9 := by rw [← hds]; exact h.len
    simp only [List.length_cons] at hl
    have := ordLoop_digits h.delim (' ' :: rest) r 1 (fun x hx => hd x (List.mem_cons_of_mem _ hx)) (by omega)
    simp only [List.cons_append, List.append_assoc, List.singleton_append, List.nil_append, skipOrdered, hd c (by simp),
      if_true, this, isBlank, decide_true, Bool.true_or, List.length_cons, List.length_append, List.length_nil]
    congr 1
    omega

theorem ordValue_lt : ∀ (ds : List Char) (acc : Nat), (∀ c ∈ ds, isDigit c = true) →
    ds.foldl (fun a c => a * 10 + (c.toNat - 48)) acc < (acc + 1) * 10 ^ ds.length
  | [], acc, _ => by simp
  | c :: r, acc, hd => by
    have hc := hd c (by simp)
    simp only [isDigit, Bool.and_eq_true, decide_eq_true_eq] at hc
    have := ordValue_lt r (acc * 10 + (c.toNat - 48)) (fun x hx => hd x (List.mem_cons_of_mem _ hx))
    simp only [List.foldl_cons, List.length_cons]
    calc _ < (acc * 10 + (c.toNat - 48) + 1) * 10 ^ r.length := this
      _ ≤ ((acc + 1) * 10) * 10 ^ r.length := Nat.mul_le_mul_right _ (by omega)
      _ = (acc + 1) * 10 ^ (r.length + 1) := by rw [Nat.pow_succ, Nat.mul_assoc, Nat.mul_comm 10]

theorem parseU32_digits {ds : List Char} {dl : Char} (h : OrdMk ds dl) : parseU32 ds = .ok (ordValue ds) := by
  unfold parseU32
  have h1 : ds.isEmpty = false := by
    cases hds : ds with
    | nil => exact absurd hds h.ne
    | cons c r => rfl
  have h2 : ds.all isDigit = true := List.all_eq_true.mpr h.digits
  have h3 : ordValue ds < 4294967296 := by
    have := ordValue_lt ds 0 h.digits
    have hp : 10 ^ ds.length ≤ 10 ^ 9 := Nat.pow_le_pow_right (by omega) h.len
    unfold ordValue
    omega
  simp only [h1, h2, Bool.false_eq_true, not_true_eq_false, or_self, if_false]
  unfold ordValue at h3 ⊢
  rw [if_pos h3]

theorem detect_ordered {ds : List Char} {dl : Char} (h : OrdMk ds dl) (rest : List Char) :
    detectMarker ((ds ++ [dl]) ++ ' ' :: rest) = .ok (some ((ds ++ [dl]).length, some (ordValue ds))) := by
  have hb : Lines.byteLen ds = ds.length := byteLen_ascii ds (fun c hc => isDigit_size (h.digits c hc))
  have hs : Lines.slice ((ds ++ [dl]) ++ ' ' :: rest) 0 ds.length = .ok ds :=
    Lines.slice_eq_ok_iff.mpr ⟨[], dl :: ' ' :: rest, by simp, rfl, by rw [hb]; omega⟩
  unfold detectMarker
  simp only [skipOrdered_marker_line h rest, List.length_append, List.length_singleton, psub_eq (Nat.le_add_left 1 _),
    Nat.add_sub_cancel, ok_bind, hs, liftL_ok', parseU32_digits h, pure, Except.pure]

theorem markerChar_ordered {ds : List Char} {dl : Char} (h : OrdMk ds dl) (rest : List Char) :
    markerCharOf ((ds ++ [dl]) ++ ' ' :: rest) (ds ++ [dl]).length = .ok dl := by
  have hb : Lines.byteLen (ds ++ [dl]) = (ds ++ [dl]).length := (mkOk_ordered h).bytes
  have hs : Lines.slice ((ds ++ [dl]) ++ ' ' :: rest) 0 (ds ++ [dl]).length = .ok (ds ++ [dl]) :=
    Lines.slice_eq_ok_iff.mpr ⟨[], ' ' :: rest, by simp, rfl, by rw [hb]; omega⟩
  unfold markerCharOf
  simp only [hs, liftL_ok', ok_bind, List.getLast?_append, List.getLast?_singleton, Option.some_or]
  rfl

/-- **C06, list half, ordered markers.**  `ds` 1–9 ASCII digits, `dl` one of `.`, `)`; hypotheses as for
    bullets (no thematic-break condition: a marker line starts with a digit).  The list is
    `OrderedList (value of ds) dl`, the byte map is `tau (|ds| + 2)`. -/
theorem item_commutes_ordered (cfg : Cfg) {ds : List Char} {dl : Char} (hm : OrdMk ds dl)
    (D : List Char) (htab : '\t' ∉ D) (hsize : Lines.byteLen D + 20 < 2147483648)
    (hfirst : FirstOk (Lines.linesT D)) (hnest : 0 < cfg.maxNesting)
    (pre post : List RuleId) (hchain : cfg.chain = pre ++ .list :: post)
    (hpre : ∀ r ∈ pre, frontOkL r = true)
    {t : BState} (h : tokenize cfg (fuelFor cfg D) (BState.fresh D .root []) = .ok t) :
    ∃ r, Lines.getMap (Lines.splitLines (itemDoc (ds ++ [dl]) D)) 0 ((Lines.linesT D).length - 1) = .ok r ∧
      parseBlocks { cfg with maxNesting := cfg.maxNesting + 2 } (itemDoc (ds ++ [dl]) D) =
      .ok (⟨.root, some (0, Lines.byteLen (itemDoc (ds ++ [dl]) D)),
            [⟨.orderedList (ordValue ds) dl, some r, [⟨.listItem, some r,
              if t.tight then markTight (relocNodes (tau ((ds ++ [dl]).length + 1) (Lines.linesT D)) t.children)
              else relocNodes (tau ((ds ++ [dl]).length + 1) (Lines.linesT D)) t.children⟩]⟩]⟩, t.refs) := by
  have hlen := hm.len
  obtain ⟨c0, r0, hc0r⟩ : ∃ c r, ds = c :: r := by
    cases hds : ds with
    | nil => exact absurd hds hm.ne
    | cons c r => exact ⟨c, r, rfl⟩
  have hd0 : isDigit c0 = true := hm.digits c0 (by rw [hc0r]; simp)
  exact item_commutes_gen cfg (mkOk_ordered hm) (detect_ordered hm) (markerChar_ordered hm)
    (fun x r hx => by
      rw [hc0r] at hx
      simp only [List.cons_append, List.cons.injEq] at hx
      rw [← hx.1]
      have := digit_plain hd0
      exact ⟨this.2.2.2.2.1, this.2.2.2.2.2.1, this.2.2.2.2.2.2.1, this.2.2.2.2.2.2.2.1, this.2.2.2.2.2.2.2.2.1⟩)
    D htab (by simp only [List.length_append, List.length_singleton]; omega) hfirst hnest pre post hchain hpre
    (fun _ l0 t0 rest _ => by
      rw [hc0r]
      simp only [List.cons_append, hrLook, show ¬ ((0 : Int) ≥ 4) by omega, if_false]
      have := digit_plain hd0
      simp only [isDigit, Bool.and_eq_true, decide_eq_true_eq] at hd0
      rw [if_pos]
      rintro (rfl | rfl | rfl) <;> revert hd0 <;> decide) h

end ordered

/-! ### examples: the hypotheses are satisfiable, and each is needed -/

section examples

/-- is the node a paragraph, and its range -/
def blockView (c : BNode) : Bool × Option (Nat × Nat) := (decide (c.kind = .paragraph), c.range)

/-- the top-level blocks -/
def topView : Except Panic (BNode × Refs.RefMap) → Option (List (Bool × Option (Nat × Nat)))
  | .ok (root, _) => some (root.children.map blockView)
  | .error _ => none

/-- a root with one bullet list with one item: the range of the list, the range of the item, then the
    blocks in the item -/
def itemView : Except Panic (BNode × Refs.RefMap) → Option (List (Bool × Option (Nat × Nat)))
  | .ok (⟨_, _, [⟨.bulletList _, r1, [⟨.listItem, r2, cs⟩]⟩]⟩, _) => some ((false, r1) :: (false, r2) :: cs.map blockView)
  | _ => none

/-- number of top-level blocks -/
def topCount : Except Panic (BNode × Refs.RefMap) → Option Nat
  | .ok (root, _) => some root.children.length
  | .error _ => none

/-- `"a\n\n- b\n"` -/
def liDoc : List Char := ['a', '\n', '\n', '-', ' ', 'b', '\n']

theorem hhr_of_first {D : List Char} {c : Char} {l0' t0' : List Char} {rest' : DLines}
    (h : Lines.linesT D = (l0', t0') :: rest') (hh : hrLook 0 (c :: ' ' :: l0') = false) :
    ∀ l0 t0 rest, Lines.linesT D = (l0, t0) :: rest → hrLook 0 (c :: ' ' :: l0) = false := by
  intro l0 t0 rest hl
  rw [h] at hl
  simp only [List.cons.injEq, Prod.mk.injEq] at hl
  rw [← hl.1.1]; exact hh

/-- `item_commutes_ordered` applies to the marker `12)` and `liDoc`; the list is `OrderedList 12 ')'`, every
    line moves by 4 more bytes: paragraph `0..1` ↦ `4..5`, list `3..6` ↦ `15..18` -/
example : OrdMk ['1', '2'] ')' ∧ ordValue ['1', '2'] = 12 ∧
    itemDoc (['1', '2'] ++ [')']) liDoc
      = ['1', '2', ')', ' ', 'a', '\n', ' ', ' ', ' ', ' ', '\n', ' ', ' ', ' ', ' ', '-', ' ', 'b', '\n'] ∧
    (match parseBlocks { exCfg with maxNesting := 102 } (itemDoc (['1', '2'] ++ [')']) liDoc) with
      | .ok (⟨_, _, [⟨.orderedList 12 ')', r1, [⟨.listItem, r2, cs⟩]⟩]⟩, _) => some ((false, r1) :: (false, r2) :: cs.map blockView)
      | _ => none) = some [(false, some (0, 18)), (false, some (0, 18)), (true, some (4, 5)), (false, some (15, 18))] := by
  refine ⟨⟨by decide, by decide, by decide, by decide⟩, by decide, by decide +kernel, by decide +kernel⟩

/-- the hypotheses of `item_commutes_bullet` hold for the stock chain and `liDoc` (a paragraph, a blank
    line, a nested list: the run ends loose), so does its conclusion -/
example : ∃ t r, tokenize exCfg (fuelFor exCfg liDoc) (BState.fresh liDoc .root []) = .ok t ∧ t.tight = false ∧
    parseBlocks { exCfg with maxNesting := 102 } (itemDoc ['-'] liDoc) =
      .ok (⟨.root, some (0, Lines.byteLen (itemDoc ['-'] liDoc)),
            [⟨.bulletList '-', some r, [⟨.listItem, some r,
                relocNodes (tau 2 (Lines.linesT liDoc)) t.children⟩]⟩]⟩, t.refs) := by
  have hok : (match tokenize exCfg (fuelFor exCfg liDoc) (BState.fresh liDoc .root []) with
      | .ok t => !t.tight | .error _ => false) = true := by decide +kernel
  cases h : tokenize exCfg (fuelFor exCfg liDoc) (BState.fresh liDoc .root []) with
  | error e => rw [h] at hok; cases hok
  | ok t =>
    rw [h] at hok
    have htg : t.tight = false := by simpa using hok
    obtain ⟨r, _, hq⟩ := item_commutes_bullet exCfg (c := '-') (.inl rfl) liDoc (by decide) (by decide +kernel)
      ⟨['a'], ['\n'], (Lines.linesT liDoc).tail, by decide +kernel, by decide, by decide⟩ (by decide)
      [.code, .fence, .blockquote, .hr] _ rfl (by decide)
      (fun _ => hhr_of_first (l0' := ['a']) (t0' := ['\n']) (rest' := (Lines.linesT liDoc).tail) (by decide +kernel)
        (by decide +kernel)) h
    rw [htg] at hq
    exact ⟨t, r, rfl, htg, hq⟩

/-- `"a\n\n- b\n"` against `"- a\n  \n  - b\n"`: paragraph `0..1` ↦ `2..3`, list `3..6` ↦ `9..12`
    (2, 4, 6 bytes inserted in front of lines 0, 1, 2); loose, the paragraph stays a paragraph -/
example : itemDoc ['-'] liDoc = ['-', ' ', 'a', '\n', ' ', ' ', '\n', ' ', ' ', '-', ' ', 'b', '\n'] ∧
    topView (parseBlocks exCfg liDoc) = some [(true, some (0, 1)), (false, some (3, 6))] ∧
    itemView (parseBlocks { exCfg with maxNesting := 102 } (itemDoc ['-'] liDoc))
      = some [(false, some (0, 12)), (false, some (0, 12)), (true, some (2, 3)), (false, some (9, 12))] ∧
    tau 2 (Lines.linesT liDoc) 0 = 2 ∧ tau 2 (Lines.linesT liDoc) 1 = 3 ∧
    tau 2 (Lines.linesT liDoc) 3 = 9 ∧ tau 2 (Lines.linesT liDoc) 6 = 12 := by decide +kernel

/-- a tight run (`"a\n# b"`, no blank line): the paragraph is unwrapped (`mark_tight_paragraphs`), its
    inline root (no range) stands in the item; the heading `2..5` ↦ `6..9` -/
example :
    topView (parseBlocks exCfg ['a', '\n', '#', ' ', 'b']) = some [(true, some (0, 1)), (false, some (2, 5))] ∧
    itemView (parseBlocks { exCfg with maxNesting := 102 } (itemDoc ['-'] ['a', '\n', '#', ' ', 'b']))
      = some [(false, some (0, 9)), (false, some (0, 9)), (false, none), (false, some (6, 9))] := by decide +kernel

/-- two more levels of nesting are needed: at `max_nesting = 1` the paragraph of `"a"` is parsed; in
    `"- a"` the item stays empty at `max_nesting = 2` and holds the block at `max_nesting = 3` -/
example :
    topCount (parseBlocks { exCfg with maxNesting := 1 } ['a']) = some 1 ∧
    itemView (parseBlocks { exCfg with maxNesting := 2 } (itemDoc ['-'] ['a'])) = some [(false, some (0, 3)), (false, some (0, 3))] ∧
    itemView (parseBlocks { exCfg with maxNesting := 3 } (itemDoc ['-'] ['a']))
      = some [(false, some (0, 3)), (false, some (0, 3)), (false, none)] := by decide +kernel

/-- the first line must not be indented by 1–3 columns: `" a\n# b"` is a paragraph and a heading, but in
    `"-  a\n  # b"` the item's content indent is 3 and the heading (indent 2) falls out of the list -/
example :
    topCount (parseBlocks exCfg [' ', 'a', '\n', '#', ' ', 'b']) = some 2 ∧
    ¬ FirstOk (Lines.linesT [' ', 'a', '\n', '#', ' ', 'b']) ∧
    topCount (parseBlocks { exCfg with maxNesting := 102 } (itemDoc ['-'] [' ', 'a', '\n', '#', ' ', 'b'])) = some 2 := by
  refine ⟨by decide +kernel, ?_, by decide +kernel⟩
  rintro ⟨l0, t0, rest, hl, _, hi⟩
  have h1 : Lines.linesT [' ', 'a', '\n', '#', ' ', 'b'] = [([' ', 'a'], ['\n']), (['#', ' ', 'b'], [])] := by decide +kernel
  rw [h1] at hl
  simp only [List.cons.injEq, Prod.mk.injEq] at hl
  rw [← hl.1.1] at hi
  revert hi
  decide

/-- the first line must not be blank: an item that starts with two blank lines is empty
    (`"\n\na"` ↦ `"- \n  \n  a"`: an empty item and a paragraph behind the list) -/
example :
    topCount (parseBlocks exCfg ['\n', '\n', 'a']) = some 1 ∧
    topCount (parseBlocks { exCfg with maxNesting := 102 } (itemDoc ['-'] ['\n', '\n', 'a'])) = some 2 := by
  decide +kernel

/-- the marker line must not be a thematic break: `"- -"` is a list, `"- - -"` a thematic break — and so
    is `"- --"` (from `"--"`) -/
example :
    hrLook 0 ('-' :: ' ' :: ['-', ' ', '-']) = true ∧ hrLook 0 ('-' :: ' ' :: ['-', '-']) = true ∧
    itemView (parseBlocks { exCfg with maxNesting := 102 } (itemDoc ['-'] ['-', ' ', '-'])) = none ∧
    (match parseBlocks { exCfg with maxNesting := 102 } (itemDoc ['-'] ['-', '-']) with
      | .ok (⟨_, _, [⟨.hr _ _, _, _⟩]⟩, _) => true
      | _ => false) = true := by decide +kernel

/-- the chain hypothesis is needed: with the paragraph rule in front of the list rule the prefixed document
    is one paragraph -/
example :
    (match parseBlocks { exCfg with maxNesting := 102, chain := [.paragraph, .list] } (itemDoc ['-'] ['a']) with
      | .ok (⟨_, _, [⟨.paragraph, _, _⟩]⟩, _) => true
      | _ => false) = true := by decide +kernel

/-- tab-freeness is needed: `"\ta"` is an indented code block, in `"- \ta"` the tab stop is counted from the
    start of the line (indent 2 behind the marker): a paragraph -/
example :
    (match parseBlocks exCfg ['\t', 'a'], parseBlocks { exCfg with maxNesting := 102 } (itemDoc ['-'] ['\t', 'a']) with
      | .ok (⟨_, _, [⟨.codeBlock _, _, _⟩]⟩, _), .ok (⟨_, _, [⟨.bulletList _, _, [⟨.listItem, _, [⟨.inlineRoot _ _, _, _⟩]⟩]⟩]⟩, _) => true
      | _, _ => false) = true := by decide +kernel

end examples

/-
OPEN (not needed for the statement above, true of the model by evaluation, not proved):

  * a BLANK first line followed by a non-blank second line (`"\na"` ↦ `"- \n  a"`) also commutes (the
    item's content indent is `w` whatever the blanks behind the marker, `reached_end_of_line` is set and
    the empty-item workaround does not fire because line 1 is not empty).  `FirstOk` excludes it.  Missing:
    `itemRewrite_first` for the branch `reached_end = true` (the same computation with `indAfter = 1` by
    the first `if`), `listItem_exec` with the side condition `A.isEmpty (m + 1) = false`, and a variant of
    `tokLoop_sim_first` whose first line is blank (one `skip_empty_lines` step in front of the first rule;
    `D` must contain a non-blank line for the `tight` flags to be aligned at the end).
  * `0 < cfg.maxNesting` can be dropped (both items are empty at `max_nesting = 0`); it needs the case
    split "no block was parsed ⇒ `children = []` ⇒ the `tight` flag does not matter" in `list_on_prefixed`.
  * "renders exactly as": the inline pass and the renderer on top of the block tree (`InlineRoot` content
    equal on both sides, mapping moved by `tau`: `relocKind`) — `Props/Pipeline.lean`'s business, as for the
    block-quote half.
-/

end MdIt.Block.Li
