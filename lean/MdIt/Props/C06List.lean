/-
  C06, LIST half, whole document.

  "…placing D as continuation blocks of a list item (each line indented by the marker width) renders
   exactly as the list wrapper around the rendering of D."

  `itemDoc mk D`: the marker `mk` and one space in front of the first line of the tab-free document `D`,
  `|mk| + 1` spaces in front of every other line (blank lines included).  `item_commutes`: the block
  parse of `itemDoc mk D` (two more levels of nesting allowed) is a root with ONE child, a list (bullet or
  ordered, by the marker) over all lines, with ONE item over all lines, whose children are the top-level
  blocks of `D` with every position moved by the bytes inserted in front of it (`tau`; `tau_spec`:
  byte `x` of line `i` ↦ byte `w + x` of line `i`) — with the paragraphs unwrapped (`mark_tight_paragraphs`)
  exactly when the run on `D` ends `tight` (no blank line between its blocks); the reference map is that
  of `D`.  The simulation behind it is `MdIt/Lemmas/C06ListSim.lean`.

  Hypotheses, each needed (witnesses at the end of the file): tab-free; the first line of `D` is not blank
  and is indented by 0 or by at least 4 columns (with 1–3 columns the item's content indent grows and the
  following lines fall out of the item; an item that starts with two blank lines is empty); the rules in
  front of the list rule in the chain are among code, fence, blockquote, hr, reference, heading, and the
  marker line is not a thematic break (`- - -`, `* * *`, `- --`); nesting limit + 2; size below 2³¹.
-/
import MdIt.Lemmas.C06ListSim
set_option linter.unusedSimpArgs false
set_option linter.unusedVariables false

namespace MdIt.Block.Li
open MdIt.Lines (LineOffset NoTerm AllBlank lead mkOff IsTerminator)

/-! ### the document -/

/-- what the characters of a list marker satisfy: one byte each, neither blank nor a line terminator -/
structure MkOk (mk : List Char) : Prop where
  ne : mk ≠ []
  ascii : ∀ c ∈ mk, c.utf8Size = 1
  plain : ∀ c ∈ mk, c ≠ ' ' ∧ c ≠ '\t' ∧ c ≠ '\n' ∧ c ≠ '\r'

/-- the prefix of line `i`: the marker and a space on line 0, spaces elsewhere -/
def preAt (mk : List Char) (i : Nat) : List Char :=
  if i = 0 then mk ++ [' '] else List.replicate (mk.length + 1) ' '

/-- `D` as the content of one list item with marker `mk` -/
def itemDoc (mk D : List Char) : List Char := Lines.flat (indentLines (preAt mk) (Lines.linesT D))

theorem byteLen_ascii : ∀ (l : List Char), (∀ c ∈ l, c.utf8Size = 1) → Lines.byteLen l = l.length
  | [], _ => rfl
  | c :: r, h => by
    have := byteLen_ascii r (fun x hx => h x (List.mem_cons_of_mem _ hx))
    simp [this, h c (by simp)]; omega

theorem MkOk.bytes {mk : List Char} (h : MkOk mk) : Lines.byteLen mk = mk.length := byteLen_ascii mk h.ascii

theorem preOk_preAt {mk : List Char} (h : MkOk mk) : PreOk (mk.length + 1) (preAt mk) := by
  refine ⟨?_, ?_, ?_⟩
  · intro i; unfold preAt; split <;> simp
  · intro i; unfold preAt; split
    · simp [h.bytes, show ' '.utf8Size = 1 by decide]
    · exact Lines.byteLen_replicate_space _
  · intro i hc; unfold preAt at hc; split at hc
    · simp at hc
      exact (h.plain _ hc).2.1 rfl
    · have := (List.mem_replicate.mp hc).2; cases this

theorem noTerm_preAt {mk : List Char} (h : MkOk mk) (i : Nat) : NoTerm (preAt mk i) := by
  intro c hc
  unfold preAt at hc
  split at hc
  · simp at hc
    rcases hc with hc | rfl
    · exact ⟨(h.plain _ hc).2.2.1, (h.plain _ hc).2.2.2⟩
    · decide
  · have := (List.mem_replicate.mp hc).2; subst this; decide

theorem lshape_indent {pre : Nat → List Char} (hpre : ∀ i, NoTerm (pre i)) {L : DLines} (h : LShape L) :
    LShape (indentLines pre L) := by
  intro i lt hi
  have hlen : i < L.length := by
    have := (List.getElem?_eq_some_iff.mp hi).1
    simpa using this
  have hget := indentLines_getElem pre L i hlen
  have : lt = (pre i ++ L[i].1, L[i].2) := by
    rw [← hget]; exact ((List.getElem?_eq_some_iff.mp hi).2).symm
  subst this
  obtain ⟨h1, h2⟩ := h i L[i] (List.getElem?_eq_getElem hlen)
  refine ⟨?_, by simpa using h2⟩
  intro c hc
  rcases List.mem_append.mp hc with hc | hc
  · exact hpre i c hc
  · exact h1 c hc

theorem linesT_itemDoc {mk : List Char} (h : MkOk mk) (D : List Char) :
    Lines.linesT (itemDoc mk D) = indentLines (preAt mk) (Lines.linesT D) := by
  unfold itemDoc
  apply linesT_flat_of_shape
  · have := Lines.linesT_ne_nil D
    intro hc
    have hl := congrArg List.length hc
    simp at hl
    exact this hl
  · exact lshape_indent (noTerm_preAt h) (lshape_linesT D)
  · intro lt hlt
    obtain ⟨i, hi⟩ := List.getElem?_of_mem hlt
    have hlen : i < (Lines.linesT D).length := by
      have := (List.getElem?_eq_some_iff.mp hi).1
      simpa using this
    have hget := indentLines_getElem (preAt mk) (Lines.linesT D) i hlen
    have : lt = (preAt mk i ++ (Lines.linesT D)[i].1, (Lines.linesT D)[i].2) := by
      rw [← hget]; exact ((List.getElem?_eq_some_iff.mp hi).2).symm
    subst this
    have hpl := (preOk_preAt h).len i
    intro hc
    have hl := congrArg List.length hc
    simp only [List.length_append, List.length_nil] at hl
    omega

theorem splitLines_itemDoc {mk : List Char} (h : MkOk mk) (D : List Char) :
    Lines.splitLines (itemDoc mk D) = Lines.offsetsOf 0 (indentLines (preAt mk) (Lines.linesT D)) := by
  rw [Lines.splitLines_eq, linesT_itemDoc h]

theorem byteLen_itemDoc {mk : List Char} (h : MkOk mk) (D : List Char) :
    Lines.byteLen (itemDoc mk D) = Lines.byteLen D + (mk.length + 1) * (Lines.linesT D).length := by
  have h := startOf_indent (preOk_preAt h) (Lines.linesT D) (Lines.linesT D).length (Nat.le_refl _)
  unfold startOf at h
  rw [List.take_of_length_le (by rw [indentLines_length]; exact Nat.le_refl _), List.take_of_length_le (Nat.le_refl _),
    Lines.linesT_flat] at h
  exact h

/-! ### the fresh table of the prefixed document -/

section fresh
variable {mk : List Char} {L : DLines}

theorem indent_fresh_entry (hmk : MkOk mk) (i : Nat) (h : i < L.length) :
    freshEntry (indentLines (preAt mk) L) i
      = mkOff (startOf L i + (mk.length + 1) * i) (preAt mk i ++ L[i].1, L[i].2) := by
  have hi' : i < (indentLines (preAt mk) L).length := by rw [indentLines_length]; exact h
  simp only [freshEntry, List.getElem?_eq_getElem hi', indentLines_getElem (preAt mk) L i h,
    startOf_indent (preOk_preAt hmk) L i (Nat.le_of_lt h)]

/-- lines behind the first: the fresh entry of the indented line is the shifted fresh entry of the line -/
theorem fresh_shift (hmk : MkOk mk) (hL : LinesOk L) (i : Nat) (hi0 : 0 < i) (h : i < L.length) :
    freshEntry (indentLines (preAt mk) L) i
      = shiftE (mk.length + 1) ((mk.length + 1 : Nat) : Int) i (freshEntry L i) := by
  have htab : '\t' ∉ lead L[i].1 := fun hc =>
    hL.tabfree L[i] (List.getElem_mem h) ((List.takeWhile_sublist _).subset hc)
  have htab2 : '\t' ∉ List.replicate (mk.length + 1) ' ' ++ lead L[i].1 := by
    intro hc
    rcases List.mem_append.mp hc with hc | hc
    · have := (List.mem_replicate.mp hc).2; cases this
    · exact htab hc
  rw [indent_fresh_entry hmk i h]
  have hp : preAt mk i = List.replicate (mk.length + 1) ' ' := by unfold preAt; rw [if_neg (by omega)]
  simp only [hp, freshEntry, List.getElem?_eq_getElem h, shiftE, mkOff, lead_replicate_append, indentWidth_tabfree _ htab,
    indentWidth_tabfree _ htab2, Lines.byteLen_append, Lines.byteLen_replicate_space, List.length_append,
    List.length_replicate]
  congr 1 <;> (try push_cast) <;> omega

theorem lead_mk_line (hmk : MkOk mk) (l : List Char) : lead (mk ++ ' ' :: l) = [] := by
  cases hm : mk with
  | nil => exact absurd hm hmk.ne
  | cons c r =>
    have hc := hmk.plain c (by rw [hm]; simp)
    apply lead_cons_nonblank
    simp only [Lines.isBlank, Bool.or_eq_false_iff, decide_eq_false_iff_not]
    exact ⟨hc.1, hc.2.1⟩

/-- the first line: indent 0, the text starts at byte 0 -/
theorem fresh_first (hmk : MkOk mk) (h : 0 < L.length) :
    freshEntry (indentLines (preAt mk) L) 0 = ⟨0, mk.length + 1 + Lines.byteLen L[0].1, 0, 0⟩ := by
  rw [indent_fresh_entry hmk 0 h]
  have hp : preAt mk 0 = mk ++ [' '] := by unfold preAt; rw [if_pos rfl]
  simp only [hp, mkOff, startOf_zero, List.append_assoc, List.singleton_append, lead_mk_line hmk, Lines.byteLen_append,
    hmk.bytes, Lines.byteLen_cons, show ' '.utf8Size = 1 by decide]
  simp [Lines.indentWidth, Lines.widthFrom]
  omega

/-- the first line of `D`: not blank, indented by 0 or by at least 4 columns -/
def FirstOk (L : DLines) : Prop :=
  ∃ l0 t0 rest, L = (l0, t0) :: rest ∧ l0.dropWhile Lines.isBlank ≠ [] ∧
    ((lead l0).length = 0 ∨ 4 ≤ (lead l0).length)

theorem head_dropWhile_blank (l : List Char) : ∀ c r, l.dropWhile Lines.isBlank = c :: r → ¬ (c = ' ' ∨ c = '\t') := by
  intro c r h hc
  have := Lines.head_dropWhile h
  rcases hc with rfl | rfl <;> simp [Lines.isBlank] at this

theorem itemRewrite_first (hmk : MkOk mk) (hL : LinesOk L) {l0 t0 : List Char} {rest : DLines}
    (hL0 : L = (l0, t0) :: rest) (hnb : l0.dropWhile Lines.isBlank ≠ [])
    (hind : (lead l0).length = 0 ∨ 4 ≤ (lead l0).length) :
    itemRewrite (Lines.flat (indentLines (preAt mk) L))
        ⟨0, mk.length + 1 + Lines.byteLen l0, 0, 0⟩ mk.length
      = .ok (shiftE (mk.length + 1) ((mk.length + 1 : Nat) : Int) 0 (freshEntry L 0), mk.length + 1, false) := by
  have h0 : 0 < L.length := by rw [hL0]; simp
  have hg0 : L[0] = (l0, t0) := by simp [hL0]
  have htab : '\t' ∉ l0 := by
    have := hL.tabfree L[0] (List.getElem_mem h0)
    rw [hg0] at this; exact this
  have hfresh0 : freshEntry L 0 = mkOff 0 (l0, t0) := by
    simp [freshEntry, List.getElem?_eq_getElem h0, startOf_zero, hg0]
  have hline0 := indentLines_getElem (preAt mk) L 0 h0
  rw [hg0] at hline0
  have hi' : 0 < (indentLines (preAt mk) L).length := by rw [indentLines_length]; exact h0
  have hp : preAt mk 0 = mk ++ [' '] := by unfold preAt; rw [if_pos rfl]
  have hline : ((indentLines (preAt mk) L)[0]'hi').1 = mk ++ ' ' :: l0 := by
    rw [hline0, hp]; simp
  -- the line
  have hsl : Lines.slice (Lines.flat (indentLines (preAt mk) L)) 0 (mk.length + 1 + Lines.byteLen l0)
      = .ok (mk ++ ' ' :: l0) := by
    have := slice_in_line (indentLines (preAt mk) L) 0 hi' [] (mk ++ ' ' :: l0) [] (by rw [hline]; simp)
    simp only [startOf_zero, Lines.byteLen_nil, Nat.add_zero, Nat.zero_add, Lines.byteLen_append, hmk.bytes,
      Lines.byteLen_cons, show ' '.utf8Size = 1 by decide] at this
    rw [← this]; congr 1; omega
  -- the blanks behind the marker
  have hsplit : mk ++ ' ' :: l0 = mk ++ (' ' :: lead l0) ++ l0.dropWhile Lines.isBlank := by
    conv => lhs; rw [← Lines.lead_append_rest l0]
    simp
  have hsp : Spaces (' ' :: lead l0) := by
    intro c hc
    rcases List.mem_cons.mp hc with rfl | hc
    · rfl
    · exact lead_spaces htab c hc
  have hfi := findIndent_tabfree mk (' ' :: lead l0) (l0.dropWhile Lines.isBlank) (fun hc => (hmk.plain _ hc).2.1 rfl) hsp
    (head_dropWhile_blank l0)
  rw [← hsplit, hmk.bytes] at hfi
  -- not the end of the line
  have hbl : Lines.byteLen l0 = (lead l0).length + Lines.byteLen (l0.dropWhile Lines.isBlank) := by
    have := congrArg Lines.byteLen (Lines.lead_append_rest l0)
    simp only [Lines.byteLen_append, Lines.byteLen_lead] at this
    omega
  have hrest : 1 ≤ Lines.byteLen (l0.dropWhile Lines.isBlank) := by
    cases hd : l0.dropWhile Lines.isBlank with
    | nil => exact absurd hd hnb
    | cons c r => have := Lines.utf8Size_pos' c; simp; omega
  have hne : (mk.length + (' ' :: lead l0).length == mk.length + 1 + Lines.byteLen l0) = false := by
    apply Bool.eq_false_iff.mpr
    simp only [ne_eq, beq_iff_eq, List.length_cons]
    omega
  have hfresh : freshEntry L 0 = ⟨0, Lines.byteLen l0, (lead l0).length, ((lead l0).length : Int)⟩ := by
    have htl : '\t' ∉ lead l0 := fun hc => htab ((List.takeWhile_sublist _).subset hc)
    rw [hfresh0]
    simp [mkOff, indentWidth_tabfree _ htl]
  unfold itemRewrite
  simp only [show ¬ ((0 : Int) < 0) by omega, if_false, hsl, liftL_ok', ok_bind, psub_eq (Nat.zero_le _), Nat.add_zero,
    Nat.sub_zero, hfi, hne, Bool.false_eq_true, pure, Except.pure, hfresh, shiftE]
  have hia : (if (' ' :: lead l0).length > 4 then 1 else (' ' :: lead l0).length) = 1 := by
    simp only [List.length_cons]
    rcases hind with h | h
    · rw [if_neg (by omega)]; omega
    · rw [if_pos (by omega)]
  simp only [hne, Bool.false_eq_true, if_false, hia, Except.ok.injEq, Prod.mk.injEq, and_true]
  simp only [List.length_cons, Int.toNat_zero]
  refine ⟨?_, by omega⟩
  congr 1 <;> (try push_cast) <;> omega

end fresh

end MdIt.Block.Li
