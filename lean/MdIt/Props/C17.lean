/-
  C17 — URL normalisation yields clean, stable percent-encoding.

  Property theorems only (helper lemmas are private and local to the statements they serve).
  All statements quantify over every byte string (`∀ b ∈ bs, b < 256`), every safe set
  `S : Nat → Bool` and, where relevant, both keep-escaped modes.
-/
import MdIt.Model.Url

namespace MdIt.Url

/-- The output language: literal safe ASCII bytes and well-formed `%XX` triplets. -/
inductive Enc (S : Nat → Bool) : List Nat → Prop
  | nil : Enc S []
  | lit (b : Nat) (l : List Nat) : b < 128 → S b = true → Enc S l → Enc S (b :: l)
  | esc (x y : Nat) (l : List Nat) : isHex x = true → isHex y = true → Enc S l →
      Enc S (37 :: x :: y :: l)

def Bytes (bs : List Nat) : Prop := ∀ b ∈ bs, b < 256

theorem isHex_lt (b : Nat) (h : isHex b = true) : b < 128 := by
  simp [isHex] at h; omega

theorem isHex_ne_pct (b : Nat) (h : isHex b = true) : b ≠ 37 := by
  simp [isHex] at h; omega

theorem digit_isHex (n : Nat) (h : n < 16) : isHex (digit n) = true := by
  unfold digit; split <;> simp [isHex] <;> omega

/-- generated digits are upper-case hex (`DIGITS`) -/
theorem digit_upper (n : Nat) (h : n < 16) :
    (48 ≤ digit n ∧ digit n ≤ 57) ∨ (65 ≤ digit n ∧ digit n ≤ 70) := by
  unfold digit; split <;> omega

theorem Enc.append {S : Nat → Bool} {a b : List Nat} (ha : Enc S a) (hb : Enc S b) :
    Enc S (a ++ b) := by
  induction ha with
  | nil => simpa
  | lit c l h1 h2 _ ih => exact Enc.lit c _ h1 h2 ih
  | esc x y l h1 h2 _ ih => exact Enc.esc x y _ h1 h2 ih

theorem encByte_enc (S : Nat → Bool) (b : Nat) (hb : b < 256) : Enc S (encByte S b) := by
  unfold encByte
  split
  · exact Enc.esc _ _ _ (digit_isHex _ (by omega)) (digit_isHex _ (by omega)) Enc.nil
  · rename_i h
    simp [shouldEncode] at h
    exact Enc.lit b [] h.1 h.2 Enc.nil

/-- **C17 (alphabet).** The result consists only of safe ASCII literals and well-formed `%XX`. -/
theorem encode_alphabet (S : Nat → Bool) (keep : Bool) (bs : List Nat) (hbs : Bytes bs) :
    Enc S (encodeL S keep bs) := by
  fun_induction encodeL S keep bs with
  | case1 => exact Enc.nil
  | case2 b => exact encByte_enc S b (hbs b (by simp))
  | case3 b x ih =>
    exact (encByte_enc S b (hbs b (by simp))).append (ih (fun c hc => hbs c (by simp_all)))
  | case4 b x y r h ih =>
    simp at h
    exact Enc.esc x y _ h.1.2 h.2 (ih (fun c hc => hbs c (by simp_all)))
  | case5 b x y r h ih =>
    exact (encByte_enc S b (hbs b (by simp))).append (ih (fun c hc => hbs c (by simp_all)))

/-- every byte of a word of the language is ASCII -/
theorem Enc.ascii {S : Nat → Bool} {l : List Nat} (h : Enc S l) : ∀ b ∈ l, b < 128 := by
  induction h with
  | nil => simp
  | lit c l h1 _ _ ih => intro b hb; simp at hb; rcases hb with rfl | hb; exact h1; exact ih b hb
  | esc x y l h1 h2 _ ih =>
    intro b hb; simp at hb
    rcases hb with rfl | rfl | rfl | hb
    · omega
    · exact isHex_lt _ h1
    · exact isHex_lt _ h2
    · exact ih b hb

/-- every byte of the result is a safe character, `%`, or a hex digit -/
theorem Enc.chars {S : Nat → Bool} {l : List Nat} (h : Enc S l) :
    ∀ b ∈ l, S b = true ∨ b = 37 ∨ isHex b = true := by
  induction h with
  | nil => simp
  | lit c l _ h2 _ ih =>
    intro b hb; simp at hb; rcases hb with rfl | hb; exact Or.inl h2; exact ih b hb
  | esc x y l h1 h2 _ ih =>
    intro b hb; simp at hb
    rcases hb with rfl | rfl | rfl | hb
    · exact Or.inr (Or.inl rfl)
    · exact Or.inr (Or.inr h1)
    · exact Or.inr (Or.inr h2)
    · exact ih b hb

/-- **C17 (pure ASCII)** corollary used by C04 and by `encodeIdx_total`. -/
theorem encode_ascii (S : Nat → Bool) (keep : Bool) (bs : List Nat) (hbs : Bytes bs) :
    ∀ b ∈ encodeL S keep bs, b < 128 :=
  (encode_alphabet S keep bs hbs).ascii

end MdIt.Url
