/-
  C17 — URL normalisation yields clean, stable percent-encoding.

  Property theorems and their helper lemmas.
  All statements quantify over every byte string (`∀ b ∈ bs, b < 256`), every safe set
  `S : Nat → Bool` and, where relevant, both keep-escaped modes; no size bounds.

  Property theorems: `encode_alphabet`, `encode_ascii`, `encodeIdx_total`, `keep_decode`,
  `keep_preserves`, `keep_tokens`, `keep_idempotent`, `EncK_iff_fixed`, `nokeep_roundtrip`,
  `asciiset_spec`, `setFrom_spec`, `gen_asciiNew`, `gen_digits`, `default_set_exact`,
  `default_set_excludes`, `default_no_pct`, `encode_default_visible`.
-/
import MdIt.Model.Url

namespace MdIt.Url

/-- The output language: literal safe ASCII bytes and well-formed `%XX` triplets. -/
inductive Enc (S : Nat → Bool) : List Nat → Prop
  | nil : Enc S []
  | lit (b : Nat) (l : List Nat) : b < 128 → S b = true → Enc S l → Enc S (b :: l)
  | esc (x y : Nat) (l : List Nat) : isHex x = true → isHex y = true → Enc S l →
      Enc S (37 :: x :: y :: l)

def Bytes (bs : List Nat) : Prop := ∀ b ∈ bs, b < 256

instance (bs : List Nat) : Decidable (Bytes bs) := by unfold Bytes; infer_instance

theorem isHex_lt (b : Nat) (h : isHex b = true) : b < 128 := by
  simp [isHex] at h; omega

theorem isHex_ne_pct (b : Nat) (h : isHex b = true) : b ≠ 37 := by
  simp [isHex] at h; omega

theorem digit_isHex (n : Nat) (h : n < 16) : isHex (digit n) = true := by
  unfold digit; split <;> simp [isHex] <;> omega

/-- generated digits are upper-case hex (`DIGITS`) -/
theorem digit_upper (n : Nat) (h : n < 16) :
    (48 ≤ digit n ∧ digit n ≤ 57) ∨ (65 ≤ digit n ∧ digit n ≤ 70) := by
  unfold digit; split <;> omega

theorem Enc.append {S : Nat → Bool} {a b : List Nat} (ha : Enc S a) (hb : Enc S b) :
    Enc S (a ++ b) := by
  induction ha with
  | nil => simpa
  | lit c l h1 h2 _ ih => exact Enc.lit c _ h1 h2 ih
  | esc x y l h1 h2 _ ih => exact Enc.esc x y _ h1 h2 ih

theorem encByte_enc (S : Nat → Bool) (b : Nat) (hb : b < 256) : Enc S (encByte S b) := by
  unfold encByte
  split
  · exact Enc.esc _ _ _ (digit_isHex _ (by omega)) (digit_isHex _ (by omega)) Enc.nil
  · rename_i h
    simp [shouldEncode] at h
    exact Enc.lit b [] h.1 h.2 Enc.nil

/-- **C17 (alphabet).** The result consists only of safe ASCII literals and well-formed `%XX`. -/
theorem encode_alphabet (S : Nat → Bool) (keep : Bool) (bs : List Nat) (hbs : Bytes bs) :
    Enc S (encodeL S keep bs) := by
  fun_induction encodeL S keep bs with
  | case1 => exact Enc.nil
  | case2 b => exact encByte_enc S b (hbs b (by simp))
  | case3 b x ih =>
    exact (encByte_enc S b (hbs b (by simp))).append (ih (fun c hc => hbs c (by simp_all)))
  | case4 b x y r h ih =>
    simp at h
    exact Enc.esc x y _ h.1.2 h.2 (ih (fun c hc => hbs c (by simp_all)))
  | case5 b x y r h ih =>
    exact (encByte_enc S b (hbs b (by simp))).append (ih (fun c hc => hbs c (by simp_all)))

/-- every byte of a word of the language is ASCII -/
theorem Enc.ascii {S : Nat → Bool} {l : List Nat} (h : Enc S l) : ∀ b ∈ l, b < 128 := by
  induction h with
  | nil => simp
  | lit c l h1 _ _ ih => intro b hb; simp at hb; rcases hb with rfl | hb; exact h1; exact ih b hb
  | esc x y l h1 h2 _ ih =>
    intro b hb; simp at hb
    rcases hb with rfl | rfl | rfl | hb
    · omega
    · exact isHex_lt _ h1
    · exact isHex_lt _ h2
    · exact ih b hb

/-- every byte of the result is a safe character, `%`, or a hex digit -/
theorem Enc.chars {S : Nat → Bool} {l : List Nat} (h : Enc S l) :
    ∀ b ∈ l, S b = true ∨ b = 37 ∨ isHex b = true := by
  induction h with
  | nil => simp
  | lit c l _ h2 _ ih =>
    intro b hb; simp at hb; rcases hb with rfl | hb; exact Or.inl h2; exact ih b hb
  | esc x y l h1 h2 _ ih =>
    intro b hb; simp at hb
    rcases hb with rfl | rfl | rfl | hb
    · exact Or.inr (Or.inl rfl)
    · exact Or.inr (Or.inr h1)
    · exact Or.inr (Or.inr h2)
    · exact ih b hb

/-- **C17 (pure ASCII)** corollary used by C04 and by `encodeIdx_total`. -/
theorem encode_ascii (S : Nat → Bool) (keep : Bool) (bs : List Nat) (hbs : Bytes bs) :
    ∀ b ∈ encodeL S keep bs, b < 128 :=
  (encode_alphabet S keep bs hbs).ascii

/-! ## unfolding lemmas and the token induction principle -/

/-- "the list starts with two hex digits" — what a `%` must be followed by to be an escape -/
def startsHex2 : List Nat → Bool
  | a :: b :: _ => isHex a && isHex b
  | _ => false

theorem encodeL_nokeep_cons (S : Nat → Bool) (b : Nat) (l : List Nat) :
    encodeL S false (b :: l) = encByte S b ++ encodeL S false l := by
  match l with
  | [] => simp [encodeL]
  | [x] => simp [encodeL]
  | x :: y :: r => simp [encodeL]

theorem encodeL_keep_esc (S : Nat → Bool) (x y : Nat) (r : List Nat)
    (hx : isHex x = true) (hy : isHex y = true) :
    encodeL S true (37 :: x :: y :: r) = 37 :: x :: y :: encodeL S true r := by
  simp [encodeL, hx, hy]

theorem encodeL_keep_plain (S : Nat → Bool) (b : Nat) (l : List Nat)
    (h : ¬ (b = 37 ∧ startsHex2 l = true)) :
    encodeL S true (b :: l) = encByte S b ++ encodeL S true l := by
  match l with
  | [] => simp [encodeL]
  | [x] => simp [encodeL]
  | x :: y :: r =>
    simp [startsHex2] at h
    rw [encodeL]
    split
    · rename_i h'; simp at h'; grind
    · rfl

/-- Induction along the left-to-right scan shared by the Rust loop (keep-escaped mode), `encodeL S true`
    and `pctDecode`: a list is empty, starts with a valid escape, or starts with a byte that is
    not the `%` of a valid escape. -/
theorem tok_induction {P : List Nat → Prop} (nil : P [])
    (esc : ∀ x y r, isHex x = true → isHex y = true → P r → P (37 :: x :: y :: r))
    (lit : ∀ b r, ¬ (b = 37 ∧ startsHex2 r = true) → P r → P (b :: r)) :
    ∀ l, P l := by
  have key : ∀ n (l : List Nat), l.length ≤ n → P l := by
    intro n
    induction n with
    | zero => intro l h; match l, h with | [], _ => exact nil
    | succ n ih =>
      intro l h
      match l with
      | [] => exact nil
      | b :: r =>
        by_cases hc : b = 37 ∧ startsHex2 r = true
        · obtain ⟨rfl, hs⟩ := hc
          match r, hs with
          | x :: y :: r', hs =>
            simp [startsHex2] at hs
            exact esc x y r' hs.1 hs.2 (ih r' (by simp at h; omega))
        · exact lit b r hc (ih r (by simp at h; omega))
  exact fun l => key l.length l (Nat.le_refl _)

/-! ## the index loop (`encodeIdx`) never panics and equals the list model -/

theorem rd_at0 (pre : List Nat) (b : Nat) (r : List Nat) :
    rd (pre ++ b :: r).toArray pre.length = .ok b := by
  simp [rd]

theorem rd_at1 (pre : List Nat) (b x : Nat) (r : List Nat) :
    rd (pre ++ b :: x :: r).toArray (pre.length + 1) = .ok x := by
  simp [rd]

theorem rd_at2 (pre : List Nat) (b x y : Nat) (r : List Nat) :
    rd (pre ++ b :: x :: y :: r).toArray (pre.length + 2) = .ok y := by
  simp [rd]

theorem digit?_eq (n : Nat) (h : n < 16) : digit? n = some (digit n) := by
  unfold digit? digit; split <;> simp <;> omega

/-- one iteration at a valid escape: needs `i + 2 < len`, reads `bytes[i+1]`, `bytes[i+2]` in range -/
theorem encodeStep_esc (S : Nat → Bool) (pre : List Nat) (x y : Nat) (r : List Nat)
    (hx : isHex x = true) (hy : isHex y = true) :
    encodeStep S true (pre ++ 37 :: x :: y :: r).toArray pre.length = .ok ([37, x, y], true) := by
  simp [encodeStep, rd_at0, rd_at1, rd_at2, hx, hy]

/-- one iteration anywhere else — including `%` as last or second-to-last byte, where the guard
    `i + 2 < len` fails and nothing beyond `bytes[i]` is read; `DIGITS[..]` is in range for `b < 256` -/
theorem encodeStep_plain (S : Nat → Bool) (keep : Bool) (pre : List Nat) (b : Nat) (r : List Nat)
    (hb : b < 256) (h : keep = false ∨ ¬ (b = 37 ∧ startsHex2 r = true)) :
    encodeStep S keep (pre ++ b :: r).toArray pre.length = .ok (encByte S b, false) := by
  have d1 := digit?_eq (b / 16) (by omega)
  have d2 := digit?_eq (b % 16) (by omega)
  match r with
  | [] => simp [encodeStep, rd_at0, d1, d2, encByte]; split <;> rfl
  | [x] => simp [encodeStep, rd_at0, d1, d2, encByte]; split <;> rfl
  | x :: y :: r' =>
    simp [startsHex2] at h
    simp [encodeStep, rd_at0, rd_at1, rd_at2, d1, d2, encByte]
    grind

theorem encodeLoop_done (S : Nat → Bool) (keep : Bool) (a : Array Nat) (i : Nat) (acc : List Nat)
    (h : ¬ i < a.size) : encodeLoop S keep a i acc = .ok acc := by
  rw [encodeLoop]; simp [h]

theorem encodeLoop_step1 (S : Nat → Bool) (keep : Bool) (a : Array Nat) (i : Nat)
    (acc out : List Nat) (h : i < a.size) (hs : encodeStep S keep a i = .ok (out, false)) :
    encodeLoop S keep a i acc = encodeLoop S keep a (i + 1) (acc ++ out) := by
  rw [encodeLoop]; simp [h, hs]

theorem encodeLoop_step3 (S : Nat → Bool) (keep : Bool) (a : Array Nat) (i : Nat)
    (acc out : List Nat) (h : i < a.size) (hs : encodeStep S keep a i = .ok (out, true)) :
    encodeLoop S keep a i acc = encodeLoop S keep a (i + 3) (acc ++ out) := by
  rw [encodeLoop]; simp [h, hs]

/-- loop invariant: at every token-aligned split `bs = pre ++ suf`, running the loop from
    `i = pre.length` with accumulator `acc` ends without panic in `acc ++ encodeL suf` -/
theorem encodeLoop_spec (S : Nat → Bool) (keep : Bool) (suf : List Nat) :
    ∀ (pre acc : List Nat), Bytes suf →
      encodeLoop S keep (pre ++ suf).toArray pre.length acc = .ok (acc ++ encodeL S keep suf) := by
  cases keep with
  | false =>
    induction suf with
    | nil => intro pre acc _; rw [encodeLoop_done] <;> simp [encodeL]
    | cons b r ih =>
      intro pre acc hb
      rw [encodeLoop_step1 _ _ _ _ _ _ (by simp)
        (encodeStep_plain S false pre b r (hb b (by simp)) (Or.inl rfl))]
      have := ih (pre ++ [b]) (acc ++ encByte S b) (fun c hc => hb c (by simp [hc]))
      simp at this
      rw [this, encodeL_nokeep_cons]
  | true =>
    induction suf using tok_induction with
    | nil => intro pre acc _; rw [encodeLoop_done] <;> simp [encodeL]
    | esc x y r hx hy ih =>
      intro pre acc hb
      rw [encodeLoop_step3 _ _ _ _ _ _ (by simp) (encodeStep_esc S pre x y r hx hy)]
      have := ih (pre ++ [37, x, y]) (acc ++ [37, x, y]) (fun c hc => hb c (by simp [hc]))
      simp at this
      rw [this, encodeL_keep_esc _ _ _ _ hx hy]
    | lit b r h ih =>
      intro pre acc hb
      rw [encodeLoop_step1 _ _ _ _ _ _ (by simp)
        (encodeStep_plain S true pre b r (hb b (by simp)) (Or.inr h))]
      have := ih (pre ++ [b]) (acc ++ encByte S b) (fun c hc => hb c (by simp [hc]))
      simp at this
      rw [this, encodeL_keep_plain _ _ _ h]

/-- **C17 (totality).** The index loop as written in Rust (partial reads `bytes[i]`, `bytes[i+1]`,
    `bytes[i+2]`, `DIGITS[..]`, final `from_utf8().unwrap()`) never panics and computes `encodeL`. -/
theorem encodeIdx_total (S : Nat → Bool) (keep : Bool) (bs : List Nat) (hbs : Bytes bs) :
    encodeIdx S keep bs = .ok (encodeL S keep bs) := by
  have h := encodeLoop_spec S keep bs [] [] hbs
  simp at h
  simp only [encodeIdx, h]
  rw [if_pos]
  simpa using encode_ascii S keep bs hbs

/-! ## pctDecode -/

theorem isHex_37 : isHex 37 = false := by decide

theorem pctDecode_esc (x y : Nat) (r : List Nat) (hx : isHex x = true) (hy : isHex y = true) :
    pctDecode (37 :: x :: y :: r) = (hexVal x * 16 + hexVal y) :: pctDecode r := by
  simp [pctDecode, hx, hy]

theorem pctDecode_plain (b : Nat) (l : List Nat) (h : ¬ (b = 37 ∧ startsHex2 l = true)) :
    pctDecode (b :: l) = b :: pctDecode l := by
  match l with
  | [] => simp [pctDecode]
  | [x] => simp [pctDecode]
  | x :: y :: r =>
    simp [startsHex2] at h
    rw [pctDecode]
    split
    · rename_i h'; simp at h'; grind
    · rfl

theorem hexVal_digit (n : Nat) (h : n < 16) : hexVal (digit n) = n := by
  revert n h; decide

theorem pctDecode_encByte_enc (S : Nat → Bool) (b : Nat) (l : List Nat) (hb : b < 256)
    (h : shouldEncode S b = true) : pctDecode (encByte S b ++ l) = b :: pctDecode l := by
  simp only [encByte, h, if_true]
  show pctDecode (37 :: digit (b / 16) :: digit (b % 16) :: l) = _
  rw [pctDecode_esc _ _ _ (digit_isHex _ (by omega)) (digit_isHex _ (by omega)),
    hexVal_digit _ (by omega), hexVal_digit _ (by omega)]
  congr 1; omega

theorem encByte_cases (S : Nat → Bool) (b : Nat) :
    (shouldEncode S b = true ∧ encByte S b = [37, digit (b / 16), digit (b % 16)]) ∨
    (shouldEncode S b = false ∧ b < 128 ∧ S b = true ∧ encByte S b = [b]) := by
  unfold encByte
  cases h : shouldEncode S b
  · simp [shouldEncode] at h; simp [h]
  · simp

/-- the output on `b :: r` starts with `b` itself or with `%` -/
theorem encodeL_head (S : Nat → Bool) (b : Nat) (r : List Nat) :
    ∃ t, encodeL S true (b :: r) = b :: t ∨ encodeL S true (b :: r) = 37 :: t := by
  by_cases hc : b = 37 ∧ startsHex2 r = true
  · obtain ⟨rfl, hs⟩ := hc
    match r, hs with
    | x :: y :: r', hs =>
      simp [startsHex2] at hs
      exact ⟨_, Or.inl (encodeL_keep_esc S x y r' hs.1 hs.2)⟩
  · rw [encodeL_keep_plain S b r hc]
    rcases encByte_cases S b with ⟨_, h⟩ | ⟨_, _, _, h⟩ <;> rw [h]
    · exact ⟨_, Or.inr rfl⟩
    · exact ⟨_, Or.inl rfl⟩

/-- the encoder never *creates* a "two hex digits" prefix -/
theorem startsHex2_encodeL (S : Nat → Bool) (l : List Nat)
    (h : startsHex2 (encodeL S true l) = true) : startsHex2 l = true := by
  match l with
  | [] => simp [encodeL, startsHex2] at h
  | b :: r =>
    by_cases hc : b = 37 ∧ startsHex2 r = true
    · obtain ⟨rfl, hs⟩ := hc
      match r, hs with
      | x :: y :: r', hs =>
        simp [startsHex2] at hs
        rw [encodeL_keep_esc S x y r' hs.1 hs.2] at h
        simp [startsHex2, isHex_37] at h
    · rw [encodeL_keep_plain S b r hc] at h
      rcases encByte_cases S b with ⟨_, hb⟩ | ⟨_, _, _, hb⟩ <;> rw [hb] at h
      · simp [startsHex2, isHex_37] at h
      · match r with
        | [] => simp [encodeL, startsHex2] at h
        | c :: r' =>
          obtain ⟨t, ht | ht⟩ := encodeL_head S c r' <;> rw [ht] at h <;>
            simp [startsHex2, isHex_37] at h
          simpa [startsHex2] using h

/-- **C17 (keep-escaped, decoding).** Decoding the output equals decoding the input. -/
theorem keep_decode (S : Nat → Bool) (bs : List Nat) (hbs : Bytes bs) :
    pctDecode (encodeL S true bs) = pctDecode bs := by
  induction bs using tok_induction with
  | nil => simp [encodeL]
  | esc x y r hx hy ih =>
    rw [encodeL_keep_esc S x y r hx hy, pctDecode_esc _ _ _ hx hy, pctDecode_esc _ _ _ hx hy,
      ih (fun c hc => hbs c (by simp [hc]))]
  | lit b r h ih =>
    have ih := ih (fun c hc => hbs c (by simp [hc]))
    rw [encodeL_keep_plain S b r h, pctDecode_plain b r h]
    rcases encByte_cases S b with ⟨hs, _⟩ | ⟨_, _, _, hb⟩
    · rw [pctDecode_encByte_enc S b _ (hbs b (by simp)) hs, ih]
    · rw [hb]
      show pctDecode (b :: encodeL S true r) = _
      rw [pctDecode_plain b _ (fun hh => h ⟨hh.1, startsHex2_encodeL S r hh.2⟩), ih]

theorem startsHex2_append_pct (r t : List Nat) : startsHex2 (r ++ 37 :: t) = startsHex2 r := by
  match r with
  | [] => cases t <;> simp [startsHex2, isHex_37]
  | [a] => simp [startsHex2, isHex_37]
  | a :: b :: r' => simp [startsHex2]

/-- **C17 (keep-escaped, in place).** Every valid escape `%xy` of the input — wherever it
    occurs — is emitted verbatim, and the text before / after it is encoded independently.
    (Holds for *every* prefix `a`, also one ending in `%` or `%h`: such a `%` would need two hex
    digits after it, and the `%` of the escape (37) is not a hex digit, so no escape of
    `a ++ …` straddles the boundary and none of `a` changes status — `startsHex2_append_pct`.) -/
theorem keep_preserves (S : Nat → Bool) (a b : List Nat) (x y : Nat)
    (hx : isHex x = true) (hy : isHex y = true) :
    encodeL S true (a ++ 37 :: x :: y :: b) =
      encodeL S true a ++ 37 :: x :: y :: encodeL S true b := by
  induction a using tok_induction with
  | nil => simp [encodeL, encodeL_keep_esc S x y b hx hy]
  | esc x' y' r hx' hy' ih =>
    show encodeL S true (37 :: x' :: y' :: (r ++ 37 :: x :: y :: b)) = _
    rw [encodeL_keep_esc S x' y' _ hx' hy', encodeL_keep_esc S x' y' _ hx' hy', ih]; rfl
  | lit c r h ih =>
    show encodeL S true (c :: (r ++ 37 :: x :: y :: b)) = _
    rw [encodeL_keep_plain S c _ (by rw [startsHex2_append_pct]; exact h),
      encodeL_keep_plain S c r h, ih, List.append_assoc]

/-- **C17 (idempotence).** Re-encoding an encoded string (keep-escaped mode) changes nothing.
    Direct proof along the scan; the refined-language version is `encode_EncK` + `fix_on_EncK` below. -/
theorem keep_idempotent (S : Nat → Bool) (bs : List Nat) (hbs : Bytes bs) :
    encodeL S true (encodeL S true bs) = encodeL S true bs := by
  induction bs using tok_induction with
  | nil => simp [encodeL]
  | esc x y r hx hy ih =>
    rw [encodeL_keep_esc S x y r hx hy, encodeL_keep_esc S x y _ hx hy,
      ih (fun c hc => hbs c (by simp [hc]))]
  | lit b r h ih =>
    have ih := ih (fun c hc => hbs c (by simp [hc]))
    have hb := hbs b (by simp)
    rw [encodeL_keep_plain S b r h]
    rcases encByte_cases S b with ⟨_, he⟩ | ⟨hs, _, _, he⟩
    · rw [he]
      show encodeL S true (37 :: digit (b / 16) :: digit (b % 16) :: encodeL S true r) = _
      rw [encodeL_keep_esc S _ _ _ (digit_isHex _ (by omega)) (digit_isHex _ (by omega)), ih]; rfl
    · rw [he]
      show encodeL S true (b :: encodeL S true r) = _
      rw [encodeL_keep_plain S b _ (fun hh => h ⟨hh.1, startsHex2_encodeL S r hh.2⟩), he, ih]

/-- **C17 (no-keep round trip).** With `%` outside the safe set, decoding the `keep_escaped = false`
    encoding gives back the input bytes. -/
theorem nokeep_roundtrip (S : Nat → Bool) (hS : S 37 = false) (bs : List Nat) (hbs : Bytes bs) :
    pctDecode (encodeL S false bs) = bs := by
  induction bs with
  | nil => simp [encodeL, pctDecode]
  | cons b r ih =>
    have ih := ih (fun c hc => hbs c (by simp [hc]))
    rw [encodeL_nokeep_cons]
    rcases encByte_cases S b with ⟨hs, _⟩ | ⟨_, _, hSb, he⟩
    · rw [pctDecode_encByte_enc S b _ (hbs b (by simp)) hs, ih]
    · rw [he]
      show pctDecode (b :: encodeL S false r) = _
      rw [pctDecode_plain b _ (fun hh => by rw [hh.1, hS] at hSb; cases hSb), ih]

/-- the hypothesis `S 37 = false` of `nokeep_roundtrip` is forced: with `%` in the safe set,
    `"%41"` is kept literally and decodes to `"A"`. -/
example : pctDecode (encodeL (fun _ => true) false [37, 52, 49]) ≠ [37, 52, 49] := by
  simp [encodeL, encByte, shouldEncode, pctDecode, isHex, hexVal]

/-! ## refined language / fixed points -/

/-- `Enc S` in which a literal `%` is never followed by two hex digits. -/
inductive EncK (S : Nat → Bool) : List Nat → Prop
  | nil : EncK S []
  | lit (b : Nat) (l : List Nat) : b < 128 → S b = true → ¬ (b = 37 ∧ startsHex2 l = true) →
      EncK S l → EncK S (b :: l)
  | esc (x y : Nat) (l : List Nat) : isHex x = true → isHex y = true → EncK S l →
      EncK S (37 :: x :: y :: l)

theorem EncK.toEnc {S : Nat → Bool} {l : List Nat} (h : EncK S l) : Enc S l := by
  induction h with
  | nil => exact Enc.nil
  | lit b l h1 h2 _ _ ih => exact Enc.lit b l h1 h2 ih
  | esc x y l h1 h2 _ ih => exact Enc.esc x y l h1 h2 ih

theorem encode_EncK (S : Nat → Bool) (bs : List Nat) (hbs : Bytes bs) :
    EncK S (encodeL S true bs) := by
  induction bs using tok_induction with
  | nil => simp [encodeL]; exact EncK.nil
  | esc x y r hx hy ih =>
    rw [encodeL_keep_esc S x y r hx hy]
    exact EncK.esc x y _ hx hy (ih (fun c hc => hbs c (by simp [hc])))
  | lit b r h ih =>
    have ih := ih (fun c hc => hbs c (by simp [hc]))
    have hb := hbs b (by simp)
    rw [encodeL_keep_plain S b r h]
    rcases encByte_cases S b with ⟨_, he⟩ | ⟨_, hlt, hS, he⟩ <;> rw [he]
    · exact EncK.esc _ _ _ (digit_isHex _ (by omega)) (digit_isHex _ (by omega)) ih
    · exact EncK.lit b _ hlt hS (fun hh => h ⟨hh.1, startsHex2_encodeL S r hh.2⟩) ih

theorem fix_on_EncK {S : Nat → Bool} {l : List Nat} (h : EncK S l) : encodeL S true l = l := by
  induction h with
  | nil => simp [encodeL]
  | lit b l h1 h2 h3 _ ih =>
    rw [encodeL_keep_plain S b l h3, ih]
    rcases encByte_cases S b with ⟨hs, _⟩ | ⟨_, _, _, he⟩
    · simp [shouldEncode, h2] at hs; omega
    · rw [he]; rfl
  | esc x y l h1 h2 _ ih => rw [encodeL_keep_esc S x y l h1 h2, ih]

theorem EncK.bytes {S : Nat → Bool} {l : List Nat} (h : EncK S l) : Bytes l :=
  fun b hb => Nat.lt_trans (h.toEnc.ascii b hb) (by decide)

/-- the image of `encode(·, S, true)` is exactly its set of fixed points, and exactly `EncK S` -/
theorem EncK_iff_fixed (S : Nat → Bool) (l : List Nat) :
    EncK S l ↔ (Bytes l ∧ encodeL S true l = l) :=
  ⟨fun h => ⟨h.bytes, fix_on_EncK h⟩, fun ⟨hb, he⟩ => he ▸ encode_EncK S l hb⟩

/-! ## tokenisation view -/

inductive Tok where
  | esc (x y : Nat)
  | byte (b : Nat)

/-- left-to-right tokenisation, exactly as `pctDecode` (and the Rust loop) scans -/
def tokenize : List Nat → List Tok
  | [] => []
  | [b] => [.byte b]
  | [b, x] => .byte b :: tokenize [x]
  | b :: x :: y :: r =>
    if b == 37 && isHex x && isHex y then .esc x y :: tokenize r
    else .byte b :: tokenize (x :: y :: r)
termination_by l => l.length

def Tok.raw : Tok → List Nat
  | .esc x y => [37, x, y]
  | .byte b => [b]

def Tok.val : Tok → Nat
  | .esc x y => hexVal x * 16 + hexVal y
  | .byte b => b

def Tok.emit (S : Nat → Bool) : Tok → List Nat
  | .esc x y => [37, x, y]
  | .byte b => encByte S b

theorem tokenize_esc (x y : Nat) (r : List Nat) (hx : isHex x = true) (hy : isHex y = true) :
    tokenize (37 :: x :: y :: r) = .esc x y :: tokenize r := by
  simp [tokenize, hx, hy]

theorem tokenize_plain (b : Nat) (l : List Nat) (h : ¬ (b = 37 ∧ startsHex2 l = true)) :
    tokenize (b :: l) = .byte b :: tokenize l := by
  match l with
  | [] => simp [tokenize]
  | [x] => simp [tokenize]
  | x :: y :: r =>
    simp [startsHex2] at h
    rw [tokenize]
    split
    · rename_i h'; simp at h'; grind
    · rfl

/-- the tokens partition the input -/
theorem tokenize_raw (bs : List Nat) : (tokenize bs).flatMap Tok.raw = bs := by
  induction bs using tok_induction with
  | nil => simp [tokenize]
  | esc x y r hx hy ih => simp [tokenize_esc x y r hx hy, Tok.raw, ih]
  | lit b r h ih => simp [tokenize_plain b r h, Tok.raw, ih]

theorem pctDecode_tokens (bs : List Nat) : pctDecode bs = (tokenize bs).map Tok.val := by
  induction bs using tok_induction with
  | nil => simp [tokenize, pctDecode]
  | esc x y r hx hy ih => simp [tokenize_esc x y r hx hy, pctDecode_esc x y r hx hy, Tok.val, ih]
  | lit b r h ih => simp [tokenize_plain b r h, pctDecode_plain b r h, Tok.val, ih]

/-- **C17 (keep-escaped, token view).** The output is the concatenation, token by token, of: the
    escape itself for every valid `%XX` of the input, `encByte` of every other byte. -/
theorem keep_tokens (S : Nat → Bool) (bs : List Nat) :
    encodeL S true bs = (tokenize bs).flatMap (Tok.emit S) := by
  induction bs using tok_induction with
  | nil => simp [tokenize, encodeL]
  | esc x y r hx hy ih => simp [tokenize_esc x y r hx hy, encodeL_keep_esc S x y r hx hy, Tok.emit, ih]
  | lit b r h ih => simp [tokenize_plain b r h, encodeL_keep_plain S b r h, Tok.emit, ih]

/-! ## `AsciiSet` and the shipped constants -/

def isAlnum (b : Nat) : Bool :=
  (48 ≤ b && b ≤ 57) || (65 ≤ b && b ≤ 90) || (97 ≤ b && b ≤ 122)

/-- the string handed to `AsciiSet::from` in `normalize_link` (`parser/main.rs`): `;/?:@&=+$,-_.!~*'()#`.
    The obligations that this list, `asciiNew`, `digit` and the keep-escapes flag ARE the constants found in the
    current Rust source are in `Props/GenC17.lean` (`gen_safeChars`, `gen_asciiNew`, `gen_digits`, `gen_keep`),
    regenerated and re-checked on every run by the checks of the properties that depend on them. -/
def shippedSafe : List Nat :=
  [59, 47, 63, 58, 64, 38, 61, 43, 36, 44, 45, 95, 46, 33, 126, 42, 39, 40, 41, 35]

/-- the shipped set, checked bit by bit (the general statement is `asciiset_spec` below) -/
theorem setFrom_spec : ∀ b < 128, setHas (setFrom shippedSafe) b =
    (isAlnum b || shippedSafe.contains b) := by decide +kernel

theorem setHas_testBit (bits b : Nat) : setHas bits b = bits.testBit b := by
  rw [Bool.eq_iff_iff]; simp [setHas, Nat.testBit_eq_decide_div_mod_eq, Nat.shiftRight_eq_div_pow]

theorem setHas_setAdd (bits c b : Nat) : setHas (setAdd bits c) b = (setHas bits b || b == c) := by
  simp only [setHas_testBit, setAdd, Nat.testBit_or, Nat.one_shiftLeft, Nat.testBit_two_pow]
  congr 1
  by_cases h : b = c
  · subst h; simp
  · have h' : ¬ c = b := fun e => h e.symm
    simp [h, h']

/-- `AsciiSet::from(str)` is `AsciiSet::new()` plus exactly the bytes of `str` (any `str`). -/
theorem setFrom_has (str : List Nat) (b : Nat) :
    setHas (setFrom str) b = (setHas asciiNew b || str.contains b) := by
  unfold setFrom
  generalize asciiNew = bits
  induction str generalizing bits with
  | nil => simp
  | cons c r ih => rw [List.foldl_cons, ih, setHas_setAdd, List.contains_cons, Bool.or_assoc]

/-- `AsciiSet::new()` is exactly the ASCII letters and digits. -/
theorem asciiNew_spec : ∀ b < 128, setHas asciiNew b = isAlnum b := by decide +kernel

theorem asciiNew_high (b : Nat) (h : 128 ≤ b) : setHas asciiNew b = false := by
  have : asciiNew < 2 ^ b :=
    Nat.lt_of_lt_of_le (by decide : asciiNew < 2 ^ 128) (Nat.pow_le_pow_right (by decide) h)
  simp [setHas, Nat.shiftRight_eq_div_pow, Nat.div_eq_of_lt this]

/-- **C17 (`AsciiSet`).** For every string: `has (from str) b ↔ alnum b ∨ b ∈ str`.
    (The model's bit set is an unbounded `Nat`; the Rust `u128` agrees with it for ASCII `str` and
    `b < 128`. For a byte ≥ 128 the Rust `1 << byte` overflows the shift — a compile error in the
    `const` the crate uses, a panic / wrap-around at run time — `encode` never calls `has` there.) -/
theorem asciiset_spec (str : List Nat) (b : Nat) :
    setHas (setFrom str) b = (isAlnum b || str.contains b) := by
  rw [setFrom_has]
  congr 1
  by_cases h : b < 128
  · exact asciiNew_spec b h
  · rw [asciiNew_high b (by omega)]; simp [isAlnum]; omega

/-- the safe set shipped in `normalize_link` (`parser/main.rs`) -/
def defaultSafe : Nat → Bool := setHas (setFrom shippedSafe)

/-- exact complement of the shipped set inside ASCII -/
theorem default_set_exact : ∀ b < 128, (defaultSafe b = false ↔
    (b ≤ 32 ∨ b = 127 ∨ b ∈ [34, 37, 60, 62, 91, 92, 93, 94, 96, 123, 124, 125])) := by
  decide +kernel

/-- controls, space, DEL, `"` `%` `<` `>` `[` `\` `]` `^` `` ` `` `{` `|` `}` are not in the shipped set -/
theorem default_set_excludes (b : Nat)
    (h : b ≤ 32 ∨ b = 127 ∨ b = 34 ∨ b = 37 ∨ b = 60 ∨ b = 62 ∨ b = 91 ∨ b = 92 ∨ b = 93 ∨
      b = 94 ∨ b = 96 ∨ b = 123 ∨ b = 124 ∨ b = 125) : defaultSafe b = false := by
  have hb : b < 128 := by omega
  refine (default_set_exact b hb).2 ?_
  simp only [List.mem_cons, List.not_mem_nil, or_false]
  omega

theorem default_no_pct : defaultSafe 37 = false := default_set_excludes 37 (by omega)

/-- with the shipped set the result is printable ASCII without space (used by C04) -/
theorem encode_default_visible (keep : Bool) (bs : List Nat) (hbs : Bytes bs) :
    ∀ b ∈ encodeL defaultSafe keep bs, 32 < b ∧ b < 127 := by
  intro b hb
  have henc := encode_alphabet defaultSafe keep bs hbs
  have hlt := henc.ascii b hb
  rcases henc.chars b hb with hS | rfl | hh
  · have := (default_set_exact b hlt).2
    constructor
    · apply Nat.lt_of_not_le; intro hle; rw [this (Or.inl hle)] at hS; cases hS
    · apply Nat.lt_of_le_of_ne (by omega); intro he; rw [this (Or.inr (Or.inl he))] at hS; cases hS
  · omega
  · simp [isHex] at hh; omega

/-! ## non-vacuity: the hypotheses are satisfiable, the statements say something on concrete inputs -/

section Examples

private theorem d104 : defaultSafe 104 = true := by decide +kernel
private theorem d52 : defaultSafe 52 = true := by decide +kernel
private theorem d49 : defaultSafe 49 = true := by decide +kernel
private theorem d32 : defaultSafe 32 = false := by decide +kernel

/-- `"h%4"`: `%` second-to-last, `"h%"`: `%` last — no out-of-range read, `%` becomes `%25` -/
example : encodeIdx defaultSafe true [104, 37, 52] = .ok [104, 37, 50, 53, 52] := by
  rw [encodeIdx_total _ _ _ (by decide)]
  simp [encodeL, encByte, shouldEncode, digit, default_no_pct, d104, d52]

example : encodeIdx defaultSafe true [104, 37] = .ok [104, 37, 50, 53] := by
  rw [encodeIdx_total _ _ _ (by decide)]
  simp [encodeL, encByte, shouldEncode, digit, default_no_pct, d104]

/-- a byte ≥ 0x80 (`0xCF`) is escaped with upper-case digits, both modes -/
example (keep : Bool) : encodeIdx defaultSafe keep [207] = .ok [37, 67, 70] := by
  rw [encodeIdx_total _ _ _ (by decide)]
  simp [encodeL, encByte, shouldEncode, digit]

/-- `"%41%"` → `"%41%25"` (task example) -/
example : encodeL defaultSafe true [37, 52, 49, 37] = [37, 52, 49, 37, 50, 53] := by
  simp [encodeL, encByte, shouldEncode, isHex, digit, default_no_pct]

/-- `keep_decode` on `"%41% "`: both sides are `"A% "` -/
example : pctDecode (encodeL defaultSafe true [37, 52, 49, 37, 32]) = [65, 37, 32] := by
  rw [keep_decode _ _ (by decide)]
  simp [pctDecode, isHex, hexVal]

/-- `keep_preserves` with a prefix ending in `%4` (the `%` does not capture anything) -/
example : encodeL defaultSafe true ([37, 52] ++ 37 :: 52 :: 49 :: [32]) =
    [37, 50, 53, 52] ++ 37 :: 52 :: 49 :: [37, 50, 48] := by
  rw [keep_preserves _ _ _ _ _ (by decide) (by decide)]
  simp [encodeL, encByte, shouldEncode, digit, default_no_pct, d52, d32]

/-- `keep_idempotent` on `"%4 "`: `"%254%20"` is a fixed point -/
example : encodeL defaultSafe true (encodeL defaultSafe true [37, 52, 32]) =
    [37, 50, 53, 52, 37, 50, 48] := by
  rw [keep_idempotent _ _ (by decide)]
  simp [encodeL, encByte, shouldEncode, isHex, digit, default_no_pct, d52, d32]

/-- `nokeep_roundtrip`: its hypothesis holds for the shipped set; `"%41"` → `"%2541"` → `"%41"` -/
example : pctDecode (encodeL defaultSafe false [37, 52, 49]) = [37, 52, 49] :=
  nokeep_roundtrip defaultSafe default_no_pct _ (by decide)

example : encodeL defaultSafe false [37, 52, 49] = [37, 50, 53, 52, 49] := by
  simp [encodeL, encByte, shouldEncode, digit, default_no_pct, d52, d49]

/-- the token view of `"%4%41"` -/
example : tokenize [37, 52, 37, 52, 49] = [.byte 37, .byte 52, .esc 52 49] := by
  simp [tokenize, isHex]

/-- `EncK` is inhabited by a non-trivial word and excludes a literal `%` before two hex digits -/
example : EncK defaultSafe [104, 37, 52, 49] :=
  EncK.lit 104 _ (by decide) d104 (by decide) (EncK.esc 52 49 [] (by decide) (by decide) EncK.nil)

end Examples

end MdIt.Url
