/-
  Window independence of the tag matcher `HTML_TAG_RE` (the one new lemma memo safety with the raw-HTML inline rule
  needs): the development lives in `MdIt/Lemmas/InlineHWindow.lean`; this module makes it a registered theorem module
  (property C01, audited in `MdIt/Audit/InlineHWindow.lean`).
-/
import MdIt.Lemmas.InlineHWindow
