/-
  C08 — The rules in effect are determined solely by the sequence of configuration calls, not by
  when documents were parsed (or the parser `Debug`-printed) in between.

  Model: `MdIt/Model/ParserState.lean`.  All theorems about `resets = true` (the code on disk) hold for
  every history, every document and every pure pipeline `run`; `resets = false` (the pinned tree) only
  appears in the negation witnesses at the end.
-/
import MdIt.Model.ParserState
import MdIt.Props.C09

namespace MdIt.ParserState
open MdIt.Ruler (RuleItem Cons Prio CompileErr foldE)

/-! ## Configuration, coherence, the cache-free specification -/

/-- the configuration: what the `&mut self` calls write -/
structure Config where
  block : MdIt.Ruler.Ruler
  inline : MdIt.Ruler.Ruler
  core : MdIt.Ruler.Ruler
  textCharmap : Charmap
  deriving DecidableEq

def PState.cfg (s : PState) : Config := ⟨s.block, s.inline, s.core, s.textCharmap⟩

/-- a freshly configured parser: this configuration, nothing cached -/
def Config.cold (c : Config) : PState := ⟨c.block, c.inline, c.core, c.textCharmap, none, none, none, none⟩

/-- every filled cache equals the function of the CURRENT configuration it caches -/
def Coherent (s : PState) : Prop :=
  (∀ c, s.cBlock = some c → compileRuler s.block = .ok c) ∧
  (∀ c, s.cInline = some c → compileRuler s.inline = .ok c) ∧
  (∀ c, s.cCore = some c → compileRuler s.core = .ok c) ∧
  (∀ t, s.textImpl = some t → t = chooseTextImpl (cmKeys s.textCharmap))

/-- the effect of one call on the configuration (none for `has_rule`, `parse`, `Debug`) -/
def cfgNext (c : Config) : Op → Config
  | .addBlock id sp => { c with block := addItem c.block (sp.item id) }
  | .removeBlock id => { c with block := c.block.remove id }
  | .addInline id m sp =>
    { c with textCharmap := if m ≠ 0 then cmPush c.textCharmap m id else c.textCharmap
             inline := addItem c.inline (sp.item id) }
  | .removeInline id m =>
    { c with textCharmap := if m ≠ 0 then cmRetain c.textCharmap m id else c.textCharmap
             inline := c.inline.remove id }
  | .addCore id sp => { c with core := addItem c.core (sp.item id) }
  | .removeCore id => { c with core := c.core.remove id }
  | _ => c

def cfgRun (c : Config) : List Op → Config
  | [] => c
  | op :: rest => cfgRun (cfgNext c op) rest

/-- the pipeline-visible part of a `Walk` -/
structure WalkP where
  rootsReady : Bool
  block : Option (List Nat)
  inline : Option (List Nat)
  text : Option TextImpl
  deriving DecidableEq

def Walk.proj (w : Walk) : WalkP := ⟨w.rootsReady, w.block, w.inline, w.text⟩

/-- `coreRule` without caches: every read is a fresh computation from the configuration -/
def coreRuleP (c : Config) (doc : Doc) (w : WalkP) (rule : Nat) : Except CompileErr WalkP :=
  if rule = idBlockParser then
    if doc.usesBlock then
      match compileRuler c.block with
      | .error e => .error e
      | .ok cb => .ok { w with rootsReady := true, block := some cb.vals }
    else .ok w
  else if rule = idInlineParser then
    if w.rootsReady && doc.usesInline then
      match compileRuler c.inline with
      | .error e => .error e
      | .ok ci =>
        if ci.vals.contains idTextScanner then
          .ok { w with inline := some ci.vals, text := some (chooseTextImpl (cmKeys c.textCharmap)) }
        else .ok { w with inline := some ci.vals }
    else .ok w
  else .ok w

/-- **the specification**: what a parse reads, as a function of the configuration and the document
    alone (no cache, no history) -/
def effP (c : Config) (doc : Doc) : Except CompileErr Effective :=
  match compileRuler c.core with
  | .error e => .error e
  | .ok cc =>
    match foldE (coreRuleP c doc) ⟨false, none, none, none⟩ cc.vals with
    | .error e => .error e
    | .ok w => .ok ⟨cc.vals, w.block, w.inline, w.text⟩

/-- the specified answer of `parse doc` on a parser with configuration `c` -/
def outP {ρ : Type} (run : Effective → Doc → ρ) (c : Config) (doc : Doc) : Out ρ :=
  match effP c doc with
  | .error e => .panicked e
  | .ok eff => .parsed (run eff doc)

/-! ## The mechanism: configuration calls empty the caches they invalidate -/

/-- **C08 (`add_resets`).** Every `add_rule` leaves the chain cache of its ruler empty, and an inline
    `add_rule` also the text scanner table. -/
theorem add_resets (s : PState) (id m : Nat) (sp : Spec) :
    (next true s (.addBlock id sp)).cBlock = none ∧
    (next true s (.addCore id sp)).cCore = none ∧
    (next true s (.addInline id m sp)).cInline = none ∧
    (next true s (.addInline id m sp)).textImpl = none := by
  simp [next, addBlock, addCore, addInline, resetText]

/-- **C08 (`remove_resets`).** Every `remove_rule` leaves the chain cache of its ruler empty, and an
    inline `remove_rule` also the text scanner table. -/
theorem remove_resets (s : PState) (id m : Nat) :
    (next true s (.removeBlock id)).cBlock = none ∧
    (next true s (.removeCore id)).cCore = none ∧
    (next true s (.removeInline id m)).cInline = none ∧
    (next true s (.removeInline id m)).textImpl = none := by
  simp [next, removeBlock, removeCore, removeInline, resetText, removeCell]

/-- …and touches no other cache and no other ruler: the other cells stay as they were. -/
theorem config_op_frame (s : PState) (id m : Nat) (sp : Spec) :
    (next true s (.addBlock id sp)).cInline = s.cInline ∧ (next true s (.addBlock id sp)).cCore = s.cCore ∧
    (next true s (.addBlock id sp)).textImpl = s.textImpl ∧
    (next true s (.removeBlock id)).cInline = s.cInline ∧ (next true s (.removeBlock id)).cCore = s.cCore ∧
    (next true s (.removeBlock id)).textImpl = s.textImpl ∧
    (next true s (.addCore id sp)).cInline = s.cInline ∧ (next true s (.addCore id sp)).cBlock = s.cBlock ∧
    (next true s (.addCore id sp)).textImpl = s.textImpl ∧
    (next true s (.removeCore id)).cInline = s.cInline ∧ (next true s (.removeCore id)).cBlock = s.cBlock ∧
    (next true s (.removeCore id)).textImpl = s.textImpl ∧
    (next true s (.addInline id m sp)).cBlock = s.cBlock ∧ (next true s (.addInline id m sp)).cCore = s.cCore ∧
    (next true s (.removeInline id m)).cBlock = s.cBlock ∧ (next true s (.removeInline id m)).cCore = s.cCore := by
  simp [next, addBlock, removeBlock, addCore, removeCore, addInline, removeInline]

/-! ## `get_or_init` on a coherent cell -/

theorem getOrInit_coherent (r : MdIt.Ruler.Ruler) (cell : Option Compiled)
    (h : ∀ c, cell = some c → compileRuler r = .ok c) :
    getOrInit r cell = getOrInit r none := by
  cases cell with
  | none => rfl
  | some c => simp [getOrInit, h c rfl]

theorem cfg_eq_iff (s t : PState) :
    s.cfg = t.cfg ↔ s.block = t.block ∧ s.inline = t.inline ∧ s.core = t.core ∧
      s.textCharmap = t.textCharmap := by
  simp [PState.cfg]

/-! ## `parse` on a coherent state -/

/-- what one core rule does to a coherent walk: stays coherent, keeps the configuration, and reads
    exactly what the cache-free `coreRuleP` computes -/
def StepSpec (doc : Doc) (w : Walk) (rule : Nat) : Except (PState × CompileErr) Walk → Prop
  | .ok w2 => Coherent w2.s ∧ w2.s.cfg = w.s.cfg ∧ coreRuleP w.s.cfg doc w.proj rule = .ok w2.proj
  | .error (s2, e) => Coherent s2 ∧ s2.cfg = w.s.cfg ∧ coreRuleP w.s.cfg doc w.proj rule = .error e

theorem StepSpec.ok_intro {doc : Doc} {w w2 : Walk} {rule : Nat} (h1 : Coherent w2.s)
    (h2 : w2.s.cfg = w.s.cfg) (h3 : coreRuleP w.s.cfg doc w.proj rule = .ok w2.proj) :
    StepSpec doc w rule (.ok w2) := ⟨h1, h2, h3⟩

theorem StepSpec.error_intro {doc : Doc} {w : Walk} {rule : Nat} {s2 : PState} {e : CompileErr}
    (h1 : Coherent s2) (h2 : s2.cfg = w.s.cfg) (h3 : coreRuleP w.s.cfg doc w.proj rule = .error e) :
    StepSpec doc w rule (.error (s2, e)) := ⟨h1, h2, h3⟩

theorem coreRule_spec (doc : Doc) (w : Walk) (rule : Nat) (hc : Coherent w.s) :
    StepSpec doc w rule (coreRule doc w rule) := by
  obtain ⟨hb, hi, hco, ht⟩ := hc
  unfold coreRule
  by_cases h1 : rule = idBlockParser
  · simp only [h1, if_true]
    by_cases h2 : doc.usesBlock = true
    · simp only [h2, if_true]
      rw [getOrInit_coherent _ _ hb]
      cases hcb : compileRuler w.s.block with
      | error e =>
        simp only [getOrInit, hcb]
        exact StepSpec.error_intro ⟨hb, hi, hco, ht⟩ rfl (by simp [coreRuleP, h2, PState.cfg, hcb])
      | ok cb =>
        simp only [getOrInit, hcb]
        refine StepSpec.ok_intro ⟨?_, hi, hco, ht⟩ rfl (by simp [coreRuleP, h2, PState.cfg, hcb, Walk.proj])
        intro c hcc; simp at hcc; subst hcc; exact hcb
    · simp only [h2]
      exact StepSpec.ok_intro ⟨hb, hi, hco, ht⟩ rfl (by simp [coreRuleP, h2])
  · simp only [h1, if_false]
    by_cases h3 : rule = idInlineParser
    · simp only [h3, if_true]
      have hne : idInlineParser ≠ idBlockParser := by decide
      by_cases h4 : w.rootsReady = true ∧ doc.usesInline = true
      · obtain ⟨hr, hu⟩ := h4
        simp only [hr, hu, Bool.and_self, if_true]
        rw [getOrInit_coherent _ _ hi]
        cases hci : compileRuler w.s.inline with
        | error e =>
          simp only [getOrInit, hci]
          exact StepSpec.error_intro ⟨hb, hi, hco, ht⟩ rfl
            (by simp [coreRuleP, hne, hr, hu, Walk.proj, PState.cfg, hci])
        | ok ci =>
          have hi' : ∀ c, some ci = some c → compileRuler w.s.inline = .ok c := by
            intro c hcc; cases hcc; exact hci
          simp only [getOrInit, hci]
          by_cases h5 : ci.vals.contains idTextScanner = true
          · simp only [h5, if_true]
            have h5' : idTextScanner ∈ ci.vals := by simpa using h5
            have htext : textGetOrInit { w.s with cInline := some ci } =
                chooseTextImpl (cmKeys w.s.textCharmap) := by
              unfold textGetOrInit
              cases htx : w.s.textImpl with
              | none => simp
              | some t0 => simp [← ht t0 htx]
            refine StepSpec.ok_intro ⟨hb, hi', hco, ?_⟩ rfl ?_
            · intro t htt
              simp only [Option.some.injEq] at htt
              subst htt
              exact htext
            · simp only [htext]
              simp [coreRuleP, hne, hr, hu, Walk.proj, PState.cfg, hci, h5']
          · simp only [h5]
            have h5' : idTextScanner ∉ ci.vals := by simpa using h5
            exact StepSpec.ok_intro ⟨hb, hi', hco, ht⟩ rfl
              (by simp [coreRuleP, hne, hr, hu, Walk.proj, PState.cfg, hci, h5'])
      · have h4' : (w.rootsReady && doc.usesInline) = false := by
          cases hr : w.rootsReady <;> cases hu : doc.usesInline <;> simp_all
        simp only [h4', Bool.false_eq_true, if_false]
        exact StepSpec.ok_intro ⟨hb, hi, hco, ht⟩ rfl (by simp [coreRuleP, hne, Walk.proj, h4'])
    · simp only [h3, if_false]
      exact StepSpec.ok_intro ⟨hb, hi, hco, ht⟩ rfl (by simp [coreRuleP, h1, h3])

/-- the whole core chain over a coherent walk -/
def FoldSpec (c : Config) (doc : Doc) (w : Walk) (l : List Nat) : Except (PState × CompileErr) Walk → Prop
  | .ok w2 => Coherent w2.s ∧ w2.s.cfg = c ∧ foldE (coreRuleP c doc) w.proj l = .ok w2.proj
  | .error (s2, e) => Coherent s2 ∧ s2.cfg = c ∧ foldE (coreRuleP c doc) w.proj l = .error e

theorem fold_spec (doc : Doc) (l : List Nat) :
    ∀ w : Walk, Coherent w.s → FoldSpec w.s.cfg doc w l (foldE (coreRule doc) w l) := by
  induction l with
  | nil => intro w hc; exact ⟨hc, rfl, rfl⟩
  | cons a l ih =>
    intro w hc
    have hs := coreRule_spec doc w a hc
    simp only [foldE]
    cases h : coreRule doc w a with
    | error p =>
      obtain ⟨s2, e⟩ := p
      rw [h] at hs
      obtain ⟨h1, h2, h3⟩ := hs
      exact ⟨h1, h2, by simp [foldE, h3]⟩
    | ok w2 =>
      rw [h] at hs
      obtain ⟨h1, h2, h3⟩ := hs
      have := ih w2 h1
      rw [h2] at this
      simp only
      cases h' : foldE (coreRule doc) w2 l with
      | error p =>
        obtain ⟨s3, e⟩ := p
        rw [h'] at this
        obtain ⟨g1, g2, g3⟩ := this
        exact ⟨g1, g2, by simp [foldE, h3, g3]⟩
      | ok w3 =>
        rw [h'] at this
        obtain ⟨g1, g2, g3⟩ := this
        exact ⟨g1, g2, by simp [foldE, h3, g3]⟩

/-- **`parse` on a coherent parser**: it stays coherent, the configuration is untouched, and what the
    pipeline reads is the cache-free specification `effP` of the configuration. -/
theorem parseEff_spec (s : PState) (doc : Doc) (hc : Coherent s) :
    Coherent (parseEff s doc).1 ∧ (parseEff s doc).1.cfg = s.cfg ∧ (parseEff s doc).2 = effP s.cfg doc := by
  have hc' := hc
  obtain ⟨hb, hi, hco, ht⟩ := hc
  cases hcc : compileRuler s.core with
  | error e =>
    have hcc' : compileRuler s.cfg.core = .error e := hcc
    have hp : parseEff s doc = (s, .error e) := by
      unfold parseEff
      rw [getOrInit_coherent _ _ hco]
      simp [getOrInit, hcc]
    rw [hp]
    exact ⟨hc', rfl, by simp [effP, hcc']⟩
  | ok cc =>
    have hcc' : compileRuler s.cfg.core = .ok cc := hcc
    have hc0 : Coherent ({ s with cCore := some cc } : PState) :=
      ⟨hb, hi, fun c h => by cases h; exact hcc, ht⟩
    have := fold_spec doc cc.vals ⟨{ s with cCore := some cc }, false, none, none, none⟩ hc0
    cases h' : foldE (coreRule doc) ⟨{ s with cCore := some cc }, false, none, none, none⟩ cc.vals with
    | error p =>
      obtain ⟨s3, e⟩ := p
      rw [h'] at this
      obtain ⟨g1, g2, g3⟩ := this
      have g3' : foldE (coreRuleP s.cfg doc) ⟨false, none, none, none⟩ cc.vals = .error e := g3
      have hp : parseEff s doc = (s3, .error e) := by
        unfold parseEff
        rw [getOrInit_coherent _ _ hco]
        simp [getOrInit, hcc, h']
      rw [hp]
      exact ⟨g1, g2, by simp [effP, hcc', g3']⟩
    | ok w3 =>
      rw [h'] at this
      obtain ⟨g1, g2, g3⟩ := this
      have g3' : foldE (coreRuleP s.cfg doc) ⟨false, none, none, none⟩ cc.vals = .ok w3.proj := g3
      have hp : parseEff s doc = (w3.s, .ok ⟨cc.vals, w3.block, w3.inline, w3.text⟩) := by
        unfold parseEff
        rw [getOrInit_coherent _ _ hco]
        simp [getOrInit, hcc, h']
      rw [hp]
      exact ⟨g1, g2, by simp [effP, hcc', g3', Walk.proj]⟩

/-! ## `Debug` on a coherent state -/

theorem debugRuler_cell (r : MdIt.Ruler.Ruler) (cell cell' : Option Compiled) (v : List (Nat × Nat))
    (h : ∀ c, cell = some c → compileRuler r = .ok c) (hd : debugRuler r cell = .ok (cell', v)) :
    ∀ c, cell' = some c → compileRuler r = .ok c := by
  unfold debugRuler at hd
  rw [getOrInit_coherent _ _ h] at hd
  cases hc : compileRuler r with
  | error e => simp [getOrInit, hc] at hd
  | ok c0 =>
    simp only [getOrInit, hc] at hd
    split at hd
    · cases hd
    · cases hd
      intro c hcc; cases hcc; rfl

theorem debugFmt_spec (s : PState) (hc : Coherent s) :
    Coherent (debugFmt s).1 ∧ (debugFmt s).1.cfg = s.cfg := by
  have hc' := hc
  obtain ⟨hb, hi, hco, ht⟩ := hc
  unfold debugFmt
  cases h1 : debugRuler s.block s.cBlock with
  | error e => exact ⟨hc', rfl⟩
  | ok p1 =>
    obtain ⟨cb, vb⟩ := p1
    have hb' := debugRuler_cell _ _ _ _ hb h1
    simp only
    cases h2 : debugRuler s.inline s.cInline with
    | error e => exact ⟨⟨hb', hi, hco, ht⟩, rfl⟩
    | ok p2 =>
      obtain ⟨ci, vi⟩ := p2
      have hi' := debugRuler_cell _ _ _ _ hi h2
      simp only
      cases h3 : debugRuler s.core s.cCore with
      | error e => exact ⟨⟨hb', hi', hco, ht⟩, rfl⟩
      | ok p3 =>
        obtain ⟨cc, vc⟩ := p3
        have hco' := debugRuler_cell _ _ _ _ hco h3
        exact ⟨⟨hb', hi', hco', ht⟩, rfl⟩

/-! ## Every call preserves coherence; the configuration evolves by `cfgNext` -/

theorem next_coherent (s : PState) (op : Op) (hc : Coherent s) : Coherent (next true s op) := by
  cases op with
  | parse doc => exact (parseEff_spec s doc hc).1
  | debugFmt => exact (debugFmt_spec s hc).1
  | hasBlock id => exact hc
  | hasInline id => exact hc
  | hasCore id => exact hc
  | addBlock id sp =>
    obtain ⟨hb, hi, hco, ht⟩ := hc
    exact ⟨fun c h => by simp [next, addBlock] at h, hi, hco, ht⟩
  | removeBlock id =>
    obtain ⟨hb, hi, hco, ht⟩ := hc
    exact ⟨fun c h => by simp [next, removeBlock, removeCell] at h, hi, hco, ht⟩
  | addCore id sp =>
    obtain ⟨hb, hi, hco, ht⟩ := hc
    exact ⟨hb, hi, fun c h => by simp [next, addCore] at h, ht⟩
  | removeCore id =>
    obtain ⟨hb, hi, hco, ht⟩ := hc
    exact ⟨hb, hi, fun c h => by simp [next, removeCore, removeCell] at h, ht⟩
  | addInline id m sp =>
    obtain ⟨hb, hi, hco, ht⟩ := hc
    exact ⟨hb, fun c h => by simp [next, addInline] at h, hco,
      fun t h => by simp [next, addInline, resetText] at h⟩
  | removeInline id m =>
    obtain ⟨hb, hi, hco, ht⟩ := hc
    exact ⟨hb, fun c h => by simp [next, removeInline, removeCell] at h, hco,
      fun t h => by simp [next, removeInline, resetText] at h⟩

/-- the configuration after a call is `cfgNext` of the configuration before -/
theorem next_cfg (s : PState) (op : Op) (hc : Coherent s) :
    (next true s op).cfg = cfgNext s.cfg op := by
  cases op with
  | parse doc => exact (parseEff_spec s doc hc).2.1
  | debugFmt => exact (debugFmt_spec s hc).2
  | hasBlock id => rfl
  | hasInline id => rfl
  | hasCore id => rfl
  | addBlock id sp => rfl
  | removeBlock id => rfl
  | addCore id sp => rfl
  | removeCore id => rfl
  | addInline id m sp => rfl
  | removeInline id m => rfl

/-! ## Histories -/

theorem init_coherent : Coherent init := by simp [Coherent, init]

theorem runOps_coherent (ops : List Op) : ∀ s, Coherent s → Coherent (runOps true s ops) := by
  induction ops with
  | nil => intro s h; exact h
  | cons op rest ih => intro s h; exact ih _ (next_coherent s op h)

/-- **C08 (`coherent_reachable`).** After ANY history of add / remove / has / parse / `Debug` calls
    on `MarkdownIt::new()`, every filled cache holds what its configuration currently determines. -/
theorem coherent_reachable (ops : List Op) : Coherent (runOps true init ops) :=
  runOps_coherent ops init init_coherent

theorem runOps_cfg (ops : List Op) :
    ∀ s, Coherent s → (runOps true s ops).cfg = cfgRun s.cfg ops := by
  induction ops with
  | nil => intro s _; rfl
  | cons op rest ih =>
    intro s h
    simp only [runOps, cfgRun]
    rw [ih _ (next_coherent s op h), next_cfg s op h]

theorem cfgNext_nonconfig (c : Config) (op : Op) (h : op.isConfig = false) : cfgNext c op = c := by
  cases op <;> simp [Op.isConfig] at h <;> rfl

theorem cfgRun_filter (keep : Op → Bool) (hk : ∀ op, op.isConfig = true → keep op = true)
    (ops : List Op) : ∀ c, cfgRun c (ops.filter keep) = cfgRun c ops := by
  induction ops with
  | nil => intro c; rfl
  | cons op rest ih =>
    intro c
    by_cases h : keep op = true
    · simp only [List.filter_cons, h, if_true, cfgRun]; exact ih _
    · have hnc : op.isConfig = false := by
        cases hc : op.isConfig with
        | false => rfl
        | true => exact absurd (hk op hc) h
      simp only [List.filter_cons, h, cfgRun, cfgNext_nonconfig c op hnc]
      exact ih c

theorem runOps_append (resets : Bool) (a b : List Op) :
    ∀ s, runOps resets s (a ++ b) = runOps resets (runOps resets s a) b := by
  induction a with
  | nil => intro s; rfl
  | cons op rest ih => intro s; simp only [List.cons_append, runOps]; exact ih _

section Run
variable {ρ : Type} (run : Effective → Doc → ρ)

theorem trace_snoc (resets : Bool) (ops : List Op) (op : Op) :
    ∀ s, trace resets run s (ops ++ [op]) =
      trace resets run s ops ++ [out run (runOps resets s ops) op] := by
  induction ops with
  | nil => intro s; rfl
  | cons o rest ih => intro s; simp only [List.cons_append, trace, runOps, ih]

/-- the last output of a history is the output of its last call in the state the others produced -/
theorem lastOut_snoc (resets : Bool) (ops : List Op) (op : Op) :
    lastOut resets run (ops ++ [op]) = some (out run (runOps resets init ops) op) := by
  simp [lastOut, trace_snoc]

/-- on a coherent parser, `parse` answers what the specification says for its configuration -/
theorem parse_out_spec (s : PState) (doc : Doc) (hc : Coherent s) :
    out run s (.parse doc) = outP run s.cfg doc := by
  simp only [out, outP, (parseEff_spec s doc hc).2.2]
  cases effP s.cfg doc <;> rfl

/-- **the answer of a `parse` after any history** is the specification applied to the configuration
    that the configuration calls of the history build — the other calls do not enter. -/
theorem history_parse_spec (ops : List Op) (doc : Doc) :
    lastOut true run (ops ++ [.parse doc]) = some (outP run (cfgRun init.cfg ops) doc) := by
  rw [lastOut_snoc, parse_out_spec run _ doc (coherent_reachable ops),
    runOps_cfg ops init init_coherent]

/-- general form: any sub-history that keeps all the configuration calls gives the same final parse -/
theorem nonconfig_irrelevant (keep : Op → Bool) (hk : ∀ op, op.isConfig = true → keep op = true)
    (ops : List Op) (doc : Doc) :
    lastOut true run (ops ++ [.parse doc]) = lastOut true run (ops.filter keep ++ [.parse doc]) := by
  rw [history_parse_spec, history_parse_spec, cfgRun_filter keep hk]

/-- **C08 (`parses_irrelevant`) — the property verbatim.** Deleting the intermediate `parse` calls
    from any history of add-rule, remove-rule, has-rule, `Debug` and parse calls does not change the
    result (tree / HTML / panic) of the final parse. -/
theorem parses_irrelevant (ops : List Op) (doc : Doc) :
    lastOut true run (ops ++ [.parse doc]) =
      lastOut true run (ops.filter (fun op => !op.isParse) ++ [.parse doc]) :=
  nonconfig_irrelevant run _ (fun op h => by cases op <;> simp_all [Op.isConfig, Op.isParse]) ops doc

/-- likewise for the `Debug` calls (which fill the chain caches as a side effect) and `has_rule` -/
theorem observations_irrelevant (ops : List Op) (doc : Doc) :
    lastOut true run (ops ++ [.parse doc]) =
      lastOut true run (ops.filter Op.isConfig ++ [.parse doc]) :=
  nonconfig_irrelevant run _ (fun _ h => h) ops doc

end Run

/-! ## What is in a compiled chain -/

theorem mapM?_cons_some {α β : Type} {f : α → Option β} {a : α} {l : List α} {r : List β}
    (h : mapM? f (a :: l) = some r) : ∃ b r', f a = some b ∧ mapM? f l = some r' ∧ r = b :: r' := by
  simp only [mapM?] at h
  cases hfa : f a with
  | none => simp [hfa] at h
  | some b =>
    cases hm : mapM? f l with
    | none => simp [hfa, hm] at h
    | some r' => simp [hfa, hm] at h; exact ⟨b, r', rfl, rfl, h.symm⟩

theorem mapM?_mem_right {α β : Type} {f : α → Option β} {l : List α} {r : List β}
    (h : mapM? f l = some r) : ∀ b ∈ r, ∃ a ∈ l, f a = some b := by
  induction l generalizing r with
  | nil => simp [mapM?] at h; subst h; simp
  | cons a l ih =>
    obtain ⟨b0, r', h1, h2, rfl⟩ := mapM?_cons_some h
    intro b hb
    rcases List.mem_cons.1 hb with rfl | hb
    · exact ⟨a, by simp, h1⟩
    · obtain ⟨x, hx, hfx⟩ := ih h2 b hb
      exact ⟨x, by simp [hx], hfx⟩

theorem mapM?_mem_left {α β : Type} {f : α → Option β} {l : List α} {r : List β}
    (h : mapM? f l = some r) : ∀ a ∈ l, ∃ b ∈ r, f a = some b := by
  induction l generalizing r with
  | nil => simp
  | cons a0 l ih =>
    obtain ⟨b0, r', h1, h2, rfl⟩ := mapM?_cons_some h
    intro a ha
    rcases List.mem_cons.1 ha with rfl | ha
    · exact ⟨b0, by simp, h1⟩
    · obtain ⟨b, hb, hfb⟩ := ih h2 a ha
      exact ⟨b, by simp [hb], hfb⟩

theorem mapM?_total {α β : Type} {f : α → Option β} {l : List α}
    (h : ∀ a ∈ l, ∃ b, f a = some b) : ∃ r, mapM? f l = some r := by
  induction l with
  | nil => exact ⟨[], rfl⟩
  | cons a l ih =>
    obtain ⟨b, hb⟩ := h a (by simp)
    obtain ⟨r, hr⟩ := ih (fun x hx => h x (by simp [hx]))
    exact ⟨b :: r, by simp [mapM?, hb, hr]⟩

theorem compileRuler_ok {r : MdIt.Ruler.Ruler} {c : Compiled} (h : compileRuler r = .ok c) :
    r.compile = .ok c.idx ∧ mapM? (firstMark? r.deps) c.idx = some c.vals := by
  unfold compileRuler at h
  cases hc : r.compile with
  | error e => simp [hc] at h
  | ok idx =>
    simp only [hc] at h
    cases hm : mapM? (firstMark? r.deps) idx with
    | none => simp [hm] at h
    | some vals => simp [hm] at h; subst h; exact ⟨rfl, hm⟩

/-- every payload in a compiled chain is the payload of an item that is in the ruler -/
theorem compileRuler_vals_sub {r : MdIt.Ruler.Ruler} {c : Compiled} (h : compileRuler r = .ok c) :
    ∀ v ∈ c.vals, ∃ it ∈ r.deps, it.marks.head? = some v := by
  intro v hv
  obtain ⟨_, hm⟩ := compileRuler_ok h
  obtain ⟨i, _, hi⟩ := mapM?_mem_right hm v hv
  unfold firstMark? at hi
  cases hd : r.deps[i]? with
  | none => simp [hd] at hi
  | some d => simp [hd] at hi; exact ⟨d, List.mem_of_getElem? hd, hi⟩

/-- every item of the ruler has its payload in the compiled chain (`compile_perm` of C09) -/
theorem compileRuler_vals_sup {r : MdIt.Ruler.Ruler} {c : Compiled} (h : compileRuler r = .ok c) :
    ∀ it ∈ r.deps, ∀ v, it.marks.head? = some v → v ∈ c.vals := by
  intro it hit v hv
  obtain ⟨hc, hm⟩ := compileRuler_ok h
  obtain ⟨i, hi, rfl⟩ := List.getElem_of_mem hit
  have hperm := MdIt.Ruler.compile_perm r.deps c.idx hc
  have hmem : i ∈ c.idx := hperm.symm.subset (List.mem_range.2 hi)
  obtain ⟨b, hb, hfb⟩ := mapM?_mem_left hm i hmem
  have : firstMark? r.deps i = some v := by simp [firstMark?, hi, hv]
  rw [this] at hfb; cases hfb; exact hb

/-! ## What a parse reads, by ruler -/

inductive Kind where
  | block | inline | core
  deriving DecidableEq, Repr

def Config.ruler (c : Config) : Kind → MdIt.Ruler.Ruler
  | .block => c.block
  | .inline => c.inline
  | .core => c.core

/-- the chain of kind `k` that the parse has read (`none`: that chain was not consulted) -/
def Effective.chain (e : Effective) : Kind → Option (List Nat)
  | .block => e.block
  | .inline => e.inline
  | .core => some e.core

/-- the `add_rule` calls: ruler and pushed item -/
def Op.adds : Op → Option (Kind × RuleItem)
  | .addBlock id sp => some (.block, sp.item id)
  | .addInline id _ sp => some (.inline, sp.item id)
  | .addCore id sp => some (.core, sp.item id)
  | _ => none

/-- the `add_rule` calls: ruler and rule identity -/
def Op.addsId : Op → Option (Kind × Nat)
  | .addBlock id _ => some (.block, id)
  | .addInline id _ _ => some (.inline, id)
  | .addCore id _ => some (.core, id)
  | _ => none

/-- the `remove_rule` calls: ruler and removed mark -/
def Op.removes : Op → Option (Kind × Nat)
  | .removeBlock id => some (.block, id)
  | .removeInline id _ => some (.inline, id)
  | .removeCore id => some (.core, id)
  | _ => none

def WalkInv (c : Config) (w : WalkP) : Prop :=
  (∀ ch, w.block = some ch → ∃ cc, compileRuler c.block = .ok cc ∧ ch = cc.vals) ∧
  (∀ ch, w.inline = some ch → ∃ cc, compileRuler c.inline = .ok cc ∧ ch = cc.vals) ∧
  (∀ t, w.text = some t → t = chooseTextImpl (cmKeys c.textCharmap))

theorem coreRuleP_inv (c : Config) (doc : Doc) (w w' : WalkP) (rule : Nat)
    (h : coreRuleP c doc w rule = .ok w') (hi : WalkInv c w) : WalkInv c w' := by
  obtain ⟨h1, h2, h3⟩ := hi
  unfold coreRuleP at h
  by_cases hb : rule = idBlockParser
  · simp only [hb, if_true] at h
    by_cases hu : doc.usesBlock = true
    · simp only [hu, if_true] at h
      cases hc : compileRuler c.block with
      | error e => simp [hc] at h
      | ok cb =>
        simp only [hc, Except.ok.injEq] at h; subst h
        exact ⟨fun ch hch => ⟨cb, hc, by simpa using hch.symm⟩, h2, h3⟩
    · simp only [hu] at h; cases h; exact ⟨h1, h2, h3⟩
  · simp only [hb, if_false] at h
    by_cases hin : rule = idInlineParser
    · simp only [hin, if_true] at h
      by_cases hu : (w.rootsReady && doc.usesInline) = true
      · simp only [hu, if_true] at h
        cases hc : compileRuler c.inline with
        | error e => simp [hc] at h
        | ok ci =>
          simp only [hc] at h
          by_cases ht : ci.vals.contains idTextScanner = true
          · simp only [ht, if_true, Except.ok.injEq] at h; subst h
            exact ⟨h1, fun ch hch => ⟨ci, hc, by simpa using hch.symm⟩,
              fun t htt => by simpa using htt.symm⟩
          · simp only [ht, Bool.false_eq_true, if_false, Except.ok.injEq] at h; subst h
            exact ⟨h1, fun ch hch => ⟨ci, hc, by simpa using hch.symm⟩, h3⟩
      · simp only [hu] at h; cases h; exact ⟨h1, h2, h3⟩
    · simp only [hin, if_false] at h; cases h; exact ⟨h1, h2, h3⟩

theorem effP_ok {c : Config} {doc : Doc} {eff : Effective} (h : effP c doc = .ok eff) :
    ∃ cc w, compileRuler c.core = .ok cc ∧ WalkInv c w ∧ eff = ⟨cc.vals, w.block, w.inline, w.text⟩ := by
  unfold effP at h
  cases hc : compileRuler c.core with
  | error e => simp [hc] at h
  | ok cc =>
    simp only [hc] at h
    cases hf : foldE (coreRuleP c doc) ⟨false, none, none, none⟩ cc.vals with
    | error e => simp [hf] at h
    | ok w =>
      simp only [hf, Except.ok.injEq] at h
      refine ⟨cc, w, rfl, ?_, h.symm⟩
      exact MdIt.Ruler.foldE_inv (coreRuleP c doc) (fun _ w => WalkInv c w) cc.vals _ w hf
        ⟨by simp, by simp, by simp⟩ (fun _ a t t' _ hI hft => coreRuleP_inv c doc t t' a hft hI)

/-- every chain a parse reads is the compiled chain of the corresponding ruler of the configuration -/
theorem effP_chain {c : Config} {doc : Doc} {eff : Effective} (h : effP c doc = .ok eff)
    (k : Kind) (ch : List Nat) (hk : eff.chain k = some ch) :
    ∃ cc, compileRuler (c.ruler k) = .ok cc ∧ ch = cc.vals := by
  obtain ⟨cc, w, hc, ⟨h1, h2, _⟩, rfl⟩ := effP_ok h
  cases k with
  | block => exact h1 ch hk
  | inline => exact h2 ch hk
  | core => exact ⟨cc, hc, by simpa [Effective.chain] using hk.symm⟩

/-- the scanner table a parse reads is `choose_text_impl` of the current marker map -/
theorem effP_text {c : Config} {doc : Doc} {eff : Effective} (h : effP c doc = .ok eff)
    (t : TextImpl) (ht : eff.text = some t) : t = chooseTextImpl (cmKeys c.textCharmap) := by
  obtain ⟨cc, w, _, ⟨_, _, h3⟩, rfl⟩ := effP_ok h
  exact h3 t ht

theorem lastEff_eq (ops : List Op) (doc : Doc) :
    lastEff true ops doc = effP (cfgRun init.cfg ops) doc := by
  unfold lastEff
  rw [(parseEff_spec _ doc (coherent_reachable ops)).2.2, runOps_cfg ops init init_coherent]

theorem cfgRun_append (a b : List Op) : ∀ c, cfgRun c (a ++ b) = cfgRun (cfgRun c a) b := by
  induction a with
  | nil => intro c; rfl
  | cons op rest ih => intro c; simp only [List.cons_append, cfgRun]; exact ih _

/-! ## A removed rule never fires again -/

/-- no item of the ruler carries the payload `id` -/
def NoHead (id : Nat) (r : MdIt.Ruler.Ruler) : Prop := ∀ it ∈ r.deps, it.marks.head? ≠ some id

theorem noHead_remove (r : MdIt.Ruler.Ruler) (id : Nat) : NoHead id (r.remove id) := by
  intro it hit hh
  simp only [MdIt.Ruler.Ruler.remove, List.mem_filter] at hit
  have : id ∈ it.marks := List.mem_of_mem_head? hh
  simp [this] at hit

theorem noHead_remove_other (r : MdIt.Ruler.Ruler) (id m : Nat) (h : NoHead id r) :
    NoHead id (r.remove m) := by
  intro it hit
  simp only [MdIt.Ruler.Ruler.remove, List.mem_filter] at hit
  exact h it hit.1

theorem noHead_addItem (r : MdIt.Ruler.Ruler) (id : Nat) (it : RuleItem) (h : NoHead id r)
    (hne : it.marks.head? ≠ some id) : NoHead id (addItem r it) := by
  intro x hx
  simp only [addItem, List.mem_append, List.mem_singleton] at hx
  rcases hx with hx | rfl
  · exact h x hx
  · exact hne

theorem cfgNext_removes (c : Config) (op : Op) (k : Kind) (id : Nat) (h : op.removes = some (k, id)) :
    NoHead id ((cfgNext c op).ruler k) := by
  cases op <;> simp [Op.removes] at h <;> obtain ⟨rfl, rfl⟩ := h <;>
    exact noHead_remove _ _

theorem cfgNext_noHead (c : Config) (op : Op) (k : Kind) (id : Nat) (h : NoHead id (c.ruler k))
    (hno : op.addsId ≠ some (k, id)) : NoHead id ((cfgNext c op).ruler k) := by
  cases op with
  | addBlock i sp =>
    cases k
    · exact noHead_addItem _ _ _ h (by simp [Spec.item]; intro e; exact hno (by simp [Op.addsId, e]))
    · exact h
    · exact h
  | addInline i m sp =>
    cases k
    · exact h
    · exact noHead_addItem _ _ _ h (by simp [Spec.item]; intro e; exact hno (by simp [Op.addsId, e]))
    · exact h
  | addCore i sp =>
    cases k
    · exact h
    · exact h
    · exact noHead_addItem _ _ _ h (by simp [Spec.item]; intro e; exact hno (by simp [Op.addsId, e]))
  | removeBlock i => cases k <;> first | exact noHead_remove_other _ _ _ h | exact h
  | removeInline i m => cases k <;> first | exact noHead_remove_other _ _ _ h | exact h
  | removeCore i => cases k <;> first | exact noHead_remove_other _ _ _ h | exact h
  | hasBlock i => exact h
  | hasInline i => exact h
  | hasCore i => exact h
  | parse d => exact h
  | debugFmt => exact h

theorem cfgRun_noHead (k : Kind) (id : Nat) (ops : List Op) :
    ∀ c, NoHead id (c.ruler k) → (∀ op ∈ ops, op.addsId ≠ some (k, id)) →
      NoHead id ((cfgRun c ops).ruler k) := by
  induction ops with
  | nil => intro c h _; exact h
  | cons op rest ih =>
    intro c h hno
    exact ih _ (cfgNext_noHead c op k id h (hno op (by simp)))
      (fun o ho => hno o (by simp [ho]))

/-- **C08 (`removed_never_fires`).** After `remove_rule::<id>()` on a ruler (block, inline or core),
    as long as `id` is not added to that ruler again, NO later parse — whatever was parsed, printed or
    configured before or after the removal — has `id` in the chain it executes. -/
theorem removed_never_fires (k : Kind) (id : Nat) (ops1 ops2 : List Op) (rem : Op) (doc : Doc)
    (eff : Effective) (hrem : rem.removes = some (k, id))
    (hno : ∀ op ∈ ops2, op.addsId ≠ some (k, id))
    (h : lastEff true (ops1 ++ rem :: ops2) doc = .ok eff) :
    ∀ ch, eff.chain k = some ch → id ∉ ch := by
  intro ch hch hmem
  rw [lastEff_eq, cfgRun_append] at h
  simp only [cfgRun] at h
  obtain ⟨cc, hcc, rfl⟩ := effP_chain h k ch hch
  obtain ⟨it, hit, hh⟩ := compileRuler_vals_sub hcc id hmem
  exact cfgRun_noHead k id ops2 _ (cfgNext_removes _ rem k id hrem) hno it hit hh

/-! ## A rule added later fires -/

theorem cfgNext_adds (c : Config) (op : Op) (k : Kind) (it : RuleItem) (h : op.adds = some (k, it)) :
    it ∈ ((cfgNext c op).ruler k).deps := by
  cases op <;> simp [Op.adds] at h <;> obtain ⟨rfl, rfl⟩ := h <;>
    simp [cfgNext, Config.ruler, addItem]

theorem mem_remove (r : MdIt.Ruler.Ruler) (it : RuleItem) (m : Nat) (h : it ∈ r.deps)
    (hm : m ∉ it.marks) : it ∈ (r.remove m).deps := by
  simp [MdIt.Ruler.Ruler.remove, h, hm]

theorem cfgNext_keeps (c : Config) (op : Op) (k : Kind) (it : RuleItem) (h : it ∈ (c.ruler k).deps)
    (hno : ∀ m, op.removes = some (k, m) → m ∉ it.marks) : it ∈ ((cfgNext c op).ruler k).deps := by
  cases op with
  | addBlock i sp => cases k <;> simp_all [cfgNext, Config.ruler, addItem]
  | addInline i m sp => cases k <;> simp_all [cfgNext, Config.ruler, addItem]
  | addCore i sp => cases k <;> simp_all [cfgNext, Config.ruler, addItem]
  | removeBlock i =>
    cases k
    · exact mem_remove _ _ _ h (hno i rfl)
    · exact h
    · exact h
  | removeInline i m =>
    cases k
    · exact h
    · exact mem_remove _ _ _ h (hno i rfl)
    · exact h
  | removeCore i =>
    cases k
    · exact h
    · exact h
    · exact mem_remove _ _ _ h (hno i rfl)
  | hasBlock i => exact h
  | hasInline i => exact h
  | hasCore i => exact h
  | parse d => exact h
  | debugFmt => exact h

theorem cfgRun_keeps (k : Kind) (it : RuleItem) (ops : List Op) :
    ∀ c, it ∈ (c.ruler k).deps → (∀ op ∈ ops, ∀ m, op.removes = some (k, m) → m ∉ it.marks) →
      it ∈ ((cfgRun c ops).ruler k).deps := by
  induction ops with
  | nil => intro c h _; exact h
  | cons op rest ih =>
    intro c h hno
    exact ih _ (cfgNext_keeps c op k it h (hno op (by simp))) (fun o ho => hno o (by simp [ho]))

/-- **C08 (`added_fires`, chain part).** After `add_rule` pushed the item `it` on a ruler, as long as
    none of its marks is removed from that ruler, EVERY later parse that consults this ruler executes
    a chain containing the rule — also when documents were parsed before the addition. -/
theorem added_in_chain (k : Kind) (it : RuleItem) (ops1 ops2 : List Op) (add : Op) (doc : Doc)
    (eff : Effective) (hadd : add.adds = some (k, it))
    (hno : ∀ op ∈ ops2, ∀ m, op.removes = some (k, m) → m ∉ it.marks)
    (h : lastEff true (ops1 ++ add :: ops2) doc = .ok eff) :
    ∀ ch, eff.chain k = some ch → ∀ v, it.marks.head? = some v → v ∈ ch := by
  intro ch hch v hv
  rw [lastEff_eq, cfgRun_append] at h
  simp only [cfgRun] at h
  obtain ⟨cc, hcc, rfl⟩ := effP_chain h k ch hch
  exact compileRuler_vals_sup hcc it (cfgRun_keeps k it ops2 _ (cfgNext_adds _ add k it hadd) hno) v hv

/-! ### the marker map only grows -/

theorem mem_cmKeys_cmPush (cm : Charmap) (m id k : Nat) :
    k ∈ cmKeys (cmPush cm m id) ↔ k ∈ cmKeys cm ∨ k = m := by
  induction cm with
  | nil => simp [cmPush, cmKeys]
  | cons p t ih =>
    obtain ⟨a, v⟩ := p
    simp only [cmPush]
    by_cases h : a = m
    · subst h
      simp only [if_true, cmKeys, List.map_cons, List.mem_cons]
      constructor
      · rintro (h | h)
        · exact Or.inl (Or.inl h)
        · exact Or.inl (Or.inr h)
      · rintro ((h | h) | h)
        · exact Or.inl h
        · exact Or.inr h
        · exact Or.inl h
    · simp only [h, if_false, cmKeys, List.map_cons, List.mem_cons]
      have ih' : k ∈ List.map (fun p => p.1) (cmPush t m id) ↔ k ∈ List.map (fun p => p.1) t ∨ k = m := ih
      rw [ih']
      constructor
      · rintro (h | h | h)
        · exact Or.inl (Or.inl h)
        · exact Or.inl (Or.inr h)
        · exact Or.inr h
      · rintro ((h | h) | h)
        · exact Or.inl h
        · exact Or.inr (Or.inl h)
        · exact Or.inr (Or.inr h)

theorem mem_cmKeys_cmInsert (cm : Charmap) (m k : Nat) (v : List Nat) :
    k ∈ cmKeys (cmInsert cm m v) ↔ k ∈ cmKeys cm ∨ k = m := by
  induction cm with
  | nil => simp [cmInsert, cmKeys]
  | cons p t ih =>
    obtain ⟨a, w⟩ := p
    simp only [cmInsert]
    by_cases h : a = m
    · subst h
      simp only [if_true, cmKeys, List.map_cons, List.mem_cons]
      constructor
      · rintro (h | h)
        · exact Or.inl (Or.inl h)
        · exact Or.inl (Or.inr h)
      · rintro ((h | h) | h)
        · exact Or.inl h
        · exact Or.inr h
        · exact Or.inl h
    · simp only [h, if_false, cmKeys, List.map_cons, List.mem_cons]
      have ih' : k ∈ List.map (fun p => p.1) (cmInsert t m v) ↔ k ∈ List.map (fun p => p.1) t ∨ k = m := ih
      rw [ih']
      constructor
      · rintro (h | h | h)
        · exact Or.inl (Or.inl h)
        · exact Or.inl (Or.inr h)
        · exact Or.inr h
      · rintro ((h | h) | h)
        · exact Or.inl h
        · exact Or.inr (Or.inl h)
        · exact Or.inr (Or.inr h)

theorem mem_cmKeys_cmTake (cm : Charmap) (m k : Nat) (h : k ∈ cmKeys cm) (hne : k ≠ m) :
    k ∈ cmKeys (cmTake cm m).2 := by
  induction cm with
  | nil => simp [cmKeys] at h
  | cons p t ih =>
    obtain ⟨a, w⟩ := p
    simp only [cmKeys, List.map_cons, List.mem_cons] at h
    simp only [cmTake]
    by_cases ha : a = m
    · subst ha
      simp only [if_true]
      rcases h with h | h
      · exact absurd h hne
      · exact h
    · simp only [ha, if_false, cmKeys, List.map_cons, List.mem_cons]
      rcases h with h | h
      · exact Or.inl h
      · exact Or.inr (ih h)

/-- `remove_rule` never deletes a key of `text_charmap` (it re-inserts the possibly empty vector) -/
theorem mem_cmKeys_cmRetain (cm : Charmap) (m id k : Nat) (h : k ∈ cmKeys cm) :
    k ∈ cmKeys (cmRetain cm m id) := by
  unfold cmRetain
  rw [mem_cmKeys_cmInsert]
  by_cases hk : k = m
  · exact Or.inr hk
  · exact Or.inl (mem_cmKeys_cmTake cm m k h hk)

theorem cfgNext_keys_mono (c : Config) (op : Op) (k : Nat) (h : k ∈ cmKeys c.textCharmap) :
    k ∈ cmKeys (cfgNext c op).textCharmap := by
  cases op with
  | addInline i m sp =>
    simp only [cfgNext]
    by_cases hm : m ≠ 0
    · simp only [hm, if_true, ne_eq, not_false_eq_true]; exact (mem_cmKeys_cmPush _ _ _ _).2 (Or.inl h)
    · simp only [hm, if_false]; exact h
  | removeInline i m =>
    simp only [cfgNext]
    by_cases hm : m ≠ 0
    · simp only [hm, if_true, ne_eq, not_false_eq_true]; exact mem_cmKeys_cmRetain _ _ _ _ h
    · simp only [hm, if_false]; exact h
  | _ => exact h

theorem cfgRun_keys_mono (ops : List Op) (k : Nat) :
    ∀ c, k ∈ cmKeys c.textCharmap → k ∈ cmKeys (cfgRun c ops).textCharmap := by
  induction ops with
  | nil => intro c h; exact h
  | cons op rest ih => intro c h; exact ih _ (cfgNext_keys_mono c op k h)

theorem mem_insertSorted (x y : Nat) (l : List Nat) : y ∈ insertSorted x l ↔ y = x ∨ y ∈ l := by
  induction l with
  | nil => simp [insertSorted]
  | cons a l ih =>
    simp only [insertSorted]
    by_cases h : x ≤ a
    · simp [h]
    · simp only [h, if_false, List.mem_cons, ih]
      constructor
      · rintro (h | h | h)
        · exact Or.inr (Or.inl h)
        · exact Or.inl h
        · exact Or.inr (Or.inr h)
      · rintro (h | h | h)
        · exact Or.inr (Or.inl h)
        · exact Or.inl h
        · exact Or.inr (Or.inr h)

theorem mem_sortNat (y : Nat) (l : List Nat) : y ∈ sortNat l ↔ y ∈ l := by
  induction l with
  | nil => simp [sortNat]
  | cons a l ih => simp [sortNat, mem_insertSorted, ih]

/-- a stop character of the scanner table chosen for a key set containing `m`: `m` stops the text scan -/
def Stops (t : TextImpl) (m : Nat) : Prop :=
  match t with
  | .punct => m ∈ punctSet
  | .regex st => m ∈ st

theorem chooseTextImpl_stops (keys : List Nat) (m : Nat) (h : m ∈ keys) :
    Stops (chooseTextImpl keys) m := by
  unfold chooseTextImpl
  by_cases hall : keys.all (fun k => punctSet.contains k) = true
  · simp only [hall, if_true, Stops]
    have := List.all_eq_true.1 hall m h
    simpa using this
  · simp only [hall, Stops]
    exact (mem_sortNat m keys).2 h

/-- the stop set is EXACTLY the key set when the regex scanner is chosen -/
theorem chooseTextImpl_regex (keys st : List Nat) (h : chooseTextImpl keys = .regex st) :
    ∀ m, m ∈ st ↔ m ∈ keys := by
  unfold chooseTextImpl at h
  by_cases hall : keys.all (fun k => punctSet.contains k) = true
  · rw [if_pos hall] at h; cases h
  · rw [if_neg hall] at h
    cases h
    exact fun m => mem_sortNat m keys

/-- **C08 (`added_fires`, marker part).** After an inline `add_rule` with marker `m ≠ '\0'`, every
    later parse that enters the text scanner uses a table in which `m` is a stop character — a member
    of the regex's stop set when the regex scanner is chosen (so also for non-punctuation markers such
    as `'x'` or `'é'`), one of the 23 fixed characters when `SkipPunct` is chosen.  (No hypothesis about
    later removals: `remove_rule` keeps the key, so the character stays a stop character.) -/
theorem added_marker_stops (id m : Nat) (sp : Spec) (ops1 ops2 : List Op) (doc : Doc)
    (eff : Effective) (hm : m ≠ 0)
    (h : lastEff true (ops1 ++ .addInline id m sp :: ops2) doc = .ok eff) :
    ∀ t, eff.text = some t → Stops t m := by
  intro t ht
  rw [lastEff_eq, cfgRun_append] at h
  simp only [cfgRun] at h
  rw [effP_text h t ht]
  apply chooseTextImpl_stops
  apply cfgRun_keys_mono
  simp only [cfgNext, hm, if_true, ne_eq, not_false_eq_true]
  exact (mem_cmKeys_cmPush _ _ _ _).2 (Or.inr rfl)

/-- **C08 (`added_fires`).** An inline rule added at any point of a history — in particular after
    documents have been parsed — is, for every later parse and as long as it is not removed, in the
    inline chain that the parse executes, and its marker is a stop character of the text scanner
    table that the parse uses: the rule is tried at every occurrence of its marker. -/
theorem added_fires (id m : Nat) (sp : Spec) (ops1 ops2 : List Op) (doc : Doc) (eff : Effective)
    (hm : m ≠ 0)
    (hno : ∀ op ∈ ops2, ∀ i mk, op = .removeInline i mk → i ≠ id ∧ i ∉ sp.aliases)
    (h : lastEff true (ops1 ++ .addInline id m sp :: ops2) doc = .ok eff) :
    (∀ ch, eff.inline = some ch → id ∈ ch) ∧ (∀ t, eff.text = some t → Stops t m) := by
  refine ⟨fun ch hch => ?_, added_marker_stops id m sp ops1 ops2 doc eff hm h⟩
  refine added_in_chain .inline (sp.item id) ops1 ops2 _ doc eff rfl ?_ h ch hch id rfl
  intro op hop mk hrm
  cases op <;> simp [Op.removes] at hrm
  subst hrm
  obtain ⟨h1, h2⟩ := hno _ hop _ _ rfl
  simp [Spec.item, h1, h2]

/-! ## No unintended panic: the `unwrap`s of `compile` and of `impl Debug for Ruler` -/

def Config.WF (c : Config) : Prop := c.block.WF ∧ c.inline.WF ∧ c.core.WF

theorem WF_addItem (r : MdIt.Ruler.Ruler) (id : Nat) (sp : Spec) (h : r.WF) :
    (addItem r (sp.item id)).WF := by
  intro it hit
  simp only [addItem, List.mem_append, List.mem_singleton] at hit
  rcases hit with hit | rfl
  · exact h it hit
  · simp [Spec.item]

theorem cfgNext_WF (c : Config) (op : Op) (h : c.WF) : (cfgNext c op).WF := by
  obtain ⟨h1, h2, h3⟩ := h
  cases op with
  | addBlock i sp => exact ⟨WF_addItem _ _ _ h1, h2, h3⟩
  | addInline i m sp => exact ⟨h1, WF_addItem _ _ _ h2, h3⟩
  | addCore i sp => exact ⟨h1, h2, WF_addItem _ _ _ h3⟩
  | removeBlock i => exact ⟨MdIt.Ruler.Ruler.WF_remove _ _ h1, h2, h3⟩
  | removeInline i m => exact ⟨h1, MdIt.Ruler.Ruler.WF_remove _ _ h2, h3⟩
  | removeCore i => exact ⟨h1, h2, MdIt.Ruler.Ruler.WF_remove _ _ h3⟩
  | _ => exact ⟨h1, h2, h3⟩

theorem cfgRun_WF (ops : List Op) : ∀ c : Config, c.WF → (cfgRun c ops).WF := by
  induction ops with
  | nil => intro c h; exact h
  | cons op rest ih => intro c h; exact ih _ (cfgNext_WF c op h)

theorem init_WF : init.cfg.WF := by
  refine ⟨?_, ?_, ?_⟩ <;> intro it hit <;> simp [init, PState.cfg] at hit
  · subst hit; simp
  · rcases hit with rfl | rfl <;> simp

/-- on a permutation of the item indices of a well-formed ruler, the `(idx, deps[idx].marks[0])`
    lookups all succeed -/
theorem firstMark?_total (r : MdIt.Ruler.Ruler) (hw : r.WF) (idx : List Nat)
    (hc : r.compile = .ok idx) : ∀ i ∈ idx, ∃ m, firstMark? r.deps i = some m := by
  intro i hi
  have hperm := MdIt.Ruler.compile_perm r.deps idx hc
  have hlt : i < r.deps.length := List.mem_range.1 (hperm.subset hi)
  have hne := hw r.deps[i] (List.getElem_mem hlt)
  unfold firstMark?
  simp only [List.getElem?_eq_getElem hlt]
  cases hm : r.deps[i].marks with
  | nil => exact absurd hm hne
  | cons m t => exact ⟨m, rfl⟩

theorem compileRuler_total (r : MdIt.Ruler.Ruler) (hw : r.WF) : compileRuler r ≠ .error .internal := by
  unfold compileRuler
  cases hc : r.compile with
  | error e =>
    intro h
    simp only [Except.error.injEq] at h
    exact MdIt.Ruler.Ruler.compile_total r hw (by rw [hc, h])
  | ok idx =>
    obtain ⟨vals, hv⟩ := mapM?_total (firstMark?_total r hw idx hc)
    simp [hv]

theorem effP_error {c : Config} {doc : Doc} {e : CompileErr} (h : effP c doc = .error e) :
    ∃ k, compileRuler (c.ruler k) = .error e := by
  unfold effP at h
  cases hc : compileRuler c.core with
  | error e' => simp [hc] at h; subst h; exact ⟨.core, hc⟩
  | ok cc =>
    simp only [hc] at h
    cases hf : foldE (coreRuleP c doc) ⟨false, none, none, none⟩ cc.vals with
    | ok w => simp [hf] at h
    | error e' =>
      simp [hf] at h; subst h
      obtain ⟨pre, a, post, t, _, _, hstep⟩ := MdIt.Ruler.foldE_error _ _ _ _ hf
      unfold coreRuleP at hstep
      by_cases hb : a = idBlockParser
      · simp only [hb, if_true] at hstep
        by_cases hu : doc.usesBlock = true
        · simp only [hu, if_true] at hstep
          cases hcb : compileRuler c.block with
          | error e2 => simp [hcb] at hstep; subst hstep; exact ⟨.block, hcb⟩
          | ok cb => simp [hcb] at hstep
        · simp [hu] at hstep
      · simp only [hb, if_false] at hstep
        by_cases hin : a = idInlineParser
        · simp only [hin, if_true] at hstep
          by_cases hu : (t.rootsReady && doc.usesInline) = true
          · simp only [hu, if_true] at hstep
            cases hci : compileRuler c.inline with
            | error e2 => simp [hci] at hstep; subst hstep; exact ⟨.inline, hci⟩
            | ok ci =>
              simp only [hci] at hstep
              split at hstep <;> cases hstep
          · simp [hu] at hstep
        · simp [hin] at hstep

/-- **`parse` never panics unintentionally**: after any history, the only panics a parse can unwind
    with are the two documented ones of `Ruler::compile` (`missing dependency`, `cyclic dependency`) —
    never an `unwrap` on `None`, an out-of-range `Vec::insert` or a `usize` underflow. -/
theorem parse_total (ops : List Op) (doc : Doc) : lastEff true ops doc ≠ .error .internal := by
  rw [lastEff_eq]
  intro h
  obtain ⟨k, hk⟩ := effP_error h
  have hw := cfgRun_WF ops init.cfg init_WF
  cases k with
  | block => exact compileRuler_total _ hw.1 hk
  | inline => exact compileRuler_total _ hw.2.1 hk
  | core => exact compileRuler_total _ hw.2.2 hk

theorem getOrInit_error {r : MdIt.Ruler.Ruler} {cell : Option Compiled} {e : CompileErr}
    (h : getOrInit r cell = .error e) : compileRuler r = .error e := by
  unfold getOrInit at h
  cases cell with
  | some c => simp at h
  | none =>
    cases hc : compileRuler r with
    | error e' => simp [hc] at h; subst h; rfl
    | ok c => simp [hc] at h

theorem debugRuler_total (r : MdIt.Ruler.Ruler) (cell : Option Compiled) (hw : r.WF)
    (hcoh : ∀ c, cell = some c → compileRuler r = .ok c) : debugRuler r cell ≠ .error .internal := by
  intro h
  unfold debugRuler at h
  cases hg : getOrInit r cell with
  | error e =>
    simp [hg] at h; subst h
    exact compileRuler_total r hw (getOrInit_error hg)
  | ok p =>
    obtain ⟨cell', c⟩ := p
    simp only [hg] at h
    have hc : compileRuler r = .ok c := by
      rw [getOrInit_coherent _ _ hcoh] at hg
      cases hcr : compileRuler r with
      | error e => simp [getOrInit, hcr] at hg
      | ok c0 => simp [getOrInit, hcr] at hg; rw [hg.2]
    obtain ⟨hidx, _⟩ := compileRuler_ok hc
    have htot : ∀ i ∈ c.idx, ∃ b, (fun i => (firstMark? r.deps i).map (fun m => (i, m))) i = some b := by
      intro i hi
      obtain ⟨m, hm⟩ := firstMark?_total r hw c.idx hidx i hi
      exact ⟨(i, m), by simp [hm]⟩
    obtain ⟨v, hv⟩ := mapM?_total htot
    simp [hv] at h

/-- **C08 (`debugFmt_total`).** After any history on the repaired tree, `format!("{:?}", md)` never
    hits the `deps.get(idx).unwrap()` / `marks.get(0).unwrap()` of `impl Debug for Ruler`
    (contrast `pinned_debug_panics`); it can only re-raise a documented `compile` panic. -/
theorem debugFmt_total (ops : List Op) : (debugFmt (runOps true init ops)).2 ≠ .error .internal := by
  have hcoh := coherent_reachable ops
  have hw : (runOps true init ops).cfg.WF := by
    rw [runOps_cfg ops init init_coherent]; exact cfgRun_WF ops _ init_WF
  generalize runOps true init ops = s at hcoh hw
  obtain ⟨hb, hi, hco, _⟩ := hcoh
  obtain ⟨wb, wi, wc⟩ := hw
  unfold debugFmt
  cases h1 : debugRuler s.block s.cBlock with
  | error e =>
    intro h; simp at h; subst h
    exact debugRuler_total _ _ wb hb h1
  | ok p1 =>
    obtain ⟨cb, vb⟩ := p1
    simp only
    cases h2 : debugRuler s.inline s.cInline with
    | error e =>
      intro h; simp at h; subst h
      exact debugRuler_total _ _ wi hi h2
    | ok p2 =>
      obtain ⟨ci, vi⟩ := p2
      simp only
      cases h3 : debugRuler s.core s.cCore with
      | error e =>
        intro h; simp at h; subst h
        exact debugRuler_total _ _ wc hco h3
      | ok p3 =>
        obtain ⟨cc, vc⟩ := p3
        simp

/-! ## Non-vacuity: concrete histories -/

deriving instance DecidableEq for Except

instance (t : TextImpl) (m : Nat) : Decidable (Stops t m) := by
  unfold Stops; cases t <;> exact inferInstance

/-- `"a xx b"`: reaches the block chain, the inline chain and the text scanner -/
def docText : Doc := ⟨true, true, 1⟩
/-- the empty source: reaches nothing but the core chain -/
def docBlank : Doc := ⟨false, false, 0⟩

/-- a history with parses before, between and after configuration calls; ids as in the `pstate`
    stream (block `@` rule 1, inline pair rules 10 `'x'`, 11 `'('`, 13 `'+'`, core stamp rule 20) -/
def sampleHistory : List Op :=
  [.parse docText, .addInline 10 120 {}, .addBlock 1 {}, .parse docBlank, .debugFmt,
   .addInline 11 40 { cons := [.before 10] }, .removeBlock 1, .parse docText, .addCore 20 {},
   .removeInline 10 120, .hasInline 10]

example : lastEff true sampleHistory docText =
    .ok ⟨[900, 901, 20], some [], some [902, 11], some (.regex [40, 120])⟩ := by decide

-- `parses_irrelevant` / `observations_irrelevant` on it: the stripped history really is shorter, and
-- both sides really are a successful parse reading the chains above
example : sampleHistory.filter (fun op => !op.isParse) =
    [.addInline 10 120 {}, .addBlock 1 {}, .debugFmt, .addInline 11 40 { cons := [.before 10] },
     .removeBlock 1, .addCore 20 {}, .removeInline 10 120, .hasInline 10] := by decide

example : lastEff true (sampleHistory.filter Op.isConfig) docText =
    .ok ⟨[900, 901, 20], some [], some [902, 11], some (.regex [40, 120])⟩ := by decide

-- `coherent_reachable` is not about empty caches only: after the history every cache is filled
example : (runOps true init (sampleHistory ++ [.parse docText])).cBlock = some ⟨[], []⟩ ∧
    (runOps true init (sampleHistory ++ [.parse docText])).cInline = some ⟨[0, 1], [902, 11]⟩ ∧
    (runOps true init (sampleHistory ++ [.parse docText])).cCore = some ⟨[0, 1, 2], [900, 901, 20]⟩ ∧
    (runOps true init (sampleHistory ++ [.parse docText])).textImpl = some (.regex [40, 120]) := by decide

-- `removed_never_fires`: hypotheses hold for the removal of inline rule 10 in `sampleHistory`
example : ∃ ops1 ops2, sampleHistory = ops1 ++ Op.removeInline 10 120 :: ops2 ∧
    (∀ op ∈ ops2, op.addsId ≠ some (Kind.inline, 10)) ∧
    ∃ eff, lastEff true sampleHistory docText = .ok eff ∧ eff.chain .inline = some [902, 11] :=
  ⟨sampleHistory.take 9, [.hasInline 10], by decide, by decide,
    ⟨[900, 901, 20], some [], some [902, 11], some (.regex [40, 120])⟩, by decide, by decide⟩

-- `added_fires`: rule 11 (marker `'('`, not a punctuation stop) added after two parses
example : ∃ ops1 ops2, sampleHistory = ops1 ++ Op.addInline 11 40 { cons := [.before 10] } :: ops2 ∧
    (∀ op ∈ ops2, ∀ i mk, op = Op.removeInline i mk → i ≠ 11 ∧ i ∉ ([] : List Nat)) ∧
    ∃ eff, lastEff true sampleHistory docText = .ok eff ∧ eff.inline = some [902, 11] ∧
      eff.text = some (.regex [40, 120]) ∧ ¬ Stops .punct 40 :=
  ⟨sampleHistory.take 5, sampleHistory.drop 6, by decide,
    (by intro op hop i mk h; subst h; simp [sampleHistory] at hop; obtain ⟨rfl, _⟩ := hop; decide),
    ⟨[900, 901, 20], some [], some [902, 11], some (.regex [40, 120])⟩, by decide, by decide,
    by decide, by decide⟩

-- a panicking compile is not cached: the `missing dependency` panic of the first parse does not
-- prevent the second parse (after the dependency has been added) from succeeding
example : lastEff true [.addInline 10 120 { cons := [.require 11] }] docText = .error (.missing 10 11) ∧
    lastEff true [.addInline 10 120 { cons := [.require 11] }, .parse docText, .addInline 11 40 {}] docText =
      .ok ⟨[900, 901], some [], some [902, 10, 11], some (.regex [40, 120])⟩ := by decide

-- the "empty vector stays" quirk: removing a rule that was never added makes its marker a stop character
example : lastEff true [.removeInline 10 120] docText =
    .ok ⟨[900, 901], some [], some [902], some (.regex [120])⟩ := by decide

/-! ## Negation witnesses: the pinned tree (`resets = false`) -/

/-- `[add_rule::<B1>, parse, remove_rule::<B1>]` then `parse`: the pinned `Ruler::remove` keeps the
    compiled chain, the removed block rule 1 still runs… -/
theorem pinned_removed_rule_still_fires :
    lastEff false [.addBlock 1 {}, .parse docText, .removeBlock 1] docText =
      .ok ⟨[900, 901], some [1], some [902], some .punct⟩ := by decide

/-- …while the same history without the intermediate parse runs the empty block chain. -/
theorem pinned_removed_rule_reference :
    lastEff false ([Op.addBlock 1 {}, .parse docText, .removeBlock 1].filter (fun op => !op.isParse)) docText =
      .ok ⟨[900, 901], some [], some [902], some .punct⟩ := by decide

/-- `[parse]`, `add_rule::<I7>` (marker `'x'`), `parse`: the pinned inline `add_rule` keeps `text_impl`;
    the scanner still is `SkipPunct`, `'x'` is no stop character, the new rule is never tried… -/
theorem pinned_added_rule_never_fires :
    lastEff false [.parse docText, .addInline 7 120 {}] docText =
      .ok ⟨[900, 901], some [], some [902, 7], some .punct⟩ := by decide

/-- …while without the first parse the scanner stops at `'x'`. -/
theorem pinned_added_rule_reference :
    lastEff false ([Op.parse docText, .addInline 7 120 {}].filter (fun op => !op.isParse)) docText =
      .ok ⟨[900, 901], some [], some [902, 7], some (.regex [120])⟩ := by decide

section Pinned
variable {ρ : Type} (run : Effective → Doc → ρ)

theorem lastOut_parse_eq (resets : Bool) (ops : List Op) (doc : Doc) :
    lastOut resets run (ops ++ [.parse doc]) =
      some (match lastEff resets ops doc with
        | .error e => .panicked e
        | .ok eff => .parsed (run eff doc)) := by
  rw [lastOut_snoc]; rfl

/-- **`parses_irrelevant` FAILS on the pinned tree** (history `[addBlock 1, parse, removeBlock 1, parse]`)
    for every pipeline that can tell the two block chains apart. -/
theorem pinned_violates_parses_irrelevant_remove
    (hrun : run ⟨[900, 901], some [1], some [902], some .punct⟩ docText ≠
            run ⟨[900, 901], some [], some [902], some .punct⟩ docText) :
    lastOut false run ([.addBlock 1 {}, .parse docText, .removeBlock 1] ++ [.parse docText]) ≠
      lastOut false run ([Op.addBlock 1 {}, .parse docText, .removeBlock 1].filter (fun op => !op.isParse)
        ++ [.parse docText]) := by
  rw [lastOut_parse_eq, lastOut_parse_eq, pinned_removed_rule_still_fires, pinned_removed_rule_reference]
  intro h
  simp only [Option.some.injEq, Out.parsed.injEq] at h
  exact hrun h

/-- **`parses_irrelevant` FAILS on the pinned tree** (history `[parse, addInline 7 'x', parse]`)
    for every pipeline that can tell the two scanner tables apart. -/
theorem pinned_violates_parses_irrelevant_add
    (hrun : run ⟨[900, 901], some [], some [902, 7], some .punct⟩ docText ≠
            run ⟨[900, 901], some [], some [902, 7], some (.regex [120])⟩ docText) :
    lastOut false run ([.parse docText, .addInline 7 120 {}] ++ [.parse docText]) ≠
      lastOut false run ([Op.parse docText, .addInline 7 120 {}].filter (fun op => !op.isParse)
        ++ [.parse docText]) := by
  rw [lastOut_parse_eq, lastOut_parse_eq, pinned_added_rule_never_fires, pinned_added_rule_reference]
  intro h
  simp only [Option.some.injEq, Out.parsed.injEq] at h
  exact hrun h

end Pinned

/-- a pipeline that is injective in the chains it reads exists (the identity), so the two theorems
    above are not vacuous -/
example :
    lastOut false (fun e d => (e, d)) ([.addBlock 1 {}, .parse docText, .removeBlock 1] ++ [.parse docText]) ≠
      lastOut false (fun e d => (e, d)) ([Op.addBlock 1 {}, .parse docText, .removeBlock 1].filter
        (fun op => !op.isParse) ++ [.parse docText]) :=
  pinned_violates_parses_irrelevant_remove _ (by decide)

example :
    lastOut false (fun e d => (e, d)) ([.parse docText, .addInline 7 120 {}] ++ [.parse docText]) ≠
      lastOut false (fun e d => (e, d)) ([Op.parse docText, .addInline 7 120 {}].filter
        (fun op => !op.isParse) ++ [.parse docText]) :=
  pinned_violates_parses_irrelevant_add _ (by decide)

/-- on the pinned tree the reachable state is NOT coherent… -/
theorem pinned_not_coherent :
    ¬ Coherent (runOps false init [.addBlock 1 {}, .parse docText, .removeBlock 1]) := by
  intro h
  have := h.1 ⟨[0], [1]⟩ (by decide)
  revert this
  decide

/-- …and `{:?}` of the parser then panics in `impl Debug for Ruler` (`ruler.rs:218`,
    `self.deps.get(*idx).unwrap()` with a stale index). -/
theorem pinned_debug_panics :
    (debugFmt (runOps false init [.addBlock 1 {}, .parse docText, .removeBlock 1])).2 =
      .error .internal := by decide

end MdIt.ParserState
