/-
  Model of the link-destination machinery (property C04):

    * `validate_link` / `normalize_link`            — `src/parser/main.rs`
    * `parse_link_destination` / `parse_link_title` — `src/generics/inline/full_link.rs`
    * the three call sites that turn source text into a destination
        inline link / image   `full_link.rs:parse_link`
        reference definition  `plugins/cmark/block/reference.rs`
        autolink              `plugins/cmark/inline/autolink.rs`
      all of which run  text → (decode) → `normalize_link` → `validate_link` → accept / reject
    * `browserScheme` / `dangerous` — what a browser (WHATWG URL parser) makes of a URL.

  Representation: raw markdown text is `List Char` addressed by BYTE positions (as the Rust `&str`
  is); URLs after `normalize_link` are byte lists `List Nat`.

  `validate_link` is a pair of `regex` patterns with the flag `(?i)`.  That flag is Unicode-aware in
  the `regex` crate (`ſ` U+017F matches `s`, `K` U+212A matches `k`), so on arbitrary strings the
  patterns accept a few non-ASCII spellings.  Every call site passes the OUTPUT OF `normalize_link`,
  which is pure ASCII (`Props/C04.lean: normalized_alphabet`), so the matchers below are defined on
  ASCII byte lists only and the driver refuses (`non-ascii`) anything else.
-/
import MdIt.Model.Url

namespace MdIt.Link
open MdIt.Url

/-! ## UTF-8 view of a string -/

/-- `char::len_utf8` -/
def clen (c : Char) : Nat :=
  let n := c.toNat
  if n < 0x80 then 1 else if n < 0x800 then 2 else if n < 0x10000 then 3 else 4

/-- UTF-8 bytes of one scalar value -/
def utf8Char (c : Char) : List Nat :=
  let n := c.toNat
  if n < 0x80 then [n]
  else if n < 0x800 then [0xC0 + n / 64, 0x80 + n % 64]
  else if n < 0x10000 then [0xE0 + n / 4096, 0x80 + n / 64 % 64, 0x80 + n % 64]
  else [0xF0 + n / 262144, 0x80 + n / 4096 % 64, 0x80 + n / 64 % 64, 0x80 + n % 64]

/-- `str.as_bytes()` -/
def utf8 (s : List Char) : List Nat := s.flatMap utf8Char

/-- `str.len()` -/
def byteLen : List Char → Nat
  | [] => 0
  | c :: cs => clen c + byteLen cs

inductive Panic where
  | slice      -- `&str[a..b]` with `a > b`, `b > len` or an index inside a multi-byte character
  deriving Repr, DecidableEq

/-- `&s[n..]`: `none` when `n` is past the end or not on a character boundary -/
def dropBytes : List Char → Nat → Option (List Char)
  | [], n => if n = 0 then some [] else none
  | c :: cs, n =>
    if n = 0 then some (c :: cs)
    else if clen c ≤ n then dropBytes cs (n - clen c) else none

/-- `&s[..n]`: same failure conditions -/
def takeBytes : List Char → Nat → Option (List Char)
  | [], n => if n = 0 then some [] else none
  | c :: cs, n =>
    if n = 0 then some []
    else if clen c ≤ n then (takeBytes cs (n - clen c)).map (c :: ·) else none

/-- `&s[a..b]` (a panic in Rust is `.error .slice`) -/
def slice (s : List Char) (a b : Nat) : Except Panic (List Char) :=
  if a ≤ b then
    match dropBytes s a with
    | none => .error .slice
    | some r =>
      match takeBytes r (b - a) with
      | none => .error .slice
      | some t => .ok t
  else .error .slice

/-! ## `validate_link`, `normalize_link` -/

/-- ASCII lower-casing of one byte -/
def lower (b : Nat) : Nat := if 65 ≤ b ∧ b ≤ 90 then b + 32 else b

/-- anchored, ASCII-case-insensitive literal prefix test: `(?i)^<p>` on an ASCII subject.
    `p` is the literal in lower case. -/
def startsCI : List Nat → List Nat → Bool
  | [], _ => true
  | _ :: _, [] => false
  | p :: ps, b :: bs => lower b == p && startsCI ps bs

/-- "vbscript" -/
def sVbscript : List Nat := [118, 98, 115, 99, 114, 105, 112, 116]
/-- "javascript" -/
def sJavascript : List Nat := [106, 97, 118, 97, 115, 99, 114, 105, 112, 116]
/-- "file" -/
def sFile : List Nat := [102, 105, 108, 101]
/-- "data" -/
def sData : List Nat := [100, 97, 116, 97]
/-- ":image/" -/
def sColonImage : List Nat := [58, 105, 109, 97, 103, 101, 47]
/-- "gif;" "png;" "jpeg;" "webp;" -/
def sGif : List Nat := [103, 105, 102, 59]
def sPng : List Nat := [112, 110, 103, 59]
def sJpeg : List Nat := [106, 112, 101, 103, 59]
def sWebp : List Nat := [119, 101, 98, 112, 59]

/-- `BAD_PROTO_RE = (?i)^(vbscript|javascript|file|data):` (`is_match`) -/
def badProto (u : List Nat) : Bool :=
  startsCI (sVbscript ++ [58]) u || startsCI (sJavascript ++ [58]) u ||
  startsCI (sFile ++ [58]) u || startsCI (sData ++ [58]) u

/-- `GOOD_DATA_RE = (?i)^data:image/(gif|png|jpeg|webp);` (`is_match`) -/
def goodData (u : List Nat) : Bool :=
  startsCI (sData ++ sColonImage ++ sGif) u || startsCI (sData ++ sColonImage ++ sPng) u ||
  startsCI (sData ++ sColonImage ++ sJpeg) u || startsCI (sData ++ sColonImage ++ sWebp) u

/-- `validate_link` (on ASCII input, see the header) -/
def validateLink (u : List Nat) : Bool := !badProto u || goodData u

/-- the string handed to `AsciiSet::from` in `normalize_link`: `;/?:@&=+$,-_.!~*'()#`
    (`Props/C04.lean: linkSafe_eq` ties it to the constant extracted from the source) -/
def safeChars : List Nat :=
  [59, 47, 63, 58, 64, 38, 61, 43, 36, 44, 45, 95, 46, 33, 126, 42, 39, 40, 41, 35]

def linkSafe : Nat → Bool := setHas (setFrom safeChars)

/-- `normalize_link` = `mdurl::encode(str, ASCII, true)` on the UTF-8 bytes of `str` -/
def normalizeLink (s : List Nat) : List Nat := encodeL linkSafe true s

/-! ## `parse_link_destination`, `parse_link_title` -/

/-- `ParseLinkFragmentResult`, with the RAW source slice in place of `str`
    (`str = unescape_all(raw)`; the decoding is a parameter of the pipelines below) -/
structure Frag where
  pos : Nat
  lines : Nat
  raw : List Char
  deriving Repr, DecidableEq

/-- the `<…>` loop; `pos` counts bytes.  Result: position of the closing `>`.
    (A line feed is rejected also directly after a backslash.) -/
def angleLoop : List Char → Nat → Option Nat
  | [], _ => none
  | c :: cs, pos =>
    if c = '\n' ∨ c = '<' then none
    else if c = '>' then some pos
    else if c = '\\' then
      match cs with
      | [] => none
      | x :: cs' => if x = '\n' then none else angleLoop cs' (pos + 1 + clen x)
    else angleLoop cs (pos + clen c)

/-- `'\0'..=' ' | '\x7f'` -/
def isBareStop (c : Char) : Bool := c.toNat ≤ 32 || c.toNat == 127

/-- the bare-destination loop.  `none` = `return None` (more than 32 open parentheses);
    `some (pos, level)` = `break` with these values.  A backslash does not escape a blank or a
    control character: the destination then ends BEFORE the backslash. -/
def bareLoop : List Char → Nat → Nat → Option (Nat × Nat)
  | [], pos, level => some (pos, level)
  | c :: cs, pos, level =>
    if isBareStop c then some (pos, level)
    else if c = '\\' then
      match cs with
      | [] => some (pos, level)
      | x :: cs' =>
        if isBareStop x then some (pos, level) else bareLoop cs' (pos + 1 + clen x) level
    else if c = '(' then
      if level + 1 > 32 then none else bareLoop cs (pos + 1) (level + 1)
    else if c = ')' then
      if level = 0 then some (pos, level) else bareLoop cs (pos + 1) (level - 1)
    else bareLoop cs (pos + clen c) level

/-- `parse_link_destination(str, start, max)` -/
def parseLinkDestination (str : List Char) (start max : Nat) : Except Panic (Option Frag) :=
  match slice str start max with
  | .error e => .error e
  | .ok chars =>
    match chars with
    | '<' :: rest =>
      match angleLoop rest (start + 1) with
      | none => .ok none
      | some pos =>
        match slice str (start + 1) pos with
        | .error e => .error e
        | .ok raw => .ok (some ⟨pos + 1, 0, raw⟩)
    | _ =>
      match bareLoop chars start 0 with
      | none => .ok none
      | some (pos, level) =>
        if level ≠ 0 then .ok none
        else
          match slice str start pos with
          | .error e => .error e
          | .ok raw => .ok (some ⟨pos, 0, raw⟩)

/-- closing marker for an opening title delimiter -/
def titleMarker (c : Char) : Option Char :=
  if c = '"' then some '"' else if c = '\'' then some '\'' else if c = '(' then some ')' else none

/-- the title loop.  Result: position of the closing marker and the line-break count
    (a line feed directly after a backslash is counted too). -/
def titleLoop (marker : Char) : List Char → Nat → Nat → Option (Nat × Nat)
  | [], _, _ => none
  | c :: cs, pos, lines =>
    if c = marker then some (pos, lines)
    else if c = '(' ∧ marker = ')' then none
    else if c = '\n' then titleLoop marker cs (pos + 1) (lines + 1)
    else if c = '\\' then
      match cs with
      | [] => none
      | x :: cs' =>
        titleLoop marker cs' (pos + 1 + clen x) (if x = '\n' then lines + 1 else lines)
    else titleLoop marker cs (pos + clen c) lines

/-- the title loop as it was BEFORE commit 5a0c4fb (kept only as a negation witness,
    `Props/C04.lean`): a line feed hidden behind a backslash was skipped without being counted -/
def titleLoopPinned (marker : Char) : List Char → Nat → Nat → Option (Nat × Nat)
  | [], _, _ => none
  | c :: cs, pos, lines =>
    if c = marker then some (pos, lines)
    else if c = '(' ∧ marker = ')' then none
    else if c = '\n' then titleLoopPinned marker cs (pos + 1) (lines + 1)
    else if c = '\\' then
      match cs with
      | [] => none
      | x :: cs' => titleLoopPinned marker cs' (pos + 1 + clen x) lines
    else titleLoopPinned marker cs (pos + clen c) lines

/-- `parse_link_title(str, start, max)` -/
def parseLinkTitle (str : List Char) (start max : Nat) : Except Panic (Option Frag) :=
  match slice str start max with
  | .error e => .error e
  | .ok chars =>
    match chars with
    | [] => .ok none
    | c :: rest =>
      match titleMarker c with
      | none => .ok none
      | some marker =>
        match titleLoop marker rest (start + 1) 0 with
        | none => .ok none
        | some (pos, lines) =>
          match slice str (start + 1) pos with
          | .error e => .error e
          | .ok raw => .ok (some ⟨pos + 1, lines, raw⟩)

/-! ## what a browser makes of a URL (WHATWG URL Standard, "basic URL parser") -/

/-- strip leading C0-control-or-space bytes -/
def stripLead : List Nat → List Nat
  | [] => []
  | b :: r => if b ≤ 32 then stripLead r else b :: r

def stripTrail (l : List Nat) : List Nat := (stripLead l.reverse).reverse

/-- ASCII tab or newline -/
def isTabNl (b : Nat) : Bool := b == 9 || b == 10 || b == 13

/-- "remove any leading and trailing C0 control or space from input;
     remove all ASCII tab or newline from input" -/
def preprocess (u : List Nat) : List Nat := (stripTrail (stripLead u)).filter (fun b => !isTabNl b)

def isAlpha (b : Nat) : Bool := (65 ≤ b && b ≤ 90) || (97 ≤ b && b ≤ 122)

/-- ASCII alphanumeric, `+`, `-`, `.` -/
def isSchemeChar (b : Nat) : Bool :=
  isAlpha b || (48 ≤ b && b ≤ 57) || b == 43 || b == 45 || b == 46

/-- "scheme state": lower-cased scheme characters up to the first `:`; anything else first
    (or the end of input) means "no scheme" -/
def schemeRest : List Nat → Option (List Nat)
  | [] => none
  | b :: r =>
    if b == 58 then some []
    else if isSchemeChar b then (schemeRest r).map (lower b :: ·) else none

/-- "scheme start state" + "scheme state" on the pre-processed input -/
def browserScheme (u : List Nat) : Option (List Nat) :=
  match preprocess u with
  | [] => none
  | b :: r => if isAlpha b then (schemeRest r).map (lower b :: ·) else none

/-- a browser would treat `u` as `javascript:`, `vbscript:`, `file:`, or as a `data:` URL other
    than an image of type gif / png / jpeg / webp -/
def dangerous (u : List Nat) : Bool :=
  match browserScheme u with
  | none => false
  | some s =>
    s == sJavascript || s == sVbscript || s == sFile ||
    (s == sData && !goodData (preprocess u))

/-! ## the three pipelines

`dec` stands for `unescape_all` (backslash escapes and character references are decoded BEFORE the
URL is normalised and validated).  The safety theorems hold for every `dec`. -/

/-- inline link / image (`full_link.rs:parse_link`): `res.str = unescape_all(raw)`,
    `href_candidate = normalize_link(res.str)`, accepted iff `validate_link(href_candidate)` -/
def inlineDest (dec : List Char → List Char) (raw : List Char) : Option (List Nat) :=
  let u := normalizeLink (utf8 (dec raw))
  if validateLink u then some u else none

/-- reference definition (`reference.rs`): same order; rejection is `return false`
    (no definition is stored) -/
def refDest (dec : List Char → List Char) (raw : List Char) : Option (List Nat) :=
  let u := normalizeLink (utf8 (dec raw))
  if validateLink u then some u else none

/-- "mailto:" -/
def sMailto : List Char := ['m', 'a', 'i', 'l', 't', 'o', ':']

/-- autolink (`autolink.rs`): the text between `<` and `>` is NOT decoded; `isAutolink` is the
    result of `AUTOLINK_RE.is_match(url)` (otherwise `EMAIL_RE` matched and `mailto:` is
    prepended); rejection is `return None` -/
def autolinkDest (isAutolink : Bool) (url : List Char) : Option (List Nat) :=
  let full :=
    if isAutolink then normalizeLink (utf8 url) else normalizeLink (utf8 (sMailto ++ url))
  if validateLink full then some full else none

/-- destination parser composed with the inline pipeline, as `parse_link` does:
    `none` = no destination here; `some (pos, href)` with `href = none` when the destination was
    parsed but rejected (then `pos` is NOT advanced — `parse_link` keeps the old `pos`) -/
def inlineHref (dec : List Char → List Char) (str : List Char) (pos max : Nat) :
    Except Panic (Option (Nat × Option (List Nat))) :=
  match parseLinkDestination str pos max with
  | .error e => .error e
  | .ok none => .ok none
  | .ok (some res) =>
    match inlineDest dec res.raw with
    | some u => .ok (some (res.pos, some u))
    | none => .ok (some (pos, none))

/-! ## the inline form `(<dest> "title")` of `parse_link` (`full_link.rs`), after the label -/

/-- `' ' | '\t' | '\n'` -/
def isWs (c : Char) : Bool := c == ' ' || c == '\t' || c == '\n'

/-- `while let Some(' ' | '\t' | '\n') = chars.next() { pos += 1; }` -/
def skipWs : List Char → Nat → Nat
  | [], pos => pos
  | c :: cs, pos => if isWs c then skipWs cs (pos + 1) else pos

/-- what `parse_link` returns for the inline form: `href`, `title`, `end` -/
structure InlineLink where
  href : Option (List Nat)
  title : Option (List Char)
  endPos : Nat
  deriving Repr, DecidableEq

/-- blanks, optional title, blanks — the part of `parse_link` behind the destination, entered
    with the `href` decided so far and the position to continue from.  Result: `(href, title, pos)` -/
def inlineTitlePart (dec : List Char → List Char) (src : List Char) (max : Nat)
    (href : Option (List Nat)) (pos : Nat) :
    Except Panic (Option (List Nat) × Option (List Char) × Nat) :=
  match slice src pos max with
  | .error e => .error e
  | .ok chars =>
    let pos := skipWs chars pos
    match parseLinkTitle src pos max with
    | .error e => .error e
    | .ok none => .ok (href, none, pos)
    | .ok (some t) =>
      match slice src t.pos max with
      | .error e => .error e
      | .ok chars' => .ok (href, some (dec t.raw), skipWs chars' t.pos)

/-- the body of `if let Some(res) = parse_link_destination(..) { … }`: validation of the
    destination — an accepted one sets `href` and moves `pos` behind it, a rejected one leaves
    `href = None` and `pos` where it was — then `inlineTitlePart` -/
def inlineAfterDest (dec : List Char → List Char) (src : List Char) (pos max : Nat) (res : Frag) :
    Except Panic (Option (List Nat) × Option (List Char) × Nat) :=
  match inlineDest dec res.raw with
  | some u => inlineTitlePart dec src max (some u) res.pos
  | none => inlineTitlePart dec src max none pos

/-- `parse_link` from `pos = label_end + 1` up to the point where it either returns the inline
    link or falls through to the reference lookup (`none`) -/
def parseInlineTail (dec : List Char → List Char) (src : List Char) (pos max : Nat) :
    Except Panic (Option InlineLink) :=
  match slice src pos max with
  | .error e => .error e
  | .ok chars =>
    match chars with
    | '(' :: rest =>
      let pos := skipWs rest (pos + 1)
      match parseLinkDestination src pos max with
      | .error e => .error e
      | .ok dest =>
        let stage : Except Panic (Option (List Nat) × Option (List Char) × Nat) :=
          match dest with
          | none => .ok (none, none, pos)
          | some res => inlineAfterDest dec src pos max res
        match stage with
        | .error e => .error e
        | .ok (href, title, pos) =>
          match slice src pos max with
          | .error e => .error e
          | .ok (')' :: _) => .ok (some ⟨href, title, pos + 1⟩)
          | .ok _ => .ok none
    | _ => .ok none

end MdIt.Link
