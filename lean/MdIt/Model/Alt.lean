/-
  Model of the `alt` assembly of `Image::render` (`src/plugins/cmark/inline/image.rs`) and of
  `Node::walk` (`src/parser/node.rs`) restricted to inline kinds.

  ```
  let mut alt = String::new();
  node.walk(|node, _| {
      if let Some(text) = node.cast::<Text>()             { alt.push_str(text.content.as_str()); }
      else if let Some(text) = node.cast::<TextSpecial>() { alt.push_str(text.content.as_str()); }
      else if node.is::<Softbreak>() || node.is::<Hardbreak>() { alt.push('\n'); }
  });
  ```
  `node` is the image node ITSELF: `walk` visits it first (it is none of the four kinds, so it
  contributes nothing) and then every descendant in pre-order.
-/
namespace MdIt.Alt

/-- Inline nodes as far as the alt assembly can tell them apart.  `wrap` is every kind that has no text
of its own: `Em`, `Strong`, `Strikethrough`, `Link`, `Image` (nested), `CodeInline` and `Autolink`
(both carry their text as a `Text` child), and childless kinds such as `HtmlInline` (`wrap k []`). -/
inductive Inl where
  | text (s : List Char)
  | special (content : List Char)
  | soft
  | hard
  | wrap (kind : Nat) (children : List Inl)
  deriving Repr

/-- children of a node (`node.children`) -/
def Inl.children : Inl → List Inl
  | .wrap _ cs => cs
  | _ => []

mutual
/-- `walk_recursive(node, depth, f)`: the sequence of nodes `f` is called on — the node, then for each
child in order its own walk (pre-order, depth first). -/
def walk : Inl → List Inl
  | .text s => [.text s]
  | .special c => [.special c]
  | .soft => [.soft]
  | .hard => [.hard]
  | .wrap k cs => .wrap k cs :: walkList cs
/-- `for n in node.children.iter() { walk_recursive(n, depth + 1, f) }` -/
def walkList : List Inl → List Inl
  | [] => []
  | c :: r => walk c ++ walkList r
end

/-- what the closure appends to `alt` for one visited node -/
def contrib : Inl → List Char
  | .text s => s
  | .special c => c
  | .soft => ['\n']
  | .hard => ['\n']
  | .wrap _ _ => []

/-- the closure before the repair: only plain `Text` was collected -/
def contribOld : Inl → List Char
  | .text s => s
  | _ => []

/-- `alt` after `node.walk(..)` for an arbitrary start node: the closure mutates the accumulator -/
def altOfNode (n : Inl) : List Char := (walk n).foldl (fun acc m => acc ++ contrib m) []

/-- the kind number the model uses for the image node being rendered (any `wrap` does) -/
def imageKind : Nat := 0

/-- `alt` as `Image::render` assembles it for an image whose children are `children` -/
def altOf (children : List Inl) : List Char := altOfNode (.wrap imageKind children)

/-- pre-repair assembly -/
def altOfOld (children : List Inl) : List Char :=
  (walk (.wrap imageKind children)).foldl (fun acc m => acc ++ contribOld m) []

/-! ## specification: what the description displays as inline text

Written independently of `walk`, by structural recursion on the tree: text shows its characters,
escapes / character references (`TextSpecial`) show their decoded `content`, both breaks show a
line break, every container shows what its children show. -/
mutual
def displayNode : Inl → List Char
  | .text s => s
  | .special c => c
  | .soft => ['\n']
  | .hard => ['\n']
  | .wrap _ cs => display cs
def display : List Inl → List Char
  | [] => []
  | c :: r => displayNode c ++ display r
end

end MdIt.Alt
