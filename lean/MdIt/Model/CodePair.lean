/-
  Model of `src/generics/inline/code_pair.rs` (`CodePairScanner::<MARKER, false>::run`, the rule
  behind `` `code spans` ``, `plugins/cmark/inline/backticks.rs`) together with its per-paragraph
  cache `CodePairCache { scanned, scanned_from, scanned_to, max, inside_failed }`.

  `src : List Char`; every position is a BYTE offset into the UTF-8 encoding of `src`
  (`byteLen`, `Char.utf8Size`), exactly as in the Rust. Every Rust operation that can panic is a
  partial operation here:
    * `&s[a..b]`                      → `slice` (`none` ⇒ `Panic.slice`: `a > b`, `b > len`, or an
                                        offset inside a multi-byte character),
    * `chars.next().unwrap()`         → `Panic.unwrap`,
    * `max[i]` (read in the monotone update; the pre-repair lookup) / `max[i] = v`
                                      → `Panic.index`,
    * `match_end - state.pos`, `match_start -= 1`  → `Panic.underflow`,
    * `debug_assert!(start <= end)` in `get_map`   → `Panic.assert`.
  Two subtractions are written as the value they obviously have, because both operands are
  literally `x + …` and `x`: `opener_len = pos - state.pos` (`pos = state.pos + 1 + k`) and
  `closer_len = match_end - match_start` (`match_end = match_start + 1 + k'`); and
  `content.len() - 1` sits behind `content.len() > 2` on the same line.

  Abstracted (they read other parts of the state):
    * `state.get_map(a, b)` (inline offset → source offset through `srcmap`) is not applied: the
      node records the inline offsets `(a, b)` handed to it;
    * `f(opener_len)` (the node constructor from the configuration) is recorded as `markerLen`;
    * `inside_failed : HashSet<usize>` is a `List Nat` used through membership only.
  `TOKENIZE = false` (the code-span instance): the inner text is a single `Text` node.

  The rule was repaired four times; every repair is a Boolean of `Variant`, so that the earlier
  code stays executable (negation witnesses in `Props/CodePair.lean`). `Variant.current` is the
  code on disk; with `inside = false` the rule has the old guard
  `state.trailing_text_get().ends_with(MARKER)`, abstracted as the argument `prevIsMarker`
  (it reads the tree under construction, not `src`); the current code ignores `prevIsMarker`.
-/
namespace MdIt.CodePair

inductive Panic where
  | slice      -- `&s[a..b]` out of range / not on a char boundary / `a > b`
  | unwrap     -- `chars.next().unwrap()` on an empty iterator
  | index      -- `max[i]` with `i >= max.len()`
  | underflow  -- unsigned subtraction below zero
  | assert     -- `debug_assert!(start_pos <= end_pos)` in `get_map`
  deriving Repr, DecidableEq

/-! ## strings as `List Char` with byte offsets -/

/-- `str::len` -/
def byteLen : List Char → Nat
  | [] => 0
  | c :: r => c.utf8Size + byteLen r

/-- the suffix starting at byte offset `n`; `none` unless `n ≤ len` is a char boundary -/
def dropB : List Char → Nat → Option (List Char)
  | l, 0 => some l
  | [], _ + 1 => none
  | c :: r, n + 1 => if c.utf8Size ≤ n + 1 then dropB r (n + 1 - c.utf8Size) else none

/-- the prefix of exactly `n` bytes; `none` unless `n ≤ len` is a char boundary -/
def takeB : List Char → Nat → Option (List Char)
  | _, 0 => some []
  | [], _ + 1 => none
  | c :: r, n + 1 =>
    if c.utf8Size ≤ n + 1 then (takeB r (n + 1 - c.utf8Size)).map (c :: ·) else none

/-- `&s[a..b]` -/
def slice (s : List Char) (a b : Nat) : Option (List Char) :=
  if a ≤ b then (dropB s a).bind (fun t => takeB t (b - a)) else none

/-- `s.is_char_boundary(n)` (true for `n = len`, false beyond) -/
def isBoundary (s : List Char) (n : Nat) : Bool := (dropB s n).isSome

/-- `while Some(MARKER) == chars.next() { .. += 1 }`: number of leading markers -/
def runLen (m : Char) : List Char → Nat
  | [] => 0
  | c :: r => if c = m then runLen m r + 1 else 0

/-- `s.find(MARKER)`: byte offset of the first occurrence -/
def findB (m : Char) : List Char → Option Nat
  | [] => none
  | c :: r => if c = m then some 0 else (findB m r).map (· + c.utf8Size)

/-! ## the cache -/

/-- which repairs are present -/
structure Variant where
  /-- closer-table read `max.get(i).copied().unwrap_or(0)` instead of `max[i]` -/
  checked : Bool
  /-- the table is consulted only for `scanned_from ≤ pos`, `pos_max ≤ scanned_to` -/
  ranged : Bool
  /-- table entries only grow: `if max[l] < match_start { max[l] = match_start }` -/
  monotone : Bool
  /-- interior positions of a failed opener are remembered in the cache (`inside_failed`)
      instead of being recognised through the trailing text of the tree -/
  inside : Bool
  deriving Repr, DecidableEq

/-- the code on disk -/
def Variant.current : Variant := ⟨true, true, true, true⟩
/-- the code of the pinned tree -/
def Variant.pinned : Variant := ⟨false, false, false, false⟩

structure Cache where
  scanned : Bool
  scannedFrom : Nat
  scannedTo : Nat
  max : List Nat
  insideFailed : List Nat
  deriving Repr, DecidableEq

/-- `CodePairCache::default()` -/
def Cache.empty : Cache := ⟨false, 0, 0, [], []⟩

/-- the closer-table read of the cache test.
    `checked = true`  : `max.get(i).copied().unwrap_or(0)` (current code);
    `checked = false` : `max[i]` (the code before the repair) -/
def lookup (checked : Bool) (mx : List Nat) (i : Nat) : Except Panic Nat :=
  if checked then .ok (mx.getD i 0)
  else match mx[i]? with
    | some v => .ok v
    | none => .error .index

/-- `while max.len() <= n { max.push(0); }` -/
def grow (mx : List Nat) (n : Nat) : List Nat :=
  if mx.length ≤ n then grow (mx ++ [0]) n else mx
termination_by n + 1 - mx.length
decreasing_by simp; omega

/-- `max[i] = v` -/
def setIdx (mx : List Nat) (i v : Nat) : Except Panic (List Nat) :=
  if i < mx.length then .ok (mx.set i v) else .error .index

/-- `while max.len() <= closer_len { max.push(0); }` then
    `if max[closer_len] < match_start { max[closer_len] = match_start; }` (monotone, current) or
    `max[closer_len] = match_start;` (before the repair) -/
def record (monotone : Bool) (mx : List Nat) (closerLen matchStart : Nat) :
    Except Panic (List Nat) :=
  if monotone then
    match (grow mx closerLen)[closerLen]? with
    | none => .error .index
    | some v =>
      if v < matchStart then setIdx (grow mx closerLen) closerLen matchStart
      else .ok (grow mx closerLen)
  else setIdx (grow mx closerLen) closerLen matchStart

/-- the range `state.pos + 1 .. pos` (empty when `pos ≤ state.pos + 1`) -/
def interior (statePos p : Nat) : List Nat := List.range' (statePos + 1) (p - (statePos + 1))

/-- `inside_failed.extend(state.pos + 1..pos)` -/
def markInside (v : Variant) (statePos p : Nat) (c : Cache) : Cache :=
  if v.inside then { c with insideFailed := c.insideFailed ++ interior statePos p } else c

/-- end of the loop: "Scanned through the end, didn't find anything" -/
def complete (v : Variant) (statePos posMax : Nat) (c : Cache) : Cache :=
  if v.ranged then
    if c.scanned = false ∨ (statePos ≤ c.scannedFrom ∧ c.scannedTo ≤ posMax) then
      { c with scanned := true, scannedFrom := statePos, scannedTo := posMax }
    else c
  else { c with scanned := true }

/-! ## the produced node -/

/-- what real mode pushes onto `state.node.children`: the node made by `f(opener_len)` with
    `srcmap = get_map(state.pos, match_end)` and one `Text` child with `content` and
    `srcmap = get_map(pos, match_start)` (inline offsets; the mapping is not applied here) -/
structure Node where
  markerLen : Nat
  rangeStart : Nat
  rangeEnd : Nat
  innerStart : Nat
  innerEnd : Nat
  content : List Char
  deriving Repr, DecidableEq

/-- `Some(len)`; `node` is `none` in look-ahead (silent) mode -/
structure Outcome where
  len : Nat
  node : Option Node
  deriving Repr, DecidableEq

/-- `.replace('\n', " ")` -/
def normalise (raw : List Char) : List Char := raw.map (fun ch => if ch = '\n' then ' ' else ch)

/-- `content.starts_with(' ') && content.ends_with(' ') && content.len() > 2` -/
def padded (content : List Char) : Bool :=
  content.head? == some ' ' && content.getLast? == some ' ' && decide (2 < byteLen content)

/-- the two `get_map` calls (their `debug_assert!`s) and the node -/
def finishNode (statePos matchEnd openerLen innerStart innerEnd : Nat) (content : List Char) :
    Except Panic Node :=
  if statePos ≤ matchEnd then
    if innerStart ≤ innerEnd then
      .ok ⟨openerLen, statePos, matchEnd, innerStart, innerEnd, content⟩
    else .error .assert
  else .error .assert

/-- the `if !silent { .. }` block (`TOKENIZE = false`); `p` is the Rust variable `pos`
    (first byte after the opener) -/
def mkNode (src : List Char) (statePos p matchStart matchEnd openerLen : Nat) : Except Panic Node :=
  match slice src p matchStart with
  | none => .error .slice
  | some raw =>
    let content := normalise raw
    if padded content then
      match slice content 1 (byteLen content - 1) with
      | none => .error .slice
      | some inner =>
        -- `pos += 1; match_start -= 1;`
        if matchStart = 0 then .error .underflow
        else finishNode statePos matchEnd openerLen (p + 1) (matchStart - 1) inner
    else finishNode statePos matchEnd openerLen p matchStart content

/-! ## the rule -/

theorem takeB_zero (t : List Char) : takeB t 0 = some [] := by cases t <;> rfl

/-- a non-empty slice has `a < b` (used for the termination of `scan`) -/
theorem slice_lt {s : List Char} {a b : Nat} {u : List Char} (h : slice s a b = some u)
    (hu : u ≠ []) : a < b := by
  unfold slice at h
  split at h
  · by_cases hb : b - a = 0
    · cases hd : dropB s a with
      | none => simp [hd] at h
      | some t => simp [hd, hb, takeB_zero] at h; exact absurd h hu
    · omega
  · cases h

theorem findB_ne_nil {m : Char} {s : List Char} {off : Nat} (h : findB m s = some off) : s ≠ [] := by
  intro e; subst e; simp [findB] at h

set_option linter.unusedVariables false in
/-- the `while let Some(p) = state.src[match_end..state.pos_max].find(MARKER)` loop.
    `pos` = `state.pos`, `p` = the Rust variable `pos`, `openerLen` as in the Rust.
    Termination: `match_end` strictly increases (the code's own measure `pos_max - match_end`:
    `find` succeeded, so the slice is non-empty and `match_end < pos_max`). -/
def scan (v : Variant) (marker : Char) (src : List Char) (pos posMax openerLen p : Nat)
    (silent : Bool) (matchEnd : Nat) (c : Cache) : Except Panic (Option Outcome × Cache) :=
  match h : slice src matchEnd posMax with
  | none => .error .slice
  | some s =>
    match hf : findB marker s with
    | none =>
      -- Scanned through the end, didn't find anything
      .ok (none, markInside v pos p (complete v pos posMax c))
    | some off =>
      -- `match_start = match_end + p`
      -- `match_end = match_start + 1; chars = state.src[match_end..state.pos_max].chars();`
      match slice src (matchEnd + off + 1) posMax with
      | none => .error .slice
      | some s' =>
        -- `closer_len = match_end - match_start` after `match_end += 1` per marker
        if 1 + runLen marker s' = openerLen then
          -- `return Some(match_end - state.pos)`
          if matchEnd + off + (1 + runLen marker s') < pos then .error .underflow
          else if silent then
            .ok (some ⟨matchEnd + off + (1 + runLen marker s') - pos, none⟩, c)
          else
            match mkNode src pos p (matchEnd + off) (matchEnd + off + (1 + runLen marker s'))
                openerLen with
            | .error e => .error e
            | .ok nd => .ok (some ⟨matchEnd + off + (1 + runLen marker s') - pos, some nd⟩, c)
        else
          match record v.monotone c.max (1 + runLen marker s') (matchEnd + off) with
          | .error e => .error e
          | .ok mx =>
            scan v marker src pos posMax openerLen p silent
              (matchEnd + off + (1 + runLen marker s')) { c with max := mx }
termination_by posMax - matchEnd
decreasing_by
  have := slice_lt h (findB_ne_nil hf)
  omega

/-- the cache test `scanned && state.pos >= scanned_from && state.pos_max <= scanned_to`
    (without the range conditions before that repair) -/
def consultable (v : Variant) (pos posMax : Nat) (c : Cache) : Bool :=
  c.scanned && (!v.ranged || (decide (c.scannedFrom ≤ pos) && decide (posMax ≤ c.scannedTo)))

/-- `CodePairScanner::<MARKER, false>::run(state, silent)` with `state.pos = pos`,
    `state.pos_max = posMax`, cache `c`; returns the rule's answer and the cache afterwards. -/
def run (v : Variant) (marker : Char) (src : List Char) (pos posMax : Nat)
    (prevIsMarker silent : Bool) (c : Cache) : Except Panic (Option Outcome × Cache) :=
  match slice src pos posMax with
  | none => .error .slice
  | some [] => .error .unwrap
  | some (ch :: rest) =>
    if ch ≠ marker then .ok (none, c)
    else if v.inside = false ∧ prevIsMarker = true then .ok (none, c)
    else
      -- `pos = state.pos + 1`, then `+= 1` per further marker (the Rust adds ONE per marker
      -- character whatever its UTF-8 width); `p` is the Rust `pos`, `openerLen = 1 + runLen ..`
      if v.inside = true ∧ c.insideFailed.contains pos = true then .ok (none, c)
      else if consultable v pos posMax c = true then
        match lookup v.checked c.max (1 + runLen marker rest) with
        | .error e => .error e
        | .ok x =>
          if x ≤ pos then .ok (none, markInside v pos (pos + 1 + runLen marker rest) c)
          else scan v marker src pos posMax (1 + runLen marker rest) (pos + 1 + runLen marker rest)
                 silent (pos + 1 + runLen marker rest) c
      else scan v marker src pos posMax (1 + runLen marker rest) (pos + 1 + runLen marker rest)
             silent (pos + 1 + runLen marker rest) c

/-! ## sequences of invocations against one cache -/

structure Call where
  pos : Nat
  posMax : Nat
  prevIsMarker : Bool
  silent : Bool
  deriving Repr, DecidableEq

def runCall (v : Variant) (marker : Char) (src : List Char) (k : Call) (c : Cache) :
    Except Panic (Option Outcome × Cache) :=
  run v marker src k.pos k.posMax k.prevIsMarker k.silent c

/-- all calls succeed: the answers and the final cache; the first panic otherwise -/
def runSeq (v : Variant) (marker : Char) (src : List Char) :
    List Call → Cache → Except Panic (List (Option Outcome) × Cache)
  | [], c => .ok ([], c)
  | k :: ks, c =>
    match runCall v marker src k c with
    | .error e => .error e
    | .ok (r, c') =>
      match runSeq v marker src ks c' with
      | .error e => .error e
      | .ok (rs, c'') => .ok (r :: rs, c'')

/-- the answers up to (excluding) the first panicking call, and that panic if any -/
def runTrace (v : Variant) (marker : Char) (src : List Char) :
    List Call → Cache → List (Option Outcome) × Option Panic
  | [], _ => ([], none)
  | k :: ks, c =>
    match runCall v marker src k c with
    | .error e => ([], some e)
    | .ok (r, c') =>
      let (rs, e) := runTrace v marker src ks c'
      (r :: rs, e)

end MdIt.CodePair
