/-
  Model of `src/common/erasedset.rs` (`ErasedSet(HashMap<TypeKey, Box<dyn AnyDebug>>)`) and of the
  part of `src/common/typekey.rs` it relies on (`TypeKey` compares and hashes by `TypeId` only, so a
  key *is* a type id here: a `Nat`).

  A stored box is a `Val`: `tag` is the dynamic type of the boxed `ErasedMember<T>` (written as the
  type id of `T` itself — `T ↦ ErasedMember<T>` is injective), `payload` the value.
  The `HashMap` is an association list; only look-ups are ever observed (never iteration order —
  `Debug` is the only iterating consumer and is out of scope), so `put` / `erase` act on the FIRST
  entry with the key, like a look-up does.  That the list never holds two entries with one key and
  that every box has the type its key promises is NOT assumed: it is `Inv`, proved in `Props/C20`.

  Every `downcast(..).unwrap()` of the Rust is a partial operation (`Except Panic`): it fails when the
  stored value's tag differs from the key.  `get` / `get_mut` use `downcast_ref(..)?` /
  `downcast_mut(..)?` instead: a mismatch is `None` there, not a panic — modelled that way.
-/
namespace MdIt.ErasedSet

inductive Panic where
  | downcast     -- `result.downcast::<ErasedMember<T>>().unwrap()` on a box of another type
  deriving Repr, DecidableEq

/-- a `Box<dyn AnyDebug>`: dynamic type + value -/
structure Val where
  tag : Nat
  payload : Nat
  deriving Repr, DecidableEq

/-- `HashMap<TypeKey, Box<dyn AnyDebug>>` -/
abbrev State := List (Nat × Val)

/-- `ErasedSet::new()` -/
def empty : State := []

/-- `HashMap::get` -/
def lookup (k : Nat) : State → Option Val
  | [] => none
  | (k', v) :: r => if k' = k then some v else lookup k r

/-- `HashMap::insert` / a vacant `entry(..).or_insert_with`: overwrite the entry or add one -/
def put (k : Nat) (v : Val) : State → State
  | [] => [(k, v)]
  | (k', v') :: r => if k' = k then (k, v) :: r else (k', v') :: put k v r

/-- `HashMap::remove` -/
def erase (k : Nat) : State → State
  | [] => []
  | (k', v') :: r => if k' = k then r else (k', v') :: erase k r

/-- `downcast::<ErasedMember<T>>().unwrap().0` with `T = k` -/
def downcast (k : Nat) (v : Val) : Except Panic Nat :=
  if v.tag = k then .ok v.payload else .error .downcast

/-- `downcast_ref::<ErasedMember<T>>()?` / `downcast_mut` with `T = k` -/
def downcast? (k : Nat) (v : Val) : Option Nat :=
  if v.tag = k then some v.payload else none

/-- `is_empty` -/
def isEmpty (s : State) : Bool := s.isEmpty

/-- `len` -/
def len (s : State) : Nat := s.length

/-- `clear` -/
def clear (_ : State) : State := []

/-- `contains::<T>()` -/
def contains (k : Nat) (s : State) : Bool := (lookup k s).isSome

/-- `get::<T>()` (the returned `&T`, by value) -/
def get (k : Nat) (s : State) : Option Nat :=
  match lookup k s with
  | none => none
  | some v => downcast? k v

/-- `if let Some(r) = get_mut::<T>() { *r = p }`: returns whether a reference was handed out -/
def set (k p : Nat) (s : State) : State × Bool :=
  match lookup k s with
  | none => (s, false)
  | some v =>
    match downcast? k v with
    | none => (s, false)
    | some _ => (put k ⟨k, p⟩ s, true)

/-- `get_or_insert::<T>(value)`: new state and the value behind the returned `&mut T`.
    (A write through that reference is a following `set`.) -/
def getOrInsert (k p : Nat) (s : State) : Except Panic (State × Nat) :=
  match lookup k s with
  | some v =>
    match downcast k v with
    | .ok x => .ok (s, x)
    | .error e => .error e
  | none => .ok (put k ⟨k, p⟩ s, p)

/-- `get_or_insert_with::<T>(f)`: `f` runs only on a vacant entry; it is pure here -/
def getOrInsertWith (k : Nat) (f : Unit → Nat) (s : State) : Except Panic (State × Nat) :=
  match lookup k s with
  | some v =>
    match downcast k v with
    | .ok x => .ok (s, x)
    | .error e => .error e
  | none => let p := f (); .ok (put k ⟨k, p⟩ s, p)

/-- `get_or_insert_default::<T>()`, `dflt` = `T::default()` -/
def getOrInsertDefault (k dflt : Nat) (s : State) : Except Panic (State × Nat) :=
  getOrInsertWith k (fun _ => dflt) s

/-- `insert::<T>(value)`: the map is updated first, the displaced box is downcast afterwards -/
def insert (k p : Nat) (s : State) : Except Panic (State × Option Nat) :=
  let s' := put k ⟨k, p⟩ s
  match lookup k s with
  | none => .ok (s', none)
  | some old =>
    match downcast k old with
    | .ok x => .ok (s', some x)
    | .error e => .error e

/-- `remove::<T>()` -/
def remove (k : Nat) (s : State) : Except Panic (State × Option Nat) :=
  match lookup k s with
  | none => .ok (s, none)
  | some old =>
    match downcast k old with
    | .ok x => .ok (erase k s, some x)
    | .error e => .error e

/-- one call of the public API; `k` = the type parameter, `p` = the value passed in
    (for `getOrInsertWith` the closure's result, for `getOrInsertDefault` `T::default()`) -/
inductive Op where
  | insert (k p : Nat)
  | get (k : Nat)
  | set (k p : Nat)
  | getOrInsert (k p : Nat)
  | getOrInsertWith (k p : Nat)
  | getOrInsertDefault (k p : Nat)
  | remove (k : Nat)
  | clear
  | len
  | isEmpty
  | contains (k : Nat)
  deriving Repr, DecidableEq

/-- what the call returns -/
inductive Out where
  | opt (o : Option Nat)    -- `Option<T>` / `Option<&T>`
  | val (v : Nat)           -- `&mut T`
  | bool (b : Bool)
  | nat (n : Nat)
  | unit
  deriving Repr, DecidableEq

def step (s : State) : Op → Except Panic (State × Out)
  | .insert k p =>
    match insert k p s with
    | .ok (s', o) => .ok (s', .opt o)
    | .error e => .error e
  | .get k => .ok (s, .opt (get k s))
  | .set k p => let r := set k p s; .ok (r.1, .bool r.2)
  | .getOrInsert k p =>
    match getOrInsert k p s with
    | .ok (s', v) => .ok (s', .val v)
    | .error e => .error e
  | .getOrInsertWith k p =>
    match getOrInsertWith k (fun _ => p) s with
    | .ok (s', v) => .ok (s', .val v)
    | .error e => .error e
  | .getOrInsertDefault k p =>
    match getOrInsertDefault k p s with
    | .ok (s', v) => .ok (s', .val v)
    | .error e => .error e
  | .remove k =>
    match remove k s with
    | .ok (s', o) => .ok (s', .opt o)
    | .error e => .error e
  | .clear => .ok (clear s, .unit)
  | .len => .ok (s, .nat (len s))
  | .isEmpty => .ok (s, .bool (isEmpty s))
  | .contains k => .ok (s, .bool (contains k s))

/-- a whole call sequence: final state and every result, or the first panic -/
def run (s : State) : List Op → Except Panic (State × List Out)
  | [] => .ok (s, [])
  | op :: ops =>
    match step s op with
    | .error e => .error e
    | .ok (s', o) =>
      match run s' ops with
      | .error e => .error e
      | .ok (s'', os) => .ok (s'', o :: os)

end MdIt.ErasedSet
