/-
  The BLOCK-level parser WITH the raw-HTML block rule in the chain: `Model/Block.lean` (the nine cmark
  block rules, `BlockParser::tokenize`, `BlockState::test_rules_at_line`) composed with
  `Model/Html.lean` (`HtmlBlockScanner::run`), over the extended rule enumeration

      RuleIdH := base (r : Block.RuleId) | html

  Reuse.  NOTHING of the two models is copied or changed: the nine rule functions (`Block.runRule`),
  `Block.afterChain`, every helper and `Html.htmlBlockRule` are used as they are.  The rules of
  `Model/Block.lean` already take the nested tokenizer `tok : Tok` and the look-ahead `test : Test` as
  parameters; what is new here is only the layer that is monomorphic in `Block.RuleId` there:

      runChainG   = `Block.runChain`  over an arbitrary id type `ι`
      tokLoopG    = `Block.tokLoop`   over a chain `List ι` (statement by statement the same loop)
      runRuleH    = `Block.runRule` + the case `.html ↦ htmlRule`
      engineH / tokenizeH / testRulesH / parseBlocksH = the same fuel recursion as `Block.engine` …
                    `Block.parseBlocks`, with the ten-rule chain in BOTH the tokenizer and the
                    look-ahead (so an html block start terminates a paragraph, a reference
                    definition, a lazy block quote line, a list — exactly where
                    `state.test_rules_at_line()` is called)

  The html node.  `Block.Kind` (frozen) has no constructor for `HtmlBlock { content }`.  ENCODING: the
  node pushed by the html rule is the `Block.BNode`

      ⟨ .codeFence [] '<' 0 content , some (start, end) , [] ⟩            (`htmlNode`)

  i.e. a "code fence" with empty info string, marker character `<` and marker length 0, carrying
  `HtmlBlock.content` in the content field and `node.srcmap` (byte offsets) as its range, no
  children.  This cannot collide with a real `CodeFence`: `fenceRule` only builds fences whose marker
  is `~` or a back-tick and whose marker length is ≥ 3.  `htmlContent?` decodes.  (The nine rules
  inspect pushed nodes only through `kind = .paragraph` (`markTight`) and `kind = .listItem`
  (`tightenItems`), so the encoding is inert for them, as an `HtmlBlock` node is in the Rust.)

  Configuration.  `CfgH` = `Block.Cfg` with a chain over `RuleIdH`.  The engine-level functions take
  a `Block.Cfg` (read for `maxNesting` and the three tables ONLY — its own `chain` field is never
  looked at) and the ten-rule chain separately; `parseBlocksH` feeds them `cfg.base` and `cfg.chain`.

  Validated against the real parser (`md.block` with `HtmlBlockScanner` in the chain, no inline pass)
  by the differential stream `blockh` (`Driver/BlockH.lean`, `harness/src/corr/blockh.rs`).
-/
import MdIt.Model.Block
import MdIt.Model.Html

namespace MdIt.BlockH
open MdIt.Block

/-- the ten block rules that ship with the crate: the nine of `plugins::cmark::block` and
    `plugins::html::html_block` -/
inductive RuleIdH where
  | base (r : RuleId)
  | html
  deriving Repr, DecidableEq

def RuleIdH.base? : RuleIdH → Option RuleId
  | .base r => some r
  | .html => none

/-- what the rules read of `MarkdownIt` (as `Block.Cfg`, the chain over the ten rules) -/
structure CfgH where
  maxNesting : Nat
  /-- the effective (compiled) block chain -/
  chain : List RuleIdH
  lookup : List Char → Option (List Char)
  L : Nat → List Nat
  U : Nat → List Nat

/-- the `Block.Cfg` the nine old rules see; its chain is the html-free part of the chain -/
def CfgH.base (c : CfgH) : Cfg :=
  { maxNesting := c.maxNesting, chain := c.chain.filterMap RuleIdH.base?, lookup := c.lookup, L := c.L, U := c.U }

/-- an html-free configuration as a `CfgH` -/
def CfgH.ofCfg (c : Cfg) : CfgH :=
  { maxNesting := c.maxNesting, chain := c.chain.map .base, lookup := c.lookup, L := c.L, U := c.U }

/-! ## the html node (see the header: ENCODING) -/

def htmlKind (content : List Char) : Kind := .codeFence [] '<' 0 content

/-- `Node::new(HtmlBlock { content })` with `srcmap = range` -/
def htmlNode (n : Html.BlockNode) : BNode := ⟨htmlKind n.content, some n.range, []⟩

/-- `node.cast::<HtmlBlock>().map(|x| x.content)` -/
def htmlContent? : Kind → Option (List Char)
  | .codeFence [] '<' 0 content => some content
  | _ => none

/-- `HtmlBlockScanner::run(state, silent)` as a member of the chain: `Html.htmlBlockRule`, with the
    node it returns pushed to `state.node.children` -/
def htmlRule (s : BState) (silent : Bool) : Res :=
  match Html.htmlBlockRule s silent with
  | .error e => .error e
  | .ok (b, s', none) => .ok (b, s')
  | .ok (b, s', some n) => .ok (b, s'.push (htmlNode n))

/-! ## the chain, `test_rules_at_line`, `tokenize` -/

/-- one rule of the chain -/
def runRuleH (cfg : Cfg) (tok : Tok) (test : Test) (fuel : Nat) : RuleIdH → BState → Bool → Res
  | .base r => runRule cfg tok test fuel r
  | .html => htmlRule

/-- `for rule in ruler.iter() { if rule(state, silent) { return/break } }` (`Block.runChain`, any id type) -/
def runChainG {ι : Type} (run : ι → BState → Bool → Res) : List ι → BState → Bool → Res
  | [], s, _ => .ok (false, s)
  | r :: rs, s, silent =>
    match run r s silent with
    | .error e => .error e
    | .ok (true, s') => .ok (true, s')
    | .ok (false, s') => runChainG run rs s' silent

/-- the `while state.line < state.line_max` loop of `tokenize` (`Block.tokLoop`, any id type) -/
def tokLoopG {ι : Type} (maxNesting : Nat) (chain : List ι) (run : ι → BState → Bool → Res) :
    Nat → Bool → BState → Except Panic BState
  | 0, _, _ => .error .fuel
  | fuel + 1, hasEmpty, s =>
    if ¬ s.line < s.lineMax then .ok s else
    let s := { s with line := Lines.skipEmptyLines s.offs s.lineMax s.line }
    if s.line ≥ s.lineMax then .ok s else do
    let ind ← s.lineIndent s.line
    if ind < 0 then .ok s else
    if s.level ≥ maxNesting then .ok { s with line := s.lineMax } else do
    let prevLine := s.line
    let (ok, s) ← runChainG run chain s false
    let s ← afterChain ok s prevLine
    let s := { s with tight := !hasEmpty }
    let l1 ← psub s.line 1
    let hasEmpty := hasEmpty || s.isEmpty l1
    if s.line < s.lineMax ∧ s.isEmpty s.line then tokLoopG maxNesting chain run fuel true { s with line := s.line + 1 }
    else tokLoopG maxNesting chain run fuel hasEmpty s

/-- `(tokenize, test_rules_at_line)` with nesting/iteration budget `fuel`; `cfg.chain` is NOT read -/
def engineH (cfg : Cfg) (chain : List RuleIdH) : Nat → Tok × Test
  | 0 => (fun _ => .error .fuel, fun _ => .error .fuel)
  | f + 1 =>
    let p := engineH cfg chain f
    (tokLoopG cfg.maxNesting chain (runRuleH cfg p.1 p.2 (f + 1)) (f + 1) false,
     fun s => runChainG (runRuleH cfg p.1 p.2 (f + 1)) chain s true)

/-- `BlockParser::tokenize` -/
def tokenizeH (cfg : Cfg) (chain : List RuleIdH) (fuel : Nat) : Tok := (engineH cfg chain fuel).1

/-- `BlockState::test_rules_at_line` -/
def testRulesH (cfg : Cfg) (chain : List RuleIdH) (fuel : Nat) : Test := (engineH cfg chain fuel).2

/-- a rule as the tokenizer at budget `fuel + 1` calls it -/
def ruleAtH (cfg : Cfg) (chain : List RuleIdH) (fuel : Nat) : RuleIdH → BState → Bool → Res :=
  runRuleH cfg (tokenizeH cfg chain fuel) (testRulesH cfg chain fuel) (fuel + 1)

/-- `MarkdownIt::parse` up to and including the block pass, no inline pass: the root node (range
    `(0, src.len())`) and the reference map.  Same starting fuel as `Block.parseBlocks`. -/
def parseBlocksH (cfg : CfgH) (src : List Char) : Except Panic (BNode × Refs.RefMap) :=
  match tokenizeH cfg.base cfg.chain (fuelFor cfg.base src) (BState.fresh src .root []) with
  | .error e => .error e
  | .ok s => .ok (⟨s.nodeKind, some (0, Lines.byteLen src), s.children⟩, s.refs)

end MdIt.BlockH
