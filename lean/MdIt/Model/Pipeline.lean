/-
  Model of the WHOLE document pipeline for html-free configurations, by composition of the models
  of its parts:

    * `src/parser/main.rs`                              `MarkdownIt::parse`: `Root` with range `(0, src.len())`, then
                                                        the core chain, which for the configurations built from the
                                                        shipped html-free plugins is always
                                                            BlockParserRule → InlineParserRule → [FragmentsJoin] → [SyntaxPosRule]
                                                        (the first three are `before_all`, each `after` its predecessor;
                                                        `SyntaxPosRule` has normal priority; the stream `pipeline` reads
                                                        the real order back and checks it)
    * `src/parser/block/builtin/block_parser.rs`        `BlockParserRule::run`        = `Block.parseBlocks`
    * `src/parser/inline/builtin/inline_parser.rs`      `InlineParserRule::run`: the splice walk (`spliceNode` /
                                                        `spliceList`): every `InlineRoot` child, at any depth, is
                                                        replaced by the children `md.inline.parse(content, mapping, ..)`
                                                        returns (a fresh `InlineState` per placeholder = `Inline.parseInline`;
                                                        `env` is the document's: the reference map of the block pass);
                                                        a non-placeholder child is walked recursively; the spliced-in
                                                        nodes are skipped (`idx += len`)
    * `src/generics/inline/emph_pair.rs`                `FragmentsJoin::run` = `walk_mut(fragments_join)` over the WHOLE
                                                        tree (`joinNode`), present iff an emphasis-like rule was added
    * `src/plugins/sourcepos.rs`                        `SyntaxPosRule::run` (`sourceposNode`): pre-order `walk_mut`, every
                                                        node with a range gets `("data-sourcepos", "l1:c1-l2:c2")` pushed
    * `src/parser/node.rs`                              `Node::render` / `xrender` = `NodeRender.render` on the projection
                                                        `toRender`, then `Render.serialize`

  The splice walk is written as the structural recursion which `Props/C14.walkNode_eq_loop` /
  `spliceLoop_eq` prove equal to the index loop of the Rust (`InlineOps.spliceLoop`); the order in
  which placeholders are parsed (document order) is the order of the loop, so the FIRST panic is the
  same one.

  Nothing here needs fuel of its own: the block pass uses `Block.fuelFor`, every inline run
  `Inline.topFuel` (both proved / checked sufficient in their own slices); the splice, the sourcepos
  walk and the projection are structural, the join pass recurses on the node count (which
  `fragments_join` never increases).

  Panics are the panics of the parts (`Panic`): nothing is totalised.
-/
import MdIt.Model.Block
import MdIt.Model.Inline
import MdIt.Model.NodeRender
import MdIt.Model.SourceMap

namespace MdIt.Pipeline

/-- where a panic of the pipeline comes from -/
inductive Panic where
  /-- `BlockParserRule` -/
  | block (p : Block.Panic)
  /-- `InlineParserRule` (one of the `md.inline.parse` calls) -/
  | inline (p : Inline.Panic)
  /-- `SyntaxPosRule` (`get_positions`) -/
  | sourcepos (p : SourceMap.Panic)
  /-- `Node::render` / `Node::xrender` -/
  | render (p : NodeRender.Panic)
  deriving Repr, DecidableEq

/-- `Node::node_value` of a document tree: a block-level value or an inline-level value, with every
    payload field -/
inductive Kind where
  | blk (k : Block.Kind)
  | inl (v : Inline.Val)
  deriving Repr, DecidableEq

/-- `Node`: value, `srcmap` (byte offsets), `attrs`, children (`env` is not modelled: after the
    parse nothing reads it) -/
structure Node where
  kind : Kind
  range : Option (Nat × Nat)
  attrs : List (List Char × List Char)
  children : List Node
  deriving Repr

/-- what the pipeline reads of a `MarkdownIt` built from html-free plugins -/
structure DocCfg where
  /-- `md.max_nesting` -/
  maxNesting : Nat
  /-- the effective (compiled) block chain -/
  blockChain : List Block.RuleId
  /-- the effective (compiled) inline chain -/
  inlineChain : List Inline.RuleId
  /-- `PairConfig<MARKER>::fns` -/
  fns : Char → Nat → Option Inline.Wrap
  /-- is `SyntaxPosRule` in the core chain -/
  sourcepos : Bool
  /-- `FenceSettings` (`"language-"` unless `add_with_lang_prefix` was used) -/
  langPrefix : List Char
  /-- `get_entity_from_str` (entity table) -/
  entity : List Char → Option (List Char)
  /-- `char::to_lowercase`, `char::to_uppercase` -/
  L : Nat → List Nat
  U : Nat → List Nat
  /-- `char::is_whitespace` -/
  isWhite : Char → Bool
  /-- `is_punct_char` -/
  isPunctChar : Char → Bool

/-- the block parser's view of the configuration -/
def DocCfg.blockCfg (cfg : DocCfg) : Block.Cfg :=
  { maxNesting := cfg.maxNesting, chain := cfg.blockChain, lookup := cfg.entity, L := cfg.L, U := cfg.U }

/-- the inline parser's view of the configuration, for a document whose block pass produced the
    reference map `refs`.  `state.root_env.get::<ReferenceMap>()` is `None` until the reference rule
    has stored a first definition (`get_or_insert_default` sits behind all its `return false`s), and
    the map only grows: it is absent iff it is empty. -/
def DocCfg.inlineCfg (cfg : DocCfg) (refs : Refs.RefMap) : Inline.Cfg :=
  { maxNesting := cfg.maxNesting, chain := cfg.inlineChain, fns := cfg.fns,
    refs := if refs.isEmpty then none else some refs,
    normRef := Refs.normalize cfg.L cfg.U, entity := cfg.entity,
    isWhite := cfg.isWhite, isPunctChar := cfg.isPunctChar }

/-- is `FragmentsJoin` in the core chain: `emph_pair::add_with` adds it together with the first
    emphasis-like inline rule -/
def DocCfg.hasJoin (cfg : DocCfg) : Bool := cfg.inlineChain.any Inline.RuleId.isEmph

/-! ## `InlineParserRule`: the splice walk -/

mutual
/-- a node the inline parser made, as a node of the document (no attributes yet) -/
def ofInline : Inline.Node → Node
  | ⟨v, r, cs⟩ => ⟨.inl v, r, [], ofInlineList cs⟩
termination_by structural n => n
def ofInlineList : List Inline.Node → List Node
  | [] => []
  | c :: cs => ofInline c :: ofInlineList cs
termination_by structural l => l
end

mutual
/-- `walk_recursive(node, md, env)`: the node keeps value and range, its children are walked -/
def spliceNode (icfg : Inline.Cfg) : Block.BNode → Except Panic Node
  | ⟨k, r, cs⟩ =>
    match spliceList icfg cs with
    | .error e => .error e
    | .ok cs' => .ok ⟨.blk k, r, [], cs'⟩
termination_by structural b => b
/-- the `while idx < node.children.len()` loop: an `InlineRoot` child is replaced by the children
    of `md.inline.parse(content, mapping, root, md, env)` (its own children are dropped:
    `root.children = Vec::new()`), any other child is walked (`walk_recursive(child, md, env)`) -/
def spliceList (icfg : Inline.Cfg) : List Block.BNode → Except Panic (List Node)
  | [] => .ok []
  | c :: rest =>
    match c.kind with
    | .inlineRoot content mapping =>
      match Inline.parseInline icfg content mapping with
      | .error e => .error (.inline e)
      | .ok ns =>
        match spliceList icfg rest with
        | .error e => .error e
        | .ok rest' => .ok (ofInlineList ns ++ rest')
    | _ =>
      match spliceNode icfg c with
      | .error e => .error e
      | .ok c' =>
        match spliceList icfg rest with
        | .error e => .error e
        | .ok rest' => .ok (c' :: rest')
termination_by structural l => l
end

/-! ## `FragmentsJoin`: `fragments_join` at every node of the document
    (the code of `MdIt.Join` / `MdIt.Inline.fragmentsJoinN` on the document's node type) -/

def Node.isText (n : Node) : Bool :=
  match n.kind with
  | .inl (.text _) => true
  | _ => false

/-- `text.content` of a `Text` node (`[]` for other kinds; callers test `isText` first) -/
def Node.content (n : Node) : List Char :=
  match n.kind with
  | .inl (.text c) => c
  | _ => []

/-- pass 1 on one token: `token.replace(Text { content: marker.repeat(remaining) })` -/
def markerToText (n : Node) : Node :=
  match n.kind with
  | .inl (.emphMarker m _ rem _ _) => { n with kind := .inl (.text (Join.markerText m rem)) }
  | _ => n

def pass1 (cs : List Node) : List Node := cs.map markerToText

/-- `token2` with its content taken -/
def emptied (t2 : Node) : Node := { t2 with kind := .inl (.text []) }

/-- `token1` with the content appended and the srcmap adjusted -/
def merged (t1 t2 : Node) : Node :=
  { t1 with
    kind := .inl (.text (t1.content ++ t2.content))
    range :=
      match t1.range, t2.range with
      | some (a, _), some (_, d) => some (a, d)
      | r, _ => r }

/-- pass 2 (the index loop with its `swap`, as a structural recursion: `Join.mergeIdx_eq`) -/
def mergeLoop (cur : Node) : List Node → List Node
  | [] => [cur]
  | nxt :: rest =>
    if cur.isText && nxt.isText then emptied nxt :: mergeLoop (merged cur nxt) rest
    else cur :: mergeLoop nxt rest

def mergeAll : List Node → List Node
  | [] => []
  | c :: rest => mergeLoop c rest

/-- the `retain` predicate -/
def keep (n : Node) : Bool := !(n.isText && n.content.isEmpty)

/-- `fragments_join` on the child vector -/
def fragmentsJoin (cs : List Node) : List Node := (mergeAll (pass1 cs)).filter keep

mutual
def nsize : Node → Nat
  | ⟨_, _, _, cs⟩ => 1 + nsizeList cs
def nsizeList : List Node → Nat
  | [] => 0
  | c :: cs => nsize c + nsizeList cs
end

theorem nsize_eq (n : Node) : nsize n = 1 + nsizeList n.children := by
  cases n; simp [nsize]

theorem nsizeList_pass1 (cs : List Node) : nsizeList (pass1 cs) = nsizeList cs := by
  induction cs with
  | nil => simp [pass1, nsizeList]
  | cons c cs ih =>
    have : nsize (markerToText c) = nsize c := by
      rw [nsize_eq, nsize_eq]; unfold markerToText; split <;> rfl
    simp only [pass1, List.map_cons, nsizeList] at ih ⊢
    rw [this, ih]

theorem nsizeList_mergeLoop (cur : Node) (rest : List Node) :
    nsizeList (mergeLoop cur rest) = nsize cur + nsizeList rest := by
  induction rest generalizing cur with
  | nil => simp [mergeLoop, nsizeList]
  | cons nxt rest ih =>
    have e1 : nsize (emptied nxt) = nsize nxt := by rw [nsize_eq, nsize_eq]; rfl
    have e2 : nsize (merged cur nxt) = nsize cur := by rw [nsize_eq, nsize_eq]; rfl
    simp only [mergeLoop]
    split
    · simp only [nsizeList, ih, e1, e2]; omega
    · simp only [nsizeList, ih]

theorem nsizeList_filter_le (p : Node → Bool) (l : List Node) :
    nsizeList (l.filter p) ≤ nsizeList l := by
  induction l with
  | nil => simp [nsizeList]
  | cons c l ih =>
    simp only [List.filter_cons]
    split <;> simp only [nsizeList] <;> omega

theorem nsizeList_fragmentsJoin_le (cs : List Node) : nsizeList (fragmentsJoin cs) ≤ nsizeList cs := by
  unfold fragmentsJoin
  refine Nat.le_trans (nsizeList_filter_le _ _) ?_
  rw [← nsizeList_pass1 cs]
  cases pass1 cs with
  | nil => simp [mergeAll]
  | cons c r => simp [mergeAll, nsizeList_mergeLoop, nsizeList]

mutual
/-- `walk_mut(fragments_join)`: the callback first, then the children it left -/
def joinNode (n : Node) : Node :=
  { n with children := joinList (fragmentsJoin n.children) }
termination_by 2 * nsize n
decreasing_by
  have := nsizeList_fragmentsJoin_le n.children
  rw [nsize_eq]; omega
def joinList : List Node → List Node
  | [] => []
  | c :: cs => joinNode c :: joinList cs
termination_by l => 2 * nsizeList l + 1
decreasing_by
  · simp only [nsizeList]; omega
  · have := nsize_eq c
    simp only [nsizeList]; omega
end

/-! ## `SyntaxPosRule` -/

/-- `u32` / `usize` `Display` -/
def natStr (n : Nat) : List Char := Nat.toDigits 10 n

/-- `format!("{}:{}-{}:{}", startline, startcol, endline, endcol)` -/
def sourceposValue (p : (Nat × Nat) × (Nat × Nat)) : List Char :=
  natStr p.1.1 ++ [':'] ++ natStr p.1.2 ++ ['-'] ++ natStr p.2.1 ++ [':'] ++ natStr p.2.2

/-- the callback on one node: `if let Some(map) = node.srcmap { node.attrs.push(("data-sourcepos", ..)) }` -/
def sourceposAttrs (src : List Char) (marks : List SourceMap.Mark) (range : Option (Nat × Nat))
    (attrs : List (List Char × List Char)) : Except Panic (List (List Char × List Char)) :=
  match range with
  | none => .ok attrs
  | some r =>
    match SourceMap.getPositions src marks r with
    | .error e => .error (.sourcepos e)
    | .ok p => .ok (attrs ++ [(NodeRender.aSourcepos, sourceposValue p)])

mutual
/-- `root.walk_mut(..)`: the node first, then its children in order -/
def sourceposNode (src : List Char) (marks : List SourceMap.Mark) : Node → Except Panic Node
  | ⟨k, r, a, cs⟩ =>
    match sourceposAttrs src marks r a with
    | .error e => .error e
    | .ok a' =>
      match sourceposList src marks cs with
      | .error e => .error e
      | .ok cs' => .ok ⟨k, r, a', cs'⟩
termination_by structural n => n
def sourceposList (src : List Char) (marks : List SourceMap.Mark) : List Node → Except Panic (List Node)
  | [] => .ok []
  | c :: cs =>
    match sourceposNode src marks c with
    | .error e => .error e
    | .ok c' =>
      match sourceposList src marks cs with
      | .error e => .error e
      | .ok cs' => .ok (c' :: cs')
termination_by structural l => l
end

/-! ## `MarkdownIt::parse` -/

/-- the core chain behind the block pass -/
def afterBlocks (cfg : DocCfg) (src : List Char) (root : Block.BNode) (refs : Refs.RefMap) :
    Except Panic Node :=
  match spliceNode (cfg.inlineCfg refs) root with
  | .error e => .error e
  | .ok t =>
    let t := if cfg.hasJoin then joinNode t else t
    if cfg.sourcepos then sourceposNode src (SourceMap.mkMarks src) t else .ok t

/-- `md.parse(src)`.  The reference map and every per-paragraph value (inline state, memo, code-span
    cache, delimiter bottoms) are local values created in here: the only argument is `(cfg, src)`,
    the only result the tree. -/
def parseDoc (cfg : DocCfg) (src : List Char) : Except Panic Node :=
  match Block.parseBlocks cfg.blockCfg src with
  | .error e => .error (.block e)
  | .ok (root, refs) => afterBlocks cfg src root refs

/-! ## projection to the renderer's view, `render` / `xrender` -/

/-- a Rust `String` from its UTF-8 bytes.  (Every url of a parsed tree is an output of
    `normalize_link`, i.e. pure ASCII — `Props/C04.normalized_alphabet` —, where this is
    `map Char.ofNat`; the general decoder is here so that nothing is assumed.  Ill-formed input
    cannot occur in a `String`; the decoder maps it to something, never fails.)
    `utf8Go need acc`: `need` continuation bytes are still expected for the scalar value whose
    leading bits are `acc`. -/
def utf8Go : Nat → Nat → List Nat → List Char
  | _, _, [] => []
  | 0, _, b :: r =>
    if b < 0x80 then Char.ofNat b :: utf8Go 0 0 r
    else if b < 0xE0 then utf8Go 1 (b - 0xC0) r
    else if b < 0xF0 then utf8Go 2 (b - 0xE0) r
    else utf8Go 3 (b - 0xF0) r
  | need + 1, acc, b :: r =>
    if need = 0 then Char.ofNat (acc * 64 + (b - 0x80)) :: utf8Go 0 0 r
    else utf8Go need (acc * 64 + (b - 0x80)) r

def utf8Decode (bs : List Nat) : List Char := utf8Go 0 0 bs

/-- the fields `render` reads of a node value -/
def Kind.toRender (langPrefix : List Char) : Kind → NodeRender.Kind
  | .blk .root => .root
  | .blk .paragraph => .paragraph
  | .blk .blockquote => .blockquote
  | .blk (.bulletList _) => .bulletList
  | .blk (.orderedList start _) => .orderedList start
  | .blk .listItem => .listItem
  | .blk (.codeBlock content) => .codeBlock content
  | .blk (.codeFence info _ _ content) => .codeFence info content langPrefix
  | .blk (.hr _ _) => .hr
  | .blk (.atx level) => .atx level
  | .blk (.setext level _) => .setext level
  | .blk (.inlineRoot _ _) => .placeholder
  | .inl (.text c) => .text c
  | .inl (.special c _ _) => .special c
  | .inl .softbreak => .softbreak
  | .inl .hardbreak => .hardbreak
  | .inl (.codeInline _ _) => .codeInline
  | .inl (.wrap .em _) => .em
  | .inl (.wrap .strong _) => .strong
  | .inl (.wrap .strike _) => .strike
  | .inl (.link url title) => .link (utf8Decode url) title
  | .inl (.image url title) => .image (utf8Decode url) title
  | .inl (.autolink url) => .autolink (utf8Decode url)
  | .inl (.emphMarker _ _ _ _ _) => .placeholder

mutual
/-- the tree as `MdIt.NodeRender` sees it -/
def toRender (langPrefix : List Char) : Node → NodeRender.Node
  | ⟨k, _, a, cs⟩ => ⟨k.toRender langPrefix, a, toRenderList langPrefix cs⟩
termination_by structural n => n
def toRenderList (langPrefix : List Char) : List Node → List NodeRender.Node
  | [] => []
  | c :: cs => toRender langPrefix c :: toRenderList langPrefix cs
termination_by structural l => l
end

/-- the trait calls `node.render()` issues -/
def renderEvents (cfg : DocCfg) (t : Node) : Except Panic (List Render.Event) :=
  match NodeRender.render cfg.entity (toRender cfg.langPrefix t) with
  | .error e => .error (.render e)
  | .ok evs => .ok evs

/-- `md.parse(src).render()` (`x = false`) / `.xrender()` (`x = true`) -/
def renderDoc (x : Bool) (cfg : DocCfg) (src : List Char) : Except Panic (List Char) :=
  match parseDoc cfg src with
  | .error e => .error e
  | .ok t =>
    match renderEvents cfg t with
    | .error e => .error e
    | .ok evs => .ok (Render.serialize x evs)

end MdIt.Pipeline
