/-
  Model of the parser as a state machine (C07 / C08): the configuration of a `MarkdownIt`
  (`src/parser/main.rs`, `block/mod.rs`, `inline/mod.rs`) together with its interior-mutable caches.

  Rust state reachable from `&MarkdownIt` that survives a `parse` call:
    * `md.block.ruler`, `md.inline.ruler`, `md.ruler` : `Ruler<TypeKey, RuleFn>` — each a `deps` vector
      plus `compiled : OnceCell<(Vec<usize>, Vec<T>)>`;
    * `md.inline.text_charmap : HashMap<char, Vec<TypeKey>>` (configuration);
    * `md.inline.text_impl : OnceCell<TextScannerImpl>` (cache).
  Everything else a parse touches (`Root.env`, `BlockState`, `InlineState`, code-span cache, …) is a
  local value of the pipeline and lives inside the uninterpreted `run`.

  Conventions.
    * Rule identities (`TypeKey`s) are `Nat`s; the payload `T::run` stored beside mark `TypeKey::of::<T>()`
      is identified with that mark, i.e. with the FIRST mark of its item (aliases are pushed behind it).
    * Marker characters are code points; `0` is `'\0'` = "no marker".
    * `resets = true` is the code on disk: `Ruler::add` AND `Ruler::remove` reset `compiled`,
      `InlineParser::add_rule/remove_rule` reset `text_impl`.  `resets = false` is the pinned tree:
      only `Ruler::add` resets (`remove` keeps the chain, the inline ops keep the scanner).
    * A cache stores only a SUCCESSFUL computation: `OnceCell::get_or_init(f)` with a panicking `f`
      unwinds and leaves the cell empty, so a compile panic (`missing` / `cyclic`) is observed again by
      every later reader until the configuration changes.
    * `HashMap` iteration order is not observable through the regex's meaning, so the stop set of
      `SkipRegex` is kept sorted (canonical representative of the set of keys).
-/
import MdIt.Model.Ruler

namespace MdIt.ParserState
open MdIt.Ruler (RuleItem Cons Prio CompileErr foldE)

/-! ### rule identities of `MarkdownIt::new()` -/

/-- `block::builtin::BlockParserRule` (core rule) -/
def idBlockParser : Nat := 900
/-- `inline::builtin::InlineParserRule` (core rule) -/
def idInlineParser : Nat := 901
/-- `inline::builtin::TextScanner` (inline rule, `MARKER = '\0'`) -/
def idTextScanner : Nat := 902

/-! ### the text scanner table (`skip_text.rs`) -/

inductive TextImpl where
  /-- `TextScannerImpl::SkipPunct`: stops at the fixed 23 characters -/
  | punct
  /-- `TextScannerImpl::SkipRegex(^[^…]+)`: stops exactly at `stops` -/
  | regex (stops : List Nat)
  deriving Repr, DecidableEq

/-- `'\n' | '!' | '#' | '$' | '%' | '&' | '*' | '+' | '-' | ':' | '<' | '=' | '>' | '@' | '[' | '\\' |
    ']' | '^' | '_' | '`' | '{' | '}' | '~'` -/
def punctSet : List Nat :=
  [10, 33, 35, 36, 37, 38, 42, 43, 45, 58, 60, 61, 62, 64, 91, 92, 93, 94, 95, 96, 123, 125, 126]

def insertSorted (x : Nat) : List Nat → List Nat
  | [] => [x]
  | a :: l => if x ≤ a then x :: a :: l else a :: insertSorted x l

/-- canonical order for a set of code points -/
def sortNat : List Nat → List Nat
  | [] => []
  | a :: l => insertSorted a (sortNat l)

/-- `choose_text_impl(charmap.keys())`: `SkipPunct` iff every key is one of the 23 characters,
    else the regex `^[^<keys>]+` -/
def chooseTextImpl (keys : List Nat) : TextImpl :=
  if keys.all (fun k => punctSet.contains k) then .punct else .regex (sortNat keys)

/-! ### `text_charmap : HashMap<char, Vec<TypeKey>>` as an association list -/

abbrev Charmap := List (Nat × List Nat)

/-- `text_charmap.entry(m).or_insert(vec![]).push(id)` -/
def cmPush : Charmap → Nat → Nat → Charmap
  | [], m, id => [(m, [id])]
  | (k, v) :: t, m, id => if k = m then (k, v ++ [id]) :: t else (k, v) :: cmPush t m id

/-- `text_charmap.remove(&m)`: the removed value (if any) and the remaining map -/
def cmTake : Charmap → Nat → Option (List Nat) × Charmap
  | [], _ => (none, [])
  | (k, v) :: t, m =>
    if k = m then (some v, t)
    else
      let r := cmTake t m
      (r.1, (k, v) :: r.2)

/-- `text_charmap.insert(m, v)` -/
def cmInsert : Charmap → Nat → List Nat → Charmap
  | [], m, v => [(m, v)]
  | (k, w) :: t, m, v => if k = m then (k, v) :: t else (k, w) :: cmInsert t m v

/-- the marker bookkeeping of `InlineParser::remove_rule`:
    `let mut charvec = map.remove(&M).unwrap_or_default(); charvec.retain(|x| *x != id); map.insert(M, charvec)`
    — the key stays (or is even CREATED) with a possibly empty vector -/
def cmRetain (cm : Charmap) (m id : Nat) : Charmap :=
  let r := cmTake cm m
  cmInsert r.2 m ((r.1.getD []).filter (fun x => x != id))

/-- `text_charmap.keys()` -/
def cmKeys (cm : Charmap) : List Nat := cm.map (fun p => p.1)

/-! ### `Ruler` with its `compiled` cache -/

/-- the cached `(Vec<usize>, Vec<T>)`: `result_idx` and the payloads (= first marks at compile time) -/
structure Compiled where
  idx : List Nat
  vals : List Nat
  deriving Repr, DecidableEq

/-- `self.deps.get(i).unwrap().marks.get(0).unwrap()` -/
def firstMark? (deps : List RuleItem) (i : Nat) : Option Nat :=
  match deps[i]? with
  | none => none
  | some d => d.marks.head?

def mapM? {α β : Type} (f : α → Option β) : List α → Option (List β)
  | [] => some []
  | a :: l =>
    match f a with
    | none => none
    | some b =>
      match mapM? f l with
      | none => none
      | some r => some (b :: r)

/-- `Ruler::compile` including the payload vector (`result.push(dep.value.clone())`) -/
def compileRuler (r : MdIt.Ruler.Ruler) : Except CompileErr Compiled :=
  match r.compile with
  | .error e => .error e
  | .ok idx =>
    match mapM? (firstMark? r.deps) idx with
    | none => .error .internal
    | some vals => .ok ⟨idx, vals⟩

/-- `self.compiled.get_or_init(|| self.compile())`: the cell afterwards and the value read.
    A panicking `compile` leaves the cell as it was (empty). -/
def getOrInit (r : MdIt.Ruler.Ruler) (cell : Option Compiled) : Except CompileErr (Option Compiled × Compiled) :=
  match cell with
  | some c => .ok (some c, c)
  | none =>
    match compileRuler r with
    | .error e => .error e
    | .ok c => .ok (some c, c)

/-- the builder calls chained on `add_rule::<T>()` (`before`, `after`, `require`, `alias`,
    `before_all`, `after_all`).  They run on the `&mut RuleItem` returned by `Ruler::add`, after the
    cache reset and before anything else can look at the ruler, so add + builders is one atomic step. -/
structure Spec where
  prio : Prio := .normal
  aliases : List Nat := []
  cons : List Cons := []
  deriving Repr, DecidableEq

def Spec.item (id : Nat) (sp : Spec) : RuleItem := ⟨id :: sp.aliases, sp.prio, sp.cons⟩

/-- `self.deps.push(item)` -/
def addItem (r : MdIt.Ruler.Ruler) (it : RuleItem) : MdIt.Ruler.Ruler := ⟨r.deps ++ [it]⟩

/-! ### parser state -/

structure PState where
  block : MdIt.Ruler.Ruler
  inline : MdIt.Ruler.Ruler
  core : MdIt.Ruler.Ruler
  textCharmap : Charmap
  cBlock : Option Compiled
  cInline : Option Compiled
  cCore : Option Compiled
  textImpl : Option TextImpl
  deriving Repr, DecidableEq

/-- a parser without any rule -/
def empty : PState := ⟨.new, .new, .new, [], none, none, none, none⟩

/-- `MarkdownIt::new()`: `block::builtin::add` (core rule `BlockParserRule.before_all()`), then
    `inline::builtin::add` (inline rule `TextScanner.before_all()`, core rule
    `InlineParserRule.after::<BlockParserRule>().before_all()`); nothing has been compiled yet -/
def init : PState :=
  { block := ⟨[]⟩
    inline := ⟨[⟨[idTextScanner], .beforeAll, []⟩]⟩
    core := ⟨[⟨[idBlockParser], .beforeAll, []⟩, ⟨[idInlineParser], .beforeAll, [.after idBlockParser]⟩]⟩
    textCharmap := []
    cBlock := none, cInline := none, cCore := none, textImpl := none }

/-- abstract document: what of the lazily initialised machinery it reaches, and an opaque body.
    * `usesBlock`: has a non-blank line, so `BlockParser::tokenize` reads `block.ruler.iter()`
      (an empty / all-blank source never does);
    * `usesInline`: block parsing leaves a non-empty `InlineRoot` whose text gets to the text scanner
      position in the inline chain (`InlineParser::tokenize` reads `inline.ruler.iter()`, and
      `TextScanner::run`, if it is in the chain, reads `text_impl`). -/
structure Doc where
  usesBlock : Bool
  usesInline : Bool
  body : Nat
  deriving Repr, DecidableEq

/-- what one `parse` call read from the caches — the only way configuration reaches the pipeline -/
structure Effective where
  core : List Nat
  /-- `some chain` iff `block.ruler.iter()` was evaluated during this parse -/
  block : Option (List Nat)
  inline : Option (List Nat)
  /-- `some impl` iff `TextScanner::run` was entered during this parse -/
  text : Option TextImpl
  deriving Repr, DecidableEq

inductive Op where
  | addBlock (id : Nat) (sp : Spec)
  | removeBlock (id : Nat)
  | addInline (id marker : Nat) (sp : Spec)
  | removeInline (id marker : Nat)
  | addCore (id : Nat) (sp : Spec)
  | removeCore (id : Nat)
  | hasBlock (id : Nat)
  | hasInline (id : Nat)
  | hasCore (id : Nat)
  | parse (doc : Doc)
  /-- `format!("{:?}", md)`: `impl Debug for Ruler` calls `get_or_init`, i.e. FILLS the caches -/
  | debugFmt
  deriving Repr, DecidableEq

def Op.isParse : Op → Bool
  | .parse _ => true
  | _ => false

/-- the ops that take `&mut self` and change the configuration -/
def Op.isConfig : Op → Bool
  | .addBlock .. | .removeBlock .. | .addInline .. | .removeInline .. | .addCore .. | .removeCore .. => true
  | _ => false

/-- what `{:?}` shows of the caches: per ruler the `compiled: [(idx, deps[idx].marks[0])]` list, and `text_impl` -/
structure DebugView where
  block : List (Nat × Nat)
  inline : List (Nat × Nat)
  core : List (Nat × Nat)
  text : Option TextImpl
  deriving Repr, DecidableEq

inductive Out (ρ : Type) where
  | done
  | has (b : Bool)
  | parsed (result : ρ)
  | debug (v : DebugView)
  /-- the call unwound with this panic -/
  | panicked (e : CompileErr)
  deriving Repr, DecidableEq

/-! ### configuration ops -/

/-- `Ruler::remove`: `self.compiled = OnceCell::new()` (only in the repaired tree), then `retain` -/
def removeCell (resets : Bool) (cell : Option Compiled) : Option Compiled :=
  if resets then none else cell

/-- `self.text_impl = OnceCell::new()` at the top of `InlineParser::add_rule/remove_rule` (repaired tree) -/
def resetText (resets : Bool) (t : Option TextImpl) : Option TextImpl :=
  if resets then none else t

def addBlock (s : PState) (id : Nat) (sp : Spec) : PState :=
  { s with cBlock := none, block := addItem s.block (sp.item id) }

def removeBlock (resets : Bool) (s : PState) (id : Nat) : PState :=
  { s with cBlock := removeCell resets s.cBlock, block := s.block.remove id }

def addCore (s : PState) (id : Nat) (sp : Spec) : PState :=
  { s with cCore := none, core := addItem s.core (sp.item id) }

def removeCore (resets : Bool) (s : PState) (id : Nat) : PState :=
  { s with cCore := removeCell resets s.cCore, core := s.core.remove id }

/-- `InlineParser::add_rule::<T>()` with `T::MARKER = marker` -/
def addInline (resets : Bool) (s : PState) (id marker : Nat) (sp : Spec) : PState :=
  { s with
    textImpl := resetText resets s.textImpl
    textCharmap := if marker ≠ 0 then cmPush s.textCharmap marker id else s.textCharmap
    cInline := none
    inline := addItem s.inline (sp.item id) }

/-- `InlineParser::remove_rule::<T>()` -/
def removeInline (resets : Bool) (s : PState) (id marker : Nat) : PState :=
  { s with
    textImpl := resetText resets s.textImpl
    textCharmap := if marker ≠ 0 then cmRetain s.textCharmap marker id else s.textCharmap
    cInline := removeCell resets s.cInline
    inline := s.inline.remove id }

/-! ### `MarkdownIt::parse` -/

/-- progress of the core chain over one document -/
structure Walk where
  s : PState
  /-- `BlockParserRule` has run on a source with a non-blank line: `InlineRoot`s may exist -/
  rootsReady : Bool
  block : Option (List Nat)
  inline : Option (List Nat)
  text : Option TextImpl
  deriving Repr, DecidableEq

/-- `self.text_impl.get_or_init(|| choose_text_impl(text_charmap.keys()))` (cannot panic) -/
def textGetOrInit (s : PState) : TextImpl :=
  match s.textImpl with
  | some t => t
  | none => chooseTextImpl (cmKeys s.textCharmap)

/-- one `rule(&mut node, self)` of `for rule in self.ruler.iter()`; a panic carries the state reached -/
def coreRule (doc : Doc) (w : Walk) (rule : Nat) : Except (PState × CompileErr) Walk :=
  if rule = idBlockParser then
    -- `md.block.parse` → `tokenize`: `self.ruler.iter()` sits inside `while state.line < state.line_max`
    -- behind `skip_empty_lines`, so it is evaluated iff there is a non-blank line
    if doc.usesBlock then
      match getOrInit w.s.block w.s.cBlock with
      | .error e => .error (w.s, e)
      | .ok (cell, c) =>
        .ok { w with s := { w.s with cBlock := cell }, rootsReady := true, block := some c.vals }
    else .ok w
  else if rule = idInlineParser then
    -- `walk_recursive` calls `md.inline.parse` per `InlineRoot`; `tokenize` reads the chain iff the
    -- content is non-empty
    if w.rootsReady && doc.usesInline then
      match getOrInit w.s.inline w.s.cInline with
      | .error e => .error (w.s, e)
      | .ok (cell, c) =>
        let s1 : PState := { w.s with cInline := cell }
        if c.vals.contains idTextScanner then
          let t := textGetOrInit s1
          .ok { w with s := { s1 with textImpl := some t }, inline := some c.vals, text := some t }
        else
          .ok { w with s := s1, inline := some c.vals }
    else .ok w
  else
    -- any other core rule: no cache in reach
    .ok w

/-- `MarkdownIt::parse` as far as the caches are concerned: the state afterwards and either the
    chains the pipeline has read or the panic that unwound the call -/
def parseEff (s : PState) (doc : Doc) : PState × Except CompileErr Effective :=
  match getOrInit s.core s.cCore with
  | .error e => (s, .error e)
  | .ok (cell, c) =>
    match foldE (coreRule doc) ⟨{ s with cCore := cell }, false, none, none, none⟩ c.vals with
    | .error (s', e) => (s', .error e)
    | .ok w => (w.s, .ok ⟨c.vals, w.block, w.inline, w.text⟩)

/-! ### `impl Debug for MarkdownIt` (fields in declaration order: block, inline, …, ruler) -/

/-- `impl Debug for Ruler`: `get_or_init`, then `(idx, deps[idx].marks[0])` with two `unwrap`s -/
def debugRuler (r : MdIt.Ruler.Ruler) (cell : Option Compiled) :
    Except CompileErr (Option Compiled × List (Nat × Nat)) :=
  match getOrInit r cell with
  | .error e => .error e
  | .ok (cell', c) =>
    match mapM? (fun i => (firstMark? r.deps i).map (fun m => (i, m))) c.idx with
    | none => .error .internal
    | some v => .ok (cell', v)

def debugFmt (s : PState) : PState × Except CompileErr DebugView :=
  match debugRuler s.block s.cBlock with
  | .error e => (s, .error e)
  | .ok (cb, vb) =>
    let s1 : PState := { s with cBlock := cb }
    match debugRuler s1.inline s1.cInline with
    | .error e => (s1, .error e)
    | .ok (ci, vi) =>
      let s2 : PState := { s1 with cInline := ci }
      match debugRuler s2.core s2.cCore with
      | .error e => (s2, .error e)
      | .ok (cc, vc) => ({ s2 with cCore := cc }, .ok ⟨vb, vi, vc, s2.textImpl⟩)

/-! ### the state machine -/

/-- the state after one call (independent of what the pipeline computes) -/
def next (resets : Bool) (s : PState) : Op → PState
  | .addBlock id sp => addBlock s id sp
  | .removeBlock id => removeBlock resets s id
  | .addInline id m sp => addInline resets s id m sp
  | .removeInline id m => removeInline resets s id m
  | .addCore id sp => addCore s id sp
  | .removeCore id => removeCore resets s id
  | .hasBlock _ => s
  | .hasInline _ => s
  | .hasCore _ => s
  | .parse doc => (parseEff s doc).1
  | .debugFmt => (debugFmt s).1

def runOps (resets : Bool) (s : PState) : List Op → PState
  | [] => s
  | op :: rest => runOps resets (next resets s op) rest

section Step
variable {ρ : Type}
-- pinned (`false`) or repaired (`true`) cache invalidation
variable (resets : Bool)
-- the whole pure pipeline (block + inline tokenizers, core rules, renderer) given the chains it reads
variable (run : Effective → Doc → ρ)

/-- what one call returns (or the panic it unwinds with) -/
def out (s : PState) : Op → Out ρ
  | .addBlock .. | .removeBlock .. | .addInline .. | .removeInline .. | .addCore .. | .removeCore .. => .done
  | .hasBlock id => .has (s.block.contains id)
  | .hasInline id => .has (s.inline.contains id)
  | .hasCore id => .has (s.core.contains id)
  | .parse doc =>
    match (parseEff s doc).2 with
    | .error e => .panicked e
    | .ok eff => .parsed (run eff doc)
  | .debugFmt =>
    match (debugFmt s).2 with
    | .error e => .panicked e
    | .ok v => .debug v

def step (s : PState) (op : Op) : PState × Out ρ := (next resets s op, out run s op)

/-- the outputs of a history, one per op -/
def trace (s : PState) : List Op → List (Out ρ)
  | [] => []
  | op :: rest => out run s op :: trace (next resets s op) rest

/-- output of the last call of a history run on `MarkdownIt::new()` -/
def lastOut (ops : List Op) : Option (Out ρ) := (trace resets run init ops).getLast?

end Step

/-- the chains read by a final `parse doc` after the history `ops` on `MarkdownIt::new()` -/
def lastEff (resets : Bool) (ops : List Op) (doc : Doc) : Except CompileErr Effective :=
  (parseEff (runOps resets init ops) doc).2

end MdIt.ParserState
