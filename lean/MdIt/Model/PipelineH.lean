/-
  Model of the WHOLE document pipeline WITH the raw-HTML plugin (`plugins::html::html_block`,
  `plugins::html::html_inline`, either or both): `Model/Pipeline.lean` composed with `Model/BlockH.lean`
  and `Model/InlineH.lean`.

    * `src/parser/main.rs`                      `MarkdownIt::parse`: the html plugin adds NO core rule, so the core
                                                chain is still BlockParserRule → InlineParserRule → [FragmentsJoin]
                                                → [SyntaxPosRule] (read back and checked by the stream `pipelineh`)
    * `BlockParserRule::run`                    = `BlockH.parseBlocksH` (ten-rule block chain)
    * `InlineParserRule::run`                   the splice walk of `Model/Pipeline.lean`, every placeholder parsed by
                                                `InlineH.parseInlineH` (extended inline chain)
    * `FragmentsJoin::run`                      = `Pipeline.joinNode`, UNCHANGED
    * `SyntaxPosRule::run`                      = `Pipeline.sourceposNode`, UNCHANGED
    * `Node::render` / `xrender`                = `NodeRender.render` on the projection `toRenderH`, which decodes
                                                the two html nodes into `NodeRender.Kind.htmlBlock` / `.htmlInline`

  Reuse.  The document node type (`Pipeline.Node`, `Pipeline.Kind`) and the panic type (`Pipeline.Panic`)
  are those of `Model/Pipeline.lean`: the html nodes are ENCODED in existing constructors
  (`Block.Kind.codeFence [] '<' 0 content`, `Inline.Val.special [] content "html_inline"`, see the two
  parser models).  What the later passes do with the encoded nodes, against the Rust:

    * join pass.  `fragments_join` looks at `EmphMarker` (pass 1) and `Text` (pass 2, `retain`) children
      only; `Pipeline.markerToText` / `Node.isText` test `.inl (.emphMarker ..)` / `.inl (.text _)`, so a
      `.special`-encoded `HtmlInline` is neither converted, merged nor removed, and two `Text` nodes on
      either side of it are not merged ACROSS it — as in the Rust, where `HtmlInline` is not `Text`.
    * sourcepos pass.  `SyntaxPosRule` pushes `data-sourcepos` onto EVERY node with a `srcmap`, html
      nodes included (`Pipeline.sourceposNode` does; the op `tree` of the stream shows the attribute on
      both sides); `HtmlBlock::render` / `HtmlInline::render` ignore `node.attrs`
      (`fmt.cr(); fmt.text_raw(content); fmt.cr()` / `fmt.text_raw(content)`), and so do the `htmlBlock` /
      `htmlInline` cases of `NodeRender.renderNode`.
    * projection.  `toRenderH hb hi` decodes a block-level html node iff `hb` (the html block rule is in
      the block chain), an inline-level one iff `hi` (the html inline rule is in the inline chain); a
      configuration without the rule cannot produce the node, and then the projection IS
      `Pipeline.toRender` (no decoding takes place: `toRenderH_ff`).  With the rule loaded the encoding
      is unambiguous (`Props/BlockH.fence_not_html`; escape / entity are the only other producers of
      `special`, with info `escape` / `entity`).

  Nothing here needs fuel of its own; panics are the panics of the parts (`Pipeline.Panic`).
  Validated against the real crate by the differential stream `pipelineh` (`Driver/PipelineH.lean`,
  `harness/src/corr/pipelineh.rs`).
-/
import MdIt.Model.Pipeline
import MdIt.Model.BlockH
import MdIt.Model.InlineH

namespace MdIt.PipelineH
open MdIt.Pipeline

/-- what the pipeline reads of a `MarkdownIt` built from the shipped plugins, the two html plugins
    included (`Pipeline.DocCfg` with the chains over the extended enumerations) -/
structure DocCfgH where
  /-- `md.max_nesting` -/
  maxNesting : Nat
  /-- the effective (compiled) block chain -/
  blockChain : List BlockH.RuleIdH
  /-- the effective (compiled) inline chain -/
  inlineChain : List InlineH.RuleIdH
  /-- `PairConfig<MARKER>::fns` -/
  fns : Char → Nat → Option Inline.Wrap
  /-- is `SyntaxPosRule` in the core chain -/
  sourcepos : Bool
  /-- `FenceSettings` -/
  langPrefix : List Char
  /-- `get_entity_from_str` (entity table) -/
  entity : List Char → Option (List Char)
  /-- `char::to_lowercase`, `char::to_uppercase` -/
  L : Nat → List Nat
  U : Nat → List Nat
  /-- `char::is_whitespace` -/
  isWhite : Char → Bool
  /-- `is_punct_char` -/
  isPunctChar : Char → Bool

/-- the html-free configuration underneath: both chains without their html member -/
def DocCfgH.base (c : DocCfgH) : DocCfg :=
  { maxNesting := c.maxNesting, blockChain := c.blockChain.filterMap BlockH.RuleIdH.base?,
    inlineChain := c.inlineChain.filterMap InlineH.RuleIdH.base?, fns := c.fns, sourcepos := c.sourcepos,
    langPrefix := c.langPrefix, entity := c.entity, L := c.L, U := c.U, isWhite := c.isWhite,
    isPunctChar := c.isPunctChar }

/-- an html-free configuration as a `DocCfgH` -/
def DocCfgH.ofCfg (c : DocCfg) : DocCfgH :=
  { maxNesting := c.maxNesting, blockChain := c.blockChain.map .base, inlineChain := c.inlineChain.map .base,
    fns := c.fns, sourcepos := c.sourcepos, langPrefix := c.langPrefix, entity := c.entity, L := c.L, U := c.U,
    isWhite := c.isWhite, isPunctChar := c.isPunctChar }

/-- the block parser's view of the configuration -/
def DocCfgH.blockCfg (cfg : DocCfgH) : BlockH.CfgH :=
  { maxNesting := cfg.maxNesting, chain := cfg.blockChain, lookup := cfg.entity, L := cfg.L, U := cfg.U }

/-- the inline parser's view of the configuration, for a document whose block pass produced the
    reference map `refs` (`Pipeline.DocCfg.inlineCfg`) -/
def DocCfgH.inlineCfg (cfg : DocCfgH) (refs : Refs.RefMap) : InlineH.CfgH :=
  { maxNesting := cfg.maxNesting, chain := cfg.inlineChain, fns := cfg.fns,
    refs := if refs.isEmpty then none else some refs,
    normRef := Refs.normalize cfg.L cfg.U, entity := cfg.entity,
    isWhite := cfg.isWhite, isPunctChar := cfg.isPunctChar }

/-- is the html block rule loaded -/
def DocCfgH.htmlBlock (cfg : DocCfgH) : Bool := cfg.blockChain.contains .html

/-- is the html inline rule loaded -/
def DocCfgH.htmlInline (cfg : DocCfgH) : Bool := cfg.inlineChain.contains .html

def isEmphH : InlineH.RuleIdH → Bool
  | .base r => r.isEmph
  | .html => false

/-- is `FragmentsJoin` in the core chain (`Pipeline.DocCfg.hasJoin`; the html rule is not emphasis-like) -/
def DocCfgH.hasJoin (cfg : DocCfgH) : Bool := cfg.inlineChain.any isEmphH

/-! ## `InlineParserRule`: the splice walk, over an arbitrary placeholder parser

    `spliceNodeG parse` is `Pipeline.spliceNode` with the call `Inline.parseInline icfg content mapping`
    replaced by `parse content mapping` (`Props/PipelineH.spliceNodeG_parseInline`: instantiated with
    `Inline.parseInline icfg` it IS `Pipeline.spliceNode icfg`). -/

mutual
def spliceNodeG (parse : List Char → InlineOps.Srcmap → Except Inline.Panic (List Inline.Node)) :
    Block.BNode → Except Panic Node
  | ⟨k, r, cs⟩ =>
    match spliceListG parse cs with
    | .error e => .error e
    | .ok cs' => .ok ⟨.blk k, r, [], cs'⟩
termination_by structural b => b
def spliceListG (parse : List Char → InlineOps.Srcmap → Except Inline.Panic (List Inline.Node)) :
    List Block.BNode → Except Panic (List Node)
  | [] => .ok []
  | c :: rest =>
    match c.kind with
    | .inlineRoot content mapping =>
      match parse content mapping with
      | .error e => .error (.inline e)
      | .ok ns =>
        match spliceListG parse rest with
        | .error e => .error e
        | .ok rest' => .ok (ofInlineList ns ++ rest')
    | _ =>
      match spliceNodeG parse c with
      | .error e => .error e
      | .ok c' =>
        match spliceListG parse rest with
        | .error e => .error e
        | .ok rest' => .ok (c' :: rest')
termination_by structural l => l
end

/-! ## `MarkdownIt::parse` -/

/-- the core chain behind the block pass (`Pipeline.afterBlocks`; join and sourcepos passes unchanged) -/
def afterBlocksH (cfg : DocCfgH) (src : List Char) (root : Block.BNode) (refs : Refs.RefMap) :
    Except Panic Node :=
  match spliceNodeG (InlineH.parseInlineH (cfg.inlineCfg refs)) root with
  | .error e => .error e
  | .ok t =>
    let t := if cfg.hasJoin then joinNode t else t
    if cfg.sourcepos then sourceposNode src (SourceMap.mkMarks src) t else .ok t

/-- `md.parse(src)` for a parser that may hold the html plugins -/
def parseDocH (cfg : DocCfgH) (src : List Char) : Except Panic Node :=
  match BlockH.parseBlocksH cfg.blockCfg src with
  | .error e => .error (.block e)
  | .ok (root, refs) => afterBlocksH cfg src root refs

/-! ## projection to the renderer's view, `render` / `xrender` -/

/-- the fields `render` reads of a node value; `hb` / `hi`: decode the block / inline html node -/
def kindToRenderH (hb hi : Bool) (langPrefix : List Char) (k : Kind) : NodeRender.Kind :=
  match k with
  | .blk b =>
    match hb, BlockH.htmlContent? b with
    | true, some c => .htmlBlock c
    | _, _ => k.toRender langPrefix
  | .inl v =>
    match hi, InlineH.htmlContent? v with
    | true, some c => .htmlInline c
    | _, _ => k.toRender langPrefix

mutual
/-- the tree as `MdIt.NodeRender` sees it -/
def toRenderH (hb hi : Bool) (langPrefix : List Char) : Node → NodeRender.Node
  | ⟨k, _, a, cs⟩ => ⟨kindToRenderH hb hi langPrefix k, a, toRenderListH hb hi langPrefix cs⟩
termination_by structural n => n
def toRenderListH (hb hi : Bool) (langPrefix : List Char) : List Node → List NodeRender.Node
  | [] => []
  | c :: cs => toRenderH hb hi langPrefix c :: toRenderListH hb hi langPrefix cs
termination_by structural l => l
end

/-- the trait calls `node.render()` issues -/
def renderEventsH (cfg : DocCfgH) (t : Node) : Except Panic (List Render.Event) :=
  match NodeRender.render cfg.entity (toRenderH cfg.htmlBlock cfg.htmlInline cfg.langPrefix t) with
  | .error e => .error (.render e)
  | .ok evs => .ok evs

/-- `md.parse(src).render()` (`x = false`) / `.xrender()` (`x = true`) -/
def renderDocH (x : Bool) (cfg : DocCfgH) (src : List Char) : Except Panic (List Char) :=
  match parseDocH cfg src with
  | .error e => .error e
  | .ok t =>
    match renderEventsH cfg t with
    | .error e => .error e
    | .ok evs => .ok (Render.serialize x evs)

end MdIt.PipelineH
