/-
  Model of reference-label matching:
    * `src/common/utils.rs`                 `normalize_reference`
    * `src/plugins/cmark/block/reference.rs` `ReferenceMapKey`, the tail of `ReferenceScanner::run`
    * `src/generics/inline/full_link.rs`     the "Link reference" tail of `parse_link`

  Labels are lists of code points (`List Nat`).  The two case-mapping tables of the Rust std
  (`char::to_lowercase`, `char::to_uppercase`) are PARAMETERS `L U : Nat → List Nat` of the model, so
  the theorems of `Props/C13.lean` hold for every pair of tables that satisfies the stated closure
  conditions; the driver and the `table_*` theorems instantiate them with `tableMap` over the tables
  generated from the std actually linked (`MdIt.Gen.Unicode.lowerTable` / `upperTable`).

  Final sigma.  `str::to_lowercase` is per-character EXCEPT for U+03A3 (capital sigma), which becomes
  U+03C2 (final sigma) at the end of a word and U+03C3 otherwise (`map_uppercase_sigma`).  The model
  lower-cases per character (the table row is Σ ↦ σ).  This is sound for `normalize_reference`
  because the lower-cased string is immediately upper-cased and `to_uppercase` IS per-character with
  `U ς = U σ = [Σ]`: `Props/C13.lean` proves `sigma_irrelevant` (any choice of σ/ς for any occurrence
  gives the same upper-cased result) and `table_sigma` (the generated table has that row equality).
  The `refs` stream exercises Σ at the start / middle / end of words, after punctuation and alone.
-/
namespace MdIt.Refs

/-- `char::is_whitespace` = Unicode `White_Space`; regex `\s` (Unicode mode) and `str::trim` use the
same set.  `Props/C13.lean` (`isWs_table`) proves it equal to the generated `Gen.Unicode.whiteSpace`. -/
def isWs (c : Nat) : Bool :=
  (9 ≤ c && c ≤ 13) || c == 32 || c == 133 || c == 160 || c == 5760 ||
  (8192 ≤ c && c ≤ 8202) || c == 8232 || c == 8233 || c == 8239 || c == 8287 || c == 12288

/-- `str::trim_start` -/
def trimStart (s : List Nat) : List Nat := s.dropWhile isWs

/-- `str::trim_end`: drop the maximal white-space suffix -/
def trimEnd (s : List Nat) : List Nat := (s.reverse.dropWhile isWs).reverse

/-- `str::trim` -/
def trimWs (s : List Nat) : List Nat := trimEnd (trimStart s)

/-- does the string begin with a white-space character -/
def startsWs : List Nat → Bool
  | [] => false
  | c :: _ => isWs c

/-- `SPACE_RE.replace_all(_, " ")` with `SPACE_RE = \s+`: every MAXIMAL run of white space becomes one
U+0020.  Written structurally: a white-space character followed by another one emits nothing, the
last one of a run emits the space.  (`collapseWs_ws` / `collapseWs_nonws` in `Props/C13.lean` are the
two defining equations "skip the whole run, emit one space" / "copy".) -/
def collapseWs : List Nat → List Nat
  | [] => []
  | c :: r =>
    if isWs c then (if startsWs r then collapseWs r else 32 :: collapseWs r)
    else c :: collapseWs r

/-- per-character `to_lowercase` (see the header for Σ) -/
def lowerStr (L : Nat → List Nat) (s : List Nat) : List Nat := s.flatMap L

/-- `str::to_uppercase` (per character, no context rule) -/
def upperStr (U : Nat → List Nat) (s : List Nat) : List Nat := s.flatMap U

/-- `normalize_reference` -/
def normalize (L U : Nat → List Nat) (s : List Nat) : List Nat :=
  upperStr U (lowerStr L (collapseWs (trimWs s)))

/-- a case-mapping function from a table of the rows that differ from the identity -/
def tableMap (t : List (Nat × List Nat)) (c : Nat) : List Nat :=
  match t.lookup c with
  | some v => v
  | none => [c]

/-! ## the reference map -/

/-- `ReferenceMapEntry` -/
structure Entry where
  dest : List Nat
  title : Option (List Nat)
  deriving DecidableEq, Repr

/-- a definition as `ReferenceScanner` sees it: the raw label text between `[` and `]:`, and the entry -/
structure Def where
  label : List Nat
  entry : Entry
  deriving DecidableEq, Repr

/-- `HashMap<ReferenceMapKey, ReferenceMapEntry>`: `ReferenceMapKey` hashes and compares ONLY its
`normalized` field, so the map is an association list keyed by the normalised label. -/
abbrev RefMap := List (List Nat × Entry)

/-- `HashMap::get` by normalised key -/
def RefMap.get (m : RefMap) (k : List Nat) : Option Entry := List.lookup k m

/-- `references.entry(key).or_insert_with(|| entry)`: an existing entry is kept -/
def insertFirst (m : RefMap) (k : List Nat) (e : Entry) : RefMap :=
  match m.get k with
  | some _ => m
  | none => m ++ [(k, e)]

/-- The tail of `ReferenceScanner::run`:
```
let label = normalize_reference(&str[1..label_end]);
if label.is_empty() { return false; }
references.entry(ReferenceMapKey::new(label)).or_insert_with(|| ReferenceMapEntry::new(href, title));
```
NOTE `ReferenceMapKey::new` normalises AGAIN, so the stored key is `N (N label)`. -/
def addDef (N : List Nat → List Nat) (m : RefMap) (d : Def) : RefMap :=
  let label := N d.label
  if label.isEmpty then m else insertFirst m (N label) d.entry

/-- all definitions of a document, in document order -/
def buildMap (N : List Nat → List Nat) (defs : List Def) : RefMap := defs.foldl (addDef N) []

/-- `references.get(&ReferenceMapKey::new(label.to_owned()))` -/
def lookup (N : List Nat → List Nat) (m : RefMap) (label : List Nat) : Option Entry := m.get (N label)

/-- label selection at the end of `parse_link`: `text` is the source between the first pair of
brackets, `explicit` the source between the second pair if there is one (`[text][explicit]`);
`matches!(maybe_label, None | Some(""))` selects the text. -/
def selectLabel (text : List Nat) (explicit : Option (List Nat)) : List Nat :=
  match explicit with
  | none => text
  | some [] => text
  | some l => l

/-- the reference tail of `parse_link`: label selection + lookup -/
def resolve (N : List Nat → List Nat) (m : RefMap) (text : List Nat) (explicit : Option (List Nat)) :
    Option Entry :=
  lookup N m (selectLabel text explicit)

end MdIt.Refs
