/-
  Model of the tree API of `src/parser/node.rs`: `Node`, `Node::new`, `Node::replace`, `Node::is`,
  `Node::cast`, `Node::walk`, `Node::walk_mut`.

  `kind` is `node_type` (a `TypeKey`, i.e. a type id), `payload` the boxed `node_value`.
  `srcmap` is `Option<SourcePos>` (byte range), `attrs` the attribute vector (name, value — both as
  numbers here; nothing in this file looks inside them).  `env` (an `ErasedSet`) is not carried: no
  function modelled here reads or writes it.

  Depths are `u32` in Rust and `depth + 1` is computed once per nesting level, so the counter
  overflows only on a tree nested 2^32 deep; the recursion (`walk_recursive` is not a loop) exhausts
  the stack long before that.  Depth is a `Nat` here; `Props/C20.walk_depth_lt_height` shows every
  reported depth is below the height of the tree, so no overflow happens for height ≤ 2^32.
-/
namespace MdIt.Tree

structure Node where
  kind : Nat
  payload : Nat
  srcmap : Option (Nat × Nat)
  attrs : List (Nat × Nat)
  children : List Node
  deriving Repr, Inhabited

/-- `Node::new(value)` -/
def Node.new (kind payload : Nat) : Node :=
  { kind := kind, payload := payload, srcmap := none, attrs := [], children := [] }

/-- `Node::replace(value)`: `node_type` and `node_value` are overwritten together, nothing else -/
def replace (n : Node) (kind payload : Nat) : Node :=
  { n with kind := kind, payload := payload }

/-- `Node::is::<T>()` -/
def Node.is (n : Node) (k : Nat) : Bool := n.kind == k

mutual
/-- `walk_recursive(node, depth, f)`: the sequence of calls `f(node, depth)` it makes -/
def walkAux : Node → Nat → List (Node × Nat)
  | ⟨k, p, s, a, cs⟩, d => (⟨k, p, s, a, cs⟩, d) :: walkList cs (d + 1)
/-- `for n in children.iter() { walk_recursive(n, depth, f) }` -/
def walkList : List Node → Nat → List (Node × Nat)
  | [], _ => []
  | c :: cs, d => walkAux c d ++ walkList cs d
end

/-- `Node::walk(f)`: the callback sequence -/
def walk (n : Node) : List (Node × Nat) := walkAux n 0

/-- `Option`-valued map over a list, left to right, stopping at the first failure -/
def mapOpt (g : Node → Option Node) : List Node → Option (List Node)
  | [] => some []
  | c :: cs =>
    match g c with
    | none => none
    | some c' =>
      match mapOpt g cs with
      | none => none
      | some cs' => some (c' :: cs')

/-- `walk_recursive(node, depth, f)` of `walk_mut`: `f(node, depth)` first, then the recursion over the
    children *that `f` left in the node* — so the recursion is not structural, and for a callback that
    keeps growing the tree downwards the Rust never returns (it dies of stack exhaustion; a callback
    can only make a node wider before its children are iterated, never during, so unbounded depth is
    the only way not to terminate).  `fuel` is the number of stack frames available, `none` = stack
    exhausted.  `Props/C20` shows: enough fuel always gives the same answer, and `height t` frames are
    enough for every callback that does not increase heights. -/
def walkMutFuel (f : Node → Nat → Node) : Nat → Node → Nat → Option Node
  | 0, _, _ => none
  | fuel + 1, n, d =>
    let n' := f n d
    match mapOpt (fun c => walkMutFuel f fuel c (d + 1)) n'.children with
    | none => none
    | some cs => some { n' with children := cs }

mutual
/-- number of nodes -/
def size : Node → Nat
  | ⟨_, _, _, _, cs⟩ => 1 + sizeList cs
def sizeList : List Node → Nat
  | [] => 0
  | c :: cs => size c + sizeList cs
end

mutual
/-- number of levels (a leaf has height 1) = stack frames `walk` / `walk_mut` need -/
def height : Node → Nat
  | ⟨_, _, _, _, cs⟩ => 1 + heightList cs
def heightList : List Node → Nat
  | [] => 0
  | c :: cs => max (height c) (heightList cs)
end

/-- `Node::walk_mut(f)` with a stack as deep as the input tree is high -/
def walkMut (f : Node → Nat → Node) (n : Node) : Option Node := walkMutFuel f (height n) n 0

/-
  `walk_mut` takes an `FnMut`: the callback may carry state from one call to the next, which makes
  the ORDER of the calls observable.  Same function with the callback's state `σ` threaded through
  (`walkMutFuel` is the special case of a callback that ignores it, `Props/C20.walkMutFuelS_pure`).
-/
def mapOptS {σ : Type} (g : σ → Node → Option (σ × Node)) : σ → List Node → Option (σ × List Node)
  | s, [] => some (s, [])
  | s, c :: cs =>
    match g s c with
    | none => none
    | some (s1, c') =>
      match mapOptS g s1 cs with
      | none => none
      | some (s2, cs') => some (s2, c' :: cs')

def walkMutFuelS {σ : Type} (f : σ → Node → Nat → σ × Node) :
    Nat → σ → Node → Nat → Option (σ × Node)
  | 0, _, _, _ => none
  | fuel + 1, s, n, d =>
    let r := f s n d
    match mapOptS (fun s c => walkMutFuelS f fuel s c (d + 1)) r.1 r.2.children with
    | none => none
    | some (s2, cs) => some (s2, { r.2 with children := cs })

/-- the mutating callback the differential stream `tree.walkmut` uses on both sides:
    kind ≡ 0 (mod 3): drop the first child; kind ≡ 1: kind += 100 + depth; else: leave alone -/
def demoF (n : Node) (d : Nat) : Node :=
  if n.kind % 3 == 0 then { n with children := n.children.drop 1 }
  else if n.kind % 3 == 1 then { n with kind := n.kind + 100 + d }
  else n

/-
  `node_type` / `node_value` pair (`#[readonly]`: written only by `Node::new` and `Node::replace`).
  `Slot.value.1` is the dynamic type of the box, `Slot.value.2` the value; `cast` is the
  `if node_type.id == TypeId::of::<T>() { Some(node_value.downcast_ref::<T>().unwrap()) } else { None }`
  of `Node::cast` / `Node::cast_mut`, the `unwrap` being a partial operation.
-/
structure Slot where
  nodeType : Nat
  value : Nat × Nat

def Slot.new (k p : Nat) : Slot := { nodeType := k, value := (k, p) }
def Slot.replace (_ : Slot) (k p : Nat) : Slot := { nodeType := k, value := (k, p) }

/-- `none` = the `unwrap` panics -/
def Slot.cast (s : Slot) (k : Nat) : Option (Option Nat) :=
  if s.nodeType = k then
    (if s.value.1 = k then some (some s.value.2) else none)
  else some none

end MdIt.Tree
