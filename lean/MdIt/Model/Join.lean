/-
  Model of `src/generics/inline/emph_pair.rs`: `fragments_join`, `FragmentsJoin::run`
  (= `node.walk_mut(|node, _| fragments_join(node))`), and the source-range arithmetic of one match
  step of `scan_and_match_delimiters`.

  `fragments_join(node)` works on `node.children` in three passes:
    1. every `EmphMarker` becomes `Text { content: marker.to_string().repeat(remaining) }`
       (`Node::replace`: only the value changes — srcmap, children stay);
    2. `for idx in 1..len`: if `children[idx-1]` and `children[idx]` are both `Text`, the content of the
       right one is moved (`mem::take`) to the end of the left one, the left one's srcmap becomes
       `(map1.start, map2.end)` when both have one, and the two are SWAPPED — so the merged node sits at
       `idx` (and takes part in the next iteration) while an emptied text node is left behind at `idx-1`;
    3. `retain`: text nodes with empty content are removed.
-/
import MdIt.Model.InlineOps

namespace MdIt.Join
open MdIt.InlineOps

/-- `marker.to_string().repeat(remaining)` -/
def markerText (ch : Char) (remaining : Nat) : List Char := List.replicate remaining ch

/-- pass 1 on one token -/
def markerToText (n : INode) : INode :=
  match n.kind with
  | .marker ch => { n with kind := .text, content := markerText ch n.remaining }
  | _ => n

/-- pass 1 -/
def pass1 (cs : List INode) : List INode := cs.map markerToText

/-- what is left at `idx - 1` after the swap: `token2` with its content taken -/
def emptied (t2 : INode) : INode := { t2 with content := [] }

/-- what sits at `idx` after the swap: `token1` with the content appended and the srcmap adjusted -/
def merged (t1 t2 : INode) : INode :=
  { t1 with
    content := t1.content ++ t2.content
    range :=
      match t1.range, t2.range with
      | some (a, _), some (_, d) => some (a, d)
      | r, _ => r }

/-- Pass 2 as written: the index loop.  `i` is `idx - 1`, so `for idx in 1..len` is
    `i` from `0` while `i + 1 < len`; both reads are in range (`split_at_mut(idx)` with `idx < len`,
    `tokens1.last_mut().unwrap()` with `idx ≥ 1`, `tokens2.first_mut().unwrap()`), so nothing can
    panic.  The vector length never changes. -/
def mergeIdx (l : List INode) (i : Nat) : List INode :=
  if h : i + 1 < l.length then
    let t1 := l[i]
    let t2 := l[i + 1]
    if t1.isText && t2.isText then
      mergeIdx ((l.set i (emptied t2)).set (i + 1) (merged t1 t2)) (i + 1)
    else
      mergeIdx l (i + 1)
  else l
termination_by l.length - i
decreasing_by
  · simp only [List.length_set]; omega
  · omega

/-- Pass 2 as a structural recursion: `cur` is the token at `idx - 1`, the list what follows it.
    (`Props/C14.mergeIdx_eq`: the index loop computes this.) -/
def mergeLoop (cur : INode) : List INode → List INode
  | [] => [cur]
  | nxt :: rest =>
    if cur.isText && nxt.isText then emptied nxt :: mergeLoop (merged cur nxt) rest
    else cur :: mergeLoop nxt rest

def mergeAll : List INode → List INode
  | [] => []
  | c :: rest => mergeLoop c rest

/-- the `retain` predicate -/
def keep (n : INode) : Bool := !(n.isText && n.content.isEmpty)

/-- `fragments_join` on the child vector (index-loop version) -/
def fragmentsJoin (cs : List INode) : List INode :=
  (mergeIdx (pass1 cs) 0).filter keep

/-- the same with the structural pass 2 (`Props/C14.fragmentsJoin_eq`) -/
def fragmentsJoinL (cs : List INode) : List INode :=
  (mergeAll (pass1 cs)).filter keep

/-! ## `FragmentsJoin::run` = `walk_mut(fragments_join)`: the callback first, then the children it left

  The recursion runs over the children the callback LEFT in the node, so it is not structural; the
  measure is the number of nodes, which `fragments_join` never increases (lemmas below — they are
  here only because the definition of `joinNode` needs them to be accepted). -/

mutual
def size : INode → Nat
  | ⟨_, _, _, cs, _⟩ => 1 + sizeList cs
def sizeList : List INode → Nat
  | [] => 0
  | c :: cs => size c + sizeList cs
end

theorem size_eq (n : INode) : size n = 1 + sizeList n.children := by
  cases n; simp [size]

/-- the index loop computes the structural recursion -/
theorem mergeIdx_eq (pre : List INode) (cur : INode) (rest : List INode) :
    mergeIdx (pre ++ cur :: rest) pre.length = pre ++ mergeLoop cur rest := by
  induction rest generalizing pre cur with
  | nil =>
    rw [mergeIdx]; simp [mergeLoop]
  | cons nxt rest ih =>
    rw [mergeIdx]
    have h : pre.length + 1 < (pre ++ cur :: nxt :: rest).length := by simp
    simp only [h, dite_true]
    have e1 : (pre ++ cur :: nxt :: rest)[pre.length] = cur := by simp
    have e2 : (pre ++ cur :: nxt :: rest)[pre.length + 1] = nxt := by
      rw [List.getElem_append_right (by omega)]; simp
    rw [e1, e2]
    simp only [mergeLoop]
    split
    · have : ((pre ++ cur :: nxt :: rest).set pre.length (emptied nxt)).set (pre.length + 1)
          (merged cur nxt) = (pre ++ [emptied nxt]) ++ merged cur nxt :: rest := by
        simp
      rw [this]
      have := ih (pre ++ [emptied nxt]) (merged cur nxt)
      simp only [List.length_append, List.length_singleton] at this
      rw [this]; simp
    · have := ih (pre ++ [cur]) nxt
      simp only [List.length_append, List.length_singleton, List.append_assoc,
        List.singleton_append] at this
      rw [this]

theorem mergeIdx_zero (l : List INode) : mergeIdx l 0 = mergeAll l := by
  cases l with
  | nil => rw [mergeIdx]; simp [mergeAll]
  | cons c rest => simpa [mergeAll] using mergeIdx_eq [] c rest

theorem fragmentsJoin_eq (cs : List INode) : fragmentsJoin cs = fragmentsJoinL cs := by
  simp [fragmentsJoin, fragmentsJoinL, mergeIdx_zero]

theorem sizeList_pass1 (cs : List INode) : sizeList (pass1 cs) = sizeList cs := by
  induction cs with
  | nil => simp [pass1, sizeList]
  | cons c cs ih =>
    have : size (markerToText c) = size c := by
      rw [size_eq, size_eq]; unfold markerToText; split <;> rfl
    simp only [pass1, List.map_cons, sizeList] at ih ⊢
    rw [this, ih]

theorem sizeList_mergeLoop (cur : INode) (rest : List INode) :
    sizeList (mergeLoop cur rest) = size cur + sizeList rest := by
  induction rest generalizing cur with
  | nil => simp [mergeLoop, sizeList]
  | cons nxt rest ih =>
    have e1 : size (emptied nxt) = size nxt := by rw [size_eq, size_eq]; rfl
    have e2 : size (merged cur nxt) = size cur := by rw [size_eq, size_eq]; rfl
    simp only [mergeLoop]
    split
    · simp only [sizeList, ih, e1, e2]; omega
    · simp only [sizeList, ih]

theorem sizeList_filter_le (p : INode → Bool) (l : List INode) :
    sizeList (l.filter p) ≤ sizeList l := by
  induction l with
  | nil => simp [sizeList]
  | cons c l ih =>
    simp only [List.filter_cons]
    split <;> simp only [sizeList] <;> omega

theorem sizeList_fragmentsJoin_le (cs : List INode) : sizeList (fragmentsJoin cs) ≤ sizeList cs := by
  rw [fragmentsJoin_eq, fragmentsJoinL]
  refine Nat.le_trans (sizeList_filter_le _ _) ?_
  rw [← sizeList_pass1 cs]
  cases pass1 cs with
  | nil => simp [mergeAll]
  | cons c r => simp [mergeAll, sizeList_mergeLoop, sizeList]

mutual
/-- `walk_recursive(node, depth, f)` of `walk_mut` with `f = fragments_join` -/
def joinNode (n : INode) : INode :=
  { n with children := joinList (fragmentsJoin n.children) }
termination_by 2 * size n
decreasing_by
  have := sizeList_fragmentsJoin_le n.children
  rw [size_eq]; omega
/-- `for n in node.children.iter_mut() { walk_recursive(n, …) }` -/
def joinList : List INode → List INode
  | [] => []
  | c :: cs => joinNode c :: joinList cs
termination_by l => 2 * sizeList l + 1
decreasing_by
  · simp only [sizeList]; omega
  · have := size_eq c
    simp only [sizeList]; omega
end

/-- `FragmentsJoin::run(node, md)` -/
def joinAll (root : INode) : INode := joinNode root

/-! ## range arithmetic of one match step in `scan_and_match_delimiters`

  Opener marker range `(os, oe)`, closer marker range `(cs, ce)` (both already SOURCE offsets),
  matched length `n = marker_len`:
    closer  ← `(cs + n, ce)`,  `end_map_pos   = cs + n`
    opener  ← `(os, oe - n)`,  `start_map_pos = oe - n`   (`end - marker_len`: underflow = panic)
    wrapper ← `SourcePos::new(start_map_pos, end_map_pos)` -/

inductive Panic where
  | underflow
  deriving Repr, DecidableEq

structure WrapRanges where
  opener : Nat × Nat
  wrapper : Nat × Nat
  closer : Nat × Nat
  deriving Repr, DecidableEq

def wrapRanges (os oe cs ce n : Nat) : Except Panic WrapRanges :=
  if oe < n then .error .underflow
  else .ok { opener := (os, oe - n), wrapper := (oe - n, cs + n), closer := (cs + n, ce) }

end MdIt.Join
