/-
  Model of `src/common/sourcemap.rs` (`SourceWithLineStarts::new`, `get_position`,
  `SourcePos::get_positions`) and, in a separate section, the SPECIFICATION of property C15
  (two counting functions over the text, written without reference to the code).

  Text is `List Char`; every offset is a BYTE offset into the UTF-8 encoding (`Char.utf8Size`).
  `u32`/`usize` are modelled by unbounded `Nat` (texts shorter than 4 GiB; the only arithmetic that
  could wrap is `byte_offset + 1` for `byte_offset = usize::MAX`, which no caller in the crate builds).
  Every Rust operation that can panic is a partial operation here:
    * `Err(x) => x - 1`        — unsigned underflow when `x = 0`        → `Panic.underflow`
    * `self.marks[found]`      — index out of range                     → `Panic.index`
    * `self.src[mark.offset..]`— start beyond the end / inside a char   → `Panic.slice`
-/
namespace MdIt.SourceMap

/-! ## Code model -/

/-- the literal `16` of `column % 16 == 0` (distance between two checkpoints inside a line) -/
def checkpointEvery : Nat := 16

/-- `CharMappingMark` -/
structure Mark where
  offset : Nat
  line : Nat
  column : Nat
  deriving Repr, DecidableEq

inductive Panic where
  | underflow   -- `x - 1` with `x = 0` on `usize`
  | index       -- `marks[found]` out of range
  | slice       -- `src[mark.offset..]` not on a char boundary / beyond the end
  deriving Repr, DecidableEq

/-- The `loop { match iterator.next() … }` of `new`.  `off` is the byte offset the `char_indices`
    iterator reports for the next character, `rest.head?` after taking `c` is `iterator.peek()`.
    `marks ++ [m]` is `marks.push(m)`. -/
def newLoop (off line column : Nat) (marks : List Mark) : List Char → List Mark
  | [] => marks                                             -- `None => break`
  | c :: rest =>
    if c = '\r' ∧ rest.head? = some '\n' then
      -- ignore \r followed by \n  (NB: no checkpoint test in this arm)
      newLoop (off + c.utf8Size) line (column + 1) marks rest
    else if c = '\r' ∨ c = '\n' then
      -- \r or \n are linebreaks
      newLoop (off + c.utf8Size) (line + 1) 0 (marks ++ [⟨off + 1, line + 1, 0⟩]) rest
    else
      -- any other character
      let marks' :=
        if column % checkpointEvery = 0 ∧ column > 0 then marks ++ [⟨off, line, column⟩] else marks
      newLoop (off + c.utf8Size) line (column + 1) marks' rest

/-- `SourceWithLineStarts::new(src).marks` -/
def mkMarks (src : List Char) : List Mark :=
  newLoop 0 1 0 [⟨0, 1, 0⟩] src

/-- Bisection over `keys[lo..hi)`; the bound `hi ≤ keys.length` makes every read in range
    (`get_unchecked` in the Rust standard library). -/
def bsearchGo (keys : List Nat) (probe lo hi : Nat) (hhi : hi ≤ keys.length) : Nat ⊕ Nat :=
  if h : lo < hi then
    let mid := lo + (hi - lo) / 2
    have hm : mid < keys.length := by omega
    let k := keys[mid]
    if k < probe then bsearchGo keys probe (mid + 1) hi hhi          -- `Less`    → go right
    else if probe < k then bsearchGo keys probe lo mid (by omega)    -- `Greater` → go left
    else .inl mid                                                    -- `Equal`   → `Ok(mid)`
  else .inr lo                                                       -- `Err(insertion point)`
termination_by hi - lo
decreasing_by all_goals omega

/-- `keys.binary_search_by(|k| k.cmp(&probe))`: `.inl i` is `Ok(i)`, `.inr i` is `Err(i)` -/
def bsearch (keys : List Nat) (probe : Nat) : Nat ⊕ Nat :=
  bsearchGo keys probe 0 keys.length (Nat.le_refl _)

/-- `&s[n..]` on a `str`: `none` (panic) unless `n` is a char boundary `≤ len` -/
def sliceFrom : List Char → Nat → Option (List Char)
  | [], n => if n = 0 then some [] else none
  | c :: r, n =>
    if n = 0 then some (c :: r) else if n < c.utf8Size then none else sliceFrom r (n - c.utf8Size)

/-- `for (offset, _) in tail.char_indices() { if base + offset >= bo { break; } column += 1; }` -/
def colLoop (base bo : Nat) : Nat → List Char → Nat → Nat
  | _, [], column => column
  | off, c :: r, column =>
    if base + off ≥ bo then column else colLoop base bo (off + c.utf8Size) r (column + 1)

/-- `match … { Ok(x) => x, Err(x) => x - 1 }` on `usize` -/
def foundOf : Nat ⊕ Nat → Except Panic Nat
  | .inl x => .ok x
  | .inr x => if x = 0 then .error .underflow else .ok (x - 1)

/-- `get_position` -/
def getPosition (src : List Char) (marks : List Mark) (byteOffset : Nat) :
    Except Panic (Nat × Nat) :=
  let bo := byteOffset + 1                       -- include current char
  match foundOf (bsearch (marks.map (·.offset)) bo) with
  | .error e => .error e
  | .ok found =>
    match marks[found]? with
    | none => .error .index
    | some mark =>
      match sliceFrom src mark.offset with
      | none => .error .slice
      | some tail => .ok (mark.line, colLoop mark.offset bo 0 tail mark.column)

/-- `SourcePos::new(start, end).get_positions(map)` -/
def getPositions (src : List Char) (marks : List Mark) (se : Nat × Nat) :
    Except Panic ((Nat × Nat) × (Nat × Nat)) :=
  match getPosition src marks se.1 with
  | .error e => .error e
  | .ok s =>
    let endOff := if se.2 > 0 then se.2 - 1 else se.2
    match getPosition src marks endOff with
    | .error e => .error e
    | .ok e => .ok (s, e)

/-! ## Specification of C15 (does not mention anything above)

  "line is 1 plus the number of line endings (LF, CR, or CRLF counted once) up to and including the
   offset, column is the number of characters after the last line ending up to and including the
   character at the offset; offsets past the end are clamped." -/

/-- length of the text in bytes -/
def byteLen : List Char → Nat
  | [] => 0
  | c :: r => c.utf8Size + byteLen r

/-- the character that STARTS at byte offset `j` (none inside a character or past the end) -/
def charAt : List Char → Nat → Option Char
  | [], _ => none
  | c :: r, j =>
    if j = 0 then some c else if j < c.utf8Size then none else charAt r (j - c.utf8Size)

/-- a character starts at byte offset `k` -/
def startsAt (src : List Char) (k : Nat) : Bool := (charAt src k).isSome

/-- a line ending sits at byte offset `j`: LF (alone or closing a CRLF), or CR not followed by LF.
    A CRLF pair is therefore counted once, at its LF. -/
def lineEnd (src : List Char) (j : Nat) : Bool :=
  charAt src j == some '\n' || (charAt src j == some '\r' && charAt src (j + 1) != some '\n')

/-- offsets past the end are clamped to the last byte -/
def clamp (src : List Char) (o : Nat) : Nat := min o (byteLen src - 1)

/-- `k` lies after every line ending at a position `≤ o`, i.e. after the last such line ending -/
def afterLastEnd (src : List Char) (o k : Nat) : Bool :=
  (List.range (o + 1)).all fun j => j < k || !lineEnd src j

/-- 1 + #{ j ≤ o' | line ending at j } -/
def specLine (src : List Char) (o : Nat) : Nat :=
  1 + (List.range (clamp src o + 1)).countP (lineEnd src)

/-- #{ k ≤ o' | a character starts at k, and k is after the last line ending ≤ o' } -/
def specCol (src : List Char) (o : Nat) : Nat :=
  (List.range (clamp src o + 1)).countP fun k => startsAt src k && afterLastEnd src (clamp src o) k

/-- range version of the specification (`get_positions`): the node occupies bytes `[start, end)`,
    the end position is that of its last byte (`end − 1`; `end = 0` is read as offset 0) -/
def specRange (src : List Char) (se : Nat × Nat) : (Nat × Nat) × (Nat × Nat) :=
  ((specLine src se.1, specCol src se.1),
   (specLine src (se.2 - 1), specCol src (se.2 - 1)))

end MdIt.SourceMap
