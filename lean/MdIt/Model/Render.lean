/-
  Model of `src/parser/renderer.rs` (`Renderer` trait as an event alphabet, `HTMLRenderer<XHTML>`
  as a buffer fold) and of `escape_html` in `src/common/utils.rs`.

  Strings are `List Char` (a Rust `String` is a sequence of Unicode scalar values; every operation
  of the serializer is `push` / `push_str`, i.e. append, so the char view is exact).
  The only byte-level operation in the Rust is `cr`, which inspects `as_bytes().last()`;
  `lastByte?` below is that operation on the UTF-8 encoding, and `Props/C19.lean`
  (`lastByte_lf_iff`) proves that it sees `0x0A` exactly when the last *char* is `'\n'`, which is what
  `serializeBuf` tests.

  No operation of the serializer can panic (no indexing, no unwrap), so everything is total.
-/
namespace MdIt.Render

/-- One call through the public `Renderer` trait (`contents` is not an event: it only recurses). -/
inductive Event where
  | «open» (tag : List Char) (attrs : List (List Char × List Char))
  | close (tag : List Char)
  | selfClose (tag : List Char) (attrs : List (List Char × List Char))
  | text (s : List Char)
  | raw (s : List Char)
  | cr
  deriving Repr, DecidableEq

/-- what `html_escape::encode_double_quoted_attribute` does to one char -/
def escapeChar (c : Char) : List Char :=
  if c = '&' then ['&', 'a', 'm', 'p', ';']
  else if c = '<' then ['&', 'l', 't', ';']
  else if c = '>' then ['&', 'g', 't', ';']
  else if c = '"' then ['&', 'q', 'u', 'o', 't', ';']
  else [c]

/-- `escape_html` = `html_escape::encode_double_quoted_attribute`: exactly `& < > "` are replaced. -/
def escapeHtml : List Char → List Char
  | [] => []
  | c :: r => escapeChar c ++ escapeHtml r

/-- `make_attr`: ` name="value"`, name AND value through `escape_html`. -/
def makeAttr (buf : List Char) (name value : List Char) : List Char :=
  ((((buf ++ [' ']) ++ escapeHtml name) ++ ['=']) ++ ['"']) ++ escapeHtml value ++ ['"']

/-- `make_attrs`: the `for` loop over the slice. -/
def makeAttrs (buf : List Char) (attrs : List (List Char × List Char)) : List Char :=
  attrs.foldl (fun b nv => makeAttr b nv.1 nv.2) buf

/-- The effect of one trait call on `self.result`. Tag names are pushed unescaped. -/
def serializeBuf (xhtml : Bool) (buf : List Char) : Event → List Char
  | .open tag attrs => makeAttrs ((buf ++ ['<']) ++ tag) attrs ++ ['>']
  | .close tag => (((buf ++ ['<']) ++ ['/']) ++ tag) ++ ['>']
  | .selfClose tag attrs =>
    let b := makeAttrs ((buf ++ ['<']) ++ tag) attrs
    let b := if xhtml then (b ++ [' ']) ++ ['/'] else b
    b ++ ['>']
  | .text s => buf ++ escapeHtml s
  | .raw s => buf ++ s
  | .cr =>
    -- `match self.result.as_bytes().last() { Some(b'\n') | None => {}  Some(_) => push('\n') }`
    match buf.getLast? with
    | none => buf
    | some c => if c = '\n' then buf else buf ++ ['\n']

/-- the buffer after all calls, before the `From<HTMLRenderer> for String` conversion -/
def serializeRaw (xhtml : Bool) (evs : List Event) : List Char :=
  evs.foldl (serializeBuf xhtml) []

/-- `From<HTMLRenderer<XHTML>> for String`:
    `if result.contains('\0') { result.replace('\0', "\u{FFFD}") } else { result }` -/
def replaceNul (s : List Char) : List Char :=
  if s.contains '\x00' then s.map (fun c => if c = '\x00' then '\uFFFD' else c) else s

/-- `⟦serialize⟧ xhtml`: the built-in serializer as a function of the event sequence. -/
def serialize (xhtml : Bool) (evs : List Event) : List Char :=
  replaceNul (serializeRaw xhtml evs)

/-! ### Reference decomposition: one piece per event -/

/-- ` name="value"` -/
def attrStr (nv : List Char × List Char) : List Char :=
  ' ' :: (escapeHtml nv.1 ++ ('=' :: '"' :: (escapeHtml nv.2 ++ ['"'])))

def attrsStr : List (List Char × List Char) → List Char
  | [] => []
  | nv :: r => attrStr nv ++ attrsStr r

/-- The piece an event contributes. `sol` ("start of line") is the buffer summary: `true` iff
    everything emitted so far is empty or ends in `'\n'`. Only `cr` looks at it. -/
def piece (xhtml : Bool) (sol : Bool) : Event → List Char
  | .open tag attrs => '<' :: (tag ++ (attrsStr attrs ++ ['>']))
  | .close tag => '<' :: '/' :: (tag ++ ['>'])
  | .selfClose tag attrs =>
    '<' :: (tag ++ (attrsStr attrs ++ ((if xhtml then [' ', '/'] else []) ++ ['>'])))
  | .text s => escapeHtml s
  | .raw s => s
  | .cr => if sol then [] else ['\n']

/-- the buffer summary: empty, or last char is `'\n'` -/
def atSol (buf : List Char) : Bool :=
  match buf.getLast? with
  | none => true
  | some c => c = '\n'

/-- summary after appending a piece (needs only the old summary and the piece) -/
def solAfter (sol : Bool) (p : List Char) : Bool :=
  match p.getLast? with
  | none => sol
  | some c => c = '\n'

def piecesFrom (xhtml : Bool) : Bool → List Event → List (List Char)
  | _, [] => []
  | sol, e :: r => piece xhtml sol e :: piecesFrom xhtml (solAfter sol (piece xhtml sol e)) r

/-- exactly one piece per event, in order -/
def pieces (xhtml : Bool) (evs : List Event) : List (List Char) := piecesFrom xhtml true evs

def flatten : List (List Char) → List Char
  | [] => []
  | p :: r => p ++ flatten r

/-! ### UTF-8 view used only to justify the char-level `cr` test -/

/-- UTF-8 encoding of one scalar value (as `char::encode_utf8`) -/
def utf8Bytes (c : Char) : List Nat :=
  let v := c.toNat
  if v < 0x80 then [v]
  else if v < 0x800 then [0xC0 + v / 64, 0x80 + v % 64]
  else if v < 0x10000 then [0xE0 + v / 4096, 0x80 + (v / 64) % 64, 0x80 + v % 64]
  else [0xF0 + v / 262144, 0x80 + (v / 4096) % 64, 0x80 + (v / 64) % 64, 0x80 + v % 64]

def utf8 : List Char → List Nat
  | [] => []
  | c :: r => utf8Bytes c ++ utf8 r

/-- `self.result.as_bytes().last()` -/
def lastByte? (buf : List Char) : Option Nat := (utf8 buf).getLast?

end MdIt.Render
