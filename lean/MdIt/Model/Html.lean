/-
  Model of the two raw-HTML rules:

    * `src/plugins/html/html_block.rs`   `HtmlBlockScanner::run` (`HTML_SEQUENCES`, the roll-down loop)
    * `src/plugins/html/html_inline.rs`  `HtmlInlineScanner::run`
    * `src/plugins/html/utils/regexps.rs`, `utils/blocks.rs`  the pattern strings

  Regular expressions.  Every pattern is replaced by a hand-written total matcher for the EXACT
  pattern string (the stream `html` compares them with the real `regex` crate through the real
  rules).  Semantics respected (regex 1.x, Unicode mode on):

    * leftmost-first alternation, greedy / lazy quantifiers = the first match in backtracking
      priority order.  Where backtracking can change the outcome (the unquoted attribute value
      `[^"'=<>`\x00-\x20]+` contains the Unicode white space `\s` also matches, and so does the
      `\s*` in front of it) the matcher enumerates the alternatives in priority order
      (`splits`, `valueEnds`); everywhere else the comment at the definition says why the greedy
      choice is the only one that can succeed.
    * `\s` = Unicode `White_Space` (`isWs`); `[^…]` classes also match line feeds.
    * `(?i)` = Unicode simple case folding: besides the ASCII partner, `s` matches U+017F (long s) and
      `k` matches U+212A (Kelvin sign) (`ciEq`).
    * `$` without `(?m)` = end of the haystack only.
    * `is_match` of an unanchored pattern searches anywhere (`findSub`, `anySuffix`).

  Nodes.  `Block.Kind` / `Inline.Val` (frozen models of the html-free configurations) have no
  constructor for `HtmlBlock` / `HtmlInline`, therefore the rules RETURN the data of the node they
  push (`BlockNode`, `InlineNode`: content + range) as a third component instead of appending it to
  `children`; all other state updates (`state.line`, `state.link_level`) are made on the state.

  Integer widths.  `usize` = `Nat` (as everywhere); `state.link_level : i32` is an `Int` in
  `Inline.IState`, and the two updates `+= 1` / `-= 1` are CHECKED here (`IPanic.overflow`: the
  harness builds with `overflow-checks = true`).
-/
import MdIt.Model.Block
import MdIt.Model.Inline

namespace MdIt.Html
open MdIt.InlineOps (byteLen)

/-! ## character classes -/

/-- `\s` (Unicode `White_Space`) -/
def isWs (c : Char) : Bool :=
  let n := c.toNat
  (9 ≤ n && n ≤ 13) || n == 0x20 || n == 0x85 || n == 0xA0 || n == 0x1680 ||
  (0x2000 ≤ n && n ≤ 0x200A) || n == 0x2028 || n == 0x2029 || n == 0x202F || n == 0x205F ||
  n == 0x3000

/-- `[A-Z]` -/
def isUpper (c : Char) : Bool := 65 ≤ c.toNat && c.toNat ≤ 90
/-- `[a-z]` -/
def isLower (c : Char) : Bool := 97 ≤ c.toNat && c.toNat ≤ 122
/-- `[A-Za-z]` -/
def isAlpha (c : Char) : Bool := isUpper c || isLower c
/-- `[0-9]` -/
def isDigit (c : Char) : Bool := 48 ≤ c.toNat && c.toNat ≤ 57
/-- `[A-Za-z0-9\-]` (tag name, after the first letter) -/
def isTagChar (c : Char) : Bool := isAlpha c || isDigit c || c == '-'
/-- `[a-zA-Z_:]` (first character of an attribute name) -/
def isAttrStart (c : Char) : Bool := isAlpha c || c == '_' || c == ':'
/-- `[a-zA-Z0-9:._-]` -/
def isAttrChar (c : Char) : Bool := isAlpha c || isDigit c || c == ':' || c == '.' || c == '_' || c == '-'
/-- ``[^"'=<>`\x00-\x20]`` -/
def isUnq (c : Char) : Bool :=
  !(c == '"' || c == '\'' || c == '=' || c == '<' || c == '>' || c == '`' || c.toNat ≤ 0x20)

/-- `(?i)p` for a pattern character `p` in `[a-z0-9]`: `p`, its ASCII capital, and the two
    characters whose simple case folding is an ASCII letter (U+017F ↦ `s`, U+212A ↦ `k`) -/
def ciEq (p c : Char) : Bool :=
  c == p || (isLower p && c.toNat + 32 == p.toNat) ||
  (p == 's' && c.toNat == 0x17F) || (p == 'k' && c.toNat == 0x212A)

/-! ## generic pieces -/

/-- `s` behind the literal prefix `pat` -/
def stripPrefix : List Char → List Char → Option (List Char)
  | [], s => some s
  | _ :: _, [] => none
  | p :: ps, c :: r => if c = p then stripPrefix ps r else none

/-- `(?i)` literal prefix (pattern in lower case) -/
def ciStrip : List Char → List Char → Option (List Char)
  | [], s => some s
  | _ :: _, [] => none
  | p :: ps, c :: r => if ciEq p c then ciStrip ps r else none

/-- unanchored search of the literal `pat`: what follows its FIRST occurrence -/
def findSub (pat : List Char) : List Char → Option (List Char)
  | [] => stripPrefix pat []
  | c :: r =>
    match stripPrefix pat (c :: r) with
    | some rest => some rest
    | none => findSub pat r

/-- `p` holds of some suffix (unanchored `is_match`) -/
def anySuffix (p : List Char → Bool) : List Char → Bool
  | [] => p []
  | c :: r => p (c :: r) || anySuffix p r

/-- the ends of a greedy `[class]*` in backtracking order: longest run first, the empty run last -/
def splits (p : Char → Bool) : List Char → List (List Char)
  | [] => [[]]
  | c :: r => if p c then splits p r ++ [c :: r] else [c :: r]

/-! ## `regexps.rs` -/

/-- `'[^']*'` / `"[^"]*"` behind the opening quote `q`: greedy run, then the quote.  (Giving back
    part of the run leaves a non-quote character where the quote is required.) -/
def quotedEnd (q : Char) (r : List Char) : List (List Char) :=
  match r.dropWhile (· != q) with
  | _ :: r' => [r']
  | [] => []

/-- `(?:unquoted|single_quoted|double_quoted)` at this position: all ends, in priority order.
    (The three alternatives exclude each other by their first character.) -/
def valueAt : List Char → List (List Char)
  | [] => []
  | c :: r =>
    if isUnq c then splits isUnq r
    else if c = '\'' then quotedEnd '\'' r
    else if c = '"' then quotedEnd '"' r
    else []

/-- `(?:\s*=\s*attr_value)` behind an attribute name: all ends, in priority order.  The first `\s*`
    is followed by `=` (no white space), so it takes the whole run; the second `\s*` may give back
    Unicode white space to the unquoted value. -/
def valueEnds (s : List Char) : List (List Char) :=
  match s.dropWhile isWs with
  | c :: r => if c = '=' then (splits isWs r).flatMap valueAt else []
  | [] => []

/-- `\s+attr_name`: the end.  `\s+` must take the whole run (no attribute name starts with white
    space) and so must the name (what follows a name is white space, `=`, `/` or `>`). -/
def attrHead : List Char → Option (List Char)
  | [] => none
  | w :: r =>
    if isWs w then
      match r.dropWhile isWs with
      | c :: r' => if isAttrStart c then some (r'.dropWhile isAttrChar) else none
      | [] => none
    else none

/-- `\s*/?>` followed by the continuation `k` -/
def closeK (k : List Char → Bool) (s : List Char) : Option (List Char) :=
  match s.dropWhile isWs with
  | '>' :: r => if k r then some r else none
  | '/' :: '>' :: r => if k r then some r else none
  | _ => none

theorem length_dropWhile_le (p : Char → Bool) (l : List Char) : (l.dropWhile p).length ≤ l.length := by
  induction l with
  | nil => simp
  | cons c r ih => simp only [List.dropWhile_cons]; split <;> simp <;> omega

theorem attrHead_lt {s r : List Char} (h : attrHead s = some r) : r.length < s.length := by
  cases s with
  | nil => simp [attrHead] at h
  | cons w t =>
    simp only [attrHead] at h
    split at h
    · split at h
      · rename_i c r' hd
        split at h
        · injection h with h
          subst h
          have h1 := length_dropWhile_le isAttrChar r'
          have h2 := length_dropWhile_le isWs t
          rw [hd] at h2
          simp at h2 ⊢
          omega
        · cases h
      · cases h
    · cases h

theorem mem_splits_le {p : Char → Bool} {s r : List Char} (h : r ∈ splits p s) : r.length ≤ s.length := by
  induction s with
  | nil => simp [splits] at h; subst h; simp
  | cons c t ih =>
    simp only [splits] at h
    split at h
    · simp only [List.mem_append, List.mem_singleton] at h
      rcases h with h | h
      · have := ih h; simp; omega
      · subst h; simp
    · simp at h; subst h; simp

theorem mem_valueAt_lt {s r : List Char} (h : r ∈ valueAt s) : r.length < s.length := by
  cases s with
  | nil => simp [valueAt] at h
  | cons c t =>
    simp only [valueAt] at h
    split at h
    · have := mem_splits_le h; simp; omega
    · have aux : ∀ q, r ∈ quotedEnd q t → r.length < (c :: t).length := by
        intro q hq
        unfold quotedEnd at hq
        split at hq
        · rename_i x r' hd
          simp at hq; subst hq
          have := length_dropWhile_le (· != q) t
          rw [hd] at this; simp at this ⊢; omega
        · simp at hq
      split at h
      · exact aux _ h
      · split at h
        · exact aux _ h
        · simp at h

theorem mem_valueEnds_lt {s r : List Char} (h : r ∈ valueEnds s) : r.length < s.length := by
  unfold valueEnds at h
  split at h
  · rename_i c t hd
    split at h
    · simp only [List.mem_flatMap] at h
      obtain ⟨m, hm, hr⟩ := h
      have h1 := mem_splits_le hm
      have h2 := mem_valueAt_lt hr
      have h3 := length_dropWhile_le isWs s
      rw [hd] at h3; simp at h3; omega
    · simp at h
  · simp at h

set_option linter.unusedVariables false in
/-- `attribute*\s*/?>` followed by the continuation `k` (`k` = what the rest of the pattern accepts):
    the end of the FIRST match in priority order.  Greedy star: one more attribute first — with its
    optional value (all ends, in order), then without — and only then the closing `\s*/?>`. -/
def attrsK (k : List Char → Bool) (s : List Char) : Option (List Char) :=
  let viaAttr : Option (List Char) :=
    match h : attrHead s with
    | none => none
    | some s2 =>
      match (valueEnds s2).attach.findSome? (fun ⟨r, _⟩ => attrsK k r) with
      | some r => some r
      | none => attrsK k s2
  match viaAttr with
  | some r => some r
  | none => closeK k s
termination_by s.length
decreasing_by
  · have := attrHead_lt h
    have := mem_valueEnds_lt (by assumption : r ∈ valueEnds s2)
    omega
  · exact attrHead_lt h

/-- `open_tag` = `<[A-Za-z][A-Za-z0-9\-]*attribute*\s*/?>` followed by `k`.  (The tag name takes its
    whole run: what follows it is white space, `/` or `>`.) -/
def openTagK (k : List Char → Bool) : List Char → Option (List Char)
  | '<' :: c :: r => if isAlpha c then attrsK k (r.dropWhile isTagChar) else none
  | _ => none

/-- `close_tag` = `</[A-Za-z][A-Za-z0-9\-]*\s*>` followed by `k` (no alternative parse) -/
def closeTagK (k : List Char → Bool) : List Char → Option (List Char)
  | '<' :: '/' :: c :: r =>
    if isAlpha c then
      match (r.dropWhile isTagChar).dropWhile isWs with
      | '>' :: r' => if k r' then some r' else none
      | _ => none
    else none
  | _ => none

/-- `(?:-?[^-])*-->`: a unit is a non-dash character, optionally behind ONE dash; the greedy star
    stops at the first `--` (or at the end of the text), and no earlier unit boundary starts with
    `--`, so the only candidate for `-->` is that place -/
def commentBody : List Char → Option (List Char)
  | [] => none
  | c :: r =>
    if c = '-' then
      match r with
      | [] => none
      | d :: r' =>
        if d = '-' then (match r' with | '>' :: r'' => some r'' | _ => none)
        else commentBody r'
    else commentBody r

/-- `comment` behind `<!--`: `<!---->` first, then `<!--(?:-?[^>-])(?:-?[^-])*-->` -/
def commentRest (s : List Char) : Option (List Char) :=
  match s with
  | '-' :: '-' :: '>' :: r => some r
  | _ =>
    match s with
    | [] => none
    | c :: r =>
      if c = '-' then
        match r with
        | [] => none
        | d :: r' => if d ≠ '>' ∧ d ≠ '-' then commentBody r' else none
      else if c ≠ '>' then commentBody r
      else none

/-- `declaration` behind `<!`: `[A-Z]+\s+[^>]*>` -/
def declRest : List Char → Option (List Char)
  | [] => none
  | c :: r =>
    if isUpper c then
      match r.dropWhile isUpper with
      | w :: r' =>
        if isWs w then
          match r'.dropWhile (· != '>') with
          | _ :: r'' => some r''
          | [] => none
        else none
      | [] => none
    else none

/-- the four alternatives of `HTML_TAG_RE` that start with `<!` or `<?` (they exclude each other and
    the two tag forms by their first characters): `comment | processing | declaration | cdata` -/
def specialRest : List Char → Option (List Char)
  | '<' :: '!' :: '-' :: '-' :: r => commentRest r
  | '<' :: '?' :: r => findSub ['?', '>'] r
  | '<' :: '!' :: '[' :: 'C' :: 'D' :: 'A' :: 'T' :: 'A' :: '[' :: r => findSub [']', ']', '>'] r
  | '<' :: '!' :: r => declRest r
  | _ => none

def always (_ : List Char) : Bool := true

/-- `HTML_TAG_RE` (anchored): what is left behind the match -/
def tagRest (s : List Char) : Option (List Char) :=
  match openTagK always s with
  | some r => some r
  | none =>
    match closeTagK always s with
    | some r => some r
    | none => specialRest s

/-- `HTML_TAG_RE.captures(s)?.get(0).unwrap().as_str().len()` -/
def tagMatch (s : List Char) : Option Nat :=
  match tagRest s with
  | some r => some (byteLen s - byteLen r)
  | none => none

/-- the matched text: `capture.to_owned()` -/
def tagText (s : List Char) : Option (List Char) :=
  match tagRest s with
  | some r => some (s.take (s.length - r.length))
  | none => none

/-- `^(?:open_tag|close_tag)\s*$` (`HTML_OPEN_CLOSE_TAG_RE` + `\s*$`), `is_match` -/
def openCloseLine (s : List Char) : Bool :=
  (openTagK (fun r => r.all isWs) s).isSome || (closeTagK (fun r => r.all isWs) s).isSome

/-- `HTML_LINK_OPEN = ^<a[>\s]` -/
def linkOpen : List Char → Bool
  | '<' :: 'a' :: c :: _ => c == '>' || isWs c
  | _ => false

/-- `HTML_LINK_CLOSE = ^</a\s*>` -/
def linkClose : List Char → Bool
  | '<' :: '/' :: 'a' :: r => (match r.dropWhile isWs with | '>' :: _ => true | _ => false)
  | _ => false

/-! ## `html_block.rs`: `HTML_SEQUENCES` -/

/-- `script|pre|style|textarea` -/
def rawNames : List (List Char) :=
  [['s','c','r','i','p','t'], ['p','r','e'], ['s','t','y','l','e'], ['t','e','x','t','a','r','e','a']]

/-- `HTML_BLOCKS` -/
def blockNames : List (List Char) :=
  [ ['a','d','d','r','e','s','s'],
    ['a','r','t','i','c','l','e'],
    ['a','s','i','d','e'],
    ['b','a','s','e'],
    ['b','a','s','e','f','o','n','t'],
    ['b','l','o','c','k','q','u','o','t','e'],
    ['b','o','d','y'],
    ['c','a','p','t','i','o','n'],
    ['c','e','n','t','e','r'],
    ['c','o','l'],
    ['c','o','l','g','r','o','u','p'],
    ['d','d'],
    ['d','e','t','a','i','l','s'],
    ['d','i','a','l','o','g'],
    ['d','i','r'],
    ['d','i','v'],
    ['d','l'],
    ['d','t'],
    ['f','i','e','l','d','s','e','t'],
    ['f','i','g','c','a','p','t','i','o','n'],
    ['f','i','g','u','r','e'],
    ['f','o','o','t','e','r'],
    ['f','o','r','m'],
    ['f','r','a','m','e'],
    ['f','r','a','m','e','s','e','t'],
    ['h','1'],
    ['h','2'],
    ['h','3'],
    ['h','4'],
    ['h','5'],
    ['h','6'],
    ['h','e','a','d'],
    ['h','e','a','d','e','r'],
    ['h','r'],
    ['h','t','m','l'],
    ['i','f','r','a','m','e'],
    ['l','e','g','e','n','d'],
    ['l','i'],
    ['l','i','n','k'],
    ['m','a','i','n'],
    ['m','e','n','u'],
    ['m','e','n','u','i','t','e','m'],
    ['n','a','v'],
    ['n','o','f','r','a','m','e','s'],
    ['o','l'],
    ['o','p','t','g','r','o','u','p'],
    ['o','p','t','i','o','n'],
    ['p'],
    ['p','a','r','a','m'],
    ['s','e','c','t','i','o','n'],
    ['s','o','u','r','c','e'],
    ['s','u','m','m','a','r','y'],
    ['t','a','b','l','e'],
    ['t','b','o','d','y'],
    ['t','d'],
    ['t','f','o','o','t'],
    ['t','h'],
    ['t','h','e','a','d'],
    ['t','i','t','l','e'],
    ['t','r'],
    ['t','r','a','c','k'],
    ['u','l'] ]

/-- `(name1|name2|…)tail` under `(?i)`: some alternative matches and `tail` accepts what follows
    (`is_match`: backtracking tries every alternative) -/
def ciAnyName (names : List (List Char)) (tail : List Char → Bool) (s : List Char) : Bool :=
  names.any fun nm => match ciStrip nm s with | some r => tail r | none => false

/-- `(\s|>|$)` -/
def tailRaw : List Char → Bool
  | [] => true
  | c :: _ => isWs c || c == '>'

/-- `(\s|/?>|$)` -/
def tailBlock : List Char → Bool
  | [] => true
  | c :: r => isWs c || c == '>' || (c == '/' && r.head? == some '>')

/-- `seq.open.is_match(line)` for sequence `i` (0-based, in array order) -/
def openMatch (i : Nat) (s : List Char) : Bool :=
  match i with
  | 0 => (match s with | '<' :: r => ciAnyName rawNames tailRaw r | _ => false)
  | 1 => (stripPrefix ['<', '!', '-', '-'] s).isSome
  | 2 => (stripPrefix ['<', '?'] s).isSome
  | 3 => (match s with | '<' :: '!' :: c :: _ => isUpper c | _ => false)
  | 4 => (stripPrefix ['<', '!', '[', 'C', 'D', 'A', 'T', 'A', '['] s).isSome
  | 5 =>
    (match s with
     | '<' :: '/' :: r => ciAnyName blockNames tailBlock r   -- `/?` took the slash (no name starts with `/`)
     | '<' :: r => ciAnyName blockNames tailBlock r
     | _ => false)
  | 6 => openCloseLine s
  | _ => false

/-- `for seq in HTML_SEQUENCES.iter() { if seq.open.is_match(line_text) { … break } }`: the index -/
def openSeq (s : List Char) : Option Nat :=
  [0, 1, 2, 3, 4, 5, 6].find? (fun i => openMatch i s)

/-- `seq.close.is_match(line)` -/
def closeMatch (i : Nat) (s : List Char) : Bool :=
  match i with
  | 0 => anySuffix (fun t => match t with
                             | '<' :: '/' :: r => ciAnyName rawNames (fun x => x.head? == some '>') r
                             | _ => false) s
  | 1 => (findSub ['-', '-', '>'] s).isSome
  | 2 => (findSub ['?', '>'] s).isSome
  | 3 => (findSub ['>'] s).isSome
  | 4 => (findSub [']', ']', '>'] s).isSome
  | _ => s.isEmpty   -- `^$`

/-- `seq.can_terminate_paragraph` -/
def canTerminate (i : Nat) : Bool := i != 6

/-! ## `HtmlBlockScanner::run` -/

/-- the `HtmlBlock` node pushed in real mode: `content`, `srcmap` (byte offsets) -/
structure BlockNode where
  content : List Char
  range : Nat × Nat
  deriving Repr, DecidableEq

abbrev BRes := Except Block.Panic (Bool × Block.BState × Option BlockNode)

/-- `while next_line < state.line_max { … }`: the value of `next_line` behind the loop -/
def blockScan (s : Block.BState) (i : Nat) (nextLine : Nat) : Except Block.Panic Nat :=
  if nextLine < s.lineMax then
    match s.lineIndent nextLine with
    | .error e => .error e
    | .ok ind =>
      if ind < 0 then .ok nextLine
      else
        match s.getLine nextLine with
        | .error e => .error e
        | .ok t =>
          if closeMatch i t then .ok (if t ≠ [] then nextLine + 1 else nextLine)
          else blockScan s i (nextLine + 1)
  else .ok nextLine
termination_by s.lineMax - nextLine

/-- `HtmlBlockScanner::run(state, silent)` → (verdict, state, pushed node) -/
def htmlBlockRule (s : Block.BState) (silent : Bool) : BRes :=
  match s.lineIndent s.line with
  | .error e => .error e
  | .ok ind =>
    if ind ≥ 4 then .ok (false, s, none) else
    match s.getLine s.line with
    | .error e => .error e
    | .ok lineText =>
      if lineText.head? ≠ some '<' then .ok (false, s, none) else
      match openSeq lineText with
      | none => .ok (false, s, none)
      | some i =>
        if silent then .ok (canTerminate i, s, none) else
        let startLine := s.line
        let scanned : Except Block.Panic Nat :=
          if closeMatch i lineText then .ok (s.line + 1) else blockScan s i (s.line + 1)
        match scanned with
        | .error e => .error e
        | .ok nextLine =>
          let s' := { s with line := nextLine }
          match s'.getLines startLine nextLine s'.blkIndent true with
          | .error e => .error e
          | .ok (content, _) =>
            -- `next_line - 1`
            match Block.psub nextLine 1 with
            | .error e => .error e
            | .ok e1 =>
              match s'.getMap startLine e1 with
              | .error e => .error e
              | .ok r => .ok (true, s', some ⟨content, r⟩)

/-! ## `HtmlInlineScanner::run` -/

inductive IPanic where
  /-- a panic class of the html-free inline model -/
  | rust (p : Inline.RPanic)
  /-- `state.link_level += 1` / `-= 1` leaving `i32` -/
  | overflow
  deriving Repr, DecidableEq

/-- the `HtmlInline` node pushed in real mode -/
structure InlineNode where
  content : List Char
  range : Nat × Nat
  deriving Repr, DecidableEq

abbrev IRes := Except IPanic (Option Nat × Inline.IState × Option InlineNode)

def i32Max : Int := 2147483647
def i32Min : Int := -2147483648

/-- `Some('!' | '?' | '/' | 'A'..='Z' | 'a'..='z')` -/
def quickSecond : Option Char → Bool
  | some c => c == '!' || c == '?' || c == '/' || isAlpha c
  | none => false

/-- the two `link_level` updates (checked `i32` arithmetic) -/
def linkLevelStep (content : List Char) (ll : Int) : Except IPanic Int :=
  if linkOpen content then (if ll + 1 > i32Max then .error .overflow else .ok (ll + 1))
  else if linkClose content then (if ll - 1 < i32Min then .error .overflow else .ok (ll - 1))
  else .ok ll

/-- `HtmlInlineScanner::run(state, silent)` → (result, state, pushed node) -/
def htmlInlineRule (st : Inline.IState) (silent : Bool) : IRes :=
  match st.window with
  | .error e => .error (.rust e)
  | .ok [] => .error (.rust .unwrap)
  | .ok (c :: rest) =>
    if c ≠ '<' then .ok (none, st, none)
    else if !quickSecond rest.head? then .ok (none, st, none)
    else
      match tagRest (c :: rest) with
      | none => .ok (none, st, none)
      | some r =>
        let w := c :: rest
        let len := byteLen w - byteLen r
        if silent then .ok (some len, st, none)
        else
          let content := w.take (w.length - r.length)
          match linkLevelStep content st.linkLevel with
          | .error e => .error e
          | .ok ll =>
            match st.getMap st.pos (st.pos + len) with
            | .error e => .error (.rust e)
            | .ok rg => .ok (some len, { st with linkLevel := ll }, some ⟨content, rg⟩)

end MdIt.Html
