/-
  Model of the line table of the block parser and of the indentation helpers:

    * `src/parser/block/state.rs`: `LineOffset`, `BlockState::generate_caches` (`splitLines`),
      `is_empty`, `skip_empty_lines`, `line_indent`, `get_line`, `get_lines`, `get_map`;
    * `src/common/utils.rs`: `rfind_and_count`, `find_indent_of`,
      `calc_right_whitespace_with_tabstops`, `cut_right_whitespace_with_tabstops`.

  Text is `List Char`; every offset is a BYTE offset into the UTF-8 encoding (`Char.utf8Size`).
  `slice` is Rust's `&s[a..b]`: it fails exactly where the Rust panics (other slices reuse it).

  Integer widths.  `usize` is unbounded `Nat`, `i32` unbounded `Int`: the model is exact for sources
  shorter than 2^31 bytes.  Consequences, recorded once:
    * the running `offset` of `generate_caches` (an `i32` that only ever grows from 0) is a `Nat`,
      cast into the `Int` field `indentNonspace` when the line is pushed;
    * `indent_from_start as i32 % 4` (a non-negative count `< 2^31`) is `Nat` `%`;
    * `indent as usize` in `calc_right_…` is only evaluated with `0 < indent` (`Int.toNat`);
    * `indent as i32` in `get_lines` (a `usize` argument supplied by the caller) IS modelled with its
      two's-complement wrap-around (`usizeAsI32`), the subtraction after it is exact.
  The harness builds the crate with `debug-assertions = true`, therefore
  `debug_assert!(begin <= end)` of `get_lines` is a panic site (`Panic.assert`).

  The last section is the SPECIFICATION of the line table used by property C10 (`specLines`); it does
  not mention the loop.
-/
namespace MdIt.Lines

inductive Panic where
  | index    -- `self.line_offsets[line]` out of range
  | slice    -- `&s[a..b]` with `a > b`, `b > len`, or an end inside a character
  | assert   -- `debug_assert!`
  deriving Repr, DecidableEq

/-! ## Byte-indexed text -/

/-- `s.len()` -/
def byteLen : List Char → Nat
  | [] => 0
  | c :: r => c.utf8Size + byteLen r

/-- `&s[n..]`: `none` (panic) unless `n` is a char boundary `≤ len` -/
def dropBytes : List Char → Nat → Option (List Char)
  | [], n => if n = 0 then some [] else none
  | c :: r, n =>
    if n = 0 then some (c :: r) else if n < c.utf8Size then none else dropBytes r (n - c.utf8Size)

/-- `&s[..n]`: `none` (panic) unless `n` is a char boundary `≤ len` -/
def takeBytes : List Char → Nat → Option (List Char)
  | [], n => if n = 0 then some [] else none
  | c :: r, n =>
    if n = 0 then some [] else if n < c.utf8Size then none
    else match takeBytes r (n - c.utf8Size) with
      | none => none
      | some t => some (c :: t)

/-- `&s[a..b]` -/
def slice (s : List Char) (a b : Nat) : Except Panic (List Char) :=
  if a > b then .error .slice
  else match dropBytes s a with
    | none => .error .slice
    | some t =>
      match takeBytes t (b - a) with
      | none => .error .slice
      | some u => .ok u

/-- `s.is_char_boundary(n)` (true for `n = len`, false beyond) -/
def onBoundary (s : List Char) (n : Nat) : Bool := (dropBytes s n).isSome

/-! ## `LineOffset` and `generate_caches` -/

structure LineOffset where
  lineStart : Nat
  lineEnd : Nat
  firstNonspace : Nat
  indentNonspace : Int
  deriving Repr, DecidableEq

/-- The `loop { match chars.next() { … } }` of `generate_caches`; the list argument is what the
    `chars` iterator still holds.  Result = the `LineOffset`s pushed from here on, in push order.

    * arm 1 `Some(' ' | '\t') if !indent_found`: one byte, one or `4 - offset % 4` columns;
    * arm 2 `Some('\n' | '\r') | None`: push the line; CR directly followed by LF swallows the LF;
      then `break` when the input is exhausted (also when it was exhausted already: `None`);
    * arm 3 any other character — including a space or tab after the first non-blank. -/
def splitGo (indentFound : Bool) (indent offset start pos : Nat) : List Char → List LineOffset
  | [] => [⟨start, pos, start + indent, (offset : Int)⟩]
  | c :: rest =>
    if (c = ' ' ∨ c = '\t') ∧ indentFound = false then
      splitGo false (indent + 1) (offset + if c = '\t' then 4 - offset % 4 else 1) start (pos + 1) rest
    else if c = '\n' ∨ c = '\r' then
      let line : LineOffset := ⟨start, pos, start + indent, (offset : Int)⟩
      -- `if ch == Some('\r') && chars.peek() == Some(&'\n') { chars.next(); pos += 1; }`
      let crlf : Bool := c = '\r' ∧ rest.head? = some '\n'
      let rest' := if crlf then rest.tail else rest
      let pos' := if crlf then pos + 1 else pos
      -- `if ch.is_none() || chars.peek().is_none() { break; }`
      if rest' = [] then [line]
      else line :: splitGo false 0 0 (pos' + 1) (pos' + 1) rest'
    else
      splitGo true indent offset start (pos + c.utf8Size) rest
termination_by l => l.length
decreasing_by
  all_goals simp_wf
  all_goals (try split) <;> (try simp [List.length_tail]) <;> omega

/-- `BlockState::new(src, …).line_offsets` -/
def splitLines (src : List Char) : List LineOffset := splitGo false 0 0 0 0 src

/-- `is_empty` (`false` for a line that does not exist) -/
def isEmpty (offs : List LineOffset) (line : Nat) : Bool :=
  match offs[line]? with
  | some o => o.firstNonspace ≥ o.lineEnd
  | none => false

/-- `skip_empty_lines`: `while line != self.line_max && self.is_empty(line) { line += 1 }`.
    (`is_empty` is false beyond the table, so the loop ends at the latest at `offs.length`.) -/
def skipEmptyLines (offs : List LineOffset) (lineMax : Nat) (line : Nat) : Nat :=
  if h : line ≠ lineMax ∧ isEmpty offs line = true then
    skipEmptyLines offs lineMax (line + 1)
  else line
termination_by offs.length - line
decreasing_by
  have : isEmpty offs line = true := h.2
  unfold isEmpty at this
  split at this
  · rename_i o ho
    have := (List.getElem?_eq_some_iff.mp ho).1
    omega
  · simp at this

/-- `line_indent`: `self.line_offsets[line].indent_nonspace - self.blk_indent as i32` -/
def lineIndent (offs : List LineOffset) (blkIndent : Nat) (line : Nat) : Except Panic Int :=
  match offs[line]? with
  | none => .error .index
  | some o => .ok (o.indentNonspace - (blkIndent : Int))

/-- `get_line` -/
def getLine (src : List Char) (offs : List LineOffset) (line : Nat) : Except Panic (List Char) :=
  match offs[line]? with
  | none => .error .index
  | some o => slice src o.firstNonspace o.lineEnd

/-- `get_map(start_line, end_line)` = `(first_nonspace of start_line, line_end of end_line)` -/
def getMap (offs : List LineOffset) (startLine endLine : Nat) : Except Panic (Nat × Nat) :=
  if startLine > endLine then .error .assert
  else match offs[startLine]?, offs[endLine]? with
    | some a, some b => .ok (a.firstNonspace, b.lineEnd)
    | _, _ => .error .index

/-! ## The view of a line (all a block rule reads of the source) -/

/-- `src[first_nonspace .. line_end]` -/
def lineText (src : List Char) (o : LineOffset) : Except Panic (List Char) :=
  slice src o.firstNonspace o.lineEnd

/-- `src[line_start .. first_nonspace]` -/
def lineWs (src : List Char) (o : LineOffset) : Except Panic (List Char) :=
  slice src o.lineStart o.firstNonspace

/-- (leading blanks, text, indent) -/
def view (src : List Char) (o : LineOffset) :
    Except Panic (List Char) × Except Panic (List Char) × Int :=
  (lineWs src o, lineText src o, o.indentNonspace)

def views (src : List Char) : List (Except Panic (List Char) × Except Panic (List Char) × Int) :=
  (splitLines src).map (view src)

/-! ## `utils.rs` -/

/-- number of characters before the first occurrence of `ch` (all of them if there is none) -/
def countUntil (ch : Char) : List Char → Nat
  | [] => 0
  | c :: r => if c = ch then 0 else 1 + countUntil ch r

/-- `rfind_and_count`: `for c in source.chars().rev() { if c == char { break; } result += 1; }` -/
def rfindAndCount (source : List Char) (ch : Char) : Nat := countUntil ch source.reverse

/-- the `loop` of `find_indent_of`; the list is what `chars` still holds, `&line[..pos]` is
    re-sliced at every tab exactly as in the Rust -/
def findIndentGo (line : List Char) (indent pos : Nat) : List Char → Except Panic (Nat × Nat)
  | [] => .ok (indent, pos)
  | c :: r =>
    if c = '\t' then
      match slice line 0 pos with
      | .error e => .error e
      | .ok pre => findIndentGo line (indent + (4 - rfindAndCount pre '\t' % 4)) (pos + 1) r
    else if c = ' ' then findIndentGo line (indent + 1) (pos + 1) r
    else .ok (indent, pos)

/-- `find_indent_of(line, pos)` → `(indent, pos')`; `line[pos..]` panics off a boundary -/
def findIndentOf (line : List Char) (pos : Nat) : Except Panic (Nat × Nat) :=
  match dropBytes line pos with
  | none => .error .slice
  | some t => findIndentGo line 0 pos t

/-- the `while indent > 0` loop of `calc_right_whitespace_with_tabstops`.  The list is the part of
    `source.char_indices().rev()` not yet consumed, i.e. a REVERSED prefix of `source`; the byte
    position of its head is the byte length of its tail, and `&source[..pos]` is that tail
    (`pos` comes from `char_indices`, so this slice cannot panic). -/
def calcGo (indent : Int) (start : Nat) : List Char → Nat × Nat
  | [] => if indent > 0 then (0, 0) else (0, start)          -- `None => { start = 0; break; }`
  | c :: r =>
    if indent > 0 then
      let pos := byteLen r
      if c = '\t' then
        let tabWidth : Int := 4 - ((countUntil '\t' r % 4 : Nat) : Int)
        if indent < tabWidth then (indent.toNat, start)
        else calcGo (indent - tabWidth) pos r
      else calcGo (indent - 1) pos r
    else (0, start)

/-- `calc_right_whitespace_with_tabstops(source, indent)` → `(num_spaces, start)` -/
def calcRightWs (source : List Char) (indent : Int) : Nat × Nat :=
  calcGo indent (byteLen source) source.reverse

/-- `cut_right_whitespace_with_tabstops` (both branches build the same text) -/
def cutRightWs (source : List Char) (indent : Int) : Except Panic (List Char) :=
  let (numSpaces, start) := calcRightWs source indent
  match dropBytes source start with
  | none => .error .slice
  | some t => .ok (List.replicate numSpaces ' ' ++ t)

/-! ## `get_lines` -/

/-- `n as i32` for `n : usize` (two's complement wrap-around of the low 32 bits) -/
def usizeAsI32 (n : Nat) : Int :=
  let m := n % 4294967296
  if m < 2147483648 then (m : Int) else (m : Int) - 4294967296

/-- the `while line < end` loop; `result` / `mapping` are the accumulators of the Rust -/
def getLinesGo (src : List Char) (offs : List LineOffset) (end_ indent : Nat) (keepLastLf : Bool)
    (line : Nat) (result : List Char) (mapping : List (Nat × Nat)) :
    Except Panic (List Char × List (Nat × Nat)) :=
  if line < end_ then
    match offs[line]? with
    | none => .error .index
    | some o =>
      let addLastLf : Bool := line + 1 < end_ || keepLastLf
      match slice src o.lineStart o.firstNonspace with
      | .error e => .error e
      | .ok ws =>
        let (numSpaces, first) := calcRightWs ws (o.indentNonspace - usizeAsI32 indent)
        let mapping := mapping ++ [(byteLen result, o.lineStart + first)]
        let result := result ++ List.replicate numSpaces ' '
        let mapping :=
          if numSpaces > 0 then mapping ++ [(byteLen result, o.lineStart + first)] else mapping
        match slice src (o.lineStart + first) o.lineEnd with
        | .error e => .error e
        | .ok t =>
          let result := result ++ t
          let result := if addLastLf then result ++ ['\n'] else result
          getLinesGo src offs end_ indent keepLastLf (line + 1) result mapping
  else .ok (result, mapping)
termination_by end_ - line

/-- `get_lines(begin, end, indent, keep_last_lf)` → `(content, mapping)` -/
def getLines (src : List Char) (offs : List LineOffset) (begin_ end_ indent : Nat)
    (keepLastLf : Bool) : Except Panic (List Char × List (Nat × Nat)) :=
  if begin_ > end_ then .error .assert
  else getLinesGo src offs end_ indent keepLastLf begin_ [] []

/-! ## Specification of the line table (property C10; does not mention anything above except
    `Char`s): split at terminators, drop one trailing empty piece, decompose each piece. -/

def isBlank (c : Char) : Bool := c = ' ' || c = '\t'
def isTerm (c : Char) : Bool := c = '\n' || c = '\r'

/-- column reached after `c` when starting at column `col` (tab stop 4; every other character,
    blank or not, is one column wide) -/
def colStep (col : Nat) (c : Char) : Nat := if c = '\t' then col + (4 - col % 4) else col + 1

/-- tab-expanded width of a run starting at column `col` -/
def widthFrom (col : Nat) (ws : List Char) : Nat := ws.foldl colStep col

/-- tab-expanded width of a run starting at column 0 -/
def indentWidth (ws : List Char) : Nat := widthFrom 0 ws

/-- put `c` in front of the first piece -/
def consHead (c : Char) : List (List Char) → List (List Char)
  | [] => [[c]]
  | p :: ps => (c :: p) :: ps

/-- `'\n' :: r ↦ r` (the LF of a CRLF) -/
def dropLf : List Char → List Char
  | [] => []
  | c :: r => if c = '\n' then r else c :: r

theorem dropLf_length_le (l : List Char) : (dropLf l).length ≤ l.length := by
  cases l with
  | nil => simp [dropLf]
  | cons c r => simp only [dropLf]; split <;> simp

/-- the pieces between terminators (LF | CRLF | CR not followed by LF); `#pieces = #terminators + 1` -/
def pieces : List Char → List (List Char)
  | [] => [[]]
  | c :: r =>
    if c = '\n' then [] :: pieces r
    else if c = '\r' then [] :: pieces (dropLf r)
    else consHead c (pieces r)
termination_by l => l.length
decreasing_by
  all_goals simp_wf
  have := dropLf_length_le r
  omega

/-- drop ONE trailing empty piece when there are at least two pieces, i.e. when the text ends with a
    terminator (so the empty document keeps its single empty line) -/
def dropFinalEmpty : List (List Char) → List (List Char)
  | [] => []
  | [p] => [p]
  | p :: q :: r => if q = [] ∧ r = [] then [p] else p :: dropFinalEmpty (q :: r)

/-- a piece ↦ (leading run of spaces/tabs, the rest, tab-expanded width of the run) -/
def decompose (p : List Char) : List Char × List Char × Nat :=
  (p.takeWhile isBlank, p.dropWhile isBlank, indentWidth (p.takeWhile isBlank))

/-- the line table every block rule sees, as a function of the text alone -/
def specLines (src : List Char) : List (List Char × List Char × Nat) :=
  (dropFinalEmpty (pieces src)).map decompose

/-- LF ↦ CR LF -/
def lfToCrlf : List Char → List Char
  | [] => []
  | c :: r => if c = '\n' then '\r' :: '\n' :: lfToCrlf r else c :: lfToCrlf r

/-- LF ↦ CR -/
def lfToCr : List Char → List Char
  | [] => []
  | c :: r => if c = '\n' then '\r' :: lfToCr r else c :: lfToCr r

end MdIt.Lines
