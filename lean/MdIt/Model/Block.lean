/-
  Model of the BLOCK-level parser for html-free configurations:

    * `src/parser/block/mod.rs`    `BlockParser::tokenize` (level guard, progress `assert!`, the
                                    no-paragraph fallback, `tight` / `has_empty_lines`), `parse`
    * `src/parser/block/state.rs`  `BlockState` (`BState`), `test_rules_at_line`
    * `src/plugins/cmark/block/`   paragraph, heading, lheading, hr, code, fence, blockquote, list
                                    (`mark_tight_paragraphs`, marker parsers, empty-item workaround),
                                    reference

  The line table and the indentation helpers are those of `MdIt.Model.Lines`, destination / title
  parsing and `normalize_link` / `validate_link` those of `MdIt.Model.Link`, `unescape_all` is
  `Entity.unescapeAll` over the entity table `Cfg.lookup`, `normalize_reference` is `Refs.normalize`
  over the case tables `Cfg.L` / `Cfg.U` (all three tables are parameters; the driver supplies the
  generated ones).

  Shape.  Every rule is a function `… → BState → (silent : Bool) → Except Panic (Bool × BState)` that
  follows the Rust statement by statement; everything that can panic in the Rust (indexing, slicing,
  `unwrap`, unsigned subtraction, `debug_assert!` — the harness builds with debug assertions — and
  the `assert!` of the tokenizer) is a partial operation here.  The rules that call back into the
  parser take the two call-backs as PARAMETERS:

      tok  : Tok   = `state.md.block.tokenize(state)`      (nested tokenizer: blockquote, list item)
      test : Test  = `state.test_rules_at_line()`          (the chain in silent mode)

  `engine cfg fuel` ties the knot by structural recursion on `fuel`: at fuel `f + 1` the rules get
  `tok = tokenize cfg f`, `test = testRules cfg f`, and every loop that threads the state
  (`tokenize`'s `while`, the paragraph / blockquote / list scans) may run at most `f + 1` iterations.
  Running out of fuel is `Panic.fuel`; `parseBlocks` starts with
  `#lines + min max_nesting |src| + 8`, which is never exhausted (nesting depth ≤ `max_nesting + 1`
  and ≤ `|src| + 1`, every loop advances by a line per iteration) — checked by the stream `block`.

  Integer widths as in `Lines`: `usize` = `Nat`, `i32` = `Int`.  `x as usize` for an `i32` is
  modelled exactly where it is cast straight back (`fence.rs`, `i32AsUsize`, undone by `usizeAsI32`
  in `get_lines`); in `list.rs` (`offsets.indent_nonspace as usize + pos_after_marker`) a negative
  value is the class `Panic.cast` (the Rust would wrap and then overflow or mis-indent; unreachable:
  the tokenizer only runs rules at lines with `line_indent ≥ 0`).
-/
import MdIt.Model.Lines
import MdIt.Model.Link
import MdIt.Model.Entity
import MdIt.Model.Refs

namespace MdIt.Block
open MdIt.Lines (LineOffset)

inductive Panic where
  | index     -- `line_offsets[i]`, `mapping[0]` out of range
  | slice     -- `&s[a..b]`
  | assert    -- `debug_assert!`
  | unwrap    -- `.unwrap()` on `None` / `Err`
  | sub       -- unsigned subtraction below zero
  | cast      -- negative `i32 as usize` in `list.rs` (see the header)
  | progress  -- `assert!(state.line > prev_line, "block rule didn't increment state.line")`
  | fuel      -- the model ran out of fuel (never happens from `parseBlocks`)
  deriving Repr, DecidableEq

inductive RuleId where
  | code | fence | blockquote | hr | list | reference | heading | lheading | paragraph
  deriving Repr, DecidableEq

/-- node values of the block tree, with every payload field -/
inductive Kind where
  | root
  | paragraph
  | blockquote
  | bulletList (marker : Char)
  | orderedList (start : Nat) (marker : Char)
  | listItem
  | codeBlock (content : List Char)
  | codeFence (info : List Char) (marker : Char) (markerLen : Nat) (content : List Char)
  | hr (marker : Char) (len : Nat)
  | atx (level : Nat)
  | setext (level : Nat) (marker : Char)
  | inlineRoot (content : List Char) (mapping : List (Nat × Nat))
  deriving Repr, DecidableEq

/-- `Node`: value, `srcmap` (byte offsets), children -/
structure BNode where
  kind : Kind
  range : Option (Nat × Nat)
  children : List BNode
  deriving Repr

/-- `BlockState`, field by field; `state.node` is its kind + its children, `root_env` is the
    reference map (the only thing the shipped rules keep there) -/
structure BState where
  src : List Char
  offs : List LineOffset
  blkIndent : Nat
  line : Nat
  lineMax : Nat
  tight : Bool
  listIndent : Option Nat
  level : Nat
  nodeKind : Kind
  children : List BNode
  refs : Refs.RefMap

/-- what the rules read of `MarkdownIt` -/
structure Cfg where
  /-- `md.max_nesting` -/
  maxNesting : Nat
  /-- the effective (compiled) block chain -/
  chain : List RuleId
  /-- `get_entity_from_str` (entity table) -/
  lookup : List Char → Option (List Char)
  /-- `char::to_lowercase`, `char::to_uppercase` -/
  L : Nat → List Nat
  U : Nat → List Nat

abbrev Res := Except Panic (Bool × BState)
/-- `state.md.block.tokenize(state)` -/
abbrev Tok := BState → Except Panic BState
/-- `state.test_rules_at_line()` -/
abbrev Test := BState → Res

def liftL {α : Type} : Except Lines.Panic α → Except Panic α
  | .ok a => .ok a
  | .error .index => .error .index
  | .error .slice => .error .slice
  | .error .assert => .error .assert

def liftK {α : Type} : Except Link.Panic α → Except Panic α
  | .ok a => .ok a
  | .error .slice => .error .slice

/-- unsigned `a - b` -/
def psub (a b : Nat) : Except Panic Nat := if b ≤ a then .ok (a - b) else .error .sub

/-- `' ' | '\t'` -/
def isBlank (c : Char) : Bool := c = ' ' || c = '\t'

/-- `'0'..='9'` -/
def isDigit (c : Char) : Bool := 48 ≤ c.toNat && c.toNat ≤ 57

namespace BState

/-- `&state.line_offsets[line]` -/
def off (s : BState) (line : Nat) : Except Panic LineOffset :=
  match s.offs[line]? with
  | some o => .ok o
  | none => .error .index

/-- `state.line_offsets[line] = o` (or a field of it) -/
def setOff (s : BState) (line : Nat) (o : LineOffset) : Except Panic BState :=
  if line < s.offs.length then .ok { s with offs := s.offs.set line o } else .error .index

def lineIndent (s : BState) (line : Nat) : Except Panic Int :=
  liftL (Lines.lineIndent s.offs s.blkIndent line)

def getLine (s : BState) (line : Nat) : Except Panic (List Char) :=
  liftL (Lines.getLine s.src s.offs line)

def isEmpty (s : BState) (line : Nat) : Bool := Lines.isEmpty s.offs line

def getLines (s : BState) (begin_ end_ indent : Nat) (keep : Bool) :
    Except Panic (List Char × List (Nat × Nat)) :=
  liftL (Lines.getLines s.src s.offs begin_ end_ indent keep)

def getMap (s : BState) (startLine endLine : Nat) : Except Panic (Nat × Nat) :=
  liftL (Lines.getMap s.offs startLine endLine)

/-- `state.node.children.push(node)` -/
def push (s : BState) (n : BNode) : BState := { s with children := s.children ++ [n] }

/-- `BlockState::new(src, md, env, node)` with an empty `node` of kind `k` and reference map `refs` -/
def fresh (src : List Char) (k : Kind) (refs : Refs.RefMap) : BState :=
  let offs := Lines.splitLines src
  { src := src, offs := offs, blkIndent := 0, line := 0, lineMax := offs.length, tight := false,
    listIndent := none, level := 0, nodeKind := k, children := [], refs := refs }

end BState

/-! ## hr.rs -/

/-- `for ch in chars { if ch == marker { cnt += 1 } else if ch != ' ' && ch != '\t' { return false } }`;
    `none` = `return false` -/
def hrCount (marker : Char) : List Char → Nat → Option Nat
  | [], cnt => some cnt
  | c :: r, cnt =>
    if c = marker then hrCount marker r (cnt + 1)
    else if c ≠ ' ' ∧ c ≠ '\t' then none
    else hrCount marker r cnt

def hrRule (s : BState) (silent : Bool) : Res := do
  let ind ← s.lineIndent s.line
  if ind ≥ 4 then pure (false, s) else do
  let line ← s.getLine s.line
  match line with
  | [] => pure (false, s)
  | marker :: rest =>
    if ¬ (marker = '*' ∨ marker = '-' ∨ marker = '_') then pure (false, s) else
    match hrCount marker rest 1 with
    | none => pure (false, s)
    | some cnt =>
      if cnt < 3 then pure (false, s) else
      if silent then pure (true, s) else do
      let r ← s.getMap s.line s.line
      let s := s.push ⟨.hr marker cnt, some r, []⟩
      pure (true, { s with line := s.line + 1 })

/-! ## heading.rs -/

/-- the `loop` that counts `#` (`chars = line.char_indices()`): `none` = `return false`;
    `some (level, text_pos, rest of chars)`.  Every `#` is one byte, so the byte index `x` of the
    blank that ends the run is `level`. -/
def atxOpen : List Char → Nat → Option (Nat × Nat × List Char)
  | [], level => some (level, level, [])
  | c :: r, level =>
    if c = '#' then (if level + 1 > 6 then none else atxOpen r (level + 1))
    else if c = ' ' ∨ c = '\t' then some (level, level, r)
    else none

/-- `text_max`: `chars.rev()`, skip blanks, skip `#`, then look at one more character.
    `rest` starts at byte `text_pos + 1` of `line`. -/
def atxTextMax (line rest : List Char) (textPos : Nat) : Nat :=
  match (rest.reverse.dropWhile isBlank).dropWhile (· = '#') with
  | [] => textPos
  | c :: r' => if isBlank c then (textPos + 1 + Lines.byteLen r') + 1 else Lines.byteLen line

def headingRule (s : BState) (silent : Bool) : Res := do
  let ind ← s.lineIndent s.line
  if ind ≥ 4 then pure (false, s) else do
  let line ← s.getLine s.line
  if line.head? ≠ some '#' then pure (false, s) else
  match atxOpen line 0 with
  | none => pure (false, s)
  | some (level, textPos, rest) =>
    if silent then pure (true, s) else do
    let textMax := atxTextMax line rest textPos
    let content ← liftL (Lines.slice line textPos textMax)
    let o ← s.off s.line
    let mapping := [(0, o.firstNonspace + textPos)]
    let r ← s.getMap s.line s.line
    let s := s.push ⟨.atx level, some r, [⟨.inlineRoot content mapping, none, []⟩]⟩
    pure (true, { s with line := s.line + 1 })

/-! ## code.rs -/

/-- the `while next_line < state.line_max` loop; result: `last` -/
def codeScan (s : BState) (nextLine last : Nat) : Except Panic Nat :=
  if nextLine < s.lineMax then
    if s.isEmpty nextLine then codeScan s (nextLine + 1) last
    else
      match s.lineIndent nextLine with
      | .error e => .error e
      | .ok ind => if ind ≥ 4 then codeScan s (nextLine + 1) (nextLine + 1) else .ok last
  else .ok last
termination_by s.lineMax - nextLine

def codeRule (s : BState) (silent : Bool) : Res :=
  if silent then pure (false, s) else do
  let ind ← s.lineIndent s.line
  if ind < 4 then pure (false, s) else do
  let last ← codeScan s (s.line + 1) (s.line + 1)
  let startLine := s.line
  let s := { s with line := last }
  let (content, mapping) ← s.getLines startLine last (4 + s.blkIndent) false
  let content := content ++ ['\n']
  match mapping with
  | [] => .error .index
  | m0 :: _ =>
    let l1 ← psub s.line 1
    let o ← s.off l1
    -- `get_map_from_offsets`: `debug_assert!(start_pos <= end_pos)`
    if m0.2 > o.lineEnd then .error .assert else
    pure (true, s.push ⟨.codeBlock content, some (m0.2, o.lineEnd), []⟩)

/-! ## fence.rs -/

/-- length of the leading run of `m` -/
def countRun (m : Char) : List Char → Nat
  | [] => 0
  | c :: r => if c = m then 1 + countRun m r else 0

/-- `x as usize` for `x : i32` (sign extension, two's complement) -/
def i32AsUsize (x : Int) : Nat := if x ≥ 0 then x.toNat else (18446744073709551616 + x).toNat

/-- the `'outer: loop` searching the end of the block, entered with `next_line`;
    result `(next_line, have_end_marker)`.  (`state.line_indent(next_line)` reads the table entry
    `get_line(next_line)` has just read, so evaluating it once, early, is the same.) -/
def fenceScan (s : BState) (marker : Char) (len : Nat) (nextLine : Nat) : Except Panic (Nat × Bool) :=
  if nextLine + 1 ≥ s.lineMax then .ok (nextLine + 1, false)
  else
    match s.getLine (nextLine + 1), s.lineIndent (nextLine + 1) with
    | .error e, _ => .error e
    | _, .error e => .error e
    | .ok line, .ok ind =>
      if line ≠ [] ∧ ind < 0 then .ok (nextLine + 1, false)
      else
        match line with
        | [] => fenceScan s marker len (nextLine + 1)
        | c :: rest =>
          if c ≠ marker then fenceScan s marker len (nextLine + 1)
          else if ind ≥ 4 then fenceScan s marker len (nextLine + 1)
          else if 1 + countRun marker rest < len then fenceScan s marker len (nextLine + 1)
          else if (rest.drop (countRun marker rest)).all isBlank then .ok (nextLine + 1, true)
          else fenceScan s marker len (nextLine + 1)
termination_by s.lineMax - nextLine

def fenceRule (s : BState) (silent : Bool) : Res := do
  let ind ← s.lineIndent s.line
  if ind ≥ 4 then pure (false, s) else do
  let line ← s.getLine s.line
  match line with
  | [] => pure (false, s)
  | marker :: rest =>
    if ¬ (marker = '~' ∨ marker = '`') then pure (false, s) else
    let len := 1 + countRun marker rest
    if len < 3 then pure (false, s) else do
    let params ← liftL (Lines.slice line len (Lines.byteLen line))
    if marker = '`' ∧ params.contains marker then pure (false, s) else
    if silent then pure (true, s) else do
    let startLine := s.line
    let (nextLine, haveEnd) ← fenceScan s marker len s.line
    let o ← s.off startLine
    let (content, _) ← s.getLines (startLine + 1) nextLine (i32AsUsize o.indentNonspace) true
    let e ← psub nextLine (if haveEnd then 0 else 1)
    let r ← s.getMap startLine e
    let s := s.push ⟨.codeFence params marker len content, some r, []⟩
    pure (true, { s with line := nextLine + (if haveEnd then 1 else 0) })

/-! ## paragraph.rs, lheading.rs, reference.rs: the shared "jump line-by-line" loop -/

/-- the setext underline test of `lheading.rs` on `get_line(next_line)`: 0 = no underline -/
def underlineLevel : List Char → Nat
  | [] => 0
  | marker :: rest =>
    if marker = '-' ∨ marker = '=' then
      if ((rest.drop (countRun marker rest)).dropWhile isBlank).isEmpty then
        (if marker = '=' then 1 else 2)
      else 0
    else 0

/-- `if state.line_indent(next_line) >= 0 { … underline test … }` of `lheading.rs` (absent from the
    other two rules: `setext = false`); result: the level found, 0 = none -/
def setextCheck (setext : Bool) (s : BState) (ind : Int) (nextLine : Nat) : Except Panic Nat :=
  if setext ∧ ind ≥ 0 then do
    let l ← s.getLine nextLine
    pure (underlineLevel l)
  else pure 0

/-- `'outer: loop { next_line += 1; … }` of the three rules (`setext = true`: with the underline test
    of `lheading.rs`).  Result `(next_line, level, state)`; `level ≠ 0` only for a found underline. -/
def lazyScan (test : Test) (setext : Bool) : Nat → BState → Nat → Except Panic (Nat × Nat × BState)
  | 0, _, _ => .error .fuel
  | fuel + 1, s, nextLine =>
    let nextLine := nextLine + 1
    if nextLine ≥ s.lineMax ∨ s.isEmpty nextLine then .ok (nextLine, 0, s) else do
    let ind ← s.lineIndent nextLine
    if ind ≥ 4 then lazyScan test setext fuel s nextLine else do
    let lvl ← setextCheck setext s ind nextLine
    if lvl ≠ 0 then .ok (nextLine, lvl, s) else do
    let o ← s.off nextLine
    if o.indentNonspace < 0 then lazyScan test setext fuel s nextLine else do
    let oldLine := s.line
    let (b, s1) ← test { s with line := nextLine }
    let s2 := { s1 with line := oldLine }
    if b then .ok (nextLine, 0, s2) else lazyScan test setext fuel s2 nextLine

def paragraphRule (test : Test) (fuel : Nat) (s : BState) (silent : Bool) : Res :=
  if silent then pure (false, s) else do
  let startLine := s.line
  let (nextLine, _, s) ← lazyScan test false fuel s startLine
  let (content, mapping) ← s.getLines startLine nextLine s.blkIndent false
  let s := { s with line := nextLine }
  let e ← psub s.line 1
  let r ← s.getMap startLine e
  pure (true, s.push ⟨.paragraph, some r, [⟨.inlineRoot content mapping, none, []⟩]⟩)

def lheadingRule (test : Test) (fuel : Nat) (s : BState) (silent : Bool) : Res :=
  if silent then pure (false, s) else do
  let ind ← s.lineIndent s.line
  if ind ≥ 4 then pure (false, s) else do
  let startLine := s.line
  let (nextLine, level, s) ← lazyScan test true fuel s startLine
  if level = 0 then pure (false, s) else do
  let (content, mapping) ← s.getLines startLine nextLine s.blkIndent false
  let s := { s with line := nextLine + 1 }
  let e ← psub s.line 1
  let r ← s.getMap startLine e
  pure (true, s.push ⟨.setext level (if level = 2 then '-' else '='), some r,
    [⟨.inlineRoot content mapping, none, []⟩]⟩)

/-! ## reference.rs -/

/-- the quick `[…]:` check on the first line; `skip` = the next character is behind a backslash.
    `false` = `return false`. -/
def refQuick (skip : Bool) : List Char → Bool
  | [] => true
  | c :: r =>
    if skip then refQuick false r
    else if c = '\\' then refQuick true r
    else if c = ']' then (match r with | ':' :: _ => true | _ => false)
    else refQuick false r

/-- `char::is_whitespace` -/
def isWsChar (c : Char) : Bool := Refs.isWs c.toNat

/-- `str::trim` -/
def trimStr (s : List Char) : List Char := ((s.dropWhile isWsChar).reverse.dropWhile isWsChar).reverse

/-- the label loop over `str.char_indices()` (entered behind the `[`, at byte `pos`); `esc` = the
    previous character was a backslash (`Some((_, '\\')) => { if let Some((_, '\n')) = chars.next() … }`
    consumes the next character whatever it is).
    `none` = `return false`; `some (label_end, lines, rest of chars)` -/
def labelScan (esc : Bool) : List Char → Nat → Nat → Option (Nat × Nat × List Char)
  | [], _, _ => none
  | c :: r, pos, lines =>
    if esc then labelScan false r (pos + Link.clen c) (if c = '\n' then lines + 1 else lines)
    else if c = '[' then none
    else if c = ']' then some (pos, lines, r)
    else if c = '\n' then labelScan false r (pos + 1) (lines + 1)
    else if c = '\\' then labelScan true r (pos + 1) lines
    else labelScan false r (pos + Link.clen c) lines

/-- `while let Some(' ' | '\t' | '\n') = chars.next() { if ch == '\n' { lines += 1 } pos += 1 }` -/
def wsScan : List Char → Nat → Nat → Nat × Nat
  | [], pos, lines => (pos, lines)
  | c :: r, pos, lines =>
    if c = ' ' ∨ c = '\t' then wsScan r (pos + 1) lines
    else if c = '\n' then wsScan r (pos + 1) (lines + 1)
    else (pos, lines)

/-- one pass of the final loop: `some pos` = `break` (line feed or end), `none` = other character -/
def trailGo : List Char → Nat → Option Nat
  | [], pos => some pos
  | c :: r, pos =>
    if c = ' ' ∨ c = '\t' then trailGo r (pos + 1)
    else if c = '\n' then some pos
    else none

/-- `if pos != start { parse_link_title … }`: `(title, pos, lines)` -/
def refTitle (cfg : Cfg) (str : List Char) (len start pos lines destEndPos destEndLines : Nat) :
    Except Panic (Option (List Char) × Nat × Nat) :=
  if pos ≠ start then do
    let t ← liftK (Link.parseLinkTitle str pos len)
    match t with
    | some res => pure (some (Entity.unescapeAll cfg.lookup res.raw), res.pos, lines + res.lines)
    | none => pure (none, destEndPos, destEndLines)
  else pure (none, pos, lines)

/-- the final `loop` ("skip trailing spaces until the rest of the line", with the roll-back to the
    end of the destination when there is garbage behind a title): `none` = `return false`,
    `some (title, lines)` -/
def refTrail (str : List Char) (len : Nat) (title : Option (List Char)) (pos lines destEndPos destEndLines : Nat) :
    Except Panic (Option (Option (List Char) × Nat)) := do
  let tail ← liftK (Link.slice str pos len)
  match trailGo tail pos with
  | some _ => pure (some (title, lines))
  | none =>
    if title.isSome then do
      let tail2 ← liftK (Link.slice str destEndPos len)
      match trailGo tail2 destEndPos with
      | some _ => pure (some (none, destEndLines))
      | none => pure none
    else pure none

/-- everything behind `get_lines(..).trim()`: `none` = `return false`,
    `some (label text, href, title, lines)` -/
def refParse (cfg : Cfg) (str : List Char) :
    Except Panic (Option (List Nat × List Nat × Option (List Nat) × Nat)) :=
  let len := Link.byteLen str
  -- `chars.next(); // skip '['`
  match labelScan false str.tail (match str with | [] => 0 | c :: _ => Link.clen c) 0 with
  | none => pure none
  | some (labelEnd, lines, rest) =>
    match rest with
    | ':' :: rest2 => do
      let (pos, lines) := wsScan rest2 (labelEnd + 2) lines
      let dest ← liftK (Link.parseLinkDestination str pos len)
      match dest with
      | none => pure none
      | some res =>
        if pos = res.pos then pure none else
        let href := Link.normalizeLink (Link.utf8 (Entity.unescapeAll cfg.lookup res.raw))
        if ¬ Link.validateLink href then pure none else do
        let pos := res.pos
        let lines := lines + res.lines
        let destEndPos := pos
        let destEndLines := lines
        let start := pos
        let tail ← liftK (Link.slice str pos len)
        let (pos, lines) := wsScan tail pos lines
        let (title, pos, lines) ← refTitle cfg str len start pos lines destEndPos destEndLines
        let fin ← refTrail str len title pos lines destEndPos destEndLines
        match fin with
        | none => pure none
        | some (title, lines) => do
          let raw ← liftK (Link.slice str 1 labelEnd)
          pure (some (raw.map Char.toNat, href, title.map (·.map Char.toNat), lines))
    | _ => pure none

def referenceRule (cfg : Cfg) (test : Test) (fuel : Nat) (s : BState) (silent : Bool) : Res :=
  if silent then pure (false, s) else do
  let ind ← s.lineIndent s.line
  if ind ≥ 4 then pure (false, s) else do
  let line ← s.getLine s.line
  match line with
  | [] => pure (false, s)
  | c :: rest =>
    if c ≠ '[' then pure (false, s) else
    if ¬ refQuick false rest then pure (false, s) else do
    let startLine := s.line
    let (nextLine, _, s) ← lazyScan test false fuel s startLine
    let (strBeforeTrim, _) ← s.getLines startLine nextLine s.blkIndent false
    let str := trimStr strBeforeTrim
    let parsed ← refParse cfg str
    match parsed with
    | none => pure (false, s)
    | some (raw, href, title, lines) =>
      let label := Refs.normalize cfg.L cfg.U raw
      if label.isEmpty then pure (false, s) else
      -- `ReferenceMapKey::new(label)` normalises once more
      let refs := Refs.insertFirst s.refs (Refs.normalize cfg.L cfg.U label) ⟨href, title⟩
      pure (true, { s with refs := refs, line := startLine + lines + 1 })

/-! ## blockquote.rs -/

/-- `if matches!(chars.next(), Some(' ' | '\t')) { indent_after_marker -= 1; }` -/
def bqOptSpace (rest : List Char) (indAfter : Nat) : Except Panic Nat :=
  match rest with
  | d :: _ => if isBlank d then psub indAfter 1 else pure indAfter
  | [] => pure indAfter

/-- the arm `Some('>') if !is_outdented` up to the two assignments to `state.line_offsets[next_line]`:
    the rewritten entry of a line inside the quote ("set offset past spaces and `>`"), and
    `last_line_empty`.  `rest` = the line's text behind the `>`. -/
def bqRewrite (src : List Char) (o : LineOffset) (rest : List Char) : Except Panic (LineOffset × Bool) := do
  let posAfterMarker := o.firstNonspace + 1
  let ltxt ← liftL (Lines.slice src o.lineStart o.lineEnd)
  let rel ← psub posAfterMarker o.lineStart
  let (indAfter, fn) ← liftL (Lines.findIndentOf ltxt rel)
  let lineLen ← psub o.lineEnd o.lineStart
  let lastEmpty : Bool := fn == lineLen
  let indAfter ← bqOptSpace rest indAfter
  pure ({ o with indentNonspace := (indAfter : Int), firstNonspace := fn + o.lineStart }, lastEmpty)

/-- `while next_line < state.line_max { … }`: result `(next_line, old_line_offsets, state)` -/
def bqScan (test : Test) :
    Nat → BState → Nat → List LineOffset → Bool → Except Panic (Nat × List LineOffset × BState)
  | 0, _, _, _, _ => .error .fuel
  | fuel + 1, s, nextLine, old, lastEmpty =>
    if ¬ nextLine < s.lineMax then .ok (nextLine, old, s) else do
    let ind ← s.lineIndent nextLine
    let isOutdented : Bool := ind < 0
    let line ← s.getLine nextLine
    match line with
    | [] => .ok (nextLine, old, s)
    | c :: rest =>
      if c = '>' ∧ ¬ isOutdented then do
        let o ← s.off nextLine
        let (o', lastEmpty) ← bqRewrite s.src o rest
        let s ← s.setOff nextLine o'
        bqScan test fuel s (nextLine + 1) (old ++ [o]) lastEmpty
      else
        if lastEmpty then .ok (nextLine, old, s) else do
        let (b, s) ← test { s with line := nextLine }
        if b then
          if s.blkIndent ≠ 0 then do
            let o ← s.off nextLine
            let s ← s.setOff nextLine { o with indentNonspace := o.indentNonspace - (s.blkIndent : Int) }
            .ok (nextLine, old ++ [o], s)
          else .ok (nextLine, old, s)
        else do
          let o ← s.off nextLine
          let s ← s.setOff nextLine { o with indentNonspace := -1 }
          bqScan test fuel s (nextLine + 1) (old ++ [o]) lastEmpty

/-- `for (idx, lo) in old.iter_mut().enumerate() { swap(&mut offs[idx + start_line], lo) }` -/
def restoreOffs : List LineOffset → Nat → List LineOffset → Except Panic (List LineOffset)
  | offs, _, [] => .ok offs
  | offs, i, o :: r => if i < offs.length then restoreOffs (offs.set i o) (i + 1) r else .error .index

def blockquoteRule (tok : Tok) (test : Test) (fuel : Nat) (s : BState) (silent : Bool) : Res := do
  let ind ← s.lineIndent s.line
  if ind ≥ 4 then pure (false, s) else do
  let line ← s.getLine s.line
  if line.head? ≠ some '>' then pure (false, s) else
  if silent then pure (true, s) else do
  let startLine := s.line
  let (nextLine, old, s) ← bqScan test fuel s s.line [] false
  let oldIndent := s.blkIndent
  let oldKind := s.nodeKind
  let oldChildren := s.children
  let oldLineMax := s.lineMax
  let s ← tok { s with blkIndent := 0, nodeKind := .blockquote, children := [], line := startLine,
                       lineMax := nextLine, level := s.level + 1 }
  let lvl ← psub s.level 1
  let s := { s with level := lvl, lineMax := oldLineMax }
  let offs ← restoreOffs s.offs startLine old
  let s := { s with offs := offs, blkIndent := oldIndent }
  let e ← psub s.line 1
  let r ← s.getMap startLine e
  let node : BNode := ⟨s.nodeKind, some r, s.children⟩
  pure (true, { s with nodeKind := oldKind, children := oldChildren ++ [node] })

/-! ## list.rs -/

/-- `skip_bullet_list_marker` -/
def skipBullet : List Char → Option Nat
  | [] => none
  | c :: r =>
    if c = '*' ∨ c = '-' ∨ c = '+' then
      match r with
      | [] => some 1
      | d :: _ => if isBlank d then some 1 else none
    else none

/-- the `loop` of `skip_ordered_list_marker`: `some (pos, rest)` on `break` -/
def ordLoop : List Char → Nat → Option (Nat × List Char)
  | [], _ => none
  | c :: r, pos =>
    if isDigit c then (if pos + 1 ≥ 10 then none else ordLoop r (pos + 1))
    else if c = ')' ∨ c = '.' then some (pos + 1, r)
    else none

/-- `skip_ordered_list_marker` -/
def skipOrdered : List Char → Option Nat
  | [] => none
  | c :: r =>
    if isDigit c then
      match ordLoop r 1 with
      | none => none
      | some (pos, rest) =>
        match rest with
        | [] => some pos
        | d :: _ => if isBlank d then some pos else none
    else none

/-- `str::parse::<u32>(digits).unwrap()` (only ever applied to 1–9 ASCII digits) -/
def parseU32 (ds : List Char) : Except Panic Nat :=
  if ds.isEmpty ∨ ¬ ds.all isDigit then .error .unwrap
  else
    let v := ds.foldl (fun acc c => acc * 10 + (c.toNat - 48)) 0
    if v < 4294967296 then .ok v else .error .unwrap

/-- `current_line[..pos].chars().next_back().unwrap()` -/
def markerCharOf (cur : List Char) (pos : Nat) : Except Panic Char := do
  let pre ← liftL (Lines.slice cur 0 pos)
  match pre.getLast? with
  | some c => pure c
  | none => .error .unwrap

/-- `mark_tight_paragraphs`: every `Paragraph` child is replaced by its children (which are then
    skipped: `idx += len`) -/
def markTight : List BNode → List BNode
  | [] => []
  | n :: r => if n.kind = .paragraph then n.children ++ markTight r else n :: markTight r

def isListKind : Kind → Bool
  | .bulletList _ => true
  | .orderedList _ _ => true
  | _ => false

/-- the body of one item: the empty-item workaround, or the nested tokenizer one level deeper -/
def listItemBody (tok : Tok) (s : BState) (nextLine : Nat) (reachedEnd : Bool) : Except Panic BState :=
  if reachedEnd ∧ s.isEmpty (nextLine + 1) then
    pure { s with line := if s.line + 2 < s.lineMax then s.line + 2 else s.lineMax }
  else do
    let s2 ← tok { s with line := nextLine, level := s.level + 1 }
    let lvl ← psub s2.level 1
    pure { s2 with level := lvl }

/-- `(state.line - next_line) > 1 && state.is_empty(state.line - 1)` -/
def prevEmptyEndOf (s : BState) (nextLine : Nat) : Except Panic Bool := do
  let d ← psub s.line nextLine
  if d > 1 then do
    let l1 ← psub s.line 1
    pure (s.isEmpty l1)
  else pure false

/-- the head of an iteration of the item loop, up to the two assignments to
    `state.line_offsets[next_line]`: the rewritten entry of the item's first line (`first_nonspace` and
    `indent_nonspace` behind the marker), the item's content indent `indent` (the new `blk_indent`)
    and `reached_end_of_line` -/
def itemRewrite (src : List Char) (o : LineOffset) (posAfterMarker : Nat) :
    Except Panic (LineOffset × Nat × Bool) :=
  if o.indentNonspace < 0 then .error .cast else do
  let initial := o.indentNonspace.toNat + posAfterMarker
  let ltxt ← liftL (Lines.slice src o.lineStart o.lineEnd)
  let rel ← psub (posAfterMarker + o.firstNonspace) o.lineStart
  let (indAfter0, fn) ← liftL (Lines.findIndentOf ltxt rel)
  let lineLen ← psub o.lineEnd o.lineStart
  let reachedEnd : Bool := fn == lineLen
  let indentNonspace := initial + indAfter0
  let indAfter := if reachedEnd then 1 else if indAfter0 > 4 then 1 else indAfter0
  let indent := initial + indAfter
  pure ({ o with firstNonspace := fn + o.lineStart, indentNonspace := (indentNonspace : Int) },
        indent, reachedEnd)

/-- the first half of one iteration of the item loop: one list item, from
    `let offsets = &state.line_offsets[next_line]` to `state.node.children.push(node)`;
    result `(state, tight, prev_empty_end)` -/
def listItem (tok : Tok) (s : BState) (nextLine posAfterMarker : Nat) (prevEmptyEnd tight : Bool) :
    Except Panic (BState × Bool × Bool) := do
  let o ← s.off nextLine
  let (o', indent, reachedEnd) ← itemRewrite s.src o posAfterMarker
  let oldKind := s.nodeKind
  let oldChildren := s.children
  let oldTight := s.tight
  let oldListIndent := s.listIndent
  let s := { s with nodeKind := .listItem, children := [], listIndent := some s.blkIndent,
                    blkIndent := indent, tight := true }
  let s ← s.setOff nextLine o'
  let s ← listItemBody tok s nextLine reachedEnd
  let tight := if ¬ s.tight ∨ prevEmptyEnd then false else tight
  let prevEmptyEnd ← prevEmptyEndOf s nextLine
  match s.listIndent with
  | none => .error .unwrap
  | some li => do
    let s := { s with blkIndent := li, listIndent := oldListIndent }
    let s ← s.setOff nextLine o
    let s := { s with tight := oldTight }
    let endLine := s.line
    let e ← psub endLine 1
    let r ← s.getMap nextLine e
    let node : BNode := ⟨s.nodeKind, some r, s.children⟩
    pure ({ s with nodeKind := oldKind, children := oldChildren ++ [node] }, tight, prevEmptyEnd)

/-- the second half: "Try to check if list is terminated or continued"; `none` = `break`,
    `some p` = go on with `pos_after_marker = p` -/
def listContinue (test : Test) (ordered : Bool) (markerChar : Char) (s : BState) (nextLine : Nat) :
    Except Panic (Option Nat × BState) :=
  if nextLine ≥ s.lineMax then pure (none, s) else do
  let ind ← s.lineIndent nextLine
  if ind < 0 then pure (none, s) else
  if ind ≥ 4 then pure (none, s) else do
  let oldLine := s.line
  let (terminate, s) ← test s
  let s := { s with line := oldLine }
  if terminate then pure (none, s) else do
  let cur ← s.getLine s.line
  match (if ordered then skipOrdered cur else skipBullet cur) with
  | none => pure (none, s)
  | some p => do
    let mc ← markerCharOf cur p
    if mc ≠ markerChar then pure (none, s) else pure (some p, s)

/-- `'outer: while next_line < state.line_max { … }` (one list item per iteration);
    result `(next_line, tight, state)` -/
def listLoop (tok : Tok) (test : Test) (ordered : Bool) (markerChar : Char) :
    Nat → BState → Nat → Nat → Bool → Bool → Except Panic (Nat × Bool × BState)
  | 0, _, _, _, _, _ => .error .fuel
  | fuel + 1, s, nextLine, posAfterMarker, prevEmptyEnd, tight =>
    if ¬ nextLine < s.lineMax then .ok (nextLine, tight, s) else do
    let (s, tight, prevEmptyEnd) ← listItem tok s nextLine posAfterMarker prevEmptyEnd tight
    let nextLine := s.line
    let (cont, s) ← listContinue test ordered markerChar s nextLine
    match cont with
    | none => .ok (nextLine, tight, s)
    | some p => listLoop tok test ordered markerChar fuel s nextLine p prevEmptyEnd tight

/-- the `for child in state.node.children.iter_mut()` of the tight case -/
def tightenItems : List BNode → Except Panic (List BNode)
  | [] => .ok []
  | c :: r =>
    if c.kind ≠ .listItem then .error .assert
    else
      match tightenItems r with
      | .error e => .error e
      | .ok r' => .ok ({ c with children := markTight c.children } :: r')

/-- the "special case" (`- item 1 / - item 2 / … / - this one is a paragraph continuation`) -/
def listSpecial (s : BState) : Except Panic Bool :=
  match s.listIndent with
  | some li => do
    let o ← s.off s.line
    pure (decide (o.indentNonspace - (li : Int) ≥ 4 ∧ o.indentNonspace < (s.blkIndent : Int)))
  | none => pure false

/-- "Detect list type and position after marker": `none` = no marker,
    `some (pos_after_marker, marker_value)` -/
def detectMarker (cur : List Char) : Except Panic (Option (Nat × Option Nat)) :=
  match skipOrdered cur with
  | some p => do
    let p1 ← psub p 1
    let ds ← liftL (Lines.slice cur 0 p1)
    let v ← parseU32 ds
    pure (some (p, some v))
  | none =>
    match skipBullet cur with
    | some p => pure (some (p, none))
    | none => pure none

/-- `if is_terminating_paragraph { … current_line[pos_after_marker..] is blank … }` -/
def emptyItemCheck (isTerm : Bool) (cur : List Char) (posAfterMarker : Nat) : Except Panic Bool :=
  if isTerm then do
    let tail ← liftL (Lines.slice cur posAfterMarker (Lines.byteLen cur))
    pure (tail.all isBlank)
  else pure false

def listRule (tok : Tok) (test : Test) (fuel : Nat) (s : BState) (silent : Bool) : Res :=
  if silent ∧ isListKind s.nodeKind then pure (false, s) else do
  let ind ← s.lineIndent s.line
  if ind ≥ 4 then pure (false, s) else do
  let special ← listSpecial s
  if special then pure (false, s) else do
  -- `if silent { if state.line_indent(state.line) >= 0 { is_terminating_paragraph = true } }`
  let isTerm : Bool := silent ∧ ind ≥ 0
  let startLine := s.line
  let cur ← s.getLine s.line
  let detected ← detectMarker cur
  match detected with
  | none => pure (false, s)
  | some (posAfterMarker, markerValue) =>
    let badStart : Bool := isTerm && (match markerValue with | some v => v != 1 | none => false)
    if badStart then pure (false, s) else do
    let emptyItem ← emptyItemCheck isTerm cur posAfterMarker
    if emptyItem then pure (false, s) else
    if silent then pure (true, s) else do
    let markerChar ← markerCharOf cur posAfterMarker
    let newKind : Kind := match markerValue with
      | some v => .orderedList v markerChar
      | none => .bulletList markerChar
    let oldKind := s.nodeKind
    let oldChildren := s.children
    let s := { s with nodeKind := newKind, children := [], level := s.level + 1 }
    let (nextLine, tight, s) ←
      listLoop tok test markerValue.isSome markerChar fuel s s.line posAfterMarker false true
    let children ← (if tight then tightenItems s.children else pure s.children)
    let lvl ← psub s.level 1
    let e ← psub nextLine 1
    let r ← s.getMap startLine e
    let node : BNode := ⟨s.nodeKind, some r, children⟩
    pure (true, { s with level := lvl, nodeKind := oldKind, children := oldChildren ++ [node] })

/-! ## the chain, `test_rules_at_line`, `tokenize` -/

/-- one rule of the chain -/
def runRule (cfg : Cfg) (tok : Tok) (test : Test) (fuel : Nat) : RuleId → BState → Bool → Res
  | .code => codeRule
  | .fence => fenceRule
  | .blockquote => blockquoteRule tok test fuel
  | .hr => hrRule
  | .list => listRule tok test fuel
  | .reference => referenceRule cfg test fuel
  | .heading => headingRule
  | .lheading => lheadingRule test fuel
  | .paragraph => paragraphRule test fuel

/-- `for rule in ruler.iter() { if rule(state, silent) { return/break } }` -/
def runChain (run : RuleId → BState → Bool → Res) : List RuleId → BState → Bool → Res
  | [], s, _ => .ok (false, s)
  | r :: rs, s, silent =>
    match run r s silent with
    | .error e => .error e
    | .ok (true, s') => .ok (true, s')
    | .ok (false, s') => runChain run rs s' silent

/-- after the `for rule in …` loop: the progress `assert!` (inside the loop in the Rust, directly
    before its `break`), or the no-paragraph fallback (`if !ok { … }`) -/
def afterChain (ok : Bool) (s : BState) (prevLine : Nat) : Except Panic BState :=
  if ok then
    (if s.line > prevLine then pure s else .error .progress)
  else do
    let l ← s.getLine s.line
    let o ← s.off s.line
    let s := s.push ⟨.inlineRoot (l ++ ['\n']) [(0, o.firstNonspace)], none, []⟩
    pure { s with line := s.line + 1 }

/-- the `while state.line < state.line_max` loop of `tokenize`; `hasEmpty` = `has_empty_lines` -/
def tokLoop (cfg : Cfg) (run : RuleId → BState → Bool → Res) : Nat → Bool → BState → Except Panic BState
  | 0, _, _ => .error .fuel
  | fuel + 1, hasEmpty, s =>
    if ¬ s.line < s.lineMax then .ok s else
    let s := { s with line := Lines.skipEmptyLines s.offs s.lineMax s.line }
    if s.line ≥ s.lineMax then .ok s else do
    let ind ← s.lineIndent s.line
    if ind < 0 then .ok s else
    if s.level ≥ cfg.maxNesting then .ok { s with line := s.lineMax } else do
    let prevLine := s.line
    let (ok, s) ← runChain run cfg.chain s false
    let s ← afterChain ok s prevLine
    let s := { s with tight := !hasEmpty }
    let l1 ← psub s.line 1
    let hasEmpty := hasEmpty || s.isEmpty l1
    if s.line < s.lineMax ∧ s.isEmpty s.line then tokLoop cfg run fuel true { s with line := s.line + 1 }
    else tokLoop cfg run fuel hasEmpty s

/-- `(tokenize, test_rules_at_line)` with nesting/iteration budget `fuel` -/
def engine (cfg : Cfg) : Nat → Tok × Test
  | 0 => (fun _ => .error .fuel, fun _ => .error .fuel)
  | f + 1 =>
    let p := engine cfg f
    (tokLoop cfg (runRule cfg p.1 p.2 (f + 1)) (f + 1) false,
     fun s => runChain (runRule cfg p.1 p.2 (f + 1)) cfg.chain s true)

/-- `BlockParser::tokenize` -/
def tokenize (cfg : Cfg) (fuel : Nat) : Tok := (engine cfg fuel).1

/-- `BlockState::test_rules_at_line` -/
def testRules (cfg : Cfg) (fuel : Nat) : Test := (engine cfg fuel).2

/-- a rule as the tokenizer at budget `fuel + 1` calls it -/
def ruleAt (cfg : Cfg) (fuel : Nat) : RuleId → BState → Bool → Res :=
  runRule cfg (tokenize cfg fuel) (testRules cfg fuel) (fuel + 1)

/-- the fuel `parseBlocks` starts with -/
def fuelFor (cfg : Cfg) (src : List Char) : Nat :=
  (Lines.splitLines src).length + min cfg.maxNesting (Lines.byteLen src) + 8

/-- `MarkdownIt::parse` up to and including the block pass (`BlockParserRule`), no inline pass:
    the root node (range `(0, src.len())`) and the reference map -/
def parseBlocks (cfg : Cfg) (src : List Char) : Except Panic (BNode × Refs.RefMap) :=
  match tokenize cfg (fuelFor cfg src) (BState.fresh src .root []) with
  | .error e => .error e
  | .ok s => .ok (⟨s.nodeKind, some (0, Lines.byteLen src), s.children⟩, s.refs)

end MdIt.Block
