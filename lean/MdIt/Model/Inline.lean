/-
  Model of the complete INLINE-level parser for html-free configurations, plus the post pass.

    * `src/parser/inline/mod.rs`            `InlineParser::tokenize`, `skip_token` (memo `state.cache`,
                                            the level guards, `level += 1` around each silent rule call,
                                            the over-limit branch), `parse`
    * `src/parser/inline/state.rs`          `InlineState::new`, `trim_src`, `scan_delims`,
                                            `trailing_text_push/pop/get`, `get_map`
    * `src/parser/inline/builtin/skip_text.rs`  `TextScanner` (`SkipPunct` implementation)
    * `src/plugins/cmark/inline/*.rs`       newline, escape, entity, backticks, emphasis, link, image,
                                            autolink (`AUTOLINK_RE`, `EMAIL_RE` as hand matchers)
    * `src/plugins/extra/inline/strikethrough.rs`
    * `src/generics/inline/emph_pair.rs`    `EmphPairScanner::run`, `scan_and_match_delimiters`,
                                            `is_odd_match`, `fragments_join`, `FragmentsJoin::run`
    * `src/generics/inline/full_link.rs`    `rule`, `parse_link`, `parse_link_label`
    * `src/generics/inline/code_pair.rs`    through `MdIt.CodePair.run Variant.current`

  Reused models (not modified): `MdIt.InlineOps` (`Srcmap`, `getSourcePosFor`, `getMap`, `slice`,
  `byteLen`), `MdIt.CodePair` (the code-span rule with its cache), `MdIt.Entity` (`entityCore`,
  `escapeCore`, `splitRun`, `textStop`, `unescapeAll`), `MdIt.Link` (`parseInlineTail`,
  `autolinkDest`, `normalizeLink`, `validateLink`), `MdIt.Refs` (`lookup`), `MdIt.Join` (through the
  projection `erase`: `Props/Inline.lean` proves `erase ∘ joinAllN = Join.joinAll ∘ erase`),
  `MdIt.Alt` (`toInl`).

  Text is `List Char`; EVERY position is a BYTE offset into the UTF-8 encoding (`Char.utf8Size`).
  `usize` is an unbounded `Nat`.  Every Rust operation that can panic is a partial operation
  (`Panic`): `&s[a..b]` (`slice`), `unwrap`, unsigned subtraction (`underflow`), indexing (`index`),
  `debug_assert!` (`assert`, active in the harness build).  The mutual recursion
  `tokenize → rule → parse_link_label → skip_token → rule → …` and the two `while` loops are driven by
  `fuel`; running out of it is `Panic.fuel` (`Props/Inline.lean`: `fuel_suffices`).

  What the configuration (`Cfg`) holds: `md.max_nesting`, the compiled inline chain in execution
  order, `PairConfig<MARKER>::fns` per marker, the `ReferenceMap` of `root_env` (or its absence),
  `normalize_reference`, `get_entity_from_str`, `char::is_whitespace`, `is_punct_char`.
  `md.normalize_link`, `md.validate_link`, `md.normalize_link_text` are the defaults of
  `MarkdownIt::new()` (`Link.normalizeLink`, `Link.validateLink`, identity).
-/
import MdIt.Model.InlineOps
import MdIt.Model.Join
import MdIt.Model.CodePair
import MdIt.Model.Entity
import MdIt.Model.Link
import MdIt.Model.Refs
import MdIt.Model.Alt

namespace MdIt.Inline
open MdIt.InlineOps (Srcmap getSourcePosFor getMap byteLen slice)

/-! ## panics -/

/-- the panics of the Rust code -/
inductive RPanic where
  | unwrap      -- `Option::unwrap()` on `None`
  | slice       -- `&s[a..b]` out of range / inside a character / `a > b`; `split_off` past the end
  | underflow   -- unsigned subtraction below zero
  | index       -- `v[i]` with `i >= v.len()`
  | assert      -- `debug_assert!(start_pos <= end_pos)` in `get_map`
  | radix       -- `u32::from_str_radix(..).unwrap()` on `Err`
  | fromU32     -- `char::from_u32(..).unwrap()` on `None`
  deriving Repr, DecidableEq

/-- outcome classes of the recursive part of the model: a Rust panic, or the model ran out of
    fuel (not a Rust panic; excluded by `fuel_suffices`).  Rules without look-ahead recursion
    return `Except RPanic _`: they cannot run out of fuel by construction. -/
inductive Panic where
  | fuel
  | rust (p : RPanic)
  deriving Repr, DecidableEq

def RPanic.ofOps : InlineOps.Panic → RPanic
  | .underflow => .underflow
  | .index => .index
  | .slice => .slice
  | .unwrap => .unwrap
  | .assert => .assert

def RPanic.ofCode : CodePair.Panic → RPanic
  | .slice => .slice
  | .unwrap => .unwrap
  | .index => .index
  | .underflow => .underflow
  | .assert => .assert

/-- (`Entity.Panic.fuel` belongs to `Entity.inlineLoop`, which is not used here; `escapeCore` and
    `entityCore` never produce it) -/
def RPanic.ofEntity : Entity.Panic → RPanic
  | .unwrapNone => .unwrap
  | .slice => .slice
  | .radix => .radix
  | .fromU32 => .fromU32
  | .fuel => .unwrap

def RPanic.ofLink : Link.Panic → RPanic
  | .slice => .slice

def liftOps {α : Type} : Except InlineOps.Panic α → Except RPanic α
  | .ok a => .ok a
  | .error e => .error (RPanic.ofOps e)

/-- a Rust-level result inside the fuel-driven recursion -/
def liftR {α : Type} : Except RPanic α → Except Panic α
  | .ok a => .ok a
  | .error e => .error (.rust e)

/-! ## the inline tree -/

/-- the node values `PairConfig::fns` can make: `Em`, `Strong`, `Strikethrough` -/
inductive Wrap where
  | em
  | strong
  | strike
  deriving Repr, DecidableEq

/-- `Node::node_value` for every node kind the html-free inline rules create -/
inductive Val where
  /-- `Text { content }` -/
  | text (content : List Char)
  /-- `TextSpecial { content, markup, info }` -/
  | special (content markup info : List Char)
  | softbreak
  | hardbreak
  /-- `CodeInline { marker, marker_len }` -/
  | codeInline (marker : Char) (markerLen : Nat)
  /-- `Em { marker }` / `Strong { marker }` / `Strikethrough { marker }` -/
  | wrap (w : Wrap) (marker : Char)
  /-- `Link { url, title }` (url = bytes of the string) -/
  | link (url : List Nat) (title : Option (List Char))
  /-- `Image { url, title }` -/
  | image (url : List Nat) (title : Option (List Char))
  /-- `Autolink { url }` -/
  | autolink (url : List Nat)
  /-- `EmphMarker { marker, length, remaining, open, close }` -/
  | emphMarker (marker : Char) (length remaining : Nat) (open_ close : Bool)
  deriving Repr, DecidableEq

/-- `Node`: value, `srcmap` as byte offsets, children (attributes and `env` are not modelled; the
    `OpenersBottom` entries of the CURRENT node's env live in `IState.bottoms`) -/
structure Node where
  val : Val
  range : Option (Nat × Nat)
  children : List Node
  deriving Repr

def Node.isText (n : Node) : Bool :=
  match n.val with
  | .text _ => true
  | _ => false

/-- `text.content` of a `Text` node (`[]` for other kinds; callers test `isText` first) -/
def Node.content (n : Node) : List Char :=
  match n.val with
  | .text c => c
  | _ => []

/-- `Node::new(Text { content })` with a srcmap -/
def Node.newText (content : List Char) (range : Option (Nat × Nat)) : Node :=
  { val := .text content, range := range, children := [] }

/-- a childless node -/
def Node.leaf (v : Val) (range : Option (Nat × Nat)) : Node :=
  { val := v, range := range, children := [] }

/-! ### projection to the node type of `MdIt.InlineOps` / `MdIt.Join` -/

/-- kind number of a non-text, non-placeholder value (`InlineOps.Kind.other`) -/
def Val.code : Val → Nat
  | .text _ => 0
  | .special _ _ _ => 1
  | .softbreak => 2
  | .hardbreak => 3
  | .codeInline _ _ => 4
  | .wrap .em _ => 5
  | .wrap .strong _ => 6
  | .wrap .strike _ => 7
  | .link _ _ => 8
  | .image _ _ => 9
  | .autolink _ => 10
  | .emphMarker _ _ _ _ _ => 11

mutual
/-- forget the payload: what `MdIt.InlineOps.INode` can tell apart -/
def erase : Node → InlineOps.INode
  | ⟨v, r, cs⟩ =>
    match v with
    | .text c => { kind := .text, content := c, range := r, children := eraseList cs, remaining := 0 }
    | .emphMarker m _ rem _ _ =>
      { kind := .marker m, content := [], range := r, children := eraseList cs, remaining := rem }
    | v => { kind := .other v.code, content := [], range := r, children := eraseList cs, remaining := 0 }
def eraseList : List Node → List InlineOps.INode
  | [] => []
  | c :: cs => erase c :: eraseList cs
end

mutual
/-- the view `MdIt.Alt` (alt text of images) has of a node -/
def toInl : Node → Alt.Inl
  | ⟨v, _, cs⟩ =>
    match v with
    | .text c => .text c
    | .special c _ _ => .special c
    | .softbreak => .soft
    | .hardbreak => .hard
    | v => .wrap v.code (toInlList cs)
def toInlList : List Node → List Alt.Inl
  | [] => []
  | c :: cs => toInl c :: toInlList cs
end

/-! ## configuration -/

inductive RuleId where
  /-- `TextScanner` -/
  | text
  /-- `NewlineScanner` -/
  | newline
  /-- `EscapeScanner` -/
  | escape
  /-- ``CodePairScanner<'`', false>`` -/
  | backticks
  /-- `EmphPairScanner<MARKER, CAN_SPLIT_WORD>` (`emphasis`: `('*', true)`, `('_', false)`;
      `strikethrough`: `('~', true)`) -/
  | emph (marker : Char) (canSplitWord : Bool)
  /-- `LinkScanner<false>` -/
  | link
  /-- `LinkPrefixScanner<'!', true>` -/
  | image
  /-- `LinkScannerEnd` -/
  | linkEnd
  /-- `AutolinkScanner` -/
  | autolink
  /-- `EntityScanner` -/
  | entity
  deriving Repr, DecidableEq

structure Cfg where
  /-- `md.max_nesting` -/
  maxNesting : Nat
  /-- the compiled inline chain (`md.inline.ruler.iter()`), in execution order -/
  chain : List RuleId
  /-- `md.env.get::<PairConfig<MARKER>>().fns[i]` for `i = 0, 1, 2` -/
  fns : Char → Nat → Option Wrap
  /-- `state.root_env.get::<ReferenceMap>()` (keys already normalised) -/
  refs : Option Refs.RefMap
  /-- `normalize_reference` on code points (`ReferenceMapKey::new`) -/
  normRef : List Nat → List Nat
  /-- `get_entity_from_str` -/
  entity : List Char → Option (List Char)
  /-- `char::is_whitespace` -/
  isWhite : Char → Bool
  /-- `is_punct_char` (Unicode general category P*); only consulted behind
      `ch.is_ascii_punctuation() ||` -/
  isPunctChar : Char → Bool

/-! ## the state -/

/-- `InlineState`, field by field.  `children` / `bottoms` are `state.node.children` and the
    `OpenersBottom<MARKER>` entries of `state.node.env`; `backticks` is the
    ``RefCell<CodePairCache<'`'>>`` of `state.inline_env`. -/
structure IState where
  src : List Char
  srcmap : Srcmap
  pos : Nat
  posMax : Nat
  level : Nat
  linkLevel : Int
  /-- `state.cache : HashMap<usize, usize>` as an association list (newest first) -/
  cache : List (Nat × Nat)
  backticks : CodePair.Cache
  children : List Node
  bottoms : List (Char × List Nat)

/-- `' ' | '\t'` -/
def isSpTab (c : Char) : Bool := c == ' ' || c == '\t'

/-- `trim_src`: ONE double-ended byte iterator; `next_back` runs first and also consumes the first
    non-blank byte it meets, then `next` runs over what is left.  Result `(pos, pos_max)`.
    (Blanks are single bytes and no byte of a multi-byte character is a blank, so counting
    characters is counting bytes.) -/
def trimSrc (src : List Char) : Nat × Nat :=
  let rev := src.reverse
  let nBack := (rev.takeWhile isSpTab).length
  let rest := ((rev.dropWhile isSpTab).drop 1).reverse
  let nFront := (rest.takeWhile isSpTab).length
  (nFront, byteLen src - nBack)

/-- `InlineState::new(src, srcmap, md, env, node)` with an empty `node` -/
def IState.init (src : List Char) (srcmap : Srcmap) : IState :=
  { src := src, srcmap := srcmap, pos := (trimSrc src).1, posMax := (trimSrc src).2,
    level := 0, linkLevel := 0, cache := [], backticks := CodePair.Cache.empty,
    children := [], bottoms := [] }

/-- `state.src[state.pos..state.pos_max]` -/
def IState.window (st : IState) : Except RPanic (List Char) :=
  liftOps (slice st.src st.pos st.posMax)

/-- `state.get_map(a, b)` -/
def IState.getMap (st : IState) (a b : Nat) : Except RPanic (Nat × Nat) :=
  liftOps (InlineOps.getMap st.srcmap a b)

/-! ## `trailing_text_push / pop / get` on the rich node type
    (same code as `MdIt.InlineOps`; `Props/Inline.lean`: `erase_trailingTextPush` etc.) -/

/-- `Vec::pop` -/
def popLast {α : Type} : List α → Option (List α × α)
  | [] => none
  | [x] => some ([], x)
  | x :: y :: r =>
    match popLast (y :: r) with
    | none => none
    | some (init, l) => some (x :: init, l)

/-- `trailing_text_push(start, end)` -/
def trailingTextPush (src : List Char) (m : Srcmap) (children : List Node) (start stop : Nat) :
    Except RPanic (List Node) :=
  let fresh : Except RPanic (List Node) :=
    match liftOps (slice src start stop) with
    | .error e => .error e
    | .ok piece =>
      match liftOps (getMap m start stop) with
      | .error e => .error e
      | .ok r => .ok (children ++ [Node.newText piece (some r)])
  match popLast children with
  | none => fresh
  | some (init, last) =>
    if last.isText then
      match liftOps (slice src start stop) with
      | .error e => .error e
      | .ok piece =>
        match last.range with
        | none => .ok (init ++ [{ last with val := .text (last.content ++ piece) }])
        | some (mapStart, _) =>
          match liftOps (getSourcePosFor m stop) with
          | .error e => .error e
          | .ok mapEnd =>
            .ok (init ++ [{ last with val := .text (last.content ++ piece),
                                      range := some (mapStart, mapEnd) }])
    else fresh

/-- `trailing_text_pop(count)` -/
def trailingTextPop (children : List Node) (count : Nat) : Except RPanic (List Node) :=
  if count = 0 then .ok children else
  match popLast children with
  | none => .error .unwrap
  | some (init, node) =>
    if !node.isText then .error .unwrap
    else if byteLen node.content = count then .ok init
    else if byteLen node.content < count then .error .underflow
    else
      match liftOps (InlineOps.truncate node.content (byteLen node.content - count)) with
      | .error e => .error e
      | .ok content' =>
        match node.range with
        | none => .ok (init ++ [{ node with val := .text content' }])
        | some (mapStart, mapEnd) =>
          if mapEnd < count then .error .underflow
          else .ok (init ++ [{ node with val := .text content',
                                         range := some (mapStart, mapEnd - count) }])

/-- `trailing_text_get()` -/
def trailingTextGet (children : List Node) : List Char :=
  match popLast children with
  | none => []
  | some (_, last) => if last.isText then last.content else []

/-- `state.trailing_text_push(a, b)` -/
def IState.pushText (st : IState) (a b : Nat) : Except RPanic IState :=
  match trailingTextPush st.src st.srcmap st.children a b with
  | .error e => .error e
  | .ok cs => .ok { st with children := cs }

/-- `state.node.children.push(node)` -/
def IState.push (st : IState) (n : Node) : IState := { st with children := st.children ++ [n] }

/-- what a rule returns (`Option<usize>`) together with the state it leaves -/
abbrev SRes := Except RPanic (Option Nat × IState)

/-- the same inside the fuel-driven recursion (link, image and the two loops) -/
abbrev RuleRes := Except Panic (Option Nat × IState)

/-! ## `TextScanner` (`SkipPunct`) -/

/-- `TextScanner::run` -/
def ruleText (st : IState) (silent : Bool) : SRes :=
  match st.window with
  | .error e => .error e
  | .ok w =>
    let len := byteLen (Entity.splitRun (fun c => !Entity.textStop.contains c) w).1
    if len = 0 then .ok (none, st)
    else if silent then .ok (some len, st)
    else
      match st.pushText st.pos (st.pos + len) with
      | .error e => .error e
      | .ok st' => .ok (some len, st')

/-! ## `NewlineScanner` -/

/-- `for ch in trailing_text.chars().rev() { if ch == ' ' { tail_size += 1 } else { break } }` -/
def tailSpaces (s : List Char) : Nat := (s.reverse.takeWhile (· == ' ')).length

/-- `NewlineScanner::run` -/
def ruleNewline (st : IState) (silent : Bool) : SRes :=
  match st.window with
  | .error e => .error e
  | .ok [] => .error .unwrap
  | .ok (c :: rest) =>
    if c ≠ '\n' then .ok (none, st)
    else
      -- `pos += 1`, then `+= 1` per leading blank of the next line
      let pos' := st.pos + 1 + (rest.takeWhile isSpTab).length
      if silent then .ok (some (pos' - st.pos), st)
      else
        let tailSize := tailSpaces (trailingTextGet st.children)
        match trailingTextPop st.children tailSize with
        | .error e => .error e
        | .ok cs =>
          -- `state.pos - tail_size`
          if st.pos < tailSize then .error .underflow
          else
            match st.getMap (st.pos - tailSize) pos' with
            | .error e => .error e
            | .ok r =>
              let v := if tailSize ≥ 2 then Val.hardbreak else Val.softbreak
              .ok (some (pos' - st.pos), { st with children := cs ++ [Node.leaf v (some r)] })

/-! ## `EscapeScanner` (through `Entity.escapeCore`) -/

def infoEscape : List Char := "escape".toList
def infoEntity : List Char := "entity".toList

/-- `EscapeScanner::run` -/
def ruleEscape (st : IState) (silent : Bool) : SRes :=
  match st.window with
  | .error e => .error e
  | .ok w =>
    match Entity.escapeCore w with
    | .error e => .error (RPanic.ofEntity e)
    | .ok none => .ok (none, st)
    | .ok (some (.hardbreak len)) =>
      -- `\` + line feed + blanks: all single bytes
      if silent then .ok (some len, st)
      else
        match st.getMap st.pos (st.pos + 2) with
        | .error e => .error e
        | .ok r => .ok (some len, st.push (Node.leaf .hardbreak (some r)))
    | .ok (some (.special sp)) =>
      -- `end - start` with `end = state.pos + 1 + chr.len_utf8()`
      let len := byteLen sp.markup
      if silent then .ok (some len, st)
      else
        match st.getMap st.pos (st.pos + len) with
        | .error e => .error e
        | .ok r => .ok (some len, st.push (Node.leaf (.special sp.content sp.markup infoEscape) (some r)))

/-! ## `EntityScanner` (through `Entity.entityCore`) -/

/-- `EntityScanner::run`: the window decides the branch, the regexes see `src[pos..]` -/
def ruleEntity (cfg : Cfg) (st : IState) (silent : Bool) : SRes :=
  match st.window with
  | .error e => .error e
  | .ok w =>
    match w with
    | [] => .error .unwrap
    | c :: _ =>
      if c ≠ '&' then .ok (none, st)
      else
        match liftOps (slice st.src st.pos (byteLen st.src)) with
        | .error e => .error e
        | .ok suffix =>
          match Entity.entityCore cfg.entity w suffix with
          | .error e => .error (RPanic.ofEntity e)
          | .ok none => .ok (none, st)
          | .ok (some sp) =>
            -- `capture[0].len()`
            let len := byteLen sp.markup
            if silent then .ok (some len, st)
            else
              match st.getMap st.pos (st.pos + len) with
              | .error e => .error e
              | .ok r =>
                .ok (some len, st.push (Node.leaf (.special sp.content sp.markup infoEntity) (some r)))

/-! ## code spans (through `CodePair.run Variant.current`) -/

/-- ``CodePairScanner<'`', false>::run``: the rule of `MdIt.CodePair` on the cache kept in
    `inline_env`; in real mode the two `get_map` translations are applied to the inline offsets the
    code-span model records, and the node is pushed. -/
def ruleBackticks (st : IState) (silent : Bool) : SRes :=
  match CodePair.run CodePair.Variant.current '`' st.src st.pos st.posMax false silent st.backticks with
  | .error e => .error (RPanic.ofCode e)
  | .ok (none, c) => .ok (none, { st with backticks := c })
  | .ok (some o, c) =>
    match o.node with
    | none => .ok (some o.len, { st with backticks := c })
    | some nd =>
      match st.getMap nd.rangeStart nd.rangeEnd with
      | .error e => .error e
      | .ok r =>
        match st.getMap nd.innerStart nd.innerEnd with
        | .error e => .error e
        | .ok ri =>
          let node : Node :=
            { val := .codeInline '`' nd.markerLen, range := some r,
              children := [Node.newText nd.content (some ri)] }
          .ok (some o.len, { st with backticks := c, children := st.children ++ [node] })

/-! ## autolinks -/

/-- `[a-zA-Z0-9+.\-]` -/
def isSchemeChar (c : Char) : Bool := Entity.isAlnum c || c == '+' || c == '.' || c == '-'

/-- `[^<>\x00-\x20]` -/
def isAutolinkBody (c : Char) : Bool := !(c == '<' || c == '>' || c.toNat ≤ 0x20)

/-- `AUTOLINK_RE = ^([a-zA-Z][a-zA-Z0-9+.\-]{1,31}):([^<>\x00-\x20]*)$` (`is_match`).
    `:` is not in the scheme class, so the bounded repetition matches iff the MAXIMAL run of scheme
    characters behind the first letter has length 1..31 and is followed by `:` (no backtracking
    alternative exists); `$` is the end of the haystack. -/
def matchAutolinkRe : List Char → Bool
  | [] => false
  | c :: r =>
    Entity.isAlpha c &&
    (let run := (Entity.splitRun isSchemeChar r).1
     decide (1 ≤ run.length) && decide (run.length ≤ 31) &&
     match (Entity.splitRun isSchemeChar r).2 with
     | ':' :: tail => tail.all isAutolinkBody
     | _ => false)

/-- ``[a-zA-Z0-9.!#$%&'*+/=?^_`{|}~-]`` -/
def isEmailLocal (c : Char) : Bool :=
  Entity.isAlnum c ||
  ['.', '!', '#', '$', '%', '&', '\'', '*', '+', '/', '=', '?', '^', '_', '`', '{', '|', '}', '~', '-'].contains c

/-- `[a-zA-Z0-9-]` -/
def isLabelChar (c : Char) : Bool := Entity.isAlnum c || c == '-'

/-- `[a-zA-Z0-9](?:[a-zA-Z0-9-]{0,61}[a-zA-Z0-9])?` against a WHOLE dot-free piece: 1..63
    characters of the label class, the first and the last alphanumeric -/
def validLabel (l : List Char) : Bool :=
  decide (1 ≤ l.length) && decide (l.length ≤ 63) && l.all isLabelChar &&
  (match l.head? with | some c => Entity.isAlnum c | none => false) &&
  (match l.getLast? with | some c => Entity.isAlnum c | none => false)

/-- split at every `.` (`"a..b"` ↦ `["a", "", "b"]`, `""` ↦ `[""]`) -/
def splitDots : List Char → List (List Char)
  | [] => [[]]
  | c :: r =>
    if c = '.' then [] :: splitDots r
    else
      match splitDots r with
      | [] => [[c]]
      | p :: ps => (c :: p) :: ps

/-- `EMAIL_RE = ^(local+@label(\.label)*)$` (`is_match`): `@` is not in the local class and `.` not in
    the label class, so the local part is the maximal run of local characters, and the domain must
    split at its dots into valid labels. -/
def matchEmailRe (s : List Char) : Bool :=
  decide (1 ≤ (Entity.splitRun isEmailLocal s).1.length) &&
  match (Entity.splitRun isEmailLocal s).2 with
  | '@' :: dom => (splitDots dom).all validLabel
  | _ => false

/-- the scan `loop { match chars.next() { Some('<') | None => return None, Some('>') => break,
    Some(x) => pos += x.len_utf8() } }`: `none` = `return None`, `some pos` = position behind `>` -/
def autolinkScan : List Char → Nat → Option Nat
  | [], _ => none
  | c :: r, pos =>
    if c = '<' then none
    else if c = '>' then some pos
    else autolinkScan r (pos + c.utf8Size)

/-- `AutolinkScanner::run` -/
def ruleAutolink (st : IState) (silent : Bool) : SRes :=
  match st.window with
  | .error e => .error e
  | .ok [] => .error .unwrap
  | .ok (c :: rest) =>
    if c ≠ '<' then .ok (none, st)
    else
      match autolinkScan rest (st.pos + 2) with
      | none => .ok (none, st)
      | some pos =>
        -- `&state.src[state.pos+1..pos-1]`  (`pos ≥ state.pos + 2`)
        match liftOps (slice st.src (st.pos + 1) (pos - 1)) with
        | .error e => .error e
        | .ok url =>
          let isAutolink := matchAutolinkRe url
          let isEmail := matchEmailRe url
          if !isAutolink && !isEmail then .ok (none, st)
          else
            -- `normalize_link`, then `validate_link`
            match Link.autolinkDest isAutolink url with
            | none => .ok (none, st)
            | some fullUrl =>
              if silent then .ok (some (pos - st.pos), st)
              else
                -- `normalize_link_text` is the identity
                match st.getMap st.pos pos with
                | .error e => .error e
                | .ok r =>
                  match st.getMap (st.pos + 1) (pos - 1) with
                  | .error e => .error e
                  | .ok ri =>
                    let node : Node :=
                      { val := .autolink fullUrl, range := some r,
                        children := [Node.newText url (some ri)] }
                    .ok (some (pos - st.pos), st.push node)

/-! ## emphasis-like pairs -/

/-- `DelimiterRun` -/
structure DelimRun where
  marker : Char
  canOpen : Bool
  canClose : Bool
  length : Nat
  deriving Repr, DecidableEq

/-- `InlineState::scan_delims(start, can_split_word)` -/
def scanDelims (cfg : Cfg) (src : List Char) (posMax start : Nat) (canSplitWord : Bool) :
    Except RPanic DelimRun :=
  -- `self.src[..start].chars().next_back().unwrap()` / `' '`
  let lastCharE : Except RPanic Char :=
    if start > 0 then
      match liftOps (slice src 0 start) with
      | .error e => .error e
      | .ok pre =>
        match pre.getLast? with
        | none => .error .unwrap
        | some c => .ok c
    else .ok ' '
  match lastCharE with
  | .error e => .error e
  | .ok lastChar =>
    match liftOps (slice src start posMax) with
    | .error e => .error e
    | .ok [] => .error .unwrap
    | .ok (marker :: rest) =>
      let count := 1 + CodePair.runLen marker rest
      let nextChar : Char :=
        match rest.drop (CodePair.runLen marker rest) with
        | [] => ' '
        | x :: _ => x
      let isLastPunct := Entity.isAsciiPunct lastChar || cfg.isPunctChar lastChar
      let isNextPunct := Entity.isAsciiPunct nextChar || cfg.isPunctChar nextChar
      let isLastWhite := cfg.isWhite lastChar
      let isNextWhite := cfg.isWhite nextChar
      let leftFlanking :=
        if isNextWhite then false
        else if isNextPunct then (isLastWhite || isLastPunct)
        else true
      let rightFlanking :=
        if isLastWhite then false
        else if isLastPunct then (isNextWhite || isNextPunct)
        else true
      let canOpen := if !canSplitWord then leftFlanking && (!rightFlanking || isLastPunct) else leftFlanking
      let canClose := if !canSplitWord then rightFlanking && (!leftFlanking || isNextPunct) else rightFlanking
      .ok { marker := marker, canOpen := canOpen, canClose := canClose, length := count }

/-- the fields of an `EmphMarker` value -/
structure Marker where
  marker : Char
  length : Nat
  remaining : Nat
  open_ : Bool
  close : Bool
  deriving Repr, DecidableEq

def Marker.toVal (m : Marker) : Val := .emphMarker m.marker m.length m.remaining m.open_ m.close

/-- `node.cast::<EmphMarker>()` -/
def Node.asMarker (n : Node) : Option Marker :=
  match n.val with
  | .emphMarker m l r o c => some ⟨m, l, r, o, c⟩
  | _ => none

/-- `is_odd_match(opener, closer)` -/
def isOddMatch (opener closer : Marker) : Bool :=
  (opener.close || closer.open_) &&
  ((opener.length + closer.length) % 3 == 0) &&
  (opener.length % 3 != 0 || closer.length % 3 != 0)

/-- `for marker_len in (1..=max_marker_len).rev() { if let Some(f) = fns[marker_len-1] { .. break } }`
    (`max_marker_len ≤ 3`, so the index is within the array) -/
def pickLen (fns : Nat → Option Wrap) : Nat → Option (Nat × Wrap)
  | 0 => none
  | n + 1 =>
    match fns n with
    | some w => some (n + 1, w)
    | none => pickLen fns n

mutual
/-- `node.env.get::<EmphDepth>()` (0 when absent): nodes made by `scan_and_match_delimiters` store
    1 + the deepest value among the children they received, nothing else stores one, and the children
    of such a node never change afterwards — so the stored value is this function of the node -/
def wrapDepth : Node → Nat
  | ⟨v, _, cs⟩ =>
    match v with
    | .wrap _ _ => wrapDepthList cs + 1
    | _ => 0
/-- deepest `EmphDepth` among a list of siblings -/
def wrapDepthList : List Node → Nat
  | [] => 0
  | c :: cs => max (wrapDepth c) (wrapDepthList cs)
end

/-- state of the delimiter matching while one closer is processed -/
structure MatchSt where
  closer : Marker
  /-- `closer_token.srcmap` -/
  closerRange : Option (Nat × Nat)
  children : List Node
  newMin : Nat
  /-- `inner_depth`: deepest emphasis nesting among the nodes after `idx` -/
  innerDepth : Nat := 0

/-- the inner `while closer.remaining > 0 && opener.remaining > 0 { .. }` for the opener at `idx`;
    returns the opener value afterwards and the matching state.  `fuel` is `closer.remaining`
    (each iteration takes at least one marker off it). -/
def matchInner (fns : Nat → Option Wrap) (mk : Char) (room : Nat) (idx : Nat) :
    Nat → Marker → MatchSt → Except RPanic (Marker × MatchSt)
  | 0, opener, ms => .ok (opener, ms)
  | fuel + 1, opener, ms =>
    if ms.closer.remaining > 0 ∧ opener.remaining > 0 then
      -- `if state.level + inner_depth >= state.md.max_nesting { break; }` (`room` = `max_nesting - level`)
      if ms.innerDepth ≥ room then .ok (opener, ms) else
      let maxLen := min 3 (min opener.remaining ms.closer.remaining)
      match pickLen fns maxLen with
      | none => .ok (opener, ms)          -- `break`
      | some (ml, w) =>
        -- `closer.remaining -= marker_len; opener.remaining -= marker_len;` (`ml ≤ max_marker_len`)
        if ms.closer.remaining < ml ∨ opener.remaining < ml then .error .underflow
        else
          let closer' := { ms.closer with remaining := ms.closer.remaining - ml }
          let opener' := { opener with remaining := opener.remaining - ml }
          -- `new_token.children = state.node.children.split_off(idx + 1)`
          if ms.children.length < idx + 1 then .error .slice
          else
            let tail := ms.children.drop (idx + 1)
            let head := ms.children.take (idx + 1)
            -- cut `marker_len` chars from the start of the closer's range
            let (closerRange', endMapPos) :=
              match ms.closerRange with
              | some (s, e) => (some (s + ml, e), s + ml)
              | none => (none, 0)
            -- `state.node.children.last_mut().unwrap()`: cut `marker_len` chars from its end
            match popLast head with
            | none => .error .unwrap
            | some (init, otok) =>
              let cut : Except RPanic (Node × Nat) :=
                match otok.range with
                | some (s, e) =>
                  if e < ml then .error .underflow
                  else .ok ({ otok with range := some (s, e - ml) }, e - ml)
                | none => .ok (otok, 0)
              match cut with
              | .error e => .error e
              | .ok (otok', startMapPos) =>
                let newTok : Node :=
                  { val := .wrap w mk, range := some (startMapPos, endMapPos), children := tail }
                -- `if opener.remaining == 0 { state.node.children.pop(); }`, then `push(new_token)`
                let kept := if opener'.remaining = 0 then init else init ++ [otok']
                -- `inner_depth += 1; new_token.env.insert(EmphDepth(inner_depth));`
                matchInner fns mk room idx fuel opener'
                  { closer := closer', closerRange := closerRange', children := kept ++ [newTok],
                    newMin := 0, innerDepth := ms.innerDepth + 1 }
    else .ok (opener, ms)

/-- `state.node.children[idx].replace(opener)` -/
def replaceAt (cs : List Node) (idx : Nat) (m : Marker) : Except RPanic (List Node) :=
  match cs[idx]? with
  | none => .error .index
  | some n => .ok (cs.set idx { n with val := m.toVal })

/-- the outer `while idx > min_opener_idx { idx -= 1; .. }`; `k` is `idx - min_opener_idx` -/
def matchOuter (fns : Nat → Option Wrap) (mk : Char) (room : Nat) (minIdx : Nat) :
    Nat → MatchSt → Except RPanic MatchSt
  | 0, ms => .ok ms
  | k + 1, ms0 =>
    -- `idx -= 1`
    let idx := minIdx + k
    -- `state.node.children[idx + 1].env.get::<EmphDepth>()` → `inner_depth = max(inner_depth, ..)`
    match ms0.children[idx + 1]? with
    | none => .error .index
    | some nxt =>
    let ms := { ms0 with innerDepth := max ms0.innerDepth (wrapDepth nxt) }
    match ms.children[idx]? with
    | none => .error .index
    | some tok =>
      match tok.asMarker with
      | none => matchOuter fns mk room minIdx k ms
      | some opener =>
        let go : Except RPanic (Marker × MatchSt) :=
          if opener.open_ && opener.marker == ms.closer.marker && !isOddMatch opener ms.closer then
            matchInner fns mk room idx ms.closer.remaining opener ms
          else .ok (opener, ms)
        match go with
        | .error e => .error e
        | .ok (opener', ms') =>
          if opener'.remaining > 0 then
            match replaceAt ms'.children idx opener' with
            | .error e => .error e
            | .ok cs => matchOuter fns mk room minIdx k { ms' with children := cs }
          else matchOuter fns mk room minIdx k ms'

/-- `OpenersBottom::<MARKER>::default()` -/
def bottomsDefault : List Nat := [0, 0, 0, 0, 0, 0]

/-- `state.node.env.get_or_insert_default::<OpenersBottom<MARKER>>()` (read) -/
def bottomsGet (b : List (Char × List Nat)) (mk : Char) : List Nat :=
  match b.lookup mk with
  | some l => l
  | none => bottomsDefault

/-- `openers_for_marker.0[i] = v` -/
def bottomsSet (b : List (Char × List Nat)) (mk : Char) (i v : Nat) : List (Char × List Nat) :=
  (mk, (bottomsGet b mk).set i v) :: b.filter (fun e => e.1 != mk)

/-- `scan_and_match_delimiters::<MARKER>(state)` on `(children, bottoms)` -/
def scanAndMatch (fns : Nat → Option Wrap) (mk : Char) (room : Nat) (children : List Node)
    (bottoms : List (Char × List Nat)) : Except RPanic (List Node × List (Char × List Nat)) :=
  if children.length = 1 then .ok (children, bottoms)
  else
    match popLast children with
    | none => .error .unwrap
    | some (init, closerTok) =>
      match closerTok.asMarker with
      | none => .error .unwrap
      | some closer =>
        let param := (if closer.open_ then 1 else 0) * 3 + closer.length % 3
        match (bottomsGet bottoms mk)[param]? with
        | none => .error .index
        | some minIdx =>
          -- `let mut idx = state.node.children.len() - 1;`
          if init.length = 0 then .error .underflow
          else
            let idx := init.length - 1
            match matchOuter fns mk room minIdx (idx - minIdx)
                { closer := closer, closerRange := closerTok.range, children := init, newMin := idx } with
            | .error e => .error e
            | .ok ms =>
              let bottoms' :=
                if ms.newMin ≠ 0 then bottomsSet bottoms mk param ms.newMin else bottoms
              if ms.closer.remaining > 0 then
                .ok (ms.children ++ [{ closerTok with val := ms.closer.toVal, range := ms.closerRange }],
                     bottoms')
              else .ok (ms.children, bottoms')

/-- `EmphPairScanner<MARKER, CAN_SPLIT_WORD>::run` -/
def ruleEmph (cfg : Cfg) (mk : Char) (canSplitWord : Bool) (st : IState) (silent : Bool) : SRes :=
  if silent then .ok (none, st)
  else
    match st.window with
    | .error e => .error e
    | .ok [] => .error .unwrap
    | .ok (c :: _) =>
      if c ≠ mk then .ok (none, st)
      else
        match scanDelims cfg st.src st.posMax st.pos canSplitWord with
        | .error e => .error e
        | .ok scanned =>
          match st.getMap st.pos (st.pos + scanned.length) with
          | .error e => .error e
          | .ok r =>
            let node : Node :=
              Node.leaf (.emphMarker mk scanned.length scanned.length scanned.canOpen scanned.canClose)
                (some r)
            let st1 := st.push node
            if scanned.canClose then
              match scanAndMatch (cfg.fns mk) mk (cfg.maxNesting - st1.level) st1.children st1.bottoms with
              | .error e => .error e
              | .ok (cs, b) => .ok (some scanned.length, { st1 with children := cs, bottoms := b })
            else .ok (some scanned.length, st1)

/-! ## links and images (`full_link.rs`) -/

/-- `ParseLinkResult` -/
structure LinkRes where
  labelStart : Nat
  labelEnd : Nat
  href : Option (List Nat)
  title : Option (List Char)
  endPos : Nat
  deriving Repr, DecidableEq

/-- the `while let Some(ch) = state.src[state.pos..state.pos_max].chars().next()` loop of
    `parse_link_label`; `skip` is `state.md.inline.skip_token`, `level` the bracket depth.
    Result: `some none` = the early `return None` (position already restored by the caller below),
    otherwise `found` with the state whose `pos` is where the loop stopped. -/
def labelLoop (skip : IState → Except Panic IState) (enableNested : Bool) :
    Nat → Int → IState → Except Panic (Option Bool × IState)
  | 0, _, _ => .error .fuel
  | fuel + 1, level, st =>
    match liftR st.window with
    | .error e => .error e
    | .ok [] => .ok (some false, st)
    | .ok (ch :: _) =>
      if ch = ']' ∧ level - 1 = 0 then .ok (some true, st)
      else
        let level := if ch = ']' then level - 1 else level
        let prevPos := st.pos
        match skip st with
        | .error e => .error e
        | .ok st' =>
          if ch = '[' then
            -- `prev_pos == state.pos - 1`
            if st'.pos = 0 then .error (.rust .underflow)
            else if prevPos = st'.pos - 1 then labelLoop skip enableNested fuel (level + 1) st'
            else if !enableNested then .ok (none, st')
            else labelLoop skip enableNested fuel level st'
          else labelLoop skip enableNested fuel level st'

/-- `parse_link_label(state, start, enable_nested)`: the label end, `state.pos` restored -/
def parseLinkLabel (skip : IState → Except Panic IState) (fuel : Nat) (st : IState) (start : Nat)
    (enableNested : Bool) : Except Panic (Option Nat × IState) :=
  let oldPos := st.pos
  match labelLoop skip enableNested fuel 1 { st with pos := start + 1 } with
  | .error e => .error e
  | .ok (none, st') => .ok (none, { st' with pos := oldPos })
  | .ok (some found, st') =>
    .ok (if found then some st'.pos else none, { st' with pos := oldPos })

/-- the "Link reference" part of `parse_link` (behind the inline form) -/
def parseLinkRef (cfg : Cfg) (skip : IState → Except Panic IState) (fuel : Nat) (st : IState)
    (labelStart labelEnd : Nat) : Except Panic (Option LinkRes × IState) :=
  match liftR (liftOps (slice st.src (labelEnd + 1) st.posMax)) with
  | .error e => .error e
  | .ok w =>
    -- `maybe_label`, `pos`
    let second : Except Panic (Option (List Char) × Nat × IState) :=
      match w with
      | '[' :: _ =>
        match parseLinkLabel skip fuel st (labelEnd + 1) false with
        | .error e => .error e
        | .ok (some x, st') =>
          match liftR (liftOps (slice st.src (labelEnd + 1 + 1) x)) with
          | .error e => .error e
          | .ok l => .ok (some l, x + 1, st')
        | .ok (none, st') => .ok (none, labelEnd + 1, st')
      | _ => .ok (none, labelEnd + 1, st)
    match second with
    | .error e => .error e
    | .ok (maybeLabel, pos, st') =>
      match cfg.refs with
      | none => .ok (none, st')
      | some refs =>
        let labelE : Except Panic (List Char) :=
          match maybeLabel with
          | none => liftR (liftOps (slice st.src labelStart labelEnd))
          | some [] => liftR (liftOps (slice st.src labelStart labelEnd))
          | some l => .ok l
        match labelE with
        | .error e => .error e
        | .ok label =>
          match Refs.lookup cfg.normRef refs (label.map Char.toNat) with
          | none => .ok (none, st')
          | some r =>
            .ok (some { labelStart := labelStart, labelEnd := labelEnd, href := some r.dest,
                        title := r.title.map (fun t => t.map Char.ofNat), endPos := pos }, st')

/-- `parse_link(state, pos, enable_nested)`; the inline form `(<dest> "title")` is
    `Link.parseInlineTail` with `unescape_all` as the decoder -/
def parseLink (cfg : Cfg) (skip : IState → Except Panic IState) (fuel : Nat) (st : IState)
    (pos : Nat) (enableNested : Bool) : Except Panic (Option LinkRes × IState) :=
  match parseLinkLabel skip fuel st pos enableNested with
  | .error e => .error e
  | .ok (none, st1) => .ok (none, st1)
  | .ok (some labelEnd, st1) =>
    let labelStart := pos + 1
    match Link.parseInlineTail (Entity.unescapeAll cfg.entity) st1.src (labelEnd + 1) st1.posMax with
    | .error e => .error (.rust (RPanic.ofLink e))
    | .ok (some il) =>
      .ok (some { labelStart := labelStart, labelEnd := labelEnd, href := il.href, title := il.title,
                  endPos := il.endPos }, st1)
    | .ok none => parseLinkRef cfg skip fuel st1 labelStart labelEnd

/-- `rule(state, silent, enable_nested, offset, f)`; `mk href title` is the value `f` makes
    (`Link` / `Image` with `url = href.unwrap_or_default()`); `tok` is `state.md.inline.tokenize` -/
def linkRule (cfg : Cfg) (skip tok : IState → Except Panic IState) (fuel : Nat)
    (mk : List Nat → Option (List Char) → Val) (enableNested : Bool) (offset : Nat)
    (st : IState) (silent : Bool) : RuleRes :=
  let start := st.pos
  match parseLink cfg skip fuel st (st.pos + offset) enableNested with
  | .error e => .error e
  | .ok (none, st1) => .ok (none, st1)
  | .ok (some res, st1) =>
    if silent then
      -- `Some(result.end - state.pos)`
      if res.endPos < st1.pos then .error (.rust .underflow) else .ok (some (res.endPos - st1.pos), st1)
    else
      -- `mem::replace(&mut state.node, f(..))`: fresh children, fresh env
      let max := st1.posMax
      let st2 : IState :=
        { st1 with children := [], bottoms := [], linkLevel := st1.linkLevel + 1,
                   level := st1.level + 1, pos := res.labelStart, posMax := res.labelEnd }
      match tok st2 with
      | .error e => .error e
      | .ok st3 =>
        -- `state.level -= 1`
        if st3.level = 0 then .error (.rust .underflow)
        else
          match liftR (st3.getMap start res.endPos) with
          | .error e => .error e
          | .ok r =>
            let node : Node :=
              { val := mk (res.href.getD []) res.title, range := some r, children := st3.children }
            let st4 : IState :=
              { st3 with level := st3.level - 1, posMax := max, children := st1.children ++ [node],
                         bottoms := st1.bottoms, linkLevel := st3.linkLevel - 1 }
            if res.endPos < st4.pos then .error (.rust .underflow)
            else .ok (some (res.endPos - st4.pos), st4)

/-- `LinkScanner<false>::run` -/
def ruleLink (cfg : Cfg) (skip tok : IState → Except Panic IState) (fuel : Nat)
    (st : IState) (silent : Bool) : RuleRes :=
  match liftR st.window with
  | .error e => .error e
  | .ok [] => .error (.rust .unwrap)
  | .ok (c :: _) =>
    if c ≠ '[' then .ok (none, st)
    else linkRule cfg skip tok fuel Val.link false 0 st silent

/-- `LinkPrefixScanner<'!', true>::run` -/
def ruleImage (cfg : Cfg) (skip tok : IState → Except Panic IState) (fuel : Nat)
    (st : IState) (silent : Bool) : RuleRes :=
  match liftR st.window with
  | .error e => .error e
  | .ok ('!' :: '[' :: _) => linkRule cfg skip tok fuel Val.image true 1 st silent
  | .ok _ => .ok (none, st)

/-- one rule of the chain -/
def runRule (cfg : Cfg) (skip tok : IState → Except Panic IState) (fuel : Nat) (id : RuleId)
    (st : IState) (silent : Bool) : RuleRes :=
  match id with
  | .text => liftR (ruleText st silent)
  | .newline => liftR (ruleNewline st silent)
  | .escape => liftR (ruleEscape st silent)
  | .backticks => liftR (ruleBackticks st silent)
  | .emph mk csw => liftR (ruleEmph cfg mk csw st silent)
  | .link => ruleLink cfg skip tok fuel st silent
  | .image => ruleImage cfg skip tok fuel st silent
  | .linkEnd => .ok (none, st)
  | .autolink => liftR (ruleAutolink st silent)
  | .entity => liftR (ruleEntity cfg st silent)

/-- `for rule in self.ruler.iter() { ok = rule(..); if ok.is_some() { break; } }` -/
def firstRule (run : RuleId → IState → RuleRes) : List RuleId → IState → RuleRes
  | [], st => .ok (none, st)
  | r :: rs, st =>
    match run r st with
    | .error e => .error e
    | .ok (some n, st') => .ok (some n, st')
    | .ok (none, st') => firstRule run rs st'

/-- `state.level += 1; ok = rule(state, true); state.level -= 1;` -/
def silentBumped (run : IState → Bool → RuleRes) (st : IState) : RuleRes :=
  match run { st with level := st.level + 1 } true with
  | .error e => .error e
  | .ok (r, st') =>
    if st'.level = 0 then .error (.rust .underflow) else .ok (r, { st' with level := st'.level - 1 })

/-- `state.cache.insert(k, v)` -/
def cacheInsert (c : List (Nat × Nat)) (k v : Nat) : List (Nat × Nat) := (k, v) :: c

/-- the fall-back of both loops: `state.src[state.pos..state.pos_max].chars().next().unwrap()` -/
def firstChar (st : IState) : Except Panic Char :=
  match liftR st.window with
  | .error e => .error e
  | .ok [] => .error (.rust .unwrap)
  | .ok (c :: _) => .ok c

/-- ONE iteration of the `while state.pos < end` loop of `InlineParser::tokenize` (entered with
    `state.pos < end`): the chain in real mode below the nesting limit, `state.pos += len` on
    success, otherwise one character goes to the pending text.  `skip` / `tok` are
    `skip_token` / `tokenize` as the rules see them. -/
def tokStep (cfg : Cfg) (skip tok : IState → Except Panic IState) (fuel : Nat) (st : IState) :
    Except Panic IState :=
  let ok : RuleRes :=
    if st.level < cfg.maxNesting then
      firstRule (fun id s => runRule cfg skip tok fuel id s false) cfg.chain st
    else .ok (none, st)
  match ok with
  | .error e => .error e
  | .ok (some len, st') => .ok { st' with pos := st'.pos + len }
  | .ok (none, st') =>
    match firstChar st' with
    | .error e => .error e
    | .ok ch =>
      match liftR (st'.pushText st'.pos (st'.pos + ch.utf8Size)) with
      | .error e => .error e
      | .ok st'' => .ok { st'' with pos := st''.pos + ch.utf8Size }

/-- the body of `skip_token` behind the memo lookup and the level guard: the chain in silent mode
    (each rule between `level += 1` / `level -= 1`), `state.pos += len` or one character, then
    `state.cache.insert(pos, state.pos)` -/
def skipStep (cfg : Cfg) (skip tok : IState → Except Panic IState) (fuel : Nat) (st : IState) :
    Except Panic IState :=
  let pos := st.pos
  match firstRule (fun id s => silentBumped (runRule cfg skip tok fuel id) s) cfg.chain st with
  | .error e => .error e
  | .ok (some len, st') =>
    .ok { st' with pos := st'.pos + len, cache := cacheInsert st'.cache pos (st'.pos + len) }
  | .ok (none, st') =>
    match firstChar st' with
    | .error e => .error e
    | .ok ch =>
      .ok { st' with pos := st'.pos + ch.utf8Size,
                     cache := cacheInsert st'.cache pos (st'.pos + ch.utf8Size) }

mutual
/-- `InlineParser::tokenize`: the `while state.pos < end` loop (`end_` = `pos_max` at entry).
    (`if state.pos >= end { break; }` behind a successful rule is the loop test taken early.) -/
def tokLoop (cfg : Cfg) : Nat → Nat → IState → Except Panic IState
  | fuel, end_, st =>
    if st.pos < end_ then
      match fuel with
      | 0 => .error .fuel
      | fuel + 1 =>
        match tokStep cfg (fun s => skipToken cfg fuel s) (fun s => tokLoop cfg fuel s.posMax s) fuel st with
        | .error e => .error e
        | .ok st' => tokLoop cfg fuel end_ st'
    else .ok st
/-- `InlineParser::skip_token` -/
def skipToken (cfg : Cfg) : Nat → IState → Except Panic IState
  | 0, _ => .error .fuel
  | fuel + 1, st =>
    match st.cache.lookup st.pos with
    | some x => .ok { st with pos := x }
    | none =>
      if st.level < cfg.maxNesting then
        skipStep cfg (fun s => skipToken cfg fuel s) (fun s => tokLoop cfg fuel s.posMax s) fuel st
      else
        -- Too much nesting, just skip until the end of the paragraph.
        .ok { st with pos := st.posMax, cache := cacheInsert st.cache st.pos st.posMax }
end

/-- `InlineParser::tokenize(state)` -/
def tokenize (cfg : Cfg) (fuel : Nat) (st : IState) : Except Panic IState :=
  tokLoop cfg fuel st.posMax st

/-- the rule runner both loops use at a given fuel -/
def ruleAt (cfg : Cfg) (fuel : Nat) (id : RuleId) (st : IState) (silent : Bool) : RuleRes :=
  runRule cfg (fun s => skipToken cfg fuel s) (fun s => tokLoop cfg fuel s.posMax s) fuel id st silent

/-! ## the post pass: `fragments_join` / `FragmentsJoin::run` on the rich node type
    (same code as `MdIt.Join`, structural version of pass 2; `Props/Inline.lean`:
    `erase_fragmentsJoinN`, `erase_joinAllN`) -/

/-- pass 1 on one token: `token.replace(Text { content: marker.repeat(remaining) })` -/
def markerToText (n : Node) : Node :=
  match n.val with
  | .emphMarker m _ rem _ _ => { n with val := .text (Join.markerText m rem) }
  | _ => n

def pass1 (cs : List Node) : List Node := cs.map markerToText

/-- `token2` with its content taken -/
def emptied (t2 : Node) : Node := { t2 with val := .text [] }

/-- `token1` with the content appended and the srcmap adjusted -/
def merged (t1 t2 : Node) : Node :=
  { t1 with
    val := .text (t1.content ++ t2.content)
    range :=
      match t1.range, t2.range with
      | some (a, _), some (_, d) => some (a, d)
      | r, _ => r }

/-- pass 2 (see `Join.mergeLoop`) -/
def mergeLoop (cur : Node) : List Node → List Node
  | [] => [cur]
  | nxt :: rest =>
    if cur.isText && nxt.isText then emptied nxt :: mergeLoop (merged cur nxt) rest
    else cur :: mergeLoop nxt rest

def mergeAll : List Node → List Node
  | [] => []
  | c :: rest => mergeLoop c rest

/-- the `retain` predicate -/
def keep (n : Node) : Bool := !(n.isText && n.content.isEmpty)

/-- `fragments_join` on the child vector -/
def fragmentsJoinN (cs : List Node) : List Node := (mergeAll (pass1 cs)).filter keep

mutual
def nsize : Node → Nat
  | ⟨_, _, cs⟩ => 1 + nsizeList cs
def nsizeList : List Node → Nat
  | [] => 0
  | c :: cs => nsize c + nsizeList cs
end

theorem nsize_eq (n : Node) : nsize n = 1 + nsizeList n.children := by
  cases n; simp [nsize]

theorem nsizeList_pass1 (cs : List Node) : nsizeList (pass1 cs) = nsizeList cs := by
  induction cs with
  | nil => simp [pass1, nsizeList]
  | cons c cs ih =>
    have : nsize (markerToText c) = nsize c := by
      rw [nsize_eq, nsize_eq]; unfold markerToText; split <;> rfl
    simp only [pass1, List.map_cons, nsizeList] at ih ⊢
    rw [this, ih]

theorem nsizeList_mergeLoop (cur : Node) (rest : List Node) :
    nsizeList (mergeLoop cur rest) = nsize cur + nsizeList rest := by
  induction rest generalizing cur with
  | nil => simp [mergeLoop, nsizeList]
  | cons nxt rest ih =>
    have e1 : nsize (emptied nxt) = nsize nxt := by rw [nsize_eq, nsize_eq]; rfl
    have e2 : nsize (merged cur nxt) = nsize cur := by rw [nsize_eq, nsize_eq]; rfl
    simp only [mergeLoop]
    split
    · simp only [nsizeList, ih, e1, e2]; omega
    · simp only [nsizeList, ih]

theorem nsizeList_filter_le (p : Node → Bool) (l : List Node) :
    nsizeList (l.filter p) ≤ nsizeList l := by
  induction l with
  | nil => simp [nsizeList]
  | cons c l ih =>
    simp only [List.filter_cons]
    split <;> simp only [nsizeList] <;> omega

theorem nsizeList_fragmentsJoinN_le (cs : List Node) : nsizeList (fragmentsJoinN cs) ≤ nsizeList cs := by
  unfold fragmentsJoinN
  refine Nat.le_trans (nsizeList_filter_le _ _) ?_
  rw [← nsizeList_pass1 cs]
  cases pass1 cs with
  | nil => simp [mergeAll]
  | cons c r => simp [mergeAll, nsizeList_mergeLoop, nsizeList]

mutual
/-- `walk_mut(fragments_join)`: the callback first, then the children it left -/
def joinNodeN (n : Node) : Node :=
  { n with children := joinListN (fragmentsJoinN n.children) }
termination_by 2 * nsize n
decreasing_by
  have := nsizeList_fragmentsJoinN_le n.children
  rw [nsize_eq]; omega
def joinListN : List Node → List Node
  | [] => []
  | c :: cs => joinNodeN c :: joinListN cs
termination_by l => 2 * nsizeList l + 1
decreasing_by
  · simp only [nsizeList]; omega
  · have := nsize_eq c
    simp only [nsizeList]; omega
end

/-- `FragmentsJoin::run(node, md)` -/
def joinAllN (root : Node) : Node := joinNodeN root

/-! ## `InlineParser::parse` and the post pass -/

/-- is an `emph_pair` rule configured (then `FragmentsJoin` is in the core chain) -/
def RuleId.isEmph : RuleId → Bool
  | .emph _ _ => true
  | _ => false

def Cfg.hasEmph (cfg : Cfg) : Bool := cfg.chain.any RuleId.isEmph

/-- fuel handed to the top-level `tokenize` (`Props/Inline.lean`: `fuel_suffices`) -/
def topFuel (cfg : Cfg) (src : List Char) : Nat := (byteLen src + 2) * (cfg.maxNesting + 2)

/-- `md.inline.parse(content, mapping, Node::default(), md, env).children` -/
def parseInline (cfg : Cfg) (content : List Char) (mapping : Srcmap) : Except Panic (List Node) :=
  match tokenize cfg (topFuel cfg content) (IState.init content mapping) with
  | .error e => .error e
  | .ok st => .ok st.children

/-- the root the children hang under while `FragmentsJoin::run` walks (`Node::default()`; any
    non-text value does) -/
def rootOf (children : List Node) : Node := { val := .softbreak, range := none, children := children }

/-- the core chain behind the inline parser: `FragmentsJoin` when an emphasis-like rule is there -/
def finish (cfg : Cfg) (children : List Node) : List Node :=
  if cfg.hasEmph then (joinAllN (rootOf children)).children else children

/-- inline parse + post pass -/
def parseFinish (cfg : Cfg) (content : List Char) (mapping : Srcmap) : Except Panic (List Node) :=
  match parseInline cfg content mapping with
  | .error e => .error e
  | .ok cs => .ok (finish cfg cs)

end MdIt.Inline
