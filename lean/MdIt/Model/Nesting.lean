/-
  C02 — the RECURSION SKELETON of the parser (`max_nesting`).

  What is parsed is abstracted away completely; the model keeps only WHICH nested calls a run may
  make and at which `level` each of them is entered.  A run is a finite call tree; the guards of the
  code decide which call trees are admissible:

    src/parser/block/mod.rs   `BlockParser::tokenize`  : `if state.level >= max_nesting { state.line = line_max; break }`
                                                         — at `level ≥ N` NO rule fires, the rest is skipped
    src/parser/inline/mod.rs  `InlineParser::tokenize` : rules are tried only `if state.level < max_nesting`,
                                                         otherwise every character becomes text
    src/parser/inline/mod.rs  `InlineParser::skip_token`: `if state.level < max_nesting { for rule { level += 1; rule(state, true); level -= 1 } }`
                                                         `else { state.pos = state.pos_max; return }`

  and the five call sites that raise `level` around a nested call (the table `Sites`, so that a site
  with increment 0 — the code before the repair — is expressible):

    quote      blockquote.rs  `state.level += 1; state.md.block.tokenize(state); state.level -= 1;`
    listOuter  list.rs        `state.level += 1;` for the whole list …
    listItem   list.rs        … and per item `state.level += 1; state.md.block.tokenize(state); state.level -= 1;`
    linkLabel  full_link.rs   `rule`, real mode: `state.level += 1; … state.md.inline.tokenize(state); state.level -= 1;`
    skipRule   inline/mod.rs  `skip_token`: `state.level += 1; rule(state, true); state.level -= 1;`
                              (the look-ahead recursion link-rule(silent) → `parse_link_label` → `skip_token`
                               → link-rule(silent) → …)

  Not recursion sites: `emph_pair::scan_and_match_delimiters` (a loop; but every match re-parents the
  siblings after the opener under a new wrapper node: tree depth +1 per match, NO counter — the known
  finding), `code_pair` with `TOKENIZE = false` (back-ticks), every other rule.
  Paragraph / heading / lheading only leave an `InlineRoot` placeholder; it is parsed AFTER the block
  pass by the core rule `InlineParserRule` with a FRESH `InlineState` (`level = 0`), from inside a
  structural `walk_recursive` over the block tree.  So tokenizer frames of the two passes never
  nest, but the produced trees do, and the inline pass runs on top of `walk_recursive` frames.

  (If the user removes the paragraph rule, `tokenize` pushes a bare `InlineRoot`; that is `para`
  minus the paragraph node, so every bound for `para` covers it.)

  OUT OF SCOPE (not reachable in the cmark/extra/html plugin set, reported as a latent finding):
  `generics::inline::code_pair::add_with::<MARKER, true>` (`TOKENIZE = true`) calls
  `state.md.inline.tokenize(state)` on the span content WITHOUT raising `level` — a sixth recursive
  site with increment 0.  Spans nest only with strictly growing marker lengths, so depth k needs an
  input of about k² bytes: `'%'×1 ' ' '%'×2 ' ' … 'x' … ' ' '%'×2 ' ' '%'×1` gives k + 1 tokenizer
  frames and tree depth k + 3 at `max_nesting = 3` (measured for k = 200).
-/
namespace MdIt.Nesting

/-- level increment applied at each of the five recursive call sites -/
structure Sites where
  quote : Nat
  listOuter : Nat
  listItem : Nat
  linkLabel : Nat
  skipRule : Nat
  deriving DecidableEq, Repr

/-- the code on disk: every site is `level += 1` -/
def currentSites : Sites := ⟨1, 1, 1, 1, 1⟩

/-- every nested tokenizer / skip call is entered at a strictly larger level.  (`listOuter` and
`listItem` are applied on the same path, only their sum matters.) -/
def Sites.raising (s : Sites) : Bool :=
  decide (0 < s.quote) && decide (0 < s.listOuter + s.listItem) && decide (0 < s.linkLabel) &&
    decide (0 < s.skipRule)

/-- the table as a plain list `[quote, listOuter, listItem, linkLabel, skipRule]`, for comparison
with the generated constant (`Gen.Consts.levelSites = currentSites.toList := by decide`) -/
def Sites.toList (s : Sites) : List Nat :=
  [s.quote, s.listOuter, s.listItem, s.linkLabel, s.skipRule]

/-- inverse of `toList` -/
def Sites.ofList : List Nat → Option Sites
  | [a, b, c, d, e] => some ⟨a, b, c, d, e⟩
  | _ => none

/-! ## Call trees -/

/-- one `skip_token` frame; `nested` = the `skip_token` frames opened (through silent link/image
rule calls → `parse_link_label`) while it was active -/
inductive Skip where
  | tok (nested : List Skip)
  deriving Repr

/-- what one iteration of `InlineParser::tokenize` does -/
inductive Inl where
  /-- a character pushed as text, or a rule without nested call (code span, autolink, entity, …) -/
  | text
  /-- link / image rule, real mode: `parse_link` look-ahead (a chain of `skip_token` calls at the
  tokenizer's own level), then the label is tokenized into the new node -/
  | link (lookahead : List Skip) (label : List Inl)
  /-- an emphasis match: the nodes produced by `wrapped` (earlier iterations of the SAME frame) are
  re-parented under a new wrapper node; no call -/
  | emph (wrapped : List Inl)
  /-- link / image rule whose look-ahead failed: the skip chain ran, a text node results -/
  | failed (lookahead : List Skip)
  deriving Repr

/-- what one iteration of `BlockParser::tokenize` does -/
inductive Blk where
  /-- hr, code, fence, html block, reference: one node, no nested call -/
  | leaf
  /-- paragraph / heading: a node holding an `InlineRoot`; `content` = the iterations of the fresh
  inline tokenizer (level 0) that later replaces it -/
  | para (content : List Inl)
  /-- block quote: one nested block tokenizer -/
  | quote (body : List Blk)
  /-- list: `items` must all be `item`s -/
  | list (items : List Blk)
  /-- list item (only inside `list`): one nested block tokenizer -/
  | item (body : List Blk)
  deriving Repr

/-- a whole run: the iterations of the root block tokenizer (`level = 0`) -/
abbrev Doc := List Blk

/-! ## Admissibility: the guards -/

mutual
/-- a `skip_token` frame entered at `level` -/
def Skip.ok (s : Sites) (N : Nat) : Nat → Skip → Bool
  | L, .tok nested => (nested.isEmpty || decide (L < N)) && Skip.chainOk s N (L + s.skipRule) nested
/-- a sequence of `skip_token` calls all entered at `level` (one `parse_link_label` loop) -/
def Skip.chainOk (s : Sites) (N : Nat) : Nat → List Skip → Bool
  | _, [] => true
  | L, t :: ts => Skip.ok s N L t && Skip.chainOk s N L ts
end

mutual
/-- an iteration of an inline tokenizer frame running at `level` -/
def Inl.ok (s : Sites) (N : Nat) : Nat → Inl → Bool
  | _, .text => true
  | L, .link la label =>
      decide (L < N) && Skip.chainOk s N L la && Inl.okL s N (L + s.linkLabel) label
  | L, .emph w => decide (L < N) && Inl.okL s N L w
  | L, .failed la => decide (L < N) && Skip.chainOk s N L la
/-- all iterations of an inline tokenizer frame running at `level` -/
def Inl.okL (s : Sites) (N : Nat) : Nat → List Inl → Bool
  | _, [] => true
  | L, f :: fs => Inl.ok s N L f && Inl.okL s N L fs
end

mutual
/-- an iteration of a block tokenizer frame running at `level` -/
def Blk.ok (s : Sites) (N : Nat) : Nat → Blk → Bool
  | L, .leaf => decide (L < N)
  | L, .para c => decide (L < N) && Inl.okL s N 0 c
  | L, .quote body => decide (L < N) && Blk.okL s N (L + s.quote) body
  | L, .list items => decide (L < N) && Blk.itemsOk s N (L + s.listOuter) items
  | _, .item _ => false
/-- all iterations of a block tokenizer frame running at `level` -/
def Blk.okL (s : Sites) (N : Nat) : Nat → List Blk → Bool
  | _, [] => true
  | L, f :: fs => Blk.ok s N L f && Blk.okL s N L fs
/-- the items of a list whose rule runs at `level` -/
def Blk.itemsOk (s : Sites) (N : Nat) : Nat → List Blk → Bool
  | _, [] => true
  | L, .item body :: r => Blk.okL s N (L + s.listItem) body && Blk.itemsOk s N L r
  | _, _ :: _ => false
end

/-- admissible run: root block tokenizer at level 0 -/
def Doc.ok (s : Sites) (N : Nat) (d : Doc) : Bool := Blk.okL s N 0 d

/-! ## Measure 1: simultaneously active frames -/

mutual
/-- `skip_token` frames active at once, this one included -/
def Skip.frames : Skip → Nat
  | .tok nested => 1 + Skip.framesL nested
def Skip.framesL : List Skip → Nat
  | [] => 0
  | t :: ts => max (Skip.frames t) (Skip.framesL ts)
end

mutual
/-- frames (inline `tokenize` + `skip_token`) active at once BELOW the tokenizer frame that runs
this iteration -/
def Inl.nested : Inl → Nat
  | .text => 0
  | .link la label => max (Skip.framesL la) (1 + Inl.nestedL label)
  | .emph w => Inl.nestedL w
  | .failed la => Skip.framesL la
def Inl.nestedL : List Inl → Nat
  | [] => 0
  | f :: fs => max (Inl.nested f) (Inl.nestedL fs)
end

/-- frames of one `InlineParser::parse` call: the tokenizer frame and everything below it -/
def Inl.frames (content : List Inl) : Nat := 1 + Inl.nestedL content

mutual
/-- block `tokenize` frames active at once BELOW the frame that runs this iteration -/
def Blk.nested : Blk → Nat
  | .leaf => 0
  | .para _ => 0
  | .quote body => 1 + Blk.nestedL body
  | .list items => Blk.nestedL items
  | .item body => 1 + Blk.nestedL body
def Blk.nestedL : List Blk → Nat
  | [] => 0
  | f :: fs => max (Blk.nested f) (Blk.nestedL fs)
end

mutual
/-- generic height of the block part of a run: `w` per block node, `X content` for the inline
content of a paragraph/heading.  Three instances are used, see below. -/
def Blk.height (w : Nat) (X : List Inl → Nat) : Blk → Nat
  | .leaf => w
  | .para c => w + X c
  | .quote body => w + Blk.heightL w X body
  | .list items => w + Blk.heightL w X items
  | .item body => w + Blk.heightL w X body
def Blk.heightL (w : Nat) (X : List Inl → Nat) : List Blk → Nat
  | [] => 0
  | f :: fs => max (Blk.height w X f) (Blk.heightL w X fs)
end

/-- the largest `Inl.frames` of any inline content below these iterations (the inline pass parses
them one after the other, each with a fresh state): block nodes weigh 0 -/
def Blk.inlFramesL (fs : List Blk) : Nat := Blk.heightL 0 Inl.frames fs

/-- stack of the inline pass below the `walk_recursive` frame of the container that holds these
nodes: `InlineParserRule::walk_recursive` recurses into every node that is not an `InlineRoot`
(one frame per tree level: block nodes weigh 1) and calls `inline.parse` for an `InlineRoot` child -/
def Blk.passStackL (fs : List Blk) : Nat := Blk.heightL 1 Inl.frames fs

/-- block pass: the root `tokenize` frame and everything below -/
def Doc.blockFrames (d : Doc) : Nat := 1 + Blk.nestedL d
/-- inline pass, tokenizer and skip frames only (what the recursion-gauge hook counts) -/
def Doc.inlineFrames (d : Doc) : Nat := Blk.inlFramesL d
/-- the hook's gauge: maximum number of simultaneously active `tokenize` / `skip_token` frames -/
def Doc.frames (d : Doc) : Nat := max (Doc.blockFrames d) (Doc.inlineFrames d)
/-- inline pass including the `walk_recursive` frames it runs on (root frame included) -/
def Doc.passStack (d : Doc) : Nat := 1 + Blk.passStackL d
/-- recursion needed to parse: the deeper of the two passes -/
def Doc.parseStack (d : Doc) : Nat := max (Doc.blockFrames d) (Doc.passStack d)

/-! ## Measure 2: depth of the produced node tree

`e = true`: every node counts (`treeDepth`); `e = false`: emphasis wrappers are transparent
(`treeDepthNoEmph`).  A node without children has depth 1, a forest `[]` depth 0. -/

mutual
def Inl.depth (e : Bool) : Inl → Nat
  | .text => 1
  | .link _ label => 1 + Inl.depthL e label
  | .emph w => (if e then 1 else 0) + Inl.depthL e w
  | .failed _ => 1
def Inl.depthL (e : Bool) : List Inl → Nat
  | [] => 0
  | f :: fs => max (Inl.depth e f) (Inl.depthL e fs)
end

/-- depth of the forest produced by these block iterations: every block node weighs 1, a
paragraph/heading carries the forest of its inline content -/
def Blk.depthL (e : Bool) (fs : List Blk) : Nat := Blk.heightL 1 (Inl.depthL e) fs

/-- depth of the tree returned by `parse` (root node included) -/
def Doc.treeDepth (d : Doc) : Nat := 1 + Blk.depthL true d
/-- the same, not counting emphasis wrappers -/
def Doc.treeDepthNoEmph (d : Doc) : Nat := 1 + Blk.depthL false d

mutual
/-- largest number of emphasis wrappers on a root-to-leaf path of the produced forest -/
def Inl.emphDepth : Inl → Nat
  | .text => 0
  | .link _ label => Inl.emphDepthL label
  | .emph w => 1 + Inl.emphDepthL w
  | .failed _ => 0
def Inl.emphDepthL : List Inl → Nat
  | [] => 0
  | f :: fs => max (Inl.emphDepth f) (Inl.emphDepthL fs)
end

/-- largest number of emphasis wrappers on a root-to-leaf path of the tree returned by `parse` -/
def Doc.emphDepth (d : Doc) : Nat := Blk.heightL 0 Inl.emphDepthL d

/-! ## The produced tree itself, and structural traversals of it -/

/-- a node tree, labels forgotten -/
inductive Rose where
  | node (children : List Rose)
  deriving Repr

mutual
def Rose.depth : Rose → Nat
  | .node cs => 1 + Rose.depthL cs
def Rose.depthL : List Rose → Nat
  | [] => 0
  | c :: cs => max (Rose.depth c) (Rose.depthL cs)
end

mutual
/-- nodes an inline iteration leaves in the current parent -/
def Inl.tree : Inl → Rose
  | .text => .node []
  | .link _ label => .node (Inl.treeL label)
  | .emph w => .node (Inl.treeL w)
  | .failed _ => .node []
def Inl.treeL : List Inl → List Rose
  | [] => []
  | f :: fs => Inl.tree f :: Inl.treeL fs
end

mutual
def Blk.tree : Blk → Rose
  | .leaf => .node []
  | .para c => .node (Inl.treeL c)
  | .quote body => .node (Blk.treeL body)
  | .list items => .node (Blk.treeL items)
  | .item body => .node (Blk.treeL body)
def Blk.treeL : List Blk → List Rose
  | [] => []
  | f :: fs => Blk.tree f :: Blk.treeL fs
end

/-- the tree returned by `parse` -/
def Doc.tree (d : Doc) : Rose := .node (Blk.treeL d)

mutual
/-- call (`true`) / return (`false`) events of `Node::walk`'s `walk_recursive`: one call per node,
the children's calls strictly inside it.  `Node::render` (`render` → `NodeValue::render` →
`Renderer::contents` → `render` …) and the drop glue (`Node` → `Vec<Node>` → `Node` …) have the same
shape with a constant number of frames per level. -/
def Rose.walk : Rose → List Bool
  | .node cs => true :: (Rose.walkL cs ++ [false])
def Rose.walkL : List Rose → List Bool
  | [] => []
  | c :: cs => Rose.walk c ++ Rose.walkL cs
end

/-- maximum number of simultaneously open calls of a call/return sequence, starting with `cur` open
calls and `mx` the maximum so far (a return with nothing open is ignored) -/
def callDepthFrom : List Bool → Nat → Nat → Nat
  | [], _, mx => mx
  | true :: r, cur, mx => callDepthFrom r (cur + 1) (max mx (cur + 1))
  | false :: r, cur, mx => callDepthFrom r (cur - 1) mx

/-- recursion depth of a call/return sequence -/
def callDepth (evs : List Bool) : Nat := callDepthFrom evs 0 0

/-! ## Frame traces (what the recursion-gauge hook records) -/

inductive Kind where
  | block | inline | skip
  deriving DecidableEq, Repr

inductive Event where
  | enter (k : Kind) (level : Nat)
  | exit
  deriving DecidableEq, Repr

inductive TraceErr where
  /-- `exit` with no open frame, or frames left open at the end -/
  | unbalanced
  /-- outermost frame is not a block/inline tokenizer at level 0 -/
  | root
  /-- a frame entered at `level ≥ N` made a nested call -/
  | guard
  /-- nesting of kinds the code cannot produce (block under inline, tokenizer under skip, …) -/
  | kind
  /-- nested frame entered at a level other than parent level + the site's increment -/
  | level
  deriving DecidableEq, Repr

/-- may a frame `(k, L)` be entered while `stack` (innermost first) is active? -/
def enterCheck (s : Sites) (N : Nat) (stack : List (Kind × Nat)) (k : Kind) (L : Nat) :
    Except TraceErr Unit :=
  match stack with
  | [] => if L = 0 ∧ k ≠ .skip then .ok () else .error .root
  | (pk, pL) :: _ =>
    if N ≤ pL then .error .guard else
    match pk, k with
    | .block, .block =>
      if L = pL + s.quote ∨ L = pL + s.listOuter + s.listItem then .ok () else .error .level
    | .inline, .inline => if L = pL + s.linkLabel then .ok () else .error .level
    | .inline, .skip => if L = pL then .ok () else .error .level
    | .skip, .skip => if L = pL + s.skipRule then .ok () else .error .level
    | _, _ => .error .kind

/-- replay a trace; result: (maximum number of simultaneously active frames, number of frames
still open at the end) -/
def runTrace (s : Sites) (N : Nat) :
    List Event → List (Kind × Nat) → Nat → Except TraceErr (Nat × Nat)
  | [], st, mx => .ok (mx, st.length)
  | .exit :: _, [], _ => .error .unbalanced
  | .exit :: r, _ :: st, mx => runTrace s N r st mx
  | .enter k L :: r, st, mx =>
    match enterCheck s N st k L with
    | .error e => .error e
    | .ok _ => runTrace s N r ((k, L) :: st) (max mx (st.length + 1))

/-- a complete trace: every frame is closed at the end -/
def checkTrace (s : Sites) (N : Nat) (evs : List Event) : Except TraceErr Nat :=
  match runTrace s N evs [] 0 with
  | .ok (m, 0) => .ok m
  | .ok (_, _ + 1) => .error .unbalanced
  | .error e => .error e

/-- a possibly truncated trace (the hook stops recording at a size limit): frames may be left
open at the end -/
def checkTracePrefix (s : Sites) (N : Nat) (evs : List Event) : Except TraceErr Nat :=
  match runTrace s N evs [] 0 with
  | .ok (m, _) => .ok m
  | .error e => .error e

/-! ### the trace of a model run -/

mutual
def Skip.trace (s : Sites) : Nat → Skip → List Event
  | L, .tok nested => .enter .skip L :: (Skip.traceL s (L + s.skipRule) nested ++ [.exit])
def Skip.traceL (s : Sites) : Nat → List Skip → List Event
  | _, [] => []
  | L, t :: ts => Skip.trace s L t ++ Skip.traceL s L ts
end

mutual
def Inl.trace (s : Sites) : Nat → Inl → List Event
  | _, .text => []
  | L, .link la label =>
      Skip.traceL s L la ++
        (.enter .inline (L + s.linkLabel) :: (Inl.traceL s (L + s.linkLabel) label ++ [.exit]))
  | L, .emph w => Inl.traceL s L w
  | L, .failed la => Skip.traceL s L la
def Inl.traceL (s : Sites) : Nat → List Inl → List Event
  | _, [] => []
  | L, f :: fs => Inl.trace s L f ++ Inl.traceL s L fs
end

mutual
/-- block pass -/
def Blk.trace (s : Sites) : Nat → Blk → List Event
  | _, .leaf => []
  | _, .para _ => []
  | L, .quote body => .enter .block (L + s.quote) :: (Blk.traceL s (L + s.quote) body ++ [.exit])
  | L, .list items => Blk.traceL s (L + s.listOuter) items
  | L, .item body =>
      .enter .block (L + s.listItem) :: (Blk.traceL s (L + s.listItem) body ++ [.exit])
def Blk.traceL (s : Sites) : Nat → List Blk → List Event
  | _, [] => []
  | L, f :: fs => Blk.trace s L f ++ Blk.traceL s L fs
end

mutual
/-- inline pass: every `InlineRoot` in document order, each a fresh level-0 tokenizer -/
def Blk.inlTrace (s : Sites) : Blk → List Event
  | .leaf => []
  | .para c => .enter .inline 0 :: (Inl.traceL s 0 c ++ [.exit])
  | .quote body => Blk.inlTraceL s body
  | .list items => Blk.inlTraceL s items
  | .item body => Blk.inlTraceL s body
def Blk.inlTraceL (s : Sites) : List Blk → List Event
  | [] => []
  | f :: fs => Blk.inlTrace s f ++ Blk.inlTraceL s fs
end

/-- the hook's trace of a whole run: block pass, then inline pass -/
def Doc.trace (s : Sites) (d : Doc) : List Event :=
  (.enter .block 0 :: (Blk.traceL s 0 d ++ [.exit])) ++ Blk.inlTraceL s d

end MdIt.Nesting
