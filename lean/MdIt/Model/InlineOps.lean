/-
  Model of the inline-side source-range mechanisms:

    * `src/parser/inline/state.rs`: `get_source_pos_for`, `get_map`, `trailing_text_push`,
      `trailing_text_pop`, `trailing_text_get`;
    * `src/parser/inline/builtin/inline_parser.rs`: the splice loop of `InlineParserRule`
      (`walk_recursive`).

  Text is `List Char`; every offset is a BYTE offset into the UTF-8 encoding (`Char.utf8Size`).
  `usize` is an unbounded `Nat` (additions never wrap for texts shorter than the address space);
  every Rust operation that can panic is a partial operation:
    * `Err(x) => x - 1` with `x = 0`, `pos - self.srcmap[line].0`, `map_end - count`,
      `text.content.len() - count`                          → `Panic.underflow`
    * `self.srcmap[line]` out of range                      → `Panic.index`
    * `&self.src[start..end]` (start > end, end > len, not on a char boundary),
      `String::truncate` not on a char boundary             → `Panic.slice`
    * `self.node.children.pop().unwrap()`, `node.cast_mut::<Text>().unwrap()` → `Panic.unwrap`
    * `debug_assert!(start_pos <= end_pos)` in `get_map` (active in the harness build, which sets
      `debug-assertions = true`)                            → `Panic.assert`

  The per-line table `srcmap : Vec<(usize, usize)>` is `Srcmap`: `(k, v)` says "inline offset `k`
  is source offset `v`, and the bytes that follow correspond one to one up to the next key".
  `BlockState::get_lines` pushes one entry per line, and a second one `(k + n, v)` after the `n`
  virtual spaces standing for the cut part of a split tab (those spaces have no source bytes).
-/
import MdIt.Model.SourceMap

namespace MdIt.InlineOps

inductive Panic where
  | underflow
  | index
  | slice
  | unwrap
  | assert
  deriving Repr, DecidableEq

abbrev Srcmap := List (Nat × Nat)

/-! ## `get_source_pos_for`, `get_map` -/

/-- `match self.srcmap.binary_search_by(|x| x.0.cmp(&pos)) { Ok(x) => x, Err(x) => x - 1 }`.
    The bisection is `MdIt.SourceMap.bsearch` (proved to meet the contract of `binary_search_by`,
    which determines the answer on strictly increasing keys). -/
def lineOf (m : Srcmap) (pos : Nat) : Except Panic Nat :=
  match MdIt.SourceMap.bsearch (m.map Prod.fst) pos with
  | .inl x => .ok x
  | .inr x => if x = 0 then .error .underflow else .ok (x - 1)

/-- the affine part of `get_source_pos_for`: `self.srcmap[line].1 + (pos - self.srcmap[line].0)`
    (the whole function before `fix:` "positions inside the virtual spaces of a split tab"; kept under this
    name because most range lemmas are about it and `getSourcePosFor_eq_raw` transports them) -/
def getSourcePosForRaw (m : Srcmap) (pos : Nat) : Except Panic Nat :=
  match lineOf m pos with
  | .error e => .error e
  | .ok line =>
    match m[line]? with
    | none => .error .index
    | some (k, v) => if pos < k then .error .underflow else .ok (v + (pos - k))

/-- `get_source_pos_for`: the affine offset, clamped to the source position of the NEXT table entry
    (`match self.srcmap.get(line + 1) { Some(next) => offset.min(next.1), None => offset }`): the
    spaces of a partially consumed tab have no bytes of their own. -/
def getSourcePosFor (m : Srcmap) (pos : Nat) : Except Panic Nat :=
  match lineOf m pos with
  | .error e => .error e
  | .ok line =>
    match m[line]? with
    | none => .error .index
    | some (k, v) =>
      if pos < k then .error .underflow
      else
        match m[line + 1]? with
        | some (_, v') => .ok (min (v + (pos - k)) v')
        | none => .ok (v + (pos - k))

/-- `get_map(start_pos, end_pos)` (always `Some`) -/
def getMap (m : Srcmap) (startPos endPos : Nat) : Except Panic (Nat × Nat) :=
  if endPos < startPos then .error .assert else
  match getSourcePosFor m startPos with
  | .error e => .error e
  | .ok a =>
    match getSourcePosFor m endPos with
    | .error e => .error e
    | .ok b => .ok (a, b)

/-! ## strings -/

/-- `str::len` -/
def byteLen : List Char → Nat
  | [] => 0
  | c :: r => c.utf8Size + byteLen r

/-- split at byte offset `n`; `none` unless `n` is a char boundary `≤ len` -/
def splitAtByte : List Char → Nat → Option (List Char × List Char)
  | [], n => if n = 0 then some ([], []) else none
  | c :: r, n =>
    if n = 0 then some ([], c :: r)
    else if n < c.utf8Size then none
    else match splitAtByte r (n - c.utf8Size) with
      | none => none
      | some (a, b) => some (c :: a, b)

/-- `&s[start..end]` -/
def slice (s : List Char) (start stop : Nat) : Except Panic (List Char) :=
  if stop < start then .error .slice else
  match splitAtByte s start with
  | none => .error .slice
  | some (_, tail) =>
    match splitAtByte tail (stop - start) with
    | none => .error .slice
    | some (mid, _) => .ok mid

/-- `String::truncate(new_len)` for `new_len ≤ len` (the callers compute `len - count`) -/
def truncate (s : List Char) (newLen : Nat) : Except Panic (List Char) :=
  match splitAtByte s newLen with
  | none => .error .slice
  | some (a, _) => .ok a

/-! ## inline children -/

/-- node kinds this slice distinguishes: `Text`, `EmphMarker` (with its marker character), anything else -/
inductive Kind where
  | text
  | marker (ch : Char)
  | other (k : Nat)
  deriving Repr, DecidableEq

/-- `content` is `Text::content` (unused for other kinds), `range` is `Node::srcmap` as byte offsets,
    `remaining` is `EmphMarker::remaining` (unused for other kinds) -/
structure INode where
  kind : Kind
  content : List Char
  range : Option (Nat × Nat)
  children : List INode
  remaining : Nat
  deriving Repr

def INode.isText (n : INode) : Bool :=
  match n.kind with
  | .text => true
  | _ => false

/-- `Node::new(Text { content })` -/
def INode.newText (content : List Char) (range : Option (Nat × Nat)) : INode :=
  { kind := .text, content := content, range := range, children := [], remaining := 0 }

/-- an opaque node pushed by some other inline rule -/
def INode.newOther (k : Nat) (range : Option (Nat × Nat)) : INode :=
  { kind := .other k, content := [], range := range, children := [], remaining := 0 }

/-- `Vec::pop`: the list without its last element, and that element -/
def popLast : List INode → Option (List INode × INode)
  | [] => none
  | [x] => some ([], x)
  | x :: y :: r =>
    match popLast (y :: r) with
    | none => none
    | some (init, l) => some (x :: init, l)

/-- `trailing_text_push(start, end)` -/
def trailingTextPush (src : List Char) (m : Srcmap) (children : List INode) (start stop : Nat) :
    Except Panic (List INode) :=
  let fresh : Except Panic (List INode) :=
    -- `Node::new(Text { content: self.src[start..end].to_owned() })`, `get_map(start, end)`, `push`
    match slice src start stop with
    | .error e => .error e
    | .ok piece =>
      match getMap m start stop with
      | .error e => .error e
      | .ok r => .ok (children ++ [INode.newText piece (some r)])
  match popLast children with
  | none => fresh
  | some (init, last) =>
    if last.isText then
      -- `text.content.push_str(&self.src[start..end])`
      match slice src start stop with
      | .error e => .error e
      | .ok piece =>
        match last.range with
        | none => .ok (init ++ [{ last with content := last.content ++ piece }])
        | some (mapStart, _) =>
          match getSourcePosFor m stop with
          | .error e => .error e
          | .ok mapEnd =>
            .ok (init ++ [{ last with content := last.content ++ piece, range := some (mapStart, mapEnd) }])
    else fresh

/-- `trailing_text_pop(count)` -/
def trailingTextPop (children : List INode) (count : Nat) : Except Panic (List INode) :=
  if count = 0 then .ok children else
  match popLast children with
  | none => .error .unwrap                        -- `children.pop().unwrap()`
  | some (init, node) =>
    if !node.isText then .error .unwrap           -- `cast_mut::<Text>().unwrap()`
    else if byteLen node.content = count then .ok init
    else if byteLen node.content < count then .error .underflow   -- `len() - count`
    else
      match truncate node.content (byteLen node.content - count) with
      | .error e => .error e
      | .ok content' =>
        match node.range with
        | none => .ok (init ++ [{ node with content := content' }])
        | some (mapStart, mapEnd) =>
          if mapEnd < count then .error .underflow                 -- `map_end - count`
          else .ok (init ++ [{ node with content := content', range := some (mapStart, mapEnd - count) }])

/-- `trailing_text_get()` -/
def trailingTextGet (children : List INode) : List Char :=
  match popLast children with
  | none => []
  | some (_, last) => if last.isText then last.content else []

/-! ## `InlineParserRule`: the splice loop

  Block-level tree whose nodes are either `InlineRoot` placeholders or something else. -/

structure BNode where
  isRoot : Bool          -- `child.cast_mut::<InlineRoot>().is_some()`
  tag : Nat              -- whatever else the node carries (kind, payload, …)
  children : List BNode
  deriving Repr

/-- The `while idx < node.children.len()` loop of `walk_recursive` at ONE node.
    `parse` stands for `md.inline.parse(content, mapping, root, md, env).children` (the placeholder
    itself is handed over with `mem::take`, its children cleared), `recur` for the recursive call
    `walk_recursive(child, md, env)` on a non-placeholder child.
    `node.children.splice(idx..=idx, new)` is `take idx ++ new ++ drop (idx + 1)`; then `idx += len`
    (which may be 0).  The measure `len - idx` drops by exactly one per iteration. -/
def spliceLoop (parse : BNode → List BNode) (recur : BNode → BNode) (cs : List BNode) (idx : Nat) :
    List BNode :=
  if h : idx < cs.length then
    let child := cs[idx]
    if child.isRoot then
      let new := parse child
      spliceLoop parse recur (cs.take idx ++ new ++ cs.drop (idx + 1)) (idx + new.length)
    else
      spliceLoop parse recur (cs.set idx (recur child)) (idx + 1)
  else cs
termination_by cs.length - idx
decreasing_by
  · simp only [List.length_append, List.length_take, List.length_drop]; omega
  · simp only [List.length_set]; omega

mutual
/-- `walk_recursive(node, md, env)` as a structural recursion (equal to the loop:
    `Props/C14.walkNode_eq_loop`) -/
def walkNode (parse : BNode → List BNode) : BNode → BNode
  | ⟨r, t, cs⟩ => ⟨r, t, walkList parse cs⟩
def walkList (parse : BNode → List BNode) : List BNode → List BNode
  | [] => []
  | c :: cs =>
    if c.isRoot then parse c ++ walkList parse cs
    else walkNode parse c :: walkList parse cs
end

end MdIt.InlineOps
